(* NumTheory_proofs.v — lemmas about the C17 model (model/NumTheory.v):
   capacity/truncation, byte conversions, modular exponentiation, extended Euclid
   and modular inverse (sound + complete, fuel sufficient), CRT recombination,
   modular square root (returned root squares back; complete for p = 3 mod 4
   relative to Euler's criterion), Jacobi loop invariant relative to the
   reciprocity laws. *)
From Coq Require Import List ZArith NArith Lia Bool Znumtheory Zeuclid Zpow_facts.
From Coq Require Import ZifyN ZifyNat ZifyBool.
Require Import V.base.Bytes V.model.NumTheory.
Import ListNotations.
Local Open Scope Z_scope.

(* ------------------------------------------------------------------ capacity *)

Lemma pow2_pos k : 0 < pow2 k.
Proof. unfold pow2. apply Z.pow_pos_nonneg; lia. Qed.

Lemma pow2_nonneg_eq k : 0 <= k -> pow2 k = 2 ^ k.
Proof. intros Hk. unfold pow2. rewrite Z.max_r by lia. reflexivity. Qed.

Lemma trunc_range cap v : 0 <= trunc cap v < pow2 cap.
Proof. unfold trunc. apply Z.mod_pos_bound, pow2_pos. Qed.

Lemma trunc_small cap v : 0 <= v < pow2 cap -> trunc cap v = v.
Proof. intros H. unfold trunc. apply Z.mod_small; exact H. Qed.

Lemma trunc_idem cap v : trunc cap (trunc cap v) = trunc cap v.
Proof. apply trunc_small, trunc_range. Qed.

(* truncation is the bit mask with cap ones *)
Lemma trunc_land cap v : 0 <= cap -> trunc cap v = Z.land v (Z.ones cap).
Proof.
  intros Hc. unfold trunc. rewrite pow2_nonneg_eq by exact Hc.
  symmetry. apply Z.land_ones; exact Hc.
Qed.

(* arithmetic on truncated operands = truncated arithmetic (ring homomorphism
   Z -> Z/2^cap): the value of an operation with capacity cap only depends on
   the operands modulo 2^cap *)
Lemma trunc_add cap x y : trunc cap (trunc cap x + trunc cap y) = trunc cap (x + y).
Proof.
  unfold trunc. pose proof (pow2_pos cap) as Hp.
  rewrite <- Z.add_mod by lia. reflexivity.
Qed.

Lemma trunc_sub cap x y : trunc cap (trunc cap x - trunc cap y) = trunc cap (x - y).
Proof.
  unfold trunc. pose proof (pow2_pos cap) as Hp.
  rewrite <- Zminus_mod. reflexivity.
Qed.

Lemma trunc_mul cap x y : trunc cap (trunc cap x * trunc cap y) = trunc cap (x * y).
Proof.
  unfold trunc. pose proof (pow2_pos cap) as Hp.
  rewrite <- Z.mul_mod by lia. reflexivity.
Qed.

Lemma pow2_mono a b : a <= b -> pow2 a <= pow2 b.
Proof. intros H. unfold pow2. apply Z.pow_le_mono_r; lia. Qed.

Lemma pow2_add a b : 0 <= a -> 0 <= b -> pow2 (a + b) = pow2 a * pow2 b.
Proof.
  intros Ha Hb. rewrite !pow2_nonneg_eq by lia. apply Z.pow_add_r; lia.
Qed.

(* with the default capacity nothing is lost *)
Lemma add_cap_default_exact x ax y ay :
  0 <= ax -> 0 <= ay -> 0 <= x < pow2 ax -> 0 <= y < pow2 ay ->
  add_cap x ax y ay (-1) = x + y.
Proof.
  intros Hax Hay Hx Hy. unfold add_cap, dflt. cbn [Z.ltb Z.compare].
  apply trunc_small.
  assert (Hm : pow2 (Z.max ax ay + 1) = 2 * pow2 (Z.max ax ay)).
  { rewrite pow2_add by lia. rewrite (pow2_nonneg_eq 1) by lia. lia. }
  pose proof (pow2_mono ax (Z.max ax ay) ltac:(lia)).
  pose proof (pow2_mono ay (Z.max ax ay) ltac:(lia)).
  lia.
Qed.

Lemma mul_cap_default_exact x ax y ay :
  0 <= ax -> 0 <= ay -> 0 <= x < pow2 ax -> 0 <= y < pow2 ay ->
  mul_cap x ax y ay (-1) = x * y.
Proof.
  intros Hax Hay Hx Hy. unfold mul_cap, dflt. cbn [Z.ltb Z.compare].
  apply trunc_small. rewrite pow2_add by lia. nia.
Qed.

(* subtraction wraps modulo 2^cap (two's complement) *)
Lemma sub_cap_spec x ax y ay cap :
  let c := dflt cap (Z.max ax ay) in
  0 <= sub_cap x ax y ay cap < pow2 c /\ (pow2 c | sub_cap x ax y ay cap - (x - y)).
Proof.
  cbv zeta. unfold sub_cap. split; [apply trunc_range|].
  unfold trunc. pose proof (pow2_pos (dflt cap (Z.max ax ay))) as Hp.
  rewrite Z.mod_eq by lia. exists (- ((x - y) / pow2 (dflt cap (Z.max ax ay)))). ring.
Qed.

Lemma sub_cap_no_borrow x ax y ay :
  0 <= y <= x -> x < pow2 (Z.max ax ay) -> sub_cap x ax y ay (-1) = x - y.
Proof.
  intros H Hx. unfold sub_cap, dflt. cbn [Z.ltb Z.compare]. apply trunc_small. lia.
Qed.

(* a left shift is a multiplication, a right shift a floor division; explicit
   capacities truncate *)
Lemma lsh_cap_default_exact x ax s :
  0 <= ax -> 0 <= s -> 0 <= x < pow2 ax -> lsh_cap x ax s (-1) = x * 2 ^ s.
Proof.
  intros Hax Hs Hx. unfold lsh_cap, dflt. cbn [Z.ltb Z.compare].
  apply trunc_small. rewrite pow2_add by lia. rewrite (pow2_nonneg_eq s) by lia.
  assert (0 < 2 ^ s) by (apply Z.pow_pos_nonneg; lia). nia.
Qed.

Lemma rsh_cap_default_exact x ax s :
  0 <= ax -> 0 <= s -> 0 <= x < pow2 ax -> rsh_cap x ax s (-1) = x / 2 ^ s.
Proof.
  intros Hax Hs Hx. unfold rsh_cap, dflt. cbn [Z.ltb Z.compare].
  apply trunc_small.
  assert (Hp : 0 < 2 ^ s) by (apply Z.pow_pos_nonneg; lia).
  split; [apply Z.div_pos; lia|].
  destruct (Z.le_gt_cases s ax) as [Hle|Hgt].
  - rewrite Z.max_r by lia.
    apply Z.div_lt_upper_bound; [lia|].
    rewrite <- (pow2_nonneg_eq s) by lia. rewrite <- pow2_add by lia.
    replace (s + (ax - s)) with ax by ring. lia.
  - rewrite Z.max_l by lia. unfold pow2 at 1. cbn.
    apply Z.div_lt_upper_bound; [lia|].
    rewrite pow2_nonneg_eq in Hx by lia.
    assert (2 ^ ax <= 2 ^ s) by (apply Z.pow_le_mono_r; lia). lia.
Qed.

(* an Int operand keeps its sign; a magnitude that fits is unchanged *)
Lemma int_in_small a v : Z.abs v < pow2 a -> int_in a v = v.
Proof.
  intros H. unfold int_in. rewrite trunc_small by lia.
  destruct v; cbn; lia.
Qed.

(* symmetric residue: congruent, in [-m/2, m/2) *)
Lemma mod_symmetric_spec x m : 0 < m ->
  (m | mod_symmetric x m - x) /\ - m <= 2 * mod_symmetric x m < m.
Proof.
  intros Hm. unfold mod_symmetric.
  pose proof (Z.mod_pos_bound x m Hm) as Hb.
  assert (Hd : (m | x mod m - x)).
  { rewrite Z.mod_eq by lia. exists (- (x / m)). ring. }
  destruct (2 * (x mod m) <? m) eqn:E.
  - split; [exact Hd|lia].
  - split; [|lia]. destruct Hd as [k Hk]. exists (k - 1). lia.
Qed.

(* ------------------------------------------------------------------ bytes *)

Lemma be_valueZ_be_bytesZ k n : 0 <= k -> 0 <= n < 256 ^ k -> be_valueZ (be_bytesZ k n) = n.
Proof.
  intros Hk Hn. unfold be_valueZ, be_bytesZ.
  rewrite map_map. rewrite (map_ext _ (fun x => x)) by (intros; apply N2Z.id).
  rewrite map_id. rewrite be_value_be_bytes.
  - lia.
  - assert (H : (Z.to_N n < 256 ^ N.of_nat (Z.to_nat k))%N); [|exact H].
    assert (E : Z.of_N (256 ^ N.of_nat (Z.to_nat k)) = 256 ^ k).
    { rewrite N2Z.inj_pow. f_equal. lia. }
    lia.
Qed.

(* numct.Nat.Bytes / SetBytes round trip *)
Lemma nat_bytes_roundtrip x ax : 0 <= ax -> 0 <= x < pow2 ax -> be_valueZ (nat_bytes x ax) = x.
Proof.
  intros Hax Hx. unfold nat_bytes. apply be_valueZ_be_bytesZ.
  - apply Z.div_pos; lia.
  - split; [lia|]. rewrite pow2_nonneg_eq in Hx by lia.
    replace 256 with (2 ^ 8) by reflexivity. rewrite <- Z.pow_mul_r by (try apply Z.div_pos; lia).
    assert (ax <= 8 * ((ax + 7) / 8)) by (pose proof (Z.div_mod (ax + 7) 8 ltac:(lia)); pose proof (Z.mod_pos_bound (ax + 7) 8 ltac:(lia)); lia).
    assert (2 ^ ax <= 2 ^ (8 * ((ax + 7) / 8))) by (apply Z.pow_le_mono_r; lia). lia.
Qed.

Lemma be_bytesZ_length k n : length (be_bytesZ k n) = Z.to_nat k.
Proof. unfold be_bytesZ. rewrite map_length. apply be_bytes_length. Qed.

(* two's complement round trip (numct.Int.TwosComplementBytesBE / SetTwosComplementBytesBE) *)
Lemma twos_roundtrip x ax : 0 <= ax -> Z.abs x < pow2 ax -> twos_value (twos_bytes x ax) = x.
Proof.
  intros Hax Hx. unfold twos_value, twos_bytes.
  set (k := (ax + 1 + 7) / 8).
  assert (Hk : 0 < k).
  { unfold k. apply Z.div_str_pos. lia. }
  rewrite be_bytesZ_length. rewrite Z2Nat.id by lia.
  assert (Hp : pow2 (8 * k) = 256 ^ k).
  { rewrite pow2_nonneg_eq by lia. replace 256 with (2 ^ 8) by reflexivity.
    rewrite <- Z.pow_mul_r by lia. reflexivity. }
  rewrite be_valueZ_be_bytesZ; [|lia|rewrite <- Hp; apply Z.mod_pos_bound, pow2_pos].
  assert (Hle : ax + 1 <= 8 * k).
  { unfold k. pose proof (Z.div_mod (ax + 1 + 7) 8 ltac:(lia)). pose proof (Z.mod_pos_bound (ax + 1 + 7) 8 ltac:(lia)). lia. }
  assert (Hh : pow2 (8 * k) = 2 * pow2 (8 * k - 1)).
  { replace (8 * k) with ((8 * k - 1) + 1) at 1 by ring. rewrite pow2_add by lia.
    rewrite (pow2_nonneg_eq 1) by lia. lia. }
  assert (Hb : pow2 ax <= pow2 (8 * k - 1)) by (apply pow2_mono; lia).
  destruct (Z.lt_ge_cases x 0) as [Hneg|Hpos].
  - assert (E : x mod pow2 (8 * k) = x + pow2 (8 * k)).
    { symmetry. apply Z.mod_unique_pos with (q := -1); lia. }
    rewrite E. destruct (x + pow2 (8 * k) <? pow2 (8 * k - 1)) eqn:C; lia.
  - rewrite Z.mod_small by lia.
    destruct (x <? pow2 (8 * k - 1)) eqn:C; lia.
Qed.

(* ------------------------------------------------------------------ modular exponentiation *)

Lemma modpow_pos_spec b e m : 0 < m -> modpow_pos b e m = (b ^ Z.pos e) mod m.
Proof.
  intros Hm. induction e as [e IH|e IH|].
  - cbn [modpow_pos]. rewrite IH.
    rewrite Pos2Z.inj_xI. rewrite Z.pow_add_r by lia. rewrite Z.pow_twice_r, Z.pow_1_r.
    rewrite <- Z.mul_mod by lia. rewrite Z.mul_mod_idemp_l by lia. reflexivity.
  - cbn [modpow_pos]. rewrite IH.
    rewrite Pos2Z.inj_xO. rewrite Z.pow_twice_r.
    rewrite <- Z.mul_mod by lia. reflexivity.
  - cbn [modpow_pos]. rewrite Z.pow_1_r. reflexivity.
Qed.

Lemma modpow_spec b e m : 0 < m -> 0 <= e -> modpow b e m = (b ^ e) mod m.
Proof.
  intros Hm He. destruct e as [|p|p]; [reflexivity| |lia].
  cbn [modpow]. apply modpow_pos_spec; exact Hm.
Qed.

(* ------------------------------------------------------------------ extended Euclid *)

Lemma egcd_invariant x m : forall fuel r0 r1 s0 s1 g s,
  egcd fuel r0 r1 s0 s1 = Some (g, s) ->
  0 <= r0 -> 0 <= r1 ->
  (m | r0 - s0 * x) -> (m | r1 - s1 * x) ->
  g = Z.gcd r0 r1 /\ (m | g - s * x).
Proof.
  induction fuel as [|f IH]; intros r0 r1 s0 s1 g s H Hr0 Hr1 H0 H1; [discriminate|].
  cbn [egcd] in H. destruct (r1 =? 0) eqn:E.
  - injection H as <- <-. apply Z.eqb_eq in E. subst r1.
    rewrite Z.gcd_0_r, Z.abs_eq by lia. split; [reflexivity|exact H0].
  - apply Z.eqb_neq in E.
    assert (Hm : r0 - r0 / r1 * r1 = r0 mod r1) by (rewrite Z.mod_eq by lia; ring).
    apply IH in H.
    + destruct H as [Hg Hd]. split; [|exact Hd].
      rewrite Hg, Hm. rewrite Z.gcd_comm. rewrite Z.gcd_mod by lia. apply Z.gcd_comm.
    + exact Hr1.
    + rewrite Hm. apply Z.mod_pos_bound. lia.
    + exact H1.
    + replace (r0 - r0 / r1 * r1 - (s0 - r0 / r1 * s1) * x)
        with ((r0 - s0 * x) - (r0 / r1) * (r1 - s1 * x)) by ring.
      apply Z.divide_sub_r; [exact H0|]. apply Z.divide_mul_r; exact H1.
Qed.

(* the remainder at least halves every two steps: 2n+1 steps suffice for r1 < 2^n *)
Lemma egcd_terminates : forall (n : nat) (fuel : nat) r0 r1 s0 s1,
  (2 * n + 1 <= fuel)%nat -> 0 <= r1 < 2 ^ Z.of_nat n ->
  exists res, egcd fuel r0 r1 s0 s1 = Some res.
Proof.
  induction n as [|n IH]; intros fuel r0 r1 s0 s1 Hf Hr.
  - destruct fuel as [|f]; [lia|]. cbn [egcd].
    assert (r1 = 0) by (cbn in Hr; lia). subst r1. cbn. eexists; reflexivity.
  - destruct fuel as [|f]; [lia|]. cbn [egcd].
    destruct (r1 =? 0) eqn:E; [eexists; reflexivity|]. apply Z.eqb_neq in E.
    destruct f as [|f]; [lia|]. cbn [egcd].
    set (c := r0 - r0 / r1 * r1).
    assert (Hc : c = r0 mod r1) by (unfold c; rewrite Z.mod_eq by lia; ring).
    assert (Hcb : 0 <= c < r1) by (rewrite Hc; apply Z.mod_pos_bound; lia).
    destruct (c =? 0) eqn:E2; [eexists; reflexivity|]. apply Z.eqb_neq in E2.
    apply IH; [lia|].
    assert (Hd : r1 - r1 / c * c = r1 mod c) by (rewrite Z.mod_eq by lia; ring).
    rewrite Hd.
    pose proof (Z.mod_pos_bound r1 c ltac:(lia)) as Hb.
    pose proof (Z.div_mod r1 c ltac:(lia)) as Hdm.
    assert (1 <= r1 / c) by (apply Z.div_le_lower_bound; lia).
    rewrite Nat2Z.inj_succ, Z.pow_succ_r in Hr by lia.
    split; [lia|]. nia.
Qed.

Lemma egcd_fuel_enough m x : 0 < m ->
  exists res, egcd (egcd_fuel m) m (x mod m) 0 1 = Some res.
Proof.
  intros Hm.
  apply (egcd_terminates (Z.to_nat (Z.log2_up (Z.max m 1)))).
  - unfold egcd_fuel. pose proof (Z.log2_up_nonneg (Z.max m 1)). lia.
  - pose proof (Z.mod_pos_bound x m Hm) as Hb.
    rewrite Z2Nat.id by apply Z.log2_up_nonneg.
    rewrite Z.max_l by lia.
    destruct (Z.eq_dec m 1) as [->|Hne].
    + cbn. lia.
    + pose proof (Z.log2_up_spec m ltac:(lia)). lia.
Qed.

(* ------------------------------------------------------------------ modular inverse *)

Lemma modinv_sound x m r : 0 < m -> modinv x m = Some r -> 0 <= r < m /\ (r * x) mod m = 1.
Proof.
  intros Hm H. unfold modinv in H.
  destruct (egcd (egcd_fuel m) m (x mod m) 0 1) as [[g s]|]; [|discriminate].
  destruct ((s mod m * x) mod m =? 1) eqn:E; [|discriminate].
  injection H as <-. apply Z.eqb_eq in E. split; [apply Z.mod_pos_bound; exact Hm|exact E].
Qed.

Lemma inverse_implies_coprime x m r : 0 < m -> (r * x) mod m = 1 -> Z.gcd x m = 1.
Proof.
  intros Hm H.
  apply Z.divide_1_r_nonneg; [apply Z.gcd_nonneg|].
  rewrite Z.mod_eq in H by lia.
  replace 1 with (r * x - m * (r * x / m)) by lia.
  apply Z.divide_sub_r.
  - apply Z.divide_mul_r, Z.gcd_divide_l.
  - apply Z.divide_mul_l, Z.gcd_divide_r.
Qed.

Lemma modinv_complete x m : 1 < m -> Z.gcd x m = 1 -> exists r, modinv x m = Some r.
Proof.
  intros Hm Hg. unfold modinv.
  destruct (egcd_fuel_enough m x ltac:(lia)) as [[g s] He]. rewrite He.
  apply (egcd_invariant x m) in He.
  - destruct He as [Hgcd Hd].
    assert (g = 1).
    { rewrite Hgcd. rewrite Z.gcd_comm, Z.gcd_mod by lia. rewrite Z.gcd_comm. exact Hg. }
    subst g.
    assert (E : (s mod m * x) mod m = 1).
    { rewrite Z.mul_mod_idemp_l by lia.
      destruct Hd as [k Hk].
      replace (s * x) with (1 + (- k) * m) by lia.
      rewrite Z.mod_add by lia. apply Z.mod_small. lia. }
    rewrite E. cbn. eexists; reflexivity.
  - lia.
  - apply Z.mod_pos_bound. lia.
  - exists 1. ring.
  - rewrite Z.mod_eq by lia. exists (- (x / m)). ring.
Qed.

(* ModInv reports non-invertibility exactly when it holds *)
Lemma modinv_iff_coprime x m : 1 < m -> ((exists r, modinv x m = Some r) <-> Z.gcd x m = 1).
Proof.
  intros Hm. split.
  - intros [r H]. apply modinv_sound in H; [|lia]. destruct H as [_ H].
    apply (inverse_implies_coprime x m r); [lia|exact H].
  - apply modinv_complete; exact Hm.
Qed.

(* ------------------------------------------------------------------ CRT *)

Lemma crt_precompute_spec p q qinv : 0 < p -> crt_precompute p q = Some qinv ->
  0 <= qinv < p /\ (qinv * q) mod p = 1.
Proof.
  intros Hp H. unfold crt_precompute in H. apply modinv_sound in H; [|exact Hp].
  destruct H as [Hr H]. split; [exact Hr|].
  rewrite Z.mul_mod_idemp_r in H by lia. exact H.
Qed.

Lemma coprime_divide_mul p q a : Z.gcd p q = 1 -> (p | a) -> (q | a) -> (p * q | a).
Proof.
  intros Hg [k Hk] Hq. subst a.
  assert (Hqk : (q | k)).
  { apply (Z.gauss q p k); [rewrite Z.mul_comm; exact Hq|rewrite Z.gcd_comm; exact Hg]. }
  destruct Hqk as [j Hj]. subst k. exists j. ring.
Qed.

Lemma crt_unique p q r r' : 0 < p -> 0 < q -> Z.gcd p q = 1 ->
  0 <= r < p * q -> 0 <= r' < p * q ->
  r mod p = r' mod p -> r mod q = r' mod q -> r = r'.
Proof.
  intros Hp Hq Hg Hr Hr' Ep Eq.
  assert (Hdp : (p | r - r')).
  { apply Z.mod_divide; [lia|]. rewrite Zminus_mod, Ep, Z.sub_diag. apply Z.mod_0_l. lia. }
  assert (Hdq : (q | r - r')).
  { apply Z.mod_divide; [lia|]. rewrite Zminus_mod, Eq, Z.sub_diag. apply Z.mod_0_l. lia. }
  destruct (coprime_divide_mul p q (r - r') Hg Hdp Hdq) as [k Hk].
  assert (k = 0) by nia. subst k. lia.
Qed.

(* crt.Params.Recombine: for coprime moduli and a reduced second residue the
   recombined value is THE residue modulo p*q with the given residues *)
Lemma crt_recombine_correct p q qinv cap mp mq :
  0 < p -> 0 < q -> Z.gcd p q = 1 ->
  crt_precompute p q = Some qinv ->
  0 <= mq < q -> p * q <= pow2 cap ->
  let r := crt_recombine p q qinv cap mp mq in
  0 <= r < p * q /\ r mod p = mp mod p /\ r mod q = mq /\
  (forall r', 0 <= r' < p * q -> r' mod p = mp mod p -> r' mod q = mq -> r' = r).
Proof.
  intros Hp Hq Hg Hpre Hmq Hcap. cbv zeta.
  destruct (crt_precompute_spec p q qinv Hp Hpre) as [Hqi Hinv].
  unfold crt_recombine.
  set (h := (((mp - mq) mod p) * qinv) mod p).
  assert (Hh : 0 <= h < p) by (apply Z.mod_pos_bound; exact Hp).
  assert (Hb : 0 <= h * q + mq < p * q) by nia.
  rewrite trunc_small by lia.
  assert (Emq : (h * q + mq) mod q = mq).
  { rewrite Z.add_comm, Z.mod_add by lia. apply Z.mod_small; exact Hmq. }
  assert (Emp : (h * q + mq) mod p = mp mod p).
  { (* h*q = (mp - mq) * (qinv*q) = mp - mq  (mod p) *)
    assert (Hd : (p | h * q + mq - mp)).
    { pose proof (Z.div_mod (mp - mq) p ltac:(lia)) as E1.
      pose proof (Z.div_mod (((mp - mq) mod p) * qinv) p ltac:(lia)) as E2.
      pose proof (Z.div_mod (qinv * q) p ltac:(lia)) as E3. rewrite Hinv in E3.
      fold h in E2.
      remember ((mp - mq) mod p) as a eqn:Ea.
      remember ((mp - mq) / p) as k1 eqn:Ek1.
      remember (a * qinv / p) as k2 eqn:Ek2.
      remember (qinv * q / p) as k3 eqn:Ek3.
      remember (mp - mq) as dm eqn:Edm.
      exists (a * k3 - k2 * q - k1).
      assert (Hh' : h = a * qinv - p * k2) by lia.
      rewrite Hh'.
      replace ((a * qinv - p * k2) * q + mq - mp) with (a * (qinv * q) - p * k2 * q - dm) by (subst dm; ring).
      rewrite E3, E1. ring. }
    destruct Hd as [k Hk].
    replace (h * q + mq) with (mp + k * p) by lia.
    apply Z.mod_add. lia. }
  split; [exact Hb|]. split; [exact Emp|]. split; [exact Emq|].
  intros r' Hr' E1 E2.
  apply (crt_unique p q r' (h * q + mq) Hp Hq Hg Hr' Hb); congruence.
Qed.

(* ------------------------------------------------------------------ modular square root *)

(* whatever ModSqrt returns squares back to the argument (the code's final check) *)
Lemma sqrt_returned_squares_back x m r :
  0 < m -> modsqrt x m = SqrtOk r -> (r * r) mod m = x mod m.
Proof.
  intros Hm H. unfold modsqrt in H. cbv zeta in H.
  destruct (is_prime_mr m).
  - destruct (Z.even m); [discriminate|].
    destruct (if m mod 4 =? 3 then Some (modpow (x mod m) ((m + 1) / 4) m) else tonelli_shanks (x mod m) m) as [c|];
      [|discriminate].
    destruct ((c * c) mod m =? x mod m) eqn:E; [|discriminate].
    injection H as <-. apply Z.eqb_eq. exact E.
  - destruct (Z.sqrt (x mod m) * Z.sqrt (x mod m) =? x mod m) eqn:E; [|discriminate].
    injection H as <-. apply Z.eqb_eq in E. rewrite E. apply Z.mod_mod. lia.
Qed.

Lemma sqrt_result_reduced x m r :
  0 < m -> is_prime_mr m = true -> m mod 4 = 3 -> modsqrt x m = SqrtOk r -> 0 <= r < m.
Proof.
  intros Hm Hp H4 H. unfold modsqrt in H. cbv zeta in H. rewrite Hp in H.
  destruct (Z.even m); [discriminate|].
  rewrite H4 in H. cbn [Z.eqb Pos.eqb] in H.
  destruct ((modpow (x mod m) ((m + 1) / 4) m * modpow (x mod m) ((m + 1) / 4) m) mod m =? x mod m); [|discriminate].
  injection H as <-.
  assert (0 <= (m + 1) / 4) by (apply Z.div_pos; lia).
  rewrite modpow_spec by lia. apply Z.mod_pos_bound. exact Hm.
Qed.

Section SqrtComplete.
  (* Euler's criterion, the half that is needed: a non-zero square is a
     ((p-1)/2)-th root of unity (a consequence of Fermat's little theorem, which
     is not in the standard library).  Stays a visible hypothesis. *)
  Hypothesis euler_criterion_square :
    forall p y, prime p -> 2 < p -> y mod p <> 0 -> ((y * y) ^ ((p - 1) / 2)) mod p = 1.

  (* for p = 3 (mod 4) a root is returned for every quadratic residue
     (the branch taken is x^((p+1)/4)); is_prime_mr p = true says that the code's
     primality test selects the prime branch *)
  Lemma sqrt_prime_complete x p :
    prime p -> is_prime_mr p = true -> p mod 4 = 3 ->
    (exists y, (y * y) mod p = x mod p) -> exists r, modsqrt x p = SqrtOk r.
  Proof.
    intros Hprime Hmr H4 [y Hy].
    pose proof (prime_ge_2 p Hprime) as Hp2.
    assert (Hp3 : 2 < p).
    { destruct (Z.eq_dec p 2) as [->|]; [cbn in H4; discriminate|lia]. }
    assert (Hodd : Z.even p = false).
    { rewrite Zeven_mod. pose proof (Z.div_mod p 4 ltac:(lia)) as E. rewrite H4 in E.
      replace (p mod 2) with 1; [reflexivity|].
      rewrite E. replace (4 * (p / 4) + 3) with (1 + (2 * (p / 4) + 1) * 2) by ring.
      rewrite Z.mod_add by lia. reflexivity. }
    unfold modsqrt. cbv zeta. rewrite Hmr, Hodd, H4. cbn [Z.eqb Pos.eqb].
    set (xr := x mod p).
    assert (Hxr : 0 <= xr < p) by (apply Z.mod_pos_bound; lia).
    set (k := (p + 1) / 4).
    assert (Hk : p + 1 = 4 * k).
    { unfold k. pose proof (Z.div_mod (p + 1) 4 ltac:(lia)) as E.
      pose proof (Z.div_mod p 4 ltac:(lia)) as E'. rewrite H4 in E'.
      assert ((p + 1) mod 4 = 0).
      { rewrite E'. replace (4 * (p / 4) + 3 + 1) with ((p / 4 + 1) * 4) by ring. apply Z.mod_mul. lia. }
      lia. }
    assert (Hk0 : 0 < k) by lia.
    rewrite modpow_spec by lia.
    assert (Hsq : ((xr ^ k) mod p * ((xr ^ k) mod p)) mod p = xr).
    { rewrite <- Z.mul_mod by lia. rewrite <- Z.pow_twice_r.
      assert (He : 2 * k = 1 + (p - 1) / 2).
      { replace (p - 1) with ((2 * k - 1) * 2) by lia. rewrite Z.div_mul by lia. ring. }
      rewrite He. rewrite Z.pow_add_r; [|lia|apply Z.div_pos; lia]. rewrite Z.pow_1_r.
      destruct (Z.eq_dec (y mod p) 0) as [Hy0|Hy0].
      - (* x = 0 mod p *)
        assert (xr = 0).
        { unfold xr. rewrite <- Hy. rewrite Z.mul_mod by lia. rewrite Hy0. reflexivity. }
        rewrite H. rewrite Z.mul_0_l. apply Z.mod_0_l. lia.
      - rewrite Z.mul_mod by lia.
        assert (E : (xr ^ ((p - 1) / 2)) mod p = 1).
        { unfold xr. rewrite <- Hy. rewrite <- Zpower_mod by lia.
          apply euler_criterion_square; assumption. }
        rewrite E. rewrite Z.mul_1_r. rewrite Z.mod_mod by lia. apply Z.mod_small. exact Hxr. }
    rewrite Hsq. rewrite Z.eqb_refl. eexists; reflexivity.
  Qed.
End SqrtComplete.

(* ------------------------------------------------------------------ Jacobi loop *)

Lemma odd_mod8 b : Z.odd b = true ->
  b mod 8 = 1 \/ b mod 8 = 3 \/ b mod 8 = 5 \/ b mod 8 = 7.
Proof.
  intros H. apply Z.odd_spec in H. destruct H as [k Hk].
  pose proof (Z.div_mod b 8 ltac:(lia)). pose proof (Z.mod_pos_bound b 8 ltac:(lia)). lia.
Qed.

Lemma jacobi_tab_sq b : Z.odd b = true -> jacobi_tab b * jacobi_tab b = 1.
Proof.
  intros H. unfold jacobi_tab. cbv zeta.
  destruct (odd_mod8 b H) as [E|[E|[E|E]]]; rewrite E; reflexivity.
Qed.

Lemma land_2 x : Z.land x 2 = if Z.testbit x 1 then 2 else 0.
Proof.
  apply Z.bits_inj'. intros n Hn. rewrite Z.land_spec.
  change 2 with (2 ^ 1) at 1. rewrite Z.pow2_bits_eqb by lia.
  destruct (Z.eqb_spec 1 n) as [<-|Hne].
  - rewrite andb_true_r. destruct (Z.testbit x 1); reflexivity.
  - rewrite andb_false_r. destruct (Z.testbit x 1).
    + change 2 with (2 ^ 1). rewrite Z.pow2_bits_eqb by lia.
      symmetry. apply Z.eqb_neq. exact Hne.
    + symmetry. apply Z.bits_0.
Qed.

Lemma testbit1_odd x : Z.odd x = true -> Z.testbit x 1 = (x mod 4 =? 3).
Proof.
  intros H. apply Z.odd_spec in H. destruct H as [k Hk].
  pose proof (Z.div_mod x 4 ltac:(lia)) as E4. pose proof (Z.mod_pos_bound x 4 ltac:(lia)) as B4.
  destruct (Z.testbit x 1) eqn:E.
  - apply Z.testbit_true in E; [|lia]. change (2 ^ 1) with 2 in E.
    pose proof (Z.div_mod x 2 ltac:(lia)) as E2. pose proof (Z.mod_pos_bound x 2 ltac:(lia)) as B2.
    pose proof (Z.div_mod (x / 2) 2 ltac:(lia)) as E3.
    symmetry. apply Z.eqb_eq. lia.
  - apply Z.testbit_false in E; [|lia]. change (2 ^ 1) with 2 in E.
    pose proof (Z.div_mod x 2 ltac:(lia)) as E2. pose proof (Z.mod_pos_bound x 2 ltac:(lia)) as B2.
    pose proof (Z.div_mod (x / 2) 2 ltac:(lia)) as E3.
    symmetry. apply Z.eqb_neq. lia.
Qed.

(* the sign test of the loop, "(a.Byte(0) & b.Byte(0) & 0b10) != 0", is
   "a = b = 3 (mod 4)" for odd a, b *)
Lemma recip_bit a b : Z.odd a = true -> Z.odd b = true ->
  (Z.land (Z.land a b) 2 =? 0) = negb ((a mod 4 =? 3) && (b mod 4 =? 3)).
Proof.
  intros Ha Hb. rewrite land_2, Z.land_spec.
  rewrite (testbit1_odd a Ha), (testbit1_odd b Hb).
  destruct ((a mod 4 =? 3) && (b mod 4 =? 3)); reflexivity.
Qed.

(* the inner loop removes exactly the factors of two *)
Lemma strip2_spec : forall fuel a i,
  0 < a -> Z.log2 a < Z.of_nat fuel ->
  let '(a1, j) := strip2 fuel a i in
  0 < a1 /\ Z.odd a1 = true /\ i <= j /\ a = a1 * 2 ^ (j - i).
Proof.
  induction fuel as [|f IH]; intros a i Ha Hf.
  - pose proof (Z.log2_nonneg a). lia.
  - cbn [strip2]. destruct (Z.even a) eqn:E.
    + apply Z.even_spec in E. destruct E as [k Hk].
      assert (Hk0 : 0 < k) by lia.
      assert (Hd : a / 2 = k) by (subst a; rewrite Z.mul_comm, Z.div_mul by lia; reflexivity).
      rewrite Hd.
      assert (Hl : Z.log2 k < Z.of_nat f).
      { subst a. rewrite Z.log2_double in Hf by lia. lia. }
      specialize (IH k (i + 1) Hk0 Hl).
      destruct (strip2 f k (i + 1)) as [a1 j].
      destruct IH as (H1 & H2 & H3 & H4).
      split; [exact H1|]. split; [exact H2|]. split; [lia|].
      subst a. rewrite H4. replace (j - i) with (Z.succ (j - (i + 1))) by lia.
      rewrite Z.pow_succ_r by lia. ring.
    + split; [exact Ha|]. split; [rewrite <- Z.negb_even, E; reflexivity|]. split; [lia|].
      rewrite Z.sub_diag. cbn. ring.
Qed.

Section JacobiLoop.
  (* [jac] is a specification of the Jacobi symbol; the laws below (periodicity,
     multiplicativity in the numerator, the value at 0, the second supplementary
     law and quadratic reciprocity — the first supplementary law is not needed by
     this loop) are not available in the installed libraries and stay visible
     hypotheses.  The proof content is the loop invariant. *)
  Variable jac : Z -> Z -> Z.
  Hypothesis jac_mod : forall a b, 0 < b -> Z.odd b = true -> jac a b = jac (a mod b) b.
  Hypothesis jac_mul : forall a a' b, 0 < b -> Z.odd b = true -> jac (a * a') b = jac a b * jac a' b.
  Hypothesis jac_zero : forall b, 0 < b -> Z.odd b = true -> jac 0 b = if b =? 1 then 1 else 0.
  Hypothesis jac_two : forall b, 0 < b -> Z.odd b = true -> jac 2 b = jacobi_tab b.
  Hypothesis jac_recip : forall a b, 0 < a -> 0 < b -> Z.odd a = true -> Z.odd b = true ->
    jac a b = (if (a mod 4 =? 3) && (b mod 4 =? 3) then -1 else 1) * jac b a.

  Lemma jac_pow2 a1 b k : 0 <= k -> 0 < b -> Z.odd b = true ->
    jac (a1 * 2 ^ k) b = (if Z.odd k then jacobi_tab b else 1) * jac a1 b.
  Proof.
    intros Hk Hb Ho. revert k Hk. apply natlike_ind.
    - rewrite Z.pow_0_r, Z.mul_1_r. change (Z.odd 0) with false. cbv iota. rewrite Z.mul_1_l. reflexivity.
    - intros k Hk IH. rewrite Z.pow_succ_r by lia.
      replace (a1 * (2 * 2 ^ k)) with (2 * (a1 * 2 ^ k)) by ring.
      rewrite jac_mul by assumption. rewrite IH, jac_two by assumption.
      rewrite Z.odd_succ. rewrite <- Z.negb_odd.
      pose proof (jacobi_tab_sq b Ho) as Hsq.
      destruct (Z.odd k); cbn [negb].
      + rewrite Z.mul_assoc, Hsq. reflexivity.
      + ring.
  Qed.

  (* loop invariant: ret * (a / b) is preserved; at exit a = 0 *)
  Lemma jacobi_loop_correct : forall fuel a b ret r,
    jacobi_loop fuel a b ret = Some r ->
    0 <= a -> 0 < b -> Z.odd b = true ->
    r = ret * jac a b.
  Proof.
    induction fuel as [|f IH]; intros a b ret r H Ha Hb Ho; [discriminate|].
    cbn [jacobi_loop] in H. destruct (a =? 0) eqn:E.
    - apply Z.eqb_eq in E. subst a. injection H as <-.
      rewrite jac_zero by assumption. destruct (b =? 1); ring.
    - apply Z.eqb_neq in E.
      assert (Ha' : 0 < a) by lia.
      pose proof (strip2_spec (Z.to_nat (Z.log2 a + 1)) a 0 Ha') as Hs.
      assert (Hfu : Z.log2 a < Z.of_nat (Z.to_nat (Z.log2 a + 1))).
      { pose proof (Z.log2_nonneg a). lia. }
      specialize (Hs Hfu).
      destruct (strip2 (Z.to_nat (Z.log2 a + 1)) a 0) as [a1 i].
      destruct Hs as (Ha1 & Hoa1 & Hi & Hfact). rewrite Z.sub_0_r in Hfact.
      apply IH in H; [| |exact Ha1|exact Hoa1].
      2:{ apply Z.mod_pos_bound. exact Ha1. }
      rewrite <- (jac_mod b a1) in H by assumption.
      rewrite H. rewrite Hfact.
      rewrite (jac_pow2 a1 b i Hi Hb Ho).
      rewrite (jac_recip a1 b Ha1 Hb Hoa1 Ho).
      rewrite (recip_bit a1 b Hoa1 Ho).
      destruct (Z.odd i); destruct ((a1 mod 4 =? 3) && (b mod 4 =? 3)); cbn [negb]; ring.
  Qed.

  (* nt.Jacobi: whatever the function returns is the Jacobi symbol; even or
     non-positive y is refused *)
  Lemma jacobi_correct x y j : jacobi x y = Some j -> j = jac x y.
  Proof.
    unfold jacobi. intros H.
    destruct ((y <=? 0) || Z.even y) eqn:G; [discriminate|].
    apply orb_false_iff in G. destruct G as [G1 G2].
    apply Z.leb_gt in G1.
    assert (Ho : Z.odd y = true) by (rewrite <- Z.negb_even, G2; reflexivity).
    apply jacobi_loop_correct in H; [| |exact G1|exact Ho].
    - rewrite Z.mul_1_l in H. destruct (x <? 0); [|exact H].
      rewrite <- jac_mod in H by assumption. exact H.
    - destruct (x <? 0) eqn:L; [apply Z.mod_pos_bound; exact G1|apply Z.ltb_ge in L; exact L].
  Qed.

  Lemma jacobi_refuses x y : y <= 0 \/ Z.even y = true -> jacobi x y = None.
  Proof.
    intros H. unfold jacobi.
    assert (E : (y <=? 0) || Z.even y = true).
    { destruct H as [H|H]; [apply Z.leb_le in H; rewrite H; reflexivity|rewrite H; apply orb_true_r]. }
    rewrite E. reflexivity.
  Qed.
End JacobiLoop.

(* ------------------------------------------------------------------ Jacobi loop: the fuel suffices *)

Lemma jacobi_loop_step f a b ret : 0 < a ->
  exists a1 ret', 0 < a1 <= a /\ Z.odd a1 = true /\
    jacobi_loop (S f) a b ret = jacobi_loop f (b mod a1) a1 ret'.
Proof.
  intros Ha. cbn [jacobi_loop].
  assert (E : (a =? 0) = false) by (apply Z.eqb_neq; lia). rewrite E.
  pose proof (strip2_spec (Z.to_nat (Z.log2 a + 1)) a 0 Ha) as Hs.
  assert (Hfu : Z.log2 a < Z.of_nat (Z.to_nat (Z.log2 a + 1))).
  { pose proof (Z.log2_nonneg a). lia. }
  specialize (Hs Hfu).
  destruct (strip2 (Z.to_nat (Z.log2 a + 1)) a 0) as [a1 i].
  destruct Hs as (Ha1 & Hoa1 & Hi & Hfact). rewrite Z.sub_0_r in Hfact.
  exists a1. eexists. split; [|split; [exact Hoa1|reflexivity]].
  assert (1 <= 2 ^ i) by (pose proof (Z.pow_pos_nonneg 2 i ltac:(lia) Hi); lia).
  nia.
Qed.

Lemma jacobi_loop_terminates : forall (n fuel : nat) a b ret,
  (2 * n + 1 <= fuel)%nat -> 0 <= a < 2 ^ Z.of_nat n ->
  exists r, jacobi_loop fuel a b ret = Some r.
Proof.
  induction n as [|n IH]; intros fuel a b ret Hf Ha.
  - destruct fuel as [|f]; [lia|]. assert (a = 0) by (cbn in Ha; lia). subst a.
    cbn [jacobi_loop]. cbn. eexists; reflexivity.
  - destruct fuel as [|f]; [lia|].
    destruct (Z.eq_dec a 0) as [->|Hne].
    { cbn [jacobi_loop]. cbn. eexists; reflexivity. }
    destruct (jacobi_loop_step f a b ret ltac:(lia)) as (a1 & ret1 & Hb1 & Ho1 & E1). rewrite E1.
    destruct f as [|f]; [lia|].
    pose proof (Z.mod_pos_bound b a1 ltac:(lia)) as Hm1.
    destruct (Z.eq_dec (b mod a1) 0) as [Hz|Hnz].
    { rewrite Hz. cbn [jacobi_loop]. cbn. eexists; reflexivity. }
    destruct (jacobi_loop_step f (b mod a1) a1 ret1 ltac:(lia)) as (a2 & ret2 & Hb2 & Ho2 & E2). rewrite E2.
    apply IH; [lia|].
    pose proof (Z.mod_pos_bound a1 a2 ltac:(lia)) as Hm2.
    pose proof (Z.div_mod a1 a2 ltac:(lia)) as Hdm.
    assert (1 <= a1 / a2) by (apply Z.div_le_lower_bound; lia).
    rewrite Nat2Z.inj_succ, Z.pow_succ_r in Ha by lia.
    split; [lia|]. nia.
Qed.

(* nt.Jacobi returns a value for every odd positive y (the model's logarithmic
   fuel is never exhausted) *)
Lemma jacobi_total x y : 0 < y -> Z.odd y = true -> exists j, jacobi x y = Some j.
Proof.
  intros Hy Ho. unfold jacobi.
  assert (E : (y <=? 0) || Z.even y = false).
  { apply orb_false_iff. split; [apply Z.leb_gt; exact Hy|rewrite <- Z.negb_odd, Ho; reflexivity]. }
  rewrite E.
  set (a := if x <? 0 then x mod y else x).
  assert (Ha : 0 <= a).
  { unfold a. destruct (x <? 0) eqn:L; [apply Z.mod_pos_bound; exact Hy|apply Z.ltb_ge in L; exact L]. }
  set (L := Z.log2_up (Z.max (Z.max a y) 1)).
  assert (HL : 0 <= L) by apply Z.log2_up_nonneg.
  apply (jacobi_loop_terminates (Z.to_nat (L + 1))).
  - unfold jacobi_fuel. fold L. lia.
  - rewrite Z2Nat.id by lia. split; [exact Ha|].
    assert (Hle : Z.max (Z.max a y) 1 <= 2 ^ L).
    { destruct (Z.eq_dec (Z.max (Z.max a y) 1) 1) as [E1|E1].
      - rewrite E1. pose proof (Z.pow_pos_nonneg 2 L ltac:(lia) HL). lia.
      - apply Z.log2_up_spec. lia. }
    rewrite Z.pow_add_r by lia. change (2 ^ 1) with 2. lia.
Qed.

(* ------------------------------------------------------------------ division conventions, rationals *)

(* EuclideanDiv (numct.Int, num.Int, num.Nat): remainder always in [0, |d|) *)
Lemma eucdiv_spec a d : d <> 0 ->
  a = d * ZEuclid.div a d + ZEuclid.modulo a d /\ 0 <= ZEuclid.modulo a d < Z.abs d.
Proof.
  intros Hd. split; [apply ZEuclid.div_mod; exact Hd|apply ZEuclid.mod_always_pos; exact Hd].
Qed.

Lemma eucdiv_unique a d q r : d <> 0 -> a = d * q + r -> 0 <= r < Z.abs d ->
  q = ZEuclid.div a d /\ r = ZEuclid.modulo a d.
Proof.
  intros Hd E Hr.
  destruct (eucdiv_spec a d Hd) as [E' Hr'].
  set (q' := ZEuclid.div a d) in *. set (r' := ZEuclid.modulo a d) in *.
  assert (Hq : q = q') by nia.
  split; [exact Hq|]. subst q. lia.
Qed.

(* Div (numct.Int.Div / DivVarTime): truncated towards zero, remainder has the
   sign of the numerator *)
Lemma truncdiv_spec a d : d <> 0 ->
  a = d * Z.quot a d + Z.rem a d /\ Z.abs (Z.rem a d) < Z.abs d /\ 0 <= Z.rem a d * a.
Proof.
  intros Hd. split; [apply Z.quot_rem'|]. split; [apply Z.rem_bound_abs; exact Hd|].
  apply Z.rem_sign_mul. exact Hd.
Qed.

(* num.Rat canonical form: positive denominator, lowest terms, same value *)
Lemma rat_canon_spec a b : b <> 0 ->
  let '(n, d) := rat_canon a b in 0 < d /\ Z.gcd n d = 1 /\ n * b = a * d.
Proof.
  intros Hb. unfold rat_canon.
  pose proof (Z.gcd_nonneg a b) as Hg0.
  destruct (Z.gcd a b =? 0) eqn:E.
  - apply Z.eqb_eq in E. apply Z.gcd_eq_0_r in E. contradiction.
  - apply Z.eqb_neq in E.
    set (g := Z.gcd a b) in *.
    assert (Hg : 0 < g) by lia.
    destruct (Z.gcd_divide_l a b) as [a' Ha]. destruct (Z.gcd_divide_r a b) as [b' Hb'].
    fold g in Ha, Hb'.
    assert (Ea : a / g = a') by (rewrite Ha; apply Z.div_mul; lia).
    assert (Eb : b / g = b') by (rewrite Hb'; apply Z.div_mul; lia).
    assert (Hcop : Z.gcd a' b' = 1).
    { rewrite <- Ea, <- Eb. apply Z.gcd_div_gcd; [lia|reflexivity]. }
    rewrite Ea, Eb.
    assert (Hb0 : b' <> 0) by (intros ->; lia).
    destruct (b <? 0) eqn:S.
    + apply Z.ltb_lt in S. assert (b' < 0) by nia.
      split; [lia|]. split.
      * replace (-1 * a') with (- a') by ring. replace (-1 * b') with (- b') by ring.
        rewrite Z.gcd_opp_l, Z.gcd_opp_r. exact Hcop.
      * clearbody g. subst a b. ring.
    + apply Z.ltb_ge in S. assert (0 < b') by nia.
      split; [lia|]. split.
      * rewrite !Z.mul_1_l. exact Hcop.
      * clearbody g. subst a b. ring.
Qed.

(* ------------------------------------------------------------------ Garner (crt_multi.go RecombineSerial) *)

(* one mixed-radix step: x < prod known modulo prod, extended to prod * p *)
Lemma garner_step p prod inv x r :
  0 < p -> 0 < prod -> modinv (prod mod p) p = Some inv -> 0 <= x < prod ->
  let x' := x + ((((r - x) mod p) * inv) mod p) * prod in
  0 <= x' < prod * p /\ x' mod p = r mod p /\ x' mod prod = x.
Proof.
  intros Hp Hq Hinv Hx. cbv zeta.
  apply modinv_sound in Hinv; [|exact Hp]. destruct Hinv as [Hi Hinv].
  rewrite Z.mul_mod_idemp_r in Hinv by lia.
  set (c := (((r - x) mod p) * inv) mod p).
  assert (Hc : 0 <= c < p) by (apply Z.mod_pos_bound; exact Hp).
  split; [nia|]. split.
  - assert (Hd : (p | x + c * prod - r)).
    { pose proof (Z.div_mod (r - x) p ltac:(lia)) as E1.
      pose proof (Z.div_mod (((r - x) mod p) * inv) p ltac:(lia)) as E2.
      pose proof (Z.div_mod (inv * prod) p ltac:(lia)) as E3. rewrite Hinv in E3.
      fold c in E2.
      remember ((r - x) mod p) as a eqn:Ea.
      remember ((r - x) / p) as k1 eqn:Ek1.
      remember (a * inv / p) as k2 eqn:Ek2.
      remember (inv * prod / p) as k3 eqn:Ek3.
      remember (r - x) as dm eqn:Edm.
      exists (a * k3 - k2 * prod - k1).
      assert (Hc' : c = a * inv - p * k2) by lia.
      rewrite Hc'.
      replace (x + (a * inv - p * k2) * prod - r) with (a * (inv * prod) - p * k2 * prod - dm) by (subst dm; ring).
      rewrite E3, E1. ring. }
    destruct Hd as [k Hk].
    replace (x + c * prod) with (r + k * p) by lia.
    apply Z.mod_add. lia.
  - rewrite Z.mod_add by lia. apply Z.mod_small. exact Hx.
Qed.

Lemma mod_mod_divide a n m : 0 < n -> 0 < m -> (a mod (n * m)) mod n = a mod n.
Proof.
  intros Hn Hm. symmetry. apply Zmod_div_mod; [lia|nia|]. exists m. ring.
Qed.

Lemma garner_correct : forall ps rs x prod y,
  garner ps rs x prod = Some y ->
  0 < prod -> 0 <= x < prod -> Forall (fun p => 0 < p) ps ->
  0 <= y < prod * prodl ps /\ y mod prod = x /\ Forall2 (fun p r => y mod p = r mod p) ps rs.
Proof.
  induction ps as [|p ps IH]; intros rs x prod y H Hprod Hx Hps.
  - destruct rs; [|discriminate]. cbn in H. injection H as <-.
    cbn [prodl fold_right]. split; [lia|]. split; [apply Z.mod_small; exact Hx|constructor].
  - destruct rs as [|r rs]; [discriminate|]. cbn [garner] in H.
    destruct (modinv (prod mod p) p) as [inv|] eqn:Hinv; [|discriminate].
    inversion Hps as [|? ? Hp Hps']; subst.
    destruct (garner_step p prod inv x r Hp Hprod Hinv Hx) as (Hb & Emp & Emq).
    apply IH in H; [|nia|exact Hb|exact Hps'].
    destruct H as (Hy & Ey & Hrest).
    split.
    { cbn [prodl fold_right]. fold (prodl ps). replace (prod * (p * prodl ps)) with (prod * p * prodl ps) by ring. exact Hy. }
    split.
    { rewrite <- (mod_mod_divide y prod p Hprod Hp). rewrite Ey. exact Emq. }
    constructor; [|exact Hrest].
    rewrite <- (mod_mod_divide y p prod Hp Hprod). rewrite (Z.mul_comm p prod), Ey. exact Emp.
Qed.

(* RecombineSerial: for pairwise coprime factors (no inverse is refused) and a
   reduced first residue the result is below the product and has every residue *)
Lemma crt_multi_serial_correct ps rs y :
  crt_multi_serial ps rs = Some y -> Forall (fun p => 0 < p) ps ->
  (match ps, rs with p0 :: _, r0 :: _ => 0 <= r0 < p0 | _, _ => True end) ->
  0 <= y < prodl ps /\ Forall2 (fun p r => y mod p = r mod p) ps rs.
Proof.
  intros H Hps H0. unfold crt_multi_serial in H.
  destruct ps as [|p0 ps]; [discriminate|]. destruct rs as [|r0 rs]; [discriminate|].
  inversion Hps as [|? ? Hp0 Hps']; subst.
  apply garner_correct in H; [|exact Hp0|exact H0|exact Hps'].
  destruct H as (Hy & Ey & Hrest).
  split; [exact Hy|]. constructor; [|exact Hrest].
  rewrite Ey. symmetry. apply Z.mod_small. exact H0.
Qed.

(* ------------------------------------------------------------------ modular division *)

Lemma divide_mod_eq a b m : 0 < m -> (m | a - b) -> a mod m = b mod m.
Proof.
  intros Hm [k Hk]. replace a with (b + k * m) by lia. apply Z.mod_add. lia.
Qed.

Lemma mod_eq_divide a b m : 0 < m -> a mod m = b mod m -> (m | a - b).
Proof.
  intros Hm H. apply Z.mod_divide; [lia|]. rewrite Zminus_mod, H, Z.sub_diag. apply Z.mod_0_l. lia.
Qed.

(* ModDiv: whatever is returned solves y * u = x (mod m), for odd and even moduli *)
Lemma moddiv_sound x y m u : 0 < m -> moddiv x y m = Some u -> (y * u) mod m = x mod m.
Proof.
  intros Hm H. unfold moddiv in H. destruct (Z.odd m).
  - destruct (y =? 0); [discriminate|].
    destruct (modinv y m) as [yi|] eqn:Hi; [|discriminate]. injection H as <-.
    apply modinv_sound in Hi; [|exact Hm]. destruct Hi as [_ Hi].
    rewrite Z.mul_mod_idemp_r by lia.
    replace (y * (x * yi)) with (x * (yi * y)) by ring.
    rewrite Z.mul_mod by lia. rewrite Hi, Z.mul_1_r. apply Z.mod_mod. lia.
  - cbv zeta in H.
    set (xr := x mod m) in *. set (yr := y mod m) in *. set (d := Z.gcd yr m) in *.
    assert (Hd : 0 < d).
    { pose proof (Z.gcd_nonneg yr m) as Hn. fold d in Hn.
      destruct (Z.eq_dec d 0) as [E|E]; [|lia]. unfold d in E. apply Z.gcd_eq_0_r in E. lia. }
    destruct (xr mod d =? 0) eqn:Ex; [|discriminate]. apply Z.eqb_eq in Ex.
    destruct (Z.gcd_divide_r yr m) as [m' Hm']. fold d in Hm'.
    destruct (Z.gcd_divide_l yr m) as [a Ha]. fold d in Ha.
    assert (Hb : xr = (xr / d) * d).
    { pose proof (Z.div_mod xr d ltac:(lia)). lia. }
    set (b := xr / d) in *.
    assert (Emd : m / d = m') by (rewrite Hm'; apply Z.div_mul; lia).
    assert (Ead : yr / d = a) by (rewrite Ha; apply Z.div_mul; lia).
    rewrite Emd, Ead in H.
    assert (Hm'pos : 0 < m') by nia.
    assert (Hxy : (m | y * u - x) <-> (m | yr * u - xr)).
    { assert (Hy : (m | y - yr)) by (apply mod_eq_divide; [lia|unfold yr; rewrite Z.mod_mod by lia; reflexivity]).
      assert (Hx : (m | x - xr)) by (apply mod_eq_divide; [lia|unfold xr; rewrite Z.mod_mod by lia; reflexivity]).
      destruct Hy as [k1 Hk1]. destruct Hx as [k2 Hk2].
      split; intros [k Hk].
      - exists (k - k1 * u + k2).
        replace (yr * u - xr) with ((y * u - x) - (y - yr) * u + (x - xr)) by ring.
        rewrite Hk, Hk1, Hk2. ring.
      - exists (k + k1 * u - k2).
        replace (y * u - x) with ((yr * u - xr) + (y - yr) * u - (x - xr)) by ring.
        rewrite Hk, Hk1, Hk2. ring. }
    apply divide_mod_eq; [exact Hm|]. apply Hxy.
    destruct (modinv a m') as [s|] eqn:Hs.
    + injection H as <-. apply modinv_sound in Hs; [|exact Hm'pos]. destruct Hs as [_ Hs].
      (* a * ((b*s) mod m') - b divisible by m' *)
      assert (Hd' : (m' | a * ((b * s) mod m') - b)).
      { apply mod_eq_divide; [exact Hm'pos|].
        rewrite Z.mul_mod_idemp_r by lia.
        replace (a * (b * s)) with (b * (s * a)) by ring.
        rewrite Z.mul_mod by lia. rewrite Hs, Z.mul_1_r. apply Z.mod_mod. lia. }
      destruct Hd' as [k Hk]. exists k.
      rewrite Ha, Hb, Hm'. 
      replace (a * d * ((b * s) mod m') - b * d) with ((a * ((b * s) mod m') - b) * d) by ring.
      rewrite Hk. ring.
    + destruct (m' =? 1) eqn:E1; [|discriminate]. injection H as <-. apply Z.eqb_eq in E1.
      subst m'. rewrite Z.mul_0_r.
      (* m = d and d | xr with 0 <= xr < m: xr = 0 *)
      assert (m = d) by lia.
      assert (Hxr : 0 <= xr < m) by (apply Z.mod_pos_bound; exact Hm).
      assert (xr = 0).
      { assert (b = 0) by nia. subst b. lia. }
      exists 0. lia.
Qed.
