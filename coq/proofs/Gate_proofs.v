(* Gate_proofs.v — the MSP induced by a threshold-gate tree (Liu–Cao–Wong "Convert",
   model/Msp.v [expand]/[convert_loop]/[induced_gate]) accepts exactly the sets that satisfy the tree.

   A conversion state is the list of (tree node, row) pairs.  A list of IDs is REJECTED by a state
   when some w with w_0 = 1 is orthogonal to the rows of all nodes that the IDs satisfy.
   [step_equiv]: expanding a gate (threshold d2, children cs) into its children's rows
   (old row ++ [x, x^2, .., x^(d2-1)], x the child's node; other rows padded with zeros)
   does not change rejection — by root counting when >= d2 children are satisfied, by an explicit
   polynomial when fewer are.  Induction over the expansions gives [gate_exact]. *)
From Coq Require Import List NArith Arith Bool Lia Field Ring.
Import ListNotations.
Require Import V.base.Fld V.model.LinAlg V.model.Poly V.model.Access V.model.Msp.
Require Import V.proofs.LinAlg_proofs V.proofs.Poly_proofs V.proofs.Span_proofs V.proofs.Msp_proofs
               V.proofs.Families_proofs.

Lemma In_firstn_in : forall {A} (l : list A) n x, In x (firstn n l) -> In x l.
Proof. intros A l n x H. rewrite <- (firstn_skipn n l). apply in_or_app. now left. Qed.

Lemma In_skipn_in : forall {A} (l : list A) n x, In x (skipn n l) -> In x l.
Proof. intros A l n x H. rewrite <- (firstn_skipn n l). apply in_or_app. now right. Qed.

Lemma combine_map_l : forall {A B C} (f : A -> C) (l : list A) (m : list B),
  combine (map f l) m = map (fun p => (f (fst p), snd p)) (combine l m).
Proof.
  intros A B C f l; induction l as [|a l IH]; intros [|b m]; try reflexivity. cbn [map combine fst snd]. now rewrite IH.
Qed.

Section Gate.
Context {F : Type} (K : fops F) (HK : flaws K) (fromN : N -> F).

Add Field KfieldG : (fl_theory K HK).

Notation "0" := (f0 K).
Notation "1" := (f1 K).
Infix "+" := (fadd K).
Infix "*" := (fmul K).
Infix "-" := (fsub K).

Definition state := list (tree * list F).

(* the node convert gives to the child at absolute position i of the gate found at position z *)
Definition gx (z i : nat) : F := fromN (N.of_nat i) - fromN (N.of_nat z) + 1.

Definition rej (ids : list N) (d : nat) (st : state) : Prop :=
  exists w, length w = d /\
            (forall p, In p st -> tree_eval ids (fst p) = true -> dot K (snd p) w = 0) /\
            nth 0 w 0 = 1.

Definition padp (k : nat) (p : tree * list F) : tree * list F := (fst p, snd p ++ repeat 0 k).

Definition kids (z : nat) (rz : list F) (d2 : nat) (cs : list tree) : state :=
  map (fun ic => (snd ic, rz ++ powers_from K (gx z (fst ic)) (gx z (fst ic)) (pred d2)))
      (combine (seq z (length cs)) cs).

(* nodes of the satisfied children *)
Definition true_nodes (ids : list N) (z : nat) (cs : list tree) : list F :=
  map (fun ic => gx z (fst ic)) (filter (fun ic => tree_eval ids (snd ic)) (combine (seq z (length cs)) cs)).

Lemma true_nodes_length : forall ids z cs,
  length (true_nodes ids z cs) = count_true (map (tree_eval ids) cs).
Proof.
  intros ids z cs. unfold true_nodes, count_true. rewrite map_length. revert z.
  induction cs as [|c cs IH]; intros z; [reflexivity|].
  cbn [length seq combine filter map snd]. destruct (tree_eval ids c); cbn [length]; now rewrite IH.
Qed.

Lemma in_combine_seq : forall {A} (l : list A) z i c, In (i, c) (combine (seq z (length l)) l) ->
  (z <= i < z + length l)%nat.
Proof. intros A l z i c H. apply in_combine_l in H. apply in_seq in H. lia. Qed.

Lemma combine_seq_NoDup : forall {A} (l : list A) z, NoDup (map fst (combine (seq z (length l)) l)).
Proof.
  intros A l z. assert (E : map fst (combine (seq z (length l)) l) = seq z (length l)).
  { apply map_fst_combine. now rewrite seq_length. }
  rewrite E. apply seq_NoDup.
Qed.

Lemma NoDup_map_fst_filter : forall {A B} (f : A * B -> bool) (l : list (A * B)),
  NoDup (map fst l) -> NoDup (map fst (filter f l)).
Proof.
  intros A B f l; induction l as [|p l IH]; intros H; [constructor|]. cbn [map] in H. inversion H; subst.
  cbn [filter]. destruct (f p); cbn [map]; [constructor|]; auto.
  intro Hin. apply H2. apply in_map_iff in Hin. destruct Hin as [q [E Hq]]. apply filter_In in Hq.
  apply in_map_iff. exists q. tauto.
Qed.

Lemma true_nodes_NoDup : forall ids z cs,
  (forall a b, (a < length cs)%nat -> (b < length cs)%nat -> gx z (z + a) = gx z (z + b) -> a = b) ->
  NoDup (true_nodes ids z cs).
Proof.
  intros ids z cs Hinj. unfold true_nodes.
  set (fl := filter (fun ic => tree_eval ids (snd ic)) (combine (seq z (length cs)) cs)).
  assert (Hnd : NoDup (map fst fl)) by (apply NoDup_map_fst_filter, combine_seq_NoDup).
  assert (Hr : forall ic, In ic fl -> (z <= fst ic < z + length cs)%nat).
  { intros [i c] Hin. apply filter_In in Hin. destruct Hin as [Hin _]. apply in_combine_seq in Hin. exact Hin. }
  clearbody fl. induction fl as [|[i c] fl IH]; [constructor|]. cbn [map fst] in *. inversion Hnd; subst.
  constructor.
  - intro Hin. apply in_map_iff in Hin. destruct Hin as [[j c'] [E Hj]]. cbn [fst] in E.
    pose proof (Hr (i, c) (or_introl eq_refl)) as Hi. pose proof (Hr (j, c') (or_intror Hj)) as Hj'. cbn [fst] in *.
    assert (j - z = i - z)%nat.
    { apply Hinj; try lia. replace (z + (j - z))%nat with j by lia. replace (z + (i - z))%nat with i by lia. exact E. }
    assert (j = i) by lia. subst j. apply H1. apply in_map_iff. exists (i, c'). auto.
  - apply IH; auto. intros ic Hic. apply Hr. now right.
Qed.

Lemma dot_pad_l : forall r k w u, length r = length w ->
  dot K (r ++ repeat 0 k) (w ++ u) = dot K r w.
Proof.
  intros. rewrite (dot_app K HK) by auto. change (repeat 0 k) with (zero_vec K k).
  rewrite (dot_zero_l K HK). ring.
Qed.

Lemma dot_kid : forall rz x n w u, length rz = length w -> length u = n ->
  dot K (rz ++ powers_from K x x n) (w ++ u) = peval_r K (dot K rz w :: u) x.
Proof.
  intros. rewrite (dot_app K HK) by auto. rewrite (dot_powers_from K HK n x x u) by auto.
  cbn [peval_r]. ring.
Qed.

(* ---- one expansion step ---------------------------------------------------------------------------- *)

Lemma step_equiv : forall ids d d2 cs z rz (pre post : state),
  (0 < d)%nat -> (0 < d2)%nat -> length rz = d ->
  (forall p, In p (pre ++ post) -> length (snd p) = d) ->
  (forall a b, (a < length cs)%nat -> (b < length cs)%nat -> gx z (z + a) = gx z (z + b) -> a = b) ->
  (forall a, (a < length cs)%nat -> gx z (z + a) <> 0) ->
  (rej ids (d + pred d2) (map (padp (pred d2)) pre ++ kids z rz d2 cs ++ map (padp (pred d2)) post)
   <-> rej ids d (pre ++ (Gate d2 cs, rz) :: post)).
Proof.
  intros ids d d2 cs z rz pre post Hd Hd2 Hrz Hlen Hinj Hnz.
  set (k := pred d2).
  set (nodes := true_nodes ids z cs).
  assert (Hndn : NoDup nodes) by (apply true_nodes_NoDup; auto).
  assert (Hln : length nodes = count_true (map (tree_eval ids) cs)) by apply true_nodes_length.
  (* a satisfied child's node is in [nodes]; every node is non-zero *)
  assert (Hkid : forall p, In p (kids z rz d2 cs) -> tree_eval ids (fst p) = true ->
            exists x, In x nodes /\ snd p = rz ++ powers_from K x x k).
  { intros p Hp Ht. unfold kids in Hp. apply in_map_iff in Hp. destruct Hp as [[i c] [<- Hin]].
    cbn [fst snd] in *. exists (gx z i). split; [|reflexivity].
    unfold nodes, true_nodes. apply in_map_iff. exists (i, c). split; [reflexivity|].
    apply filter_In. split; auto. }
  assert (Hnode_kid : forall x, In x nodes -> exists p, In p (kids z rz d2 cs) /\ tree_eval ids (fst p) = true /\
            snd p = rz ++ powers_from K x x k).
  { intros x Hx. unfold nodes, true_nodes in Hx. apply in_map_iff in Hx. destruct Hx as [[i c] [<- Hin]].
    apply filter_In in Hin. destruct Hin as [Hin Ht]. cbn [fst snd] in *.
    exists (c, rz ++ powers_from K (gx z i) (gx z i) k). split; [|split; auto].
    unfold kids. apply in_map_iff. exists (i, c). split; auto. }
  assert (Hnz' : forall x, In x nodes -> x <> 0).
  { intros x Hx. unfold nodes, true_nodes in Hx. apply in_map_iff in Hx. destruct Hx as [[i c] [<- Hin]].
    apply filter_In in Hin. destruct Hin as [Hin _]. apply in_combine_seq in Hin. cbn [fst].
    replace i with (z + (i - z))%nat by lia. apply Hnz. lia. }
  assert (Hpadlen : forall p, In p (pre ++ post) -> length (snd p) = d) by exact Hlen.
  split.
  - (* new state rejected -> old state rejected *)
    intros [w' [Hw' [Hk Hw0]]].
    set (w := firstn d w'). set (u := skipn d w').
    assert (Ew : w' = w ++ u) by (symmetry; apply firstn_skipn).
    assert (Hlw : length w = d) by (unfold w; rewrite firstn_length; lia).
    assert (Hlu : length u = k) by (unfold u; rewrite skipn_length; unfold k; lia).
    exists w. split; [exact Hlw|]. split.
    + intros p Hp Ht. apply in_app_or in Hp.
      assert (Hside : forall q, In q (pre ++ post) -> tree_eval ids (fst q) = true -> dot K (snd q) w = 0).
      { intros q Hq Htq.
        assert (Hin' : In (padp k q) (map (padp k) pre ++ kids z rz d2 cs ++ map (padp k) post)).
        { apply in_app_or in Hq. destruct Hq as [Hq|Hq].
          - apply in_or_app. left. now apply in_map.
          - apply in_or_app. right. apply in_or_app. right. now apply in_map. }
        specialize (Hk _ Hin' Htq). unfold padp in Hk. cbn [fst snd] in Hk. rewrite Ew in Hk.
        rewrite dot_pad_l in Hk by (rewrite (Hpadlen q Hq); lia). exact Hk. }
      destruct Hp as [Hp|[<-|Hp]].
      * apply Hside; auto. apply in_or_app. now left.
      * (* the gate itself: satisfied, so at least d2 satisfied children: root counting *)
        cbn [fst snd] in *. cbn [tree_eval] in Ht. apply Nat.leb_le in Ht.
        set (Q := dot K rz w :: u).
        assert (Hall : all0 K Q).
        { apply (poly_roots_all0 K HK nodes Q Hndn).
          - unfold Q. cbn [length]. rewrite Hlu, Hln. unfold k. lia.
          - intros x Hx. destruct (Hnode_kid x Hx) as [p [Hp [Htp Hsp]]].
            assert (Hin' : In p (map (padp k) pre ++ kids z rz d2 cs ++ map (padp k) post)).
            { apply in_or_app. right. apply in_or_app. now left. }
            specialize (Hk p Hin' Htp). rewrite Hsp, Ew in Hk.
            rewrite dot_kid in Hk by (auto; lia). exact Hk. }
        unfold Q in Hall. inversion Hall. assumption.
      * apply Hside; auto. apply in_or_app. now right.
    + unfold w. rewrite <- Hw0. destruct w' as [|a w'']; [cbn in Hw'; lia|]. destruct d; [lia|reflexivity].
  - (* old state rejected -> new state rejected *)
    intros [w [Hw [Hk Hw0]]].
    set (c := dot K rz w).
    assert (Hgate_in : In (Gate d2 cs, rz) (pre ++ (Gate d2 cs, rz) :: post)) by (apply in_or_app; right; now left).
    assert (Hside : forall q, In q (pre ++ post) -> tree_eval ids (fst q) = true -> dot K (snd q) w = 0).
    { intros q Hq Htq. apply Hk; auto. apply in_app_or in Hq. apply in_or_app. destruct Hq; [now left|right; now right]. }
    (* the extension u of w *)
    assert (Hu : exists u, length u = k /\ forall x, In x nodes -> peval_r K (c :: u) x = 0).
    { destruct (Nat.leb d2 (count_true (map (tree_eval ids) cs))) eqn:Eg.
      - (* gate satisfied: c = 0, u = 0 *)
        assert (Hc : c = 0) by (apply (Hk _ Hgate_in); cbn [fst tree_eval]; exact Eg).
        exists (repeat 0 k). split; [apply repeat_length|]. intros x _. rewrite Hc. cbn [peval_r].
        rewrite (peval_r_repeat0 K HK). ring.
      - (* fewer than d2 satisfied children: c * prod (1 - X/x_j) *)
        apply Nat.leb_gt in Eg.
        set (p0 := fprod_sub K 0 nodes).
        assert (Hp0 : p0 <> 0).
        { intro E. apply (fprod_sub_eq_0_iff K HK) in E. now apply (Hnz' 0). }
        set (Qp := pscale K (c * finv K p0) (pprod_lin K nodes) ++ repeat 0 (d2 - S (length nodes))).
        assert (HlQ : length Qp = d2).
        { unfold Qp. rewrite app_length, (pscale_length K), (pprod_lin_length K), repeat_length. lia. }
        assert (HQ0 : peval_r K Qp 0 = c).
        { unfold Qp. rewrite (peval_r_pad K HK), (peval_r_pscale K HK), (peval_r_pprod_lin K HK). fold p0.
          transitivity (c * (finv K p0 * p0)); [ring|]. rewrite (finv_l K HK) by exact Hp0. ring. }
        assert (HQx : forall x, In x nodes -> peval_r K Qp x = 0).
        { intros x Hx. unfold Qp. rewrite (peval_r_pad K HK), (peval_r_pscale K HK), (peval_r_pprod_lin K HK).
          assert (E : fprod_sub K x nodes = 0) by now apply (fprod_sub_eq_0_iff K HK).
          rewrite E. ring. }
        destruct Qp as [|q0 u]; [cbn in HlQ; lia|].
        assert (Eq0 : q0 = c).
        { rewrite <- HQ0. cbn [peval_r]. ring. }
        exists u. split; [cbn in HlQ; unfold k; lia|]. intros x Hx. rewrite <- Eq0. now apply HQx. }
    destruct Hu as [u [Hlu Hux]].
    exists (w ++ u). split; [rewrite app_length; unfold k in *; lia|]. split.
    + intros p Hp Ht. apply in_app_or in Hp. destruct Hp as [Hp|Hp]; [|apply in_app_or in Hp; destruct Hp as [Hp|Hp]].
      * apply in_map_iff in Hp. destruct Hp as [q [<- Hq]]. unfold padp. cbn [fst snd] in *.
        rewrite dot_pad_l by (rewrite (Hpadlen q); [lia|apply in_or_app; now left]).
        apply Hside; auto. apply in_or_app. now left.
      * destruct (Hkid p Hp Ht) as [x [Hx Hsp]]. rewrite Hsp. rewrite dot_kid by (auto; lia).
        now apply Hux.
      * apply in_map_iff in Hp. destruct Hp as [q [<- Hq]]. unfold padp. cbn [fst snd] in *.
        rewrite dot_pad_l by (rewrite (Hpadlen q); [lia|apply in_or_app; now right]).
        apply Hside; auto. apply in_or_app. now right.
    + rewrite app_nth1 by lia. exact Hw0.
Qed.


(* ---- expand / convert_loop in terms of states ------------------------------------------------------------ *)

Fixpoint check_fan (B : nat) (n : tree) : bool :=
  match n with
  | Leaf _ => true
  | Gate _ cs => Nat.ltb (length cs) B && forallb (check_fan B) cs
  end.

Definition tree_ok (B : nat) (n : tree) : Prop := check_tree n = true /\ check_fan B n = true.

Definition Inv (B d : nat) (M : list (list F)) (L : list tree) : Prop :=
  length M = length L /\ Forall (fun r => length r = d) M /\ (0 < d)%nat /\ L <> [] /\ Forall (tree_ok B) L.

Lemma find_index_some : forall {A} (f : A -> bool) l z, find_index f l = Some z ->
  (z < length l)%nat.
Proof.
  intros A f l; induction l as [|a l IH]; intros z H; [discriminate|]. cbn [find_index] in H.
  destruct (f a); [inversion H; cbn; lia|]. destruct (find_index f l) eqn:E; [|discriminate].
  inversion H; subst. specialize (IH n eq_refl). cbn. lia.
Qed.

Lemma split_nth : forall {A} (l : list A) z d, (z < length l)%nat ->
  l = firstn z l ++ nth z l d :: skipn (S z) l.
Proof.
  intros A l; induction l as [|a l IH]; intros z d H; [cbn in H; lia|]. destruct z; [reflexivity|].
  cbn [firstn nth skipn app]. f_equal. apply IH. cbn in H. lia.
Qed.

Lemma combine_map_r2 : forall {A B C} (f : B -> C) (l : list A) (m : list B),
  combine l (map f m) = map (fun p => (fst p, f (snd p))) (combine l m).
Proof.
  intros A B C f l; induction l as [|a l IH]; intros [|b m]; try reflexivity. cbn [map combine fst snd]. now rewrite IH.
Qed.

Lemma combine_app2 : forall {A B} (l1 l2 : list A) (m1 m2 : list B), length l1 = length m1 ->
  combine (l1 ++ l2) (m1 ++ m2) = combine l1 m1 ++ combine l2 m2.
Proof.
  intros A B l1; induction l1 as [|a l1 IH]; intros l2 [|b m1] m2 H; cbn in H; try lia; [reflexivity|].
  cbn [app combine]. f_equal. apply IH. lia.
Qed.

Lemma combine_kids : forall (f : nat -> list F) (cs : list tree) z,
  combine cs (map f (seq z (length cs))) = map (fun ic => (snd ic, f (fst ic))) (combine (seq z (length cs)) cs).
Proof.
  intros f cs; induction cs as [|c cs IH]; intros z; [reflexivity|]. cbn [length seq map combine fst snd]. now rewrite IH.
Qed.

Lemma forallb_Forall_ok : forall B cs, forallb check_tree cs = true -> forallb (check_fan B) cs = true ->
  Forall (tree_ok B) cs.
Proof.
  intros B cs H1 H2. apply Forall_forall. intros c Hc. rewrite forallb_forall in H1, H2. split; auto.
Qed.

(* one expansion in terms of states *)
Lemma expand_spec : forall B d M L M' L', Inv B d M L -> expand K fromN M L = Some (M', L') ->
  exists z d2 cs pre post,
    combine L M = pre ++ (Gate d2 cs, nth z M []) :: post /\
    combine L' M' = map (padp (pred d2)) pre ++ kids z (nth z M []) d2 cs ++ map (padp (pred d2)) post /\
    (forall p, In p (pre ++ post) -> length (snd p) = d) /\ length (nth z M []) = d /\
    (0 < d2)%nat /\ (length cs < B)%nat /\ Inv B (d + pred d2) M' L'.
Proof.
  intros B d M L M' L' [HL [HF [Hd [Hne Hok]]]] He. unfold expand in He.
  destruct (find_index (fun n => negb (is_leaf n)) L) as [z|] eqn:Ez; [|discriminate].
  pose proof (find_index_some _ L z Ez) as Hz.
  destruct (nth z L (Leaf 0%N)) as [a|d2 cs] eqn:En; [discriminate|]. inversion He; subst M' L'. clear He.
  change (match M with [] => [] | _ :: l => skipn z l end) with (skipn (S z) M).
  change (match L with [] => [] | _ :: l => skipn z l end) with (skipn (S z) L).
  assert (HzM : (z < length M)%nat) by lia.
  assert (Hgate_ok : tree_ok B (Gate d2 cs)).
  { rewrite Forall_forall in Hok. apply Hok. rewrite <- En. now apply nth_In. }
  destruct Hgate_ok as [Hct Hcf]. cbn [check_tree check_fan] in Hct, Hcf.
  apply andb_true_iff in Hct. destruct Hct as [Hct Hkids]. apply andb_true_iff in Hct. destruct Hct as [Hct _].
  apply andb_true_iff in Hct. destruct Hct as [Ht1 Ht2]. apply Nat.ltb_lt in Ht1. apply Nat.leb_le in Ht2.
  apply andb_true_iff in Hcf. destruct Hcf as [Hfan Hfk]. apply Nat.ltb_lt in Hfan.
  exists z, d2, cs, (combine (firstn z L) (firstn z M)), (combine (skipn (S z) L) (skipn (S z) M)).
  assert (Hfl : length (firstn z L) = length (firstn z M)) by (rewrite !firstn_length; lia).
  rewrite Forall_forall in HF.
  split; [|split; [|split; [|split; [|split; [|split]]]]].
  - rewrite (split_nth L z (Leaf 0%N) Hz) at 1. rewrite (split_nth M z [] HzM) at 1.
    rewrite combine_app2 by auto. cbn [combine]. now rewrite En.
  - rewrite combine_app2 by (rewrite map_length; auto).
    rewrite combine_app2 by (now rewrite map_length, seq_length).
    rewrite combine_kids. rewrite !combine_map_r2. reflexivity.
  - intros [n r] Hp. cbn [snd]. apply in_app_or in Hp. destruct Hp as [Hp|Hp]; apply in_combine_r in Hp; apply HF.
    + eapply (In_firstn_in _ _ _ Hp).
    + eapply (In_skipn_in _ _ _ Hp).
  - apply HF. now apply nth_In.
  - exact Ht1.
  - exact Hfan.
  - split; [|split; [|split; [|split]]].
    + rewrite !app_length, !map_length, seq_length.
      rewrite !firstn_length, !skipn_length. lia.
    + apply Forall_forall. intros r Hr. apply in_app_or in Hr. destruct Hr as [Hr|Hr]; [|apply in_app_or in Hr; destruct Hr as [Hr|Hr]].
      * apply in_map_iff in Hr. destruct Hr as [r0 [<- Hr0]]. rewrite app_length, repeat_length.
        rewrite (HF r0 (In_firstn_in _ _ _ Hr0)). reflexivity.
      * apply in_map_iff in Hr. destruct Hr as [i [<- _]]. rewrite app_length, (powers_from_length K).
        rewrite (HF (nth z M [])) by now apply nth_In. reflexivity.
      * apply in_map_iff in Hr. destruct Hr as [r0 [<- Hr0]]. rewrite app_length, repeat_length.
        rewrite (HF r0 (In_skipn_in _ _ _ Hr0)). reflexivity.
    + lia.
    + destruct cs as [|c cs']; [cbn in Ht2; lia|]. intro E. apply app_eq_nil in E. destruct E as [_ E]. discriminate.
    + apply Forall_app. split; [|apply Forall_app; split].
      * apply Forall_forall. intros n Hn. rewrite Forall_forall in Hok. apply Hok. eapply In_firstn_in; eauto.
      * now apply forallb_Forall_ok.
      * apply Forall_forall. intros n Hn. rewrite Forall_forall in Hok. apply Hok. eapply In_skipn_in; eauto.
Qed.

(* ---- the loop ------------------------------------------------------------------------------------------------ *)

Section Loop.
Variable B : nat.
Hypothesis Hinj : forall z a b, (a < B)%nat -> (b < B)%nat -> gx z (z + a) = gx z (z + b) -> a = b.
Hypothesis Hnz : forall z a, (a < B)%nat -> gx z (z + a) <> 0.

Lemma loop_equiv : forall ids fuel d M L M' L', Inv B d M L ->
  convert_loop K fromN fuel M L = Some (M', L') ->
  exists d', Inv B d' M' L' /\ (rej ids d' (combine L' M') <-> rej ids d (combine L M)).
Proof.
  intros ids fuel; induction fuel as [|fuel IH]; intros d M L M' L' HI Hc; cbn [convert_loop] in Hc.
  - destruct (expand K fromN M L) as [[M1 L1]|] eqn:E; [discriminate|]. inversion Hc; subst. exists d. tauto.
  - destruct (expand K fromN M L) as [[M1 L1]|] eqn:E.
    + destruct (expand_spec B d M L M1 L1 HI E) as [z [d2 [cs [pre [post [E1 [E2 [Hlen [Hrz [Hd2 [Hfan HI1]]]]]]]]]]].
      destruct (IH _ _ _ _ _ HI1 Hc) as [d' [HI' Heq]]. exists d'. split; [exact HI'|].
      rewrite Heq, E1, E2.
      destruct HI as [_ [_ [Hd _]]].
      apply (step_equiv ids d d2 cs z (nth z M []) pre post Hd Hd2 Hrz Hlen).
      * intros a b Ha Hb. apply Hinj; lia.
      * intros a Ha. apply Hnz; lia.
    + inversion Hc; subst. exists d. tauto.
Qed.

Lemma leaves_of_all_leaf : forall L, forallb is_leaf L = true -> L = map Leaf (leaf_ids L).
Proof.
  induction L as [|n L IH]; intros H; [reflexivity|]. cbn [forallb] in H. apply andb_true_iff in H.
  destruct H as [H1 H2]. destruct n as [a|t cs]; [|discriminate]. cbn. unfold leaf_ids in IH. now rewrite <- IH.
Qed.

Theorem gate_exact : forall root m ids,
  check_tree root = true -> check_fan B root = true ->
  induced_gate K fromN root = Some m ->
  (forall id, In id ids -> In id (msp_lab m)) ->
  accepts K m ids = tree_eval ids root.
Proof.
  intros root m ids Hct Hcf Hind Hknown. unfold induced_gate in Hind.
  destruct (convert_loop K fromN (tree_size root) [[1]] [root]) as [[M L]|] eqn:Ec; [|discriminate].
  destruct (forallb is_leaf L) eqn:El; [|discriminate].
  assert (HI0 : Inv B 1 [[1]] [root]).
  { split; [reflexivity|]. split; [repeat constructor|]. split; [lia|]. split; [discriminate|].
    constructor; [split; auto|constructor]. }
  destruct (loop_equiv ids _ 1 _ _ M L HI0 Ec) as [d [[HL [HF [Hd [Hne Hok]]]] Heq]].
  unfold new_msp in Hind. destruct (_ && _); [|discriminate]. inversion Hind; subst m. clear Hind.
  set (labs := leaf_ids L) in *.
  assert (ELL : L = map Leaf labs) by now apply leaves_of_all_leaf.
  assert (Hll : length labs = length M).
  { rewrite HL. rewrite ELL at 1. now rewrite map_length. }
  set (rl := combine labs M).
  assert (Hz : mk_msp M labs = zmsp rl).
  { unfold zmsp, rl. f_equal; [now rewrite map_snd_combine|now rewrite map_fst_combine]. }
  rewrite Hz in *.
  assert (Hwf : wf_msp (zmsp rl)).
  { rewrite <- Hz. exists (length M), d. cbn [msp_M msp_lab]. split; [split; auto|]. split; [auto|]. split; [auto|].
    rewrite HL. destruct L; [congruence|cbn; lia]. }
  assert (HD : msp_D (zmsp rl) = d).
  { rewrite <- Hz. unfold msp_D. cbn [msp_M]. apply (ncols_wf (length M) d M); [split; auto|].
    rewrite HL. destruct L; [congruence|cbn; lia]. }
  (* rejection by the final state is rejection by the MSP *)
  assert (Hfinal : rej ids d (combine L M) <->
            exists w, length w = d /\ (forall id v, In (id, v) rl -> In id ids -> dot K v w = 0) /\ nth 0 w 0 = 1).
  { rewrite ELL. unfold rej, rl. split; intros [w [Hw [Hk Hw0]]]; exists w; (split; [exact Hw|split; [|exact Hw0]]).
    - intros id v Hin Hid. apply (Hk (Leaf id, v)).
      + rewrite combine_map_l. apply in_map_iff. exists (id, v). auto.
      + cbn [fst tree_eval]. now apply memN_In.
    - intros [n v] Hin Ht. rewrite combine_map_l in Hin. apply in_map_iff in Hin.
      destruct Hin as [[id v'] [E Hin]]. cbn [fst snd] in E. injection E as En Ev. subst n v. cbn [fst snd tree_eval] in *.
      apply (Hk id v'); auto. now apply memN_In. }
  (* rejection by the initial state is falsity of the tree *)
  assert (Hinit : rej ids 1 (combine [root] [[1]]) <-> tree_eval ids root = false).
  { cbn [combine]. split.
    - intros [w [Hw [Hk Hw0]]]. destruct (tree_eval ids root) eqn:Et; [|reflexivity]. exfalso.
      specialize (Hk (root, [1]) (or_introl eq_refl) Et). cbn [snd] in Hk.
      destruct w as [|w0 [|? ?]]; cbn in Hw; try lia. cbn [nth] in Hw0. subst w0.
      rewrite (dot_cons K HK), (dot_nil_l K) in Hk. apply (f1_neq_0 K HK). rewrite <- Hk. ring.
    - intros Hf. exists [1]. split; [reflexivity|]. split; [|reflexivity].
      intros p [<-|[]] Ht. cbn [fst] in Ht. congruence. }
  destruct ids as [|id0 ids0].
  { (* no IDs: the MSP rejects; so does the tree *)
    rewrite accepts_nil. symmetry. apply Hinit. apply Heq. apply Hfinal.
    exists (unit_vec K d 0). split; [apply unit_vec_length|]. split; [intros id v _ []|].
    rewrite (nth_unit_vec K). assert (E : Nat.ltb 0 d = true) by (apply Nat.ltb_lt; lia). now rewrite E. }
  remember (id0 :: ids0) as ids eqn:Eids.
  assert (Hne' : ids <> []) by (rewrite Eids; discriminate).
  assert (Hknown' : forall id, In id ids -> In id (map fst rl)).
  { intros id Hid. change (map fst rl) with (msp_lab (zmsp rl)). now apply Hknown. }
  pose proof (rejects_zipped_iff K HK rl ids Hwf Hne' Hknown') as Hiff. rewrite HD in Hiff.
  destruct (tree_eval ids root) eqn:Et.
  - destruct (accepts K (zmsp rl) ids) eqn:Ea; [reflexivity|]. exfalso.
    assert (Hx : true = false) by (apply Hinit, Heq, Hfinal, Hiff; reflexivity). discriminate.
  - apply Hiff, Hfinal, Heq, Hinit. reflexivity.
Qed.

End Loop.

End Gate.
