(* ZpField_proofs.v — closes the gap between the abstract-field theorems of Curve_proofs.v and
   the executable model on raw integers that the C14 driver runs:

   * for a prime p the canonical residues {x | x mod p = x} with the operations of [Zp p]
     (base/Fld.v) form a field: [FpOps p] with [flaws (FpOps p)] (the inverse is the extended
     Euclid of Fld.v, correct by ZnInv_proofs.zp_inv_correct);
   * [fp_val] is a morphism from [FpOps p] to the raw-integer record [Zp p], every generic
     function of model/Curve.v and every generated program of gen/Formulas.v commutes with a
     morphism, hence
   * [zp_add_program_is_model]: on canonical representatives the regenerated addition program
     evaluated with the raw-integer operations [Zp p], followed by ToAffine, equals the
     raw-integer chord-tangent law [waff_add (Zp p)] — exactly the two things that exist at run
     time (the Go code computes mod p; the driver runs waff_add (Zp p)).
   The hypothesis [prime p] stays visible. *)
From Coq Require Import ZArith Znumtheory Lia Field Ring Bool Eqdep_dec.
Require Import V.base.Fld V.gen.Formulas V.model.Curve V.proofs.ZnInv_proofs V.proofs.Curve_proofs.
Local Open Scope Z_scope.

(* ---- morphisms of field records ------------------------------------------------------------ *)
Section Morphism.
  Context {F F' : Type} (K : fops F) (K' : fops F') (h : F -> F').

  Record fmorph : Prop := mk_fmorph {
    h_0 : h (f0 K) = f0 K';
    h_1 : h (f1 K) = f1 K';
    h_add : forall x y, h (fadd K x y) = fadd K' (h x) (h y);
    h_mul : forall x y, h (fmul K x y) = fmul K' (h x) (h y);
    h_sub : forall x y, h (fsub K x y) = fsub K' (h x) (h y);
    h_opp : forall x, h (fopp K x) = fopp K' (h x);
    h_inv : forall x, h (finv K x) = finv K' (h x);
    h_div : forall x y, h (fdiv K x y) = fdiv K' (h x) (h y);
    h_eqb : forall x y, feqb K x y = feqb K' (h x) (h y)
  }.

  Definition hpt (P : option (F * F)) : option (F' * F') :=
    match P with None => None | Some (x, y) => Some (h x, h y) end.
  Definition h3 (P : F * F * F) : F' * F' * F' := let '(x, y, z) := P in (h x, h y, h z).

  Hypothesis H : fmorph.

  Lemma h_is0 : forall x, fis0 K x = fis0 K' (h x).
  Proof. intro x. unfold fis0. rewrite (h_eqb H), (h_0 H). reflexivity. Qed.

  Lemma waff_double_morph : forall a P,
    hpt (waff_double K a P) = waff_double K' (h a) (hpt P).
  Proof.
    intros a [[x y]|]; [|reflexivity]. cbn [waff_double hpt]. rewrite <- h_is0.
    destruct (fis0 K y); [reflexivity|]. cbv zeta. cbn [hpt].
    rewrite !(h_sub H), !(h_mul H), !(h_sub H), !(h_mul H), !(h_div H), !(h_add H), !(h_mul H). reflexivity.
  Qed.

  Lemma waff_add_morph : forall a P Q,
    hpt (waff_add K a P Q) = waff_add K' (h a) (hpt P) (hpt Q).
  Proof.
    intros a [[x1 y1]|] [[x2 y2]|]; try reflexivity.
    cbn [waff_add hpt]. rewrite <- !(h_eqb H).
    destruct (feqb K x1 x2).
    - destruct (feqb K y1 y2); [|reflexivity]. apply (waff_double_morph a (Some (x1, y1))).
    - cbv zeta. cbn [hpt].
      rewrite !(h_sub H), !(h_mul H), !(h_sub H), !(h_mul H), !(h_div H), !(h_sub H). reflexivity.
  Qed.

  Lemma waff_neg_morph : forall P, hpt (waff_neg K P) = waff_neg K' (hpt P).
  Proof. intros [[x y]|]; [|reflexivity]. cbn. rewrite (h_opp H). reflexivity. Qed.

  (* the regenerated programs commute with a morphism *)
  Lemma W_Add_morph : forall a b x1 y1 z1 x2 y2 z2,
    h3 (W_Add K a b x1 y1 z1 x2 y2 z2) = W_Add K' (h a) (h b) (h x1) (h y1) (h z1) (h x2) (h y2) (h z2).
  Proof.
    intros. cbv [W_Add h3].
    repeat first [rewrite (h_add H) | rewrite (h_sub H) | rewrite (h_mul H)]. reflexivity.
  Qed.

  Lemma W_Double_morph : forall a b x1 y1 z1,
    h3 (W_Double K a b x1 y1 z1) = W_Double K' (h a) (h b) (h x1) (h y1) (h z1).
  Proof.
    intros. cbv [W_Double h3].
    repeat first [rewrite (h_add H) | rewrite (h_sub H) | rewrite (h_mul H)]. reflexivity.
  Qed.

  Lemma w_to_affine_morph : forall P, hpt (w_to_affine K P) = w_to_affine K' (h3 P).
  Proof.
    intros [[X Y] Z]. unfold w_to_affine, h3. cbv [W_ToAffine]. rewrite <- h_is0.
    destruct (fis0 K Z); cbn [negb hpt]; [reflexivity|].
    rewrite !(h_mul H), (h_inv H). reflexivity.
  Qed.
  (* Edwards *)
  Definition h2 (P : F * F) : F' * F' := (h (fst P), h (snd P)).
  Definition h4 (P : F * F * F * F) : F' * F' * F' * F' := let '(x, y, t, z) := P in (h x, h y, h t, h z).

  Lemma eaff_add_morph : forall a d P Q,
    h2 (eaff_add K a d P Q) = eaff_add K' (h a) (h d) (h2 P) (h2 Q).
  Proof.
    intros a d [x1 y1] [x2 y2]. unfold h2. cbn [eaff_add fst snd].
    repeat first [rewrite (h_div H) | rewrite (h_add H) | rewrite (h_sub H) | rewrite (h_mul H) | rewrite (h_1 H)]. reflexivity.
  Qed.

  Lemma E_Add_morph : forall a d x1 y1 t1 z1 x2 y2 t2 z2,
    h4 (E_Add K a d x1 y1 t1 z1 x2 y2 t2 z2) =
    E_Add K' (h a) (h d) (h x1) (h y1) (h t1) (h z1) (h x2) (h y2) (h t2) (h z2).
  Proof.
    intros. cbv [E_Add h4].
    repeat first [rewrite (h_add H) | rewrite (h_sub H) | rewrite (h_mul H)]. reflexivity.
  Qed.

  Lemma e_to_affine_morph : forall P, h2 (e_to_affine K P) = e_to_affine K' (h4 P).
  Proof.
    intros [[[X Y] T] Z]. unfold e_to_affine, h4, h2. cbv [E_ToAffine]. rewrite <- h_is0.
    destruct (fis0 K Z); cbn [negb fst snd].
    - rewrite (h_0 H). reflexivity.
    - rewrite !(h_mul H), (h_inv H). reflexivity.
  Qed.
End Morphism.

(* ---- the field of canonical residues modulo a prime ------------------------------------------- *)
Section FpField.
  Variable p : Z.
  Hypothesis p_prime : prime p.

  Lemma p_gt1 : 1 < p.
  Proof. pose proof (prime_ge_2 p p_prime). lia. Qed.

  Record Fp : Type := mkFp { fp_val : Z; fp_ok : fp_val mod p = fp_val }.

  Lemma fp_eq : forall x y : Fp, fp_val x = fp_val y -> x = y.
  Proof.
    intros [x hx] [y hy]. cbn. intro E. subst y. f_equal. apply UIP_dec. apply Z.eq_dec.
  Qed.

  Lemma fp_range : forall x : Fp, 0 <= fp_val x < p.
  Proof. intro x. rewrite <- (fp_ok x). apply Z.mod_pos_bound. pose proof p_gt1. lia. Qed.

  Definition fp_of (z : Z) : Fp := mkFp (z mod p) (Z.mod_mod z p ltac:(pose proof p_gt1; lia)).

  Definition FpOps : fops Fp := {|
    f0 := fp_of 0; f1 := fp_of 1;
    fadd := fun x y => fp_of (fp_val x + fp_val y);
    fmul := fun x y => fp_of (fp_val x * fp_val y);
    fsub := fun x y => fp_of (fp_val x - fp_val y);
    fopp := fun x => fp_of (- fp_val x);
    finv := fun x => fp_of (zp_inv p (fp_val x));
    fdiv := fun x y => fp_of (fp_val x * zp_inv p (fp_val y));
    feqb := fun x y => Z.eqb (fp_val x) (fp_val y)
  |}.

  Ltac fp_solve := intros; apply fp_eq; cbn [fp_val fp_of FpOps f0 f1 fadd fmul fsub fopp finv fdiv].

  Lemma one_mod : 1 mod p = 1.
  Proof. apply Z.mod_small. pose proof p_gt1. lia. Qed.

  Lemma FpLaws : flaws FpOps.
  Proof.
    pose proof p_gt1 as Hp.
    constructor.
    - constructor.
      + constructor.
        * fp_solve. rewrite Z.mod_0_l by lia. rewrite Z.add_0_l. apply fp_ok.
        * fp_solve. f_equal; lia.
        * fp_solve. rewrite Zplus_mod_idemp_r, Zplus_mod_idemp_l. f_equal; lia.
        * fp_solve. rewrite one_mod, Z.mul_1_l. apply fp_ok.
        * fp_solve. f_equal; lia.
        * fp_solve. rewrite Zmult_mod_idemp_r, Zmult_mod_idemp_l. f_equal; lia.
        * fp_solve. rewrite Zmult_mod_idemp_l, <- Zplus_mod. f_equal; lia.
        * fp_solve. rewrite Zplus_mod_idemp_r. f_equal; lia.
        * fp_solve. rewrite Zplus_mod_idemp_r. f_equal; lia.
      + intro E. apply (f_equal fp_val) in E. cbn [fp_val fp_of FpOps f0 f1] in E.
        rewrite one_mod in E. rewrite Z.mod_0_l in E by lia. lia.
      + fp_solve. rewrite Zmult_mod_idemp_r. reflexivity.
      + intros x Hx. fp_solve. rewrite Zmult_mod_idemp_l, Z.mul_comm, one_mod.
        apply zp_inv_correct; [exact p_prime|].
        pose proof (fp_range x). assert (fp_val x <> 0).
        { intro E. apply Hx. apply fp_eq. cbn [fp_val fp_of FpOps f0]. rewrite E. symmetry. apply Z.mod_0_l. lia. }
        lia.
    - intros x y. cbn [feqb FpOps]. rewrite Z.eqb_eq. split; [apply fp_eq | intro E; rewrite E; reflexivity].
  Qed.

  (* fp_val is a morphism into the raw-integer record Zp p *)
  Lemma fp_val_morph : fmorph FpOps (Zp p) fp_val.
  Proof.
    pose proof p_gt1 as Hp.
    constructor; try (intros; reflexivity).
    all: intros; cbn [fp_val fp_of FpOps Zp f0 finv].
    all: try (apply Z.mod_0_l; lia).
    all: apply Z.mod_small; apply zp_inv_range; exact Hp.
  Qed.

  (* ---- the statement about what exists at run time ---------------------------------------------- *)
  (* a, b and the coordinates are canonical residues; the programs are evaluated with the raw-integer
     operations of Zp p (as the extracted model does, and as the implementation does modulo p) *)
  Theorem zp_add_program_is_model : forall a b : Fp,
    fadd FpOps (f1 FpOps) (f1 FpOps) <> f0 FpOps ->
    fadd FpOps (fadd FpOps (f1 FpOps) (f1 FpOps)) (f1 FpOps) <> f0 FpOps ->
    no_two_torsion FpOps a b ->
    forall P Q : Fp * Fp * Fp, valid FpOps a b P -> valid FpOps a b Q ->
    let '(X1, Y1, Z1) := h3 fp_val P in
    let '(X2, Y2, Z2) := h3 fp_val Q in
    w_to_affine (Zp p) (W_Add (Zp p) (fp_val a) (fp_val b) X1 Y1 Z1 X2 Y2 Z2) =
    waff_add (Zp p) (fp_val a) (w_to_affine (Zp p) (X1, Y1, Z1)) (w_to_affine (Zp p) (X2, Y2, Z2)).
  Proof.
    intros a b H2 H3 Hnt [[X1 Y1] Z1] [[X2 Y2] Z2] V1 V2. cbn [h3].
    destruct (w_add_correct FpOps FpLaws a b H2 H3 Hnt _ _ V1 V2) as [_ HA].
    apply (f_equal (hpt fp_val)) in HA.
    rewrite (waff_add_morph _ _ _ fp_val_morph) in HA.
    rewrite !(w_to_affine_morph _ _ _ fp_val_morph) in HA.
    unfold proj_add in HA. rewrite (W_Add_morph _ _ _ fp_val_morph) in HA. cbn [h3] in HA. exact HA.
  Qed.

  (* the same for the extended-coordinate Edwards addition *)
  Theorem zp_ed_add_program_is_model : forall a d s : Fp,
    fadd FpOps (f1 FpOps) (f1 FpOps) <> f0 FpOps ->
    (forall r : Fp, fmul FpOps r r <> d) -> fmul FpOps s s = a ->
    forall P Q : Fp * Fp * Fp * Fp, e_valid FpOps a d P -> e_valid FpOps a d Q ->
    let '(X1, Y1, T1, Z1) := h4 fp_val P in
    let '(X2, Y2, T2, Z2) := h4 fp_val Q in
    e_to_affine (Zp p) (E_Add (Zp p) (fp_val a) (fp_val d) X1 Y1 T1 Z1 X2 Y2 T2 Z2) =
    eaff_add (Zp p) (fp_val a) (fp_val d) (e_to_affine (Zp p) (X1, Y1, T1, Z1)) (e_to_affine (Zp p) (X2, Y2, T2, Z2)).
  Proof.
    intros a d s H2 Hd Hs [[[X1 Y1] T1] Z1] [[[X2 Y2] T2] Z2] V1 V2. cbn [h4].
    destruct (e_add_correct FpOps FpLaws a d H2 Hd s Hs _ _ V1 V2) as [_ HA].
    apply (f_equal (h2 fp_val)) in HA.
    rewrite (eaff_add_morph _ _ _ fp_val_morph) in HA.
    rewrite !(e_to_affine_morph _ _ _ fp_val_morph) in HA.
    unfold e_add in HA. rewrite (E_Add_morph _ _ _ fp_val_morph) in HA. cbn [h4] in HA. exact HA.
  Qed.
End FpField.
