(* Compilers_proofs.v — lemmas about model/Compilers.v.  The XOF is idealised as injective
   on its (customisation, input, length) triple (section hypothesis); the byte-level
   injectivity of the transcript framing is Transcript_proofs.outputs_equal_iff (C19). *)
From Coq Require Import List ZArith NArith Bool Lia Arith PeanoNat.
From Coq Require Import ZifyN ZifyNat ZifyBool.
Import ListNotations.
Require Import V.base.Bytes V.gen.Hagrid V.model.Transcript V.proofs.Transcript_proofs.
Require Import V.model.Sigma V.model.Compilers.
Local Open Scope N_scope.

(* ---------- byte-string equality test ---------- *)

Lemma bytes_eq_refl a : bytes_eq a a = true.
Proof.
  unfold bytes_eq. rewrite Nat.eqb_refl. cbn [andb].
  induction a as [|x a IH]; cbn; [reflexivity|]. rewrite N.eqb_refl. exact IH.
Qed.

Lemma bytes_eq_true a b : bytes_eq a b = true <-> a = b.
Proof.
  split; [|intros ->; apply bytes_eq_refl].
  unfold bytes_eq. intros H. apply andb_true_iff in H. destruct H as [Hl H].
  apply Nat.eqb_eq in Hl. revert b Hl H.
  induction a as [|x a IH]; intros [|y b] Hl H; cbn in *; try discriminate; [reflexivity|].
  apply andb_true_iff in H. destruct H as [Hxy H]. apply N.eqb_eq in Hxy. subst y.
  f_equal. apply IH; [lia|exact H].
Qed.

(* ---------- hex encoding is injective on bytes ---------- *)

Lemma hex_digit_inj a b : a < 16 -> b < 16 -> hex_digit a = hex_digit b -> a = b.
Proof.
  unfold hex_digit. intros Ha Hb.
  destruct (a <? 10) eqn:E1, (b <? 10) eqn:E2; lia.
Qed.

Lemma hex_bytes_inj a b : wf_bytes a -> wf_bytes b -> hex_bytes a = hex_bytes b -> a = b.
Proof.
  revert b. induction a as [|x a IH]; intros [|y b] Wa Wb H; cbn in H; try discriminate; [reflexivity|].
  inversion Wa as [|? ? Hx Wa']; inversion Wb as [|? ? Hy Wb']; subst.
  unfold is_byte in *.
  injection H as H1 H2 H3.
  apply hex_digit_inj in H1; [|apply N.div_lt_upper_bound; lia|apply N.div_lt_upper_bound; lia].
  apply hex_digit_inj in H2; [|apply N.mod_lt; lia|apply N.mod_lt; lia].
  f_equal; [|apply IH; assumption].
  rewrite (N.div_mod x 16), (N.div_mod y 16) by lia. rewrite H1, H2. reflexivity.
Qed.

Lemma hex_bytes_length a : length (hex_bytes a) = (2 * length a)%nat.
Proof.
  induction a as [|x a IH]; [reflexivity|].
  change (hex_bytes (x :: a)) with ([hex_digit (x / 16); hex_digit (x mod 16)] ++ hex_bytes a).
  rewrite app_length, IH. cbn [length]. lia.
Qed.

(* the Fiat–Shamir domain separator determines session id and protocol name *)
Lemma fs_dst_inj sid1 p1 sid2 p2 :
  wf_bytes sid1 -> wf_bytes sid2 -> length sid1 = length sid2 ->
  fs_dst sid1 p1 = fs_dst sid2 p2 -> sid1 = sid2 /\ p1 = p2.
Proof.
  intros W1 W2 Hl H. unfold fs_dst in H.
  apply app_inj_length in H; [|rewrite !hex_bytes_length; lia].
  destruct H as [Hs H]. apply hex_bytes_inj in Hs; try assumption.
  split; [exact Hs|].
  apply app_inv_head in H. apply app_inv_head in H. apply app_inv_head in H. exact H.
Qed.

(* ---------- contexts ---------- *)

Definition small (b : bytes) : Prop := len b < 2^64.

(* the operations a Fiat–Shamir verification performs on context c are representable
   (lengths below 2^64, as Go's uint64(len(x))) *)
Definition fs_valid (c : context) (pname stmt a : bytes) : Prop :=
  Forall valid_op (c_hist c) /\ small (fs_dst (c_sid c) pname) /\ small stmt /\ small a.

Lemma fs_ops_valid c pname stmt a :
  fs_valid c pname stmt a -> Forall valid_op (c_hist c ++ fs_ops (c_sid c) pname stmt a).
Proof.
  intros (Hh & Hd & Hs & Ha). apply Forall_app. split; [exact Hh|].
  unfold fs_ops, small in *.
  assert (L1 : len zk_statementLabel < 2^64) by (vm_compute; reflexivity).
  assert (L2 : len zk_commitmentLabel < 2^64) by (vm_compute; reflexivity).
  assert (One : forall m : bytes, len [m] < 2^64) by (intros m; cbn; lia).
  constructor; [exact Hd|]. constructor.
  { cbn [valid_op]. split; [exact L1|split; [apply One|]]. constructor; [exact Hs|constructor]. }
  constructor; [|constructor].
  cbn [valid_op]. split; [exact L2|split; [apply One|]]. constructor; [exact Ha|constructor].
Qed.

Lemma zk_challengeLabel_small : len zk_challengeLabel < 2^64.
Proof. vm_compute. reflexivity. Qed.

(* two Fiat–Shamir challenge extractions feed the XOF the same triple only if
   everything that went into the transcript coincides *)
Lemma fs_call_inj c1 p1 s1 a1 n1 c2 p2 s2 a2 n2 k :
  fs_valid c1 p1 s1 a1 -> fs_valid c2 p2 s2 a2 ->
  0 < n1 < 2^64 -> 0 < n2 < 2^64 ->
  fs_challenge_call c1 p1 s1 a1 n1 = Some k ->
  fs_challenge_call c2 p2 s2 a2 n2 = Some k ->
  c_name c1 = c_name c2 /\ c_hist c1 = c_hist c2 /\
  fs_dst (c_sid c1) p1 = fs_dst (c_sid c2) p2 /\ s1 = s2 /\ a1 = a2 /\ n1 = n2.
Proof.
  intros V1 V2 Hn1 Hn2 H1 H2.
  unfold fs_challenge_call, ext_call in H1, H2.
  pose proof (fs_ops_valid _ _ _ _ V1) as F1. pose proof (fs_ops_valid _ _ _ _ V2) as F2.
  assert (E : snd (step (fst (run (new_transcript (c_name c1)) (c_hist c1 ++ fs_ops (c_sid c1) p1 s1 a1))) (Ext zk_challengeLabel n1)) =
              snd (step (fst (run (new_transcript (c_name c2)) (c_hist c2 ++ fs_ops (c_sid c2) p2 s2 a2))) (Ext zk_challengeLabel n2)))
    by congruence.
  apply outputs_equal_iff in E; try assumption; try apply zk_challengeLabel_small.
  destruct E as (Hname & Hops & _ & Hn).
  rewrite !performed_ops_valid in Hops by assumption.
  apply app_inj_tail_length in Hops; [|reflexivity].
  destruct Hops as [Hh Hops]. unfold fs_ops in Hops.
  injection Hops as Hd Hs Ha. repeat split; assumption.
Qed.

(* a challenge extraction of positive length is never refused *)
Lemma fs_call_defined c p s a n : 0 < n ->
  exists k, fs_challenge_call c p s a n = Some k.
Proof.
  intros Hn. unfold fs_challenge_call, ext_call. rewrite step_output.
  destruct (ExtractBytes_refuses zk_challengeLabel n) eqn:E.
  - apply (proj2 (refuses_iff zk_challengeLabel n)) in Hn. rewrite Hn in E. discriminate.
  - eexists. reflexivity.
Qed.

(* ---------- Fiat–Shamir ---------- *)

Section FSProofs.
  Variable P : sproto.
  Variable encX : sp_X P -> bytes.
  Variable encA : sp_A P -> bytes.
  Variable xof : xof_call -> bytes.
  (* idealisation: equal XOF outputs only for equal (customisation, input, length) *)
  Hypothesis xof_inj : forall c1 c2, xof c1 = xof c2 -> c1 = c2.

  Let L := N.of_nat (sp_len P).
  Let verify := fs_verify P encX encA xof.

  (* the compiled verifier accepts (a,e,z) in context c iff e is the challenge derived
     from (c, statement, a) and the sigma verifier accepts (x, a, e, z) *)
  Theorem fs_accept_iff : forall c pname x a e z,
    verify c pname x a e z = true <->
    exists call, fs_challenge_call c pname (encX x) (encA a) L = Some call /\
                 e = xof call /\ sp_verify P x a e z = true.
  Proof.
    intros c pname x a e z. unfold verify, fs_verify, fs_accept. fold L.
    destruct (fs_challenge_call c pname (encX x) (encA a) L) as [call|].
    - rewrite andb_true_iff, bytes_eq_true. split.
      + intros [He Hv]. exists call. subst e. repeat split; assumption.
      + intros (call' & Hc & He & Hv). injection Hc as <-. subst e. split; [reflexivity|exact Hv].
    - split; [discriminate|]. intros (call & Hc & _). discriminate.
  Qed.

  (* an honest proof verifies in the context it was made in *)
  Theorem fs_complete : forall c pname x w r a e z,
    (forall e', sp_verify P x (fst (sp_commit P x w r)) e'
                  (sp_respond P x w (fst (sp_commit P x w r)) (snd (sp_commit P x w r)) e') = true) ->
    fs_prove P encX encA xof c pname x w r = Some (a, e, z) ->
    verify c pname x a e z = true.
  Proof.
    intros c pname x w r a e z Hc H. unfold fs_prove in H. fold L in H.
    specialize Hc. destruct (sp_commit P x w r) as [a0 s0] eqn:E. cbn [fst snd] in Hc.
    destruct (fs_challenge_call c pname (encX x) (encA a0) L) as [call|] eqn:Ecall; [|discriminate].
    injection H as <- <- <-. apply fs_accept_iff. exists call. repeat split; [exact Ecall|apply Hc].
  Qed.

  (* the same (a,e,z) accepted in two contexts / for two statements: everything bound
     coincides *)
  Lemma fs_accept_twice c1 p1 x1 c2 p2 x2 a1 a2 e z1 z2 :
    fs_valid c1 p1 (encX x1) (encA a1) -> fs_valid c2 p2 (encX x2) (encA a2) -> 0 < L < 2^64 ->
    verify c1 p1 x1 a1 e z1 = true -> verify c2 p2 x2 a2 e z2 = true ->
    c_name c1 = c_name c2 /\ c_hist c1 = c_hist c2 /\
    fs_dst (c_sid c1) p1 = fs_dst (c_sid c2) p2 /\ encX x1 = encX x2 /\ encA a1 = encA a2.
  Proof.
    intros V1 V2 HL H1 H2. apply fs_accept_iff in H1. apply fs_accept_iff in H2.
    destruct H1 as (k1 & C1 & E1 & _). destruct H2 as (k2 & C2 & E2 & _).
    assert (k1 = k2) by (apply xof_inj; congruence). subst k2.
    destruct (fs_call_inj _ _ _ _ _ _ _ _ _ _ _ V1 V2 HL HL C1 C2) as (A & B & C & D & E & _).
    repeat split; assumption.
  Qed.

  (* rejected under any different prior transcript state *)
  Theorem fs_wrong_transcript_state : forall c1 c2 pname x a e z,
    fs_valid c1 pname (encX x) (encA a) -> fs_valid c2 pname (encX x) (encA a) -> 0 < L < 2^64 ->
    c_hist c1 <> c_hist c2 ->
    verify c1 pname x a e z = true -> verify c2 pname x a e z = false.
  Proof.
    intros c1 c2 pname x a e z V1 V2 HL Hne H1.
    destruct (verify c2 pname x a e z) eqn:H2; [|reflexivity].
    destruct (fs_accept_twice _ _ _ _ _ _ _ _ _ _ _ V1 V2 HL H1 H2) as (_ & Hh & _). contradiction.
  Qed.

  (* rejected under a different session id, even with the same transcript state *)
  Theorem fs_wrong_session : forall c1 c2 pname x a e z,
    fs_valid c1 pname (encX x) (encA a) -> fs_valid c2 pname (encX x) (encA a) -> 0 < L < 2^64 ->
    wf_bytes (c_sid c1) -> wf_bytes (c_sid c2) -> length (c_sid c1) = length (c_sid c2) ->
    c_sid c1 <> c_sid c2 ->
    verify c1 pname x a e z = true -> verify c2 pname x a e z = false.
  Proof.
    intros c1 c2 pname x a e z V1 V2 HL W1 W2 Hl Hne H1.
    destruct (verify c2 pname x a e z) eqn:H2; [|reflexivity].
    destruct (fs_accept_twice _ _ _ _ _ _ _ _ _ _ _ V1 V2 HL H1 H2) as (_ & _ & Hd & _).
    apply fs_dst_inj in Hd; try assumption. destruct Hd. contradiction.
  Qed.

  (* rejected when the caller bound another prover identity *)
  Theorem fs_wrong_prover : forall c label id1 id2 pname x a e z,
    fs_valid (bind_prover c label id1) pname (encX x) (encA a) ->
    fs_valid (bind_prover c label id2) pname (encX x) (encA a) -> 0 < L < 2^64 ->
    id1 <> id2 ->
    verify (bind_prover c label id1) pname x a e z = true ->
    verify (bind_prover c label id2) pname x a e z = false.
  Proof.
    intros c label id1 id2 pname x a e z V1 V2 HL Hne H1.
    apply (fs_wrong_transcript_state _ _ _ _ _ _ _ V1 V2 HL); [|exact H1].
    cbn [bind_prover c_hist]. intros H. apply app_inv_head in H. congruence.
  Qed.

  (* rejected for any statement with a different encoding *)
  Theorem fs_wrong_statement : forall c pname x1 x2 a e z,
    fs_valid c pname (encX x1) (encA a) -> fs_valid c pname (encX x2) (encA a) -> 0 < L < 2^64 ->
    encX x1 <> encX x2 ->
    verify c pname x1 a e z = true -> verify c pname x2 a e z = false.
  Proof.
    intros c pname x1 x2 a e z V1 V2 HL Hne H1.
    destruct (verify c pname x2 a e z) eqn:H2; [|reflexivity].
    destruct (fs_accept_twice _ _ _ _ _ _ _ _ _ _ _ V1 V2 HL H1 H2) as (_ & _ & _ & Hx & _). contradiction.
  Qed.

  (* rejected under another sigma-protocol name *)
  Theorem fs_wrong_protocol : forall c p1 p2 x a e z,
    fs_valid c p1 (encX x) (encA a) -> fs_valid c p2 (encX x) (encA a) -> 0 < L < 2^64 ->
    wf_bytes (c_sid c) -> p1 <> p2 ->
    verify c p1 x a e z = true -> verify c p2 x a e z = false.
  Proof.
    intros c p1 p2 x a e z V1 V2 HL Wf Hne H1.
    destruct (verify c p2 x a e z) eqn:H2; [|reflexivity].
    destruct (fs_accept_twice _ _ _ _ _ _ _ _ _ _ _ V1 V2 HL H1 H2) as (_ & _ & Hd & _).
    apply fs_dst_inj in Hd; try assumption; [|reflexivity]. destruct Hd. contradiction.
  Qed.

  (* changing exactly one decoded component of an accepted proof rejects: another
     commitment (different encoding), another challenge, or — when the sigma verifier
     accepts at most one response per (x,a,e), e.g. Maurer with phi injective on
     responses — another response *)
  Theorem fs_component_change : forall c pname x a e z,
    fs_valid c pname (encX x) (encA a) -> 0 < L < 2^64 ->
    verify c pname x a e z = true ->
    (forall a', fs_valid c pname (encX x) (encA a') -> encA a' <> encA a -> verify c pname x a' e z = false) /\
    (forall e', e' <> e -> verify c pname x a e' z = false) /\
    ((forall z1 z2, sp_verify P x a e z1 = true -> sp_verify P x a e z2 = true -> z1 = z2) ->
     forall z', z' <> z -> verify c pname x a e z' = false).
  Proof.
    intros c pname x a e z V HL H. repeat split.
    - intros a' V' Hne. destruct (verify c pname x a' e z) eqn:H2; [|reflexivity].
      destruct (fs_accept_twice _ _ _ _ _ _ _ _ _ _ _ V' V HL H2 H) as (_ & _ & _ & _ & Ha). contradiction.
    - intros e' Hne. destruct (verify c pname x a e' z) eqn:H2; [|reflexivity].
      apply fs_accept_iff in H. apply fs_accept_iff in H2.
      destruct H as (k1 & C1 & E1 & _). destruct H2 as (k2 & C2 & E2 & _).
      rewrite C1 in C2. injection C2 as <-. congruence.
    - intros Huniq z' Hne. destruct (verify c pname x a e z') eqn:H2; [|reflexivity].
      apply fs_accept_iff in H. apply fs_accept_iff in H2.
      destruct H as (_ & _ & _ & S1). destruct H2 as (_ & _ & _ & S2).
      elim Hne. apply Huniq; assumption.
  Qed.
End FSProofs.

(* ---------- an injective "XOF": the free encoding of the triple ---------- *)

Definition xof_free (c : xof_call) : bytes :=
  xc_len c :: len (xc_custom c) :: xc_custom c ++ xc_input c.

Lemma xof_free_inj c1 c2 : xof_free c1 = xof_free c2 -> c1 = c2.
Proof.
  destruct c1 as [u1 i1 n1], c2 as [u2 i2 n2]. unfold xof_free. cbn [xc_len xc_custom xc_input].
  intros H. injection H as Hn Hl H.
  apply app_inj_length in H; [|unfold len in Hl; lia].
  destruct H as [-> ->]. subst. reflexivity.
Qed.
