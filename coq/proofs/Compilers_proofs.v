(* Compilers_proofs.v — lemmas about model/Compilers.v.  The XOF is idealised as injective
   on its (customisation, input, length) triple (section hypothesis); the byte-level
   injectivity of the transcript framing is Transcript_proofs.outputs_equal_iff (C19). *)
From Coq Require Import List ZArith NArith Bool Lia Arith PeanoNat.
From Coq Require Import ZifyN ZifyNat ZifyBool.
Import ListNotations.
Require Import V.base.Bytes V.gen.Hagrid V.model.Transcript V.proofs.Transcript_proofs.
Require Import V.gen.SigmaConsts V.model.Sigma V.model.Compilers.
Local Open Scope N_scope.

(* ---------- byte-string equality test ---------- *)

Lemma bytes_eq_refl a : bytes_eq a a = true.
Proof.
  unfold bytes_eq. rewrite Nat.eqb_refl. cbn [andb].
  induction a as [|x a IH]; cbn; [reflexivity|]. rewrite N.eqb_refl. exact IH.
Qed.

Lemma bytes_eq_true a b : bytes_eq a b = true <-> a = b.
Proof.
  split; [|intros ->; apply bytes_eq_refl].
  unfold bytes_eq. intros H. apply andb_true_iff in H. destruct H as [Hl H].
  apply Nat.eqb_eq in Hl. revert b Hl H.
  induction a as [|x a IH]; intros [|y b] Hl H; cbn in *; try discriminate; [reflexivity|].
  apply andb_true_iff in H. destruct H as [Hxy H]. apply N.eqb_eq in Hxy. subst y.
  f_equal. apply IH; [lia|exact H].
Qed.

(* ---------- hex encoding is injective on bytes ---------- *)

Lemma hex_digit_inj a b : a < 16 -> b < 16 -> hex_digit a = hex_digit b -> a = b.
Proof.
  unfold hex_digit. intros Ha Hb.
  destruct (a <? 10) eqn:E1, (b <? 10) eqn:E2; lia.
Qed.

Lemma hex_bytes_inj a b : wf_bytes a -> wf_bytes b -> hex_bytes a = hex_bytes b -> a = b.
Proof.
  revert b. induction a as [|x a IH]; intros [|y b] Wa Wb H; cbn in H; try discriminate; [reflexivity|].
  inversion Wa as [|? ? Hx Wa']; inversion Wb as [|? ? Hy Wb']; subst.
  unfold is_byte in *.
  injection H as H1 H2 H3.
  apply hex_digit_inj in H1; [|apply N.div_lt_upper_bound; lia|apply N.div_lt_upper_bound; lia].
  apply hex_digit_inj in H2; [|apply N.mod_lt; lia|apply N.mod_lt; lia].
  f_equal; [|apply IH; assumption].
  rewrite (N.div_mod x 16), (N.div_mod y 16) by lia. rewrite H1, H2. reflexivity.
Qed.

Lemma hex_bytes_length a : length (hex_bytes a) = (2 * length a)%nat.
Proof.
  induction a as [|x a IH]; [reflexivity|].
  change (hex_bytes (x :: a)) with ([hex_digit (x / 16); hex_digit (x mod 16)] ++ hex_bytes a).
  rewrite app_length, IH. cbn [length]. lia.
Qed.

(* the Fiat–Shamir domain separator determines session id and protocol name *)
Lemma fs_dst_inj sid1 p1 sid2 p2 :
  wf_bytes sid1 -> wf_bytes sid2 -> length sid1 = length sid2 ->
  fs_dst sid1 p1 = fs_dst sid2 p2 -> sid1 = sid2 /\ p1 = p2.
Proof.
  intros W1 W2 Hl H. unfold fs_dst in H.
  apply app_inj_length in H; [|rewrite !hex_bytes_length; lia].
  destruct H as [Hs H]. apply hex_bytes_inj in Hs; try assumption.
  split; [exact Hs|].
  apply app_inv_head in H. apply app_inv_head in H. apply app_inv_head in H. exact H.
Qed.

(* ---------- contexts ---------- *)

Definition small (b : bytes) : Prop := len b < 2^64.

(* the operations a Fiat–Shamir verification performs on context c are representable
   (lengths below 2^64, as Go's uint64(len(x))) *)
Definition fs_valid (c : context) (pname stmt a : bytes) : Prop :=
  Forall valid_op (c_hist c) /\ small (fs_dst (c_sid c) pname) /\ small stmt /\ small a.

Lemma fs_ops_valid c pname stmt a :
  fs_valid c pname stmt a -> Forall valid_op (c_hist c ++ fs_ops (c_sid c) pname stmt a).
Proof.
  intros (Hh & Hd & Hs & Ha). apply Forall_app. split; [exact Hh|].
  unfold fs_ops, small in *.
  assert (L1 : len zk_statementLabel < 2^64) by (vm_compute; reflexivity).
  assert (L2 : len zk_commitmentLabel < 2^64) by (vm_compute; reflexivity).
  assert (One : forall m : bytes, len [m] < 2^64) by (intros m; cbn; lia).
  constructor; [exact Hd|]. constructor.
  { cbn [valid_op]. split; [exact L1|split; [apply One|]]. constructor; [exact Hs|constructor]. }
  constructor; [|constructor].
  cbn [valid_op]. split; [exact L2|split; [apply One|]]. constructor; [exact Ha|constructor].
Qed.

Lemma zk_challengeLabel_small : len zk_challengeLabel < 2^64.
Proof. vm_compute. reflexivity. Qed.

(* two Fiat–Shamir challenge extractions feed the XOF the same triple only if
   everything that went into the transcript coincides *)
Lemma fs_call_inj c1 p1 s1 a1 n1 c2 p2 s2 a2 n2 k :
  fs_valid c1 p1 s1 a1 -> fs_valid c2 p2 s2 a2 ->
  0 < n1 < 2^64 -> 0 < n2 < 2^64 ->
  fs_challenge_call c1 p1 s1 a1 n1 = Some k ->
  fs_challenge_call c2 p2 s2 a2 n2 = Some k ->
  c_name c1 = c_name c2 /\ c_hist c1 = c_hist c2 /\
  fs_dst (c_sid c1) p1 = fs_dst (c_sid c2) p2 /\ s1 = s2 /\ a1 = a2 /\ n1 = n2.
Proof.
  intros V1 V2 Hn1 Hn2 H1 H2.
  unfold fs_challenge_call, ext_call in H1, H2.
  pose proof (fs_ops_valid _ _ _ _ V1) as F1. pose proof (fs_ops_valid _ _ _ _ V2) as F2.
  assert (E : snd (step (fst (run (new_transcript (c_name c1)) (c_hist c1 ++ fs_ops (c_sid c1) p1 s1 a1))) (Ext zk_challengeLabel n1)) =
              snd (step (fst (run (new_transcript (c_name c2)) (c_hist c2 ++ fs_ops (c_sid c2) p2 s2 a2))) (Ext zk_challengeLabel n2)))
    by congruence.
  apply outputs_equal_iff in E; try assumption; try apply zk_challengeLabel_small.
  destruct E as (Hname & Hops & _ & Hn).
  rewrite !performed_ops_valid in Hops by assumption.
  apply app_inj_tail_length in Hops; [|reflexivity].
  destruct Hops as [Hh Hops]. unfold fs_ops in Hops.
  injection Hops as Hd Hs Ha. repeat split; assumption.
Qed.

(* a challenge extraction of positive length is never refused *)
Lemma fs_call_defined c p s a n : 0 < n ->
  exists k, fs_challenge_call c p s a n = Some k.
Proof.
  intros Hn. unfold fs_challenge_call, ext_call. rewrite step_output.
  destruct (ExtractBytes_refuses zk_challengeLabel n) eqn:E.
  - apply (proj2 (refuses_iff zk_challengeLabel n)) in Hn. rewrite Hn in E. discriminate.
  - eexists. reflexivity.
Qed.

(* ---------- Fiat–Shamir ---------- *)

Section FSProofs.
  Variable P : sproto.
  Variable encX : sp_X P -> bytes.
  Variable encA : sp_A P -> bytes.
  Variable xof : xof_call -> bytes.
  (* idealisation: equal XOF outputs only for equal (customisation, input, length) *)
  Hypothesis xof_inj : forall c1 c2, xof c1 = xof c2 -> c1 = c2.

  Let L := N.of_nat (sp_len P).
  Let verify := fs_verify P encX encA xof.

  (* the compiled verifier accepts (a,e,z) in context c iff e is the challenge derived
     from (c, statement, a) and the sigma verifier accepts (x, a, e, z) *)
  Theorem fs_accept_iff : forall c pname x a e z,
    verify c pname x a e z = true <->
    exists call, fs_challenge_call c pname (encX x) (encA a) L = Some call /\
                 e = xof call /\ sp_verify P x a e z = true.
  Proof.
    intros c pname x a e z. unfold verify, fs_verify, fs_accept. fold L.
    destruct (fs_challenge_call c pname (encX x) (encA a) L) as [call|].
    - rewrite andb_true_iff, bytes_eq_true. split.
      + intros [He Hv]. exists call. subst e. repeat split; assumption.
      + intros (call' & Hc & He & Hv). injection Hc as <-. subst e. split; [reflexivity|exact Hv].
    - split; [discriminate|]. intros (call & Hc & _). discriminate.
  Qed.

  (* an honest proof verifies in the context it was made in *)
  Theorem fs_complete : forall c pname x w r a e z,
    (forall e', sp_verify P x (fst (sp_commit P x w r)) e'
                  (sp_respond P x w (fst (sp_commit P x w r)) (snd (sp_commit P x w r)) e') = true) ->
    fs_prove P encX encA xof c pname x w r = Some (a, e, z) ->
    verify c pname x a e z = true.
  Proof.
    intros c pname x w r a e z Hc H. unfold fs_prove in H. fold L in H.
    specialize Hc. destruct (sp_commit P x w r) as [a0 s0] eqn:E. cbn [fst snd] in Hc.
    destruct (fs_challenge_call c pname (encX x) (encA a0) L) as [call|] eqn:Ecall; [|discriminate].
    injection H as <- <- <-. apply fs_accept_iff. exists call. repeat split; [exact Ecall|apply Hc].
  Qed.

  (* the same (a,e,z) accepted in two contexts / for two statements: everything bound
     coincides *)
  Lemma fs_accept_twice c1 p1 x1 c2 p2 x2 a1 a2 e z1 z2 :
    fs_valid c1 p1 (encX x1) (encA a1) -> fs_valid c2 p2 (encX x2) (encA a2) -> 0 < L < 2^64 ->
    verify c1 p1 x1 a1 e z1 = true -> verify c2 p2 x2 a2 e z2 = true ->
    c_name c1 = c_name c2 /\ c_hist c1 = c_hist c2 /\
    fs_dst (c_sid c1) p1 = fs_dst (c_sid c2) p2 /\ encX x1 = encX x2 /\ encA a1 = encA a2.
  Proof.
    intros V1 V2 HL H1 H2. apply fs_accept_iff in H1. apply fs_accept_iff in H2.
    destruct H1 as (k1 & C1 & E1 & _). destruct H2 as (k2 & C2 & E2 & _).
    assert (k1 = k2) by (apply xof_inj; congruence). subst k2.
    destruct (fs_call_inj _ _ _ _ _ _ _ _ _ _ _ V1 V2 HL HL C1 C2) as (A & B & C & D & E & _).
    repeat split; assumption.
  Qed.

  (* rejected under any different prior transcript state *)
  Theorem fs_wrong_transcript_state : forall c1 c2 pname x a e z,
    fs_valid c1 pname (encX x) (encA a) -> fs_valid c2 pname (encX x) (encA a) -> 0 < L < 2^64 ->
    c_hist c1 <> c_hist c2 ->
    verify c1 pname x a e z = true -> verify c2 pname x a e z = false.
  Proof.
    intros c1 c2 pname x a e z V1 V2 HL Hne H1.
    destruct (verify c2 pname x a e z) eqn:H2; [|reflexivity].
    destruct (fs_accept_twice _ _ _ _ _ _ _ _ _ _ _ V1 V2 HL H1 H2) as (_ & Hh & _). contradiction.
  Qed.

  (* rejected under a different session id, even with the same transcript state *)
  Theorem fs_wrong_session : forall c1 c2 pname x a e z,
    fs_valid c1 pname (encX x) (encA a) -> fs_valid c2 pname (encX x) (encA a) -> 0 < L < 2^64 ->
    wf_bytes (c_sid c1) -> wf_bytes (c_sid c2) -> length (c_sid c1) = length (c_sid c2) ->
    c_sid c1 <> c_sid c2 ->
    verify c1 pname x a e z = true -> verify c2 pname x a e z = false.
  Proof.
    intros c1 c2 pname x a e z V1 V2 HL W1 W2 Hl Hne H1.
    destruct (verify c2 pname x a e z) eqn:H2; [|reflexivity].
    destruct (fs_accept_twice _ _ _ _ _ _ _ _ _ _ _ V1 V2 HL H1 H2) as (_ & _ & Hd & _).
    apply fs_dst_inj in Hd; try assumption. destruct Hd. contradiction.
  Qed.

  (* rejected when the caller bound another prover identity *)
  Theorem fs_wrong_prover : forall c label id1 id2 pname x a e z,
    fs_valid (bind_prover c label id1) pname (encX x) (encA a) ->
    fs_valid (bind_prover c label id2) pname (encX x) (encA a) -> 0 < L < 2^64 ->
    id1 <> id2 ->
    verify (bind_prover c label id1) pname x a e z = true ->
    verify (bind_prover c label id2) pname x a e z = false.
  Proof.
    intros c label id1 id2 pname x a e z V1 V2 HL Hne H1.
    apply (fs_wrong_transcript_state _ _ _ _ _ _ _ V1 V2 HL); [|exact H1].
    cbn [bind_prover c_hist]. intros H. apply app_inv_head in H. congruence.
  Qed.

  (* rejected for any statement with a different encoding *)
  Theorem fs_wrong_statement : forall c pname x1 x2 a e z,
    fs_valid c pname (encX x1) (encA a) -> fs_valid c pname (encX x2) (encA a) -> 0 < L < 2^64 ->
    encX x1 <> encX x2 ->
    verify c pname x1 a e z = true -> verify c pname x2 a e z = false.
  Proof.
    intros c pname x1 x2 a e z V1 V2 HL Hne H1.
    destruct (verify c pname x2 a e z) eqn:H2; [|reflexivity].
    destruct (fs_accept_twice _ _ _ _ _ _ _ _ _ _ _ V1 V2 HL H1 H2) as (_ & _ & _ & Hx & _). contradiction.
  Qed.

  (* rejected under another sigma-protocol name *)
  Theorem fs_wrong_protocol : forall c p1 p2 x a e z,
    fs_valid c p1 (encX x) (encA a) -> fs_valid c p2 (encX x) (encA a) -> 0 < L < 2^64 ->
    wf_bytes (c_sid c) -> p1 <> p2 ->
    verify c p1 x a e z = true -> verify c p2 x a e z = false.
  Proof.
    intros c p1 p2 x a e z V1 V2 HL Wf Hne H1.
    destruct (verify c p2 x a e z) eqn:H2; [|reflexivity].
    destruct (fs_accept_twice _ _ _ _ _ _ _ _ _ _ _ V1 V2 HL H1 H2) as (_ & _ & Hd & _).
    apply fs_dst_inj in Hd; try assumption; [|reflexivity]. destruct Hd. contradiction.
  Qed.

  (* changing exactly one decoded component of an accepted proof rejects: another
     commitment (different encoding), another challenge, or — when the sigma verifier
     accepts at most one response per (x,a,e), e.g. Maurer with phi injective on
     responses — another response *)
  Theorem fs_component_change : forall c pname x a e z,
    fs_valid c pname (encX x) (encA a) -> 0 < L < 2^64 ->
    verify c pname x a e z = true ->
    (forall a', fs_valid c pname (encX x) (encA a') -> encA a' <> encA a -> verify c pname x a' e z = false) /\
    (forall e', e' <> e -> verify c pname x a e' z = false) /\
    ((forall z1 z2, sp_verify P x a e z1 = true -> sp_verify P x a e z2 = true -> z1 = z2) ->
     forall z', z' <> z -> verify c pname x a e z' = false).
  Proof.
    intros c pname x a e z V HL H. repeat split.
    - intros a' V' Hne. destruct (verify c pname x a' e z) eqn:H2; [|reflexivity].
      destruct (fs_accept_twice _ _ _ _ _ _ _ _ _ _ _ V' V HL H2 H) as (_ & _ & _ & _ & Ha). contradiction.
    - intros e' Hne. destruct (verify c pname x a e' z) eqn:H2; [|reflexivity].
      apply fs_accept_iff in H. apply fs_accept_iff in H2.
      destruct H as (k1 & C1 & E1 & _). destruct H2 as (k2 & C2 & E2 & _).
      rewrite C1 in C2. injection C2 as <-. congruence.
    - intros Huniq z' Hne. destruct (verify c pname x a e z') eqn:H2; [|reflexivity].
      apply fs_accept_iff in H. apply fs_accept_iff in H2.
      destruct H as (_ & _ & _ & S1). destruct H2 as (_ & _ & _ & S2).
      elim Hne. apply Huniq; assumption.
  Qed.
End FSProofs.

(* ---------- an injective "XOF": the free encoding of the triple ---------- *)

Definition xof_free (c : xof_call) : bytes :=
  xc_len c :: len (xc_custom c) :: xc_custom c ++ xc_input c.

Lemma xof_free_inj c1 c2 : xof_free c1 = xof_free c2 -> c1 = c2.
Proof.
  destruct c1 as [u1 i1 n1], c2 as [u2 i2 n2]. unfold xof_free. cbn [xc_len xc_custom xc_input].
  intros H. injection H as Hn Hl H.
  apply app_inj_length in H; [|unfold len in Hl; lia].
  destruct H as [-> ->]. subst. reflexivity.
Qed.

(* ====================================================================== *)
(* Fischlin / randomised Fischlin                                            *)

(* The hash-target tests are tests on outputs of the hash oracle H; "a different context
   is rejected" holds for these compilers only with overwhelming probability over the
   oracle, which is not a statement about a fixed function H.  What is proved: the exact
   acceptance condition (every repetition: challenge length, hash target on the exact
   framing, sigma verdict; the repetition count), that it implies every sigma verdict, and
   that the key / CRS the hashes are chained from is an extraction of the session
   transcript that determines the whole context (so all hash queries of a verification in
   another context are made under another key). *)

Lemma fi_reps_iff H b elen len commonH i reps sv :
  fi_reps H b elen len commonH i reps sv = true <->
  forall j a e z, nth_error reps j = Some (a, e, z) ->
    length e = elen /\ fi_target b (H (fi_rep_input commonH (i + N.of_nat j) e z)) = true /\
    (length e <= len)%nat /\ sv (i + N.of_nat j) (pad_left len e) = true.
Proof.
  revert i. induction reps as [|[[a e] z] reps IH]; intros i; cbn [fi_reps].
  - split; [|reflexivity]. intros _ [|k] ? ? ? Hn; discriminate.
  - rewrite !andb_true_iff, IH, Nat.eqb_eq, Nat.leb_le. split.
    + intros ((((H1 & H2) & H3) & H4) & Hall) [|j] a' e' z'; cbn [nth_error].
      * intros [= <- <- <-]. rewrite N.add_0_r. repeat split; assumption.
      * intros Hn. specialize (Hall j a' e' z' Hn).
        replace (i + N.of_nat (S j)) with (i + 1 + N.of_nat j) by lia. exact Hall.
    + intros Hall. destruct (Hall 0%nat a e z eq_refl) as (H1 & H2 & H3 & H4).
      rewrite N.add_0_r in H2, H4. split; [repeat split; assumption|].
      intros j a' e' z' Hn. specialize (Hall (S j) a' e' z' Hn).
      replace (i + N.of_nat (S j)) with (i + 1 + N.of_nat j) in Hall by lia. exact Hall.
Qed.

(* exact acceptance condition of the Fischlin verifier *)
Theorem fischlin_accept_iff xof H c pname stmt rho b t len reps sv :
  fischlin_accept xof H c pname stmt rho b t len reps sv = true <->
  N.of_nat (length reps) = rho /\
  exists call, fi_key_call c pname stmt rho = Some call /\
    let commonH := H (xof call ++ stmt ++ flat_map (fun r => fst (fst r)) reps ++ c_sid c) in
    forall j a e z, nth_error reps j = Some (a, e, z) ->
      length e = N.to_nat ((t + 7) / 8) /\
      fi_target b (H (fi_rep_input commonH (N.of_nat j) e z)) = true /\
      (length e <= len)%nat /\ sv (N.of_nat j) (pad_left len e) = true.
Proof.
  unfold fischlin_accept. rewrite andb_true_iff, N.eqb_eq.
  destruct (fi_key_call c pname stmt rho) as [call|].
  - rewrite fi_reps_iff. split.
    + intros [Hc Hall]. split; [exact Hc|]. exists call. split; [reflexivity|exact Hall].
    + intros [Hc (call' & [= <-] & Hall)]. split; [exact Hc|exact Hall].
  - split; [intros [_ Hf]; discriminate|]. intros [_ (call & Hc & _)]. discriminate.
Qed.

(* a wrong number of repetitions, a challenge of the wrong length, or one rejecting sigma
   transcript: rejected, whatever the hash *)
Theorem fischlin_wrong_count xof H c pname stmt rho b t len reps sv :
  N.of_nat (length reps) <> rho -> fischlin_accept xof H c pname stmt rho b t len reps sv = false.
Proof.
  intros Hne. destruct (fischlin_accept _ _ _ _ _ _ _ _ _ _ _) eqn:E; [|reflexivity].
  apply fischlin_accept_iff in E. destruct E as [Hc _]. contradiction.
Qed.

Theorem fischlin_accept_sigma xof H c pname stmt rho b t len reps sv j a e z :
  fischlin_accept xof H c pname stmt rho b t len reps sv = true ->
  nth_error reps j = Some (a, e, z) ->
  length e = N.to_nat ((t + 7) / 8) /\ sv (N.of_nat j) (pad_left len e) = true.
Proof.
  intros E Hn. apply fischlin_accept_iff in E. destruct E as [_ (call & _ & Hall)].
  destruct (Hall j a e z Hn) as (H1 & _ & _ & H4). split; assumption.
Qed.

(* the Fischlin hash key is an extraction of the session transcript after the domain
   separator (session id, protocol name), rho and the statement: it determines all of them
   and the whole prior history *)
Definition fi_valid (c : context) (pname stmt : bytes) : Prop :=
  Forall valid_op (c_hist c) /\ small (fi_dst (c_sid c) pname) /\ small stmt.

Lemma le_bytes_length k n : length (le_bytes k n) = k.
Proof. revert n. induction k as [|k IH]; intros n; cbn [le_bytes length]; [reflexivity|]. rewrite IH. reflexivity. Qed.

Lemma fi_ops_valid c pname stmt rho :
  fi_valid c pname stmt -> Forall valid_op (c_hist c ++ fi_ops (c_sid c) pname stmt rho).
Proof.
  intros (Hh & Hd & Hs). apply Forall_app. split; [exact Hh|]. unfold fi_ops, small in *.
  assert (L1 : len fi_rhoLabel < 2^64) by (vm_compute; reflexivity).
  assert (L2 : len fi_statementLabel < 2^64) by (vm_compute; reflexivity).
  assert (One : forall m : bytes, len [m] < 2^64) by (intros m; cbn; lia).
  constructor; [exact Hd|]. constructor.
  { cbn [valid_op]. split; [exact L1|split; [apply One|]]. constructor; [|constructor].
    unfold len, le64. rewrite le_bytes_length. cbn. lia. }
  constructor; [|constructor].
  cbn [valid_op]. split; [exact L2|split; [apply One|]]. constructor; [exact Hs|constructor].
Qed.

Lemma le_bytes_inj k n m :
  n < 256 ^ N.of_nat k -> m < 256 ^ N.of_nat k -> le_bytes k n = le_bytes k m -> n = m.
Proof.
  revert n m. induction k as [|k IH]; intros n m Hn Hm H.
  - cbn in Hn, Hm. lia.
  - cbn [le_bytes] in H. injection H as H0 H1.
    rewrite Nat2N.inj_succ, N.pow_succ_r' in Hn, Hm.
    apply IH in H1; [| apply N.div_lt_upper_bound; lia | apply N.div_lt_upper_bound; lia].
    rewrite (N.div_mod n 256), (N.div_mod m 256) by lia. rewrite H0, H1. reflexivity.
Qed.

Theorem fischlin_key_call_inj c1 p1 s1 rho1 c2 p2 s2 rho2 k :
  fi_valid c1 p1 s1 -> fi_valid c2 p2 s2 -> rho1 < 2^64 -> rho2 < 2^64 ->
  fi_key_call c1 p1 s1 rho1 = Some k -> fi_key_call c2 p2 s2 rho2 = Some k ->
  c_name c1 = c_name c2 /\ c_hist c1 = c_hist c2 /\
  fi_dst (c_sid c1) p1 = fi_dst (c_sid c2) p2 /\ rho1 = rho2 /\ s1 = s2.
Proof.
  intros V1 V2 R1 R2 H1 H2. unfold fi_key_call, ext_call in H1, H2.
  pose proof (fi_ops_valid _ _ _ rho1 V1) as F1. pose proof (fi_ops_valid _ _ _ rho2 V2) as F2.
  assert (E : snd (step (fst (run (new_transcript (c_name c1)) (c_hist c1 ++ fi_ops (c_sid c1) p1 s1 rho1))) (Ext fi_commonHLabel 32)) =
              snd (step (fst (run (new_transcript (c_name c2)) (c_hist c2 ++ fi_ops (c_sid c2) p2 s2 rho2))) (Ext fi_commonHLabel 32)))
    by congruence.
  assert (LL : len fi_commonHLabel < 2^64) by (vm_compute; reflexivity).
  apply outputs_equal_iff in E; try assumption; try lia.
  destruct E as (Hname & Hops & _ & _).
  rewrite !performed_ops_valid in Hops by assumption.
  apply app_inj_tail_length in Hops; [|reflexivity].
  destruct Hops as [Hh Hops]. unfold fi_ops in Hops.
  remember (le64 rho1) as r1 eqn:E1. remember (le64 rho2) as r2 eqn:E2.
  remember (fi_dst (c_sid c1) p1) as d1 eqn:D1. remember (fi_dst (c_sid c2) p2) as d2 eqn:D2.
  injection Hops as Hd Hr Hs. subst r1 r2.
  assert (Hrho : rho1 = rho2).
  { unfold le64 in Hr. apply le_bytes_inj in Hr; [exact Hr| |]; cbn; lia. }
  split; [exact Hname|]. split; [exact Hh|]. split; [exact Hd|]. split; [exact Hrho|exact Hs].
Qed.

(* hence: a Fischlin verification in a context with another history, session id
   (same-length, well-formed), protocol name or statement chains all its hashes from an
   extraction with another XOF input (and, the XOF being injective, from another key) *)
Theorem fischlin_other_context_other_key (xof : xof_call -> bytes) c1 p1 s1 c2 p2 s2 rho k1 k2 :
  (forall a b, xof a = xof b -> a = b) ->
  fi_valid c1 p1 s1 -> fi_valid c2 p2 s2 -> rho < 2^64 ->
  fi_key_call c1 p1 s1 rho = Some k1 -> fi_key_call c2 p2 s2 rho = Some k2 ->
  (c_hist c1 <> c_hist c2 \/ fi_dst (c_sid c1) p1 <> fi_dst (c_sid c2) p2 \/ s1 <> s2) ->
  xof k1 <> xof k2.
Proof.
  intros Hinj V1 V2 R H1 H2 Hd Heq. apply Hinj in Heq. subst k2.
  destruct (fischlin_key_call_inj _ _ _ _ _ _ _ _ _ V1 V2 R R H1 H2) as (_ & A & B & _ & C).
  destruct Hd as [Hd|[Hd|Hd]]; contradiction.
Qed.

(* ---------- randomised Fischlin ---------- *)

Lemma rf_reps_iff H len crs aall i reps sv :
  rf_reps H len crs aall i reps sv = true <->
  forall j a e z, nth_error reps j = Some (a, e, z) ->
    length e = len /\
    forallb (fun x => N.eqb x 0) (firstn rf_LBytes (H (rf_rep_input crs aall (i + N.of_nat j) e z))) = true /\
    sv (i + N.of_nat j) e = true.
Proof.
  revert i. induction reps as [|[[a e] z] reps IH]; intros i; cbn [rf_reps].
  - split; [|reflexivity]. intros _ [|k] ? ? ? Hn; discriminate.
  - rewrite !andb_true_iff, IH, Nat.eqb_eq. split.
    + intros (((H0 & H1) & H2) & Hall) [|j] a' e' z'; cbn [nth_error].
      * intros [= <- <- <-]. rewrite N.add_0_r. repeat split; assumption.
      * intros Hn. specialize (Hall j a' e' z' Hn).
        replace (i + N.of_nat (S j)) with (i + 1 + N.of_nat j) by lia. exact Hall.
    + intros Hall. destruct (Hall 0%nat a e z eq_refl) as (H0 & H1 & H2).
      rewrite N.add_0_r in H1, H2. split; [repeat split; assumption|].
      intros j a' e' z' Hn. specialize (Hall (S j) a' e' z' Hn).
      replace (i + N.of_nat (S j)) with (i + 1 + N.of_nat j) in Hall by lia. exact Hall.
Qed.

(* exact acceptance condition of the randomised-Fischlin verifier (with the challenge-length
   guard of the fix for finding randfischlin-challenge-leading-zeros) *)
Theorem randfischlin_accept_iff xof H c pname len reps sv :
  randfischlin_accept xof H c pname len reps sv = true <->
  N.of_nat (length reps) = rf_R /\
  exists call, rf_crs_call c pname = Some call /\
    forall j a e z, nth_error reps j = Some (a, e, z) ->
      length e = len /\
      forallb (fun x => N.eqb x 0)
        (firstn rf_LBytes (H (rf_rep_input (xof call) (flat_map (fun r => fst (fst r)) reps) (N.of_nat j) e z))) = true /\
      sv (N.of_nat j) e = true.
Proof.
  unfold randfischlin_accept. rewrite andb_true_iff, N.eqb_eq.
  destruct (rf_crs_call c pname) as [call|].
  - rewrite rf_reps_iff. split.
    + intros [Hc Hall]. split; [exact Hc|]. exists call. split; [reflexivity|exact Hall].
    + intros [Hc (call' & [= <-] & Hall)]. split; [exact Hc|exact Hall].
  - split; [intros [_ Hf]; discriminate|]. intros [_ (call & Hc & _)]. discriminate.
Qed.

Theorem randfischlin_wrong_count xof H c pname len reps sv :
  N.of_nat (length reps) <> rf_R -> randfischlin_accept xof H c pname len reps sv = false.
Proof.
  intros Hne. destruct (randfischlin_accept _ _ _ _ _ _ _) eqn:E; [|reflexivity].
  apply randfischlin_accept_iff in E. destruct E as [Hc _]. contradiction.
Qed.

(* a challenge of another length (e.g. with leading zero bytes) is rejected *)
Theorem randfischlin_wrong_challenge_length xof H c pname len reps sv j a e z :
  nth_error reps j = Some (a, e, z) -> length e <> len ->
  randfischlin_accept xof H c pname len reps sv = false.
Proof.
  intros Hn Hne. destruct (randfischlin_accept _ _ _ _ _ _ _) eqn:E; [|reflexivity].
  apply randfischlin_accept_iff in E. destruct E as [_ (call & _ & Hall)].
  destruct (Hall j a e z Hn) as (Hl & _). contradiction.
Qed.

Definition rf_valid (c : context) (pname : bytes) : Prop :=
  Forall valid_op (c_hist c) /\
  small (rf_transcriptLabel ++ dash ++ pname ++ dash ++ hex_bytes (c_sid c)) /\
  small (rf_transcriptLabel ++ dash ++ hex_bytes (c_sid c)).

(* the CRS is an extraction that determines the prior history, the protocol name and the
   session id *)
Theorem randfischlin_crs_call_inj c1 p1 c2 p2 k :
  rf_valid c1 p1 -> rf_valid c2 p2 ->
  wf_bytes (c_sid c1) -> wf_bytes (c_sid c2) ->
  rf_crs_call c1 p1 = Some k -> rf_crs_call c2 p2 = Some k ->
  c_name c1 = c_name c2 /\ c_hist c1 = c_hist c2 /\ c_sid c1 = c_sid c2 /\ p1 = p2.
Proof.
  intros (Vh1 & Va1 & Vb1) (Vh2 & Va2 & Vb2) W1 W2 H1 H2. unfold rf_crs_call, ext_call in H1, H2.
  assert (F : forall c p, Forall valid_op (c_hist c) ->
              small (rf_transcriptLabel ++ dash ++ p ++ dash ++ hex_bytes (c_sid c)) ->
              small (rf_transcriptLabel ++ dash ++ hex_bytes (c_sid c)) ->
              Forall valid_op (c_hist c ++ rf_ops (c_sid c) p)).
  { intros c p Vh Va Vb. apply Forall_app. split; [exact Vh|]. unfold rf_ops. repeat constructor; assumption. }
  assert (E : snd (step (fst (run (new_transcript (c_name c1)) (c_hist c1 ++ rf_ops (c_sid c1) p1))) (Ext rf_crsLabel 32)) =
              snd (step (fst (run (new_transcript (c_name c2)) (c_hist c2 ++ rf_ops (c_sid c2) p2))) (Ext rf_crsLabel 32)))
    by congruence.
  assert (LL : len rf_crsLabel < 2^64) by (vm_compute; reflexivity).
  apply outputs_equal_iff in E; try (apply F; assumption); try assumption; try lia.
  destruct E as (Hname & Hops & _ & _).
  rewrite !performed_ops_valid in Hops by (apply F; assumption).
  apply app_inj_tail_length in Hops; [|reflexivity].
  destruct Hops as [Hh Hops]. unfold rf_ops in Hops.
  remember (rf_transcriptLabel ++ dash ++ p1 ++ dash ++ hex_bytes (c_sid c1)) as A1 eqn:EA1.
  remember (rf_transcriptLabel ++ dash ++ p2 ++ dash ++ hex_bytes (c_sid c2)) as A2 eqn:EA2.
  remember (rf_transcriptLabel ++ dash ++ hex_bytes (c_sid c1)) as B1 eqn:EB1.
  remember (rf_transcriptLabel ++ dash ++ hex_bytes (c_sid c2)) as B2 eqn:EB2.
  injection Hops as Hd1 Hd2. subst A1 A2 B1 B2.
  apply app_inv_head in Hd2. apply app_inv_head in Hd2. apply hex_bytes_inj in Hd2; try assumption.
  rewrite Hd2 in Hd1. apply app_inv_head in Hd1. apply app_inv_head in Hd1.
  apply app_inv_tail in Hd1.
  split; [exact Hname|]. split; [exact Hh|]. split; [exact Hd2|exact Hd1].
Qed.
