(* ScalarMul_proofs.v — the window scalar multiplication and the bucket multi-scalar
   multiplication of model/ScalarMul.v compute n*P resp. sum n_i*P_i in EVERY commutative
   monoid (zero, add) — in particular in every abelian group; no inverse is needed —
   for every byte string, every vector length.  The group laws are section hypotheses; for an
   elliptic curve, associativity of the chord-tangent law is exactly such a hypothesis and is
   not proved anywhere in this development. *)
From Coq Require Import NArith Arith List Bool Lia ZifyN ZifyNat ZifyBool.
Import ListNotations.
Require Import V.model.ScalarMul V.gen.MsmWindow.
Local Open Scope N_scope.

(* little-endian value of a byte string *)
Fixpoint le_value (s : list N) : N :=
  match s with [] => 0 | b :: r => b + 256 * le_value r end.

Definition bytes_ok (s : list N) : Prop := Forall (fun b => b < 256) s.

(* The window extraction: the closure getWindow as REGENERATED from mul.go with the Go typing of every
   subexpression (gen/MsmWindow.v; byte-typed arithmetic wraps modulo 256) is the hand-written
   get_window of model/ScalarMul.v, for every window width, start bit and byte string.  A change such as
   `uint(bit << uint(k))` (a byte-typed shift) makes the generated term differ and this proof fail. *)
Lemma range_loop_get_window_aux : forall b start n k acc,
  range_loop (getWindow_body b start) (N.of_nat k) n acc = N.lor acc (get_window_aux b start k n).
Proof.
  intros b start. induction n as [|n IH]; intros k acc.
  - cbn [range_loop get_window_aux]. symmetry. apply N.lor_0_r.
  - cbn [range_loop get_window_aux]. unfold getWindow_body. cbv zeta.
    destruct (N.of_nat (length b) <=? (start + N.of_nat k) / 8).
    + symmetry. apply N.lor_0_r.
    + rewrite <- Nat2N.inj_succ. rewrite IH. symmetry. apply N.lor_assoc.
Qed.

Theorem getWindow_generated_eq_model : forall w b start, getWindow w b start = get_window b start w.
Proof.
  intros w b start. unfold getWindow, get_window. destruct b as [|x r].
  - reflexivity.
  - replace (N.of_nat (length (x :: r)) =? 0) with false
      by (symmetry; apply N.eqb_neq; cbn [length]; lia).
    change 0 with (N.of_nat 0) at 1. rewrite range_loop_get_window_aux. apply N.lor_0_l.
Qed.

Section Proofs.
  Context {G : Type} (zero : G) (add : G -> G -> G) (dbl : G -> G) (is_zero : G -> bool).
  Hypothesis add_assoc : forall x y z, add x (add y z) = add (add x y) z.
  Hypothesis add_comm : forall x y, add x y = add y x.
  Hypothesis add_0_l : forall x, add zero x = x.
  Hypothesis dbl_spec : forall x, dbl x = add x x.
  Hypothesis is_zero_spec : forall x, is_zero x = true -> x = zero.

  Lemma add_0_r : forall x, add x zero = x.
  Proof. intro x. rewrite add_comm. apply add_0_l. Qed.

  (* n*P by n-fold addition *)
  Definition nmul (n : N) (P : G) : G := N.iter n (add P) zero.

  Lemma nmul_0 : forall P, nmul 0 P = zero.
  Proof. reflexivity. Qed.

  Lemma nmul_succ : forall n P, nmul (N.succ n) P = add P (nmul n P).
  Proof. intros. unfold nmul. apply N.iter_succ. Qed.

  Lemma nmul_1 : forall P, nmul 1 P = P.
  Proof. intro P. change 1 with (N.succ 0). rewrite nmul_succ, nmul_0. apply add_0_r. Qed.

  Lemma nmul_add : forall n m P, nmul (n + m) P = add (nmul n P) (nmul m P).
  Proof.
    intros n m P. induction n using N.peano_ind.
    - rewrite N.add_0_l, nmul_0, add_0_l. reflexivity.
    - rewrite N.add_succ_l, !nmul_succ, IHn. apply add_assoc.
  Qed.

  Lemma nmul_zero : forall n, nmul n zero = zero.
  Proof.
    intro n. induction n using N.peano_ind; [reflexivity|]. rewrite nmul_succ, IHn. apply add_0_l.
  Qed.

  Lemma nmul_dbl : forall n P, dbl (nmul n P) = nmul (2 * n) P.
  Proof. intros. rewrite dbl_spec. replace (2 * n) with (n + n) by lia. symmetry. apply nmul_add. Qed.

  Lemma nmul_mul : forall n m P, nmul n (nmul m P) = nmul (n * m) P.
  Proof.
    intros n m P. induction n using N.peano_ind.
    - reflexivity.
    - rewrite nmul_succ, IHn. replace (N.succ n * m) with (m + n * m) by lia. symmetry. apply nmul_add.
  Qed.

  Lemma nmul_add_distr : forall n P Q, nmul n (add P Q) = add (nmul n P) (nmul n Q).
  Proof.
    intros n P Q. induction n using N.peano_ind.
    - rewrite !nmul_0, add_0_l. reflexivity.
    - rewrite !nmul_succ, IHn. rewrite <- !add_assoc. f_equal.
      rewrite !add_assoc. f_equal. apply add_comm.
  Qed.

  Lemma dbl4_nmul : forall n P, dbl4 dbl (nmul n P) = nmul (16 * n) P.
  Proof. intros. unfold dbl4. rewrite !nmul_dbl. f_equal. lia. Qed.

  (* ---- the precomputed table ------------------------------------------------------------- *)
  Definition table_ok (P : G) (tbl : list G) (m : nat) : Prop :=
    length tbl = m /\ forall i, (i < m)%nat -> nth i tbl zero = nmul (N.of_nat i) P.

  Lemma build_table_ok : forall P cnt j tbl, (1 <= j)%nat ->
    table_ok P tbl (2 * j) -> table_ok P (build_table zero add dbl P j cnt tbl) (2 * (j + cnt)).
  Proof.
    intros P cnt. induction cnt as [|c IH]; intros j tbl Hj [Hlen Hnth].
    - cbn [build_table]. replace (j + 0)%nat with j by lia. split; assumption.
    - cbn [build_table]. replace (j + S c)%nat with (S j + c)%nat by lia. apply IH; [lia|].
      assert (Hd : dbl (nth j tbl zero) = nmul (N.of_nat (2 * j)) P).
      { rewrite Hnth by lia. rewrite nmul_dbl. f_equal. lia. }
      split.
      + rewrite app_length. cbn [length]. lia.
      + intros i Hi. destruct (Compare_dec.lt_dec i (2 * j)) as [Hlt | Hge].
        * rewrite app_nth1 by lia. apply Hnth. exact Hlt.
        * rewrite app_nth2 by lia. rewrite Hlen.
          destruct (Nat.eq_dec i (2 * j)) as [-> | Hne].
          -- replace (2 * j - 2 * j)%nat with 0%nat by lia. cbn [nth]. exact Hd.
          -- assert (i = S (2 * j)) by lia. subst i.
             replace (S (2 * j) - 2 * j)%nat with 1%nat by lia. cbn [nth].
             rewrite Hd. rewrite add_comm. rewrite <- nmul_succ. f_equal. lia.
  Qed.

  Lemma precompute_ok : forall P, table_ok P (precompute zero add dbl P) 16.
  Proof.
    intro P. unfold precompute. change 16%nat with (2 * (1 + 7))%nat. apply build_table_ok; [lia|].
    split; [reflexivity|]. intros i Hi. destruct i as [|[|i]]; [| |lia].
    - reflexivity.
    - cbn [nth]. symmetry. apply nmul_1.
  Qed.

  (* ---- one byte: r -> 256 r + byte --------------------------------------------------------------- *)
  Lemma window_step_ok : forall P k byte, byte < 256 ->
    window_step zero add dbl (precompute zero add dbl P) (nmul k P) byte = nmul (256 * k + byte) P.
  Proof.
    intros P k byte Hb. destruct (precompute_ok P) as [_ Hnth]. unfold window_step.
    assert (Hhi : (byte / 16) mod 16 < 16) by (apply N.mod_lt; lia).
    assert (Hlo : byte mod 16 < 16) by (apply N.mod_lt; lia).
    rewrite !Hnth by lia. rewrite !N2Nat.id.
    rewrite dbl4_nmul, <- nmul_add, dbl4_nmul, <- nmul_add. f_equal.
    assert (Hsmall : byte / 16 < 16) by (apply N.div_lt_upper_bound; lia).
    rewrite (N.mod_small (byte / 16) 16) by exact Hsmall.
    pose proof (N.div_mod byte 16 ltac:(lia)). lia.
  Qed.

  (* ScalarMulLowLevel: n*P for the little-endian value n of ANY byte string (incl. the empty one) *)
  Theorem scalar_mul_window_correct : forall (P : G) (s : list N), bytes_ok s ->
    scalar_mul_window zero add dbl P s = nmul (le_value s) P.
  Proof.
    intros P s Hs. unfold scalar_mul_window. induction Hs as [|b r Hb Hr IH].
    - reflexivity.
    - cbn [rev le_value]. rewrite fold_left_app. cbn [fold_left]. rewrite IH.
      rewrite window_step_ok by exact Hb. f_equal. lia.
  Qed.

  (* algebrautils.scalarMul: the same loop on a big-endian string *)
  Theorem scalar_mul_window_be_correct : forall (P : G) (s : list N), bytes_ok s ->
    scalar_mul_window_be zero add dbl P s = nmul (le_value (rev s)) P.
  Proof.
    intros P s Hs. rewrite <- scalar_mul_window_correct.
    - unfold scalar_mul_window, scalar_mul_window_be. rewrite rev_involutive. reflexivity.
    - apply Forall_rev. exact Hs.
  Qed.

  (* ================================================================================== *)
  (*  multi-scalar multiplication                                                          *)
  (* ================================================================================== *)

  Lemma add4 : forall a x b y, add (add a x) (add b y) = add (add a b) (add x y).
  Proof.
    intros. rewrite <- !add_assoc. f_equal. rewrite !add_assoc. f_equal. apply add_comm.
  Qed.

  Lemma nmul_2 : forall x, nmul 2 x = add x x.
  Proof. intro x. change 2 with (1 + 1). rewrite nmul_add, nmul_1. reflexivity. Qed.

  (* sum_i f(s_i) * P_i over the zipped lists *)
  Definition wsumf (f : list N -> N) (ps : list G) (ss : list (list N)) : G :=
    fold_right (fun pk acc => add (nmul (f (snd pk)) (fst pk)) acc) zero (combine ps ss).

  Lemma wsumf_cons : forall f P ps s ss,
    wsumf f (P :: ps) (s :: ss) = add (nmul (f s) P) (wsumf f ps ss).
  Proof. reflexivity. Qed.

  Lemma wsumf_nil_r : forall f ps, wsumf f ps [] = zero.
  Proof. intros f [|P ps]; reflexivity. Qed.

  Lemma wsumf_add : forall f g ps ss,
    add (wsumf f ps ss) (wsumf g ps ss) = wsumf (fun s => f s + g s) ps ss.
  Proof.
    intros f g ps. induction ps as [|P ps IH]; intros [|s ss]; try (cbn; apply add_0_l).
    rewrite !wsumf_cons, nmul_add, <- IH. apply add4.
  Qed.

  Lemma wsumf_scale : forall c f ps ss, nmul c (wsumf f ps ss) = wsumf (fun s => c * f s) ps ss.
  Proof.
    intros c f ps. induction ps as [|P ps IH]; intros [|s ss]; try (cbn; apply nmul_zero).
    rewrite !wsumf_cons, nmul_add_distr, nmul_mul, IH. reflexivity.
  Qed.

  Lemma wsumf_ext : forall f g ps ss, (forall s, In s ss -> f s = g s) -> wsumf f ps ss = wsumf g ps ss.
  Proof.
    intros f g ps. induction ps as [|P ps IH]; intros [|s ss] H; try reflexivity.
    rewrite !wsumf_cons, (H s (or_introl eq_refl)). f_equal. apply IH. intros s' Hs'. apply H. right. exact Hs'.
  Qed.

  Lemma wsumf_zero : forall f ps ss, (forall s, In s ss -> f s = 0) -> wsumf f ps ss = zero.
  Proof.
    intros f ps. induction ps as [|P ps IH]; intros [|s ss] H; try reflexivity.
    rewrite wsumf_cons, (H s (or_introl eq_refl)), nmul_0, add_0_l. apply IH.
    intros s' Hs'. apply H. right. exact Hs'.
  Qed.

  (* ---- the naive path (n <= 7) ------------------------------------------------------------ *)
  Lemma msm_naive_acc : forall ps ss acc, Forall bytes_ok ss ->
    fold_left (fun acc ps => add acc (scalar_mul_window zero add dbl (fst ps) (snd ps))) (combine ps ss) acc =
    add acc (wsumf le_value ps ss).
  Proof.
    intros ps. induction ps as [|P ps IH]; intros [|s ss] acc Hss; try (cbn; symmetry; apply add_0_r).
    cbn [combine fold_left fst snd]. inversion Hss as [|? ? Hs Hss']; subst.
    rewrite IH by exact Hss'. rewrite scalar_mul_window_correct by exact Hs.
    rewrite wsumf_cons. symmetry. apply add_assoc.
  Qed.

  Lemma msm_naive_correct : forall ps ss, Forall bytes_ok ss ->
    msm_naive zero add dbl ps ss = wsumf le_value ps ss.
  Proof. intros. unfold msm_naive. rewrite msm_naive_acc by assumption. apply add_0_l. Qed.

  (* ---- acc := 2^w * acc ------------------------------------------------------------------------ *)
  Lemma iter_double : forall n acc, iter_n n (fun x => add x x) acc = nmul (2 ^ N.of_nat n) acc.
  Proof.
    induction n as [|n IH]; intro acc.
    - cbn. symmetry. apply nmul_1.
    - cbn [iter_n]. rewrite IH, <- nmul_2, nmul_mul. f_equal.
      rewrite Nat2N.inj_succ, N.pow_succ_r'. lia.
  Qed.

  (* ---- bits of the little-endian value ------------------------------------------------------- *)
  Lemma le_value_lt : forall s, bytes_ok s -> le_value s < 2 ^ (8 * N.of_nat (length s)).
  Proof.
    intros s Hs. induction Hs as [|b r Hb Hr IH].
    - cbn. lia.
    - cbn [le_value length]. rewrite Nat2N.inj_succ.
      replace (8 * N.succ (N.of_nat (length r))) with (8 + 8 * N.of_nat (length r)) by lia.
      rewrite N.pow_add_r. change (2 ^ 8) with 256. nia.
  Qed.

  Lemma testbit_above : forall v n m, v < 2 ^ n -> n <= m -> N.testbit v m = false.
  Proof.
    intros v n m Hv Hnm. destruct (N.eq_dec v 0) as [->|Hv0]; [apply N.bits_0|].
    apply N.bits_above_log2. apply N.log2_lt_pow2; [lia|].
    apply N.lt_le_trans with (2 ^ n); [exact Hv|]. apply N.pow_le_mono_r; lia.
  Qed.

  Lemma div8_facts : forall i, 8 <= i -> (i - 8) / 8 = i / 8 - 1 /\ (i - 8) mod 8 = i mod 8 /\ 1 <= i / 8.
  Proof.
    intros i Hi. pose proof (N.div_mod i 8 ltac:(lia)). pose proof (N.mod_lt i 8 ltac:(lia)).
    pose proof (N.div_mod (i - 8) 8 ltac:(lia)). pose proof (N.mod_lt (i - 8) 8 ltac:(lia)).
    assert (i / 8 >= 1) by (apply N.le_ge, N.div_le_lower_bound; lia).
    assert (E : (i - 8) / 8 = i / 8 - 1).
    { symmetry. apply N.div_unique with (i mod 8); lia. }
    repeat split; lia.
  Qed.

  Lemma testbit_le : forall s i, bytes_ok s ->
    N.testbit (le_value s) i = N.testbit (nth (N.to_nat (i / 8)) s 0) (i mod 8).
  Proof.
    intros s i Hs. revert i. induction Hs as [|b r Hb Hr IH]; intro i.
    - cbn [le_value]. rewrite N.bits_0. destruct (N.to_nat (i / 8)); cbn; reflexivity.
    - cbn [le_value]. destruct (N.lt_ge_cases i 8) as [Hlt | Hge].
      + rewrite (N.div_small i 8), (N.mod_small i 8) by exact Hlt. cbn [N.to_nat nth].
        rewrite <- (N.mod_pow2_bits_low (b + 256 * le_value r) 8 i) by exact Hlt.
        change (2 ^ 8) with 256. rewrite N.mul_comm, N.mod_add by lia. rewrite N.mod_small by exact Hb. reflexivity.
      + destruct (div8_facts i Hge) as (E1 & E2 & E3).
        replace i with (i - 8 + 8) at 1 by lia. rewrite <- N.div_pow2_bits.
        change (2 ^ 8) with 256. rewrite N.mul_comm, N.div_add by lia. rewrite N.div_small by exact Hb.
        rewrite N.add_0_l, IH, E1, E2.
        replace (N.to_nat (i / 8)) with (S (N.to_nat (i / 8 - 1))) by lia. reflexivity.
  Qed.

  (* ---- getWindow = ((value >> start) mod 2^w) --------------------------------------------------- *)
  Lemma bit_extract : forall byte r n, N.testbit (N.land (N.shiftr byte r) 1) n = N.testbit byte r && (n =? 0).
  Proof.
    intros byte r n. rewrite N.land_spec, N.shiftr_spec by lia. change 1 with (N.ones 1).
    destruct (N.eqb_spec n 0) as [->|Hn].
    - rewrite N.ones_spec_low by lia. rewrite N.add_0_l. reflexivity.
    - rewrite N.ones_spec_high by lia. rewrite !andb_false_r. reflexivity.
  Qed.

  Lemma get_window_aux_bits : forall s start, bytes_ok s -> forall w k j,
    N.testbit (get_window_aux s start k w) j =
    (N.of_nat k <=? j) && (j <? N.of_nat (k + w)) && N.testbit (le_value s) (start + j).
  Proof.
    intros s start Hs. induction w as [|w IH]; intros k j.
    - cbn [get_window_aux]. rewrite N.bits_0. replace (k + 0)%nat with k by lia.
      destruct (N.leb_spec (N.of_nat k) j); destruct (N.ltb_spec j (N.of_nat k)); cbn; try reflexivity; lia.
    - cbn [get_window_aux]. cbv zeta.
      destruct (N.leb_spec (N.of_nat (length s)) ((start + N.of_nat k) / 8)) as [Hout | Hin].
      + rewrite N.bits_0.
        destruct (N.leb_spec (N.of_nat k) j) as [Hkj|]; [|reflexivity].
        rewrite (testbit_above (le_value s) (8 * N.of_nat (length s)) (start + j) (le_value_lt s Hs)).
        * symmetry. apply andb_false_r.
        * pose proof (N.div_mod (start + N.of_nat k) 8 ltac:(lia)).
          pose proof (N.mod_lt (start + N.of_nat k) 8 ltac:(lia)). nia.
      + rewrite N.lor_spec, IH.
        destruct (N.ltb_spec j (N.of_nat k)) as [Hjk | Hjk].
        * (* j < k *)
          rewrite N.shiftl_spec_low by exact Hjk.
          destruct (N.leb_spec (N.of_nat k) j); [lia|]. destruct (N.leb_spec (N.of_nat (S k)) j); [lia|]. reflexivity.
        * rewrite N.shiftl_spec_high by lia. rewrite bit_extract.
          rewrite <- (testbit_le s (start + N.of_nat k) Hs).
          destruct (N.leb_spec (N.of_nat k) j); [|lia]. cbn [andb].
          destruct (N.eqb_spec (j - N.of_nat k) 0) as [E0 | E0].
          -- assert (j = N.of_nat k) by lia. subst j.
             destruct (N.leb_spec (N.of_nat (S k)) (N.of_nat k)); [lia|]. cbn [andb]. rewrite orb_false_r, andb_true_r.
             destruct (N.ltb_spec (N.of_nat k) (N.of_nat (k + S w))); [|lia]. reflexivity.
          -- rewrite andb_false_r. cbn [orb].
             destruct (N.leb_spec (N.of_nat (S k)) j); [|lia].
             replace (S k + w)%nat with (k + S w)%nat by lia. reflexivity.
  Qed.

  Lemma get_window_spec : forall s start w, bytes_ok s ->
    get_window s start w = (le_value s / 2 ^ start) mod 2 ^ w.
  Proof.
    intros s start w Hs. destruct s as [|b r].
    - unfold get_window. cbn [le_value]. rewrite N.div_0_l by (apply N.pow_nonzero; lia). symmetry. apply N.mod_0_l. apply N.pow_nonzero; lia.
    - unfold get_window. apply N.bits_inj. intro j. rewrite get_window_aux_bits by exact Hs.
      cbn [N.of_nat plus]. rewrite N2Nat.id. destruct (N.ltb_spec j w) as [Hlt | Hge].
      + rewrite N.mod_pow2_bits_low by exact Hlt. rewrite N.div_pow2_bits.
        destruct (N.leb_spec 0 j); [|lia]. cbn [andb]. f_equal. lia.
      + rewrite N.mod_pow2_bits_high by exact Hge. rewrite andb_false_r. reflexivity.
  Qed.

  Lemma get_window_lt : forall s start w, bytes_ok s -> get_window s start w < 2 ^ w.
  Proof. intros. rewrite get_window_spec by assumption. apply N.mod_lt. apply N.pow_nonzero. lia. Qed.

  (* ---- buckets ---------------------------------------------------------------------------------------- *)
  Lemma update_nth_length : forall A (f : A -> A) l i, length (update_nth i f l) = length l.
  Proof. intros A f l. induction l as [|x l IH]; intros [|i]; cbn; try reflexivity; f_equal; apply IH. Qed.

  Lemma update_nth_same : forall A (f : A -> A) (d : A) l i, (i < length l)%nat ->
    nth i (update_nth i f l) d = f (nth i l d).
  Proof.
    intros A f d l. induction l as [|x l IH]; intros [|i] Hi; cbn in *; try lia; try reflexivity.
    apply IH. lia.
  Qed.

  Lemma update_nth_other : forall A (f : A -> A) (d : A) l i j, i <> j ->
    nth j (update_nth i f l) d = nth j l d.
  Proof.
    intros A f d l. induction l as [|x l IH]; intros [|i] [|j] Hij; cbn; try reflexivity; try lia.
    apply IH. lia.
  Qed.

  Definition ind (start w j : N) (s : list N) : N := if get_window s start w =? j then 1 else 0.

  Lemma fill_buckets_spec : forall start w ps ss bs, Forall bytes_ok ss ->
    2 ^ w <= N.of_nat (length bs) ->
    length (fill_buckets add bs ps ss start w) = length bs /\
    forall j, (1 <= j < length bs)%nat ->
      nth j (fill_buckets add bs ps ss start w) zero = add (nth j bs zero) (wsumf (ind start w (N.of_nat j)) ps ss).
  Proof.
    intros start w ps. induction ps as [|P ps IH]; intros ss bs Hss Hlen.
    - cbn. split; [reflexivity|]. intros. symmetry. apply add_0_r.
    - destruct ss as [|s ss].
      + cbn. split; [reflexivity|]. intros. symmetry. apply add_0_r.
      + inversion Hss as [|? ? Hs Hss']; subst. cbn [fill_buckets]. cbv zeta.
        pose proof (get_window_lt s start w Hs) as Hwin.
        destruct (N.eqb_spec (get_window s start w) 0) as [E0 | E0].
        * destruct (IH ss bs Hss' Hlen) as [HL HN]. split; [exact HL|]. intros j Hj.
          rewrite HN by exact Hj. rewrite wsumf_cons. unfold ind at 2. rewrite E0.
          destruct (N.eqb_spec 0 (N.of_nat j)); [lia|]. rewrite nmul_0, add_0_l. reflexivity.
        * set (bs' := update_nth (N.to_nat (get_window s start w)) (fun b => add b P) bs).
          assert (HL' : length bs' = length bs) by apply update_nth_length.
          destruct (IH ss bs' Hss' ltac:(rewrite HL'; exact Hlen)) as [HL HN]. split; [rewrite HL; exact HL'|].
          intros j Hj. rewrite HN by (rewrite HL'; exact Hj). rewrite wsumf_cons. unfold ind at 2.
          destruct (N.eqb_spec (get_window s start w) (N.of_nat j)) as [Ej | Ej].
          -- subst bs'. rewrite Ej, Nat2N.id. rewrite update_nth_same by lia.
             rewrite nmul_1. symmetry. apply add_assoc.
          -- subst bs'. rewrite update_nth_other by lia. rewrite nmul_0, add_0_l. reflexivity.
  Qed.

  Lemma nth_repeat_zero : forall n j, nth j (repeat zero n) zero = zero.
  Proof. induction n as [|n IH]; intros [|j]; cbn; try reflexivity. apply IH. Qed.

  (* ---- the running-sum trick: sum_k k * bucket_k with ~2^w additions ---------------------------- *)
  Lemma running_sum_spec : forall (winf : list N -> N) ps ss buckets,
    (forall j, (1 <= j < length buckets)%nat ->
       nth j buckets zero = wsumf (fun s => if winf s =? N.of_nat j then 1 else 0) ps ss) ->
    forall k run acc, (k < length buckets)%nat ->
      run = wsumf (fun s => if N.of_nat k <? winf s then 1 else 0) ps ss ->
      running_sum zero add is_zero buckets k run acc =
      add acc (wsumf (fun s => N.min (winf s) (N.of_nat k)) ps ss).
  Proof.
    intros winf ps ss buckets HB. induction k as [|k IH]; intros run acc Hk Hrun.
    - cbn [running_sum]. rewrite wsumf_zero; [symmetry; apply add_0_r|]. intros. lia.
    - cbn [running_sum]. cbv zeta.
      assert (Hrun' : (if is_zero (nth (S k) buckets zero) then run else add run (nth (S k) buckets zero)) =
                      wsumf (fun s => if N.of_nat k <? winf s then 1 else 0) ps ss).
      { assert (E : add run (nth (S k) buckets zero) = wsumf (fun s => if N.of_nat k <? winf s then 1 else 0) ps ss).
        { rewrite HB by lia. rewrite Hrun, wsumf_add. apply wsumf_ext. intros s _.
          destruct (N.ltb_spec (N.of_nat (S k)) (winf s)); destruct (N.eqb_spec (winf s) (N.of_nat (S k)));
            destruct (N.ltb_spec (N.of_nat k) (winf s)); lia. }
        destruct (is_zero (nth (S k) buckets zero)) eqn:Ez; [|exact E].
        apply is_zero_spec in Ez. rewrite Ez, add_0_r in E. exact E. }
      rewrite (IH _ _ ltac:(lia) Hrun'). rewrite Hrun'. rewrite <- add_assoc, wsumf_add. f_equal.
      apply wsumf_ext. intros s _. destruct (N.ltb_spec (N.of_nat k) (winf s)); lia.
  Qed.

  (* ---- one window round: acc := 2^w acc + sum_i window_i * P_i --------------------------------------- *)
  Lemma window_round_spec : forall ps ss w acc wIdx, Forall bytes_ok ss -> 0 < w ->
    window_round zero add is_zero ps ss w acc wIdx =
    add (nmul (2 ^ w) acc) (wsumf (fun s => get_window s (wIdx * w) w) ps ss).
  Proof.
    intros ps ss w acc wIdx Hss Hw. unfold window_round. cbv zeta.
    rewrite iter_double, N2Nat.id.
    set (m := N.to_nat (2 ^ w)).
    assert (Hm : (1 <= m)%nat) by (subst m; pose proof (N.pow_nonzero 2 w ltac:(lia)); lia).
    destruct (fill_buckets_spec (wIdx * w) w ps ss (repeat zero m) Hss
                ltac:(rewrite repeat_length; subst m; lia)) as [HL HN].
    rewrite repeat_length in HL, HN.
    rewrite (running_sum_spec (fun s => get_window s (wIdx * w) w) ps ss).
    - f_equal. apply wsumf_ext. intros s Hs.
      pose proof (get_window_lt s (wIdx * w) w (proj1 (Forall_forall _ _) Hss s Hs)). subst m. lia.
    - intros j Hj. rewrite HL in Hj. rewrite HN by exact Hj. rewrite nth_repeat_zero, add_0_l. reflexivity.
    - rewrite HL. lia.
    - symmetry. apply wsumf_zero. intros s Hs.
      pose proof (get_window_lt s (wIdx * w) w (proj1 (Forall_forall _ _) Hss s Hs)).
      destruct (N.ltb_spec (N.of_nat (m - 1)) (get_window s (wIdx * w) w)); [subst m; lia | reflexivity].
  Qed.

  (* ---- all rounds: Horner evaluation in base 2^w ------------------------------------------------------ *)
  Lemma rounds_spec : forall ps ss w, Forall bytes_ok ss -> 0 < w -> forall t acc,
    acc = wsumf (fun s => le_value s / 2 ^ (N.of_nat t * w)) ps ss ->
    fold_left (window_round zero add is_zero ps ss w) (down_from t) acc = wsumf le_value ps ss.
  Proof.
    intros ps ss w Hss Hw. induction t as [|t IH]; intros acc Hacc.
    - cbn [down_from fold_left]. rewrite Hacc. apply wsumf_ext. intros s _.
      cbn. rewrite N.div_1_r. reflexivity.
    - cbn [down_from fold_left]. apply IH. rewrite window_round_spec by assumption.
      rewrite Hacc, wsumf_scale, wsumf_add. apply wsumf_ext. intros s Hs.
      rewrite get_window_spec by (apply (proj1 (Forall_forall _ _) Hss s Hs)).
      set (v := le_value s / 2 ^ (N.of_nat t * w)).
      replace (le_value s / 2 ^ (N.of_nat (S t) * w)) with (v / 2 ^ w).
      + pose proof (N.div_mod v (2 ^ w) ltac:(apply N.pow_nonzero; lia)). lia.
      + subst v. rewrite N.div_div by (apply N.pow_nonzero; lia). rewrite <- N.pow_add_r. f_equal. f_equal. lia.
  Qed.

  Lemma max_bits_ge_acc : forall (ss : list (list N)) m s, In s ss ->
    8 * N.of_nat (length s) <= fold_left (fun m s => N.max m (8 * N.of_nat (length s))) ss m.
  Proof.
    induction ss as [|x ss IH]; intros m s Hin; [destruct Hin|].
    cbn [fold_left]. destruct Hin as [-> | Hin].
    - clear IH. generalize (N.max m (8 * N.of_nat (length s))) (N.le_max_r m (8 * N.of_nat (length s))).
      induction ss as [|y ss IH2]; intros m' Hm'; cbn [fold_left]; [exact Hm'|]. apply IH2. lia.
    - apply IH. exact Hin.
  Qed.

  Lemma max_bits_ge : forall (ss : list (list N)) s, In s ss -> 8 * N.of_nat (length s) <= max_bits ss.
  Proof. intros. unfold max_bits. apply max_bits_ge_acc. assumption. Qed.

  Lemma window_bits_pos : forall n, 0 < window_bits n.
  Proof.
    intro n. unfold window_bits. destruct (N.ltb_spec (bits_len n) 2); [lia|].
    destruct (N.ltb_spec 16 (bits_len n)); lia.
  Qed.

  Lemma msm_buckets_correct : forall ps ss w, Forall bytes_ok ss -> 0 < w ->
    msm_buckets zero add is_zero ps ss w = wsumf le_value ps ss.
  Proof.
    intros ps ss w Hss Hw. unfold msm_buckets. cbv zeta. apply rounds_spec; try assumption.
    symmetry. apply wsumf_zero. intros s Hs. rewrite N2Nat.id. apply N.div_small.
    apply N.lt_le_trans with (2 ^ (8 * N.of_nat (length s))).
    - apply le_value_lt. apply (proj1 (Forall_forall _ _) Hss s Hs).
    - apply N.pow_le_mono_r; [lia|]. pose proof (max_bits_ge ss s Hs) as Hmb.
      set (mb := max_bits ss) in *.
      pose proof (N.div_mod (mb + w - 1) w ltac:(lia)). pose proof (N.mod_lt (mb + w - 1) w ltac:(lia)). nia.
  Qed.

  (* MultiScalarMulLowLevel: sum_i n_i * P_i for every vector length (0 included: the identity);
     None (the code panics) exactly on a length mismatch *)
  Theorem msm_correct : forall (ps : list G) (ss : list (list N)), Forall bytes_ok ss ->
    msm zero add dbl is_zero ps ss =
    if Nat.eqb (length ps) (length ss) then Some (wsumf le_value ps ss) else None.
  Proof.
    intros ps ss Hss. unfold msm. cbv zeta. destruct (Nat.eqb (length ps) (length ss)) eqn:El; [|reflexivity].
    cbn [negb]. destruct (Nat.eqb (length ps) 0) eqn:E0.
    - apply Nat.eqb_eq in E0. destruct ps; [|discriminate]. reflexivity.
    - destruct (Nat.leb (length ps) 7) eqn:E7.
      + rewrite msm_naive_correct by exact Hss. reflexivity.
      + destruct (N.eqb_spec (max_bits ss) 0) as [Emb | Emb].
        * f_equal. symmetry. apply wsumf_zero. intros s Hs. pose proof (max_bits_ge ss s Hs).
          destruct s; [reflexivity | cbn [length] in *; lia].
        * f_equal. apply (msm_buckets_correct ps ss (window_bits (N.of_nat (length ps))) Hss (window_bits_pos _)).
  Qed.
End Proofs.
