(* ScalarMul_proofs.v — the window scalar multiplication and the bucket multi-scalar
   multiplication of model/ScalarMul.v compute n*P resp. sum n_i*P_i in EVERY commutative
   monoid (zero, add) — in particular in every abelian group; no inverse is needed —
   for every byte string, every vector length.  The group laws are section hypotheses; for an
   elliptic curve, associativity of the chord-tangent law is exactly such a hypothesis and is
   not proved anywhere in this development. *)
From Coq Require Import NArith Arith List Bool Lia ZifyN ZifyNat ZifyBool.
Import ListNotations.
Require Import V.model.ScalarMul.
Local Open Scope N_scope.

(* little-endian value of a byte string *)
Fixpoint le_value (s : list N) : N :=
  match s with [] => 0 | b :: r => b + 256 * le_value r end.

Definition bytes_ok (s : list N) : Prop := Forall (fun b => b < 256) s.

Section Proofs.
  Context {G : Type} (zero : G) (add : G -> G -> G) (dbl : G -> G) (is_zero : G -> bool).
  Hypothesis add_assoc : forall x y z, add x (add y z) = add (add x y) z.
  Hypothesis add_comm : forall x y, add x y = add y x.
  Hypothesis add_0_l : forall x, add zero x = x.
  Hypothesis dbl_spec : forall x, dbl x = add x x.
  Hypothesis is_zero_spec : forall x, is_zero x = true -> x = zero.

  Lemma add_0_r : forall x, add x zero = x.
  Proof. intro x. rewrite add_comm. apply add_0_l. Qed.

  (* n*P by n-fold addition *)
  Definition nmul (n : N) (P : G) : G := N.iter n (add P) zero.

  Lemma nmul_0 : forall P, nmul 0 P = zero.
  Proof. reflexivity. Qed.

  Lemma nmul_succ : forall n P, nmul (N.succ n) P = add P (nmul n P).
  Proof. intros. unfold nmul. apply N.iter_succ. Qed.

  Lemma nmul_1 : forall P, nmul 1 P = P.
  Proof. intro P. change 1 with (N.succ 0). rewrite nmul_succ, nmul_0. apply add_0_r. Qed.

  Lemma nmul_add : forall n m P, nmul (n + m) P = add (nmul n P) (nmul m P).
  Proof.
    intros n m P. induction n using N.peano_ind.
    - rewrite N.add_0_l, nmul_0, add_0_l. reflexivity.
    - rewrite N.add_succ_l, !nmul_succ, IHn. apply add_assoc.
  Qed.

  Lemma nmul_zero : forall n, nmul n zero = zero.
  Proof.
    intro n. induction n using N.peano_ind; [reflexivity|]. rewrite nmul_succ, IHn. apply add_0_l.
  Qed.

  Lemma nmul_dbl : forall n P, dbl (nmul n P) = nmul (2 * n) P.
  Proof. intros. rewrite dbl_spec. replace (2 * n) with (n + n) by lia. symmetry. apply nmul_add. Qed.

  Lemma nmul_mul : forall n m P, nmul n (nmul m P) = nmul (n * m) P.
  Proof.
    intros n m P. induction n using N.peano_ind.
    - reflexivity.
    - rewrite nmul_succ, IHn. replace (N.succ n * m) with (m + n * m) by lia. symmetry. apply nmul_add.
  Qed.

  Lemma nmul_add_distr : forall n P Q, nmul n (add P Q) = add (nmul n P) (nmul n Q).
  Proof.
    intros n P Q. induction n using N.peano_ind.
    - rewrite !nmul_0, add_0_l. reflexivity.
    - rewrite !nmul_succ, IHn. rewrite <- !add_assoc. f_equal.
      rewrite !add_assoc. f_equal. apply add_comm.
  Qed.

  Lemma dbl4_nmul : forall n P, dbl4 dbl (nmul n P) = nmul (16 * n) P.
  Proof. intros. unfold dbl4. rewrite !nmul_dbl. f_equal. lia. Qed.

  (* ---- the precomputed table ------------------------------------------------------------- *)
  Definition table_ok (P : G) (tbl : list G) (m : nat) : Prop :=
    length tbl = m /\ forall i, (i < m)%nat -> nth i tbl zero = nmul (N.of_nat i) P.

  Lemma build_table_ok : forall P cnt j tbl, (1 <= j)%nat ->
    table_ok P tbl (2 * j) -> table_ok P (build_table zero add dbl P j cnt tbl) (2 * (j + cnt)).
  Proof.
    intros P cnt. induction cnt as [|c IH]; intros j tbl Hj [Hlen Hnth].
    - cbn [build_table]. replace (j + 0)%nat with j by lia. split; assumption.
    - cbn [build_table]. replace (j + S c)%nat with (S j + c)%nat by lia. apply IH; [lia|].
      assert (Hd : dbl (nth j tbl zero) = nmul (N.of_nat (2 * j)) P).
      { rewrite Hnth by lia. rewrite nmul_dbl. f_equal. lia. }
      split.
      + rewrite app_length. cbn [length]. lia.
      + intros i Hi. destruct (Compare_dec.lt_dec i (2 * j)) as [Hlt | Hge].
        * rewrite app_nth1 by lia. apply Hnth. exact Hlt.
        * rewrite app_nth2 by lia. rewrite Hlen.
          destruct (Nat.eq_dec i (2 * j)) as [-> | Hne].
          -- replace (2 * j - 2 * j)%nat with 0%nat by lia. cbn [nth]. exact Hd.
          -- assert (i = S (2 * j)) by lia. subst i.
             replace (S (2 * j) - 2 * j)%nat with 1%nat by lia. cbn [nth].
             rewrite Hd. rewrite add_comm. rewrite <- nmul_succ. f_equal. lia.
  Qed.

  Lemma precompute_ok : forall P, table_ok P (precompute zero add dbl P) 16.
  Proof.
    intro P. unfold precompute. change 16%nat with (2 * (1 + 7))%nat. apply build_table_ok; [lia|].
    split; [reflexivity|]. intros i Hi. destruct i as [|[|i]]; [| |lia].
    - reflexivity.
    - cbn [nth]. symmetry. apply nmul_1.
  Qed.

  (* ---- one byte: r -> 256 r + byte --------------------------------------------------------------- *)
  Lemma window_step_ok : forall P k byte, byte < 256 ->
    window_step zero add dbl (precompute zero add dbl P) (nmul k P) byte = nmul (256 * k + byte) P.
  Proof.
    intros P k byte Hb. destruct (precompute_ok P) as [_ Hnth]. unfold window_step.
    assert (Hhi : (byte / 16) mod 16 < 16) by (apply N.mod_lt; lia).
    assert (Hlo : byte mod 16 < 16) by (apply N.mod_lt; lia).
    rewrite !Hnth by lia. rewrite !N2Nat.id.
    rewrite dbl4_nmul, <- nmul_add, dbl4_nmul, <- nmul_add. f_equal.
    assert (Hsmall : byte / 16 < 16) by (apply N.div_lt_upper_bound; lia).
    rewrite (N.mod_small (byte / 16) 16) by exact Hsmall.
    pose proof (N.div_mod byte 16 ltac:(lia)). lia.
  Qed.

  (* ScalarMulLowLevel: n*P for the little-endian value n of ANY byte string (incl. the empty one) *)
  Theorem scalar_mul_window_correct : forall (P : G) (s : list N), bytes_ok s ->
    scalar_mul_window zero add dbl P s = nmul (le_value s) P.
  Proof.
    intros P s Hs. unfold scalar_mul_window. induction Hs as [|b r Hb Hr IH].
    - reflexivity.
    - cbn [rev le_value]. rewrite fold_left_app. cbn [fold_left]. rewrite IH.
      rewrite window_step_ok by exact Hb. f_equal. lia.
  Qed.

  (* algebrautils.scalarMul: the same loop on a big-endian string *)
  Theorem scalar_mul_window_be_correct : forall (P : G) (s : list N), bytes_ok s ->
    scalar_mul_window_be zero add dbl P s = nmul (le_value (rev s)) P.
  Proof.
    intros P s Hs. rewrite <- scalar_mul_window_correct.
    - unfold scalar_mul_window, scalar_mul_window_be. rewrite rev_involutive. reflexivity.
    - apply Forall_rev. exact Hs.
  Qed.
End Proofs.
