(* Session_proofs.v — lemmas about the session-setup model (model/Session.v):
   framing injectivity of the common seed / pairwise seed / seed input / sub-quorum
   layouts, ID sorting, round-by-round characterisation of a party's run, agreement,
   symmetry, distinctness, sub-contexts and opening blame. *)
From Coq Require Import List NArith Arith Lia Bool Permutation.
From Coq Require Import ZifyN ZifyNat ZifyBool.
Import ListNotations.
Require Import V.base.Bytes V.gen.Hagrid V.gen.SessionConsts V.model.Transcript V.proofs.Transcript_proofs V.model.Session.
Local Open Scope N_scope.

(* ====================================================================== *)
(* little-endian fixed-width integers                                      *)
(* ====================================================================== *)

Lemma le_bytes_length k n : length (le_bytes k n) = k.
Proof.
  revert n; induction k as [|k IH]; intros n; cbn [le_bytes length]; [reflexivity|].
  rewrite IH. reflexivity.
Qed.

Lemma le_bytes_inj k n m :
  n < 256 ^ N.of_nat k -> m < 256 ^ N.of_nat k -> le_bytes k n = le_bytes k m -> n = m.
Proof.
  revert n m; induction k as [|k IH]; intros n m Hn Hm H.
  - cbn in Hn, Hm. lia.
  - cbn [le_bytes] in H. injection H as H0 H1.
    assert (Hp : 256 ^ N.of_nat (S k) = 256 * 256 ^ N.of_nat k).
    { rewrite Nat2N.inj_succ, N.pow_succ_r'. reflexivity. }
    rewrite Hp in Hn, Hm.
    assert (n / 256 = m / 256).
    { apply IH; [| |exact H1]; apply N.div_lt_upper_bound; lia. }
    rewrite (N.div_mod n 256), (N.div_mod m 256) by lia. congruence.
Qed.

Lemma le64_length n : length (le64 n) = 8%nat.
Proof. apply le_bytes_length. Qed.

Lemma le64_inj n m : n < 2^64 -> m < 2^64 -> le64 n = le64 m -> n = m.
Proof. intros Hn Hm. apply le_bytes_inj; cbn; assumption. Qed.

(* a fixed-width field followed by anything *)
Lemma le64_app_inj n m r1 r2 :
  n < 2^64 -> m < 2^64 -> le64 n ++ r1 = le64 m ++ r2 -> n = m /\ r1 = r2.
Proof.
  intros Hn Hm H.
  apply app_inj_length in H; [|rewrite !le64_length; reflexivity].
  destruct H as [H1 H2]. split; [apply le64_inj; assumption|exact H2].
Qed.

Lemma bytes_eqb_eq a b : bytes_eqb a b = true <-> a = b.
Proof.
  revert b; induction a as [|x a IH]; intros [|y b]; cbn [bytes_eqb]; split; intros H;
    try reflexivity; try discriminate.
  - apply andb_true_iff in H. destruct H as [H1 H2].
    apply N.eqb_eq in H1. apply IH in H2. congruence.
  - injection H as -> ->. rewrite N.eqb_refl. cbn. apply IH. reflexivity.
Qed.

Lemma bytes_eqb_refl a : bytes_eqb a a = true.
Proof. apply bytes_eqb_eq. reflexivity. Qed.

Lemma bytes_eqb_neq a b : a <> b -> bytes_eqb a b = false.
Proof.
  intros H. destruct (bytes_eqb a b) eqn:E; [|reflexivity].
  apply bytes_eqb_eq in E. contradiction.
Qed.

(* ====================================================================== *)
(* sorting IDs                                                             *)
(* ====================================================================== *)

Lemma insert_comm x y l : insert x (insert y l) = insert y (insert x l).
Proof.
  induction l as [|z l IH]; cbn [insert].
  - destruct (x <=? y) eqn:A, (y <=? x) eqn:B; try reflexivity; try lia.
    assert (x = y) by lia. subst. reflexivity.
  - destruct (y <=? z) eqn:A, (x <=? z) eqn:B; cbn [insert]; rewrite ?A, ?B.
    + destruct (x <=? y) eqn:C, (y <=? x) eqn:D; try reflexivity; try lia.
      assert (x = y) by lia. subst. reflexivity.
    + destruct (x <=? y) eqn:C; [lia|]. reflexivity.
    + destruct (y <=? x) eqn:C; [lia|]. reflexivity.
    + rewrite IH. reflexivity.
Qed.

Lemma isort_perm_eq l l' : Permutation l l' -> isort l = isort l'.
Proof.
  induction 1; cbn [isort].
  - reflexivity.
  - congruence.
  - apply insert_comm.
  - congruence.
Qed.

Lemma insert_perm x l : Permutation (insert x l) (x :: l).
Proof.
  induction l as [|y l IH]; cbn [insert]; [reflexivity|].
  destruct (x <=? y); [reflexivity|].
  rewrite IH. apply perm_swap.
Qed.

Lemma isort_perm l : Permutation (isort l) l.
Proof.
  induction l as [|x l IH]; cbn [isort]; [reflexivity|].
  rewrite insert_perm. constructor. exact IH.
Qed.

Lemma isort_eq_iff l l' : isort l = isort l' <-> Permutation l l'.
Proof.
  split; [|apply isort_perm_eq].
  intros H. rewrite <- (isort_perm l), <- (isort_perm l'), H. reflexivity.
Qed.

Lemma isort_in x l : In x (isort l) <-> In x l.
Proof.
  split; apply Permutation_in; [apply isort_perm|symmetry; apply isort_perm].
Qed.

Lemma isort_length l : length (isort l) = length l.
Proof. apply Permutation_length, isort_perm. Qed.

Lemma isort_nodup l : NoDup l -> NoDup (isort l).
Proof. apply Permutation_NoDup. symmetry. apply isort_perm. Qed.

Lemma mem_in x l : mem x l = true <-> In x l.
Proof.
  unfold mem. rewrite existsb_exists. split.
  - intros [y [Hy E]]. apply N.eqb_eq in E. subst. exact Hy.
  - intros H. exists x. split; [exact H|apply N.eqb_refl].
Qed.

(* ====================================================================== *)
(* association lists                                                       *)
(* ====================================================================== *)

Lemma get_put_same {A} k (v : A) m : get k (put k v m) = Some v.
Proof. unfold put. cbn [get]. rewrite N.eqb_refl. reflexivity. Qed.

Lemma get_put_other {A} k k' (v : A) m : k <> k' -> get k (put k' v m) = get k m.
Proof.
  intros H. unfold put. cbn [get].
  destruct (k =? k') eqn:E; [lia|reflexivity].
Qed.

Lemma get_map_snd {A B} (f : A -> B) k (m : amap A) :
  get k (map (fun e => (fst e, f (snd e))) m) = option_map f (get k m).
Proof.
  induction m as [|[k' v] m IH]; cbn [map get fst snd]; [reflexivity|].
  destruct (k =? k'); [reflexivity|exact IH].
Qed.

(* ====================================================================== *)
(* byte layouts: injectivity                                               *)
(* ====================================================================== *)

Definition id_ok (x : N) : Prop := x < 2^64.

Lemma flat_map_le64_inj (a b : list N) (r1 r2 : bytes) :
  Forall id_ok a -> Forall id_ok b -> length a = length b ->
  flat_map le64 a ++ r1 = flat_map le64 b ++ r2 -> a = b /\ r1 = r2.
Proof.
  revert b; induction a as [|x a IH]; intros [|y b] Ha Hb Hl H; cbn in Hl; try discriminate.
  - cbn in H. split; [reflexivity|exact H].
  - cbn [flat_map] in H. rewrite <- !app_assoc in H.
    inversion Ha; inversion Hb; subst.
    apply le64_app_inj in H; [|assumption|assumption].
    destruct H as [-> H].
    destruct (IH b) as [-> ->]; try assumption; [lia|].
    split; reflexivity.
Qed.

(* SubContext's subQuorumData is a prefix code: count, then that many fixed-width IDs *)
Lemma subquorum_data_inj (a b : list N) (r1 r2 : bytes) :
  Forall id_ok a -> Forall id_ok b -> len a < 2^64 -> len b < 2^64 ->
  subquorum_data a ++ r1 = subquorum_data b ++ r2 -> a = b /\ r1 = r2.
Proof.
  intros Ha Hb La Lb H. unfold subquorum_data in H. rewrite <- !app_assoc in H.
  apply le64_app_inj in H; [|assumption|assumption].
  destruct H as [Hl H].
  apply flat_map_le64_inj in H; try assumption.
  apply len_inj. exact Hl.
Qed.

(* what every party knows about party id after the two broadcast rounds *)
Record bview := { bv_ck : bytes; bv_ccom : bytes; bv_cc : bytes; bv_cw : bytes }.

Definition bview_ok (v : bview) : Prop :=
  length (bv_ck v) = W /\ length (bv_ccom v) = W /\ length (bv_cc v) = W /\ length (bv_cw v) = W.

Definition entry_of (v : N -> bview) (id : N) : bytes :=
  cs_entry id (bv_ck (v id)) (bv_ccom (v id)) (bv_cc (v id)) (bv_cw (v id)).

(* the common seed as a function of the sorted quorum and the broadcast values only *)
Definition cs_of (sorted : list N) (v : N -> bview) : bytes :=
  sessionDomainSeparator ++ le64 (len sorted) ++ flat_map (entry_of v) sorted.

Lemma bview_eq v v' :
  bv_ck v = bv_ck v' -> bv_ccom v = bv_ccom v' -> bv_cc v = bv_cc v' -> bv_cw v = bv_cw v' -> v = v'.
Proof. destruct v, v'; cbn; intros; subst; reflexivity. Qed.

Lemma entry_app_inj v v' id id' r1 r2 :
  id_ok id -> id_ok id' -> bview_ok (v id) -> bview_ok (v' id') ->
  entry_of v id ++ r1 = entry_of v' id' ++ r2 -> id = id' /\ v id = v' id' /\ r1 = r2.
Proof.
  intros Hi Hi' (A1 & A2 & A3 & A4) (B1 & B2 & B3 & B4) H.
  unfold entry_of, cs_entry in H. rewrite <- !app_assoc in H.
  apply le64_app_inj in H; [|assumption|assumption]. destruct H as [-> H].
  apply app_inj_length in H; [|congruence]. destruct H as [E1 H].
  apply app_inj_length in H; [|congruence]. destruct H as [E2 H].
  apply app_inj_length in H; [|congruence]. destruct H as [E3 H].
  apply app_inj_length in H; [|congruence]. destruct H as [E4 H].
  split; [reflexivity|]. split; [|exact H].
  apply bview_eq; assumption.
Qed.

Lemma entries_inj v v' (a b : list N) r1 r2 :
  Forall id_ok a -> Forall id_ok b ->
  Forall (fun id => bview_ok (v id)) a -> Forall (fun id => bview_ok (v' id)) b ->
  length a = length b ->
  flat_map (entry_of v) a ++ r1 = flat_map (entry_of v') b ++ r2 ->
  a = b /\ (forall id, In id a -> v id = v' id) /\ r1 = r2.
Proof.
  revert b; induction a as [|x a IH]; intros [|y b] Ha Hb Va Vb Hl H; cbn in Hl; try discriminate.
  - cbn in H. split; [reflexivity|]. split; [intros ? []|exact H].
  - cbn [flat_map] in H. rewrite <- !app_assoc in H.
    inversion Ha; inversion Hb; inversion Va; inversion Vb; subst.
    apply entry_app_inj in H; try assumption.
    destruct H as (-> & Hv & H).
    destruct (IH b) as (-> & Hvs & ->); try assumption; [lia|].
    split; [reflexivity|]. split; [|reflexivity].
    intros id [<-|Hin]; [exact Hv|apply Hvs; exact Hin].
Qed.

Theorem cs_of_inj (s s' : list N) v v' :
  Forall id_ok s -> Forall id_ok s' -> len s < 2^64 -> len s' < 2^64 ->
  Forall (fun id => bview_ok (v id)) s -> Forall (fun id => bview_ok (v' id)) s' ->
  cs_of s v = cs_of s' v' -> s = s' /\ forall id, In id s -> v id = v' id.
Proof.
  intros Hs Hs' L L' V V' H. unfold cs_of in H.
  apply app_inv_head in H.
  apply le64_app_inj in H; [|assumption|assumption]. destruct H as [Hl H].
  rewrite <- (app_nil_r (flat_map (entry_of v) s)), <- (app_nil_r (flat_map (entry_of v') s')) in H.
  apply entries_inj in H; try assumption; [|apply len_inj; exact Hl].
  destruct H as (-> & Hv & _). split; [reflexivity|exact Hv].
Qed.

Theorem pair_seed_bytes_inj cs cs' c1 c1' c2 c2' :
  length c1 = W -> length c1' = W -> length c2 = W -> length c2' = W ->
  pair_seed_bytes cs c1 c2 = pair_seed_bytes cs' c1' c2' -> cs = cs' /\ c1 = c1' /\ c2 = c2'.
Proof.
  intros L1 L1' L2 L2' H. unfold pair_seed_bytes in H.
  apply app_inv_head in H.
  rewrite !app_assoc in H.
  apply app_inj_tail_length in H; [|congruence]. destruct H as [H ->].
  apply app_inj_tail_length in H; [|congruence]. destruct H as [-> ->].
  repeat split.
Qed.

Theorem seed_input_inj a b p a' b' p' :
  id_ok a -> id_ok b -> id_ok a' -> id_ok b' ->
  seed_input a b p = seed_input a' b' p' ->
  N.min a b = N.min a' b' /\ N.max a b = N.max a' b' /\ p = p'.
Proof.
  unfold id_ok. intros Ha Hb Ha' Hb' H. unfold seed_input in H.
  apply le64_app_inj in H; [|lia|lia]. destruct H as [E1 H].
  apply le64_app_inj in H; [|lia|lia]. destruct H as [E2 H].
  repeat split; assumption.
Qed.

Lemma seed_input_sym a b p : seed_input a b p = seed_input b a p.
Proof. unfold seed_input. rewrite (N.min_comm b a), (N.max_comm b a). reflexivity. Qed.

(* ====================================================================== *)
(* hashes as injective functions (the idealisation, visible as hypotheses) *)
(* ====================================================================== *)

(* the two cSHAKE customisation strings (top-level seeds / sub-context seeds) differ;
   re-checked against the regenerated constants *)
Lemma labels_distinct : seedDomainSeparatorLabel <> subContextDomainSeparatorLabel.
Proof.
  intros H.
  assert (E : bytes_eqb seedDomainSeparatorLabel subContextDomainSeparatorLabel = false)
    by (vm_compute; reflexivity).
  rewrite H in E. rewrite bytes_eqb_refl in E. discriminate.
Qed.

Section WithHashes.
  Variable com : bytes -> bytes -> bytes.
  Variable h512 : bytes -> bytes.
  Variable xof : bytes -> bytes -> N -> N -> bytes.

  (* ---------------------------------------------------------------- seeds *)

  (* the sub-quorums applied to a seed, most recent first (each one sorted) *)
  Fixpoint seed_path (s : seed) (rpath : list (list N)) : seed :=
    match rpath with
    | [] => s
    | q :: r => sub_seed xof (seed_path s r) (subquorum_data q)
    end.

  Definition quorum_ok (q : list N) : Prop := Forall id_ok q /\ len q < 2^64.

  Section XofInjective.
    Hypothesis xof_len : forall S i off n, length (xof S i off n) = N.to_nat n.
    Hypothesis xof_inj : forall S i S' i' off,
        xof S i off 32 = xof S' i' off 32 -> S = S' /\ i = i'.

    Lemma seed_read_inj s s' : seed_read xof s 32 = seed_read xof s' 32 -> s = s'.
    Proof.
      unfold seed_read. intros H. apply xof_inj in H. destruct s, s'; cbn in *.
      destruct H; subst; reflexivity.
    Qed.

    Lemma seed_path_S_top a b p : sd_S (top_seed a b p) = seedDomainSeparatorLabel.
    Proof. reflexivity. Qed.

    (* seeds of different pairs, different sessions (pairwise seed bytes) or different
       chains of sub-quorums give different streams *)
    Theorem seed_path_inj a b p rpath a' b' p' rpath' :
      id_ok a -> id_ok b -> id_ok a' -> id_ok b' ->
      Forall quorum_ok rpath -> Forall quorum_ok rpath' ->
      seed_read xof (seed_path (top_seed a b p) rpath) 32 =
      seed_read xof (seed_path (top_seed a' b' p') rpath') 32 ->
      N.min a b = N.min a' b' /\ N.max a b = N.max a' b' /\ p = p' /\ rpath = rpath'.
    Proof.
      intros Ha Hb Ha' Hb'. revert rpath'.
      induction rpath as [|q r IH]; intros [|q' r'] Hq Hq' H; apply seed_read_inj in H.
      - cbn [seed_path] in H. apply (f_equal sd_in) in H. cbn [top_seed sd_in] in H.
        apply seed_input_inj in H; try assumption.
        destruct H as (E1 & E2 & E3). repeat split; assumption.
      - cbn [seed_path] in H. exfalso. apply labels_distinct.
        apply (f_equal sd_S) in H. exact H.
      - cbn [seed_path] in H. exfalso. apply labels_distinct.
        apply (f_equal sd_S) in H. symmetry. exact H.
      - cbn [seed_path] in H. apply (f_equal sd_in) in H. cbn [sub_seed sd_in] in H.
        inversion Hq as [|? ? [Q1 Q2] Hr]; inversion Hq' as [|? ? [Q1' Q2'] Hr']; subst.
        apply app_inj_length in H.
        2:{ unfold seed_read. rewrite !xof_len. reflexivity. }
        destruct H as [H1 H2].
        change (N.of_nat W) with 32 in H1.
        destruct (IH r' Hr Hr' H1) as (E1 & E2 & E3 & E4).
        rewrite <- (app_nil_r (subquorum_data q)), <- (app_nil_r (subquorum_data q')) in H2.
        apply subquorum_data_inj in H2; try assumption.
        destruct H2 as [-> _]. subst. repeat split; assumption.
    Qed.
  End XofInjective.

  (* ---------------------------------------------------------------- contexts *)

  Lemma nc_seeds_get id sorted pairwise peer s :
    In peer sorted -> peer <> id -> get peer pairwise = Some s ->
    get peer (nc_seeds id sorted pairwise) = Some (top_seed id peer s).
  Proof.
    induction sorted as [|i r IH]; intros Hin Hne Hg; [destruct Hin|].
    cbn [nc_seeds]. destruct (i =? id) eqn:E.
    - apply IH; try assumption. destruct Hin as [<-|Hin]; [lia|exact Hin].
    - destruct (N.eq_dec i peer) as [->|Hd].
      + rewrite Hg. cbn [get]. rewrite N.eqb_refl. reflexivity.
      + destruct Hin as [->|Hin]; [contradiction|].
        destruct (get i pairwise); cbn [get].
        * destruct (peer =? i) eqn:E2; [lia|]. apply IH; assumption.
        * apply IH; assumption.
  Qed.

  Lemma sc_seeds_get holder sorted seeds sqd out peer :
    sc_seeds xof holder sorted seeds sqd = Some out ->
    In peer sorted -> peer <> holder ->
    exists s, get peer seeds = Some s /\ get peer out = Some (sub_seed xof s sqd).
  Proof.
    revert out; induction sorted as [|i r IH]; intros out H Hin Hne; [destruct Hin|].
    cbn [sc_seeds] in H. destruct (i =? holder) eqn:E.
    - apply IH; try assumption. destruct Hin as [<-|Hin]; [lia|exact Hin].
    - destruct (get i seeds) as [si|] eqn:Gi; [|discriminate].
      destruct (sc_seeds xof holder r seeds sqd) as [rest|] eqn:Er; [|discriminate].
      injection H as <-.
      destruct (N.eq_dec peer i) as [->|Hd].
      + exists si. split; [exact Gi|]. cbn [get]. rewrite N.eqb_refl. reflexivity.
      + destruct Hin as [->|Hin]; [contradiction|].
        destruct (IH rest eq_refl Hin Hne) as (s & G1 & G2).
        exists s. split; [exact G1|]. cbn [get].
        destruct (peer =? i) eqn:E2; [lia|exact G2].
  Qed.

  Lemma sub_context_inv c q c' :
    sub_context xof c q = Some c' ->
    In (cx_holder c) q /\ (2 <= length q)%nat /\ (forall x, In x q -> In x (cx_quorum c)) /\
    exists seeds,
      sc_seeds xof (cx_holder c) (isort q) (cx_seeds c) (subquorum_data (isort q)) = Some seeds /\
      c' = {| cx_sid := cx_sid c; cx_holder := cx_holder c; cx_quorum := isort q;
              cx_tape := fst (step (cx_tape c) (App subQuorumLabel [subquorum_data (isort q)]));
              cx_hist := cx_hist c ++ [App subQuorumLabel [subquorum_data (isort q)]];
              cx_seeds := seeds |}.
  Proof.
    unfold sub_context. intros H.
    destruct (Nat.leb 2 (length q) && subset q (cx_quorum c) && mem (cx_holder c) q) eqn:G; [|discriminate].
    apply andb_true_iff in G. destruct G as [G G3].
    apply andb_true_iff in G. destruct G as [G1 G2].
    destruct (sc_seeds xof (cx_holder c) (isort q) (cx_seeds c) (subquorum_data (isort q))) as [seeds|] eqn:Es;
      [|discriminate].
    injection H as <-.
    split; [apply mem_in; exact G3|].
    split; [apply Nat.leb_le; exact G1|].
    split.
    - intros x Hx. unfold subset in G2. rewrite forallb_forall in G2.
      apply mem_in. apply G2. exact Hx.
    - exists seeds. split; reflexivity.
  Qed.

  (* two parties' contexts of the same (sub)quorum of the same session *)
  Definition ctx_match (ci cj : context) : Prop :=
    cx_sid ci = cx_sid cj /\ cx_hist ci = cx_hist cj /\ cx_tape ci = cx_tape cj /\
    cx_quorum ci = cx_quorum cj /\
    get (cx_holder cj) (cx_seeds ci) = get (cx_holder ci) (cx_seeds cj).

  (* members of the same sub-quorum derive matching sub-contexts (and so on, nested) *)
  Theorem subctx_agree ci cj qi qj si sj :
    cx_holder ci <> cx_holder cj ->
    ctx_match ci cj -> Permutation qi qj ->
    sub_context xof ci qi = Some si -> sub_context xof cj qj = Some sj ->
    ctx_match si sj /\ cx_holder si = cx_holder ci /\ cx_holder sj = cx_holder cj /\
    cx_quorum si = isort qi /\
    exists s, get (cx_holder cj) (cx_seeds si) = Some s /\ get (cx_holder ci) (cx_seeds sj) = Some s.
  Proof.
    intros Hne (M1 & M2 & M3 & M4 & M5) Hp Hi Hj.
    apply sub_context_inv in Hi. destruct Hi as (Ii & _ & _ & seedsi & Si & ->).
    apply sub_context_inv in Hj. destruct Hj as (Ij & _ & _ & seedsj & Sj & ->).
    assert (Eq : isort qi = isort qj) by (apply isort_perm_eq; exact Hp).
    assert (Hji : In (cx_holder cj) (isort qi)).
    { apply isort_in. apply Permutation_in with qj; [symmetry; exact Hp|exact Ij]. }
    assert (Hij : In (cx_holder ci) (isort qj)).
    { apply isort_in. apply Permutation_in with qi; [exact Hp|exact Ii]. }
    destruct (sc_seeds_get _ _ _ _ _ _ Si Hji) as (s1 & G1 & G1'); [congruence|].
    destruct (sc_seeds_get _ _ _ _ _ _ Sj Hij) as (s2 & G2 & G2'); [congruence|].
    assert (s1 = s2) by congruence. subst s2.
    cbn [cx_holder cx_quorum cx_seeds cx_sid cx_hist cx_tape].
    split.
    - unfold ctx_match. cbn [cx_holder cx_quorum cx_seeds cx_sid cx_hist cx_tape].
      rewrite M1, M2, M3, G1', G2', Eq. repeat split; reflexivity.
    - repeat split. exists (sub_seed xof s1 (subquorum_data (isort qi))).
      split; [exact G1'|]. rewrite Eq. exact G2'.
  Qed.

  (* the transcript of a context is the C19 machine run on its history *)
  Definition ctx_wf (c : context) : Prop :=
    cx_tape c = fst (run (new_transcript transcriptName) (cx_hist c)) /\ Forall valid_op (cx_hist c).

  Lemma subquorum_data_length q : length (subquorum_data q) = (8 + 8 * length q)%nat.
  Proof.
    unfold subquorum_data. rewrite app_length, le64_length. f_equal.
    induction q as [|x q IH]; cbn [flat_map length]; [reflexivity|].
    rewrite app_length, le64_length, IH. lia.
  Qed.

  Lemma sub_context_wf c q c' :
    ctx_wf c -> len q < 2^60 -> sub_context xof c q = Some c' -> ctx_wf c'.
  Proof.
    intros [T V] Lq H. apply sub_context_inv in H. destruct H as (_ & _ & _ & seeds & _ & ->).
    unfold ctx_wf. cbn [cx_tape cx_hist]. split.
    - rewrite T. rewrite !run_fst. rewrite fold_left_app. reflexivity.
    - apply Forall_app. split; [exact V|]. constructor; [|constructor].
      cbn [valid_op]. split; [vm_compute; reflexivity|]. split; [vm_compute; reflexivity|].
      constructor; [|constructor].
      unfold len in *. rewrite subquorum_data_length, isort_length. lia.
  Qed.

  Section H512.
    Hypothesis h512_len : forall x, length (h512 x) = 64%nat.

    Lemma new_context_wf id q cs pw c : new_context h512 id q cs pw = Some c -> ctx_wf c.
    Proof.
      unfold new_context. destruct (nc_guard id q cs pw); [|discriminate].
      intros H. injection H as <-. unfold ctx_wf. cbn [cx_tape cx_hist]. split; [reflexivity|].
      unfold init_hist. constructor; [|constructor].
      cbn [valid_op]. split; [vm_compute; reflexivity|]. split; [vm_compute; reflexivity|].
      constructor; [|constructor].
      unfold len. rewrite skipn_length, h512_len. cbn. lia.
    Qed.
  End H512.

  (* what ExtractBytes feeds the XOF *)
  Definition ctx_extract_call (c : context) (l : bytes) (n : N) : option xof_call :=
    snd (step (cx_tape c) (Ext l n)).

  (* equal extraction inputs <-> equal histories (C19) *)
  Lemma ctx_extract_call_inj c1 c2 l n :
    ctx_wf c1 -> ctx_wf c2 -> len l < 2^64 -> 0 < n < 2^64 ->
    ctx_extract_call c1 l n = ctx_extract_call c2 l n -> cx_hist c1 = cx_hist c2.
  Proof.
    intros [T1 V1] [T2 V2] Ll Hn H. unfold ctx_extract_call in H. rewrite T1, T2 in H.
    apply outputs_equal_iff in H; try assumption.
    destruct H as (_ & H & _).
    rewrite !performed_ops_valid in H by assumption. exact H.
  Qed.

  (* sub-contexts of different sub-quorums have different transcripts *)
  Theorem subctx_distinct_transcript c q1 q2 s1 s2 l n :
    ctx_wf c -> len q1 < 2^60 -> len q2 < 2^60 -> Forall id_ok q1 -> Forall id_ok q2 ->
    len l < 2^64 -> 0 < n < 2^64 ->
    sub_context xof c q1 = Some s1 -> sub_context xof c q2 = Some s2 ->
    ctx_extract_call s1 l n = ctx_extract_call s2 l n -> Permutation q1 q2.
  Proof.
    intros Wc L1 L2 I1 I2 Ll Hn H1 H2 H.
    pose proof (sub_context_wf _ _ _ Wc L1 H1) as W1.
    pose proof (sub_context_wf _ _ _ Wc L2 H2) as W2.
    apply ctx_extract_call_inj in H; try assumption.
    apply sub_context_inv in H1. destruct H1 as (_ & _ & _ & ? & _ & ->).
    apply sub_context_inv in H2. destruct H2 as (_ & _ & _ & ? & _ & ->).
    cbn [cx_hist] in H. apply app_inv_head in H.
    apply (f_equal (fun x => match x with [App _ [m]] => m | _ => [] end)) in H.
    apply isort_eq_iff.
    rewrite <- (app_nil_r (subquorum_data (isort q1))), <- (app_nil_r (subquorum_data (isort q2))) in H.
    apply subquorum_data_inj in H.
    - destruct H as [H _]. exact H.
    - eapply Permutation_Forall; [symmetry; apply isort_perm|exact I1].
    - eapply Permutation_Forall; [symmetry; apply isort_perm|exact I2].
    - unfold len in *. rewrite isort_length. lia.
    - unfold len in *. rewrite isort_length. lia.
  Qed.

  (* ... and is different from the parent's *)
  Theorem subctx_distinct_parent c q s l n :
    ctx_wf c -> len q < 2^60 -> len l < 2^64 -> 0 < n < 2^64 ->
    sub_context xof c q = Some s -> ctx_extract_call s l n <> ctx_extract_call c l n.
  Proof.
    intros Wc L Ll Hn H E.
    pose proof (sub_context_wf _ _ _ Wc L H) as W.
    apply ctx_extract_call_inj in E; try assumption.
    apply sub_context_inv in H. destruct H as (_ & _ & _ & ? & _ & ->).
    cbn [cx_hist] in E.
    apply (f_equal (@length op)) in E. rewrite app_length in E. cbn in E. lia.
  Qed.

  (* ---------------------------------------------------------------- rounds *)

  Notation commit := (commit com).
  Notation open_ok := (open_ok com).
  Notation round1 := (round1 com).
  Notation round2 := (round2 com).
  Notation round3 := (round3 com).
  Notation round4 := (round4 com h512).
  Notation party_run := (party_run com h512).

  Lemma first_bad_none {M} (ok : M -> bool) senders inbox :
    first_bad ok senders inbox = None ->
    forall s, In s senders -> exists m, get s inbox = Some m /\ ok m = true.
  Proof.
    induction senders as [|x r IH]; intros H s Hs; [destruct Hs|].
    cbn [first_bad] in H. destruct (get x inbox) as [m|] eqn:G; [|discriminate].
    destruct (ok m) eqn:O; [|discriminate].
    destruct Hs as [<-|Hs]; [exists m; split; assumption|apply IH; assumption].
  Qed.

  Lemma first_bad_some {M} (ok : M -> bool) senders inbox s :
    first_bad ok senders inbox = Some s ->
    In s senders /\ (get s inbox = None \/ exists m, get s inbox = Some m /\ ok m = false).
  Proof.
    induction senders as [|x r IH]; intros H; [discriminate|].
    cbn [first_bad] in H. destruct (get x inbox) as [m|] eqn:G.
    - destruct (ok m) eqn:O.
      + destruct (IH H) as [A B]. split; [right; exact A|exact B].
      + injection H as <-. split; [left; reflexivity|]. right. exists m. split; assumption.
    - injection H as <-. split; [left; reflexivity|left; exact G].
  Qed.

  Lemma in_others p x : In x (others p) <-> In x (p_q p) /\ x <> p_id p.
  Proof.
    unfold others. rewrite filter_In. split; intros [A B]; split; try exact A.
    - intros ->. rewrite N.eqb_refl in B. discriminate.
    - destruct (x =? p_id p) eqn:E; [lia|reflexivity].
  Qed.

  Lemma r2_store_spec ids inB cks ccoms cks' ccoms' :
    r2_store ids inB cks ccoms = Some (cks', ccoms') ->
    (forall id, In id ids -> exists b, get id inB = Some b /\
                                       get id cks' = Some (r1_ck b) /\ get id ccoms' = Some (r1_ccom b)) /\
    (forall id, ~ In id ids -> get id cks' = get id cks /\ get id ccoms' = get id ccoms).
  Proof.
    revert cks ccoms; induction ids as [|x r IH]; intros cks ccoms H; cbn [r2_store] in H.
    - injection H as <- <-. split; [intros ? []|intros; split; reflexivity].
    - destruct (get x inB) as [b|] eqn:G; [|discriminate].
      destruct (IH _ _ H) as [A B]. split.
      + intros id [<-|Hin]; [|apply A; exact Hin].
        destruct (in_dec N.eq_dec x r) as [Hr|Hr].
        * destruct (A x Hr) as (b' & G' & R). rewrite G in G'. injection G' as <-.
          exists b. split; [exact G|exact R].
        * destruct (B x Hr) as [B1 B2]. exists b. split; [exact G|].
          rewrite B1, B2, !get_put_same. split; reflexivity.
      + intros id Hn. destruct (B id) as [B1 B2]; [intros Hr; apply Hn; right; exact Hr|].
        rewrite B1, B2, !get_put_other; [split; reflexivity| |]; intros ->; apply Hn; left; reflexivity.
  Qed.

  Lemma r3_open_spec ids inB inU ccoms ccs cws pcoms ccs' cws' pcoms' :
    r3_open com ids inB inU ccoms ccs cws pcoms = Ok (ccs', cws', pcoms') ->
    (forall id, In id ids -> exists b u c, get id inB = Some b /\ get id inU = Some u /\
        get id ccoms = Some c /\ open_ok commonCommitmentKey c (r2_cc b) (r2_cw b) = true /\
        get id ccs' = Some (r2_cc b) /\ get id cws' = Some (r2_cw b) /\ get id pcoms' = Some (r2_pcom u)) /\
    (forall id, ~ In id ids -> get id ccs' = get id ccs /\ get id cws' = get id cws /\ get id pcoms' = get id pcoms).
  Proof.
    revert ccs cws pcoms; induction ids as [|x r IH]; intros ccs cws pcoms H; cbn [r3_open] in H.
    - injection H as <- <- <-. split; [intros ? []|intros; repeat split; reflexivity].
    - destruct (get x inB) as [b|] eqn:Gb; [|discriminate].
      destruct (get x inU) as [u|] eqn:Gu; [|discriminate].
      destruct (get x ccoms) as [c|] eqn:Gc; [|discriminate].
      destruct (open_ok commonCommitmentKey c (r2_cc b) (r2_cw b)) eqn:O; [|discriminate].
      destruct (IH _ _ _ H) as [A B]. split.
      + intros id [<-|Hin]; [|apply A; exact Hin].
        destruct (in_dec N.eq_dec x r) as [Hr|Hr].
        * destruct (A x Hr) as (b' & u' & c' & G1 & G2 & G3 & R).
          rewrite Gb in G1. rewrite Gu in G2. rewrite Gc in G3.
          injection G1 as <-. injection G2 as <-. injection G3 as <-.
          exists b, u, c. repeat split; try assumption; apply R.
        * destruct (B x Hr) as (B1 & B2 & B3). exists b, u, c.
          rewrite B1, B2, B3, !get_put_same. repeat split; assumption.
      + intros id Hn. destruct (B id) as (B1 & B2 & B3); [intros Hr; apply Hn; right; exact Hr|].
        assert (id <> x) by (intros ->; apply Hn; left; reflexivity).
        rewrite B1, B2, B3, !get_put_other by assumption. repeat split; reflexivity.
  Qed.

  Lemma r3_out_spec ids pcs pws out :
    r3_out ids pcs pws = Some out ->
    forall id, In id ids -> exists c w, get id pcs = Some c /\ get id pws = Some w /\
                                        get id out = Some {| r3_pc := c; r3_pw := w |}.
  Proof.
    revert out; induction ids as [|x r IH]; intros out H id Hin; [destruct Hin|].
    cbn [r3_out] in H.
    destruct (get x pcs) as [c|] eqn:Gc; [|discriminate].
    destruct (get x pws) as [w|] eqn:Gw; [|discriminate].
    destruct (r3_out r pcs pws) as [rest|] eqn:Er; [|discriminate].
    injection H as <-.
    destruct (N.eq_dec id x) as [->|Hd].
    - exists c, w. cbn [get]. rewrite N.eqb_refl. repeat split; assumption.
    - destruct Hin as [->|Hin]; [contradiction|].
      destruct (IH rest eq_refl id Hin) as (c' & w' & G1 & G2 & G3).
      exists c', w'. cbn [get]. destruct (id =? x) eqn:E; [lia|]. repeat split; assumption.
  Qed.

  Definition pair_bytes (self id : N) (cs mine theirs : bytes) : bytes :=
    if self <? id then pair_seed_bytes cs mine theirs else pair_seed_bytes cs theirs mine.

  Lemma r4_loop_spec self ck cs ids inU pcoms pcs pw :
    r4_loop com self ck cs ids inU pcoms pcs = Ok pw ->
    forall id, In id ids -> exists u mine c, get id inU = Some u /\ get id pcs = Some mine /\
        get id pcoms = Some c /\ open_ok ck c (r3_pc u) (r3_pw u) = true /\
        get id pw = Some (pair_bytes self id cs mine (r3_pc u)).
  Proof.
    revert pw; induction ids as [|x r IH]; intros pw H id Hin; [destruct Hin|].
    cbn [r4_loop] in H.
    destruct (get x inU) as [u|] eqn:Gu; [|discriminate].
    destruct (get x pcoms) as [c|] eqn:Gc; [|discriminate].
    destruct (open_ok ck c (r3_pc u) (r3_pw u)) eqn:O; [|discriminate].
    destruct (get x pcs) as [mine|] eqn:Gm; [|discriminate].
    destruct (r4_loop com self ck cs r inU pcoms pcs) as [rest|] eqn:Er; [|discriminate].
    injection H as <-.
    destruct (N.eq_dec id x) as [->|Hd].
    - exists u, mine, c. cbn [get]. rewrite N.eqb_refl. unfold pair_bytes. repeat split; assumption.
    - destruct Hin as [->|Hin]; [contradiction|].
      destruct (IH rest eq_refl id Hin) as (u' & m' & c' & G1 & G2 & G3 & G4 & G5).
      exists u', m', c'. cbn [get]. destruct (id =? x) eqn:E; [lia|]. repeat split; assumption.
  Qed.

  Lemma cs_body_view sorted cks ccoms ccs cws (v : N -> bview) :
    (forall id, In id sorted ->
       get id cks = Some (bv_ck (v id)) /\ get id ccoms = Some (bv_ccom (v id)) /\
       get id ccs = Some (bv_cc (v id)) /\ get id cws = Some (bv_cw (v id))) ->
    cs_body sorted cks ccoms ccs cws = Some (flat_map (entry_of v) sorted).
  Proof.
    induction sorted as [|x r IH]; intros H; cbn [cs_body flat_map]; [reflexivity|].
    destruct (H x (or_introl eq_refl)) as (A & B & C & D). rewrite A, B, C, D.
    rewrite IH; [reflexivity|]. intros id Hin. apply H. right. exact Hin.
  Qed.

  Lemma common_seed_bytes_view sorted cks ccoms ccs cws (v : N -> bview) :
    (forall id, In id sorted ->
       get id cks = Some (bv_ck (v id)) /\ get id ccoms = Some (bv_ccom (v id)) /\
       get id ccs = Some (bv_cc (v id)) /\ get id cws = Some (bv_cw (v id))) ->
    common_seed_bytes sorted cks ccoms ccs cws = Some (cs_of sorted v).
  Proof.
    intros H. unfold common_seed_bytes. rewrite (cs_body_view _ _ _ _ _ v H). reflexivity.
  Qed.

  (* what a party believes the broadcasts were: its own, and what was delivered to it *)
  Definition bcast_view (self : N) (o1 : r1b) (o2 : r2b) (B1 : amap r1b) (B2 : amap r2b) : N -> bview :=
    fun s =>
      if s =? self then {| bv_ck := r1_ck o1; bv_ccom := r1_ccom o1; bv_cc := r2_cc o2; bv_cw := r2_cw o2 |}
      else match get s B1, get s B2 with
           | Some b1, Some b2 => {| bv_ck := r1_ck b1; bv_ccom := r1_ccom b1; bv_cc := r2_cc b2; bv_cw := r2_cw b2 |}
           | _, _ => {| bv_ck := []; bv_ccom := []; bv_cc := []; bv_cw := [] |}
           end.

  Lemma isort_idem q : isort (isort q) = isort q.
  Proof. apply isort_perm_eq, isort_perm. Qed.

  (* everything a completed run determines *)
  Theorem party_completes_inv id q tape undec B1 B2 U2 U3 c :
    pr_ctx (party_run id q tape undec B1 B2 U2 U3) = Some c ->
    exists o1 o2,
      pr_r1 (party_run id q tape undec B1 B2 U2 U3) = Some o1 /\
      pr_r2b (party_run id q tape undec B1 B2 U2 U3) = Some o2 /\
      pr_verdict (party_run id q tape undec B1 B2 U2 U3) = VOk /\
      In id q /\
      let cs := cs_of (isort q) (bcast_view id o1 o2 B1 B2) in
      cx_sid c = firstn W (h512 cs) /\
      cx_hist c = init_hist h512 cs /\
      cx_tape c = fst (run (new_transcript transcriptName) (init_hist h512 cs)) /\
      cx_quorum c = isort q /\ cx_holder c = id /\
      forall peer, In peer q -> peer <> id ->
        exists u mine w,
          get peer U3 = Some u /\
          get peer (pr_r3u (party_run id q tape undec B1 B2 U2 U3)) = Some {| r3_pc := mine; r3_pw := w |} /\
          get peer (cx_seeds c) = Some (top_seed id peer (pair_bytes id peer cs mine (r3_pc u))).
  Proof.
    unfold Session.party_run.
    destruct (new_participant id q tape) as [p0|] eqn:E0; [|cbn; discriminate].
    destruct (round1 p0) as [[p1 o1]|v1] eqn:E1; [|cbn; discriminate].
    destruct (undec =? 2); [cbn; discriminate|].
    destruct (round2 p1 B1) as [[[p2 o2] u2]|v2] eqn:E2; [|cbn; discriminate].
    destruct (undec =? 3); [cbn; discriminate|].
    destruct (round3 p2 B2 U2) as [[p3 u3]|v3] eqn:E3; [|cbn; discriminate].
    destruct (undec =? 4); [cbn; discriminate|].
    destruct (round4 p3 U3) as [[p4 c']|v4] eqn:E4; [|cbn; discriminate].
    cbn [pr_ctx pr_r1 pr_r2b pr_r3u pr_verdict]. intros H. injection H as ->.
    exists o1, o2. split; [reflexivity|]. split; [reflexivity|]. split; [reflexivity|].
    (* constructor *)
    unfold new_participant in E0.
    destruct (Nat.ltb (length q) 2); [discriminate|].
    destruct (id <? 1); [discriminate|].
    destruct (negb (mem id q)) eqn:Em; [discriminate|].
    injection E0 as <-.
    assert (Hin : In id q). { apply mem_in. destruct (mem id q); [reflexivity|discriminate]. }
    split; [exact Hin|].
    (* round 1 *)
    unfold Session.round1 in E1. cbn [p_round p_tape p_id p_q p_ck p_ccom p_cc p_cw p_pcom p_pc p_pw] in E1.
    cbn [N.eqb Pos.eqb negb] in E1.
    destruct (read32 tape) as [[ck t1]|]; [|discriminate].
    destruct (read32 t1) as [[cc t2]|]; [|discriminate].
    destruct (read32 t2) as [[cw t3]|]; [|discriminate].
    injection E1 as <- <-.
    (* round 2 *)
    unfold Session.round2 in E2. cbn [p_round p_tape p_id p_q p_ck p_ccom p_cc p_cw p_pcom p_pc p_pw] in E2.
    cbn [N.eqb Pos.eqb negb] in E2.
    match type of E2 with context [first_bad valid_r1b ?o B1] => set (oth := o) in * end.
    destruct (first_bad valid_r1b oth B1) eqn:F1; [discriminate|].
    destruct (r2_store oth B1 (put id ck []) (put id (commit commonCommitmentKey cc cw) [])) as [[cks ccoms]|] eqn:S2;
      [|discriminate].
    rewrite !get_put_same in E2.
    destruct (r2_loop com oth cks t3) as [[t4 l]|] eqn:L2; [|discriminate].
    injection E2 as <- <- <-.
    destruct (r2_store_spec _ _ _ _ _ _ S2) as [A2 B2'].
    (* round 3 *)
    unfold Session.round3 in E3. cbn [p_round p_tape p_id p_q p_ck p_ccom p_cc p_cw p_pcom p_pc p_pw] in E3.
    cbn [N.eqb Pos.eqb negb] in E3.
    change (others _) with oth in E3.
    destruct (first_bad valid_r2b oth B2) eqn:F2; [discriminate|].
    destruct (first_bad valid_r2u oth U2) eqn:F3; [discriminate|].
    destruct (r3_open com oth B2 U2 ccoms (put id cc []) (put id cw []) []) as [[[ccs cws] pcoms]|v] eqn:O3;
      [|discriminate].
    destruct (r3_out oth _ _) as [out3|] eqn:Out3; [|discriminate].
    injection E3 as <- <-.
    destruct (r3_open_spec _ _ _ _ _ _ _ _ _ _ O3) as [A3 B3'].
    (* round 4 *)
    unfold Session.round4 in E4. cbn [p_round p_tape p_id p_q p_ck p_ccom p_cc p_cw p_pcom p_pc p_pw] in E4.
    cbn [N.eqb Pos.eqb negb] in E4.
    change (others _) with oth in E4.
    destruct (first_bad valid_r3u oth U3) eqn:F4; [discriminate|].
    assert (Hoth : forall x, In x oth <-> In x q /\ x <> id).
    { intros x. unfold oth. rewrite in_others. cbn [p_q p_id]. rewrite isort_in. reflexivity. }
    assert (Hself : ~ In id oth) by (rewrite Hoth; intros [_ N]; apply N; reflexivity).
    destruct (B2' id Hself) as [K1 K2]. rewrite !get_put_same in K1, K2.
    destruct (B3' id Hself) as (K3 & K4 & _). rewrite !get_put_same in K3, K4.
    rewrite K1 in E4.
    set (v := bcast_view id {| r1_ccom := commit commonCommitmentKey cc cw; r1_ck := ck |}
                         {| r2_cc := cc; r2_cw := cw |} B1 B2) in *.
    rewrite (common_seed_bytes_view _ _ _ _ _ v) in E4.
    2:{ intros x Hx. rewrite isort_in in Hx. unfold v, bcast_view.
        destruct (x =? id) eqn:Ex.
        - assert (x = id) by lia. subst x. cbn [bv_ck bv_ccom bv_cc bv_cw r1_ck r1_ccom r2_cc r2_cw].
          repeat split; assumption.
        - assert (Hxo : In x oth) by (apply Hoth; split; [exact Hx|lia]).
          destruct (A2 x Hxo) as (b1 & G1 & G2 & G3).
          destruct (A3 x Hxo) as (b2 & u & c0 & G4 & _ & _ & _ & G5 & G6 & _).
          rewrite G1, G4. cbn [bv_ck bv_ccom bv_cc bv_cw]. repeat split; assumption. }
    set (cs := cs_of (isort q) v) in *.
    destruct (r4_loop com id ck cs oth U3 pcoms _) as [pw|v4'] eqn:L4; [|discriminate].
    destruct (new_context h512 id (isort q) cs pw) as [c0|] eqn:NC; [|discriminate].
    injection E4 as _ <-.
    unfold new_context in NC. destruct (nc_guard id (isort q) cs pw); [|discriminate].
    injection NC as <-. cbn [cx_sid cx_hist cx_tape cx_quorum cx_holder cx_seeds].
    rewrite isort_idem.
    repeat split; try reflexivity.
    intros peer Hp Hne.
    assert (Hpo : In peer oth) by (apply Hoth; split; assumption).
    destruct (r4_loop_spec _ _ _ _ _ _ _ _ L4 peer Hpo) as (u & mine & c0 & G1 & G2 & _ & _ & G5).
    destruct (r3_out_spec _ _ _ _ Out3 peer Hpo) as (c1 & w1 & G6 & G7 & G8).
    rewrite G2 in G6. injection G6 as <-.
    exists u, mine, w1. split; [exact G1|]. split; [exact G8|].
    apply nc_seeds_get; [apply isort_in; exact Hp|exact Hne|exact G5].
  Qed.

  (* ---------------------------------------------------------------- agreement and symmetry *)

  Lemma cs_of_ext s v v' : (forall id, In id s -> v id = v' id) -> cs_of s v = cs_of s v'.
  Proof.
    intros H. unfold cs_of. do 2 f_equal.
    induction s as [|x r IH]; cbn [flat_map]; [reflexivity|].
    unfold entry_of at 1 3. rewrite (H x (or_introl eq_refl)). f_equal.
    apply IH. intros id Hin. apply H. right. exact Hin.
  Qed.

  (* honest delivery between two parties i and j of a quorum: every broadcast reached both
     identically (C11 enforces this with echo broadcast) *)
  Definition same_broadcasts (i j : N) (q : list N)
             (B1i : amap r1b) (B2i : amap r2b) (B1j : amap r1b) (B2j : amap r2b)
             (o1i : option r1b) (o2i : option r2b) (o1j : option r1b) (o2j : option r2b) : Prop :=
    (forall s, In s q -> s <> i -> s <> j -> get s B1i = get s B1j /\ get s B2i = get s B2j) /\
    get j B1i = o1j /\ get j B2i = o2j /\ get i B1j = o1i /\ get i B2j = o2i.

  Theorem sid_agreement i j qi qj ti tj ui uj B1i B2i U2i U3i B1j B2j U2j U3j ci cj :
    let ri := party_run i qi ti ui B1i B2i U2i U3i in
    let rj := party_run j qj tj uj B1j B2j U2j U3j in
    pr_ctx ri = Some ci -> pr_ctx rj = Some cj ->
    Permutation qi qj -> i <> j ->
    same_broadcasts i j qi B1i B2i B1j B2j (pr_r1 ri) (pr_r2b ri) (pr_r1 rj) (pr_r2b rj) ->
    exists view,
      let cs := cs_of (isort qi) view in
      cx_sid ci = firstn W (h512 cs) /\ cx_sid cj = firstn W (h512 cs) /\
      cx_hist ci = init_hist h512 cs /\ cx_hist cj = init_hist h512 cs /\
      cx_tape ci = cx_tape cj /\ cx_quorum ci = isort qi /\ cx_quorum cj = isort qi.
  Proof.
    intros ri rj Hi Hj Hp Hne (Hs & Hj1 & Hj2 & Hi1 & Hi2).
    destruct (party_completes_inv _ _ _ _ _ _ _ _ _ Hi) as (o1i & o2i & R1i & R2i & _ & Ini & Si & Hhi & Ti & Qi & _).
    destruct (party_completes_inv _ _ _ _ _ _ _ _ _ Hj) as (o1j & o2j & R1j & R2j & _ & Inj & Sj & Hhj & Tj & Qj & _).
    fold ri in R1i, R2i. fold rj in R1j, R2j.
    rewrite R1i, R2i, R1j, R2j in *.
    assert (Eq : isort qj = isort qi) by (apply isort_perm_eq; symmetry; exact Hp).
    assert (Ecs : cs_of (isort qj) (bcast_view j o1j o2j B1j B2j) = cs_of (isort qi) (bcast_view i o1i o2i B1i B2i)).
    { rewrite Eq. apply cs_of_ext. intros s Hin. rewrite isort_in in Hin.
      unfold bcast_view.
      destruct (s =? j) eqn:Ej; destruct (s =? i) eqn:Ei; try lia.
      - assert (s = j) by lia. subst s. rewrite Hj1, Hj2. reflexivity.
      - assert (s = i) by lia. subst s. rewrite Hi1, Hi2. reflexivity.
      - destruct (Hs s Hin) as [A B]; [lia|lia|]. rewrite A, B. reflexivity. }
    exists (bcast_view i o1i o2i B1i B2i). cbn zeta.
    rewrite Ecs in Sj, Hhj, Tj.
    repeat split; try assumption; try congruence.
  Qed.

  Lemma top_seed_sym a b p : top_seed a b p = top_seed b a p.
  Proof. unfold top_seed. rewrite (seed_input_sym a b). reflexivity. Qed.

  Lemma pair_bytes_sym i j cs ci cj : i <> j -> pair_bytes i j cs ci cj = pair_bytes j i cs cj ci.
  Proof.
    intros H. unfold pair_bytes.
    destruct (i <? j) eqn:A, (j <? i) eqn:B; try reflexivity; lia.
  Qed.

  (* both ends of a pair hold the same seed; hence the two contexts match *)
  Theorem pair_symmetry i j qi qj ti tj ui uj B1i B2i U2i U3i B1j B2j U2j U3j ci cj :
    let ri := party_run i qi ti ui B1i B2i U2i U3i in
    let rj := party_run j qj tj uj B1j B2j U2j U3j in
    pr_ctx ri = Some ci -> pr_ctx rj = Some cj ->
    Permutation qi qj -> i <> j ->
    same_broadcasts i j qi B1i B2i B1j B2j (pr_r1 ri) (pr_r2b ri) (pr_r1 rj) (pr_r2b rj) ->
    get j U3i = get i (pr_r3u rj) -> get i U3j = get j (pr_r3u ri) ->
    (exists s, get j (cx_seeds ci) = Some s /\ get i (cx_seeds cj) = Some s) /\
    ctx_match ci cj /\ cx_holder ci = i /\ cx_holder cj = j.
  Proof.
    intros ri rj Hi Hj Hp Hne Hb Hu1 Hu2.
    destruct (sid_agreement i j qi qj ti tj ui uj B1i B2i U2i U3i B1j B2j U2j U3j ci cj Hi Hj Hp Hne Hb)
      as (view & A1 & A2 & A3 & A4 & A5 & A6 & A7).
    destruct Hb as (Hs & Hj1 & Hj2 & Hi1 & Hi2).
    destruct (party_completes_inv _ _ _ _ _ _ _ _ _ Hi) as (o1i & o2i & R1i & R2i & _ & Ini & Si & Hhi & Ti & Qi & Holdi & Pi).
    destruct (party_completes_inv _ _ _ _ _ _ _ _ _ Hj) as (o1j & o2j & R1j & R2j & _ & Inj & Sj & Hhj & Tj & Qj & Holdj & Pj).
    fold ri in R1i, R2i, Pi. fold rj in R1j, R2j, Pj.
    assert (Eq : isort qj = isort qi) by (apply isort_perm_eq; symmetry; exact Hp).
    assert (Ecs : cs_of (isort qj) (bcast_view j o1j o2j B1j B2j) = cs_of (isort qi) (bcast_view i o1i o2i B1i B2i)).
    { rewrite R1i, R2i, R1j, R2j in *.
      rewrite Eq. apply cs_of_ext. intros s Hin. rewrite isort_in in Hin.
      unfold bcast_view.
      destruct (s =? j) eqn:Ej; destruct (s =? i) eqn:Ei; try lia.
      - assert (s = j) by lia. subst s. rewrite Hj1, Hj2. reflexivity.
      - assert (s = i) by lia. subst s. rewrite Hi1, Hi2. reflexivity.
      - destruct (Hs s Hin) as [A B]; [lia|lia|]. rewrite A, B. reflexivity. }
    assert (Jin : In j qi) by (apply Permutation_in with qj; [symmetry; exact Hp|exact Inj]).
    assert (Iin : In i qj) by (apply Permutation_in with qi; [exact Hp|exact Ini]).
    destruct (Pi j Jin) as (u_i & mine_i & w_i & G1 & G2 & G3); [congruence|].
    destruct (Pj i Iin) as (u_j & mine_j & w_j & G4 & G5 & G6); [congruence|].
    rewrite Hu1, G5 in G1. injection G1 as <-.
    rewrite Hu2, G2 in G4. injection G4 as <-.
    cbn [r3_pc] in G3, G6. rewrite Ecs in G6.
    rewrite (pair_bytes_sym j i) in G6 by congruence.
    rewrite (top_seed_sym j i) in G6.
    assert (Hseeds : exists s, get j (cx_seeds ci) = Some s /\ get i (cx_seeds cj) = Some s).
    { eexists. split; [exact G3|exact G6]. }
    split; [exact Hseeds|]. split; [|split; assumption].
    unfold ctx_match. rewrite Holdi, Holdj.
    destruct Hseeds as (s & S1 & S2). rewrite S1, S2.
    repeat split; congruence.
  Qed.

  (* ---------------------------------------------------------------- seeds of contexts as paths *)

  Definition seeds_are (c : context) (top : N -> seed) (rpath : list (list N)) : Prop :=
    forall peer, In peer (cx_quorum c) -> peer <> cx_holder c ->
                 get peer (cx_seeds c) = Some (seed_path (top peer) rpath).

  Lemma sub_context_seed_path c q c' top rpath :
    seeds_are c top rpath -> sub_context xof c q = Some c' ->
    seeds_are c' top (isort q :: rpath).
  Proof.
    intros Hs H. apply sub_context_inv in H. destruct H as (_ & _ & Hsub & seeds & Sc & ->).
    intros peer Hin Hne. cbn [cx_quorum cx_holder cx_seeds] in *.
    destruct (sc_seeds_get _ _ _ _ _ _ Sc Hin Hne) as (s & G1 & G2).
    rewrite G2. cbn [seed_path]. rewrite Hs in G1.
    - injection G1 as <-. reflexivity.
    - apply Hsub. apply isort_in. exact Hin.
    - exact Hne.
  Qed.

  (* ---------------------------------------------------------------- openings *)

  Lemma r3_open_blame ids inB inU ccoms ccs cws pcoms s :
    In s ids ->
    (forall id, In id ids -> exists b u c, get id inB = Some b /\ get id inU = Some u /\ get id ccoms = Some c) ->
    (forall id b c, In id ids -> id <> s -> get id inB = Some b -> get id ccoms = Some c ->
                    open_ok commonCommitmentKey c (r2_cc b) (r2_cw b) = true) ->
    (forall b c, get s inB = Some b -> get s ccoms = Some c ->
                 open_ok commonCommitmentKey c (r2_cc b) (r2_cw b) = false) ->
    r3_open com ids inB inU ccoms ccs cws pcoms = Err (VBlame s).
  Proof.
    revert ccs cws pcoms; induction ids as [|x r IH]; intros ccs cws pcoms Hin Hpres Hok Hbad; [destruct Hin|].
    cbn [r3_open].
    destruct (Hpres x (or_introl eq_refl)) as (b & u & c & Gb & Gu & Gc). rewrite Gb, Gu, Gc.
    destruct (N.eq_dec x s) as [->|Hd].
    - rewrite (Hbad b c Gb Gc). reflexivity.
    - rewrite (Hok x b c (or_introl eq_refl) Hd Gb Gc).
      apply IH.
      + destruct Hin as [->|Hin]; [contradiction|exact Hin].
      + intros id Hid. apply Hpres. right. exact Hid.
      + intros id b' c' Hid. apply Hok. right. exact Hid.
      + exact Hbad.
  Qed.

  Lemma r4_loop_blame self ck cs ids inU pcoms pcs s :
    In s ids ->
    (forall id, In id ids -> exists u c m, get id inU = Some u /\ get id pcoms = Some c /\ get id pcs = Some m) ->
    (forall id u c, In id ids -> id <> s -> get id inU = Some u -> get id pcoms = Some c ->
                    open_ok ck c (r3_pc u) (r3_pw u) = true) ->
    (forall u c, get s inU = Some u -> get s pcoms = Some c -> open_ok ck c (r3_pc u) (r3_pw u) = false) ->
    r4_loop com self ck cs ids inU pcoms pcs = Err (VBlame s).
  Proof.
    induction ids as [|x r IH]; intros Hin Hpres Hok Hbad; [destruct Hin|].
    cbn [r4_loop].
    destruct (Hpres x (or_introl eq_refl)) as (u & c & m & Gu & Gc & Gm). rewrite Gu, Gc.
    destruct (N.eq_dec x s) as [->|Hd].
    - rewrite (Hbad u c Gu Gc). reflexivity.
    - rewrite (Hok x u c (or_introl eq_refl) Hd Gu Gc), Gm.
      rewrite IH; [reflexivity| | | |exact Hbad].
      + destruct Hin as [->|Hin]; [contradiction|exact Hin].
      + intros id Hid. apply Hpres. right. exact Hid.
      + intros id u' c' Hid. apply Hok. right. exact Hid.
  Qed.

  (* Round 3: a common-contribution opening that does not match the commitment broadcast in
     round 1 makes the recipient reject, blaming exactly that sender *)
  Theorem round3_opening_blame p inB inU s :
    p_round p = 3 ->
    first_bad valid_r2b (others p) inB = None -> first_bad valid_r2u (others p) inU = None ->
    (forall id, In id (others p) -> exists c, get id (p_ccom p) = Some c) ->
    In s (others p) ->
    (forall id b c, In id (others p) -> id <> s -> get id inB = Some b -> get id (p_ccom p) = Some c ->
                    open_ok commonCommitmentKey c (r2_cc b) (r2_cw b) = true) ->
    (forall b c, get s inB = Some b -> get s (p_ccom p) = Some c ->
                 open_ok commonCommitmentKey c (r2_cc b) (r2_cw b) = false) ->
    round3 p inB inU = Err (VBlame s).
  Proof.
    intros Hr F1 F2 Hc Hs Hok Hbad. unfold Session.round3. rewrite Hr, F1, F2. cbn [N.eqb Pos.eqb negb].
    rewrite (r3_open_blame _ _ _ _ _ _ _ s); try assumption; [reflexivity|].
    intros id Hid.
    destruct (first_bad_none _ _ _ F1 id Hid) as (b & Gb & _).
    destruct (first_bad_none _ _ _ F2 id Hid) as (u & Gu & _).
    destruct (Hc id Hid) as (c & Gc). exists b, u, c. repeat split; assumption.
  Qed.

  (* Round 4: the same for the pairwise contribution opened under the recipient's own key *)
  Theorem round4_opening_blame p inU s ck :
    p_round p = 4 ->
    first_bad valid_r3u (others p) inU = None ->
    get (p_id p) (p_ck p) = Some ck ->
    (exists cs, common_seed_bytes (p_q p) (p_ck p) (p_ccom p) (p_cc p) (p_cw p) = Some cs) ->
    (forall id, In id (others p) -> exists c m, get id (p_pcom p) = Some c /\ get id (p_pc p) = Some m) ->
    In s (others p) ->
    (forall id u c, In id (others p) -> id <> s -> get id inU = Some u -> get id (p_pcom p) = Some c ->
                    open_ok ck c (r3_pc u) (r3_pw u) = true) ->
    (forall u c, get s inU = Some u -> get s (p_pcom p) = Some c -> open_ok ck c (r3_pc u) (r3_pw u) = false) ->
    round4 p inU = Err (VBlame s).
  Proof.
    intros Hr F Hck (cs & Hcs) Hpres Hs Hok Hbad. unfold Session.round4.
    rewrite Hr, F, Hck, Hcs. cbn [N.eqb Pos.eqb negb].
    rewrite (r4_loop_blame _ _ _ _ _ _ _ s); try assumption; [reflexivity|].
    intros id Hid.
    destruct (first_bad_none _ _ _ F id Hid) as (u & Gu & _).
    destruct (Hpres id Hid) as (c & m & Gc & Gm). exists u, c, m. repeat split; assumption.
  Qed.

  Lemma honest_opening_accepted k m w : open_ok k (commit k m w) m w = true.
  Proof. unfold Session.open_ok. apply bytes_eqb_refl. Qed.

  Section ComInjective.
    Hypothesis com_inj : forall k i k' i', com k i = com k' i' -> k = k' /\ i = i'.

    (* binding in the idealised sense: only the committed (message, witness) opens *)
    Theorem opening_mismatch_rejected k m w m' w' :
      length m = length m' -> (m', w') <> (m, w) -> open_ok k (commit k m w) m' w' = false.
    Proof.
      intros Hl Hne. unfold Session.open_ok, Session.commit. apply bytes_eqb_neq.
      intros H. apply com_inj in H. destruct H as [_ H].
      apply app_inj_length in H; [|symmetry; exact Hl]. destruct H as [-> ->].
      apply Hne. reflexivity.
    Qed.

    (* ... nor a commitment made under another key *)
    Theorem opening_wrong_key_rejected k k' m w m' w' :
      k <> k' -> open_ok k' (commit k m w) m' w' = false.
    Proof.
      intros Hne. unfold Session.open_ok, Session.commit. apply bytes_eqb_neq.
      intros H. apply com_inj in H. destruct H as [H _]. apply Hne. symmetry. exact H.
    Qed.
  End ComInjective.

End WithHashes.

(* ====================================================================== *)
(* the hypotheses on the hashes are satisfiable                            *)
(* ====================================================================== *)

(* an injective code list N -> N:  [] -> 0,  x :: r -> 2^x (2 code(r) + 1) *)
Fixpoint code (l : list N) : N :=
  match l with
  | [] => 0
  | x :: r => 2 ^ x * (2 * code r + 1)
  end.

Lemma pow2_odd_inj x y m k : 2 ^ x * (2 * m + 1) = 2 ^ y * (2 * k + 1) -> x = y /\ m = k.
Proof.
  revert y m k. induction x as [|x IH] using N.peano_ind; intros y m k H.
  - rewrite N.pow_0_r, N.mul_1_l in H.
    destruct (N.eq_dec y 0) as [->|Hy].
    + rewrite N.pow_0_r, N.mul_1_l in H. split; [reflexivity|lia].
    + exfalso. replace y with (N.succ (N.pred y)) in H by lia.
      rewrite N.pow_succ_r', <- N.mul_assoc in H.
      remember (2 ^ N.pred y * (2 * k + 1)) as t. lia.
  - rewrite N.pow_succ_r', <- N.mul_assoc in H.
    destruct (N.eq_dec y 0) as [->|Hy].
    + exfalso. rewrite N.pow_0_r, N.mul_1_l in H.
      remember (2 ^ x * (2 * m + 1)) as t. lia.
    + replace y with (N.succ (N.pred y)) in H by lia.
      rewrite N.pow_succ_r', <- N.mul_assoc in H.
      apply N.mul_cancel_l in H; [|lia].
      destruct (IH (N.pred y) m k H) as [E1 E2]. split; lia.
Qed.

Lemma code_inj a b : code a = code b -> a = b.
Proof.
  revert b; induction a as [|x a IH]; intros [|y b] H; cbn [code] in H.
  - reflexivity.
  - exfalso. assert (0 < 2 ^ y) by (apply N.neq_0_lt_0, N.pow_nonzero; lia). lia.
  - exfalso. assert (0 < 2 ^ x) by (apply N.neq_0_lt_0, N.pow_nonzero; lia). lia.
  - apply pow2_odd_inj in H. destruct H as [-> H]. f_equal. apply IH. exact H.
Qed.

Definition code2 (a b : list N) : N := code (code a :: b).

Lemma code2_inj a b a' b' : code2 a b = code2 a' b' -> a = a' /\ b = b'.
Proof.
  unfold code2. intros H. apply code_inj in H. injection H as H ->.
  apply code_inj in H. split; [exact H|reflexivity].
Qed.

(* idealised hashes: the output carries the code of the input in every position *)
Definition ideal_com (k i : bytes) : bytes := repeat (code2 k i) W.
Definition ideal_h512 (i : bytes) : bytes := repeat (code i) 64.
Definition ideal_xof (S i : bytes) (off n : N) : bytes := repeat (code2 S i) (N.to_nat n).

Lemma repeat_inj {A} (x y : A) n : (0 < n)%nat -> repeat x n = repeat y n -> x = y.
Proof. destruct n; [lia|]. cbn. intros _ H. injection H as H _. exact H. Qed.

Lemma ideal_com_inj k i k' i' : ideal_com k i = ideal_com k' i' -> k = k' /\ i = i'.
Proof. intros H. apply repeat_inj in H; [|unfold W; lia]. apply code2_inj in H. exact H. Qed.

Lemma ideal_h512_len x : length (ideal_h512 x) = 64%nat.
Proof. apply repeat_length. Qed.

Lemma ideal_h512_lo_inj a b : firstn W (ideal_h512 a) = firstn W (ideal_h512 b) -> a = b.
Proof.
  intros H. unfold ideal_h512 in H. change 64%nat with (W + 32)%nat in H.
  rewrite !repeat_app, !firstn_app in H. rewrite !repeat_length, Nat.sub_diag in H.
  cbn [firstn] in H. rewrite !app_nil_r in H.
  rewrite !firstn_all2 in H by (rewrite repeat_length; lia).
  apply repeat_inj in H; [|unfold W; lia]. apply code_inj. exact H.
Qed.

Lemma ideal_h512_hi_inj a b : skipn W (ideal_h512 a) = skipn W (ideal_h512 b) -> a = b.
Proof.
  intros H. unfold ideal_h512 in H. change 64%nat with (W + 32)%nat in H.
  rewrite !repeat_app in H.
  rewrite !skipn_app, !repeat_length, Nat.sub_diag in H.
  rewrite !skipn_all2 in H by (rewrite repeat_length; lia).
  cbn [skipn app] in H. apply repeat_inj in H; [|lia]. apply code_inj. exact H.
Qed.

Lemma ideal_xof_len S i off n : length (ideal_xof S i off n) = N.to_nat n.
Proof. apply repeat_length. Qed.

Lemma ideal_xof_inj S i S' i' off : ideal_xof S i off 32 = ideal_xof S' i' off 32 -> S = S' /\ i = i'.
Proof. intros H. apply repeat_inj in H; [|cbn; lia]. apply code2_inj in H. exact H. Qed.

Theorem ideal_hashes_ok :
  (forall k i k' i', ideal_com k i = ideal_com k' i' -> k = k' /\ i = i') /\
  (forall x, length (ideal_h512 x) = 64%nat) /\
  (forall a b, firstn W (ideal_h512 a) = firstn W (ideal_h512 b) -> a = b) /\
  (forall a b, skipn W (ideal_h512 a) = skipn W (ideal_h512 b) -> a = b) /\
  (forall S i off n, length (ideal_xof S i off n) = N.to_nat n) /\
  (forall S i S' i' off, ideal_xof S i off 32 = ideal_xof S' i' off 32 -> S = S' /\ i = i').
Proof.
  exact (conj ideal_com_inj (conj ideal_h512_len (conj ideal_h512_lo_inj (conj ideal_h512_hi_inj
          (conj ideal_xof_len ideal_xof_inj))))).
Qed.

(* ====================================================================== *)
(* distinctness: different pairs, sessions, sub-quorum chains              *)
(* ====================================================================== *)

Section Distinct.
  Variable h512 : bytes -> bytes.
  Variable xof : bytes -> bytes -> N -> N -> bytes.
  Section SidInjective.
  Hypothesis h512_lo_inj : forall a b, firstn W (h512 a) = firstn W (h512 b) -> a = b.

  (* the session identifier determines the quorum and every broadcast value *)
  Theorem sid_binds_session s v s' v' :
    Forall id_ok s -> Forall id_ok s' -> len s < 2^64 -> len s' < 2^64 ->
    Forall (fun id => bview_ok (v id)) s -> Forall (fun id => bview_ok (v' id)) s' ->
    firstn W (h512 (cs_of s v)) = firstn W (h512 (cs_of s' v')) ->
    s = s' /\ forall id, In id s -> v id = v' id.
  Proof.
    intros Hs Hs' L L' V V' H. apply h512_lo_inj in H. apply cs_of_inj in H; assumption.
  Qed.

  End SidInjective.

  Hypothesis xof_len : forall S i off n, length (xof S i off n) = N.to_nat n.
  Hypothesis xof_inj : forall S i S' i' off, xof S i off 32 = xof S' i' off 32 -> S = S' /\ i = i'.

  (* the stream of a pair's seed determines the pair, the session's common seed, both
     contributions and the whole chain of sub-quorums it was derived through *)
  Theorem pair_distinct a b a' b' cs cs' c1 c2 c1' c2' rpath rpath' :
    a < b -> a' < b' -> id_ok b -> id_ok b' ->
    length c1 = W -> length c2 = W -> length c1' = W -> length c2' = W ->
    Forall quorum_ok rpath -> Forall quorum_ok rpath' ->
    seed_read xof (seed_path xof (top_seed a b (pair_seed_bytes cs c1 c2)) rpath) 32 =
    seed_read xof (seed_path xof (top_seed a' b' (pair_seed_bytes cs' c1' c2')) rpath') 32 ->
    a = a' /\ b = b' /\ cs = cs' /\ c1 = c1' /\ c2 = c2' /\ rpath = rpath'.
  Proof.
    intros Hab Hab' Hb Hb' L1 L2 L1' L2' Q Q' H.
    apply (seed_path_inj xof xof_len xof_inj) in H; try assumption; try (unfold id_ok in *; lia).
    destruct H as (E1 & E2 & E3 & E4).
    apply pair_seed_bytes_inj in E3; try assumption.
    destruct E3 as (-> & -> & ->).
    repeat split; try assumption; lia.
  Qed.
End Distinct.

(* ====================================================================== *)
(* an honest scheduler (used for the non-vacuity example only)             *)
(* ====================================================================== *)

Section HonestRun.
  Variable com : bytes -> bytes -> bytes.
  Variable h512 : bytes -> bytes.

  Fixpoint collect {A B} (f : A -> option B) (l : list (N * A)) (skip : N) : amap B :=
    match l with
    | [] => []
    | (i, a) :: r =>
        if i =? skip then collect f r skip
        else match f a with
             | Some b => (i, b) :: collect f r skip
             | None => collect f r skip
             end
    end.

  Section Scheduler.
    Variable q : list N.
    Variable tape : N -> bytes.
    Definition hr_p1 := map (fun i => (i, party_run com h512 i q (tape i) 0 [] [] [] [])) q.
    Definition hr_B1 (i : N) := collect pr_r1 hr_p1 i.
    Definition hr_p2 := map (fun i => (i, party_run com h512 i q (tape i) 0 (hr_B1 i) [] [] [])) q.
    Definition hr_B2 (i : N) := collect pr_r2b hr_p2 i.
    Definition hr_U2 (i : N) := collect (fun r => get i (pr_r2u r)) hr_p2 i.
    Definition hr_p3 := map (fun i => (i, party_run com h512 i q (tape i) 0 (hr_B1 i) (hr_B2 i) (hr_U2 i) [])) q.
    Definition hr_U3 (i : N) := collect (fun r => get i (pr_r3u r)) hr_p3 i.
    Definition honest_run : list (N * prun) :=
      map (fun i => (i, party_run com h512 i q (tape i) 0 (hr_B1 i) (hr_B2 i) (hr_U2 i) (hr_U3 i))) q.
  End Scheduler.
End HonestRun.

(* ---------- a concrete honest run with computable toy hashes (sid_agreement and
   pair_symmetry hold for arbitrary hash functions, so any functions will do here) ---------- *)
Definition toy_com (k i : bytes) : bytes := firstn 32 (i ++ k).
Definition toy_h512 (i : bytes) : bytes := firstn 64 (i ++ repeat 0 64).
Definition toy_tape (i : N) : bytes := map (fun k => (N.of_nat k * 7 + i) mod 251 + 1) (seq 0 224).
Definition toy_q : list N := [7; 1099511627776; 3].

Definition ex_p1 := map (fun i => (i, party_run toy_com toy_h512 i toy_q (toy_tape i) 0 [] [] [] [])) toy_q.
Definition ex_B1 (i : N) := collect pr_r1 ex_p1 i.
Definition ex_p2 := map (fun i => (i, party_run toy_com toy_h512 i toy_q (toy_tape i) 0 (ex_B1 i) [] [] [])) toy_q.
Definition ex_B2 (i : N) := collect pr_r2b ex_p2 i.
Definition ex_U2 (i : N) := collect (fun r => get i (pr_r2u r)) ex_p2 i.
Definition ex_p3 := map (fun i => (i, party_run toy_com toy_h512 i toy_q (toy_tape i) 0 (ex_B1 i) (ex_B2 i) (ex_U2 i) [])) toy_q.
Definition ex_U3 (i : N) := collect (fun r => get i (pr_r3u r)) ex_p3 i.
(* each party is told the quorum in a different order *)
Definition ex_q (i : N) : list N := if i =? 7 then toy_q else rev toy_q.
Definition ex_run (i : N) : prun :=
  party_run toy_com toy_h512 i (ex_q i) (toy_tape i) 0 (ex_B1 i) (ex_B2 i) (ex_U2 i) (ex_U3 i).

Lemma example_run_meets_hypotheses :
  (exists ci cj, pr_ctx (ex_run 7) = Some ci /\ pr_ctx (ex_run 3) = Some cj) /\
  Permutation (ex_q 7) (ex_q 3) /\
  same_broadcasts 7 3 (ex_q 7) (ex_B1 7) (ex_B2 7) (ex_B1 3) (ex_B2 3)
                  (pr_r1 (ex_run 7)) (pr_r2b (ex_run 7)) (pr_r1 (ex_run 3)) (pr_r2b (ex_run 3)) /\
  get 3 (ex_U3 7) = get 7 (pr_r3u (ex_run 3)) /\ get 7 (ex_U3 3) = get 3 (pr_r3u (ex_run 7)).
Proof.
  split.
  { eexists. eexists. split; vm_compute; reflexivity. }
  split.
  { change (ex_q 7) with toy_q. change (ex_q 3) with (rev toy_q). apply Permutation_rev. }
  split.
  { unfold same_broadcasts. split.
    - intros s Hs N7 N3. change (ex_q 7) with toy_q in Hs. unfold toy_q in Hs.
      destruct Hs as [<-|[<-|[<-|[]]]]; try contradiction.
      split; vm_compute; reflexivity.
    - repeat split; vm_compute; reflexivity. }
  split; vm_compute; reflexivity.
Qed.

(* ====================================================================== *)
(* the honest scheduler: every two completing parties match                *)
(* ====================================================================== *)

Section HonestRunAgreement.
  Variable com : bytes -> bytes -> bytes.
  Variable h512 : bytes -> bytes.
  Variable xof : bytes -> bytes -> N -> N -> bytes.

  Ltac split_run :=
    repeat match goal with
           | |- context [match ?x with _ => _ end] => destruct x
           end; cbn; try reflexivity.

  (* what a party sends in a round does not depend on what is delivered to it later *)
  Lemma pr_r1_indep id q t u B1 B2 U2 U3 u' B1' B2' U2' U3' :
    pr_r1 (party_run com h512 id q t u B1 B2 U2 U3) = pr_r1 (party_run com h512 id q t u' B1' B2' U2' U3').
  Proof.
    unfold party_run.
    destruct (new_participant id q t); [|reflexivity].
    destruct (round1 com p) as [[p1 o1]|]; [|reflexivity].
    transitivity (Some o1); [|symmetry]; split_run.
  Qed.

  Lemma pr_r2_indep id q t B1 B2 U2 U3 B2' U2' U3' :
    pr_r2b (party_run com h512 id q t 0 B1 B2 U2 U3) = pr_r2b (party_run com h512 id q t 0 B1 B2' U2' U3') /\
    pr_r2u (party_run com h512 id q t 0 B1 B2 U2 U3) = pr_r2u (party_run com h512 id q t 0 B1 B2' U2' U3').
  Proof.
    unfold party_run.
    destruct (new_participant id q t); [|split; reflexivity].
    destruct (round1 com p) as [[p1 o1]|]; [|split; reflexivity].
    change (0 =? 2) with false. change (0 =? 3) with false. change (0 =? 4) with false. cbv iota.
    destruct (round2 com p1 B1) as [[[p2 o2] u2]|]; [|split; reflexivity].
    split.
    - transitivity (Some o2); [|symmetry]; split_run.
    - transitivity u2; [|symmetry]; split_run.
  Qed.

  Lemma pr_r3_indep id q t B1 B2 U2 U3 U3' :
    pr_r3u (party_run com h512 id q t 0 B1 B2 U2 U3) = pr_r3u (party_run com h512 id q t 0 B1 B2 U2 U3').
  Proof.
    unfold party_run.
    destruct (new_participant id q t); [|reflexivity].
    destruct (round1 com p) as [[p1 o1]|]; [|reflexivity].
    change (0 =? 2) with false. change (0 =? 3) with false. change (0 =? 4) with false. cbv iota.
    destruct (round2 com p1 B1) as [[[p2 o2] u2]|]; [|reflexivity].
    destruct (round3 com p2 B2 U2) as [[p3 u3]|]; [|reflexivity].
    transitivity u3; [|symmetry]; split_run.
  Qed.

  Lemma collect_get_notin {A B} (f : A -> option B) (F : N -> A) (q : list N) (skip j : N) :
    ~ In j q -> get j (collect f (map (fun i => (i, F i)) q) skip) = None.
  Proof.
    induction q as [|y q IH]; intros Hn; [reflexivity|].
    cbn [map collect].
    assert (j <> y) by (intros ->; apply Hn; left; reflexivity).
    assert (Hn' : ~ In j q) by (intros K; apply Hn; right; exact K).
    destruct (y =? skip); [apply IH; exact Hn'|].
    destruct (f (F y)); [cbn [get]; destruct (j =? y) eqn:E2; [lia|]|]; apply IH; exact Hn'.
  Qed.

  Lemma collect_get {A B} (f : A -> option B) (F : N -> A) (q : list N) (skip j : N) :
    NoDup q -> In j q -> j <> skip ->
    get j (collect f (map (fun i => (i, F i)) q) skip) = f (F j).
  Proof.
    induction q as [|x q IH]; intros Hnd Hin Hne; [destruct Hin|].
    inversion Hnd as [|? ? Hx Hnd']; subst.
    cbn [map collect].
    destruct (N.eq_dec x j) as [->|Hd].
    - destruct (j =? skip) eqn:E; [lia|].
      destruct (f (F j)) as [b|] eqn:Ef.
      + cbn [get]. rewrite N.eqb_refl. reflexivity.
      + apply collect_get_notin. exact Hx.
    - destruct Hin as [->|Hin]; [contradiction|].
      destruct (x =? skip); [apply IH; assumption|].
      destruct (f (F x)); [cbn [get]; destruct (j =? x) eqn:E2; [lia|]|]; apply IH; assumption.
  Qed.

  Lemma in_honest_run q tape i ri :
    In (i, ri) (honest_run com h512 q tape) ->
    In i q /\
    ri = party_run com h512 i q (tape i) 0 (hr_B1 com h512 q tape i) (hr_B2 com h512 q tape i)
                   (hr_U2 com h512 q tape i) (hr_U3 com h512 q tape i).
  Proof.
    unfold honest_run. rewrite in_map_iff. intros (x & E & Hx). injection E as -> <-.
    split; [exact Hx|reflexivity].
  Qed.

  (* in a run of the honest scheduler every two parties that complete hold matching
     contexts (same SID, transcript, quorum) and the same pairwise seed *)
  Theorem honest_run_agreement q tape i j ri rj ci cj :
    NoDup q -> In (i, ri) (honest_run com h512 q tape) -> In (j, rj) (honest_run com h512 q tape) -> i <> j ->
    pr_ctx ri = Some ci -> pr_ctx rj = Some cj ->
    (exists s, get j (cx_seeds ci) = Some s /\ get i (cx_seeds cj) = Some s) /\
    ctx_match ci cj /\ cx_holder ci = i /\ cx_holder cj = j.
  Proof.
    intros Hnd Hi Hj Hne Ci Cj.
    apply in_honest_run in Hi. destruct Hi as [Ii ->].
    apply in_honest_run in Hj. destruct Hj as [Ij ->].
    apply (pair_symmetry com h512 xof i j q q (tape i) (tape j) 0 0
             (hr_B1 com h512 q tape i) (hr_B2 com h512 q tape i) (hr_U2 com h512 q tape i) (hr_U3 com h512 q tape i)
             (hr_B1 com h512 q tape j) (hr_B2 com h512 q tape j) (hr_U2 com h512 q tape j) (hr_U3 com h512 q tape j)
             ci cj); try assumption; try reflexivity.
    - unfold same_broadcasts. split; [|split; [|split; [|split]]].
      + intros s Hs N1 N2. unfold hr_B1, hr_B2, hr_p1, hr_p2.
        rewrite !collect_get by (assumption || congruence). split; reflexivity.
      + unfold hr_B1 at 1, hr_p1. rewrite collect_get by (assumption || congruence). apply pr_r1_indep.
      + unfold hr_B2 at 1, hr_p2. rewrite collect_get by (assumption || congruence).
        symmetry. apply pr_r2_indep.
      + unfold hr_B1 at 1, hr_p1. rewrite collect_get by (assumption || congruence). apply pr_r1_indep.
      + unfold hr_B2 at 1, hr_p2. rewrite collect_get by (assumption || congruence).
        symmetry. apply pr_r2_indep.
    - unfold hr_U3 at 1, hr_p3. rewrite collect_get by (assumption || congruence).
      f_equal. symmetry. apply pr_r3_indep.
    - unfold hr_U3 at 1, hr_p3. rewrite collect_get by (assumption || congruence).
      f_equal. symmetry. apply pr_r3_indep.
  Qed.
End HonestRunAgreement.
