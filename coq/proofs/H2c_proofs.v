(* H2c_proofs.v — the message framings of expand_message_xmd / _xof are injective
   in (DST, msg, len_in_bytes): domain separation of RFC 9380 expanders. *)
From Coq Require Import List NArith Bool Lia Arith PeanoNat.
From Coq Require Import ZifyN ZifyNat ZifyBool.
Import ListNotations.
Require Import V.base.Bytes V.model.H2c.
Local Open Scope N_scope.

Lemma i2osp1_inj a b : a < 256 -> b < 256 -> i2osp a 1 = i2osp b 1 -> a = b.
Proof. intros Ha Hb. apply be_bytes_inj; cbn; lia. Qed.

Lemma i2osp2_inj a b : a < 65536 -> b < 65536 -> i2osp a 2 = i2osp b 2 -> a = b.
Proof. intros Ha Hb. apply be_bytes_inj; cbn; lia. Qed.

Lemma dst_prime_tail_inj (x y d d' : bytes) :
  len d < 256 -> len d' < 256 ->
  x ++ dst_prime_of d = y ++ dst_prime_of d' -> x = y /\ d = d'.
Proof.
  intros Hd Hd' H. unfold dst_prime_of in H. rewrite !app_assoc in H.
  apply app_inj_tail_length in H; [|unfold i2osp; rewrite !be_bytes_length; reflexivity].
  destruct H as [H H1]. apply i2osp1_inj in H1; [|assumption|assumption].
  apply len_inj in H1.
  apply app_inj_tail_length in H; [|exact H1]. exact H.
Qed.

Theorem xof_msg_prime_injective d msg l d' msg' l' :
  len d < 256 -> len d' < 256 -> l < 65536 -> l' < 65536 ->
  xof_msg_prime d msg l = xof_msg_prime d' msg' l' -> d = d' /\ msg = msg' /\ l = l'.
Proof.
  intros Hd Hd' Hl Hl' H. unfold xof_msg_prime in H. rewrite !app_assoc in H.
  apply dst_prime_tail_inj in H; [|assumption|assumption].
  destruct H as [H ->].
  apply app_inj_tail_length in H; [|unfold i2osp; rewrite !be_bytes_length; reflexivity].
  destruct H as [-> H2]. apply i2osp2_inj in H2; [|assumption|assumption]. subst.
  repeat split; reflexivity.
Qed.

Theorem xmd_msg_prime_injective s d msg l d' msg' l' :
  len d < 256 -> len d' < 256 -> l < 65536 -> l' < 65536 ->
  xmd_msg_prime s d msg l = xmd_msg_prime s d' msg' l' -> d = d' /\ msg = msg' /\ l = l'.
Proof.
  intros Hd Hd' Hl Hl' H. unfold xmd_msg_prime in H.
  apply app_inv_head in H. rewrite !app_assoc in H.
  apply dst_prime_tail_inj in H; [|assumption|assumption].
  destruct H as [H ->].
  apply app_inj_tail_length in H; [|reflexivity]. destruct H as [H _].
  apply app_inj_tail_length in H; [|unfold i2osp; rewrite !be_bytes_length; reflexivity].
  destruct H as [-> H2]. apply i2osp2_inj in H2; [|assumption|assumption]. subst.
  repeat split; reflexivity.
Qed.

(* The first hash call of the XMD expander (b_0) is made on an input that
   determines DST, message and requested length; with H idealised as injective
   this gives: different (DST, msg, len) => different b_0 => unrelated outputs. *)
Theorem xmd_b0_binds (H : bytes -> bytes) s d msg l d' msg' l' :
  (forall x y, H x = H y -> x = y) ->
  len d < 256 -> len d' < 256 -> l < 65536 -> l' < 65536 ->
  H (xmd_msg_prime s d msg l) = H (xmd_msg_prime s d' msg' l') ->
  d = d' /\ msg = msg' /\ l = l'.
Proof.
  intros Hinj Hd Hd' Hl Hl' E. apply Hinj in E.
  eapply xmd_msg_prime_injective; eassumption.
Qed.

(* output length of the XMD expander, when every hash output has b bytes *)
Lemma xmd_blocks_length (H : bytes -> bytes) b k i b0 bp d :
  (forall x, length (H x) = b) -> length (xmd_blocks H k i b0 bp d) = (k * b)%nat.
Proof.
  intros Hb. revert i bp; induction k as [|k IH]; intros i bp; cbn [xmd_blocks]; [reflexivity|].
  rewrite app_length, Hb, IH. lia.
Qed.

Theorem expand_message_xmd_length (H : bytes -> bytes) (b s : N) dst msg l out :
  0 < b -> (forall x, length (H x) = N.to_nat b) ->
  expand_message_xmd H b s dst msg l = Some out -> length out = N.to_nat l.
Proof.
  intros Hb0 Hb. unfold expand_message_xmd.
  destruct ((255 <? xmd_ell b l) || (65535 <? l)) eqn:E; [discriminate|].
  destruct (xmd_ell b l =? 0) eqn:E0; [discriminate|].
  intros E2. injection E2 as <-.
  rewrite firstn_length_le; [reflexivity|].
  rewrite app_length, Hb, (xmd_blocks_length H (N.to_nat b)) by exact Hb.
  unfold xmd_ell in *.
  assert (Hdiv : l <= b * ((l + b - 1) / b)).
  { pose proof (N.div_mod (l + b - 1) b ltac:(lia)) as Hdm.
    pose proof (N.mod_lt (l + b - 1) b ltac:(lia)). nia. }
  destruct (N.eq_dec l 0) as [->|Hl0]; [lia|].
  assert (1 <= (l + b - 1) / b). { apply N.div_le_lower_bound; lia. }
  nia.
Qed.
