(* H2c_proofs.v — RFC 9380 expanders and hash_to_field.

   1. gen_*_eq : every piece of gen/Expanders.v (regenerated from xmd.go / xof.go) equals the
      RFC 9380 §5.3 transcription [rfc_*] of model/H2c.v.  A source change to a hashed byte
      string, a threshold or a loop bound breaks one of these.
   2. the message framings are injective in (DST, msg, len_in_bytes): domain separation.
   3. the oversize rule leaves DSTs of at most 255 bytes untouched.
   4. expand_message_xmd returns exactly len_in_bytes bytes and does not panic on the RFC's domain.
   5. hash_to_field: every coordinate is OS2IP(chunk) mod p, chunks are the consecutive L-byte
      pieces of uniform_bytes in the order (i, j). *)
From Coq Require Import List NArith Bool Lia Arith PeanoNat.
From Coq Require Import ZifyN ZifyNat ZifyBool.
Import ListNotations.
Require Import V.base.Bytes V.gen.Expanders V.model.H2c.
Local Open Scope N_scope.

(* ---- 1. generated = RFC ------------------------------------------------------------ *)

Lemma repeat_zero_snoc k : repeat_zero k ++ [0] = 0 :: repeat_zero k.
Proof. induction k as [|k IH]; cbn [repeat_zero app]; [reflexivity|]. rewrite IH. reflexivity. Qed.

Lemma be_bytes_zero k : be_bytes k 0 = repeat_zero k.
Proof.
  induction k as [|k IH]; cbn [be_bytes repeat_zero]; [reflexivity|].
  change (0 / 256) with 0. change (0 mod 256) with 0. rewrite IH. apply repeat_zero_snoc.
Qed.

Lemma gen_xmd_oversize_eq s b dst msg l : Xmd_oversize s b dst msg l = rfc_oversize dst.
Proof. reflexivity. Qed.
Lemma gen_xmd_oversize_input_eq s b dst msg l : Xmd_oversize_input s b dst msg l = rfc_oversize_prefix ++ dst.
Proof. reflexivity. Qed.
Lemma gen_xmd_abort_eq s b d msg l : Xmd_abort s b d msg l = rfc_xmd_abort l b.
Proof. reflexivity. Qed.
Lemma gen_xmd_blocks_eq s b d msg l : Xmd_blocks s b d msg l = rfc_xmd_ell l b + 1.
Proof. reflexivity. Qed.
Lemma gen_xmd_b0_eq s b d msg l : Xmd_b0_input s b d msg l = rfc_xmd_msg_prime s d msg l.
Proof.
  unfold Xmd_b0_input, rfc_xmd_msg_prime, i2osp. cbv zeta. rewrite be_bytes_zero. reflexivity.
Qed.
Lemma gen_xmd_b1_eq s b d msg l b0 : Xmd_b1_input s b d msg l b0 = rfc_xmd_b1_input b0 d.
Proof. reflexivity. Qed.
Lemma gen_xmd_bi_eq s b d msg l b0 bp i : Xmd_bi_input s b d msg l b0 bp i = rfc_xmd_bi_input b0 bp i d.
Proof. reflexivity. Qed.
Lemma gen_xmd_loop_from_eq s b d msg l : Xmd_loop_from s b d msg l = 2.
Proof. reflexivity. Qed.
Lemma gen_xmd_loop_cond_eq s b d msg l i : Xmd_loop_cond s b d msg l i = (i <=? rfc_xmd_ell l b).
Proof. reflexivity. Qed.
Lemma gen_xmd_out_from_eq s b d msg l : Xmd_out_from_block s b d msg l = 1.
Proof. reflexivity. Qed.
Lemma gen_xmd_out_truncate_eq s b d msg l : Xmd_out_truncate s b d msg l = l.
Proof. reflexivity. Qed.

Lemma gen_xof_oversize_eq k dst msg l : Xof_oversize k dst msg l = rfc_oversize dst.
Proof. reflexivity. Qed.
Lemma gen_xof_oversize_input_eq k dst msg l : Xof_oversize_input k dst msg l = rfc_oversize_prefix ++ dst.
Proof. reflexivity. Qed.
Lemma gen_xof_oversize_len_eq k dst msg l : Xof_oversize_len k dst msg l = rfc_xof_oversize_len k.
Proof. reflexivity. Qed.
Lemma gen_xof_abort_eq k d msg l : Xof_abort k d msg l = rfc_xof_abort l.
Proof. reflexivity. Qed.
Lemma gen_xof_input_eq k d msg l : Xof_input k d msg l = rfc_xof_msg_prime d msg l.
Proof. reflexivity. Qed.
Lemma gen_xof_out_len_eq k d msg l : Xof_out_len k d msg l = l.
Proof. reflexivity. Qed.
Lemma gen_xof_out_truncate_eq k d msg l : Xof_out_truncate k d msg l = l.
Proof. reflexivity. Qed.

(* all of them at once: the generated expanders are the RFC's *)
Theorem generated_expanders_are_rfc9380 :
  (forall s b dst msg l, Xmd_oversize s b dst msg l = rfc_oversize dst /\
                         Xmd_oversize_input s b dst msg l = rfc_oversize_prefix ++ dst /\
                         Xmd_abort s b dst msg l = rfc_xmd_abort l b /\
                         Xmd_blocks s b dst msg l = rfc_xmd_ell l b + 1 /\
                         Xmd_b0_input s b dst msg l = rfc_xmd_msg_prime s dst msg l /\
                         Xmd_loop_from s b dst msg l = 2 /\
                         Xmd_out_from_block s b dst msg l = 1 /\
                         Xmd_out_truncate s b dst msg l = l) /\
  (forall s b dst msg l b0 bp i, Xmd_b1_input s b dst msg l b0 = rfc_xmd_b1_input b0 dst /\
                         Xmd_bi_input s b dst msg l b0 bp i = rfc_xmd_bi_input b0 bp i dst /\
                         Xmd_loop_cond s b dst msg l i = (i <=? rfc_xmd_ell l b)) /\
  (forall k dst msg l,   Xof_oversize k dst msg l = rfc_oversize dst /\
                         Xof_oversize_input k dst msg l = rfc_oversize_prefix ++ dst /\
                         Xof_oversize_len k dst msg l = rfc_xof_oversize_len k /\
                         Xof_abort k dst msg l = rfc_xof_abort l /\
                         Xof_input k dst msg l = rfc_xof_msg_prime dst msg l /\
                         Xof_out_len k dst msg l = l /\
                         Xof_out_truncate k dst msg l = l).
Proof.
  split; [|split].
  - intros. repeat split; try reflexivity. apply gen_xmd_b0_eq.
  - intros. repeat split; reflexivity.
  - intros. repeat split; reflexivity.
Qed.

(* ---- 2. injectivity of the framings ------------------------------------------------ *)

Lemma be1_inj a b : a < 256 -> b < 256 -> be_bytes 1 a = be_bytes 1 b -> a = b.
Proof. intros Ha Hb. apply be_bytes_inj; cbn; lia. Qed.

Lemma be2_inj a b : a < 65536 -> b < 65536 -> be_bytes 2 a = be_bytes 2 b -> a = b.
Proof. intros Ha Hb. apply be_bytes_inj; cbn; lia. Qed.

Lemma dst_prime_tail_inj (x y d d' : bytes) :
  len d < 256 -> len d' < 256 ->
  x ++ rfc_dst_prime d = y ++ rfc_dst_prime d' -> x = y /\ d = d'.
Proof.
  intros Hd Hd' H. unfold rfc_dst_prime in H. rewrite !app_assoc in H.
  apply app_inj_tail_length in H; [|rewrite !be_bytes_length; reflexivity].
  destruct H as [H H1]. apply be1_inj in H1; [|assumption|assumption].
  apply len_inj in H1.
  apply app_inj_tail_length in H; [|exact H1]. exact H.
Qed.

Lemma rfc_xof_msg_prime_injective d msg l d' msg' l' :
  len d < 256 -> len d' < 256 -> l < 65536 -> l' < 65536 ->
  rfc_xof_msg_prime d msg l = rfc_xof_msg_prime d' msg' l' -> d = d' /\ msg = msg' /\ l = l'.
Proof.
  intros Hd Hd' Hl Hl' H. unfold rfc_xof_msg_prime in H. rewrite !app_assoc in H.
  apply dst_prime_tail_inj in H; [|assumption|assumption].
  destruct H as [H ->].
  apply app_inj_tail_length in H; [|rewrite !be_bytes_length; reflexivity].
  destruct H as [-> H2]. apply be2_inj in H2; [|assumption|assumption]. subst.
  repeat split; reflexivity.
Qed.

Lemma rfc_xmd_msg_prime_injective s d msg l d' msg' l' :
  len d < 256 -> len d' < 256 -> l < 65536 -> l' < 65536 ->
  rfc_xmd_msg_prime s d msg l = rfc_xmd_msg_prime s d' msg' l' -> d = d' /\ msg = msg' /\ l = l'.
Proof.
  intros Hd Hd' Hl Hl' H. unfold rfc_xmd_msg_prime in H.
  apply app_inv_head in H. rewrite !app_assoc in H.
  apply dst_prime_tail_inj in H; [|assumption|assumption].
  destruct H as [H ->].
  apply app_inj_tail_length in H; [|reflexivity]. destruct H as [H _].
  apply app_inj_tail_length in H; [|rewrite !be_bytes_length; reflexivity].
  destruct H as [-> H2]. apply be2_inj in H2; [|assumption|assumption]. subst.
  repeat split; reflexivity.
Qed.

(* about the generated msg_prime (model/H2c.v [xmd_msg_prime] IS gen/Expanders.v [Xmd_b0_input]) *)
Theorem xmd_msg_prime_injective b s d msg l d' msg' l' :
  len d < 256 -> len d' < 256 -> l < 65536 -> l' < 65536 ->
  xmd_msg_prime b s d msg l = xmd_msg_prime b s d' msg' l' -> d = d' /\ msg = msg' /\ l = l'.
Proof.
  unfold xmd_msg_prime. rewrite !gen_xmd_b0_eq. apply rfc_xmd_msg_prime_injective.
Qed.

Theorem xof_msg_prime_injective k d msg l d' msg' l' :
  len d < 256 -> len d' < 256 -> l < 65536 -> l' < 65536 ->
  xof_msg_prime k d msg l = xof_msg_prime k d' msg' l' -> d = d' /\ msg = msg' /\ l = l'.
Proof.
  unfold xof_msg_prime. rewrite !gen_xof_input_eq. apply rfc_xof_msg_prime_injective.
Qed.

(* The first hash call of the XMD expander (b_0) is made on an input that determines DST, message
   and requested length; with H idealised as injective this gives: different (DST, msg, len) =>
   different b_0 => unrelated outputs. *)
Theorem xmd_b0_binds (H : bytes -> bytes) b s d msg l d' msg' l' :
  (forall x y, H x = H y -> x = y) ->
  len d < 256 -> len d' < 256 -> l < 65536 -> l' < 65536 ->
  H (xmd_msg_prime b s d msg l) = H (xmd_msg_prime b s d' msg' l') ->
  d = d' /\ msg = msg' /\ l = l'.
Proof.
  intros Hinj Hd Hd' Hl Hl' E. apply Hinj in E.
  eapply xmd_msg_prime_injective; eassumption.
Qed.

(* the later hash inputs never collide with the first one's domain separator position: b_1 and b_i
   inputs end in the same DST_prime, so they bind the DST as well *)
Theorem xmd_bi_binds_dst s b d msg l b0 bp i d' msg' l' b0' bp' i' :
  len d < 256 -> len d' < 256 ->
  Xmd_bi_input s b d msg l b0 bp i = Xmd_bi_input s b d' msg' l' b0' bp' i' -> d = d'.
Proof.
  intros Hd Hd'. rewrite !gen_xmd_bi_eq. unfold rfc_xmd_bi_input. rewrite !app_assoc.
  intros H. apply dst_prime_tail_inj in H; [|assumption|assumption]. apply H.
Qed.

(* ---- 3. the oversize rule ------------------------------------------------------------ *)

Theorem xmd_dst_verbatim (H : bytes -> bytes) b s dst msg l :
  len dst <= 255 -> xmd_dst H b s dst msg l = dst.
Proof.
  intros Hl. unfold xmd_dst. rewrite gen_xmd_oversize_eq. unfold rfc_oversize.
  destruct (255 <? len dst) eqn:E; [apply N.ltb_lt in E; lia|reflexivity].
Qed.

Theorem xmd_dst_oversize (H : bytes -> bytes) b s dst msg l :
  255 < len dst -> xmd_dst H b s dst msg l = H (rfc_oversize_prefix ++ dst).
Proof.
  intros Hl. unfold xmd_dst. rewrite gen_xmd_oversize_eq, gen_xmd_oversize_input_eq. unfold rfc_oversize.
  destruct (255 <? len dst) eqn:E; [reflexivity|apply N.ltb_ge in E; lia].
Qed.

Theorem xof_dst_verbatim (X : bytes -> N -> bytes) k dst msg l :
  len dst <= 255 -> xof_dst X k dst msg l = dst.
Proof.
  intros Hl. unfold xof_dst. rewrite gen_xof_oversize_eq. unfold rfc_oversize.
  destruct (255 <? len dst) eqn:E; [apply N.ltb_lt in E; lia|reflexivity].
Qed.

Theorem xof_dst_oversize (X : bytes -> N -> bytes) k dst msg l :
  255 < len dst -> xof_dst X k dst msg l = X (rfc_oversize_prefix ++ dst) ((2 * k + 7) / 8).
Proof.
  intros Hl. unfold xof_dst. rewrite gen_xof_oversize_eq, gen_xof_oversize_input_eq, gen_xof_oversize_len_eq.
  unfold rfc_oversize, rfc_xof_oversize_len.
  destruct (255 <? len dst) eqn:E; [reflexivity|apply N.ltb_ge in E; lia].
Qed.

Theorem xmd_dst_rule (H : bytes -> bytes) b s dst msg l :
  (len dst <= 255 -> xmd_dst H b s dst msg l = dst) /\
  (255 < len dst -> xmd_dst H b s dst msg l = H (rfc_oversize_prefix ++ dst)).
Proof. split; [apply xmd_dst_verbatim | apply xmd_dst_oversize]. Qed.

Theorem xof_dst_rule (X : bytes -> N -> bytes) k dst msg l :
  (len dst <= 255 -> xof_dst X k dst msg l = dst) /\
  (255 < len dst -> xof_dst X k dst msg l = X (rfc_oversize_prefix ++ dst) ((2 * k + 7) / 8)).
Proof. split; [apply xof_dst_verbatim | apply xof_dst_oversize]. Qed.

(* ---- 4. output length / no panic ------------------------------------------------------ *)

Lemma concat_length_const {A} (ls : list (list A)) nb :
  Forall (fun x => length x = nb) ls -> length (concat ls) = (length ls * nb)%nat.
Proof.
  induction 1 as [|x ls Hx _ IH]; cbn [concat length]; [reflexivity|].
  rewrite app_length, Hx, IH. lia.
Qed.

Lemma xmd_loop_shape (H : bytes -> bytes) (b s : N) nb d msg l b0 :
  (forall x, length (H x) = nb) ->
  forall fuel i bp,
    Forall (fun x => length x = nb) (xmd_loop H b s fuel i d msg l b0 bp) /\
    length (xmd_loop H b s fuel i d msg l b0 bp) = Nat.min fuel (N.to_nat (rfc_xmd_ell l b + 1 - i)).
Proof.
  intros Hb. induction fuel as [|k IH]; intros i bp; cbn [xmd_loop].
  - split; [constructor|reflexivity].
  - rewrite gen_xmd_loop_cond_eq. destruct (i <=? rfc_xmd_ell l b) eqn:E.
    + destruct (IH (i + 1) (H (Xmd_bi_input s b d msg l b0 bp i))) as [IH1 IH2]. split.
      * constructor; [apply Hb|exact IH1].
      * apply N.leb_le in E. cbn [length]. rewrite IH2.
        assert (Hs : N.to_nat (rfc_xmd_ell l b + 1 - i) = S (N.to_nat (rfc_xmd_ell l b + 1 - (i + 1)))) by lia.
        rewrite Hs. reflexivity.
    + apply N.leb_gt in E. split; [constructor|]. cbn [length].
      assert (Hs : N.to_nat (rfc_xmd_ell l b + 1 - i) = 0%nat) by lia. rewrite Hs. reflexivity.
Qed.

Theorem expand_message_xmd_length (H : bytes -> bytes) (b s : N) dst msg l out :
  expand_message_xmd H b s dst msg l = Some out -> length out = N.to_nat l.
Proof.
  unfold expand_message_xmd.
  destruct (Xmd_abort _ _ _ _ _); [discriminate|].
  destruct (Xmd_blocks _ _ _ _ _ <? 2); [discriminate|].
  rewrite gen_xmd_out_truncate_eq.
  match goal with |- context [len ?u <? l] => generalize u; intros uu; destruct (len uu <? l) eqn:E; [discriminate|] end.
  intros E2. injection E2 as <-. rewrite firstn_length_le; [reflexivity|]. apply N.ltb_ge in E. unfold len in E. lia.
Qed.

(* on the RFC's domain (0 < len_in_bytes <= 65535, ell <= 255) the expander returns a value:
   the code neither aborts nor indexes/slices out of range *)
Theorem expand_message_xmd_defined (H : bytes -> bytes) (b s : N) dst msg l :
  0 < b -> (forall x, length (H x) = N.to_nat b) ->
  0 < l -> rfc_xmd_abort l b = false ->
  exists out, expand_message_xmd H b s dst msg l = Some out /\ length out = N.to_nat l.
Proof.
  intros Hb0 Hb Hl Hab.
  destruct (expand_message_xmd H b s dst msg l) as [out|] eqn:E.
  - exists out. split; [reflexivity|]. eapply expand_message_xmd_length; exact E.
  - exfalso. revert E. unfold expand_message_xmd.
    rewrite gen_xmd_abort_eq, Hab, gen_xmd_blocks_eq.
    assert (Hell : 1 <= rfc_xmd_ell l b).
    { unfold rfc_xmd_ell. apply N.div_le_lower_bound; lia. }
    destruct (rfc_xmd_ell l b + 1 <? 2) eqn:E2; [apply N.ltb_lt in E2; lia|].
    rewrite gen_xmd_out_from_eq, gen_xmd_out_truncate_eq, gen_xmd_loop_from_eq.
    change (N.to_nat 1) with 1%nat. cbn [skipn concat].
    match goal with |- context [xmd_loop H b s ?f ?i ?d msg l ?b0 ?bp] =>
      destruct (xmd_loop_shape H b s (N.to_nat b) d msg l b0 Hb f i bp) as [S1 S2];
      set (rest := xmd_loop H b s f i d msg l b0 bp) in * end.
    match goal with |- context [len ?u <? l] => destruct (len u <? l) eqn:E3; [|discriminate] end.
    intros _. apply N.ltb_lt in E3. unfold len in E3.
    pose proof (concat_length_const rest (N.to_nat b) S1) as Hc.
    clearbody rest. unfold bytes in *. rewrite app_length, Hb, Hc, S2 in E3.
    assert (Hdiv : l <= b * rfc_xmd_ell l b).
    { unfold rfc_xmd_ell.
      pose proof (N.div_mod (l + b - 1) b ltac:(lia)) as Hdm.
      pose proof (N.mod_lt (l + b - 1) b ltac:(lia)). nia. }
    assert (Hmin : Nat.min (N.to_nat (rfc_xmd_ell l b + 1)) (N.to_nat (rfc_xmd_ell l b + 1 - 2))
                   = N.to_nat (rfc_xmd_ell l b - 1)).
    { replace (rfc_xmd_ell l b + 1 - 2) with (rfc_xmd_ell l b - 1) by lia. apply Nat.min_r. lia. }
    rewrite Hmin in E3. nia.
Qed.

Theorem expand_message_xof_length (X : bytes -> N -> bytes) k dst msg l out :
  (forall x n, length (X x n) = N.to_nat n) ->
  expand_message_xof X k dst msg l = Some out -> length out = N.to_nat l.
Proof.
  intros HX. unfold expand_message_xof.
  destruct (Xof_abort _ _ _ _); [discriminate|].
  rewrite gen_xof_out_truncate_eq, gen_xof_out_len_eq.
  intros E. injection E as <-. rewrite firstn_length_le; [reflexivity|]. rewrite HX. lia.
Qed.

(* ---- 5. hash_to_field ------------------------------------------------------------------ *)

Lemma le_value_app a b : le_value (a ++ b) = le_value a + 256 ^ len a * le_value b.
Proof.
  induction a as [|x a IH]; cbn [app le_value].
  - unfold len. cbn [length N.of_nat]. rewrite N.pow_0_r. lia.
  - rewrite IH. unfold len. cbn [length]. rewrite Nat2N.inj_succ, N.pow_succ_r'. lia.
Qed.

Lemma be_value_cons x l : be_value (x :: l) = x * 256 ^ len l + be_value l.
Proof.
  revert x. induction l as [|y l IH] using rev_ind; intros x.
  - unfold be_value, len. cbn [fold_left length N.of_nat]. rewrite N.pow_0_r. lia.
  - change (x :: l ++ [y]) with ((x :: l) ++ [y]). rewrite !be_value_app, IH, len_app.
    change (len [y]) with 1. rewrite N.pow_add_r, N.pow_1_r. lia.
Qed.

(* Reverse + little-endian read = OS2IP *)
Lemma le_value_rev l : le_value (rev l) = be_value l.
Proof.
  induction l as [|x l IH]; [reflexivity|].
  cbn [rev]. rewrite le_value_app, IH, be_value_cons.
  unfold len. rewrite rev_length. cbn [le_value]. lia.
Qed.

(* RFC 9380 §5.2 step 7: e_j = OS2IP(tv) mod p with tv = substr(uniform_bytes, L*(j+i*m), L) *)
Theorem h2f_coordinate_spec p L m u i j :
  h2f_coordinate p L m u i j = be_value (substr u (L * (j + i * m)) L) mod p.
Proof. unfold h2f_coordinate, set_bytes_wide, elm_offset. rewrite le_value_rev. reflexivity. Qed.

Lemma nseq_length k from : length (nseq k from) = k.
Proof. revert from; induction k as [|k IH]; intros from; cbn [nseq length]; [reflexivity|]. rewrite IH. reflexivity. Qed.

Lemma nseq_nth k from n : (n < k)%nat -> nth_error (nseq k from) n = Some (from + N.of_nat n).
Proof.
  revert from n; induction k as [|k IH]; intros from [|n] Hn; cbn [nseq nth_error]; try lia.
  - f_equal. lia.
  - rewrite IH by lia. f_equal. lia.
Qed.

Theorem hash_to_field_shape p L m count u :
  length (hash_to_field_from_uniform p L m count u) = N.to_nat count /\
  Forall (fun e => length e = N.to_nat m) (hash_to_field_from_uniform p L m count u).
Proof.
  unfold hash_to_field_from_uniform. split.
  - rewrite map_length, nseq_length. reflexivity.
  - apply Forall_forall. intros e He. apply in_map_iff in He. destruct He as [i [<- _]].
    unfold h2f_element. rewrite map_length, nseq_length. reflexivity.
Qed.

(* element i, coordinate j of the result is OS2IP of the (i*m+j)-th L-byte chunk, reduced *)
Theorem hash_to_field_nth p L m count u i j :
  (i < N.to_nat count)%nat -> (j < N.to_nat m)%nat ->
  option_map (fun e => nth_error e j) (nth_error (hash_to_field_from_uniform p L m count u) i)
  = Some (Some (be_value (substr u (L * (N.of_nat j + N.of_nat i * m)) L) mod p)).
Proof.
  intros Hi Hj. unfold hash_to_field_from_uniform.
  rewrite nth_error_map, nseq_nth by exact Hi. cbn [option_map]. unfold h2f_element.
  rewrite nth_error_map, nseq_nth by exact Hj. cbn [option_map].
  rewrite h2f_coordinate_spec. rewrite !N.add_0_l. reflexivity.
Qed.

Theorem hash_to_field_in_range p L m count u :
  0 < p -> Forall (Forall (fun c => c < p)) (hash_to_field_from_uniform p L m count u).
Proof.
  intros Hp. apply Forall_forall. intros e He. apply in_map_iff in He. destruct He as [i [<- _]].
  apply Forall_forall. intros c Hc. apply in_map_iff in Hc. destruct Hc as [j [<- _]].
  unfold h2f_coordinate, set_bytes_wide. apply N.mod_lt. lia.
Qed.

(* hash_to_field inherits domain separation from the expander: it is a function of the expander
   output only, and it asks the expander for count*m*L bytes *)
Theorem hash_to_field_factors expand p L m count dst msg r :
  hash_to_field expand p L m count dst msg = Some r ->
  exists u, expand dst msg (count * m * L) = Some u /\ r = hash_to_field_from_uniform p L m count u.
Proof.
  unfold hash_to_field. destruct (expand dst msg (count * m * L)) as [u|]; [|discriminate].
  intros E. injection E as <-. exists u. split; reflexivity.
Qed.
