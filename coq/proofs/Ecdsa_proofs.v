(* Ecdsa_proofs.v — lemmas about the exponent model of ECDSA (model/Ecdsa.v).
   Section hypotheses (they stay hypotheses of the property theorems):
     n_prime    the group order is prime
     xf_inj     two non-identity points have the same affine x-coordinate iff they are equal or opposite
     yodd_neg   negation flips the parity of y (p is odd and there is no point of order two)
     lift_spec  FromAffineX returns the point with that x-coordinate and y-parity
   The coincidences "two different x-coordinates that agree mod n" are not excluded by hypothesis:
   they appear explicitly as [x_wrap] in the statements. *)
From Coq Require Import ZArith Znumtheory Lia List Bool Zdiv Morphisms Setoid.
From Coq Require Import ZifyBool.
Import ListNotations.
Require Import V.base.Fld V.model.Ecdsa V.proofs.ZnInv_proofs.
Local Open Scope Z_scope.

Section EcdsaProofs.
  Variables n p : Z.
  Variable xf : Z -> Z.
  Variable yodd : Z -> bool.
  Variable lift : Z -> bool -> option Z.

  Hypothesis n_prime : prime n.
  Hypothesis xf_inj : forall a b, 0 < a < n -> 0 < b < n -> (xf a = xf b <-> a = b \/ a = n - b).
  Hypothesis yodd_neg : forall a, 0 < a < n -> yodd (n - a) = negb (yodd a).
  Hypothesis lift_spec : forall x b k, lift x b = Some k <-> (0 < k < n /\ xf k = x /\ yodd k = b).

  Notation "a == b" := (eqm n a b) (at level 70).
  Notation xc := (xc n xf).
  Notation invn := (invn n).
  Notation muln := (muln n).
  Notation addn := (addn n).
  Notation negn := (negn n).
  Notation verify_core := (verify_core n xf).
  Notation recover := (recover n p lift).
  Notation ecdsa_verify := (ecdsa_verify n p xf lift).
  Notation ecdsa_sign := (ecdsa_sign n p xf lift).
  Notation sign_rs := (sign_rs n xf).
  Notation find_v := (find_v n p lift).
  Notation is_normalized := (is_normalized n).
  Notation normalise := (normalise n).
  Notation flip := (flip n).

  Let n_gt_1 : 1 < n := n_gt_1 n n_prime.

  (* the x-coordinate FromAffineX is asked for, given r and recovery id v *)
  Definition rxv (r v : Z) : Z :=
    if Z.testbit v 1 then (r mod p + n mod p) mod p else r mod p.

  (* the scalar u = s⁻¹(e + r d) with u·G = u1·G + u2·Q *)
  Definition uval (r s e d : Z) : Z := (invn s * (e + r * d)) mod n.

  (* two different x-coordinates with the same residue mod n (possible only below p − n) *)
  Definition x_wrap (a b : Z) : Prop := xf a <> xf b /\ xf a mod n = xf b mod n.

  Lemma mod_range : forall a, 0 <= a mod n < n.
  Proof. intro a. apply Z.mod_pos_bound. lia. Qed.

  Lemma eqm_mod_eq : forall a b, a == b -> a mod n = b mod n.
  Proof. intros a b H; exact H. Qed.

  Lemma nz_of_range : forall a, 0 < a < n -> ~ a == 0.
  Proof. intros a Ha H. apply (proj1 (eqm_0_mod n n_prime a)) in H. rewrite Z.mod_small in H; lia. Qed.

  Lemma core_u : forall r s e d,
    addn (muln e (invn s)) (muln (muln r (invn s)) d) = uval r s e d.
  Proof.
    intros. unfold Ecdsa.addn, Ecdsa.muln, uval. apply eqm_mod_eq.
    rewrite !(mod_eqm n n_prime). apply eqm_ring. ring.
  Qed.

  Lemma verify_core_iff : forall r s e d,
    verify_core r s e d = true <->
    (0 < r < n /\ 0 < s < n /\ uval r s e d <> 0 /\ xc (uval r s e d) = r).
  Proof.
    intros. unfold Ecdsa.verify_core. rewrite core_u.
    destruct ((r <=? 0) || (s <=? 0) || (n <=? r) || (n <=? s)) eqn:Hg.
    - split; [discriminate|]. intros (Hr & Hs & _). lia.
    - destruct (uval r s e d =? 0) eqn:Hu.
      + split; [discriminate|]. intros (_ & _ & Hu' & _). lia.
      + split.
        * intro H. apply Z.eqb_eq in H. repeat split; lia.
        * intros (_ & _ & _ & H). apply Z.eqb_eq. exact H.
  Qed.

  Lemma u_spec : forall r s e d, 0 < s < n -> s * uval r s e d == e + r * d.
  Proof.
    intros r s e d Hs. unfold uval. rewrite (mod_eqm n n_prime).
    transitivity ((s * invn s) * (e + r * d)); [apply eqm_ring; ring|].
    rewrite (inv_eqm n n_prime s (nz_of_range s Hs)). apply eqm_ring. ring.
  Qed.

  Lemma u_unique : forall r s e d x,
    0 < s < n -> 0 <= x < n -> s * x == e + r * d -> x = uval r s e d.
  Proof.
    intros r s e d x Hs Hx H.
    apply (eqm_small n); [exact Hx|apply mod_range|].
    apply (eqm_mul_cancel_l n n_prime s); [apply nz_of_range; exact Hs|].
    rewrite H. symmetry. apply u_spec. exact Hs.
  Qed.

  Lemma uval_range : forall r s e d, 0 <= uval r s e d < n.
  Proof. intros. apply mod_range. Qed.

  (* ---- recovery ------------------------------------------------------------------------ *)
  Lemma recover_unfold : forall r s v e,
    recover r s v e =
    match lift (rxv r v) (Z.testbit v 0) with
    | None => None
    | Some kR =>
        if r =? 0 then None
        else let q := muln (addn (muln kR s) (negn e)) (invn r) in
             if q =? 0 then None else Some q
    end.
  Proof. reflexivity. Qed.

  Lemma recover_key_iff : forall r s v e d,
    0 < r < n -> 0 < d < n ->
    (recover r s v e = Some d <->
     exists kR, lift (rxv r v) (Z.testbit v 0) = Some kR /\ kR * s == e + r * d).
  Proof.
    intros r s v e d Hr Hd. rewrite recover_unfold.
    destruct (lift (rxv r v) (Z.testbit v 0)) as [kR|] eqn:Hl.
    2:{ split; [discriminate|]. intros (k & Hk & _). discriminate. }
    assert (Hr0 : (r =? 0) = false) by lia. rewrite Hr0. cbv zeta.
    set (q := muln (addn (muln kR s) (negn e)) (invn r)).
    assert (Hq : r * q == kR * s - e).
    { unfold q, Ecdsa.muln, Ecdsa.addn, Ecdsa.negn. rewrite !(mod_eqm n n_prime).
      transitivity ((r * invn r) * (kR * s - e)); [apply eqm_ring; ring|].
      rewrite (inv_eqm n n_prime r (nz_of_range r Hr)). apply eqm_ring. ring. }
    assert (Hqr : 0 <= q < n) by (apply mod_range).
    split.
    - destruct (q =? 0) eqn:Hq0; [discriminate|]. intro H. inversion H. subst d.
      exists kR. split; [reflexivity|].
      transitivity ((kR * s - e) + e); [apply eqm_ring; ring|].
      rewrite <- Hq. apply eqm_ring. ring.
    - intros (k & Hk & He). inversion Hk. subst k.
      assert (q = d).
      { apply (eqm_small n); [exact Hqr|lia|].
        apply (eqm_mul_cancel_l n n_prime r); [apply nz_of_range; exact Hr|].
        rewrite Hq, He. apply eqm_ring. ring. }
      subst q. rewrite H. assert (Hd0 : (d =? 0) = false) by lia. rewrite Hd0. reflexivity.
  Qed.

  (* ---- the acceptance set --------------------------------------------------------------- *)
  Theorem ecdsa_accept_iff_nov : forall strict r s e d,
    ecdsa_verify strict (mk_sig r s None) d e = true <->
    ((strict = true -> is_normalized s = true) /\
     0 < r < n /\ 0 < s < n /\ uval r s e d <> 0 /\ xc (uval r s e d) = r).
  Proof.
    intros. unfold Ecdsa.ecdsa_verify. cbn [ss sr sv].
    rewrite <- verify_core_iff.
    destruct strict; cbn [andb].
    - destruct (is_normalized s); cbn [negb].
      + tauto.
      + split; [discriminate|]. intros [H _]. specialize (H eq_refl). discriminate.
    - split; [intro H; split; [discriminate|exact H]|tauto].
  Qed.

  Theorem ecdsa_accept_iff : forall strict r s v e d,
    0 < d < n ->
    (ecdsa_verify strict (mk_sig r s (Some v)) d e = true <->
     ((strict = true -> is_normalized s = true) /\
      0 < r < n /\ 0 < s < n /\ uval r s e d <> 0 /\ xc (uval r s e d) = r /\
      xf (uval r s e d) = rxv r v /\ yodd (uval r s e d) = Z.testbit v 0)).
  Proof.
    intros strict r s v e d Hd. unfold Ecdsa.ecdsa_verify. cbn [ss sr sv].
    assert (Hmain : (match recover r s v e with
                     | Some q => if q =? d then verify_core r s e d else false
                     | None => false end) = true <->
                    (0 < r < n /\ 0 < s < n /\ uval r s e d <> 0 /\ xc (uval r s e d) = r /\
                     xf (uval r s e d) = rxv r v /\ yodd (uval r s e d) = Z.testbit v 0)).
    { split.
      - destruct (recover r s v e) as [q|] eqn:Hrec; [|discriminate].
        destruct (q =? d) eqn:Hqd; [|discriminate]. apply Z.eqb_eq in Hqd. subst q.
        intro Hv. apply verify_core_iff in Hv. destruct Hv as (Hr & Hs & Hu & Hx).
        apply (recover_key_iff r s v e d Hr Hd) in Hrec. destruct Hrec as (kR & Hl & Hk).
        pose proof Hl as Hl'. apply lift_spec in Hl'. destruct Hl' as (HkR & Hxf & Hy).
        assert (kR = uval r s e d).
        { apply u_unique; [exact Hs|lia|]. rewrite <- Hk. apply eqm_ring. ring. }
        subst kR. repeat split; try lia; assumption.
      - intros (Hr & Hs & Hu & Hx & Hxf & Hy).
        assert (Hrec : recover r s v e = Some d).
        { apply (recover_key_iff r s v e d Hr Hd). exists (uval r s e d). split.
          - apply lift_spec. pose proof (uval_range r s e d). repeat split; try lia; assumption.
          - rewrite <- (u_spec r s e d Hs). apply eqm_ring. ring. }
        rewrite Hrec, Z.eqb_refl. apply verify_core_iff. repeat split; try lia; assumption. }
    destruct strict; cbn [andb].
    - destruct (is_normalized s); cbn [negb].
      + rewrite Hmain. tauto.
      + split; [discriminate|]. intros [H _]. specialize (H eq_refl). discriminate.
    - rewrite Hmain. split; [intro H; split; [discriminate|exact H]|tauto].
  Qed.

  (* ---- signing --------------------------------------------------------------------------- *)
  Lemma sign_rs_spec : forall d e k r s,
    0 < k < n -> sign_rs d e k = Some (r, s) ->
    r = xc k /\ 0 < r < n /\ 0 < s < n /\ s * k == e + r * d.
  Proof.
    intros d e k r s Hk H. unfold Ecdsa.sign_rs in H.
    destruct (xc k =? 0) eqn:Hr0; [discriminate|].
    destruct (muln (invn k) (addn e (muln (xc k) d)) =? 0) eqn:Hs0; [discriminate|].
    inversion H. subst r. clear H. rewrite H2.
    assert (Hrr : 0 <= xc k < n) by (unfold Ecdsa.xc; apply mod_range).
    assert (Hsr : 0 <= s < n) by (subst s; apply mod_range).
    repeat split; try lia.
    subst s. unfold Ecdsa.muln, Ecdsa.addn. rewrite !(mod_eqm n n_prime).
    transitivity ((k * invn k) * (e + xc k * d)); [apply eqm_ring; ring|].
    rewrite (inv_eqm n n_prime k (nz_of_range k Hk)). apply eqm_ring. ring.
  Qed.

  Lemma find_v_spec : forall cands r s e d v,
    find_v cands r s e d = Some v -> In v cands /\ recover r s v e = Some d.
  Proof.
    induction cands as [|c rest IH]; intros r s e d v H; cbn [Ecdsa.find_v] in H; [discriminate|].
    destruct (recover r s c e) as [q|] eqn:Hrec.
    - destruct (q =? d) eqn:Hq.
      + inversion H. subst c. apply Z.eqb_eq in Hq. subst q. split; [left; reflexivity|exact Hrec].
      + apply IH in H. destruct H; split; [right|]; assumption.
    - apply IH in H. destruct H; split; [right|]; assumption.
  Qed.

  Theorem ecdsa_sign_verify : forall d e k sg,
    0 < d < n -> 0 < k < n ->
    ecdsa_sign d e k = Some sg ->
    ecdsa_verify false sg d e = true /\
    exists v, sv sg = Some v /\ In v [0; 1; 2; 3] /\
              sr sg = xc k /\ uval (sr sg) (ss sg) e d = k /\
              xf k = rxv (sr sg) v /\ yodd k = Z.testbit v 0.
  Proof.
    intros d e k sg Hd Hk H. unfold Ecdsa.ecdsa_sign in H.
    destruct (sign_rs d e k) as [[r s]|] eqn:Hrs; [|discriminate].
    destruct (find_v [0; 1; 2; 3] r s e d) as [v|] eqn:Hfv; [|discriminate].
    inversion H. subst sg. clear H. cbn [sr ss sv].
    apply (sign_rs_spec d e k r s Hk) in Hrs. destruct Hrs as (Hr & Hrr & Hsr & Hsk).
    apply find_v_spec in Hfv. destruct Hfv as (Hin & Hrec).
    assert (Hu : uval r s e d = k) by (symmetry; apply u_unique; [exact Hsr|lia|exact Hsk]).
    apply (recover_key_iff r s v e d Hrr Hd) in Hrec. destruct Hrec as (kR & Hl & Hks).
    pose proof Hl as Hl'. apply lift_spec in Hl'. destruct Hl' as (HkR & Hxf & Hy).
    assert (kR = k).
    { rewrite <- Hu. apply u_unique; [exact Hsr|lia|]. rewrite <- Hks. apply eqm_ring. ring. }
    subst kR.
    split.
    - apply (ecdsa_accept_iff false r s v e d Hd). rewrite Hu.
      repeat split; try lia; try assumption; try discriminate; try (symmetry; exact Hr).
    - exists v. repeat split; assumption.
  Qed.

  (* signing cannot fail to find a recovery id when n < p < 2n (true of secp256k1, P-256) *)
  Theorem ecdsa_sign_total : forall d e k r s,
    n < p < 2 * n -> (forall a, 0 < a < n -> 0 <= xf a < p) ->
    0 < d < n -> 0 < k < n ->
    sign_rs d e k = Some (r, s) -> exists v, ecdsa_sign d e k = Some (mk_sig r s (Some v)).
  Proof.
    intros d e k r s Hp Hxr Hd Hk Hrs. unfold Ecdsa.ecdsa_sign. rewrite Hrs.
    pose proof (sign_rs_spec d e k r s Hk Hrs) as (Hr & Hrr & Hsr & Hsk).
    assert (Hgood : exists v, In v [0; 1; 2; 3] /\ recover r s v e = Some d).
    { pose proof (Hxr k Hk) as Hxk. unfold Ecdsa.xc in Hr.
      set (b := if yodd k then 1 else 0).
      assert (Hb0 : forall j, (j = 0 \/ j = 2) -> Z.testbit (b + j) 0 = yodd k).
      { intros j [Hj|Hj]; subst j b; destruct (yodd k); reflexivity. }
      assert (Hb1 : forall j, (j = 0 \/ j = 2) -> Z.testbit (b + j) 1 = (j =? 2)).
      { intros j [Hj|Hj]; subst j b; destruct (yodd k); reflexivity. }
      destruct (Z_lt_ge_dec (xf k) n) as [Hlt|Hge].
      - exists (b + 0). split; [subst b; destruct (yodd k); cbn; tauto|].
        apply (recover_key_iff r s (b + 0) e d Hrr Hd). exists k. split.
        + apply lift_spec. repeat split; try lia.
          * unfold rxv. rewrite (Hb1 0) by tauto. cbn [Z.eqb].
            rewrite Z.mod_small in Hr by lia. subst r. rewrite Z.mod_small; lia.
          * symmetry. apply Hb0. tauto.
        + rewrite <- Hsk. apply eqm_ring. ring.
      - exists (b + 2). split; [subst b; destruct (yodd k); cbn; tauto|].
        apply (recover_key_iff r s (b + 2) e d Hrr Hd). exists k. split.
        + apply lift_spec. repeat split; try lia.
          * unfold rxv. rewrite (Hb1 2) by tauto. cbn [Z.eqb Pos.eqb].
            assert (Hrk : r = xf k - n).
            { subst r. replace (xf k) with ((xf k - n) + 1 * n) by ring.
              rewrite Z_mod_plus_full. rewrite Z.mod_small; lia. }
            rewrite (Z.mod_small r p) by lia. rewrite (Z.mod_small n p) by lia.
            rewrite Z.mod_small; lia.
          * symmetry. apply Hb0. tauto.
        + rewrite <- Hsk. apply eqm_ring. ring. }
    destruct Hgood as (v & Hin & Hrec).
    assert (Hf : forall cands, In v cands -> exists v', find_v cands r s e d = Some v').
    { induction cands as [|c rest IH]; intro Hc; [destruct Hc|]. cbn [Ecdsa.find_v].
      destruct (recover r s c e) as [q|] eqn:Hq.
      - destruct (q =? d) eqn:Hqd; [eexists; reflexivity|].
        destruct Hc as [Hc|Hc]; [subst c; rewrite Hrec in Hq; inversion Hq; lia|apply IH; exact Hc].
      - destruct Hc as [Hc|Hc]; [subst c; rewrite Hrec in Hq; discriminate|apply IH; exact Hc]. }
    destruct (Hf [0; 1; 2; 3] Hin) as (v' & Hv'). rewrite Hv'. exists v'. reflexivity.
  Qed.

  (* ---- the equivalent form (r, n−s, v xor 1) ----------------------------------------------- *)
  Lemma negn_range : forall s, 0 < s < n -> negn s = n - s.
  Proof. intros s Hs. unfold Ecdsa.negn. apply (eqm_opp_small n); assumption. Qed.

  Lemma uval_neg : forall r s e d,
    0 < s < n -> uval r s e d <> 0 -> uval r (negn s) e d = n - uval r s e d.
  Proof.
    intros r s e d Hs Hu. rewrite (negn_range s Hs). symmetry.
    pose proof (uval_range r s e d) as Hur.
    apply u_unique; [lia|lia|].
    transitivity (s * uval r s e d); [|apply u_spec; exact Hs].
    apply (eqm_diff n _ _ (n - uval r s e d - s)). ring.
  Qed.

  Lemma xf_neg : forall a, 0 < a < n -> xf (n - a) = xf a.
  Proof. intros a Ha. apply xf_inj; [lia|lia|]. right. lia. Qed.

  Lemma testbit_lxor1_0 : forall v, Z.testbit (Z.lxor v 1) 0 = negb (Z.testbit v 0).
  Proof. intro v. rewrite Z.lxor_spec. change (Z.testbit 1 0) with true. apply xorb_true_r. Qed.

  Lemma testbit_lxor1_1 : forall v, Z.testbit (Z.lxor v 1) 1 = Z.testbit v 1.
  Proof. intro v. rewrite Z.lxor_spec. change (Z.testbit 1 1) with false. apply xorb_false_r. Qed.

  Lemma rxv_lxor1 : forall r v, rxv r (Z.lxor v 1) = rxv r v.
  Proof. intros. unfold rxv. rewrite testbit_lxor1_1. reflexivity. Qed.

  (* the default verifier accepts the flipped form of every signature it accepts *)
  Theorem flip_accepted_by_default : forall sg d e,
    0 < d < n ->
    ecdsa_verify false sg d e = true -> ecdsa_verify false (flip sg) d e = true.
  Proof.
    intros [r s [v|]] d e Hd H; unfold Ecdsa.flip; cbn [sr ss sv].
    - apply (ecdsa_accept_iff false r s v e d Hd) in H.
      destruct H as (_ & Hr & Hs & Hu & Hx & Hxf & Hy).
      pose proof (uval_range r s e d) as Hur.
      apply (ecdsa_accept_iff false r (negn s) (Z.lxor v 1) e d Hd).
      rewrite (uval_neg r s e d Hs Hu). rewrite rxv_lxor1, testbit_lxor1_0.
      assert (Hun : 0 < uval r s e d < n) by lia.
      repeat split; try discriminate; try lia.
      + rewrite (negn_range s Hs). lia.
      + rewrite (negn_range s Hs). lia.
      + unfold Ecdsa.xc. rewrite (xf_neg _ Hun). exact Hx.
      + rewrite (xf_neg _ Hun). exact Hxf.
      + rewrite (yodd_neg _ Hun). rewrite Hy. reflexivity.
    - apply (ecdsa_accept_iff_nov false r s e d) in H.
      destruct H as (_ & Hr & Hs & Hu & Hx).
      pose proof (uval_range r s e d) as Hur.
      apply (ecdsa_accept_iff_nov false r (negn s) e d).
      rewrite (uval_neg r s e d Hs Hu).
      assert (Hun : 0 < uval r s e d < n) by lia.
      repeat split; try discriminate; try lia.
      + rewrite (negn_range s Hs). lia.
      + rewrite (negn_range s Hs). lia.
      + unfold Ecdsa.xc. rewrite (xf_neg _ Hun). exact Hx.
  Qed.

  (* exactly one of s, n−s is in the lower half (n is odd) *)
  Lemma normalized_flip : forall s, 2 < n -> 0 < s < n -> is_normalized (negn s) = negb (is_normalized s).
  Proof.
    intros s Hn2 Hs. unfold Ecdsa.is_normalized. rewrite (negn_range s Hs).
    rewrite (negn_range (n - s)) by lia.
    assert (Hodd : n <> 2 * s).
    { intro H2. pose proof n_prime as [_ Hrp].
      assert (Hs1 : 1 <= 2 < n) by lia.
      specialize (Hrp 2 Hs1). apply Zgcd_1_rel_prime in Hrp.
      rewrite H2 in Hrp. rewrite Z.gcd_mul_diag_l in Hrp; lia. }
    lia.
  Qed.

  (* the strict verifier rejects every signature whose s is in the upper half *)
  Theorem strict_rejects_high : forall r s v d e,
    is_normalized s = false -> ecdsa_verify true (mk_sig r s v) d e = false.
  Proof.
    intros r s v d e H. unfold Ecdsa.ecdsa_verify. cbn [ss]. rewrite H. reflexivity.
  Qed.

  Theorem strict_accepts_low : forall r s v d e,
    is_normalized s = true ->
    ecdsa_verify true (mk_sig r s v) d e = ecdsa_verify false (mk_sig r s v) d e.
  Proof.
    intros r s v d e H. unfold Ecdsa.ecdsa_verify. cbn [ss]. rewrite H. reflexivity.
  Qed.

  (* of a valid signature and its flipped form, the strict verifier accepts exactly one *)
  Theorem strict_accepts_exactly_one : forall sg d e,
    2 < n -> 0 < d < n ->
    ecdsa_verify false sg d e = true ->
    ecdsa_verify true sg d e = negb (ecdsa_verify true (flip sg) d e).
  Proof.
    intros [r s v] d e Hn2 Hd H.
    pose proof (flip_accepted_by_default _ d e Hd H) as Hf.
    assert (Hs : 0 < s < n).
    { destruct v as [v|].
      - apply (ecdsa_accept_iff false r s v e d Hd) in H. tauto.
      - apply (ecdsa_accept_iff_nov false r s e d) in H. tauto. }
    unfold Ecdsa.flip in *. cbn [sr ss sv] in *.
    pose proof (normalized_flip s Hn2 Hs) as Hnf.
    destruct (is_normalized s) eqn:Hns; cbn [negb] in Hnf.
    - rewrite (strict_accepts_low r s v d e Hns), H.
      rewrite (strict_rejects_high r (negn s) _ d e Hnf). reflexivity.
    - rewrite (strict_rejects_high r s v d e Hns).
      rewrite (strict_accepts_low r (negn s) _ d e Hnf), Hf. reflexivity.
  Qed.

  Theorem normalise_preserves : forall sg d e,
    2 < n -> 0 < d < n ->
    ecdsa_verify false sg d e = true ->
    ecdsa_verify true (normalise sg) d e = true /\ is_normalized (ss (normalise sg)) = true.
  Proof.
    intros [r s v] d e Hn2 Hd H. unfold Ecdsa.normalise. cbn [ss sr sv].
    destruct (is_normalized s) eqn:Hns.
    - cbn [ss]. split; [|exact Hns]. rewrite (strict_accepts_low r s v d e Hns). exact H.
    - assert (Hs : 0 < s < n).
      { destruct v as [v|].
        - apply (ecdsa_accept_iff false r s v e d Hd) in H. tauto.
        - apply (ecdsa_accept_iff_nov false r s e d) in H. tauto. }
      pose proof (normalized_flip s Hn2 Hs) as Hnf. rewrite Hns in Hnf. cbn [negb] in Hnf.
      cbn [ss]. split; [|exact Hnf].
      rewrite (strict_accepts_low r (negn s) _ d e Hnf).
      exact (flip_accepted_by_default (mk_sig r s v) d e Hd H).
  Qed.

  (* public-key recovery returns the key under which the signature verifies *)
  Theorem recover_returns_key : forall r s v d e,
    ecdsa_verify false (mk_sig r s (Some v)) d e = true -> recover r s v e = Some d.
  Proof.
    intros r s v d e H. unfold Ecdsa.ecdsa_verify in H. cbn [ss sr sv andb] in H.
    destruct (recover r s v e) as [q|]; [|discriminate].
    destruct (q =? d) eqn:Hq; [|discriminate]. apply Z.eqb_eq in Hq. subst q. reflexivity.
  Qed.

  Theorem sign_recover_returns_key : forall d e k sg,
    0 < d < n -> 0 < k < n -> ecdsa_sign d e k = Some sg ->
    exists v, sv sg = Some v /\ recover (sr sg) (ss sg) v e = Some d.
  Proof.
    intros d e k [r s v] Hd Hk H.
    pose proof (ecdsa_sign_verify d e k _ Hd Hk H) as (Hv & v' & Hsv & _).
    cbn [sv sr ss] in *. subst v. exists v'. split; [reflexivity|].
    apply recover_returns_key. exact Hv.
  Qed.

  (* ---- single-component alterations ------------------------------------------------------------ *)
  (* two accepted scalars with the same r: equal, opposite, or an x-coordinate wrap *)
  Lemma same_r_cases : forall u u' r,
    0 < u < n -> 0 < u' < n -> xc u = r -> xc u' = r -> u = u' \/ u = n - u' \/ x_wrap u u'.
  Proof.
    intros u u' r Hu Hu' H H'. unfold Ecdsa.xc in *.
    destruct (Z.eq_dec (xf u) (xf u')) as [He|Hne].
    - apply xf_inj in He; [|assumption|assumption]. tauto.
    - right. right. split; [exact Hne|]. congruence.
  Qed.

  Theorem digest_changed : forall r s e e' d,
    verify_core r s e d = true -> verify_core r s e' d = true ->
    e == e' \/ e' == - e - 2 * r * d \/ x_wrap (uval r s e d) (uval r s e' d).
  Proof.
    intros r s e e' d H H'. apply verify_core_iff in H, H'.
    destruct H as (Hr & Hs & Hu & Hx). destruct H' as (_ & _ & Hu' & Hx').
    pose proof (uval_range r s e d). pose proof (uval_range r s e' d).
    destruct (same_r_cases (uval r s e d) (uval r s e' d) r ltac:(lia) ltac:(lia) Hx Hx') as [He|[He|He]].
    - left. pose proof (u_spec r s e d Hs) as A. pose proof (u_spec r s e' d Hs) as B.
      rewrite He in A. rewrite B in A.
      transitivity ((e + r * d) - r * d); [apply eqm_ring; ring|].
      rewrite <- A. apply eqm_ring. ring.
    - right. left. pose proof (u_spec r s e d Hs) as A. pose proof (u_spec r s e' d Hs) as B.
      rewrite He in A.
      transitivity ((e' + r * d) - r * d); [apply eqm_ring; ring|].
      rewrite <- B.
      transitivity (- (s * (n - uval r s e' d)) - r * d).
      + apply (eqm_diff n _ _ s). ring.
      + rewrite A. apply eqm_ring. ring.
    - right. right. exact He.
  Qed.

  Theorem s_changed : forall r s s' e d,
    verify_core r s e d = true -> verify_core r s' e d = true ->
    s = s' \/ s' = n - s \/ x_wrap (uval r s e d) (uval r s' e d).
  Proof.
    intros r s s' e d H H'. apply verify_core_iff in H, H'.
    destruct H as (Hr & Hs & Hu & Hx). destruct H' as (_ & Hs' & Hu' & Hx').
    pose proof (uval_range r s e d). pose proof (uval_range r s' e d).
    assert (Hunz : ~ uval r s e d == 0) by (apply nz_of_range; lia).
    destruct (same_r_cases (uval r s e d) (uval r s' e d) r ltac:(lia) ltac:(lia) Hx Hx') as [He|[He|He]].
    - left. apply (eqm_small n); [lia|lia|].
      apply (eqm_mul_cancel_l n n_prime (uval r s e d)); [exact Hunz|].
      rewrite (Z.mul_comm _ s), (u_spec r s e d Hs). rewrite He at 1.
      rewrite (Z.mul_comm _ s'), (u_spec r s' e d Hs'). reflexivity.
    - right. left. apply (eqm_small n); [lia|lia|].
      apply (eqm_mul_cancel_l n n_prime (uval r s e d)); [exact Hunz|].
      transitivity (- (e + r * d)).
      + transitivity (- (s' * uval r s' e d)).
        * rewrite He. apply (eqm_diff n _ _ s'). ring.
        * rewrite (u_spec r s' e d Hs'). reflexivity.
      + symmetry. transitivity (- (s * uval r s e d)).
        * apply (eqm_diff n _ _ (uval r s e d)). ring.
        * rewrite (u_spec r s e d Hs). reflexivity.
    - right. right. exact He.
  Qed.

  Theorem key_changed : forall r s e d d',
    verify_core r s e d = true -> verify_core r s e d' = true ->
    d == d' \/ r * (d + d') == - 2 * e \/ x_wrap (uval r s e d) (uval r s e d').
  Proof.
    intros r s e d d' H H'. apply verify_core_iff in H, H'.
    destruct H as (Hr & Hs & Hu & Hx). destruct H' as (_ & _ & Hu' & Hx').
    pose proof (uval_range r s e d). pose proof (uval_range r s e d').
    destruct (same_r_cases (uval r s e d) (uval r s e d') r ltac:(lia) ltac:(lia) Hx Hx') as [He|[He|He]].
    - left. pose proof (u_spec r s e d Hs) as A. pose proof (u_spec r s e d' Hs) as B.
      rewrite He in A. rewrite B in A.
      apply (eqm_mul_cancel_l n n_prime r); [apply nz_of_range; exact Hr|].
      transitivity ((e + r * d) - e); [apply eqm_ring; ring|].
      rewrite <- A. apply eqm_ring. ring.
    - right. left. pose proof (u_spec r s e d Hs) as A. pose proof (u_spec r s e d' Hs) as B.
      rewrite He in A.
      transitivity ((e + r * d) + (e + r * d') - 2 * e); [apply eqm_ring; ring|].
      rewrite <- A, <- B.
      apply (eqm_diff n _ _ s). ring.
    - right. right. exact He.
  Qed.

  (* with a recovery id present, a changed id is rejected (ids are in 0..3 by construction) *)
  Theorem v_changed : forall r s v v' e d,
    n < p -> 0 < d < n -> 0 <= v <= 3 -> 0 <= v' <= 3 ->
    ecdsa_verify false (mk_sig r s (Some v)) d e = true ->
    ecdsa_verify false (mk_sig r s (Some v')) d e = true -> v = v'.
  Proof.
    intros r s v v' e d Hp Hd Hv Hv' H H'.
    apply (ecdsa_accept_iff false r s v e d Hd) in H.
    apply (ecdsa_accept_iff false r s v' e d Hd) in H'.
    destruct H as (_ & Hr & _ & _ & _ & Hxf & Hy). destruct H' as (_ & _ & _ & _ & _ & Hxf' & Hy').
    rewrite Hxf in Hxf'. rewrite Hy in Hy'.
    assert (Hb1 : Z.testbit v 1 = Z.testbit v' 1).
    { unfold rxv in Hxf'.
      assert (Hne : (r mod p + n mod p) mod p <> r mod p).
      { rewrite (Z.mod_small n p) by lia. rewrite (Z.mod_small r p) by lia.
        intro Heq. destruct (Z_lt_ge_dec (r + n) p) as [Hl|Hg].
        - rewrite Z.mod_small in Heq; lia.
        - replace (r + n) with ((r + n - p) + 1 * p) in Heq by ring.
          rewrite Z_mod_plus_full in Heq. rewrite Z.mod_small in Heq; lia. }
      destruct (Z.testbit v 1), (Z.testbit v' 1); congruence. }
    assert (Hcases : forall w, 0 <= w <= 3 -> w = (if Z.testbit w 0 then 1 else 0) + (if Z.testbit w 1 then 2 else 0)).
    { intros w Hw. assert (Hw' : w = 0 \/ w = 1 \/ w = 2 \/ w = 3) by lia.
      destruct Hw' as [Hw'|[Hw'|[Hw'|Hw']]]; subst w; reflexivity. }
    rewrite (Hcases v Hv), (Hcases v' Hv'). rewrite Hb1, Hy'. reflexivity.
  Qed.
End EcdsaProofs.

(* ---- a concrete instance of the section hypotheses: y^2 = x^3 + 7 over F_13, a group of prime
        order 7 generated by G = (7,5); k·G = (7,5) (8,5) (11,8) (11,5) (8,8) (7,8) for k = 1..6 ------- *)
Definition toy_xf (k : Z) : Z :=
  match k with 1 => 7 | 2 => 8 | 3 => 11 | 4 => 11 | 5 => 8 | 6 => 7 | _ => 0 end.
Definition toy_yodd (k : Z) : bool :=
  match k with 1 => true | 2 => true | 4 => true | _ => false end.
Definition toy_lift (x : Z) (b : bool) : option Z :=
  find (fun k => (toy_xf k =? x) && Bool.eqb (toy_yodd k) b) [1; 2; 3; 4; 5; 6].

Lemma prime_7 : prime 7.
Proof.
  apply prime_intro; [lia|]. intros m Hm.
  assert (Hc : m = 1 \/ m = 2 \/ m = 3 \/ m = 4 \/ m = 5 \/ m = 6) by lia.
  destruct Hc as [H|[H|[H|[H|[H|H]]]]]; subst m; apply Zgcd_1_rel_prime; reflexivity.
Qed.

Lemma toy_cases : forall a, 0 < a < 7 -> a = 1 \/ a = 2 \/ a = 3 \/ a = 4 \/ a = 5 \/ a = 6.
Proof. intros; lia. Qed.

Lemma toy_instance :
  prime 7 /\ 7 < 13 < 2 * 7 /\
  (forall a b, 0 < a < 7 -> 0 < b < 7 -> (toy_xf a = toy_xf b <-> a = b \/ a = 7 - b)) /\
  (forall a, 0 < a < 7 -> toy_yodd (7 - a) = negb (toy_yodd a)) /\
  (forall x b k, toy_lift x b = Some k <-> (0 < k < 7 /\ toy_xf k = x /\ toy_yodd k = b)) /\
  (forall a, 0 < a < 7 -> 0 <= toy_xf a < 13) /\
  ecdsa_sign 7 13 toy_xf toy_lift 3 2 2 = Some (mk_sig 1 6 (Some 3)) /\
  ecdsa_verify 7 13 toy_xf toy_lift true (mk_sig 1 1 (Some 2)) 3 2 = true.
Proof.
  split; [exact prime_7|]. split; [lia|]. split; [|split; [|split; [|split]]].
  - intros a b Ha Hb. apply toy_cases in Ha, Hb.
    destruct Ha as [H|[H|[H|[H|[H|H]]]]]; destruct Hb as [H'|[H'|[H'|[H'|[H'|H']]]]]; subst a b;
      cbn [toy_xf]; split; intro; try lia; try discriminate.
  - intros a Ha. apply toy_cases in Ha.
    destruct Ha as [H|[H|[H|[H|[H|H]]]]]; subst a; reflexivity.
  - intros x b k. split.
    + intro H. unfold toy_lift in H. apply find_some in H. destruct H as [Hin Hp].
      apply andb_true_iff in Hp. destruct Hp as [Hx Hy]. apply Z.eqb_eq in Hx. apply Bool.eqb_prop in Hy.
      cbn [In] in Hin. repeat split; try assumption; lia.
    + intros (Hk & Hx & Hy). apply toy_cases in Hk.
      destruct Hk as [H|[H|[H|[H|[H|H]]]]]; subst k x b; reflexivity.
  - intros a Ha. apply toy_cases in Ha.
    destruct Ha as [H|[H|[H|[H|[H|H]]]]]; subst a; cbn [toy_xf]; lia.
  - split; vm_compute; reflexivity.
Qed.
