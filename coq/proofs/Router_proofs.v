(* Router_proofs.v — lemmas about the router transition system (model/Router.v).

   Everything is proved for ALL finite event sequences from [init q] (predicate
   [reach]: histories are kept newest-first), i.e. for every interleaving of the
   router's atomic steps, any number of correlation ids, namespaces and parties.

   Specification (ghost) functions over the history:
     pending_r tr c f   the first payload filed from sender f under the full id c
                        since the last consumption of (c, f)
     blame_r tr c       the sender of the latest conflicting retransmission under c
     entered_r tr c     the sender list of the receive currently attached to c
   The invariant ties the mailboxes of the state to these functions. *)
From Coq Require Import List NArith ZArith Bool Lia.
From Coq Require Import ZifyN ZifyNat ZifyBool.
Import ListNotations.
Require Import V.base.Bytes V.gen.RouterConsts V.model.Router.

(* ---- equality tests ------------------------------------------------------------------ *)

Lemma beqb_eq a b : beqb a b = true <-> a = b.
Proof.
  revert b; induction a as [|x a IH]; intros [|y b]; cbn [beqb]; split; intros H;
    try reflexivity; try discriminate.
  - apply andb_true_iff in H as [H1 H2]. apply N.eqb_eq in H1. apply IH in H2. congruence.
  - injection H as -> ->. apply andb_true_iff; split; [apply N.eqb_refl|apply IH; reflexivity].
Qed.

Lemma beqb_refl a : beqb a a = true.
Proof. apply beqb_eq; reflexivity. Qed.

Lemma beqb_neq a b : beqb a b = false <-> a <> b.
Proof.
  split; intros H.
  - intros ->. rewrite beqb_refl in H. discriminate.
  - destruct (beqb a b) eqn:E; [|reflexivity]. apply beqb_eq in E. contradiction.
Qed.

Lemma beqb_sym a b : beqb a b = beqb b a.
Proof.
  destruct (beqb a b) eqn:E.
  - apply beqb_eq in E. subst. symmetry. apply beqb_refl.
  - symmetry. apply beqb_neq. apply beqb_neq in E. congruence.
Qed.

Lemma mem_In x l : mem x l = true <-> In x l.
Proof.
  unfold mem. rewrite existsb_exists. split.
  - intros [y [Hy E]]. apply N.eqb_eq in E. subst. exact Hy.
  - intros H. exists x. split; [exact H|apply N.eqb_refl].
Qed.

Lemma mem_false x l : mem x l = false <-> ~ In x l.
Proof.
  split; intros H.
  - intros Hin. apply mem_In in Hin. congruence.
  - destruct (mem x l) eqn:E; [|reflexivity]. apply mem_In in E. contradiction.
Qed.

Lemma dedup_In x l : In x (dedup l) <-> In x l.
Proof.
  induction l as [|y l IH]; cbn [dedup]; [tauto|].
  destruct (mem y l) eqn:E.
  - rewrite IH. cbn. split; [tauto|]. intros [->|H]; [apply mem_In; exact E|exact H].
  - cbn. rewrite IH. tauto.
Qed.

Lemma dedup_NoDup l : NoDup (dedup l).
Proof.
  induction l as [|y l IH]; cbn [dedup]; [constructor|].
  destruct (mem y l) eqn:E; [exact IH|].
  constructor; [|exact IH]. rewrite dedup_In. apply mem_false. exact E.
Qed.

Lemma NoDup_app_snoc {A} (l : list A) x : NoDup l -> ~ In x l -> NoDup (l ++ [x]).
Proof.
  induction l as [|y l IH]; cbn [app]; intros Hnd Hn.
  - constructor; [intros []|constructor].
  - inversion Hnd as [|? ? H1 H2]; subst. constructor.
    + rewrite in_app_iff. cbn. intros [H|[H|[]]]; [contradiction|]. subst. apply Hn. left. reflexivity.
    + apply IH; [exact H2|]. intros H. apply Hn. right. exact H.
Qed.

(* ---- association lists ----------------------------------------------------------------- *)

Section AssocFacts.
  Context {K V : Type} (eqb : K -> K -> bool).
  Hypothesis eqb_eq : forall a b, eqb a b = true <-> a = b.

  Lemma eqb_refl' a : eqb a a = true.
  Proof. apply eqb_eq; reflexivity. Qed.

  Lemma eqb_false a b : eqb a b = false <-> a <> b.
  Proof.
    split; intros H.
    - intros ->. rewrite eqb_refl' in H. discriminate.
    - destruct (eqb a b) eqn:E; [|reflexivity]. apply eqb_eq in E. contradiction.
  Qed.

  Lemma alookup_aset_eq k (v : V) l : alookup eqb k (aset eqb k v l) = Some v.
  Proof.
    induction l as [|[k' v'] l IH]; cbn [aset alookup].
    - rewrite eqb_refl'. reflexivity.
    - destruct (eqb k k') eqn:E; cbn [alookup]; [rewrite eqb_refl'|rewrite E]; auto.
  Qed.

  Lemma alookup_aset_ne k k' (v : V) l : k' <> k -> alookup eqb k' (aset eqb k v l) = alookup eqb k' l.
  Proof.
    intros Hne. induction l as [|[k0 v0] l IH]; cbn [aset alookup].
    - apply eqb_false in Hne. rewrite Hne. reflexivity.
    - destruct (eqb k k0) eqn:E; cbn [alookup].
      + apply eqb_eq in E. subst k0. apply eqb_false in Hne. rewrite Hne. reflexivity.
      + destruct (eqb k' k0); auto.
  Qed.

  Lemma alookup_adel_eq k (l : list (K * V)) : alookup eqb k (adel eqb k l) = None.
  Proof.
    induction l as [|[k0 v0] l IH]; cbn [adel alookup]; [reflexivity|].
    destruct (eqb k k0) eqn:E; cbn [alookup]; [exact IH|rewrite E; exact IH].
  Qed.

  Lemma alookup_adel_ne k k' (l : list (K * V)) : k' <> k -> alookup eqb k' (adel eqb k l) = alookup eqb k' l.
  Proof.
    intros Hne. induction l as [|[k0 v0] l IH]; cbn [adel alookup]; [reflexivity|].
    destruct (eqb k k0) eqn:E; cbn [alookup].
    - apply eqb_eq in E. subst k0. apply eqb_false in Hne. rewrite Hne. exact IH.
    - destruct (eqb k' k0); auto.
  Qed.

  Lemma alookup_None k (l : list (K * V)) : alookup eqb k l = None <-> ~ In k (map fst l).
  Proof.
    induction l as [|[k0 v0] l IH]; cbn [alookup map fst In]; [tauto|].
    destruct (eqb k k0) eqn:E.
    - apply eqb_eq in E. subst. split; [discriminate|]. intros H. exfalso. apply H. left. reflexivity.
    - apply eqb_false in E. rewrite IH. split; [intros H [H1|H1]; [congruence|tauto]|tauto].
  Qed.

  Lemma alookup_Some_In k v (l : list (K * V)) : alookup eqb k l = Some v -> In (k, v) l.
  Proof.
    induction l as [|[k0 v0] l IH]; cbn [alookup In]; [discriminate|].
    destruct (eqb k k0) eqn:E.
    - apply eqb_eq in E. subst. intros H. injection H as ->. left. reflexivity.
    - intros H. right. apply IH. exact H.
  Qed.

  Lemma keys_aset_present k (v : V) l : alookup eqb k l <> None -> map fst (aset eqb k v l) = map fst l.
  Proof.
    induction l as [|[k0 v0] l IH]; cbn [aset alookup map fst]; [congruence|].
    destruct (eqb k k0) eqn:E; cbn [map fst].
    - apply eqb_eq in E. subst. reflexivity.
    - intros H. rewrite IH; auto.
  Qed.

  Lemma keys_aset_absent k (v : V) l : alookup eqb k l = None -> map fst (aset eqb k v l) = map fst l ++ [k].
  Proof.
    induction l as [|[k0 v0] l IH]; cbn [aset alookup map fst app]; [reflexivity|].
    destruct (eqb k k0) eqn:E; [discriminate|]. cbn [map fst]. intros H. rewrite IH; auto.
  Qed.

  Lemma NoDup_keys_aset k (v : V) l : NoDup (map fst l) -> NoDup (map fst (aset eqb k v l)).
  Proof.
    intros H. destruct (alookup eqb k l) eqn:E.
    - rewrite keys_aset_present; [exact H|congruence].
    - rewrite keys_aset_absent by exact E.
      apply NoDup_app_snoc; [exact H|]. apply alookup_None. exact E.
  Qed.

  Lemma keys_adel_incl k (l : list (K * V)) x : In x (map fst (adel eqb k l)) -> In x (map fst l).
  Proof.
    induction l as [|[k0 v0] l IH]; cbn [adel map fst In]; [tauto|].
    destruct (eqb k k0); cbn [map fst In]; tauto.
  Qed.

  Lemma NoDup_keys_adel k (l : list (K * V)) : NoDup (map fst l) -> NoDup (map fst (adel eqb k l)).
  Proof.
    induction l as [|[k0 v0] l IH]; cbn [adel map fst]; [auto|].
    intros H. inversion H as [|? ? Hn Hd]; subst.
    destruct (eqb k k0); [auto|]. cbn [map fst]. constructor; [|auto].
    intros Hin. apply Hn. eapply keys_adel_incl. exact Hin.
  Qed.

  Lemma length_aset_absent k (v : V) l : alookup eqb k l = None -> length (aset eqb k v l) = S (length l).
  Proof.
    induction l as [|[k0 v0] l IH]; cbn [aset alookup length]; [reflexivity|].
    destruct (eqb k k0); [discriminate|]. cbn [length]. intros H. rewrite IH; auto.
  Qed.

  Lemma adel_absent k (l : list (K * V)) : alookup eqb k l = None -> adel eqb k l = l.
  Proof.
    induction l as [|[k0 v0] l IH]; cbn [adel alookup]; [reflexivity|].
    destruct (eqb k k0); [discriminate|]. intros H. rewrite IH; auto.
  Qed.

  Lemma length_adel_present k v0 (l : list (K * V)) :
    NoDup (map fst l) -> alookup eqb k l = Some v0 -> S (length (adel eqb k l)) = length l.
  Proof.
    induction l as [|[k1 v1] l IH]; cbn [adel alookup length map fst]; [discriminate|].
    intros Hnd H. inversion Hnd as [|? ? Hn Hd]; subst.
    destruct (eqb k k1) eqn:E.
    - apply eqb_eq in E. subst k1. rewrite adel_absent; [reflexivity|]. apply alookup_None. exact Hn.
    - cbn [length]. rewrite IH; auto.
  Qed.
End AssocFacts.

Notation nlookup := (alookup N.eqb).
Definition Neqb_eq := N.eqb_eq.

(* ---- the mailbox of an id, whether or not it is present in the map ------------------------- *)

Definition view (s : state) (c : cid) : mailbox := box_for s c.

Lemma view_find_some s c b : find_box s c = Some b -> view s c = b.
Proof. unfold view, box_for. intros ->. reflexivity. Qed.

Lemma view_find_none s c : find_box s c = None -> view s c = empty_box.
Proof. unfold view, box_for. intros ->. reflexivity. Qed.

Lemma view_set_box s c b c' : view (set_box s c b) c' = if beqb c' c then b else view s c'.
Proof.
  unfold view, box_for, find_box, set_box; cbn [boxes].
  destruct (beqb c' c) eqn:E.
  - apply beqb_eq in E. subst. rewrite (alookup_aset_eq beqb beqb_eq). reflexivity.
  - apply beqb_neq in E. rewrite (alookup_aset_ne beqb beqb_eq) by exact E. reflexivity.
Qed.

Lemma view_del_box s c c' : view (del_box s c) c' = if beqb c' c then empty_box else view s c'.
Proof.
  unfold view, box_for, find_box, del_box; cbn [boxes].
  destruct (beqb c' c) eqn:E.
  - apply beqb_eq in E. subst. rewrite (alookup_adel_eq beqb). reflexivity.
  - apply beqb_neq in E. rewrite (alookup_adel_ne beqb beqb_eq) by exact E. reflexivity.
Qed.

Lemma view_set_buffered s z c : view (set_buffered s z) c = view s c.
Proof. reflexivity. Qed.
Lemma view_fail_locked s k c : view (fail_locked s k) c = view s c.
Proof. reflexivity. Qed.
Lemma view_set_reader s r c : view (set_reader s r) c = view s c.
Proof. reflexivity. Qed.
Lemma view_init q c : view (init q) c = empty_box.
Proof. reflexivity. Qed.

Lemma payloads_signal b : mb_payloads (signal b) = mb_payloads b.
Proof. reflexivity. Qed.
Lemma poison_signal b : mb_poison (signal b) = mb_poison b.
Proof. reflexivity. Qed.

(* ---- collect / remove_all ------------------------------------------------------------------- *)

Lemma collect_keys froms pl res : collect froms pl = Some res -> map fst res = froms.
Proof.
  revert res; induction froms as [|f r IH]; cbn [collect]; intros res H.
  - injection H as <-. reflexivity.
  - destruct (nlookup f pl); [|discriminate]. destruct (collect r pl) eqn:E; [|discriminate].
    injection H as <-. cbn [map fst]. rewrite (IH l); reflexivity.
Qed.

Lemma collect_In froms pl res f p : collect froms pl = Some res -> In (f, p) res -> nlookup f pl = Some p /\ In f froms.
Proof.
  revert res; induction froms as [|g r IH]; cbn [collect]; intros res H Hin.
  - injection H as <-. destruct Hin.
  - destruct (nlookup g pl) eqn:Eg; [|discriminate]. destruct (collect r pl) eqn:E; [|discriminate].
    injection H as <-. destruct Hin as [Hin|Hin].
    + injection Hin as -> ->. split; [exact Eg|left; reflexivity].
    + destruct (IH l eq_refl Hin) as [H1 H2]. split; [exact H1|right; exact H2].
Qed.

Lemma collect_Some_iff froms pl : collect froms pl <> None <-> forall f, In f froms -> nlookup f pl <> None.
Proof.
  induction froms as [|g r IH]; cbn [collect].
  - split; [intros _ f []|discriminate].
  - destruct (nlookup g pl) eqn:Eg.
    + destruct (collect r pl) eqn:E.
      * split; [|discriminate]. intros _ f [<-|Hf]; [congruence|]. apply IH; [discriminate|exact Hf].
      * split; [congruence|]. intros H. exfalso. apply (proj2 IH); [|reflexivity].
        intros f Hf. apply H. right. exact Hf.
    + split; [congruence|]. intros H. exfalso. apply (H g); [left; reflexivity|exact Eg].
Qed.

Lemma collect_lookup froms pl res f : collect froms pl = Some res -> In f froms -> nlookup f res = nlookup f pl.
Proof.
  revert res; induction froms as [|g r IH]; cbn [collect]; intros res H Hin; [destruct Hin|].
  destruct (nlookup g pl) eqn:Eg; [|discriminate]. destruct (collect r pl) eqn:E; [|discriminate].
  injection H as <-. cbn [alookup]. destruct (N.eqb f g) eqn:Efg.
  - apply N.eqb_eq in Efg. subst. symmetry. exact Eg.
  - destruct Hin as [->|Hin]; [rewrite N.eqb_refl in Efg; discriminate|]. apply IH; auto.
Qed.

Lemma lookup_remove_all froms pl f :
  nlookup f (remove_all froms pl) = if mem f froms then None else nlookup f pl.
Proof.
  revert pl; induction froms as [|g r IH]; intros pl; cbn [remove_all]; [reflexivity|].
  rewrite IH. unfold mem. cbn [existsb]. fold (mem f r).
  destruct (N.eqb f g) eqn:E; cbn [orb].
  - apply N.eqb_eq in E. subst. destruct (mem g r); [reflexivity|]. apply (alookup_adel_eq N.eqb).
  - destruct (mem f r); [reflexivity|]. apply (alookup_adel_ne N.eqb Neqb_eq). apply N.eqb_neq. exact E.
Qed.

Lemma NoDup_keys_remove_all froms pl : NoDup (map fst pl) -> NoDup (map fst (remove_all froms pl)).
Proof.
  revert pl; induction froms as [|g r IH]; intros pl H; cbn [remove_all]; [exact H|].
  apply IH. apply NoDup_keys_adel. exact H.
Qed.

Lemma length_remove_all froms (pl : list (N * bytes)) :
  NoDup froms -> NoDup (map fst pl) -> (forall f, In f froms -> nlookup f pl <> None) ->
  (length (remove_all froms pl) + length froms = length pl)%nat.
Proof.
  revert pl; induction froms as [|g r IH]; intros pl Hnd Hpl Hall; cbn [remove_all length]; [lia|].
  inversion Hnd as [|? ? Hg Hr]; subst.
  destruct (nlookup g pl) eqn:Eg; [|exfalso; apply (Hall g); [left; reflexivity|exact Eg]].
  pose proof (length_adel_present N.eqb Neqb_eq g b pl Hpl Eg) as Hlen.
  rewrite <- Hlen.
  rewrite <- (IH (adel N.eqb g pl)); [lia|exact Hr|apply NoDup_keys_adel; exact Hpl|].
  intros f Hf. rewrite (alookup_adel_ne N.eqb Neqb_eq).
  - apply Hall. right. exact Hf.
  - intros ->. contradiction.
Qed.

(* ---- sum of the mailbox sizes ------------------------------------------------------------------- *)

Definition plen (b : mailbox) : Z := Z.of_nat (length (mb_payloads b)).

Fixpoint total (bs : list (cid * mailbox)) : Z :=
  match bs with
  | [] => 0%Z
  | cb :: r => (plen (snd cb) + total r)%Z
  end.

Definition box_or_empty (o : option mailbox) : mailbox := match o with Some b => b | None => empty_box end.

Lemma total_aset c b bs :
  total (aset beqb c b bs) = (total bs - plen (box_or_empty (alookup beqb c bs)) + plen b)%Z.
Proof.
  induction bs as [|[c0 b0] bs IH]; cbn [aset alookup total snd box_or_empty].
  - unfold plen at 2. cbn. lia.
  - destruct (beqb c c0); cbn [total snd box_or_empty]; [lia|]. rewrite IH. lia.
Qed.

Lemma total_adel c bs :
  NoDup (map fst bs) -> total (adel beqb c bs) = (total bs - plen (box_or_empty (alookup beqb c bs)))%Z.
Proof.
  induction bs as [|[c0 b0] bs IH]; cbn [adel alookup total snd box_or_empty map fst]; intros Hnd.
  - unfold plen. cbn. lia.
  - inversion Hnd as [|? ? Hn Hd]; subst. destruct (beqb c c0) eqn:E.
    + apply beqb_eq in E. subst c0.
      rewrite (adel_absent beqb); [cbn [box_or_empty]; lia|]. apply (alookup_None beqb beqb_eq). exact Hn.
    + cbn [total snd]. rewrite IH by exact Hd. lia.
Qed.

Lemma total_nonneg bs : (0 <= total bs)%Z.
Proof. induction bs as [|[c b] bs IH]; cbn [total snd]; unfold plen; lia. Qed.

(* ---- histories and the specification functions over them ----------------------------------------- *)

Definition hist := list (event * output).

(* the reader filed (or compared) the message: it came from a member while the reader was
   running and it was not bounced by the buffer bound *)
Definition filed (d : dep_out) : bool :=
  match d with DStored | DAbsorbed | DPoisoned => true | _ => false end.

Definition pend_step (c : cid) (f : N) (cur : option bytes) (eo : event * output) : option bytes :=
  match eo with
  | (Deposit f' c' p, ODep d) =>
    if filed d && N.eqb f' f && beqb c' c then match cur with Some x => Some x | None => Some p end else cur
  | (RecvCheck c', ORecvOk res) => if beqb c' c && mem f (map fst res) then None else cur
  | _ => cur
  end.

(* newest event first *)
Fixpoint pending_r (tr : hist) (c : cid) (f : N) : option bytes :=
  match tr with
  | [] => None
  | eo :: older => pend_step c f (pending_r older c f) eo
  end.

Definition blame_step (c : cid) (pend : N -> option bytes) (cur : option N) (eo : event * output) : option N :=
  match eo with
  | (Deposit f c' p, ODep d) =>
    if filed d && beqb c' c then
      match pend f with
      | Some p' => if beqb p' p then cur else Some f
      | None => cur
      end
    else cur
  | _ => cur
  end.

Fixpoint blame_r (tr : hist) (c : cid) : option N :=
  match tr with
  | [] => None
  | eo :: older => blame_step c (pending_r older c) (blame_r older c) eo
  end.

Definition enter_step (c : cid) (cur : option (list N)) (eo : event * output) : option (list N) :=
  match eo with
  | (RecvEnter c' froms, OEntered) => if beqb c' c then Some froms else cur
  | (RecvExit c', ONone) => if beqb c' c then None else cur
  | _ => cur
  end.

Fixpoint entered_r (tr : hist) (c : cid) : option (list N) :=
  match tr with
  | [] => None
  | eo :: older => enter_step c (entered_r older c) eo
  end.

(* every state reachable by a finite sequence of atomic steps, with its history *)
Inductive reach (q : list N) : hist -> state -> Prop :=
| reach_init : reach q [] (init q)
| reach_step tr s e : reach q tr s -> reach q ((e, snd (step s e)) :: tr) (fst (step s e)).

(* ---- effect of one step on the observations of a mailbox ------------------------------------------- *)

Ltac step_unfold :=
  unfold step, deposit, bad_message, reader_error, recv_enter, recv_check, wake_token, wake_alt,
         cancel, recv_exit.

Ltac destr1 :=
  match goal with
  | |- context [match ?x with _ => _ end] =>
    match type of x with
    | sumbool _ _ => destruct x
    | _ => destruct x eqn:?
    end
  end.

Ltac views :=
  repeat (rewrite ?view_set_box, ?view_del_box, ?view_set_buffered, ?view_fail_locked, ?view_set_reader in *).

Ltac find_to_view :=
  repeat match goal with
  | H : find_box ?s ?c = Some ?b |- _ => apply view_find_some in H
  | H : find_box ?s ?c = None |- _ => apply view_find_none in H
  end.

Ltac beq_subst :=
  repeat match goal with
  | H : beqb ?a ?b = true |- _ => apply beqb_eq in H; subst
  | H : N.eqb ?a ?b = true |- _ => apply N.eqb_eq in H; subst
  end.

Definition pl (s : state) (c : cid) (f : N) : option bytes := nlookup f (mb_payloads (view s c)).

Lemma step_pl s e c f :
  pl (fst (step s e)) c f = pend_step c f (pl s c f) (e, snd (step s e)).
Proof.
  unfold pl. destruct e; step_unfold; cbn [pend_step].
  - (* Deposit *)
    destruct (reader s); cbn [fst snd filed andb]; try reflexivity.
    destruct (negb (mem from (quorum s))); cbn [fst snd filed andb]; [reflexivity|].
    fold (view s c0).
    destruct (nlookup from (mb_payloads (view s c0))) eqn:Ex.
    + destruct (beqb b p) eqn:Eb; cbn [fst snd filed andb].
      * destruct (N.eqb from f) eqn:Ef; cbn [andb]; [|reflexivity].
        destruct (beqb c0 c) eqn:Ec; [|reflexivity]. beq_subst. rewrite Ex. reflexivity.
      * views. rewrite (beqb_sym c c0).
        destruct (N.eqb from f) eqn:Ef; destruct (beqb c0 c) eqn:Ec; cbn [andb]; beq_subst;
          rewrite ?payloads_signal; cbn [mb_payloads]; try reflexivity.
        rewrite Ex. reflexivity.
    + destruct (buffer_full (buffered s)); cbn [fst snd filed andb].
      * views. destruct (beqb c c0) eqn:Ec; [|reflexivity]. beq_subst. reflexivity.
      * views. rewrite (beqb_sym c c0).
        destruct (beqb c0 c) eqn:Ec; rewrite ?andb_false_r; [|reflexivity]. beq_subst.
        rewrite payloads_signal. cbn [mb_payloads]. rewrite andb_true_r.
        destruct (N.eqb from f) eqn:Ef.
        -- beq_subst. rewrite (alookup_aset_eq N.eqb Neqb_eq). rewrite Ex. reflexivity.
        -- rewrite (alookup_aset_ne N.eqb Neqb_eq); [reflexivity|]. apply N.eqb_neq. rewrite N.eqb_sym. exact Ef.
  - (* BadMessage *)
    destruct (reader s); cbn [fst snd]; try reflexivity.
    destruct (negb (mem from (quorum s))); cbn [fst snd]; reflexivity.
  - (* ReaderError *)
    destruct (reader s); cbn [fst snd]; reflexivity.
  - (* RecvEnter *)
    destruct (fatal s); cbn [fst snd]; [reflexivity|].
    set (s1 := match reader s with RNotStarted => set_reader s RRunning | _ => s end).
    assert (Hv : forall c', view s1 c' = view s c') by (intros c'; unfold s1; destruct (reader s); reflexivity).
    fold (view s1 c0). destruct (mb_waiter (view s1 c0)); cbn [fst snd]; views;
      (destruct (beqb c c0) eqn:Ec; [beq_subst|]); rewrite ?Hv; reflexivity.
  - (* RecvCheck *)
    destruct (find_box s c0) eqn:Eb; cbn [fst snd]; [|reflexivity]. find_to_view.
    destruct (mb_waiter m) eqn:Ew; cbn [fst snd]; [|reflexivity].
    destruct (w_phase w); cbn [fst snd]; try reflexivity.
    destruct (mb_poison m); cbn [fst snd].
    { views. destruct (beqb c c0) eqn:Ec; [beq_subst|]; reflexivity. }
    destruct (collect (w_froms w) (mb_payloads m)) eqn:Ecol; cbn [fst snd].
    { views. rewrite (beqb_sym c c0). destruct (beqb c0 c) eqn:Ec; cbn [andb mb_payloads]; [|reflexivity].
      beq_subst. rewrite lookup_remove_all. rewrite (collect_keys _ _ _ Ecol). reflexivity. }
    destruct (fatal s); cbn [fst snd].
    { views. destruct (beqb c c0) eqn:Ec; [beq_subst|]; reflexivity. }
    destruct (w_cancel w); cbn [fst snd]; views; (destruct (beqb c c0) eqn:Ec; [beq_subst|]); reflexivity.
  - (* WakeToken *)
    destruct (find_box s c0) eqn:Eb; cbn [fst snd]; [|reflexivity]. find_to_view.
    destruct (mb_waiter m) eqn:Ew; cbn [fst snd]; [|reflexivity].
    destruct (w_phase w); cbn [fst snd]; try reflexivity.
    destruct (0 <? w_tokens w)%N; cbn [fst snd]; [|reflexivity].
    views. destruct (beqb c c0) eqn:Ec; [beq_subst|]; reflexivity.
  - (* WakeAlt *)
    destruct (find_box s c0) eqn:Eb; cbn [fst snd]; [|reflexivity]. find_to_view.
    destruct (mb_waiter m) eqn:Ew; cbn [fst snd]; [|reflexivity].
    destruct (w_phase w); cbn [fst snd]; try reflexivity.
    destruct (w_cancel w || is_some (fatal s)); cbn [fst snd]; [|reflexivity].
    views. destruct (beqb c c0) eqn:Ec; [beq_subst|]; reflexivity.
  - (* Cancel *)
    destruct (find_box s c0) eqn:Eb; cbn [fst snd]; [|reflexivity]. find_to_view.
    destruct (mb_waiter m) eqn:Ew; cbn [fst snd]; [|reflexivity].
    views. destruct (beqb c c0) eqn:Ec; [beq_subst|]; reflexivity.
  - (* Shutdown *)
    reflexivity.
  - (* RecvExit *)
    destruct (find_box s c0) eqn:Eb; cbn [fst snd]; [|reflexivity]. find_to_view.
    destruct (mb_waiter m) eqn:Ew; cbn [fst snd]; [|reflexivity].
    destruct (w_phase w); cbn [fst snd]; try reflexivity.
    destruct (mb_payloads m) eqn:Ep; [destruct (mb_poison m)|]; cbn [fst snd]; views;
      (destruct (beqb c c0) eqn:Ec; [beq_subst|]); cbn [mb_payloads set_waiter empty_box]; rewrite ?Ep; reflexivity.
Qed.

Definition poi (s : state) (c : cid) : option N := mb_poison (view s c).

Lemma step_poison s e c :
  poi (fst (step s e)) c = blame_step c (pl s c) (poi s c) (e, snd (step s e)).
Proof.
  unfold poi, pl. destruct e; step_unfold; cbn [blame_step].
  - (* Deposit *)
    destruct (reader s); cbn [fst snd filed andb]; try reflexivity.
    destruct (negb (mem from (quorum s))); cbn [fst snd filed andb]; [reflexivity|].
    fold (view s c0).
    destruct (nlookup from (mb_payloads (view s c0))) eqn:Ex.
    + destruct (beqb b p) eqn:Eb; cbn [fst snd filed andb].
      * destruct (beqb c0 c) eqn:Ec; [|reflexivity]. beq_subst. rewrite Ex. rewrite beqb_refl. reflexivity.
      * views. rewrite (beqb_sym c c0).
        destruct (beqb c0 c) eqn:Ec; [|reflexivity]. beq_subst.
        rewrite poison_signal. cbn [mb_poison]. rewrite Ex, Eb. reflexivity.
    + destruct (buffer_full (buffered s)); cbn [fst snd filed andb].
      * views. destruct (beqb c c0) eqn:Ec; [|reflexivity]. beq_subst. reflexivity.
      * views. rewrite (beqb_sym c c0).
        destruct (beqb c0 c) eqn:Ec; [|reflexivity]. beq_subst.
        rewrite poison_signal. cbn [mb_poison]. rewrite Ex. reflexivity.
  - destruct (reader s); cbn [fst snd]; try reflexivity.
    destruct (negb (mem from (quorum s))); cbn [fst snd]; reflexivity.
  - destruct (reader s); cbn [fst snd]; reflexivity.
  - destruct (fatal s); cbn [fst snd]; [reflexivity|].
    set (s1 := match reader s with RNotStarted => set_reader s RRunning | _ => s end).
    assert (Hv : forall c', view s1 c' = view s c') by (intros c'; unfold s1; destruct (reader s); reflexivity).
    fold (view s1 c0). destruct (mb_waiter (view s1 c0)); cbn [fst snd]; views;
      (destruct (beqb c c0) eqn:Ec; [beq_subst|]); rewrite ?Hv; reflexivity.
  - destruct (find_box s c0) eqn:Eb; cbn [fst snd]; [|reflexivity]. find_to_view.
    destruct (mb_waiter m) eqn:Ew; cbn [fst snd]; [|reflexivity].
    destruct (w_phase w); cbn [fst snd]; try reflexivity.
    destruct (mb_poison m) eqn:Ep; cbn [fst snd].
    { views. destruct (beqb c c0) eqn:Ec; [beq_subst|]; reflexivity. }
    destruct (collect (w_froms w) (mb_payloads m)) eqn:Ecol; cbn [fst snd].
    { views. destruct (beqb c c0) eqn:Ec; [beq_subst|]; cbn [mb_poison]; auto. }
    destruct (fatal s); cbn [fst snd].
    { views. destruct (beqb c c0) eqn:Ec; [beq_subst|]; reflexivity. }
    destruct (w_cancel w); cbn [fst snd]; views; (destruct (beqb c c0) eqn:Ec; [beq_subst|]); reflexivity.
  - destruct (find_box s c0) eqn:Eb; cbn [fst snd]; [|reflexivity]. find_to_view.
    destruct (mb_waiter m) eqn:Ew; cbn [fst snd]; [|reflexivity].
    destruct (w_phase w); cbn [fst snd]; try reflexivity.
    destruct (0 <? w_tokens w)%N; cbn [fst snd]; [|reflexivity].
    views. destruct (beqb c c0) eqn:Ec; [beq_subst|]; reflexivity.
  - destruct (find_box s c0) eqn:Eb; cbn [fst snd]; [|reflexivity]. find_to_view.
    destruct (mb_waiter m) eqn:Ew; cbn [fst snd]; [|reflexivity].
    destruct (w_phase w); cbn [fst snd]; try reflexivity.
    destruct (w_cancel w || is_some (fatal s)); cbn [fst snd]; [|reflexivity].
    views. destruct (beqb c c0) eqn:Ec; [beq_subst|]; reflexivity.
  - destruct (find_box s c0) eqn:Eb; cbn [fst snd]; [|reflexivity]. find_to_view.
    destruct (mb_waiter m) eqn:Ew; cbn [fst snd]; [|reflexivity].
    views. destruct (beqb c c0) eqn:Ec; [beq_subst|]; reflexivity.
  - reflexivity.
  - destruct (find_box s c0) eqn:Eb; cbn [fst snd]; [|reflexivity]. find_to_view.
    destruct (mb_waiter m) eqn:Ew; cbn [fst snd]; [|reflexivity].
    destruct (w_phase w); cbn [fst snd]; try reflexivity.
    destruct (mb_payloads m) eqn:Ep; [destruct (mb_poison m) eqn:Epo|]; cbn [fst snd]; views;
      (destruct (beqb c c0) eqn:Ec; [beq_subst|]); cbn [mb_poison set_waiter empty_box]; rewrite ?Epo; reflexivity.
Qed.

(* ---- the receiver attached to a mailbox -------------------------------------------------------- *)

Lemma signal_waiter_froms w : w_froms (signal_waiter w) = w_froms w.
Proof. unfold signal_waiter. destruct (w_tokens w <? notifyCapacity)%N; [reflexivity|].
  destruct (notifyCapacity =? 0)%N; [|reflexivity]. destruct (w_phase w); reflexivity. Qed.

Lemma signal_waiter_cancel w : w_cancel (signal_waiter w) = w_cancel w.
Proof. unfold signal_waiter. destruct (w_tokens w <? notifyCapacity)%N; [reflexivity|].
  destruct (notifyCapacity =? 0)%N; [|reflexivity]. destruct (w_phase w); reflexivity. Qed.

Lemma signal_waiter_tokens w : (1 <= notifyCapacity)%N -> (0 < w_tokens (signal_waiter w))%N.
Proof.
  intros Hcap. unfold signal_waiter. destruct (w_tokens w <? notifyCapacity)%N eqn:E; cbn [w_tokens]; [lia|].
  destruct (notifyCapacity =? 0)%N eqn:E0; [lia|]. lia.
Qed.

Lemma fatal_fail_locked s k : fatal (fail_locked s k) <> None.
Proof. unfold fail_locked; cbn [fatal]. destruct (fatal s); discriminate. Qed.

Definition wake_ok (s : state) (c : cid) (w : waiter) : Prop :=
  w_phase w = Parked ->
  (mb_poison (view s c) <> None \/ collect (w_froms w) (mb_payloads (view s c)) <> None) ->
  (0 < w_tokens w)%N \/ w_cancel w = true \/ fatal s <> None.

Definition WInv (s : state) : Prop :=
  forall c w, mb_waiter (view s c) = Some w -> NoDup (w_froms w) /\ wake_ok s c w.

Lemma winv_init q : WInv (init q).
Proof. intros c w H. rewrite view_init in H. discriminate. Qed.

(* the mailbox of c and the failure latch only grow towards "wake-up enabled" *)
Lemma wake_ok_frame s s' c w :
  view s' c = view s c -> (fatal s <> None -> fatal s' <> None) -> wake_ok s c w -> wake_ok s' c w.
Proof.
  intros Hv Hf H Hp Hr. rewrite Hv in Hr. destruct (H Hp Hr) as [H1|[H1|H1]]; auto.
Qed.

Lemma winv_step s e : (1 <= notifyCapacity)%N -> WInv s -> WInv (fst (step s e)).
Proof.
  intros Hcap H c w. destruct e; step_unfold.
  - (* Deposit *)
    destruct (reader s); cbn [fst snd]; try apply H.
    destruct (negb (mem from (quorum s))); cbn [fst snd]; [apply H|].
    fold (view s c0).
    destruct (nlookup from (mb_payloads (view s c0))) eqn:Ex.
    + destruct (beqb b p) eqn:Eb; cbn [fst snd]; [apply H|].
      views. destruct (beqb c c0) eqn:Ec.
      * beq_subst. cbn [signal mb_waiter]. destruct (mb_waiter (view s c0)) eqn:Ew; cbn [option_map]; [|discriminate].
        intros Hw. injection Hw as <-. destruct (H c0 w0 Ew) as [Hnd _].
        split; [rewrite signal_waiter_froms; exact Hnd|]. intros _ _. left. apply signal_waiter_tokens. exact Hcap.
      * intros Hw. destruct (H c w Hw) as [Hnd Hwk]. split; [exact Hnd|].
        eapply wake_ok_frame; [| |exact Hwk]; [views; rewrite Ec; reflexivity|auto].
    + destruct (buffer_full (buffered s)); cbn [fst snd].
      * views. intros Hw.
        assert (Hw' : mb_waiter (view s c) = Some w) by (destruct (beqb c c0) eqn:Ec; [beq_subst|]; exact Hw).
        destruct (H c w Hw') as [Hnd Hwk]. split; [exact Hnd|].
        intros _ _. right. right. cbn [set_reader fatal]. apply fatal_fail_locked.
      * views. destruct (beqb c c0) eqn:Ec.
        -- beq_subst. cbn [signal mb_waiter]. destruct (mb_waiter (view s c0)) eqn:Ew; cbn [option_map]; [|discriminate].
           intros Hw. injection Hw as <-. destruct (H c0 w0 Ew) as [Hnd _].
           split; [rewrite signal_waiter_froms; exact Hnd|]. intros _ _. left. apply signal_waiter_tokens. exact Hcap.
        -- intros Hw. destruct (H c w Hw) as [Hnd Hwk]. split; [exact Hnd|].
           eapply wake_ok_frame; [| |exact Hwk]; [views; rewrite Ec; reflexivity|auto].
  - (* BadMessage *)
    destruct (reader s); cbn [fst snd]; try apply H.
    destruct (negb (mem from (quorum s))); cbn [fst snd]; [apply H|].
    views. intros Hw. destruct (H c w Hw) as [Hnd Hwk]. split; [exact Hnd|].
    intros _ _. right. right. cbn [set_reader fatal]. apply fatal_fail_locked.
  - (* ReaderError *)
    destruct (reader s); cbn [fst snd]; try apply H.
    views. intros Hw. destruct (H c w Hw) as [Hnd Hwk]. split; [exact Hnd|].
    intros _ _. right. right. cbn [set_reader fatal]. apply fatal_fail_locked.
  - (* RecvEnter *)
    destruct (fatal s) eqn:Ef; cbn [fst snd]; [apply H|].
    set (s1 := match reader s with RNotStarted => set_reader s RRunning | _ => s end).
    assert (Hv : forall c', view s1 c' = view s c') by (intros c'; unfold s1; destruct (reader s); reflexivity).
    assert (Hf1 : fatal s1 = fatal s) by (unfold s1; destruct (reader s); reflexivity).
    fold (view s1 c0). destruct (mb_waiter (view s1 c0)) eqn:Ew; cbn [fst snd]; views.
    + intros Hw.
      assert (Hw' : mb_waiter (view s c) = Some w) by (destruct (beqb c c0) eqn:Ec; [beq_subst|]; rewrite <- Hv; exact Hw).
      destruct (H c w Hw') as [Hnd Hwk]. split; [exact Hnd|].
      eapply wake_ok_frame; [| |exact Hwk]; [views; destruct (beqb c c0) eqn:Ec; [beq_subst|]; rewrite ?Hv; reflexivity|].
      cbn [set_box fatal]. rewrite Hf1. auto.
    + destruct (beqb c c0) eqn:Ec.
      * beq_subst. cbn [set_waiter mb_waiter]. intros Hw. injection Hw as <-. cbn [w_froms].
        split; [apply dedup_NoDup|]. intros Hp. discriminate.
      * rewrite Hv. intros Hw. destruct (H c w Hw) as [Hnd Hwk]. split; [exact Hnd|].
        eapply wake_ok_frame; [| |exact Hwk]; [views; rewrite Ec; apply Hv|].
        cbn [set_box fatal]. rewrite Hf1. auto.
  - (* RecvCheck *)
    destruct (find_box s c0) eqn:Eb; cbn [fst snd]; [|apply H]. find_to_view.
    destruct (mb_waiter m) eqn:Ew; cbn [fst snd]; [|apply H].
    destruct (w_phase w0) eqn:Eph; cbn [fst snd]; try apply H.
    assert (Hfin : forall s' b', view s' c0 = set_waiter b' (Some (set_phase w0 Finished)) \/
                                 mb_waiter (view s' c0) = Some (set_phase w0 Finished) ->
                                 (forall c', c' <> c0 -> view s' c' = view s c') -> fatal s' = fatal s ->
                                 mb_waiter (view s' c) = Some w -> NoDup (w_froms w) /\ wake_ok s' c w).
    { intros s' b' Hb Hoth Hfa Hw. destruct (beqb c c0) eqn:Ec.
      - beq_subst. assert (Hww : mb_waiter (view s' c0) = Some (set_phase w0 Finished)).
        { destruct Hb as [Hb|Hb]; [rewrite Hb; reflexivity|exact Hb]. }
        rewrite Hww in Hw. injection Hw as <-. cbn [set_phase w_froms].
        split; [apply (H c0 w0 Ew)|]. intros Hp. discriminate.
      - apply beqb_neq in Ec. rewrite (Hoth c Ec) in Hw. destruct (H c w Hw) as [Hnd Hwk]. split; [exact Hnd|].
        eapply wake_ok_frame; [| |exact Hwk]; [apply Hoth; exact Ec|rewrite Hfa; auto]. }
    assert (Hoth : forall b' c', c' <> c0 -> view (set_box s c0 b') c' = view s c').
    { intros b' c' Hne. views. apply beqb_neq in Hne. rewrite Hne. reflexivity. }
    destruct (mb_poison m) eqn:Ep; cbn [fst snd].
    { apply (Hfin _ m); [left; views; rewrite beqb_refl; reflexivity|apply Hoth|cbn [set_box set_buffered fatal]; auto]. }
    destruct (collect (w_froms w0) (mb_payloads m)) eqn:Ecol; cbn [fst snd].
    { apply (Hfin _ m); [right; views; rewrite beqb_refl; reflexivity|intros c' Hne; views; apply beqb_neq in Hne; rewrite Hne; reflexivity|cbn [set_box set_buffered fatal]; auto]. }
    destruct (fatal s) eqn:Ef; cbn [fst snd].
    { apply (Hfin _ m); [left; views; rewrite beqb_refl; reflexivity|apply Hoth|cbn [set_box set_buffered fatal]; auto]. }
    destruct (w_cancel w0) eqn:Eca; cbn [fst snd].
    { apply (Hfin _ m); [left; views; rewrite beqb_refl; reflexivity|apply Hoth|cbn [set_box set_buffered fatal]; auto]. }
    views. destruct (beqb c c0) eqn:Ec.
    + beq_subst. cbn [set_waiter mb_waiter]. intros Hw. injection Hw as <-. cbn [set_phase w_froms].
      split; [apply (H c0 w0 Ew)|]. intros _ Hr. exfalso. rewrite view_set_box, beqb_refl in Hr. cbn [set_waiter set_phase w_froms mb_poison mb_payloads] in Hr.
      destruct Hr as [Hr|Hr]; [rewrite Ep in Hr|rewrite Ecol in Hr]; apply Hr; reflexivity.
    + intros Hw. destruct (H c w Hw) as [Hnd Hwk]. split; [exact Hnd|].
      eapply wake_ok_frame; [| |exact Hwk]; [views; rewrite Ec; reflexivity|auto].
  - (* WakeToken *)
    destruct (find_box s c0) eqn:Eb; cbn [fst snd]; [|apply H]. find_to_view.
    destruct (mb_waiter m) eqn:Ew; cbn [fst snd]; [|apply H].
    destruct (w_phase w0) eqn:Eph; cbn [fst snd]; try apply H.
    destruct (0 <? w_tokens w0)%N; cbn [fst snd]; [|apply H].
    views. destruct (beqb c c0) eqn:Ec.
    + beq_subst. cbn [set_waiter mb_waiter]. intros Hw. injection Hw as <-. cbn [w_froms].
      split; [apply (H c0 w0 Ew)|]. intros Hp. discriminate.
    + intros Hw. destruct (H c w Hw) as [Hnd Hwk]. split; [exact Hnd|].
      eapply wake_ok_frame; [| |exact Hwk]; [views; rewrite Ec; reflexivity|auto].
  - (* WakeAlt *)
    destruct (find_box s c0) eqn:Eb; cbn [fst snd]; [|apply H]. find_to_view.
    destruct (mb_waiter m) eqn:Ew; cbn [fst snd]; [|apply H].
    destruct (w_phase w0) eqn:Eph; cbn [fst snd]; try apply H.
    destruct (w_cancel w0 || is_some (fatal s)); cbn [fst snd]; [|apply H].
    views. destruct (beqb c c0) eqn:Ec.
    + beq_subst. cbn [set_waiter mb_waiter]. intros Hw. injection Hw as <-. cbn [set_phase w_froms].
      split; [apply (H c0 w0 Ew)|]. intros Hp. discriminate.
    + intros Hw. destruct (H c w Hw) as [Hnd Hwk]. split; [exact Hnd|].
      eapply wake_ok_frame; [| |exact Hwk]; [views; rewrite Ec; reflexivity|auto].
  - (* Cancel *)
    destruct (find_box s c0) eqn:Eb; cbn [fst snd]; [|apply H]. find_to_view.
    destruct (mb_waiter m) eqn:Ew; cbn [fst snd]; [|apply H].
    views. destruct (beqb c c0) eqn:Ec.
    + beq_subst. cbn [set_waiter mb_waiter]. intros Hw. injection Hw as <-. cbn [w_froms].
      split; [apply (H c0 w0 Ew)|]. intros _ _. right. left. reflexivity.
    + intros Hw. destruct (H c w Hw) as [Hnd Hwk]. split; [exact Hnd|].
      eapply wake_ok_frame; [| |exact Hwk]; [views; rewrite Ec; reflexivity|auto].
  - (* Shutdown *)
    cbn [fst]. views. intros Hw. destruct (H c w Hw) as [Hnd Hwk]. split; [exact Hnd|].
    intros _ _. right. right. apply fatal_fail_locked.
  - (* RecvExit *)
    destruct (find_box s c0) eqn:Eb; cbn [fst snd]; [|apply H]. find_to_view.
    destruct (mb_waiter m) eqn:Ew; cbn [fst snd]; [|apply H].
    destruct (w_phase w0) eqn:Eph; cbn [fst snd]; try apply H.
    destruct (mb_payloads m) eqn:Ep; [destruct (mb_poison m) eqn:Epo|]; cbn [fst snd]; views;
      (destruct (beqb c c0) eqn:Ec;
       [beq_subst; cbn [set_waiter mb_waiter empty_box]; discriminate
       |intros Hw; destruct (H c w Hw) as [Hnd Hwk]; split; [exact Hnd|];
        eapply wake_ok_frame; [| |exact Hwk]; [views; rewrite Ec; reflexivity|auto]]).
Qed.

(* ---- structure of the maps and the buffer count ---------------------------------------------- *)

Lemma total_set_box s c b : total (boxes (set_box s c b)) = (total (boxes s) - plen (view s c) + plen b)%Z.
Proof. cbn [set_box boxes]. rewrite total_aset. reflexivity. Qed.

Lemma total_del_box s c : NoDup (map fst (boxes s)) ->
  total (boxes (del_box s c)) = (total (boxes s) - plen (view s c))%Z.
Proof. intros H. cbn [del_box boxes]. rewrite total_adel by exact H. reflexivity. Qed.

Lemma quorum_step s e : quorum (fst (step s e)) = quorum s.
Proof.
  destruct e; step_unfold; cbn [fst]; try reflexivity;
    repeat (destr1; cbn [fst set_box set_buffered set_reader fail_locked del_box quorum]; try reflexivity).
Qed.

Record SInv (s : state) : Prop := {
  si_boxes : NoDup (map fst (boxes s));
  si_pl : forall c, NoDup (map fst (mb_payloads (view s c)));
  si_total : buffered s = total (boxes s) }.

Lemma sinv_init q : SInv (init q).
Proof. split; cbn; [constructor|intros; constructor|reflexivity]. Qed.

Lemma sinv_set_box s c b z :
  SInv s -> NoDup (map fst (mb_payloads b)) -> z = (buffered s - plen (view s c) + plen b)%Z ->
  SInv (set_buffered (set_box s c b) z).
Proof.
  intros [H1 H2 H3] Hb Hz. split.
  - cbn [set_buffered set_box boxes]. apply NoDup_keys_aset; [exact beqb_eq|exact H1].
  - intros c'. views. destruct (beqb c' c); [exact Hb|apply H2].
  - cbn [set_buffered buffered boxes]. rewrite total_set_box. lia.
Qed.

Lemma sinv_set_box' s c b :
  SInv s -> NoDup (map fst (mb_payloads b)) -> plen b = plen (view s c) -> SInv (set_box s c b).
Proof.
  intros H Hb Hl. change (set_box s c b) with (set_buffered (set_box s c b) (buffered s)).
  apply sinv_set_box; auto. lia.
Qed.

Lemma sinv_fields s s' : boxes s' = boxes s -> buffered s' = buffered s -> SInv s -> SInv s'.
Proof.
  intros Hb Hz [H1 H2 H3]. split.
  - rewrite Hb. exact H1.
  - intros c. unfold view, box_for, find_box. rewrite Hb. apply H2.
  - rewrite Hz, Hb. exact H3.
Qed.

Lemma sinv_step s e : WInv s -> SInv s -> SInv (fst (step s e)).
Proof.
  intros HW H. destruct e; step_unfold.
  - (* Deposit *)
    destruct (reader s); cbn [fst snd]; try exact H.
    destruct (negb (mem from (quorum s))); cbn [fst snd]; [exact H|].
    fold (view s c).
    destruct (nlookup from (mb_payloads (view s c))) eqn:Ex.
    + destruct (beqb b p) eqn:Eb; cbn [fst snd]; [exact H|].
      apply sinv_set_box'; [exact H|rewrite payloads_signal; apply (si_pl s H)|reflexivity].
    + destruct (buffer_full (buffered s)); cbn [fst snd].
      * apply (sinv_fields (set_box s c (view s c))); [reflexivity|reflexivity|].
        apply sinv_set_box'; [exact H|apply (si_pl s H)|reflexivity].
      * apply sinv_set_box; [exact H| |].
        -- rewrite payloads_signal. cbn [mb_payloads]. apply NoDup_keys_aset; [exact N.eqb_eq|apply (si_pl s H)].
        -- unfold plen. rewrite payloads_signal. cbn [mb_payloads].
           rewrite (length_aset_absent N.eqb) by exact Ex. lia.
  - destruct (reader s); cbn [fst snd]; try exact H.
    destruct (negb (mem from (quorum s))); cbn [fst snd]; [exact H|].
    apply (sinv_fields s); [reflexivity|reflexivity|exact H].
  - destruct (reader s); cbn [fst snd]; try exact H.
    apply (sinv_fields s); [reflexivity|reflexivity|exact H].
  - (* RecvEnter *)
    destruct (fatal s) eqn:Ef; cbn [fst snd]; [exact H|].
    set (s1 := match reader s with RNotStarted => set_reader s RRunning | _ => s end).
    assert (H1 : SInv s1) by (apply (sinv_fields s); [unfold s1; destruct (reader s); reflexivity|unfold s1; destruct (reader s); reflexivity|exact H]).
    fold (view s1 c). destruct (mb_waiter (view s1 c)) eqn:Ew; cbn [fst snd].
    + apply sinv_set_box'; [exact H1|apply (si_pl s1 H1)|reflexivity].
    + apply sinv_set_box'; [exact H1|apply (si_pl s1 H1)|reflexivity].
  - (* RecvCheck *)
    destruct (find_box s c) eqn:Eb; cbn [fst snd]; [|exact H]. find_to_view.
    destruct (mb_waiter m) eqn:Ew; cbn [fst snd]; [|exact H].
    destruct (w_phase w) eqn:Eph; cbn [fst snd]; try exact H.
    assert (Hsw : forall w', SInv (set_box s c (set_waiter m w'))).
    { intros w'. apply sinv_set_box'; [exact H|subst m; apply (si_pl s H)|subst m; reflexivity]. }
    destruct (mb_poison m) eqn:Ep; cbn [fst snd]; [apply Hsw|].
    destruct (collect (w_froms w) (mb_payloads m)) eqn:Ecol; cbn [fst snd].
    { subst m. destruct (HW c w Ew) as [Hnd _].
      apply sinv_set_box; [exact H|cbn [mb_payloads]; apply NoDup_keys_remove_all; apply (si_pl s H)|].
      unfold plen. cbn [mb_payloads].
      pose proof (length_remove_all (w_froms w) (mb_payloads (view s c)) Hnd (si_pl s H c)) as Hl.
      assert (Hall : forall f, In f (w_froms w) -> nlookup f (mb_payloads (view s c)) <> None).
      { apply collect_Some_iff. rewrite Ecol. discriminate. }
      specialize (Hl Hall). lia. }
    destruct (fatal s); cbn [fst snd]; [apply Hsw|].
    destruct (w_cancel w); cbn [fst snd]; apply Hsw.
  - destruct (find_box s c) eqn:Eb; cbn [fst snd]; [|exact H]. find_to_view.
    destruct (mb_waiter m) eqn:Ew; cbn [fst snd]; [|exact H].
    destruct (w_phase w) eqn:Eph; cbn [fst snd]; try exact H.
    destruct (0 <? w_tokens w)%N; cbn [fst snd]; [|exact H].
    apply sinv_set_box'; [exact H|subst m; apply (si_pl s H)|subst m; reflexivity].
  - destruct (find_box s c) eqn:Eb; cbn [fst snd]; [|exact H]. find_to_view.
    destruct (mb_waiter m) eqn:Ew; cbn [fst snd]; [|exact H].
    destruct (w_phase w) eqn:Eph; cbn [fst snd]; try exact H.
    destruct (w_cancel w || is_some (fatal s)); cbn [fst snd]; [|exact H].
    apply sinv_set_box'; [exact H|subst m; apply (si_pl s H)|subst m; reflexivity].
  - destruct (find_box s c) eqn:Eb; cbn [fst snd]; [|exact H]. find_to_view.
    destruct (mb_waiter m) eqn:Ew; cbn [fst snd]; [|exact H].
    apply sinv_set_box'; [exact H|subst m; apply (si_pl s H)|subst m; reflexivity].
  - cbn [fst]. apply (sinv_fields s); [reflexivity|reflexivity|exact H].
  - (* RecvExit *)
    destruct (find_box s c) eqn:Eb; cbn [fst snd]; [|exact H]. find_to_view.
    destruct (mb_waiter m) eqn:Ew; cbn [fst snd]; [|exact H].
    destruct (w_phase w) eqn:Eph; cbn [fst snd]; try exact H.
    destruct (mb_payloads m) eqn:Epl; [destruct (mb_poison m) eqn:Epo|]; cbn [fst snd];
      try (apply sinv_set_box'; [exact H|subst m; apply (si_pl s H)|subst m; reflexivity]).
    destruct H as [H1 H2 H3]. split.
    + cbn [del_box boxes]. apply NoDup_keys_adel. exact H1.
    + intros c'. views. destruct (beqb c' c); [constructor|apply H2].
    + cbn [del_box buffered]. change (adel beqb c (boxes s)) with (boxes (del_box s c)).
      rewrite total_del_box by exact H1. rewrite Eb. unfold plen. rewrite Epl. cbn [length]. lia.
Qed.
