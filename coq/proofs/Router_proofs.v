(* Router_proofs.v — lemmas about the router transition system (model/Router.v).

   Everything is proved for ALL finite event sequences from [init q] (predicate
   [reach]: histories are kept newest-first), i.e. for every interleaving of the
   router's atomic steps, any number of correlation ids, namespaces and parties.

   Specification (ghost) functions over the history:
     pending_r tr c f   the first payload filed from sender f under the full id c
                        since the last consumption of (c, f)
     blame_r tr c       the sender of the latest conflicting retransmission under c
     entered_r tr c     the sender list of the receive currently attached to c
   The invariant ties the mailboxes of the state to these functions. *)
From Coq Require Import List NArith ZArith Bool Lia.
From Coq Require Import ZifyN ZifyNat ZifyBool.
Import ListNotations.
Require Import V.base.Bytes V.gen.RouterConsts V.model.Router.

(* ---- equality tests ------------------------------------------------------------------ *)

Lemma beqb_eq a b : beqb a b = true <-> a = b.
Proof.
  revert b; induction a as [|x a IH]; intros [|y b]; cbn [beqb]; split; intros H;
    try reflexivity; try discriminate.
  - apply andb_true_iff in H as [H1 H2]. apply N.eqb_eq in H1. apply IH in H2. congruence.
  - injection H as -> ->. apply andb_true_iff; split; [apply N.eqb_refl|apply IH; reflexivity].
Qed.

Lemma beqb_refl a : beqb a a = true.
Proof. apply beqb_eq; reflexivity. Qed.

Lemma beqb_neq a b : beqb a b = false <-> a <> b.
Proof.
  split; intros H.
  - intros ->. rewrite beqb_refl in H. discriminate.
  - destruct (beqb a b) eqn:E; [|reflexivity]. apply beqb_eq in E. contradiction.
Qed.

Lemma beqb_sym a b : beqb a b = beqb b a.
Proof.
  destruct (beqb a b) eqn:E.
  - apply beqb_eq in E. subst. symmetry. apply beqb_refl.
  - symmetry. apply beqb_neq. apply beqb_neq in E. congruence.
Qed.

Lemma mem_In x l : mem x l = true <-> In x l.
Proof.
  unfold mem. rewrite existsb_exists. split.
  - intros [y [Hy E]]. apply N.eqb_eq in E. subst. exact Hy.
  - intros H. exists x. split; [exact H|apply N.eqb_refl].
Qed.

Lemma mem_false x l : mem x l = false <-> ~ In x l.
Proof.
  split; intros H.
  - intros Hin. apply mem_In in Hin. congruence.
  - destruct (mem x l) eqn:E; [|reflexivity]. apply mem_In in E. contradiction.
Qed.

Lemma dedup_In x l : In x (dedup l) <-> In x l.
Proof.
  induction l as [|y l IH]; cbn [dedup]; [tauto|].
  destruct (mem y l) eqn:E.
  - rewrite IH. cbn. split; [tauto|]. intros [->|H]; [apply mem_In; exact E|exact H].
  - cbn. rewrite IH. tauto.
Qed.

Lemma dedup_NoDup l : NoDup (dedup l).
Proof.
  induction l as [|y l IH]; cbn [dedup]; [constructor|].
  destruct (mem y l) eqn:E; [exact IH|].
  constructor; [|exact IH]. rewrite dedup_In. apply mem_false. exact E.
Qed.

Lemma NoDup_app_snoc {A} (l : list A) x : NoDup l -> ~ In x l -> NoDup (l ++ [x]).
Proof.
  induction l as [|y l IH]; cbn [app]; intros Hnd Hn.
  - constructor; [intros []|constructor].
  - inversion Hnd as [|? ? H1 H2]; subst. constructor.
    + rewrite in_app_iff. cbn. intros [H|[H|[]]]; [contradiction|]. subst. apply Hn. left. reflexivity.
    + apply IH; [exact H2|]. intros H. apply Hn. right. exact H.
Qed.

(* ---- association lists ----------------------------------------------------------------- *)

Section AssocFacts.
  Context {K V : Type} (eqb : K -> K -> bool).
  Hypothesis eqb_eq : forall a b, eqb a b = true <-> a = b.

  Lemma eqb_refl' a : eqb a a = true.
  Proof. apply eqb_eq; reflexivity. Qed.

  Lemma eqb_false a b : eqb a b = false <-> a <> b.
  Proof.
    split; intros H.
    - intros ->. rewrite eqb_refl' in H. discriminate.
    - destruct (eqb a b) eqn:E; [|reflexivity]. apply eqb_eq in E. contradiction.
  Qed.

  Lemma alookup_aset_eq k (v : V) l : alookup eqb k (aset eqb k v l) = Some v.
  Proof.
    induction l as [|[k' v'] l IH]; cbn [aset alookup].
    - rewrite eqb_refl'. reflexivity.
    - destruct (eqb k k') eqn:E; cbn [alookup]; [rewrite eqb_refl'|rewrite E]; auto.
  Qed.

  Lemma alookup_aset_ne k k' (v : V) l : k' <> k -> alookup eqb k' (aset eqb k v l) = alookup eqb k' l.
  Proof.
    intros Hne. induction l as [|[k0 v0] l IH]; cbn [aset alookup].
    - apply eqb_false in Hne. rewrite Hne. reflexivity.
    - destruct (eqb k k0) eqn:E; cbn [alookup].
      + apply eqb_eq in E. subst k0. apply eqb_false in Hne. rewrite Hne. reflexivity.
      + destruct (eqb k' k0); auto.
  Qed.

  Lemma alookup_adel_eq k (l : list (K * V)) : alookup eqb k (adel eqb k l) = None.
  Proof.
    induction l as [|[k0 v0] l IH]; cbn [adel alookup]; [reflexivity|].
    destruct (eqb k k0) eqn:E; cbn [alookup]; [exact IH|rewrite E; exact IH].
  Qed.

  Lemma alookup_adel_ne k k' (l : list (K * V)) : k' <> k -> alookup eqb k' (adel eqb k l) = alookup eqb k' l.
  Proof.
    intros Hne. induction l as [|[k0 v0] l IH]; cbn [adel alookup]; [reflexivity|].
    destruct (eqb k k0) eqn:E; cbn [alookup].
    - apply eqb_eq in E. subst k0. apply eqb_false in Hne. rewrite Hne. exact IH.
    - destruct (eqb k' k0); auto.
  Qed.

  Lemma alookup_None k (l : list (K * V)) : alookup eqb k l = None <-> ~ In k (map fst l).
  Proof.
    induction l as [|[k0 v0] l IH]; cbn [alookup map fst In]; [tauto|].
    destruct (eqb k k0) eqn:E.
    - apply eqb_eq in E. subst. split; [discriminate|]. intros H. exfalso. apply H. left. reflexivity.
    - apply eqb_false in E. rewrite IH. split; [intros H [H1|H1]; [congruence|tauto]|tauto].
  Qed.

  Lemma alookup_Some_In k v (l : list (K * V)) : alookup eqb k l = Some v -> In (k, v) l.
  Proof.
    induction l as [|[k0 v0] l IH]; cbn [alookup In]; [discriminate|].
    destruct (eqb k k0) eqn:E.
    - apply eqb_eq in E. subst. intros H. injection H as ->. left. reflexivity.
    - intros H. right. apply IH. exact H.
  Qed.

  Lemma keys_aset_present k (v : V) l : alookup eqb k l <> None -> map fst (aset eqb k v l) = map fst l.
  Proof.
    induction l as [|[k0 v0] l IH]; cbn [aset alookup map fst]; [congruence|].
    destruct (eqb k k0) eqn:E; cbn [map fst].
    - apply eqb_eq in E. subst. reflexivity.
    - intros H. rewrite IH; auto.
  Qed.

  Lemma keys_aset_absent k (v : V) l : alookup eqb k l = None -> map fst (aset eqb k v l) = map fst l ++ [k].
  Proof.
    induction l as [|[k0 v0] l IH]; cbn [aset alookup map fst app]; [reflexivity|].
    destruct (eqb k k0) eqn:E; [discriminate|]. cbn [map fst]. intros H. rewrite IH; auto.
  Qed.

  Lemma NoDup_keys_aset k (v : V) l : NoDup (map fst l) -> NoDup (map fst (aset eqb k v l)).
  Proof.
    intros H. destruct (alookup eqb k l) eqn:E.
    - rewrite keys_aset_present; [exact H|congruence].
    - rewrite keys_aset_absent by exact E.
      apply NoDup_app_snoc; [exact H|]. apply alookup_None. exact E.
  Qed.

  Lemma keys_adel_incl k (l : list (K * V)) x : In x (map fst (adel eqb k l)) -> In x (map fst l).
  Proof.
    induction l as [|[k0 v0] l IH]; cbn [adel map fst In]; [tauto|].
    destruct (eqb k k0); cbn [map fst In]; tauto.
  Qed.

  Lemma NoDup_keys_adel k (l : list (K * V)) : NoDup (map fst l) -> NoDup (map fst (adel eqb k l)).
  Proof.
    induction l as [|[k0 v0] l IH]; cbn [adel map fst]; [auto|].
    intros H. inversion H as [|? ? Hn Hd]; subst.
    destruct (eqb k k0); [auto|]. cbn [map fst]. constructor; [|auto].
    intros Hin. apply Hn. eapply keys_adel_incl. exact Hin.
  Qed.

  Lemma length_aset_absent k (v : V) l : alookup eqb k l = None -> length (aset eqb k v l) = S (length l).
  Proof.
    induction l as [|[k0 v0] l IH]; cbn [aset alookup length]; [reflexivity|].
    destruct (eqb k k0); [discriminate|]. cbn [length]. intros H. rewrite IH; auto.
  Qed.

  Lemma adel_absent k (l : list (K * V)) : alookup eqb k l = None -> adel eqb k l = l.
  Proof.
    induction l as [|[k0 v0] l IH]; cbn [adel alookup]; [reflexivity|].
    destruct (eqb k k0); [discriminate|]. intros H. rewrite IH; auto.
  Qed.

  Lemma length_adel_present k v0 (l : list (K * V)) :
    NoDup (map fst l) -> alookup eqb k l = Some v0 -> S (length (adel eqb k l)) = length l.
  Proof.
    induction l as [|[k1 v1] l IH]; cbn [adel alookup length map fst]; [discriminate|].
    intros Hnd H. inversion Hnd as [|? ? Hn Hd]; subst.
    destruct (eqb k k1) eqn:E.
    - apply eqb_eq in E. subst k1. rewrite adel_absent; [reflexivity|]. apply alookup_None. exact Hn.
    - cbn [length]. rewrite IH; auto.
  Qed.
End AssocFacts.

Notation nlookup := (alookup N.eqb).
Definition Neqb_eq := N.eqb_eq.

(* ---- the mailbox of an id, whether or not it is present in the map ------------------------- *)

Definition view (s : state) (c : cid) : mailbox := box_for s c.

Lemma view_find_some s c b : find_box s c = Some b -> view s c = b.
Proof. unfold view, box_for. intros ->. reflexivity. Qed.

Lemma view_find_none s c : find_box s c = None -> view s c = empty_box.
Proof. unfold view, box_for. intros ->. reflexivity. Qed.

Lemma view_set_box s c b c' : view (set_box s c b) c' = if beqb c' c then b else view s c'.
Proof.
  unfold view, box_for, find_box, set_box; cbn [boxes].
  destruct (beqb c' c) eqn:E.
  - apply beqb_eq in E. subst. rewrite (alookup_aset_eq beqb beqb_eq). reflexivity.
  - apply beqb_neq in E. rewrite (alookup_aset_ne beqb beqb_eq) by exact E. reflexivity.
Qed.

Lemma view_del_box s c c' : view (del_box s c) c' = if beqb c' c then empty_box else view s c'.
Proof.
  unfold view, box_for, find_box, del_box; cbn [boxes].
  destruct (beqb c' c) eqn:E.
  - apply beqb_eq in E. subst. rewrite (alookup_adel_eq beqb). reflexivity.
  - apply beqb_neq in E. rewrite (alookup_adel_ne beqb beqb_eq) by exact E. reflexivity.
Qed.

Lemma view_set_buffered s z c : view (set_buffered s z) c = view s c.
Proof. reflexivity. Qed.
Lemma view_fail_locked s k c : view (fail_locked s k) c = view s c.
Proof. reflexivity. Qed.
Lemma view_set_reader s r c : view (set_reader s r) c = view s c.
Proof. reflexivity. Qed.
Lemma view_init q c : view (init q) c = empty_box.
Proof. reflexivity. Qed.

Lemma payloads_signal b : mb_payloads (signal b) = mb_payloads b.
Proof. reflexivity. Qed.
Lemma poison_signal b : mb_poison (signal b) = mb_poison b.
Proof. reflexivity. Qed.

(* ---- collect / remove_all ------------------------------------------------------------------- *)

Lemma collect_keys froms pl res : collect froms pl = Some res -> map fst res = froms.
Proof.
  revert res; induction froms as [|f r IH]; cbn [collect]; intros res H.
  - injection H as <-. reflexivity.
  - destruct (nlookup f pl); [|discriminate]. destruct (collect r pl) eqn:E; [|discriminate].
    injection H as <-. cbn [map fst]. rewrite (IH l); reflexivity.
Qed.

Lemma collect_In froms pl res f p : collect froms pl = Some res -> In (f, p) res -> nlookup f pl = Some p /\ In f froms.
Proof.
  revert res; induction froms as [|g r IH]; cbn [collect]; intros res H Hin.
  - injection H as <-. destruct Hin.
  - destruct (nlookup g pl) eqn:Eg; [|discriminate]. destruct (collect r pl) eqn:E; [|discriminate].
    injection H as <-. destruct Hin as [Hin|Hin].
    + injection Hin as -> ->. split; [exact Eg|left; reflexivity].
    + destruct (IH l eq_refl Hin) as [H1 H2]. split; [exact H1|right; exact H2].
Qed.

Lemma collect_Some_iff froms pl : collect froms pl <> None <-> forall f, In f froms -> nlookup f pl <> None.
Proof.
  induction froms as [|g r IH]; cbn [collect].
  - split; [intros _ f []|discriminate].
  - destruct (nlookup g pl) eqn:Eg.
    + destruct (collect r pl) eqn:E.
      * split; [|discriminate]. intros _ f [<-|Hf]; [congruence|]. apply IH; [discriminate|exact Hf].
      * split; [congruence|]. intros H. exfalso. apply (proj2 IH); [|reflexivity].
        intros f Hf. apply H. right. exact Hf.
    + split; [congruence|]. intros H. exfalso. apply (H g); [left; reflexivity|exact Eg].
Qed.

Lemma collect_lookup froms pl res f : collect froms pl = Some res -> In f froms -> nlookup f res = nlookup f pl.
Proof.
  revert res; induction froms as [|g r IH]; cbn [collect]; intros res H Hin; [destruct Hin|].
  destruct (nlookup g pl) eqn:Eg; [|discriminate]. destruct (collect r pl) eqn:E; [|discriminate].
  injection H as <-. cbn [alookup]. destruct (N.eqb f g) eqn:Efg.
  - apply N.eqb_eq in Efg. subst. symmetry. exact Eg.
  - destruct Hin as [->|Hin]; [rewrite N.eqb_refl in Efg; discriminate|]. apply IH; auto.
Qed.

Lemma lookup_remove_all froms pl f :
  nlookup f (remove_all froms pl) = if mem f froms then None else nlookup f pl.
Proof.
  revert pl; induction froms as [|g r IH]; intros pl; cbn [remove_all]; [reflexivity|].
  rewrite IH. unfold mem. cbn [existsb]. fold (mem f r).
  destruct (N.eqb f g) eqn:E; cbn [orb].
  - apply N.eqb_eq in E. subst. destruct (mem g r); [reflexivity|]. apply (alookup_adel_eq N.eqb).
  - destruct (mem f r); [reflexivity|]. apply (alookup_adel_ne N.eqb Neqb_eq). apply N.eqb_neq. exact E.
Qed.

Lemma NoDup_keys_remove_all froms pl : NoDup (map fst pl) -> NoDup (map fst (remove_all froms pl)).
Proof.
  revert pl; induction froms as [|g r IH]; intros pl H; cbn [remove_all]; [exact H|].
  apply IH. apply NoDup_keys_adel. exact H.
Qed.

Lemma length_remove_all froms (pl : list (N * bytes)) :
  NoDup froms -> NoDup (map fst pl) -> (forall f, In f froms -> nlookup f pl <> None) ->
  (length (remove_all froms pl) + length froms = length pl)%nat.
Proof.
  revert pl; induction froms as [|g r IH]; intros pl Hnd Hpl Hall; cbn [remove_all length]; [lia|].
  inversion Hnd as [|? ? Hg Hr]; subst.
  destruct (nlookup g pl) eqn:Eg; [|exfalso; apply (Hall g); [left; reflexivity|exact Eg]].
  pose proof (length_adel_present N.eqb Neqb_eq g b pl Hpl Eg) as Hlen.
  rewrite <- Hlen.
  rewrite <- (IH (adel N.eqb g pl)); [lia|exact Hr|apply NoDup_keys_adel; exact Hpl|].
  intros f Hf. rewrite (alookup_adel_ne N.eqb Neqb_eq).
  - apply Hall. right. exact Hf.
  - intros ->. contradiction.
Qed.

(* ---- sum of the mailbox sizes ------------------------------------------------------------------- *)

Definition plen (b : mailbox) : Z := Z.of_nat (length (mb_payloads b)).

Fixpoint total (bs : list (cid * mailbox)) : Z :=
  match bs with
  | [] => 0%Z
  | cb :: r => (plen (snd cb) + total r)%Z
  end.

Definition box_or_empty (o : option mailbox) : mailbox := match o with Some b => b | None => empty_box end.

Lemma total_aset c b bs :
  total (aset beqb c b bs) = (total bs - plen (box_or_empty (alookup beqb c bs)) + plen b)%Z.
Proof.
  induction bs as [|[c0 b0] bs IH]; cbn [aset alookup total snd box_or_empty].
  - unfold plen at 2. cbn. lia.
  - destruct (beqb c c0); cbn [total snd box_or_empty]; [lia|]. rewrite IH. lia.
Qed.

Lemma total_adel c bs :
  NoDup (map fst bs) -> total (adel beqb c bs) = (total bs - plen (box_or_empty (alookup beqb c bs)))%Z.
Proof.
  induction bs as [|[c0 b0] bs IH]; cbn [adel alookup total snd box_or_empty map fst]; intros Hnd.
  - unfold plen. cbn. lia.
  - inversion Hnd as [|? ? Hn Hd]; subst. destruct (beqb c c0) eqn:E.
    + apply beqb_eq in E. subst c0.
      rewrite (adel_absent beqb); [cbn [box_or_empty]; lia|]. apply (alookup_None beqb beqb_eq). exact Hn.
    + cbn [total snd]. rewrite IH by exact Hd. lia.
Qed.

Lemma total_nonneg bs : (0 <= total bs)%Z.
Proof. induction bs as [|[c b] bs IH]; cbn [total snd]; unfold plen; lia. Qed.

(* ---- histories and the specification functions over them ----------------------------------------- *)

Definition hist := list (event * output).

(* the reader filed (or compared) the message: it came from a member while the reader was
   running and it was not bounced by the buffer bound *)
Definition filed (d : dep_out) : bool :=
  match d with DStored | DAbsorbed | DPoisoned => true | _ => false end.

Definition pend_step (c : cid) (f : N) (cur : option bytes) (eo : event * output) : option bytes :=
  match eo with
  | (Deposit f' c' p, ODep d) =>
    if filed d && N.eqb f' f && beqb c' c then match cur with Some x => Some x | None => Some p end else cur
  | (RecvCheck c', ORecvOk res) => if beqb c' c && mem f (map fst res) then None else cur
  | _ => cur
  end.

(* newest event first *)
Fixpoint pending_r (tr : hist) (c : cid) (f : N) : option bytes :=
  match tr with
  | [] => None
  | eo :: older => pend_step c f (pending_r older c f) eo
  end.

Definition blame_step (c : cid) (pend : N -> option bytes) (cur : option N) (eo : event * output) : option N :=
  match eo with
  | (Deposit f c' p, ODep d) =>
    if filed d && beqb c' c then
      match pend f with
      | Some p' => if beqb p' p then cur else Some f
      | None => cur
      end
    else cur
  | _ => cur
  end.

Fixpoint blame_r (tr : hist) (c : cid) : option N :=
  match tr with
  | [] => None
  | eo :: older => blame_step c (pending_r older c) (blame_r older c) eo
  end.

Definition enter_step (c : cid) (cur : option (list N)) (eo : event * output) : option (list N) :=
  match eo with
  | (RecvEnter c' froms, OEntered) => if beqb c' c then Some froms else cur
  | (RecvExit c', ONone) => if beqb c' c then None else cur
  | _ => cur
  end.

Fixpoint entered_r (tr : hist) (c : cid) : option (list N) :=
  match tr with
  | [] => None
  | eo :: older => enter_step c (entered_r older c) eo
  end.

(* every state reachable by a finite sequence of atomic steps, with its history *)
Inductive reach (q : list N) : hist -> state -> Prop :=
| reach_init : reach q [] (init q)
| reach_step tr s e : reach q tr s -> reach q ((e, snd (step s e)) :: tr) (fst (step s e)).

(* ---- effect of one step on the observations of a mailbox ------------------------------------------- *)

Ltac step_unfold :=
  unfold step, deposit, bad_message, reader_error, recv_enter, recv_check, wake_token, wake_alt,
         cancel, recv_exit.

Ltac destr1 :=
  match goal with
  | |- context [match ?x with _ => _ end] =>
    match type of x with
    | sumbool _ _ => destruct x
    | _ => destruct x eqn:?
    end
  end.

Ltac views :=
  repeat (rewrite ?view_set_box, ?view_del_box, ?view_set_buffered, ?view_fail_locked, ?view_set_reader in *).

Ltac find_to_view :=
  repeat match goal with
  | H : find_box ?s ?c = Some ?b |- _ => apply view_find_some in H
  | H : find_box ?s ?c = None |- _ => apply view_find_none in H
  end.

Ltac beq_subst :=
  repeat match goal with
  | H : beqb ?a ?b = true |- _ => apply beqb_eq in H; subst
  | H : N.eqb ?a ?b = true |- _ => apply N.eqb_eq in H; subst
  end.

Definition pl (s : state) (c : cid) (f : N) : option bytes := nlookup f (mb_payloads (view s c)).

Lemma step_pl s e c f :
  pl (fst (step s e)) c f = pend_step c f (pl s c f) (e, snd (step s e)).
Proof.
  unfold pl. destruct e; step_unfold; cbn [pend_step].
  - (* Deposit *)
    destruct (reader s); cbn [fst snd filed andb]; try reflexivity.
    destruct (negb (mem from (quorum s))); cbn [fst snd filed andb]; [reflexivity|].
    fold (view s c0).
    destruct (nlookup from (mb_payloads (view s c0))) eqn:Ex.
    + destruct (beqb b p) eqn:Eb; cbn [fst snd filed andb].
      * destruct (N.eqb from f) eqn:Ef; cbn [andb]; [|reflexivity].
        destruct (beqb c0 c) eqn:Ec; [|reflexivity]. beq_subst. rewrite Ex. reflexivity.
      * views. rewrite (beqb_sym c c0).
        destruct (N.eqb from f) eqn:Ef; destruct (beqb c0 c) eqn:Ec; cbn [andb]; beq_subst;
          rewrite ?payloads_signal; cbn [mb_payloads]; try reflexivity.
        rewrite Ex. reflexivity.
    + destruct (buffer_full (buffered s)); cbn [fst snd filed andb].
      * views. destruct (beqb c c0) eqn:Ec; [|reflexivity]. beq_subst. reflexivity.
      * views. rewrite (beqb_sym c c0).
        destruct (beqb c0 c) eqn:Ec; rewrite ?andb_false_r; [|reflexivity]. beq_subst.
        rewrite payloads_signal. cbn [mb_payloads]. rewrite andb_true_r.
        destruct (N.eqb from f) eqn:Ef.
        -- beq_subst. rewrite (alookup_aset_eq N.eqb Neqb_eq). rewrite Ex. reflexivity.
        -- rewrite (alookup_aset_ne N.eqb Neqb_eq); [reflexivity|]. apply N.eqb_neq. rewrite N.eqb_sym. exact Ef.
  - (* BadMessage *)
    destruct (reader s); cbn [fst snd]; try reflexivity.
    destruct (negb (mem from (quorum s))); cbn [fst snd]; reflexivity.
  - (* ReaderError *)
    destruct (reader s); cbn [fst snd]; reflexivity.
  - (* RecvEnter *)
    destruct (fatal s); cbn [fst snd]; [reflexivity|].
    set (s1 := match reader s with RNotStarted => set_reader s RRunning | _ => s end).
    assert (Hv : forall c', view s1 c' = view s c') by (intros c'; unfold s1; destruct (reader s); reflexivity).
    fold (view s1 c0). destruct (mb_waiter (view s1 c0)); cbn [fst snd]; views;
      (destruct (beqb c c0) eqn:Ec; [beq_subst|]); rewrite ?Hv; reflexivity.
  - (* RecvCheck *)
    destruct (find_box s c0) eqn:Eb; cbn [fst snd]; [|reflexivity]. find_to_view.
    destruct (mb_waiter m) eqn:Ew; cbn [fst snd]; [|reflexivity].
    destruct (w_phase w); cbn [fst snd]; try reflexivity.
    destruct (mb_poison m); cbn [fst snd].
    { views. destruct (beqb c c0) eqn:Ec; [beq_subst|]; reflexivity. }
    destruct (collect (w_froms w) (mb_payloads m)) eqn:Ecol; cbn [fst snd].
    { views. rewrite (beqb_sym c c0). destruct (beqb c0 c) eqn:Ec; cbn [andb mb_payloads]; [|reflexivity].
      beq_subst. rewrite lookup_remove_all. rewrite (collect_keys _ _ _ Ecol). reflexivity. }
    destruct (fatal s); cbn [fst snd].
    { views. destruct (beqb c c0) eqn:Ec; [beq_subst|]; reflexivity. }
    destruct (w_cancel w); cbn [fst snd]; views; (destruct (beqb c c0) eqn:Ec; [beq_subst|]); reflexivity.
  - (* WakeToken *)
    destruct (find_box s c0) eqn:Eb; cbn [fst snd]; [|reflexivity]. find_to_view.
    destruct (mb_waiter m) eqn:Ew; cbn [fst snd]; [|reflexivity].
    destruct (w_phase w); cbn [fst snd]; try reflexivity.
    destruct (0 <? w_tokens w)%N; cbn [fst snd]; [|reflexivity].
    views. destruct (beqb c c0) eqn:Ec; [beq_subst|]; reflexivity.
  - (* WakeAlt *)
    destruct (find_box s c0) eqn:Eb; cbn [fst snd]; [|reflexivity]. find_to_view.
    destruct (mb_waiter m) eqn:Ew; cbn [fst snd]; [|reflexivity].
    destruct (w_phase w); cbn [fst snd]; try reflexivity.
    destruct (w_cancel w || is_some (fatal s)); cbn [fst snd]; [|reflexivity].
    views. destruct (beqb c c0) eqn:Ec; [beq_subst|]; reflexivity.
  - (* Cancel *)
    destruct (find_box s c0) eqn:Eb; cbn [fst snd]; [|reflexivity]. find_to_view.
    destruct (mb_waiter m) eqn:Ew; cbn [fst snd]; [|reflexivity].
    views. destruct (beqb c c0) eqn:Ec; [beq_subst|]; reflexivity.
  - (* Shutdown *)
    reflexivity.
  - (* RecvExit *)
    destruct (find_box s c0) eqn:Eb; cbn [fst snd]; [|reflexivity]. find_to_view.
    destruct (mb_waiter m) eqn:Ew; cbn [fst snd]; [|reflexivity].
    destruct (w_phase w); cbn [fst snd]; try reflexivity.
    destruct (mb_payloads m) eqn:Ep; [destruct (mb_poison m)|]; cbn [fst snd]; views;
      (destruct (beqb c c0) eqn:Ec; [beq_subst|]); cbn [mb_payloads set_waiter empty_box]; rewrite ?Ep; reflexivity.
Qed.

Definition poi (s : state) (c : cid) : option N := mb_poison (view s c).

Lemma step_poison s e c :
  poi (fst (step s e)) c = blame_step c (pl s c) (poi s c) (e, snd (step s e)).
Proof.
  unfold poi, pl. destruct e; step_unfold; cbn [blame_step].
  - (* Deposit *)
    destruct (reader s); cbn [fst snd filed andb]; try reflexivity.
    destruct (negb (mem from (quorum s))); cbn [fst snd filed andb]; [reflexivity|].
    fold (view s c0).
    destruct (nlookup from (mb_payloads (view s c0))) eqn:Ex.
    + destruct (beqb b p) eqn:Eb; cbn [fst snd filed andb].
      * destruct (beqb c0 c) eqn:Ec; [|reflexivity]. beq_subst. rewrite Ex. rewrite beqb_refl. reflexivity.
      * views. rewrite (beqb_sym c c0).
        destruct (beqb c0 c) eqn:Ec; [|reflexivity]. beq_subst.
        rewrite poison_signal. cbn [mb_poison]. rewrite Ex, Eb. reflexivity.
    + destruct (buffer_full (buffered s)); cbn [fst snd filed andb].
      * views. destruct (beqb c c0) eqn:Ec; [|reflexivity]. beq_subst. reflexivity.
      * views. rewrite (beqb_sym c c0).
        destruct (beqb c0 c) eqn:Ec; [|reflexivity]. beq_subst.
        rewrite poison_signal. cbn [mb_poison]. rewrite Ex. reflexivity.
  - destruct (reader s); cbn [fst snd]; try reflexivity.
    destruct (negb (mem from (quorum s))); cbn [fst snd]; reflexivity.
  - destruct (reader s); cbn [fst snd]; reflexivity.
  - destruct (fatal s); cbn [fst snd]; [reflexivity|].
    set (s1 := match reader s with RNotStarted => set_reader s RRunning | _ => s end).
    assert (Hv : forall c', view s1 c' = view s c') by (intros c'; unfold s1; destruct (reader s); reflexivity).
    fold (view s1 c0). destruct (mb_waiter (view s1 c0)); cbn [fst snd]; views;
      (destruct (beqb c c0) eqn:Ec; [beq_subst|]); rewrite ?Hv; reflexivity.
  - destruct (find_box s c0) eqn:Eb; cbn [fst snd]; [|reflexivity]. find_to_view.
    destruct (mb_waiter m) eqn:Ew; cbn [fst snd]; [|reflexivity].
    destruct (w_phase w); cbn [fst snd]; try reflexivity.
    destruct (mb_poison m) eqn:Ep; cbn [fst snd].
    { views. destruct (beqb c c0) eqn:Ec; [beq_subst|]; reflexivity. }
    destruct (collect (w_froms w) (mb_payloads m)) eqn:Ecol; cbn [fst snd].
    { views. destruct (beqb c c0) eqn:Ec; [beq_subst|]; cbn [mb_poison]; auto. }
    destruct (fatal s); cbn [fst snd].
    { views. destruct (beqb c c0) eqn:Ec; [beq_subst|]; reflexivity. }
    destruct (w_cancel w); cbn [fst snd]; views; (destruct (beqb c c0) eqn:Ec; [beq_subst|]); reflexivity.
  - destruct (find_box s c0) eqn:Eb; cbn [fst snd]; [|reflexivity]. find_to_view.
    destruct (mb_waiter m) eqn:Ew; cbn [fst snd]; [|reflexivity].
    destruct (w_phase w); cbn [fst snd]; try reflexivity.
    destruct (0 <? w_tokens w)%N; cbn [fst snd]; [|reflexivity].
    views. destruct (beqb c c0) eqn:Ec; [beq_subst|]; reflexivity.
  - destruct (find_box s c0) eqn:Eb; cbn [fst snd]; [|reflexivity]. find_to_view.
    destruct (mb_waiter m) eqn:Ew; cbn [fst snd]; [|reflexivity].
    destruct (w_phase w); cbn [fst snd]; try reflexivity.
    destruct (w_cancel w || is_some (fatal s)); cbn [fst snd]; [|reflexivity].
    views. destruct (beqb c c0) eqn:Ec; [beq_subst|]; reflexivity.
  - destruct (find_box s c0) eqn:Eb; cbn [fst snd]; [|reflexivity]. find_to_view.
    destruct (mb_waiter m) eqn:Ew; cbn [fst snd]; [|reflexivity].
    views. destruct (beqb c c0) eqn:Ec; [beq_subst|]; reflexivity.
  - reflexivity.
  - destruct (find_box s c0) eqn:Eb; cbn [fst snd]; [|reflexivity]. find_to_view.
    destruct (mb_waiter m) eqn:Ew; cbn [fst snd]; [|reflexivity].
    destruct (w_phase w); cbn [fst snd]; try reflexivity.
    destruct (mb_payloads m) eqn:Ep; [destruct (mb_poison m) eqn:Epo|]; cbn [fst snd]; views;
      (destruct (beqb c c0) eqn:Ec; [beq_subst|]); cbn [mb_poison set_waiter empty_box]; rewrite ?Epo; reflexivity.
Qed.

(* ---- the receiver attached to a mailbox -------------------------------------------------------- *)

Lemma signal_waiter_froms w : w_froms (signal_waiter w) = w_froms w.
Proof. unfold signal_waiter. destruct (w_tokens w <? notifyCapacity)%N; [reflexivity|].
  destruct (notifyCapacity =? 0)%N; [|reflexivity]. destruct (w_phase w); reflexivity. Qed.

Lemma signal_waiter_cancel w : w_cancel (signal_waiter w) = w_cancel w.
Proof. unfold signal_waiter. destruct (w_tokens w <? notifyCapacity)%N; [reflexivity|].
  destruct (notifyCapacity =? 0)%N; [|reflexivity]. destruct (w_phase w); reflexivity. Qed.

Lemma signal_waiter_tokens w : (1 <= notifyCapacity)%N -> (0 < w_tokens (signal_waiter w))%N.
Proof.
  intros Hcap. unfold signal_waiter. destruct (w_tokens w <? notifyCapacity)%N eqn:E; cbn [w_tokens]; [lia|].
  destruct (notifyCapacity =? 0)%N eqn:E0; [lia|]. lia.
Qed.

Lemma fatal_fail_locked s k : fatal (fail_locked s k) <> None.
Proof. unfold fail_locked; cbn [fatal]. destruct (fatal s); discriminate. Qed.

Definition wake_ok (s : state) (c : cid) (w : waiter) : Prop :=
  w_phase w = Parked ->
  (mb_poison (view s c) <> None \/ collect (w_froms w) (mb_payloads (view s c)) <> None) ->
  (0 < w_tokens w)%N \/ w_cancel w = true \/ fatal s <> None.

Definition WInv (s : state) : Prop :=
  forall c w, mb_waiter (view s c) = Some w -> NoDup (w_froms w) /\ wake_ok s c w.

Lemma winv_init q : WInv (init q).
Proof. intros c w H. rewrite view_init in H. discriminate. Qed.

(* the mailbox of c and the failure latch only grow towards "wake-up enabled" *)
Lemma wake_ok_frame s s' c w :
  view s' c = view s c -> (fatal s <> None -> fatal s' <> None) -> wake_ok s c w -> wake_ok s' c w.
Proof.
  intros Hv Hf H Hp Hr. rewrite Hv in Hr. destruct (H Hp Hr) as [H1|[H1|H1]]; auto.
Qed.

Lemma winv_step s e : (1 <= notifyCapacity)%N -> WInv s -> WInv (fst (step s e)).
Proof.
  intros Hcap H c w. destruct e; step_unfold.
  - (* Deposit *)
    destruct (reader s); cbn [fst snd]; try apply H.
    destruct (negb (mem from (quorum s))); cbn [fst snd]; [apply H|].
    fold (view s c0).
    destruct (nlookup from (mb_payloads (view s c0))) eqn:Ex.
    + destruct (beqb b p) eqn:Eb; cbn [fst snd]; [apply H|].
      views. destruct (beqb c c0) eqn:Ec.
      * beq_subst. cbn [signal mb_waiter]. destruct (mb_waiter (view s c0)) eqn:Ew; cbn [option_map]; [|discriminate].
        intros Hw. injection Hw as <-. destruct (H c0 w0 Ew) as [Hnd _].
        split; [rewrite signal_waiter_froms; exact Hnd|]. intros _ _. left. apply signal_waiter_tokens. exact Hcap.
      * intros Hw. destruct (H c w Hw) as [Hnd Hwk]. split; [exact Hnd|].
        eapply wake_ok_frame; [| |exact Hwk]; [views; rewrite Ec; reflexivity|auto].
    + destruct (buffer_full (buffered s)); cbn [fst snd].
      * views. intros Hw.
        assert (Hw' : mb_waiter (view s c) = Some w) by (destruct (beqb c c0) eqn:Ec; [beq_subst|]; exact Hw).
        destruct (H c w Hw') as [Hnd Hwk]. split; [exact Hnd|].
        intros _ _. right. right. cbn [set_reader fatal]. apply fatal_fail_locked.
      * views. destruct (beqb c c0) eqn:Ec.
        -- beq_subst. cbn [signal mb_waiter]. destruct (mb_waiter (view s c0)) eqn:Ew; cbn [option_map]; [|discriminate].
           intros Hw. injection Hw as <-. destruct (H c0 w0 Ew) as [Hnd _].
           split; [rewrite signal_waiter_froms; exact Hnd|]. intros _ _. left. apply signal_waiter_tokens. exact Hcap.
        -- intros Hw. destruct (H c w Hw) as [Hnd Hwk]. split; [exact Hnd|].
           eapply wake_ok_frame; [| |exact Hwk]; [views; rewrite Ec; reflexivity|auto].
  - (* BadMessage *)
    destruct (reader s); cbn [fst snd]; try apply H.
    destruct (negb (mem from (quorum s))); cbn [fst snd]; [apply H|].
    views. intros Hw. destruct (H c w Hw) as [Hnd Hwk]. split; [exact Hnd|].
    intros _ _. right. right. cbn [set_reader fatal]. apply fatal_fail_locked.
  - (* ReaderError *)
    destruct (reader s); cbn [fst snd]; try apply H.
    views. intros Hw. destruct (H c w Hw) as [Hnd Hwk]. split; [exact Hnd|].
    intros _ _. right. right. cbn [set_reader fatal]. apply fatal_fail_locked.
  - (* RecvEnter *)
    destruct (fatal s) eqn:Ef; cbn [fst snd]; [apply H|].
    set (s1 := match reader s with RNotStarted => set_reader s RRunning | _ => s end).
    assert (Hv : forall c', view s1 c' = view s c') by (intros c'; unfold s1; destruct (reader s); reflexivity).
    assert (Hf1 : fatal s1 = fatal s) by (unfold s1; destruct (reader s); reflexivity).
    fold (view s1 c0). destruct (mb_waiter (view s1 c0)) eqn:Ew; cbn [fst snd]; views.
    + intros Hw.
      assert (Hw' : mb_waiter (view s c) = Some w) by (destruct (beqb c c0) eqn:Ec; [beq_subst|]; rewrite <- Hv; exact Hw).
      destruct (H c w Hw') as [Hnd Hwk]. split; [exact Hnd|].
      eapply wake_ok_frame; [| |exact Hwk]; [views; destruct (beqb c c0) eqn:Ec; [beq_subst|]; rewrite ?Hv; reflexivity|].
      cbn [set_box fatal]. rewrite Hf1. auto.
    + destruct (beqb c c0) eqn:Ec.
      * beq_subst. cbn [set_waiter mb_waiter]. intros Hw. injection Hw as <-. cbn [w_froms].
        split; [apply dedup_NoDup|]. intros Hp. discriminate.
      * rewrite Hv. intros Hw. destruct (H c w Hw) as [Hnd Hwk]. split; [exact Hnd|].
        eapply wake_ok_frame; [| |exact Hwk]; [views; rewrite Ec; apply Hv|].
        cbn [set_box fatal]. rewrite Hf1. auto.
  - (* RecvCheck *)
    destruct (find_box s c0) eqn:Eb; cbn [fst snd]; [|apply H]. find_to_view.
    destruct (mb_waiter m) eqn:Ew; cbn [fst snd]; [|apply H].
    destruct (w_phase w0) eqn:Eph; cbn [fst snd]; try apply H.
    assert (Hfin : forall s' b', view s' c0 = set_waiter b' (Some (set_phase w0 Finished)) \/
                                 mb_waiter (view s' c0) = Some (set_phase w0 Finished) ->
                                 (forall c', c' <> c0 -> view s' c' = view s c') -> fatal s' = fatal s ->
                                 mb_waiter (view s' c) = Some w -> NoDup (w_froms w) /\ wake_ok s' c w).
    { intros s' b' Hb Hoth Hfa Hw. destruct (beqb c c0) eqn:Ec.
      - beq_subst. assert (Hww : mb_waiter (view s' c0) = Some (set_phase w0 Finished)).
        { destruct Hb as [Hb|Hb]; [rewrite Hb; reflexivity|exact Hb]. }
        rewrite Hww in Hw. injection Hw as <-. cbn [set_phase w_froms].
        split; [apply (H c0 w0 Ew)|]. intros Hp. discriminate.
      - apply beqb_neq in Ec. rewrite (Hoth c Ec) in Hw. destruct (H c w Hw) as [Hnd Hwk]. split; [exact Hnd|].
        eapply wake_ok_frame; [| |exact Hwk]; [apply Hoth; exact Ec|rewrite Hfa; auto]. }
    assert (Hoth : forall b' c', c' <> c0 -> view (set_box s c0 b') c' = view s c').
    { intros b' c' Hne. views. apply beqb_neq in Hne. rewrite Hne. reflexivity. }
    destruct (mb_poison m) eqn:Ep; cbn [fst snd].
    { apply (Hfin _ m); [left; views; rewrite beqb_refl; reflexivity|apply Hoth|cbn [set_box set_buffered fatal]; auto]. }
    destruct (collect (w_froms w0) (mb_payloads m)) eqn:Ecol; cbn [fst snd].
    { apply (Hfin _ m); [right; views; rewrite beqb_refl; reflexivity|intros c' Hne; views; apply beqb_neq in Hne; rewrite Hne; reflexivity|cbn [set_box set_buffered fatal]; auto]. }
    destruct (fatal s) eqn:Ef; cbn [fst snd].
    { apply (Hfin _ m); [left; views; rewrite beqb_refl; reflexivity|apply Hoth|cbn [set_box set_buffered fatal]; auto]. }
    destruct (w_cancel w0) eqn:Eca; cbn [fst snd].
    { apply (Hfin _ m); [left; views; rewrite beqb_refl; reflexivity|apply Hoth|cbn [set_box set_buffered fatal]; auto]. }
    views. destruct (beqb c c0) eqn:Ec.
    + beq_subst. cbn [set_waiter mb_waiter]. intros Hw. injection Hw as <-. cbn [set_phase w_froms].
      split; [apply (H c0 w0 Ew)|]. intros _ Hr. exfalso. rewrite view_set_box, beqb_refl in Hr. cbn [set_waiter set_phase w_froms mb_poison mb_payloads] in Hr.
      destruct Hr as [Hr|Hr]; [rewrite Ep in Hr|rewrite Ecol in Hr]; apply Hr; reflexivity.
    + intros Hw. destruct (H c w Hw) as [Hnd Hwk]. split; [exact Hnd|].
      eapply wake_ok_frame; [| |exact Hwk]; [views; rewrite Ec; reflexivity|auto].
  - (* WakeToken *)
    destruct (find_box s c0) eqn:Eb; cbn [fst snd]; [|apply H]. find_to_view.
    destruct (mb_waiter m) eqn:Ew; cbn [fst snd]; [|apply H].
    destruct (w_phase w0) eqn:Eph; cbn [fst snd]; try apply H.
    destruct (0 <? w_tokens w0)%N; cbn [fst snd]; [|apply H].
    views. destruct (beqb c c0) eqn:Ec.
    + beq_subst. cbn [set_waiter mb_waiter]. intros Hw. injection Hw as <-. cbn [w_froms].
      split; [apply (H c0 w0 Ew)|]. intros Hp. discriminate.
    + intros Hw. destruct (H c w Hw) as [Hnd Hwk]. split; [exact Hnd|].
      eapply wake_ok_frame; [| |exact Hwk]; [views; rewrite Ec; reflexivity|auto].
  - (* WakeAlt *)
    destruct (find_box s c0) eqn:Eb; cbn [fst snd]; [|apply H]. find_to_view.
    destruct (mb_waiter m) eqn:Ew; cbn [fst snd]; [|apply H].
    destruct (w_phase w0) eqn:Eph; cbn [fst snd]; try apply H.
    destruct (w_cancel w0 || is_some (fatal s)); cbn [fst snd]; [|apply H].
    views. destruct (beqb c c0) eqn:Ec.
    + beq_subst. cbn [set_waiter mb_waiter]. intros Hw. injection Hw as <-. cbn [set_phase w_froms].
      split; [apply (H c0 w0 Ew)|]. intros Hp. discriminate.
    + intros Hw. destruct (H c w Hw) as [Hnd Hwk]. split; [exact Hnd|].
      eapply wake_ok_frame; [| |exact Hwk]; [views; rewrite Ec; reflexivity|auto].
  - (* Cancel *)
    destruct (find_box s c0) eqn:Eb; cbn [fst snd]; [|apply H]. find_to_view.
    destruct (mb_waiter m) eqn:Ew; cbn [fst snd]; [|apply H].
    views. destruct (beqb c c0) eqn:Ec.
    + beq_subst. cbn [set_waiter mb_waiter]. intros Hw. injection Hw as <-. cbn [w_froms].
      split; [apply (H c0 w0 Ew)|]. intros _ _. right. left. reflexivity.
    + intros Hw. destruct (H c w Hw) as [Hnd Hwk]. split; [exact Hnd|].
      eapply wake_ok_frame; [| |exact Hwk]; [views; rewrite Ec; reflexivity|auto].
  - (* Shutdown *)
    cbn [fst]. views. intros Hw. destruct (H c w Hw) as [Hnd Hwk]. split; [exact Hnd|].
    intros _ _. right. right. apply fatal_fail_locked.
  - (* RecvExit *)
    destruct (find_box s c0) eqn:Eb; cbn [fst snd]; [|apply H]. find_to_view.
    destruct (mb_waiter m) eqn:Ew; cbn [fst snd]; [|apply H].
    destruct (w_phase w0) eqn:Eph; cbn [fst snd]; try apply H.
    destruct (mb_payloads m) eqn:Ep; [destruct (mb_poison m) eqn:Epo|]; cbn [fst snd]; views;
      (destruct (beqb c c0) eqn:Ec;
       [beq_subst; cbn [set_waiter mb_waiter empty_box]; discriminate
       |intros Hw; destruct (H c w Hw) as [Hnd Hwk]; split; [exact Hnd|];
        eapply wake_ok_frame; [| |exact Hwk]; [views; rewrite Ec; reflexivity|auto]]).
Qed.

(* ---- structure of the maps and the buffer count ---------------------------------------------- *)

Lemma total_set_box s c b : total (boxes (set_box s c b)) = (total (boxes s) - plen (view s c) + plen b)%Z.
Proof. cbn [set_box boxes]. rewrite total_aset. reflexivity. Qed.

Lemma total_del_box s c : NoDup (map fst (boxes s)) ->
  total (boxes (del_box s c)) = (total (boxes s) - plen (view s c))%Z.
Proof. intros H. cbn [del_box boxes]. rewrite total_adel by exact H. reflexivity. Qed.

Lemma quorum_step s e : quorum (fst (step s e)) = quorum s.
Proof.
  destruct e; step_unfold; cbn [fst]; try reflexivity;
    repeat (destr1; cbn [fst set_box set_buffered set_reader fail_locked del_box quorum]; try reflexivity).
Qed.

Record SInv (s : state) : Prop := {
  si_boxes : NoDup (map fst (boxes s));
  si_pl : forall c, NoDup (map fst (mb_payloads (view s c)));
  si_total : buffered s = total (boxes s) }.

Lemma sinv_init q : SInv (init q).
Proof. split; cbn; [constructor|intros; constructor|reflexivity]. Qed.

Lemma sinv_set_box s c b z :
  SInv s -> NoDup (map fst (mb_payloads b)) -> z = (buffered s - plen (view s c) + plen b)%Z ->
  SInv (set_buffered (set_box s c b) z).
Proof.
  intros [H1 H2 H3] Hb Hz. split.
  - cbn [set_buffered set_box boxes]. apply NoDup_keys_aset; [exact beqb_eq|exact H1].
  - intros c'. views. destruct (beqb c' c); [exact Hb|apply H2].
  - cbn [set_buffered buffered boxes]. rewrite total_set_box. lia.
Qed.

Lemma sinv_set_box' s c b :
  SInv s -> NoDup (map fst (mb_payloads b)) -> plen b = plen (view s c) -> SInv (set_box s c b).
Proof.
  intros H Hb Hl. change (set_box s c b) with (set_buffered (set_box s c b) (buffered s)).
  apply sinv_set_box; auto. lia.
Qed.

Lemma sinv_fields s s' : boxes s' = boxes s -> buffered s' = buffered s -> SInv s -> SInv s'.
Proof.
  intros Hb Hz [H1 H2 H3]. split.
  - rewrite Hb. exact H1.
  - intros c. unfold view, box_for, find_box. rewrite Hb. apply H2.
  - rewrite Hz, Hb. exact H3.
Qed.

Lemma sinv_step s e : WInv s -> SInv s -> SInv (fst (step s e)).
Proof.
  intros HW H. destruct e; step_unfold.
  - (* Deposit *)
    destruct (reader s); cbn [fst snd]; try exact H.
    destruct (negb (mem from (quorum s))); cbn [fst snd]; [exact H|].
    fold (view s c).
    destruct (nlookup from (mb_payloads (view s c))) eqn:Ex.
    + destruct (beqb b p) eqn:Eb; cbn [fst snd]; [exact H|].
      apply sinv_set_box'; [exact H|rewrite payloads_signal; apply (si_pl s H)|reflexivity].
    + destruct (buffer_full (buffered s)); cbn [fst snd].
      * apply (sinv_fields (set_box s c (view s c))); [reflexivity|reflexivity|].
        apply sinv_set_box'; [exact H|apply (si_pl s H)|reflexivity].
      * apply sinv_set_box; [exact H| |].
        -- rewrite payloads_signal. cbn [mb_payloads]. apply NoDup_keys_aset; [exact N.eqb_eq|apply (si_pl s H)].
        -- unfold plen. rewrite payloads_signal. cbn [mb_payloads].
           rewrite (length_aset_absent N.eqb) by exact Ex. lia.
  - destruct (reader s); cbn [fst snd]; try exact H.
    destruct (negb (mem from (quorum s))); cbn [fst snd]; [exact H|].
    apply (sinv_fields s); [reflexivity|reflexivity|exact H].
  - destruct (reader s); cbn [fst snd]; try exact H.
    apply (sinv_fields s); [reflexivity|reflexivity|exact H].
  - (* RecvEnter *)
    destruct (fatal s) eqn:Ef; cbn [fst snd]; [exact H|].
    set (s1 := match reader s with RNotStarted => set_reader s RRunning | _ => s end).
    assert (H1 : SInv s1) by (apply (sinv_fields s); [unfold s1; destruct (reader s); reflexivity|unfold s1; destruct (reader s); reflexivity|exact H]).
    fold (view s1 c). destruct (mb_waiter (view s1 c)) eqn:Ew; cbn [fst snd].
    + apply sinv_set_box'; [exact H1|apply (si_pl s1 H1)|reflexivity].
    + apply sinv_set_box'; [exact H1|apply (si_pl s1 H1)|reflexivity].
  - (* RecvCheck *)
    destruct (find_box s c) eqn:Eb; cbn [fst snd]; [|exact H]. find_to_view.
    destruct (mb_waiter m) eqn:Ew; cbn [fst snd]; [|exact H].
    destruct (w_phase w) eqn:Eph; cbn [fst snd]; try exact H.
    assert (Hsw : forall w', SInv (set_box s c (set_waiter m w'))).
    { intros w'. apply sinv_set_box'; [exact H|subst m; apply (si_pl s H)|subst m; reflexivity]. }
    destruct (mb_poison m) eqn:Ep; cbn [fst snd]; [apply Hsw|].
    destruct (collect (w_froms w) (mb_payloads m)) eqn:Ecol; cbn [fst snd].
    { subst m. destruct (HW c w Ew) as [Hnd _].
      apply sinv_set_box; [exact H|cbn [mb_payloads]; apply NoDup_keys_remove_all; apply (si_pl s H)|].
      unfold plen. cbn [mb_payloads].
      pose proof (length_remove_all (w_froms w) (mb_payloads (view s c)) Hnd (si_pl s H c)) as Hl.
      assert (Hall : forall f, In f (w_froms w) -> nlookup f (mb_payloads (view s c)) <> None).
      { apply collect_Some_iff. rewrite Ecol. discriminate. }
      specialize (Hl Hall). lia. }
    destruct (fatal s); cbn [fst snd]; [apply Hsw|].
    destruct (w_cancel w); cbn [fst snd]; apply Hsw.
  - destruct (find_box s c) eqn:Eb; cbn [fst snd]; [|exact H]. find_to_view.
    destruct (mb_waiter m) eqn:Ew; cbn [fst snd]; [|exact H].
    destruct (w_phase w) eqn:Eph; cbn [fst snd]; try exact H.
    destruct (0 <? w_tokens w)%N; cbn [fst snd]; [|exact H].
    apply sinv_set_box'; [exact H|subst m; apply (si_pl s H)|subst m; reflexivity].
  - destruct (find_box s c) eqn:Eb; cbn [fst snd]; [|exact H]. find_to_view.
    destruct (mb_waiter m) eqn:Ew; cbn [fst snd]; [|exact H].
    destruct (w_phase w) eqn:Eph; cbn [fst snd]; try exact H.
    destruct (w_cancel w || is_some (fatal s)); cbn [fst snd]; [|exact H].
    apply sinv_set_box'; [exact H|subst m; apply (si_pl s H)|subst m; reflexivity].
  - destruct (find_box s c) eqn:Eb; cbn [fst snd]; [|exact H]. find_to_view.
    destruct (mb_waiter m) eqn:Ew; cbn [fst snd]; [|exact H].
    apply sinv_set_box'; [exact H|subst m; apply (si_pl s H)|subst m; reflexivity].
  - cbn [fst]. apply (sinv_fields s); [reflexivity|reflexivity|exact H].
  - (* RecvExit *)
    destruct (find_box s c) eqn:Eb; cbn [fst snd]; [|exact H]. find_to_view.
    destruct (mb_waiter m) eqn:Ew; cbn [fst snd]; [|exact H].
    destruct (w_phase w) eqn:Eph; cbn [fst snd]; try exact H.
    destruct (mb_payloads m) eqn:Epl; [destruct (mb_poison m) eqn:Epo|]; cbn [fst snd];
      try (apply sinv_set_box'; [exact H|subst m; apply (si_pl s H)|subst m; reflexivity]).
    destruct H as [H1 H2 H3]. split.
    + cbn [del_box boxes]. apply NoDup_keys_adel. exact H1.
    + intros c'. views. destruct (beqb c' c); [constructor|apply H2].
    + cbn [del_box buffered]. change (adel beqb c (boxes s)) with (boxes (del_box s c)).
      rewrite total_del_box by exact H1. rewrite Eb. unfold plen. rewrite Epl. cbn [length]. lia.
Qed.

(* ---- the sender list of the attached receive ------------------------------------------------- *)

Definition wf (s : state) (c : cid) : option (list N) := option_map w_froms (mb_waiter (view s c)).

Definition wf_step (c : cid) (cur : option (list N)) (eo : event * output) : option (list N) :=
  match eo with
  | (RecvEnter c' froms, OEntered) => if beqb c' c then Some (dedup froms) else cur
  | (RecvExit c', ONone) => if beqb c' c then None else cur
  | _ => cur
  end.

Lemma step_wf s e c : wf (fst (step s e)) c = wf_step c (wf s c) (e, snd (step s e)).
Proof.
  unfold wf. destruct e; step_unfold; cbn [wf_step].
  - destruct (reader s); cbn [fst snd]; try reflexivity.
    destruct (negb (mem from (quorum s))); cbn [fst snd]; [reflexivity|].
    fold (view s c0).
    destruct (nlookup from (mb_payloads (view s c0))) eqn:Ex.
    + destruct (beqb b p) eqn:Eb; cbn [fst snd]; [reflexivity|].
      views. destruct (beqb c c0) eqn:Ec; [|reflexivity]. beq_subst. cbn [signal mb_waiter].
      destruct (mb_waiter (view s c0)); cbn [option_map]; [rewrite signal_waiter_froms|]; reflexivity.
    + destruct (buffer_full (buffered s)); cbn [fst snd].
      * views. destruct (beqb c c0) eqn:Ec; [|reflexivity]. beq_subst. reflexivity.
      * views. destruct (beqb c c0) eqn:Ec; [|reflexivity]. beq_subst. cbn [signal mb_waiter].
        destruct (mb_waiter (view s c0)); cbn [option_map]; [rewrite signal_waiter_froms|]; reflexivity.
  - destruct (reader s); cbn [fst snd]; try reflexivity.
    destruct (negb (mem from (quorum s))); cbn [fst snd]; reflexivity.
  - destruct (reader s); cbn [fst snd]; reflexivity.
  - destruct (fatal s); cbn [fst snd]; [reflexivity|].
    set (s1 := match reader s with RNotStarted => set_reader s RRunning | _ => s end).
    assert (Hv : forall c', view s1 c' = view s c') by (intros c'; unfold s1; destruct (reader s); reflexivity).
    fold (view s1 c0). destruct (mb_waiter (view s1 c0)) eqn:Ew; cbn [fst snd]; views; rewrite ?(beqb_sym c0 c);
      (destruct (beqb c c0) eqn:Ec; [beq_subst|]); rewrite ?Hv; try reflexivity.
  - destruct (find_box s c0) eqn:Eb; cbn [fst snd]; [|reflexivity]. find_to_view.
    destruct (mb_waiter m) eqn:Ew; cbn [fst snd]; [|reflexivity].
    destruct (w_phase w); cbn [fst snd]; try reflexivity.
    destruct (mb_poison m) eqn:Ep; cbn [fst snd].
    { views. destruct (beqb c c0) eqn:Ec; [beq_subst; rewrite Ew|]; reflexivity. }
    destruct (collect (w_froms w) (mb_payloads m)) eqn:Ecol; cbn [fst snd].
    { views. destruct (beqb c c0) eqn:Ec; [beq_subst; rewrite Ew|]; reflexivity. }
    destruct (fatal s); cbn [fst snd].
    { views. destruct (beqb c c0) eqn:Ec; [beq_subst; rewrite Ew|]; reflexivity. }
    destruct (w_cancel w); cbn [fst snd]; views; (destruct (beqb c c0) eqn:Ec; [beq_subst; rewrite Ew|]); reflexivity.
  - destruct (find_box s c0) eqn:Eb; cbn [fst snd]; [|reflexivity]. find_to_view.
    destruct (mb_waiter m) eqn:Ew; cbn [fst snd]; [|reflexivity].
    destruct (w_phase w); cbn [fst snd]; try reflexivity.
    destruct (0 <? w_tokens w)%N; cbn [fst snd]; [|reflexivity].
    views. destruct (beqb c c0) eqn:Ec; [beq_subst; rewrite Ew|]; reflexivity.
  - destruct (find_box s c0) eqn:Eb; cbn [fst snd]; [|reflexivity]. find_to_view.
    destruct (mb_waiter m) eqn:Ew; cbn [fst snd]; [|reflexivity].
    destruct (w_phase w); cbn [fst snd]; try reflexivity.
    destruct (w_cancel w || is_some (fatal s)); cbn [fst snd]; [|reflexivity].
    views. destruct (beqb c c0) eqn:Ec; [beq_subst; rewrite Ew|]; reflexivity.
  - destruct (find_box s c0) eqn:Eb; cbn [fst snd]; [|reflexivity]. find_to_view.
    destruct (mb_waiter m) eqn:Ew; cbn [fst snd]; [|reflexivity].
    views. destruct (beqb c c0) eqn:Ec; [beq_subst; rewrite Ew|]; reflexivity.
  - reflexivity.
  - destruct (find_box s c0) eqn:Eb; cbn [fst snd]; [|reflexivity]. find_to_view.
    destruct (mb_waiter m) eqn:Ew; cbn [fst snd]; [|reflexivity].
    destruct (w_phase w); cbn [fst snd]; try reflexivity.
    destruct (mb_payloads m) eqn:Epl; [destruct (mb_poison m) eqn:Epo|]; cbn [fst snd]; views; rewrite ?(beqb_sym c0 c);
      (destruct (beqb c c0) eqn:Ec; [beq_subst|]); reflexivity.
Qed.

(* ---- invariants of every reachable state ---------------------------------------------------------- *)

(* about the regenerated constants *)
Lemma notify_capacity_pos : (1 <= notifyCapacity)%N.
Proof. unfold notifyCapacity. lia. Qed.

Lemma buffer_full_bound b : buffer_full b = true -> (maxReceiveBufferSize <= b)%Z.
Proof. unfold buffer_full. lia. Qed.

Lemma reach_quorum q tr s : reach q tr s -> quorum s = q.
Proof. induction 1; [reflexivity|]. rewrite quorum_step. assumption. Qed.

Lemma reach_winv q tr s : reach q tr s -> WInv s.
Proof. induction 1; [apply winv_init|]. apply winv_step; [exact notify_capacity_pos|assumption]. Qed.

Lemma reach_sinv q tr s : reach q tr s -> SInv s.
Proof. induction 1 as [|tr s e H IH]; [apply sinv_init|]. apply sinv_step; [eapply reach_winv; exact H|exact IH]. Qed.

Lemma reach_pl q tr s : reach q tr s -> forall c f, pl s c f = pending_r tr c f.
Proof.
  induction 1 as [|tr s e H IH]; intros c f; [reflexivity|].
  rewrite step_pl. cbn [pending_r]. rewrite IH. reflexivity.
Qed.

Lemma reach_poison q tr s : reach q tr s -> forall c, poi s c = blame_r tr c.
Proof.
  induction 1 as [|tr s e H IH]; intros c; [reflexivity|].
  rewrite step_poison. cbn [blame_r]. rewrite IH.
  unfold blame_step. destruct e; try reflexivity. destruct (snd (step s (Deposit from c0 p))); try reflexivity.
  rewrite (reach_pl q tr s H). reflexivity.
Qed.

Lemma reach_wf q tr s : reach q tr s -> forall c, wf s c = option_map dedup (entered_r tr c).
Proof.
  induction 1 as [|tr s e H IH]; intros c; [reflexivity|].
  rewrite step_wf. cbn [entered_r]. rewrite IH. unfold wf_step, enter_step.
  destruct e; try reflexivity; destruct (snd (step s _)); try reflexivity; destruct (beqb c0 c); reflexivity.
Qed.

(* a filed deposit comes from a member *)
Lemma deposit_filed_member s f c p d :
  snd (step s (Deposit f c p)) = ODep d -> filed d = true -> mem f (quorum s) = true.
Proof.
  cbn [step]. unfold deposit. destruct (reader s); cbn [snd]; try (intros H; injection H as <-; discriminate).
  destruct (mem f (quorum s)); cbn [negb snd]; [reflexivity|]. intros H; injection H as <-; discriminate.
Qed.

Lemma filed_member q tr s : reach q tr s ->
  forall f c p d, In (Deposit f c p, ODep d) tr -> filed d = true -> mem f q = true.
Proof.
  induction 1 as [|tr s e H IH]; intros f c p d Hin Hf; [destruct Hin|].
  destruct Hin as [Heq|Hin]; [|eapply IH; eauto].
  injection Heq as -> Ho. rewrite <- (reach_quorum q tr s H). eapply deposit_filed_member; eauto.
Qed.

(* ---- what the specification functions say, declaratively ------------------------------------------ *)

Definition consumes (c : cid) (f : N) (eo : event * output) : Prop :=
  exists res, eo = (RecvCheck c, ORecvOk res) /\ In f (map fst res).

(* pending = payload of a filed deposit of exactly (f, c) made when nothing of (f, c) was
   pending (the first one since the last consumption), not consumed since *)
Lemma pending_r_spec tr c f p :
  pending_r tr c f = Some p <->
  exists newer older d, tr = newer ++ (Deposit f c p, ODep d) :: older /\ filed d = true /\
    pending_r older c f = None /\ (forall eo, In eo newer -> ~ consumes c f eo).
Proof.
  split.
  - revert p. induction tr as [|eo tr IH]; intros p; cbn [pending_r]; [discriminate|].
    assert (Hkeep : pending_r tr c f = Some p -> ~ consumes c f eo ->
      exists newer older d, eo :: tr = newer ++ (Deposit f c p, ODep d) :: older /\ filed d = true /\
        pending_r older c f = None /\ (forall eo', In eo' newer -> ~ consumes c f eo')).
    { intros Hp Hnc. destruct (IH p Hp) as (nw & ol & d & -> & Hd & Hn & Hc).
      exists (eo :: nw), ol, d. split; [reflexivity|]. split; [exact Hd|]. split; [exact Hn|].
      intros eo' [<-|Hin]; [exact Hnc|apply Hc; exact Hin]. }
    destruct eo as [e o]. unfold pend_step.
    destruct e; try (intros Hp; apply Hkeep; [exact Hp|intros (r0 & Heq & _); discriminate]).
    + destruct o; try (intros Hp; apply Hkeep; [exact Hp|intros (r0 & Heq & _); discriminate]).
      destruct (filed d && N.eqb from f && beqb c0 c) eqn:Ecd.
      * apply andb_true_iff in Ecd as [Ecd Ec]. apply andb_true_iff in Ecd as [Ed Ef]. beq_subst.
        destruct (pending_r tr c f) eqn:Ep.
        -- intros Hp. injection Hp as ->. apply Hkeep; [reflexivity|intros (r0 & Heq & _); discriminate].
        -- intros Hp. injection Hp as ->. exists [], tr, d. repeat split; auto.
      * intros Hp; apply Hkeep; [exact Hp|intros (r0 & Heq & _); discriminate].
    + destruct o; try (intros Hp; apply Hkeep; [exact Hp|intros (res' & Heq & _); discriminate]).
      destruct (beqb c0 c && mem f (map fst res)) eqn:Ecd; [discriminate|].
      intros Hp. apply Hkeep; [exact Hp|]. intros (res' & Heq & Hin). injection Heq as -> ->.
      rewrite beqb_refl in Ecd. cbn [andb] in Ecd. apply mem_false in Ecd. contradiction.
  - intros (nw & ol & d & -> & Hd & Hn & Hc). induction nw as [|eo nw IH]; cbn [app pending_r].
    + unfold pend_step. rewrite Hd, N.eqb_refl, beqb_refl, Hn. reflexivity.
    + rewrite IH by (intros eo' Hin; apply Hc; right; exact Hin).
      destruct eo as [e o]. unfold pend_step. destruct e; try reflexivity; destruct o; try reflexivity.
      * destruct (filed d0 && N.eqb from f && beqb c0 c); reflexivity.
      * destruct (beqb c0 c && mem f (map fst res)) eqn:Ecd; [|reflexivity].
        exfalso. apply andb_true_iff in Ecd as [Ec Em]. beq_subst. apply mem_In in Em.
        apply (Hc (RecvCheck c, ORecvOk res)); [left; reflexivity|]. exists res. split; [reflexivity|exact Em].
Qed.

Lemma pending_sound tr c f p :
  pending_r tr c f = Some p -> exists d, In (Deposit f c p, ODep d) tr /\ filed d = true.
Proof.
  intros H. apply pending_r_spec in H as (nw & ol & d & -> & Hd & _). exists d. split; [|exact Hd].
  apply in_or_app. right. left. reflexivity.
Qed.

(* blame = the sender of the latest filed deposit that differed from what was pending *)
Lemma blame_r_spec tr c g :
  blame_r tr c = Some g ->
  exists newer older p p' d, tr = newer ++ (Deposit g c p', ODep d) :: older /\ filed d = true /\
    pending_r older c g = Some p /\ p <> p'.
Proof.
  induction tr as [|eo tr IH]; cbn [blame_r]; [discriminate|].
  assert (Hkeep : blame_r tr c = Some g ->
    exists newer older p p' d, eo :: tr = newer ++ (Deposit g c p', ODep d) :: older /\ filed d = true /\
      pending_r older c g = Some p /\ p <> p').
  { intros Hb. destruct (IH Hb) as (nw & ol & p & p' & d & -> & H1 & H2 & H3).
    exists (eo :: nw), ol, p, p', d. repeat split; auto. }
  destruct eo as [e o]. unfold blame_step. destruct e; try exact Hkeep. destruct o; try exact Hkeep.
  destruct (filed d && beqb c0 c) eqn:Ecd; [|exact Hkeep].
  apply andb_true_iff in Ecd as [Ed Ec]. beq_subst.
  destruct (pending_r tr c from) eqn:Ep; [|exact Hkeep].
  destruct (beqb b p) eqn:Eb; [exact Hkeep|].
  intros H. injection H as ->. exists [], tr, b, p, d. repeat split; auto. apply beqb_neq. exact Eb.
Qed.

Lemma blame_r_persist tr c eo : blame_r tr c <> None -> blame_r (eo :: tr) c <> None.
Proof.
  cbn [blame_r]. destruct eo as [e o]. unfold blame_step. destruct e; auto. destruct o; auto.
  destruct (filed d && beqb c0 c); auto. destruct (pending_r tr c from); auto. destruct (beqb b p); auto. discriminate.
Qed.

(* ---- the property lemmas ------------------------------------------------------------------------------ *)

(* what an enabled check does, as a function of the observations *)
Lemma recv_check_cases s c w :
  mb_waiter (view s c) = Some w -> w_phase w = Checking ->
  snd (step s (RecvCheck c)) =
    match mb_poison (view s c) with
    | Some g => ORecvErr (EConflict g)
    | None =>
      match collect (w_froms w) (mb_payloads (view s c)) with
      | Some res => ORecvOk res
      | None =>
        match fatal s with
        | Some k => ORecvErr (EFatal k)
        | None => if w_cancel w then ORecvErr ECancelled else OParked
        end
      end
    end.
Proof.
  intros Hw Hp. cbn [step]. unfold recv_check.
  destruct (find_box s c) eqn:Eb.
  - find_to_view. subst m. rewrite Hw, Hp.
    destruct (mb_poison (view s c)); [reflexivity|].
    destruct (collect (w_froms w) (mb_payloads (view s c))); [reflexivity|].
    destruct (fatal s); [reflexivity|]. destruct (w_cancel w); reflexivity.
  - find_to_view. rewrite Eb in Hw. discriminate.
Qed.

Lemma recv_check_enabled s c o :
  snd (step s (RecvCheck c)) = o -> o <> ODisabled ->
  exists w, mb_waiter (view s c) = Some w /\ w_phase w = Checking.
Proof.
  cbn [step]. unfold recv_check. destruct (find_box s c) eqn:Eb; cbn [snd]; [|congruence].
  find_to_view. subst m. destruct (mb_waiter (view s c)) eqn:Ew; cbn [snd]; [|congruence].
  destruct (w_phase w) eqn:Ep; cbn [snd]; try congruence. intros _ _. exists w. split; [reflexivity|exact Ep].
Qed.

(* recv_exact *)
Lemma recv_exact q tr s c s' res :
  reach q tr s -> step s (RecvCheck c) = (s', ORecvOk res) ->
  exists froms, entered_r tr c = Some froms /\ map fst res = dedup froms /\ NoDup (map fst res) /\
    (forall f, In f froms -> exists p, In (f, p) res) /\
    (forall f p, In (f, p) res ->
       pending_r tr c f = Some p /\ In f q /\ exists d, In (Deposit f c p, ODep d) tr /\ filed d = true).
Proof.
  intros Hr Hs. assert (Ho : snd (step s (RecvCheck c)) = ORecvOk res) by (rewrite Hs; reflexivity).
  destruct (recv_check_enabled s c _ Ho) as (w & Hw & Hp); [discriminate|].
  rewrite (recv_check_cases s c w Hw Hp) in Ho.
  destruct (mb_poison (view s c)); [discriminate|].
  destruct (collect (w_froms w) (mb_payloads (view s c))) eqn:Ecol.
  2: { destruct (fatal s); [discriminate|]. destruct (w_cancel w); discriminate. }
  injection Ho as ->.
  pose proof (reach_wf q tr s Hr c) as Hwf. unfold wf in Hwf. rewrite Hw in Hwf. cbn [option_map] in Hwf.
  destruct (entered_r tr c) as [froms|] eqn:Een; cbn [option_map] in Hwf; [|discriminate].
  injection Hwf as Hwf. exists froms. split; [reflexivity|].
  pose proof (collect_keys _ _ _ Ecol) as Hk. rewrite Hwf in Hk.
  split; [exact Hk|]. split; [rewrite Hk; apply dedup_NoDup|]. split.
  - intros f Hf. assert (Hin : In f (map fst res)) by (rewrite Hk; apply dedup_In; exact Hf).
    apply in_map_iff in Hin as ([f' p] & Hfp & Hin). cbn [fst] in Hfp. subst f'. exists p. exact Hin.
  - intros f p Hin. destruct (collect_In _ _ _ f p Ecol Hin) as [Hl _].
    assert (Hpe : pending_r tr c f = Some p) by (rewrite <- (reach_pl q tr s Hr); exact Hl).
    split; [exact Hpe|]. destruct (pending_sound tr c f p Hpe) as (d & Hd & Hf).
    split; [apply mem_In; eapply filed_member; eauto|]. exists d. split; assumption.
Qed.

(* dup_absorbed *)
Lemma dup_absorbed q tr s f c p :
  reach q tr s -> reader s = RRunning -> pending_r tr c f = Some p ->
  step s (Deposit f c p) = (s, ODep DAbsorbed).
Proof.
  intros Hr Hrd Hp. rewrite <- (reach_pl q tr s Hr) in Hp. unfold pl in Hp.
  assert (Hm : mem f (quorum s) = true).
  { rewrite (reach_quorum q tr s Hr). destruct (pending_sound tr c f p) as (d & Hd & Hf).
    - rewrite <- (reach_pl q tr s Hr). exact Hp.
    - eapply filed_member; eauto. }
  cbn [step]. unfold deposit. rewrite Hrd, Hm. cbn [negb]. fold (view s c). rewrite Hp, beqb_refl. reflexivity.
Qed.

(* conflict_poisons *)
Lemma conflict_detected q tr s f c p p' :
  reach q tr s -> reader s = RRunning -> pending_r tr c f = Some p -> p <> p' ->
  snd (step s (Deposit f c p')) = ODep DPoisoned /\
  blame_r ((Deposit f c p', snd (step s (Deposit f c p'))) :: tr) c = Some f.
Proof.
  intros Hr Hrd Hp Hne.
  assert (Ho : snd (step s (Deposit f c p')) = ODep DPoisoned).
  { pose proof Hp as Hp0. rewrite <- (reach_pl q tr s Hr) in Hp. unfold pl in Hp.
    assert (Hm : mem f (quorum s) = true).
    { rewrite (reach_quorum q tr s Hr). destruct (pending_sound tr c f p Hp0) as (d & Hd & Hf).
      eapply filed_member; eauto. }
    cbn [step]. unfold deposit. rewrite Hrd, Hm. cbn [negb]. fold (view s c). rewrite Hp.
    apply beqb_neq in Hne. rewrite Hne. reflexivity. }
  split; [exact Ho|]. rewrite Ho. cbn [blame_r blame_step filed andb]. rewrite beqb_refl, Hp.
  apply beqb_neq in Hne. rewrite Hne. reflexivity.
Qed.

Lemma poisoned_check_fails q tr s c g s' o :
  reach q tr s -> blame_r tr c = Some g -> step s (RecvCheck c) = (s', o) ->
  o = ODisabled \/ o = ORecvErr (EConflict g).
Proof.
  intros Hr Hb Hs. assert (Ho : snd (step s (RecvCheck c)) = o) by (rewrite Hs; reflexivity).
  assert (Hd : o = ODisabled \/ o <> ODisabled) by (destruct o; (left; reflexivity) || (right; discriminate)).
  destruct Hd as [Hd|Hd]; [left; exact Hd|right].
  destruct (recv_check_enabled s c o Ho Hd) as (w & Hw & Hp).
  rewrite (recv_check_cases s c w Hw Hp) in Ho.
  pose proof (reach_poison q tr s Hr c) as Hpo. unfold poi in Hpo. rewrite Hb in Hpo. rewrite Hpo in Ho.
  symmetry. exact Ho.
Qed.

Lemma blame_only_after_conflict q tr s c g s' :
  reach q tr s -> step s (RecvCheck c) = (s', ORecvErr (EConflict g)) -> blame_r tr c = Some g.
Proof.
  intros Hr Hs. assert (Ho : snd (step s (RecvCheck c)) = ORecvErr (EConflict g)) by (rewrite Hs; reflexivity).
  destruct (recv_check_enabled s c _ Ho) as (w & Hw & Hp); [discriminate|].
  rewrite (recv_check_cases s c w Hw Hp) in Ho.
  rewrite <- (reach_poison q tr s Hr c). unfold poi.
  destruct (mb_poison (view s c)); [injection Ho as ->; reflexivity|].
  destruct (collect (w_froms w) (mb_payloads (view s c))); [discriminate|].
  destruct (fatal s); [discriminate|]. destruct (w_cancel w); discriminate.
Qed.

(* cancel_loses_nothing *)
Lemma nothing_lost s e :
  (forall f c p, e <> Deposit f c p) -> (forall res, snd (step s e) <> ORecvOk res) ->
  forall c f, pl (fst (step s e)) c f = pl s c f.
Proof.
  intros Hd Hok c f. rewrite step_pl. unfold pend_step. destruct e; try reflexivity.
  - exfalso. eapply Hd. reflexivity.
  - destruct (snd (step s (RecvCheck c0))) eqn:Eo; try reflexivity. exfalso. eapply Hok. reflexivity.
Qed.

Lemma later_receive_gets_them q tr s c froms :
  reach q tr s -> fatal s = None -> entered_r tr c = None -> blame_r tr c = None ->
  (forall f, In f froms -> pending_r tr c f <> None) ->
  snd (step s (RecvEnter c froms)) = OEntered /\
  exists res, snd (step (fst (step s (RecvEnter c froms))) (RecvCheck c)) = ORecvOk res /\
    map fst res = dedup froms /\ forall f p, In (f, p) res -> pending_r tr c f = Some p.
Proof.
  intros Hr Hf He Hb Hall.
  pose proof (reach_wf q tr s Hr c) as Hwf. unfold wf in Hwf. rewrite He in Hwf. cbn [option_map] in Hwf.
  assert (Hw : mb_waiter (view s c) = None) by (destruct (mb_waiter (view s c)); [discriminate|reflexivity]).
  set (s1 := match reader s with RNotStarted => set_reader s RRunning | _ => s end).
  assert (Hv : forall c', view s1 c' = view s c') by (intros c'; unfold s1; destruct (reader s); reflexivity).
  set (w := {| w_froms := dedup froms; w_tokens := 0%N; w_cancel := false; w_phase := Checking |}).
  assert (Hstep : step s (RecvEnter c froms) = (set_box s1 c (set_waiter (view s1 c) (Some w)), OEntered)).
  { cbn [step]. unfold recv_enter. rewrite Hf. fold s1. fold (view s1 c). rewrite Hv, Hw. reflexivity. }
  rewrite Hstep. cbn [fst snd]. split; [reflexivity|].
  set (s2 := set_box s1 c (set_waiter (view s1 c) (Some w))).
  assert (Hv2 : view s2 c = set_waiter (view s c) (Some w)).
  { unfold s2. rewrite view_set_box, beqb_refl, Hv. reflexivity. }
  rewrite (recv_check_cases s2 c w); [|rewrite Hv2; reflexivity|reflexivity].
  rewrite Hv2. cbn [set_waiter mb_poison mb_payloads].
  pose proof (reach_poison q tr s Hr c) as Hpo. unfold poi in Hpo. rewrite Hb in Hpo. rewrite Hpo.
  destruct (collect (w_froms w) (mb_payloads (view s c))) eqn:Ecol.
  - exists l. split; [reflexivity|]. split; [apply (collect_keys _ _ _ Ecol)|].
    intros f p Hin. destruct (collect_In _ _ _ f p Ecol Hin) as [Hl _].
    rewrite <- (reach_pl q tr s Hr). exact Hl.
  - exfalso. assert (Hne : collect (w_froms w) (mb_payloads (view s c)) <> None).
    { apply collect_Some_iff. intros f Hin. unfold w in Hin. cbn [w_froms] in Hin. apply (proj1 (dedup_In _ _)) in Hin.
      pose proof (Hall f Hin) as Hp. rewrite <- (reach_pl q tr s Hr) in Hp. exact Hp. }
    congruence.
Qed.

(* buffer_accounting *)
Lemma buffer_accounting q tr s :
  reach q tr s -> buffered s = total (boxes s) /\ (0 <= buffered s)%Z.
Proof.
  intros Hr. destruct (reach_sinv q tr s Hr) as [_ _ H]. split; [exact H|]. rewrite H. apply total_nonneg.
Qed.

Lemma overflow_only_at_bound s f c p :
  snd (step s (Deposit f c p)) = ODep DOverflow -> (maxReceiveBufferSize <= buffered s)%Z.
Proof.
  cbn [step]. unfold deposit. destruct (reader s); cbn [snd]; try discriminate.
  destruct (negb (mem f (quorum s))); cbn [snd]; [discriminate|].
  destruct (nlookup f (mb_payloads (box_for s c))); [destruct (beqb b p); discriminate|].
  destruct (buffer_full (buffered s)) eqn:E; cbn [snd]; [|discriminate]. intros _. apply buffer_full_bound. exact E.
Qed.

Lemma fatal_step s e :
  fatal (fst (step s e)) =
  match fatal s with
  | Some k => Some k
  | None =>
    match e, snd (step s e) with
    | _, ODep DOverflow => Some FBufferFull
    | _, ODep DUndecodable => Some FReader
    | ReaderError, ONone => Some FReader
    | Shutdown, _ => Some FClosed
    | _, _ => None
    end
  end.
Proof.
  destruct (fatal s) eqn:Ef.
  - (* already latched: nothing changes it *)
    destruct e; step_unfold; cbn [fst snd]; rewrite ?Ef;
      repeat (destr1; cbn [fst snd set_box set_buffered set_reader fail_locked del_box fatal]; rewrite ?Ef; try reflexivity);
      try (destruct (reader s); cbn [fatal]; exact Ef);
      try (cbn [fail_locked fatal]; rewrite Ef; reflexivity).
  - destruct e; step_unfold; cbn [fst snd]; rewrite ?Ef;
      repeat (destr1; cbn [fst snd set_box set_buffered set_reader fail_locked del_box fatal]; rewrite ?Ef; try reflexivity);
      try (destruct (reader s); cbn [fatal]; exact Ef);
      try (cbn [fail_locked fatal]; rewrite Ef; reflexivity).
Qed.

Lemma bufferfull_only_by_overflow q tr s :
  reach q tr s -> fatal s = Some FBufferFull -> exists e, In (e, ODep DOverflow) tr.
Proof.
  induction 1 as [|tr s e H IH]; [discriminate|]. rewrite fatal_step.
  destruct (fatal s) eqn:Ef.
  - intros Hk. destruct (IH Hk) as [e' He']. exists e'. right. exact He'.
  - intros Hk. exists e. left.
    destruct e; destruct (snd (step s _)) eqn:Eo; try discriminate; try destruct d; try discriminate; reflexivity.
Qed.

(* below the bound nothing overflows: the count of undelivered messages is [buffered] *)
Lemma no_fatal_below_bound q tr s :
  reach q tr s ->
  (forall e, In (e, ODep DOverflow) tr -> False) -> fatal s <> Some FBufferFull.
Proof.
  intros Hr Hno Hf. destruct (bufferfull_only_by_overflow q tr s Hr Hf) as [e He]. eapply Hno. exact He.
Qed.

(* no_lost_wakeup *)
Definition ready (s : state) (c : cid) (w : waiter) : Prop :=
  mb_poison (view s c) <> None \/ collect (w_froms w) (mb_payloads (view s c)) <> None \/
  fatal s <> None \/ w_cancel w = true.

Lemma no_lost_wakeup q tr s c w :
  reach q tr s -> mb_waiter (view s c) = Some w -> w_phase w = Parked -> ready s c w ->
  exists e, (e = WakeToken c \/ e = WakeAlt c) /\ snd (step s e) = OWoken /\
    exists o, snd (step (fst (step s e)) (RecvCheck c)) = o /\
      ((exists res, o = ORecvOk res) \/ (exists err, o = ORecvErr err)).
Proof.
  intros Hr Hw Hp Hrd.
  destruct (reach_winv q tr s Hr c w Hw) as [_ Hwk].
  assert (Hfb : find_box s c = Some (view s c)).
  { unfold view, box_for in *. destruct (find_box s c); [reflexivity|]. discriminate. }
  (* which wake-up is enabled *)
  assert (Hen : (0 < w_tokens w)%N \/ w_cancel w = true \/ fatal s <> None).
  { destruct Hrd as [H1|[H1|[H1|H1]]]; [apply Hwk; [exact Hp|left; exact H1]|apply Hwk; [exact Hp|right; exact H1]|right; right; exact H1|right; left; exact H1]. }
  assert (Hchk : forall s2 w2, view s2 c = set_waiter (view s c) (Some w2) -> w_phase w2 = Checking ->
           w_froms w2 = w_froms w -> w_cancel w2 = w_cancel w -> fatal s2 = fatal s ->
           exists o, snd (step s2 (RecvCheck c)) = o /\
             ((exists res, o = ORecvOk res) \/ (exists err, o = ORecvErr err))).
  { intros s2 w2 Hv2 Hp2 Hfr Hca Hfa.
    rewrite (recv_check_cases s2 c w2); [|rewrite Hv2; reflexivity|exact Hp2].
    rewrite Hv2. cbn [set_waiter mb_poison mb_payloads]. rewrite Hfr, Hca, Hfa.
    destruct (mb_poison (view s c)) eqn:Epo; [eexists; split; [reflexivity|right; eexists; reflexivity]|].
    destruct (collect (w_froms w) (mb_payloads (view s c))) eqn:Ecol; [eexists; split; [reflexivity|left; eexists; reflexivity]|].
    destruct (fatal s) eqn:Ef; [eexists; split; [reflexivity|right; eexists; reflexivity]|].
    destruct (w_cancel w) eqn:Eca; [eexists; split; [reflexivity|right; eexists; reflexivity]|].
    exfalso. destruct Hrd as [H1|[H1|[H1|H1]]]; congruence. }
  destruct (0 <? w_tokens w)%N eqn:Etok.
  - exists (WakeToken c). split; [left; reflexivity|].
    cbn [step]. unfold wake_token. rewrite Hfb, Hw, Hp, Etok. cbn [fst snd]. split; [reflexivity|].
    eapply Hchk; [rewrite view_set_box, beqb_refl; reflexivity|reflexivity|reflexivity|reflexivity|reflexivity].
  - assert (Halt : w_cancel w || is_some (fatal s) = true).
    { destruct Hen as [H1|[H1|H1]]; [lia|rewrite H1; reflexivity|].
      destruct (fatal s); [apply orb_true_r|congruence]. }
    exists (WakeAlt c). split; [right; reflexivity|].
    cbn [step]. unfold wake_alt. rewrite Hfb, Hw, Hp, Halt. cbn [fst snd]. split; [reflexivity|].
    eapply Hchk; [rewrite view_set_box, beqb_refl; reflexivity|reflexivity|reflexivity|reflexivity|reflexivity].
Qed.

(* ---- reach = every finite event sequence run from the initial state -------------------------------- *)

Definition history (s : state) (evs : list event) : hist := rev (combine evs (snd (run s evs))).

Lemma run_cons s e r :
  run s (e :: r) = (fst (run (fst (step s e)) r), snd (step s e) :: snd (run (fst (step s e)) r)).
Proof.
  cbn [run]. destruct (step s e) as [s1 o]. cbn [fst snd]. destruct (run s1 r) as [s2 os]. reflexivity.
Qed.

Lemma reach_run_from q tr s evs :
  reach q tr s -> reach q (history s evs ++ tr) (fst (run s evs)).
Proof.
  revert tr s. induction evs as [|e r IH]; intros tr s H; [exact H|].
  unfold history. rewrite run_cons. cbn [fst snd combine rev]. rewrite <- app_assoc. cbn [app].
  apply IH. apply reach_step. exact H.
Qed.

Lemma reach_run q evs : reach q (history (init q) evs) (fst (run (init q) evs)).
Proof. rewrite <- (app_nil_r (history (init q) evs)). apply reach_run_from. constructor. Qed.

Lemma run_app s e1 e2 :
  run s (e1 ++ e2) = (fst (run (fst (run s e1)) e2), snd (run s e1) ++ snd (run (fst (run s e1)) e2)).
Proof.
  revert s. induction e1 as [|e r IH]; intros s.
  - cbn [app run fst snd]. destruct (run s e2); reflexivity.
  - cbn [app]. rewrite !run_cons. rewrite IH. cbn [fst snd app]. reflexivity.
Qed.

Lemma run_length s evs : length (snd (run s evs)) = length evs.
Proof. revert s. induction evs as [|e r IH]; intros s; [reflexivity|]. rewrite run_cons. cbn [snd length]. rewrite IH. reflexivity. Qed.

Lemma combine_app' {A B} (a1 a2 : list A) (b1 b2 : list B) :
  length a1 = length b1 -> combine (a1 ++ a2) (b1 ++ b2) = combine a1 b1 ++ combine a2 b2.
Proof.
  revert b1. induction a1 as [|x a1 IH]; intros [|y b1] H; cbn in *; try discriminate; [reflexivity|].
  rewrite IH by lia. reflexivity.
Qed.

Lemma reach_is_run q tr s :
  reach q tr s -> exists evs, tr = history (init q) evs /\ s = fst (run (init q) evs).
Proof.
  induction 1 as [|tr s e H (evs & -> & ->)].
  - exists []. split; reflexivity.
  - exists (evs ++ [e]). unfold history. rewrite run_app. cbn [fst snd].
    rewrite run_cons. cbn [run fst snd].
    rewrite combine_app' by (symmetry; apply run_length).
    cbn [combine]. rewrite rev_app_distr. cbn [rev app]. split; reflexivity.
Qed.

(* ---- namespaces -------------------------------------------------------------------------------------- *)

Lemma ns_extend_eq prefix ns : ns_extend prefix ns = prefix ++ ns ++ namespaceSeparator.
Proof. reflexivity. Qed.
Lemma root_prefix_eq : root_prefix = [].
Proof. reflexivity. Qed.
Lemma recv_cid_eq prefix c : recv_cid prefix c = prefix ++ c.
Proof. reflexivity. Qed.
Lemma send_cid_eq prefix c : send_cid prefix c = prefix ++ c.
Proof. reflexivity. Qed.
Lemma separator_single : exists b, namespaceSeparator = [b].
Proof. eexists. reflexivity. Qed.

Lemma send_recv_agree nss c : send_full nss c = recv_full nss c.
Proof. reflexivity. Qed.

Lemma ns_prefix_from nss p :
  fold_left ns_extend nss p = p ++ concat (map (fun n => n ++ namespaceSeparator) nss).
Proof.
  revert p. induction nss as [|n r IH]; intros p; cbn [fold_left map concat].
  - rewrite app_nil_r. reflexivity.
  - rewrite IH, ns_extend_eq. rewrite <- !app_assoc. reflexivity.
Qed.

Lemma recv_full_eq nss c :
  recv_full nss c = concat (map (fun n => n ++ namespaceSeparator) nss) ++ c.
Proof. unfold recv_full, ns_prefix. rewrite recv_cid_eq, ns_prefix_from, root_prefix_eq. reflexivity. Qed.

(* a string without the separator byte is determined by where the first separator is *)
Lemma split_at_sep (b : N) (x y rx ry : bytes) :
  ~ In b x -> ~ In b y -> x ++ b :: rx = y ++ b :: ry -> x = y /\ rx = ry.
Proof.
  revert y. induction x as [|a x IH]; intros [|a' y] Hx Hy H; cbn [app] in H.
  - injection H as ->. split; reflexivity.
  - injection H as <- _. exfalso. apply Hy. left. reflexivity.
  - injection H as -> _. exfalso. apply Hx. left. reflexivity.
  - injection H as -> H. destruct (IH y) as [-> ->]; auto.
    + intros Hin. apply Hx. right. exact Hin.
    + intros Hin. apply Hy. right. exact Hin.
Qed.

Lemma namespace_injective_gen (b : N) :
  namespaceSeparator = [b] ->
  forall nss nss' c c',
  (forall n, In n nss -> ~ In b n) -> (forall n, In n nss' -> ~ In b n) -> ~ In b c -> ~ In b c' ->
  recv_full nss c = recv_full nss' c' -> nss = nss' /\ c = c'.
Proof.
  intros Hsep nss. induction nss as [|n r IH]; intros [|n' r'] c c' Hn Hn' Hc Hc'; rewrite !recv_full_eq, Hsep;
    cbn [map concat app]; intros H.
  - split; [reflexivity|exact H].
  - exfalso. apply Hc. rewrite H. rewrite <- !app_assoc. cbn [app]. apply in_or_app. right. left. reflexivity.
  - exfalso. apply Hc'. rewrite <- H. rewrite <- !app_assoc. cbn [app]. apply in_or_app. right. left. reflexivity.
  - rewrite <- !app_assoc in H. cbn [app] in H.
    destruct (split_at_sep b n n' _ _ (Hn n (or_introl eq_refl)) (Hn' n' (or_introl eq_refl)) H) as [-> Hrest].
    destruct (IH r' c c') as [-> ->]; auto.
    + intros m Hm. apply Hn. right. exact Hm.
    + intros m Hm. apply Hn'. right. exact Hm.
    + rewrite !recv_full_eq, Hsep. exact Hrest.
Qed.

Lemma namespace_injective nss nss' c c' :
  (forall n, In n nss -> ~ In 47%N n) -> (forall n, In n nss' -> ~ In 47%N n) -> ~ In 47%N c -> ~ In 47%N c' ->
  recv_full nss c = recv_full nss' c' -> nss = nss' /\ c = c'.
Proof. apply namespace_injective_gen. reflexivity. Qed.

(* without the hypothesis the statement is false (DESIGN §6, observation C11) *)
Lemma namespace_collision_with_separator_inside :
  recv_full [[97]; [98]]%N [99]%N = recv_full [[97]]%N [98; 47; 99]%N.
Proof. reflexivity. Qed.

(* ---- the statements of props/C11.v that combine several of the lemmas above --------------------- *)

Lemma reach_is_every_run q :
  (forall evs, reach q (history (init q) evs) (fst (run (init q) evs))) /\
  (forall tr s, reach q tr s -> exists evs, tr = history (init q) evs /\ s = fst (run (init q) evs)).
Proof. split; [apply reach_run|apply reach_is_run]. Qed.

Lemma conflict_poisons q tr s c :
  reach q tr s ->
  (forall f p p', reader s = RRunning -> pending_r tr c f = Some p -> p <> p' ->
     snd (step s (Deposit f c p')) = ODep DPoisoned /\
     blame_r ((Deposit f c p', snd (step s (Deposit f c p'))) :: tr) c = Some f) /\
  (forall g s' o, blame_r tr c = Some g -> step s (RecvCheck c) = (s', o) ->
     o = ODisabled \/ o = ORecvErr (EConflict g)) /\
  (forall g s', step s (RecvCheck c) = (s', ORecvErr (EConflict g)) -> blame_r tr c = Some g) /\
  (forall g, blame_r tr c = Some g ->
     exists newer older p p' d, tr = newer ++ (Deposit g c p', ODep d) :: older /\ filed d = true /\
       pending_r older c g = Some p /\ p <> p') /\
  (forall eo, blame_r tr c <> None -> blame_r (eo :: tr) c <> None).
Proof.
  intros H. split; [|split; [|split; [|split]]].
  - intros f p p'. apply (conflict_detected q tr s f c p p' H).
  - intros g s' o. apply (poisoned_check_fails q tr s c g s' o H).
  - intros g s'. apply (blame_only_after_conflict q tr s c g s' H).
  - apply blame_r_spec.
  - intros eo. apply blame_r_persist.
Qed.

Lemma cancel_loses_nothing q tr s :
  reach q tr s ->
  (forall e, (forall f c p, e <> Deposit f c p) -> (forall res, snd (step s e) <> ORecvOk res) ->
     forall c f, pl (fst (step s e)) c f = pl s c f) /\
  (forall c f, pl s c f = pending_r tr c f) /\
  (forall c froms, fatal s = None -> entered_r tr c = None -> blame_r tr c = None ->
     (forall f, In f froms -> pending_r tr c f <> None) ->
     snd (step s (RecvEnter c froms)) = OEntered /\
     exists res, snd (step (fst (step s (RecvEnter c froms))) (RecvCheck c)) = ORecvOk res /\
       map fst res = dedup froms /\ forall f p, In (f, p) res -> pending_r tr c f = Some p).
Proof.
  intros H. split; [|split].
  - apply nothing_lost.
  - apply (reach_pl q tr s H).
  - intros c froms. apply (later_receive_gets_them q tr s c froms H).
Qed.

Lemma buffer_accounting_all q tr s :
  reach q tr s ->
  (buffered s = total (boxes s) /\ (0 <= buffered s)%Z) /\
  (forall f c p, snd (step s (Deposit f c p)) = ODep DOverflow -> (maxReceiveBufferSize <= buffered s)%Z) /\
  (fatal s = Some FBufferFull -> exists e, In (e, ODep DOverflow) tr).
Proof.
  intros H. split; [|split].
  - apply (buffer_accounting q tr s H).
  - apply overflow_only_at_bound.
  - apply (bufferfull_only_by_overflow q tr s H).
Qed.

Lemma namespace_needs_hypothesis :
  exists nss nss' c c', recv_full nss c = recv_full nss' c' /\ nss <> nss'.
Proof.
  exists [[97]; [98]]%N, [[97]]%N, [99]%N, [98; 47; 99]%N. split; [reflexivity|discriminate].
Qed.
