(* Kw_proofs.v — correctness of KW reconstruction and of the conversion to additive shares
   (model/Kw.v), for every MSP over an arbitrary field (flaws K).

     reconstruct_correct   Accepts S, shares of S listed in any order without repetition
                           ->  Reconstruct returns r_0 (the dealt secret); holders may own several rows
     reconstruct_rejected  ~Accepts S -> Reconstruct refuses
     to_additive_sums      Accepts Q -> the additive shares of the members of Q sum to r_0      *)
From Coq Require Import List NArith Arith Bool Lia Field Ring.
Import ListNotations.
Require Import V.base.Fld V.model.LinAlg V.model.Access V.model.Msp V.model.Kw.
Require Import V.proofs.LinAlg_proofs V.proofs.Span_proofs V.proofs.Msp_proofs.

Section KwProofs.
Context {F : Type} (K : fops F) (HK : flaws K).
Implicit Type m : @msp F.
Implicit Type M : @matrix F.

Add Field Kfield4 : (fl_theory K HK).

Notation "0" := (f0 K).
Notation "1" := (f1 K).
Infix "+" := (fadd K).
Infix "*" := (fmul K).
Infix "-" := (fsub K).

(* sums over index lists *)
Definition fsumf {A : Type} (g : A -> F) (l : list A) : F := fold_right (fun i acc => g i + acc) 0 l.

Lemma fsumf_ext_in : forall {A} (g h : A -> F) l, (forall i, In i l -> g i = h i) -> fsumf g l = fsumf h l.
Proof.
  induction l as [|x l IH]; intros H; [reflexivity|]. cbn [fsumf fold_right].
  rewrite (H x) by now left. fold (fsumf g l). fold (fsumf h l). rewrite IH; auto.
  intros; apply H; now right.
Qed.

Lemma dot_map_map : forall {A} (f g : A -> F) l, dot K (map f l) (map g l) = fsumf (fun i => f i * g i) l.
Proof.
  induction l as [|x l IH]; [reflexivity|]. cbn [map]. rewrite (dot_cons K HK), IH. reflexivity.
Qed.

Lemma fsumf_filter_or : forall {A} (G : A -> F) (p q : A -> bool) l,
  (forall x, In x l -> p x = true -> q x = false) ->
  fsumf G (filter (fun x => p x || q x) l) = fsumf G (filter p l) + fsumf G (filter q l).
Proof.
  induction l as [|x l IH]; intros H; [cbn; ring|].
  cbn [filter]. assert (IH' := IH (fun y Hy => H y (or_intror Hy))).
  destruct (p x) eqn:Ep; cbn [orb].
  - rewrite (H x (or_introl eq_refl) Ep). cbn [fsumf fold_right]. fold (fsumf G).
    change (fold_right (fun i acc => G i + acc) 0) with (fsumf G) in *. rewrite IH'. ring.
  - destruct (q x); cbn [fsumf fold_right];
      change (fold_right (fun i acc => G i + acc) 0) with (fsumf G) in *; rewrite IH'; ring.
Qed.

Lemma length_filter_or : forall {A} (p q : A -> bool) l,
  (forall x, In x l -> p x = true -> q x = false) ->
  length (filter (fun x => p x || q x) l) = (length (filter p l) + length (filter q l))%nat.
Proof.
  induction l as [|x l IH]; intros H; [reflexivity|].
  cbn [filter]. assert (IH' := IH (fun y Hy => H y (or_intror Hy))).
  destruct (p x) eqn:Ep; cbn [orb].
  - rewrite (H x (or_introl eq_refl) Ep). cbn [length]. lia.
  - destruct (q x); cbn [length]; lia.
Qed.

(* ---- coefficient of a row in the reconstruction vector ---------------------------------------- *)

Definition coef (rows : list nat) (rv : list F) (i : nat) : F :=
  match find_index (Nat.eqb i) rows with Some pos => nth pos rv 0 | None => 0 end.

Lemma find_index_in : forall rows i, In i rows -> exists pos, find_index (Nat.eqb i) rows = Some pos.
Proof.
  induction rows as [|r rows IH]; intros i Hi; [contradiction|]. cbn [find_index].
  destruct (Nat.eqb i r) eqn:E; [eauto|]. destruct Hi as [->|Hi]; [rewrite Nat.eqb_refl in E; discriminate|].
  destruct (IH i Hi) as [pos ->]. eauto.
Qed.

Lemma dot_by_coef : forall (h : nat -> F) rows rv, NoDup rows -> length rv = length rows ->
  dot K rv (map h rows) = fsumf (fun i => coef rows rv i * h i) rows.
Proof.
  intros h rows; induction rows as [|r0 rows IH]; intros rv Hnd Hl.
  - destruct rv; [reflexivity|discriminate].
  - destruct rv as [|c rv]; [discriminate|]. inversion Hnd as [|? ? Hni Hnd']; subst.
    cbn [map]. rewrite (dot_cons K HK), IH by (auto; cbn in Hl; lia).
    cbn [fsumf fold_right]. change (fold_right (fun i acc => _ i + acc) 0) with (fsumf (fun i => coef (r0 :: rows) (c :: rv) i * h i)).
    f_equal.
    + unfold coef. cbn [find_index]. rewrite Nat.eqb_refl. reflexivity.
    + apply fsumf_ext_in. intros i Hi. unfold coef. cbn [find_index].
      destruct (Nat.eqb i r0) eqn:E; [apply Nat.eqb_eq in E; subst; contradiction|].
      destruct (find_index (Nat.eqb i) rows); reflexivity.
Qed.

(* ---- regrouping the selected rows by holder -------------------------------------------------------- *)

Lemma sel_filter_cons : forall m id ids,
  sel_filter m (id :: ids) =
  filter (fun i => N.eqb (nth i (msp_lab m) 0%N) id || memN (nth i (msp_lab m) 0%N) ids) (seq 0 (length (msp_lab m))).
Proof. intros. unfold sel_filter. apply filter_ext. intros i. reflexivity. Qed.

Lemma memN_false : forall x l, memN x l = false <-> ~ In x l.
Proof. intros. rewrite <- memN_In. destruct (memN x l); split; congruence. Qed.

Lemma regroup_sum : forall m (G : nat -> F) ids, NoDup ids ->
  fsumf G (sel_filter m ids) = fsumf (fun id => fsumf G (rows_of m id)) ids.
Proof.
  intros m G ids; induction ids as [|id ids IH]; intros Hnd.
  - unfold sel_filter. cbn [memN existsb]. induction (seq 0 _) as [|x l IHl]; [reflexivity|exact IHl].
  - inversion Hnd as [|? ? Hni Hnd']; subst. rewrite sel_filter_cons.
    rewrite fsumf_filter_or.
    + cbn [fsumf fold_right]. fold (fsumf (fun id0 => fsumf G (rows_of m id0)) ids).
      rewrite <- IH by auto. reflexivity.
    + intros i _ E. apply N.eqb_eq in E. rewrite E. now apply memN_false.
Qed.

Lemma regroup_length : forall m ids, NoDup ids ->
  length (sel_filter m ids) = fold_right (fun id acc => (length (rows_of m id) + acc)%nat) O ids.
Proof.
  intros m ids; induction ids as [|id ids IH]; intros Hnd.
  - unfold sel_filter. cbn [memN existsb]. induction (seq 0 _) as [|x l IHl]; [reflexivity|exact IHl].
  - inversion Hnd as [|? ? Hni Hnd']; subst. rewrite sel_filter_cons.
    rewrite length_filter_or.
    + cbn [fold_right]. rewrite <- IH by auto. reflexivity.
    + intros i _ E. apply N.eqb_eq in E. rewrite E. now apply memN_false.
Qed.

Lemma sel_filter_nil : forall m, sel_filter m [] = [].
Proof.
  intros. unfold sel_filter. induction (seq 0 (length (msp_lab m))) as [|x l IHl]; [reflexivity|].
  cbn [filter memN existsb]. exact IHl.
Qed.

Lemma sel_filter_NoDup : forall m ids, NoDup (sel_filter m ids).
Proof. intros. unfold sel_filter. apply NoDup_filter. apply seq_NoDup. Qed.

(* ---- the share column ------------------------------------------------------------------------------ *)

Lemma lookup_row_fun : forall (f : nat -> F) (l : list nat) i,
  lookup_row i (map (fun k => (k, f k)) l) = if existsb (Nat.eqb i) l then Some (f i) else None.
Proof.
  induction l as [|k l IH]; intros i; [reflexivity|]. cbn [map lookup_row existsb].
  rewrite (Nat.eqb_sym i k). destruct (Nat.eqb k i) eqn:E; cbn [orb].
  - apply Nat.eqb_eq in E. now subst.
  - apply IH.
Qed.

Lemma combine_map_r : forall {A B} (f : A -> B) l, combine l (map f l) = map (fun k => (k, f k)) l.
Proof. induction l as [|x l IH]; [reflexivity|]. cbn [map combine]. now rewrite IH. Qed.

Lemma flat_map_map_pairs : forall {A} (f : nat -> F) (g : A -> list nat) l,
  flat_map (fun a => map (fun k => (k, f k)) (g a)) l = map (fun k => (k, f k)) (flat_map g l).
Proof. induction l as [|a l IH]; [reflexivity|]. cbn [flat_map]. now rewrite map_app, IH. Qed.

Section Dealt.
Variables (m : @msp F) (r : list F).
Let lambda := mvec K (msp_M m) r.
Let lam (i : nat) : F := nth i lambda 0.

Lemma share_of_vals : forall id, snd (share_of K m lambda id) = map lam (rows_of m id).
Proof. reflexivity. Qed.

Lemma share_column_dealt : forall ids, wf_msp m -> NoDup ids ->
  (forall id, In id ids -> In id (msp_lab m)) ->
  share_column K m (map (share_of K m lambda) ids) = Some (map lam (sel_filter m ids)).
Proof.
  intros ids [n [d [Hwf [Hlab [Hd Hn]]]]] Hnd Hknown. unfold share_column.
  match goal with |- (if ?c then _ else _) = _ => assert (Hchk : c = true) end.
  { apply forallb_forall. intros sh Hin. apply in_map_iff in Hin. destruct Hin as [id [<- Hid]].
    cbn [fst snd share_of]. rewrite map_length.
    destruct (rows_of m id) as [|i rs] eqn:E.
    - exfalso. apply Hknown in Hid. apply (In_nth _ _ 0%N) in Hid. destruct Hid as [i [Hi Hnth]].
      assert (In i (rows_of m id)) by (apply rows_of_in; auto). rewrite E in H. contradiction.
    - apply Nat.eqb_refl. }
  rewrite Hchk. cbv zeta. f_equal.
  (* byrow is the graph of lam over the rows of the listed holders *)
  match goal with |- context [lookup_row _ ?b] => set (byrow := b) end.
  assert (Hby : byrow = map (fun k => (k, lam k)) (flat_map (rows_of m) (rev ids))).
  { unfold byrow. rewrite <- map_rev, flat_map_concat_map, map_map.
    rewrite <- flat_map_concat_map. rewrite <- flat_map_map_pairs. apply flat_map_ext. intros id.
    cbn [fst snd share_of]. fold lambda. apply (combine_map_r lam). }
  assert (Hlook : forall i, lookup_row i byrow =
            if existsb (Nat.eqb i) (flat_map (rows_of m) (rev ids)) then Some (lam i) else None).
  { intros i. rewrite Hby. apply lookup_row_fun. }
  assert (Hex : forall i, (i < length (msp_lab m))%nat ->
            existsb (Nat.eqb i) (flat_map (rows_of m) (rev ids)) = memN (nth i (msp_lab m) 0%N) ids).
  { intros i Hi. apply eq_true_iff_eq. rewrite existsb_exists, memN_In. split.
    - intros [k [Hk E]]. apply Nat.eqb_eq in E. subst k. apply in_flat_map in Hk.
      destruct Hk as [id [Hid Hk]]. apply in_rev in Hid. apply rows_of_in in Hk. destruct Hk as [_ <-]. exact Hid.
    - intros Hin. exists i. split; [|apply Nat.eqb_refl]. apply in_flat_map.
      exists (nth i (msp_lab m) 0%N). split; [now apply -> in_rev|]. apply rows_of_in. auto. }
  assert (Hsize : msp_size m = length (msp_lab m)).
  { unfold msp_size. destruct Hwf as [HL _]. lia. }
  assert (Hkeys : filter (fun r0 => match lookup_row r0 byrow with Some _ => true | None => false end)
                         (seq 0 (msp_size m)) = sel_filter m ids).
  { rewrite Hsize. unfold sel_filter. apply filter_ext_in. intros i Hi. apply in_seq in Hi.
    rewrite Hlook, Hex by lia. destruct (memN _ ids); reflexivity. }
  rewrite Hkeys.
  match goal with |- context [repeat 0 (?a - _)] => assert (Hn' : a = length (sel_filter m ids)) end.
  { rewrite regroup_length by auto. clear. induction ids as [|id ids IH]; [reflexivity|].
    cbn [map fold_right fst share_of]. now rewrite IH. }
  rewrite Hn', Nat.sub_diag. cbn [repeat]. rewrite app_nil_r.
  apply map_ext_in. intros i Hi. rewrite Hlook. apply in_sel_filter in Hi. destruct Hi as [Hil Hin].
  rewrite Hex by auto. apply memN_In in Hin. now rewrite Hin.
Qed.

(* the value column assembled from dealt shares (as in shareColumn / ReconstructInTheExponent) *)
Lemma dealt_vals : forall ids, wf_msp m -> NoDup ids ->
  (forall id, In id ids -> In id (msp_lab m)) ->
  let byrow := flat_map (fun sh : share => combine (rows_of m (fst sh)) (snd sh)) (rev (map (share_of K m lambda) ids)) in
  map (fun r0 => match lookup_row r0 byrow with Some v => v | None => 0 end)
      (filter (fun r0 => match lookup_row r0 byrow with Some _ => true | None => false end) (seq 0 (msp_size m)))
  = map lam (sel_filter m ids).
Proof.
  intros ids [n [d [Hwf [Hlab [Hd Hn]]]]] Hnd Hknown byrow.
  assert (Hby : byrow = map (fun k => (k, lam k)) (flat_map (rows_of m) (rev ids))).
  { unfold byrow. rewrite <- map_rev, flat_map_concat_map, map_map.
    rewrite <- flat_map_concat_map. rewrite <- flat_map_map_pairs. apply flat_map_ext. intros id.
    cbn [fst snd share_of]. fold lambda. apply (combine_map_r lam). }
  assert (Hlook : forall i, lookup_row i byrow =
            if existsb (Nat.eqb i) (flat_map (rows_of m) (rev ids)) then Some (lam i) else None).
  { intros i. rewrite Hby. apply lookup_row_fun. }
  assert (Hex : forall i, (i < length (msp_lab m))%nat ->
            existsb (Nat.eqb i) (flat_map (rows_of m) (rev ids)) = memN (nth i (msp_lab m) 0%N) ids).
  { intros i Hi. apply eq_true_iff_eq. rewrite existsb_exists, memN_In. split.
    - intros [k [Hk E]]. apply Nat.eqb_eq in E. subst k. apply in_flat_map in Hk.
      destruct Hk as [id [Hid Hk]]. apply in_rev in Hid. apply rows_of_in in Hk. destruct Hk as [_ <-]. exact Hid.
    - intros Hin. exists i. split; [|apply Nat.eqb_refl]. apply in_flat_map.
      exists (nth i (msp_lab m) 0%N). split; [now apply -> in_rev|]. apply rows_of_in. auto. }
  assert (Hsize : msp_size m = length (msp_lab m)).
  { unfold msp_size. destruct Hwf as [HL _]. lia. }
  assert (Hkeys : filter (fun r0 => match lookup_row r0 byrow with Some _ => true | None => false end)
                         (seq 0 (msp_size m)) = sel_filter m ids).
  { rewrite Hsize. unfold sel_filter. apply filter_ext_in. intros i Hi. apply in_seq in Hi.
    rewrite Hlook, Hex by lia. destruct (memN _ ids); reflexivity. }
  rewrite Hkeys.
  apply map_ext_in. intros i Hi. rewrite Hlook. apply in_sel_filter in Hi. destruct Hi as [Hil Hin].
  rewrite Hex by auto. apply memN_In in Hin. now rewrite Hin.
Qed.

(* lam over the selected rows is (selected sub-matrix)·r *)
Lemma lam_sub_rows : forall rows, map lam rows = mvec K (sub_rows (msp_M m) rows) r.
Proof.
  intros rows. unfold sub_rows, mvec. rewrite map_map. apply map_ext. intros i.
  unfold lam, lambda. apply (nth_mvec K).
Qed.

Theorem reconstruct_dealt : forall ids, wf_msp m -> NoDup ids -> length r = msp_D m ->
  accepts K m ids = true ->
  reconstruct K m (map (share_of K m lambda) ids) = Some (nth 0 r 0).
Proof.
  intros ids Hwf Hnd Hr Hacc.
  pose proof (proj1 (accepts_iff_span K HK m ids Hwf) Hacc) as [rows [Hs _]].
  destruct (sel_rows_some m ids rows Hs) as [Hrows [Hne Hall]].
  assert (Hknown : forall id, In id ids -> In id (msp_lab m)).
  { intros id Hid. apply memN_In. rewrite forallb_forall in Hall. now apply Hall. }
  unfold reconstruct.
  destruct ids as [|id0 ids0].
  { exfalso. apply Hne. rewrite Hrows. apply sel_filter_nil. }
  remember (id0 :: ids0) as ids eqn:Eids.
  assert (Hnn : map (share_of K m lambda) ids <> []) by (subst; discriminate).
  destruct (map (share_of K m lambda) ids) as [|s0 ss] eqn:Esh; [congruence|]. rewrite <- Esh. clear Hnn.
  assert (Hfst : map fst (map (share_of K m lambda) ids) = ids).
  { rewrite map_map. cbn [fst share_of]. apply map_id. }
  rewrite Hfst.
  unfold accepts in Hacc. destruct (recon_vector K m ids) as [rv|] eqn:Erv; [|discriminate].
  rewrite (share_column_dealt ids Hwf Hnd Hknown).
  unfold recon_vector in Erv. rewrite Hs in Erv. unfold recon_for_rows in Erv.
  pose proof Hwf as [n [d [Hwfm [Hlab [Hd Hn]]]]].
  assert (Hlt : Forall (fun i => (i < n)%nat) rows).
  { apply Forall_forall. intros i Hi. rewrite Hrows in Hi. apply sel_filter_lt in Hi. lia. }
  assert (HD : msp_D m = d) by now apply (msp_D_wf m n d).
  pose proof (sub_rows_wf n d _ rows Hwfm Hlt) as HwfS.
  assert (Hrl : (0 < length rows)%nat) by (destruct rows; [congruence|cbn; lia]).
  assert (Ht : length (target K m) = d) by now rewrite target_length.
  destruct (solve_left_sound K HK _ _ _ _ rv HwfS Hrl Hd Ht Erv) as [Hy Hv].
  rewrite <- Hrows, map_length, Hy, Nat.eqb_refl. f_equal.
  rewrite lam_sub_rows. rewrite <- (dot_vecm_mvec K HK _ _ _ rv r HwfS Hrl Hy), Hv.
  apply (dot_target K HK). lia.
Qed.

(* additive conversion *)
Lemma recon_coeffs_dealt : forall ids rows rv id, wf_msp m ->
  sel_rows m ids = Some rows -> recon_for_rows K m rows = Some rv -> In id ids ->
  recon_coeffs K m id ids = Some (map (coef rows rv) (rows_of m id)).
Proof.
  intros ids rows rv id Hwf Hs Hrv Hid. unfold recon_coeffs.
  assert (Hm : memN id ids = true) by now apply memN_In. rewrite Hm. cbn [negb].
  rewrite Hs, Hrv.
  destruct (sel_rows_some m ids rows Hs) as [Hrows [Hne Hall]].
  assert (Hsub : forall i, In i (rows_of m id) -> In i rows).
  { intros i Hi. apply rows_of_in in Hi. destruct Hi as [Hl He]. rewrite Hrows. apply in_sel_filter.
    split; auto. now rewrite He. }
  destruct (rows_of m id) as [|h hs] eqn:E.
  { exfalso. rewrite forallb_forall in Hall. apply Hall in Hid. apply memN_In in Hid.
    apply (In_nth _ _ 0%N) in Hid. destruct Hid as [i [Hi Hnth]].
    assert (In i (rows_of m id)) by (apply rows_of_in; auto). rewrite E in H. contradiction. }
  revert Hsub. generalize (h :: hs). clear E. intros l Hsub.
  induction l as [|x l IH]; [reflexivity|]. cbn [fold_right map].
  rewrite IH by (intros; apply Hsub; now right).
  destruct (find_index_in rows x (Hsub x (or_introl eq_refl))) as [pos Hp].
  rewrite Hp. f_equal. f_equal. unfold coef. now rewrite Hp.
Qed.

Theorem to_additive_dealt : forall ids, wf_msp m -> NoDup ids -> length r = msp_D m ->
  accepts K m ids = true ->
  exists f : N -> F,
    (forall id, In id ids -> to_additive K m (share_of K m lambda id) ids = Some (f id)) /\
    fsumf f ids = nth 0 r 0.
Proof.
  intros ids Hwf Hnd Hr Hacc.
  pose proof (proj1 (accepts_iff_span K HK m ids Hwf) Hacc) as [rows [Hs _]].
  destruct (sel_rows_some m ids rows Hs) as [Hrows [Hne Hall]].
  unfold accepts, recon_vector in Hacc. rewrite Hs in Hacc.
  destruct (recon_for_rows K m rows) as [rv|] eqn:Erv; [|discriminate].
  exists (fun id => fsumf (fun i => coef rows rv i * lam i) (rows_of m id)). split.
  - intros id Hid. unfold to_additive. cbn [fst snd share_of].
    assert (Hm : memN id ids = true) by now apply memN_In. rewrite Hm. cbn [negb].
    rewrite (recon_coeffs_dealt ids rows rv id Hwf Hs Erv Hid).
    rewrite !map_length, Nat.eqb_refl. f_equal.
    change (fold_left _ (combine ?a ?b) 0) with (dot K a b).
    fold lambda. fold lam. apply dot_map_map.
  - rewrite <- (regroup_sum m (fun i => coef rows rv i * lam i) ids Hnd). rewrite <- Hrows.
    pose proof Hwf as [n [d [Hwfm [Hlab [Hd Hn]]]]].
    assert (Hlt : Forall (fun i => (i < n)%nat) rows).
    { apply Forall_forall. intros i Hi. rewrite Hrows in Hi. apply sel_filter_lt in Hi. lia. }
    assert (HD : msp_D m = d) by now apply (msp_D_wf m n d).
    pose proof (sub_rows_wf n d _ rows Hwfm Hlt) as HwfS.
    assert (Hrl : (0 < length rows)%nat) by (destruct rows; [congruence|cbn; lia]).
    assert (Ht : length (target K m) = d) by now rewrite target_length.
    unfold recon_for_rows in Erv.
    destruct (solve_left_sound K HK _ _ _ _ rv HwfS Hrl Hd Ht Erv) as [Hy Hv].
    rewrite <- (dot_by_coef lam rows rv) by (auto; rewrite Hrows; apply sel_filter_NoDup).
    rewrite lam_sub_rows. rewrite <- (dot_vecm_mvec K HK _ _ _ rv r HwfS Hrl Hy), Hv.
    apply (dot_target K HK). lia.
Qed.

End Dealt.

(* a rejected set cannot reconstruct: Reconstruct refuses whatever share values are presented *)
Theorem reconstruct_rejected : forall m (shares : list (share (F:=F))),
  accepts K m (map fst shares) = false -> reconstruct K m shares = None.
Proof.
  intros m shares H. unfold reconstruct. destruct shares as [|s ss]; [reflexivity|].
  unfold accepts in H. destruct (recon_vector K m (map fst (s :: ss))); [discriminate|reflexivity].
Qed.

End KwProofs.
