(* SignCggmp_proofs.v — proofs about model/SignCggmp.v (the algebra of CGGMP21 online signing
   in the exponent) over an arbitrary field (flaws K):
     - algebra of the model's own [sum_over] (linearity, splitting off one party, exchange of
       the double sum over ordered pairs of distinct parties),
     - under the MtA product relation, delta = gamma·k and sum chi_i = x·k,
     - Round4 succeeds at every party for honest inputs, aggregation yields the closed form
       [expected_sig] and that signature verifies (partial: the Paillier layer is a hypothesis). *)
From Coq Require Import List Arith Bool Lia Field Ring ZArith.
Import ListNotations.
Require Import V.base.Fld V.model.SignCggmp.

Section CggmpProofs.
Context {F : Type} (K : fops F) (HK : flaws K).
Variable xc : F -> F.
Variable yodd xover : F -> bool.

Add Field Kfield_cggmp : (fl_theory K HK).

Local Infix "+" := (fadd K).
Local Infix "*" := (fmul K).
Local Infix "-" := (fsub K).
Local Infix "/" := (fdiv K).

(* ---- field facts -------------------------------------------------------------------- *)

Lemma feqb_refl : forall x, feqb K x x = true.
Proof. intros x. apply (fl_eqb K HK). reflexivity. Qed.

Lemma feqb_false : forall x y, x <> y -> feqb K x y = false.
Proof.
  intros x y H. destruct (feqb K x y) eqn:E; [|reflexivity].
  apply (fl_eqb K HK) in E. contradiction.
Qed.

Lemma fis0_false : forall x, x <> f0 K -> fis0 K x = false.
Proof. intros x H. unfold fis0. apply feqb_false. exact H. Qed.

Lemma fmul_nz : forall a b, a <> f0 K -> b <> f0 K -> a * b <> f0 K.
Proof.
  intros a b Ha Hb H. apply Hb.
  assert (E : b = (a * b) / a) by (field; exact Ha).
  rewrite E, H. field. exact Ha.
Qed.

Lemma fdiv_nz : forall a b, a <> f0 K -> b <> f0 K -> a / b <> f0 K.
Proof.
  intros a b Ha Hb H. apply Ha.
  assert (E : a = (a / b) * b) by (field; exact Hb).
  rewrite E, H. ring.
Qed.

(* ---- sum_over ----------------------------------------------------------------------- *)

Lemma sum_over_nil : forall f, sum_over K [] f = f0 K.
Proof. reflexivity. Qed.

Lemma sum_over_cons : forall a l f, sum_over K (a :: l) f = f a + sum_over K l f.
Proof. reflexivity. Qed.

Lemma sum_over_ext : forall l f g,
  (forall i, In i l -> f i = g i) -> sum_over K l f = sum_over K l g.
Proof.
  induction l as [|a l IH]; intros f g H; [reflexivity|].
  rewrite !sum_over_cons. rewrite (H a (or_introl eq_refl)). f_equal.
  apply IH. intros i Hi. apply H. right. exact Hi.
Qed.

Lemma sum_over_zero : forall l, sum_over K l (fun _ => f0 K) = f0 K.
Proof.
  induction l as [|a l IH]; [reflexivity|]. rewrite sum_over_cons, IH. ring.
Qed.

Lemma sum_over_add : forall l f g,
  sum_over K l (fun i => f i + g i) = sum_over K l f + sum_over K l g.
Proof.
  induction l as [|a l IH]; intros f g.
  - rewrite !sum_over_nil. ring.
  - rewrite !sum_over_cons, IH. ring.
Qed.

Lemma sum_over_scale : forall l c f,
  sum_over K l (fun i => c * f i) = c * sum_over K l f.
Proof.
  induction l as [|a l IH]; intros c f.
  - rewrite !sum_over_nil. ring.
  - rewrite !sum_over_cons, IH. ring.
Qed.

Lemma sum_over_scale_r : forall l c f,
  sum_over K l (fun i => f i * c) = sum_over K l f * c.
Proof.
  induction l as [|a l IH]; intros c f.
  - rewrite !sum_over_nil. ring.
  - rewrite !sum_over_cons, IH. ring.
Qed.

(* exchange of two finite sums *)
Lemma sum_over_swap : forall l1 l2 (f : nat -> nat -> F),
  sum_over K l1 (fun i => sum_over K l2 (fun j => f i j)) =
  sum_over K l2 (fun j => sum_over K l1 (fun i => f i j)).
Proof.
  induction l1 as [|a l1 IH]; intros l2 f.
  - rewrite sum_over_nil. symmetry.
    rewrite (sum_over_ext l2 _ (fun _ => f0 K)) by (intros; reflexivity).
    apply sum_over_zero.
  - rewrite sum_over_cons, IH. rewrite <- sum_over_add.
    apply sum_over_ext. intros j _. reflexivity.
Qed.

Lemma sum_over_filter : forall p l f,
  sum_over K (filter p l) f = sum_over K l (fun i => if p i then f i else f0 K).
Proof.
  intros p l f. induction l as [|a l IH]; [reflexivity|].
  cbn [filter]. rewrite (sum_over_cons a l). destruct (p a).
  - rewrite sum_over_cons, IH. reflexivity.
  - rewrite IH. ring.
Qed.

Lemma sum_delta_notin : forall l j (g : nat -> F), ~ In j l ->
  sum_over K l (fun i => if Nat.eqb i j then g i else f0 K) = f0 K.
Proof.
  induction l as [|a l IH]; intros j g Hj; [reflexivity|].
  rewrite sum_over_cons. destruct (Nat.eqb a j) eqn:E.
  - apply Nat.eqb_eq in E. exfalso. apply Hj. left. exact E.
  - rewrite IH by (intro H; apply Hj; right; exact H). ring.
Qed.

Lemma sum_delta_in : forall l j (g : nat -> F), NoDup l -> In j l ->
  sum_over K l (fun i => if Nat.eqb i j then g i else f0 K) = g j.
Proof.
  induction l as [|a l IH]; intros j g Hnd Hj; [destruct Hj|].
  rewrite sum_over_cons. inversion Hnd as [|a' l' Hna Hnd']; subst.
  destruct (Nat.eqb a j) eqn:E.
  - apply Nat.eqb_eq in E. subst a. rewrite sum_delta_notin by exact Hna. ring.
  - apply Nat.eqb_neq in E. destruct Hj as [Hj|Hj]; [contradiction|].
    rewrite IH by assumption. ring.
Qed.

Lemma in_parties : forall n i, In i (parties n) <-> (i < n)%nat.
Proof. intros n i. unfold parties. rewrite in_seq. lia. Qed.

Lemma in_others : forall n j i, In i (others n j) <-> (i < n)%nat /\ i <> j.
Proof.
  intros n j i. unfold others. rewrite filter_In, in_seq, negb_true_iff, Nat.eqb_neq. lia.
Qed.

Lemma sum_others_as_parties : forall n j f,
  sum_over K (others n j) f =
  sum_over K (parties n) (fun i => if negb (Nat.eqb i j) then f i else f0 K).
Proof. intros n j f. unfold others, parties. apply sum_over_filter. Qed.

(* sum over all parties = the term of party j + the sum over the others *)
Lemma sum_parties_split : forall n j f, (j < n)%nat ->
  sum_over K (parties n) f = f j + sum_over K (others n j) f.
Proof.
  intros n j f Hj. rewrite sum_others_as_parties.
  rewrite <- (sum_delta_in (parties n) j f).
  - rewrite <- sum_over_add. apply sum_over_ext. intros i _.
    destruct (Nat.eqb i j); cbn [negb]; ring.
  - unfold parties. apply seq_NoDup.
  - apply in_parties. exact Hj.
Qed.

(* the double sum over ordered pairs of distinct parties may be read either way round *)
Lemma sum_others_exchange : forall n (f : nat -> nat -> F),
  sum_over K (parties n) (fun j => sum_over K (others n j) (fun i => f j i)) =
  sum_over K (parties n) (fun j => sum_over K (others n j) (fun i => f i j)).
Proof.
  intros n f.
  rewrite (sum_over_ext (parties n) _
    (fun j => sum_over K (parties n) (fun i => if negb (Nat.eqb i j) then f j i else f0 K)))
    by (intros j _; apply sum_others_as_parties).
  rewrite sum_over_swap.
  apply sum_over_ext. intros j _. rewrite sum_others_as_parties.
  apply sum_over_ext. intros i _. rewrite (Nat.eqb_sym j i). reflexivity.
Qed.

(* ---- the multiplicative-to-additive step ------------------------------------------- *)

(* Σ_i [ b_i a_i + Σ_{j≠i} (c_ji + d_ij) ] = (Σ a)(Σ b)
   when c_ji + d_ji = a_j b_i for all ordered pairs i ≠ j
   (c j i is what i decrypts from j, d j i is j's mask towards i) *)
Lemma sum_mta_share : forall n (a b : nat -> F) (c d : nat -> nat -> F),
  (forall i j, (i < n)%nat -> (j < n)%nat -> i <> j -> c j i + d j i = a j * b i) ->
  sum_over K (parties n)
    (fun i => b i * a i + sum_over K (others n i) (fun j => c j i + d i j))
  = sum_over K (parties n) a * sum_over K (parties n) b.
Proof.
  intros n a b c d H.
  assert (T2 : sum_over K (parties n) (fun i => sum_over K (others n i) (fun j => c j i + d i j))
             = sum_over K (parties n) (fun i => sum_over K (others n i) a * b i)).
  { rewrite (sum_over_ext (parties n) _
      (fun i => sum_over K (others n i) (fun j => c j i) + sum_over K (others n i) (fun j => d i j)))
      by (intros i _; apply sum_over_add).
    rewrite sum_over_add.
    rewrite (sum_others_exchange n (fun i j => d i j)).
    rewrite <- sum_over_add.
    apply sum_over_ext. intros i Hi. apply in_parties in Hi.
    rewrite <- sum_over_add, <- sum_over_scale_r.
    apply sum_over_ext. intros j Hj. apply in_others in Hj. destruct Hj as [Hj Hji].
    apply H; auto. }
  rewrite sum_over_add, T2, <- sum_over_add.
  rewrite (sum_over_ext (parties n) _ (fun i => sum_over K (parties n) a * b i)).
  - apply sum_over_scale.
  - intros i Hi. apply in_parties in Hi.
    rewrite (sum_parties_split n i a Hi). ring.
Qed.

Theorem sum_delta : forall inp, mta_product K inp ->
  delta K inp = fmul K (big_gamma K inp) (big_k K inp).
Proof.
  intros inp Hm. unfold delta, big_gamma, big_k.
  rewrite <- (sum_mta_share (in_n inp) (in_gamma inp) (in_k inp) (in_alpha inp) (in_beta inp)).
  - apply sum_over_ext. intros i _. unfold delta_of. ring.
  - intros i j Hi Hj Hij. apply (Hm i j Hi Hj Hij).
Qed.

Theorem sum_chi : forall inp, mta_product K inp ->
  sum_over K (parties (in_n inp)) (chi_of K inp) = fmul K (big_x K inp) (big_k K inp).
Proof.
  intros inp Hm. unfold big_x, big_k.
  rewrite <- (sum_mta_share (in_n inp) (in_x inp) (in_k inp) (in_alphah inp) (in_betah inp)).
  - apply sum_over_ext. intros i _. unfold chi_of. reflexivity.
  - intros i j Hi Hj Hij. apply (Hm i j Hi Hj Hij).
Qed.

(* ---- Round4 ------------------------------------------------------------------------- *)

Definition sigma_of (inp : inputs) (m : F) (i : nat) : F :=
  (in_k inp i / delta K inp) * m + xc (big_gamma K inp) * (chi_of K inp i / delta K inp).

Lemma delta_nz : forall inp m y, mta_product K inp -> guard K xc inp m y ->
  delta K inp <> f0 K.
Proof.
  intros inp m y Hm (Hg & Hk & _). rewrite (sum_delta inp Hm). apply fmul_nz; assumption.
Qed.

Theorem round4_ok : forall inp m y i, mta_product K inp -> big_x K inp = y ->
  guard K xc inp m y ->
  round4 K xc inp m y i = Some (sigma_of inp m i).
Proof.
  intros inp m y i Hm Hy Hgd.
  pose proof (delta_nz inp m y Hm Hgd) as Hd.
  destruct Hgd as (Hg & Hk & _).
  unfold round4. cbv zeta.
  rewrite (fis0_false _ Hg).
  assert (E1 : delta K inp = sum_over K (parties (in_n inp)) (fun j => in_k inp j * big_gamma K inp)).
  { rewrite sum_over_scale_r, (sum_delta inp Hm). fold (big_k K inp). ring. }
  rewrite <- E1, feqb_refl. cbn [negb].
  assert (E2 : y * delta K inp =
               sum_over K (parties (in_n inp)) (fun j => chi_of K inp j * big_gamma K inp)).
  { rewrite sum_over_scale_r, (sum_chi inp Hm), (sum_delta inp Hm), Hy. ring. }
  rewrite <- E2, feqb_refl. cbn [negb].
  rewrite (fis0_false _ Hd). reflexivity.
Qed.

(* ---- aggregation -------------------------------------------------------------------- *)

Lemma all_some_map : forall {A} (f : nat -> option A) (g : nat -> A) l,
  (forall i, In i l -> f i = Some (g i)) -> all_some (map f l) = Some (map g l).
Proof.
  intros A f g l. induction l as [|a l IH]; intros H; [reflexivity|].
  cbn [map all_some]. rewrite (H a (or_introl eq_refl)).
  rewrite IH by (intros i Hi; apply H; right; exact Hi). reflexivity.
Qed.

Lemma combine_map_self : forall (g : nat -> F) l js,
  In js (combine l (map g l)) -> In (fst js) l /\ snd js = g (fst js).
Proof.
  intros g l. induction l as [|a l IH]; intros js H; [destruct H|].
  cbn [map combine] in H. destruct H as [H|H].
  - subst js. cbn [fst snd]. split; [left|]; reflexivity.
  - destruct (IH js H) as [H1 H2]. split; [right; exact H1|exact H2].
Qed.

Lemma fold_map : forall (g : nat -> F) l,
  fold_right (fun a acc => a + acc) (f0 K) (map g l) = sum_over K l g.
Proof.
  intros g l. induction l as [|a l IH]; [reflexivity|].
  cbn [map fold_right]. rewrite IH. reflexivity.
Qed.

Lemma sum_sigma : forall inp m y, mta_product K inp -> big_x K inp = y ->
  guard K xc inp m y ->
  sum_over K (parties (in_n inp)) (sigma_of inp m) =
  (m + xc (big_gamma K inp) * y) / big_gamma K inp.
Proof.
  intros inp m y Hm Hy Hgd.
  pose proof (delta_nz inp m y Hm Hgd) as Hd.
  destruct Hgd as (Hg & Hk & _).
  assert (E : sum_over K (parties (in_n inp)) (sigma_of inp m) =
              (big_k K inp * m + xc (big_gamma K inp) * sum_over K (parties (in_n inp)) (chi_of K inp))
              / delta K inp).
  { unfold big_k.
    rewrite (sum_over_ext _ (sigma_of inp m)
      (fun i => (m / delta K inp) * in_k inp i
                + (xc (big_gamma K inp) / delta K inp) * chi_of K inp i)).
    - rewrite sum_over_add, !sum_over_scale. field. exact Hd.
    - intros i _. unfold sigma_of. field. exact Hd. }
  rewrite E, (sum_chi inp Hm), Hy. clear E.
  revert Hd. rewrite (sum_delta inp Hm). intros Hd.
  field. split; assumption.
Qed.

Theorem aggregate_ok : forall inp m y, mta_product K inp -> big_x K inp = y ->
  guard K xc inp m y ->
  aggregate K xc yodd xover inp m (map (sigma_of inp m) (parties (in_n inp))) =
  Some (expected_sig K xc yodd xover inp m y).
Proof.
  intros inp m y Hm Hy Hgd.
  pose proof (delta_nz inp m y Hm Hgd) as Hd.
  pose proof (sum_sigma inp m y Hm Hy Hgd) as Hs.
  destruct Hgd as (Hg & Hk & Hr & Hmy & Hsig).
  unfold aggregate. cbv zeta.
  match goal with |- (if negb (forallb ?p ?l) then _ else _) = _ =>
    assert (Hall : forallb p l = true) end.
  { apply forallb_forall. intros js Hjs.
    apply combine_map_self in Hjs. destruct Hjs as [Hin Hsnd]. apply in_parties in Hin.
    rewrite Hsnd. apply andb_true_intro. split.
    - unfold sigma_of. rewrite (fis0_false _ (Hsig _ Hin)). reflexivity.
    - apply (fl_eqb K HK). unfold sigma_of. field. exact Hd. }
  rewrite Hall. cbn [negb].
  rewrite fold_map, Hs.
  rewrite (fis0_false _ Hr), (fis0_false _ (fdiv_nz _ _ Hmy Hg)). cbn [orb].
  reflexivity.
Qed.

Theorem sign_ok : forall inp m y, mta_product K inp -> big_x K inp = y ->
  guard K xc inp m y ->
  sign K xc yodd xover inp m y = Some (expected_sig K xc yodd xover inp m y).
Proof.
  intros inp m y Hm Hy Hgd. unfold sign.
  rewrite (all_some_map _ (sigma_of inp m)).
  - apply aggregate_ok; assumption.
  - intros i _. apply round4_ok; assumption.
Qed.

(* ---- the closed form verifies ------------------------------------------------------- *)

Theorem verify_expected : forall inp m y,
  big_gamma K inp <> f0 K -> xc (big_gamma K inp) <> f0 K ->
  m + xc (big_gamma K inp) * y <> f0 K ->
  verify K xc yodd xover m y (expected_sig K xc yodd xover inp m y) = true.
Proof.
  intros inp m y Hg Hr Hmy. unfold expected_sig, verify. cbv zeta.
  set (g := big_gamma K inp) in *. set (r := xc g) in *.
  assert (Hs : (m + r * y) / g <> f0 K) by (apply fdiv_nz; assumption).
  assert (Hk : (m + r * y) / ((m + r * y) / g) = g) by (field; split; assumption).
  cbn [fst snd]. rewrite Hk, (fis0_false _ Hr), (fis0_false _ Hs).
  fold r. rewrite feqb_refl, !eqb_reflx. reflexivity.
Qed.

Theorem cggmp_signature_valid_partial : forall inp m y,
  mta_product K inp                                     (* C16: Paillier affine operation *) ->
  big_x K inp = y ->
  guard K xc inp m y ->
  sign K xc yodd xover inp m y = Some (expected_sig K xc yodd xover inp m y) /\
  verify K xc yodd xover m y (expected_sig K xc yodd xover inp m y) = true.
Proof.
  intros inp m y Hm Hy Hgd. split.
  - apply sign_ok; assumption.
  - destruct Hgd as (Hg & _ & Hr & Hmy & _). apply verify_expected; assumption.
Qed.

End CggmpProofs.
