(* SignDkls_proofs.v — proofs about model/SignDkls.v (DKLs23 threshold ECDSA in the exponent)
   over an arbitrary field (flaws K):
     - algebra of [sum_over] (linearity, splitting off one party, exchange of the double sum
       over ordered pairs of distinct parties),
     - sum of the u_j / v_j / w_j under the VOLE product relation,
     - the consistency checks and the last round succeed for honest inputs,
     - the aggregated signature is the closed form [expected_sig] and verifies,
     - sign returns an error exactly when [guard] fails,
     - the PRZS zero sharing sums to zero. *)
From Coq Require Import List Arith Bool Lia Field Ring ZArith.
Import ListNotations.
Require Import V.base.Fld V.model.SignDkls.

Section DklsProofs.
Context {F : Type} (K : fops F) (HK : flaws K).
Variable xc : F -> F.
Variable yodd xover high : F -> bool.
Hypothesis xc_neg : forall k, xc (fopp K k) = xc k.
Hypothesis yodd_neg : forall k, k <> f0 K -> yodd (fopp K k) = negb (yodd k).
Hypothesis xover_neg : forall k, xover (fopp K k) = xover k.

Add Field Kfield_dkls : (fl_theory K HK).

Local Infix "+" := (fadd K).
Local Infix "*" := (fmul K).
Local Infix "-" := (fsub K).
Local Infix "/" := (fdiv K).

(* ---- field facts -------------------------------------------------------------------- *)

Lemma feqb_refl : forall x, feqb K x x = true.
Proof. intros x. apply (fl_eqb K HK). reflexivity. Qed.

Lemma feqb_false : forall x y, x <> y -> feqb K x y = false.
Proof.
  intros x y H. destruct (feqb K x y) eqn:E; [|reflexivity].
  apply (fl_eqb K HK) in E. contradiction.
Qed.

Lemma feqb_false_inv : forall x y, feqb K x y = false -> x <> y.
Proof. intros x y E H. apply (fl_eqb K HK) in H. congruence. Qed.

Lemma fis0_false : forall x, x <> f0 K -> fis0 K x = false.
Proof. intros x H. unfold fis0. apply feqb_false. exact H. Qed.

Lemma fis0_false_inv : forall x, fis0 K x = false -> x <> f0 K.
Proof. intros x H. unfold fis0 in H. apply feqb_false_inv. exact H. Qed.

Lemma fmul_nz : forall a b, a <> f0 K -> b <> f0 K -> a * b <> f0 K.
Proof.
  intros a b Ha Hb H. apply Hb.
  assert (E : b = (a * b) / a) by (field; exact Ha).
  rewrite E, H. field. exact Ha.
Qed.

Lemma fdiv_nz : forall a b, a <> f0 K -> b <> f0 K -> a / b <> f0 K.
Proof.
  intros a b Ha Hb H. apply Ha.
  assert (E : a = (a / b) * b) by (field; exact Hb).
  rewrite E, H. ring.
Qed.

Lemma fopp_nz : forall a, a <> f0 K -> fopp K a <> f0 K.
Proof.
  intros a Ha H. apply Ha.
  assert (E : a = fopp K (fopp K a)) by ring.
  rewrite E, H. ring.
Qed.

(* ---- sum_over ----------------------------------------------------------------------- *)

Lemma sum_over_nil : forall f, sum_over K [] f = f0 K.
Proof. reflexivity. Qed.

Lemma sum_over_cons : forall a l f, sum_over K (a :: l) f = f a + sum_over K l f.
Proof. reflexivity. Qed.

Lemma sum_over_ext : forall l f g,
  (forall i, In i l -> f i = g i) -> sum_over K l f = sum_over K l g.
Proof.
  induction l as [|a l IH]; intros f g H; [reflexivity|].
  rewrite !sum_over_cons. rewrite (H a (or_introl eq_refl)). f_equal.
  apply IH. intros i Hi. apply H. right. exact Hi.
Qed.

Lemma sum_over_zero : forall l, sum_over K l (fun _ => f0 K) = f0 K.
Proof.
  induction l as [|a l IH]; [reflexivity|]. rewrite sum_over_cons, IH. ring.
Qed.

Lemma sum_over_add : forall l f g,
  sum_over K l (fun i => f i + g i) = sum_over K l f + sum_over K l g.
Proof.
  induction l as [|a l IH]; intros f g.
  - rewrite !sum_over_nil. ring.
  - rewrite !sum_over_cons, IH. ring.
Qed.

Lemma sum_over_sub : forall l f g,
  sum_over K l (fun i => f i - g i) = sum_over K l f - sum_over K l g.
Proof.
  induction l as [|a l IH]; intros f g.
  - rewrite !sum_over_nil. ring.
  - rewrite !sum_over_cons, IH. ring.
Qed.

Lemma sum_over_scale : forall l c f,
  sum_over K l (fun i => c * f i) = c * sum_over K l f.
Proof.
  induction l as [|a l IH]; intros c f.
  - rewrite !sum_over_nil. ring.
  - rewrite !sum_over_cons, IH. ring.
Qed.

Lemma sum_over_scale_r : forall l c f,
  sum_over K l (fun i => f i * c) = sum_over K l f * c.
Proof.
  induction l as [|a l IH]; intros c f.
  - rewrite !sum_over_nil. ring.
  - rewrite !sum_over_cons, IH. ring.
Qed.

Lemma sum_over_app : forall l1 l2 f,
  sum_over K (l1 ++ l2) f = sum_over K l1 f + sum_over K l2 f.
Proof.
  induction l1 as [|a l1 IH]; intros l2 f; cbn [app].
  - rewrite sum_over_nil. ring.
  - rewrite !sum_over_cons, IH. ring.
Qed.

(* exchange of two finite sums *)
Lemma sum_over_swap : forall l1 l2 (f : nat -> nat -> F),
  sum_over K l1 (fun i => sum_over K l2 (fun j => f i j)) =
  sum_over K l2 (fun j => sum_over K l1 (fun i => f i j)).
Proof.
  induction l1 as [|a l1 IH]; intros l2 f.
  - rewrite sum_over_nil. symmetry.
    rewrite (sum_over_ext l2 _ (fun _ => f0 K)) by (intros; reflexivity).
    apply sum_over_zero.
  - rewrite sum_over_cons, IH. rewrite <- sum_over_add.
    apply sum_over_ext. intros j _. reflexivity.
Qed.

Lemma sum_over_filter : forall p l f,
  sum_over K (filter p l) f = sum_over K l (fun i => if p i then f i else f0 K).
Proof.
  intros p l f. induction l as [|a l IH]; [reflexivity|].
  cbn [filter]. rewrite (sum_over_cons a l). destruct (p a).
  - rewrite sum_over_cons, IH. reflexivity.
  - rewrite IH. ring.
Qed.

Lemma sum_delta_notin : forall l j (g : nat -> F), ~ In j l ->
  sum_over K l (fun i => if Nat.eqb i j then g i else f0 K) = f0 K.
Proof.
  induction l as [|a l IH]; intros j g Hj; [reflexivity|].
  rewrite sum_over_cons. destruct (Nat.eqb a j) eqn:E.
  - apply Nat.eqb_eq in E. exfalso. apply Hj. left. exact E.
  - rewrite IH by (intro H; apply Hj; right; exact H). ring.
Qed.

Lemma sum_delta_in : forall l j (g : nat -> F), NoDup l -> In j l ->
  sum_over K l (fun i => if Nat.eqb i j then g i else f0 K) = g j.
Proof.
  induction l as [|a l IH]; intros j g Hnd Hj; [destruct Hj|].
  rewrite sum_over_cons. inversion Hnd as [|a' l' Hna Hnd']; subst.
  destruct (Nat.eqb a j) eqn:E.
  - apply Nat.eqb_eq in E. subst a. rewrite sum_delta_notin by exact Hna. ring.
  - apply Nat.eqb_neq in E. destruct Hj as [Hj|Hj]; [contradiction|].
    rewrite IH by assumption. ring.
Qed.

Lemma in_parties : forall n i, In i (parties n) <-> (i < n)%nat.
Proof. intros n i. unfold parties. rewrite in_seq. lia. Qed.

Lemma in_others : forall n j i, In i (others n j) <-> (i < n)%nat /\ i <> j.
Proof.
  intros n j i. unfold others. rewrite filter_In, in_seq, negb_true_iff, Nat.eqb_neq. lia.
Qed.

Lemma sum_others_as_parties : forall n j f,
  sum_over K (others n j) f =
  sum_over K (parties n) (fun i => if negb (Nat.eqb i j) then f i else f0 K).
Proof. intros n j f. unfold others, parties. apply sum_over_filter. Qed.

(* sum over all parties = the term of party j + the sum over the others *)
Lemma sum_parties_split : forall n j f, (j < n)%nat ->
  sum_over K (parties n) f = f j + sum_over K (others n j) f.
Proof.
  intros n j f Hj. rewrite sum_others_as_parties.
  rewrite <- (sum_delta_in (parties n) j f).
  - rewrite <- sum_over_add. apply sum_over_ext. intros i _.
    destruct (Nat.eqb i j); cbn [negb]; ring.
  - unfold parties. apply seq_NoDup.
  - apply in_parties. exact Hj.
Qed.

(* the double sum over ordered pairs of distinct parties may be read either way round *)
Lemma sum_others_exchange : forall n (f : nat -> nat -> F),
  sum_over K (parties n) (fun j => sum_over K (others n j) (fun i => f j i)) =
  sum_over K (parties n) (fun j => sum_over K (others n j) (fun i => f i j)).
Proof.
  intros n f.
  rewrite (sum_over_ext (parties n) _
    (fun j => sum_over K (parties n) (fun i => if negb (Nat.eqb i j) then f j i else f0 K)))
    by (intros j _; apply sum_others_as_parties).
  rewrite sum_over_swap.
  apply sum_over_ext. intros j _. rewrite sum_others_as_parties.
  apply sum_over_ext. intros i _. rewrite (Nat.eqb_sym j i). reflexivity.
Qed.

(* ---- the multiplicative-to-additive step ------------------------------------------- *)

(* Σ_j [ a_j (φ_j + Σ_{i≠j} (φ_i − χ_ij)) + Σ_{i≠j} (c_ji + d_ji) ] = (Σ a)(Σ φ)
   when c_ij + d_ji = a_i χ_ji for all ordered pairs i ≠ j *)
Lemma sum_mul_share : forall inp (a : nat -> F) (c d : nat -> nat -> F),
  (forall i j, (i < in_n inp)%nat -> (j < in_n inp)%nat -> i <> j ->
     c i j + d j i = a i * in_chi inp j i) ->
  sum_over K (parties (in_n inp))
    (fun j => a j * (in_phi inp j + psi_in K inp j) +
              sum_over K (others (in_n inp) j) (fun i => c j i + d j i))
  = sum_over K (parties (in_n inp)) a * sum_over K (parties (in_n inp)) (in_phi inp).
Proof.
  intros inp a c d H.
  set (n := in_n inp) in *.
  set (Sphi := sum_over K (parties n) (in_phi inp)).
  assert (T2 : sum_over K (parties n) (fun j => sum_over K (others n j) (fun i => c j i + d j i))
             = sum_over K (parties n) (fun j => a j * sum_over K (others n j) (fun i => in_chi inp i j))).
  { rewrite (sum_over_ext (parties n) _
      (fun j => sum_over K (others n j) (fun i => c j i) + sum_over K (others n j) (fun i => d j i)))
      by (intros j _; apply sum_over_add).
    rewrite sum_over_add.
    rewrite (sum_others_exchange n (fun j i => d j i)).
    rewrite <- sum_over_add.
    apply sum_over_ext. intros j Hj. apply in_parties in Hj.
    rewrite <- sum_over_add, <- sum_over_scale.
    apply sum_over_ext. intros i Hi. apply in_others in Hi. destruct Hi as [Hi Hij].
    apply H; auto. }
  rewrite sum_over_add, T2, <- sum_over_add.
  rewrite <- sum_over_scale_r.
  apply sum_over_ext. intros j Hj. apply in_parties in Hj.
  unfold Sphi. rewrite (sum_parties_split n j (in_phi inp) Hj).
  unfold psi_in, psi_msg. fold n. rewrite sum_over_sub. ring.
Qed.

Lemma sum_u : forall inp, vole_product K inp ->
  sum_over K (parties (in_n inp)) (u_of K inp) =
  fmul K (big_r K inp) (sum_over K (parties (in_n inp)) (in_phi inp)).
Proof.
  intros inp Hv. unfold big_r.
  apply (sum_mul_share inp (in_r inp) (in_cu inp) (in_du inp)).
  intros i j Hi Hj Hij. apply (Hv i j Hi Hj Hij).
Qed.

Lemma sum_v : forall inp, vole_product K inp ->
  sum_over K (parties (in_n inp)) (v_of K inp) =
  fmul K (big_pk K inp) (sum_over K (parties (in_n inp)) (in_phi inp)).
Proof.
  intros inp Hv. unfold big_pk.
  apply (sum_mul_share inp (in_sk inp) (in_cv inp) (in_dv inp)).
  intros i j Hi Hj Hij. apply (Hv i j Hi Hj Hij).
Qed.

Lemma sum_w : forall inp m, vole_product K inp ->
  sum_over K (parties (in_n inp)) (w_of K xc inp m) =
  fmul K (sum_over K (parties (in_n inp)) (in_phi inp))
         (fadd K m (fmul K (xc (big_r K inp)) (big_pk K inp))).
Proof.
  intros inp m Hv. unfold w_of.
  rewrite sum_over_add, !sum_over_scale, (sum_v inp Hv). ring.
Qed.

(* ---- the consistency checks and the last round ------------------------------------- *)

Lemma consistency_holds : forall inp j i, vole_product K inp ->
  (i < in_n inp)%nat -> (j < in_n inp)%nat -> i <> j -> consistency K inp j i = true.
Proof.
  intros inp j i Hv Hi Hj Hij. destruct (Hv i j Hi Hj Hij) as [Hu Hw].
  unfold consistency. apply andb_true_intro. split; apply (fl_eqb K HK).
  - rewrite <- Hu. ring.
  - rewrite <- Hw. ring.
Qed.

Theorem round_last_ok : forall inp m x j, vole_product K inp -> big_pk K inp = x ->
  guard K xc inp m x -> (j < in_n inp)%nat ->
  round_last K xc inp m x j = Some (big_r K inp, u_of K inp j, w_of K xc inp m j).
Proof.
  intros inp m x j Hv Hpk Hg Hj.
  destruct Hg as (HR & _ & Huw & _ & _). destruct (Huw j Hj) as [Hu Hw].
  unfold round_last.
  assert (Hc : forallb (consistency K inp j) (others (in_n inp) j) = true).
  { apply forallb_forall. intros i Hi. apply in_others in Hi. destruct Hi as [Hi Hij].
    apply consistency_holds; assumption. }
  rewrite Hc. cbn [negb].
  rewrite Hpk, feqb_refl. cbn [negb].
  rewrite (fis0_false _ HR), (fis0_false _ Hu), (fis0_false _ Hw). reflexivity.
Qed.

(* ---- aggregation ------------------------------------------------------------------- *)

Lemma all_some_map : forall {A} (f : nat -> option A) (g : nat -> A) l,
  (forall i, In i l -> f i = Some (g i)) -> all_some (map f l) = Some (map g l).
Proof.
  intros A f g l. induction l as [|a l IH]; intros H; [reflexivity|].
  cbn [map all_some]. rewrite (H a (or_introl eq_refl)).
  rewrite IH by (intros i Hi; apply H; right; exact Hi). reflexivity.
Qed.

Lemma all_some_map_some : forall {A} (f : nat -> option A) l ps,
  all_some (map f l) = Some ps -> forall i, In i l -> exists p, f i = Some p.
Proof.
  intros A f l. induction l as [|a l IH]; intros ps H i Hi; [destruct Hi|].
  cbn [map all_some] in H. destruct (f a) as [pa|] eqn:Ea; [|discriminate].
  destruct (all_some (map f l)) as [t|] eqn:Et; [|discriminate].
  destruct Hi as [Hi|Hi].
  - subst i. exists pa. exact Ea.
  - apply (IH t eq_refl i Hi).
Qed.

Lemma all_some_map_inv : forall {A} (f : nat -> option A) (g : nat -> A) l ps,
  all_some (map f l) = Some ps ->
  (forall i p, In i l -> f i = Some p -> p = g i) -> ps = map g l.
Proof.
  intros A f g l. induction l as [|a l IH]; intros ps H Hg.
  - cbn [map all_some] in H. injection H as <-. reflexivity.
  - cbn [map all_some] in H. destruct (f a) as [pa|] eqn:Ea; [|discriminate].
    destruct (all_some (map f l)) as [t|] eqn:Et; [|discriminate].
    injection H as <-. cbn [map]. f_equal.
    + apply Hg; [left; reflexivity|exact Ea].
    + apply IH; [reflexivity|]. intros i p Hi. apply Hg. right. exact Hi.
Qed.

Lemma fold_w_map : forall (g : nat -> F * F * F) l,
  fold_right (fun p acc => snd p + acc) (f0 K) (map g l) = sum_over K l (fun i => snd (g i)).
Proof.
  intros g l. induction l as [|a l IH]; [reflexivity|].
  cbn [map fold_right]. rewrite IH. reflexivity.
Qed.

Lemma fold_u_map : forall (g : nat -> F * F * F) l,
  fold_right (fun p acc => snd (fst p) + acc) (f0 K) (map g l) =
  sum_over K l (fun i => snd (fst (g i))).
Proof.
  intros g l. induction l as [|a l IH]; [reflexivity|].
  cbn [map fold_right]. rewrite IH. reflexivity.
Qed.

Lemma aggregate_cons : forall m x p ps',
  aggregate K xc yodd xover high m x (p :: ps') =
  let ps := p :: ps' in
  let r0 := fst (fst p) in
  if negb (forallb (fun p => feqb K (fst (fst p)) r0) ps) then None
  else
    let w := fold_right (fun p acc => snd p + acc) (f0 K) ps in
    let u := fold_right (fun p acc => snd (fst p) + acc) (f0 K) ps in
    if fis0 K u then None
    else
      let s := w / u in
      if fis0 K r0 then None
      else
        let rx := xc r0 in
        if fis0 K rx || fis0 K s then None
        else
          let sg := normalise K high (rx, s, recid yodd xover r0) in
          if verify K xc yodd xover m x sg then Some sg else None.
Proof. intros m x [[r0 u] w] ps'. reflexivity. Qed.

(* Aggregate over the partial signatures (R, u_j, w_j), j in l *)
Lemma aggregate_map : forall m x l (R : F) (u w : nat -> F), l <> [] ->
  aggregate K xc yodd xover high m x (map (fun j => (R, u j, w j)) l) =
  if fis0 K (sum_over K l u) then None
  else if fis0 K R then None
  else if fis0 K (xc R) || fis0 K (sum_over K l w / sum_over K l u) then None
  else
    let sg := normalise K high (xc R, sum_over K l w / sum_over K l u, recid yodd xover R) in
    if verify K xc yodd xover m x sg then Some sg else None.
Proof.
  intros m x l R u w Hl. destruct l as [|a l]; [congruence|].
  set (g := fun j => (R, u j, w j)).
  change (map g (a :: l)) with (g a :: map g l).
  rewrite aggregate_cons. cbv zeta.
  change (g a :: map g l) with (map g (a :: l)).
  change (fst (fst (g a))) with R.
  assert (Hall : forallb (fun p : F * F * F => feqb K (fst (fst p)) R) (map g (a :: l)) = true).
  { apply forallb_forall. intros p Hp. apply in_map_iff in Hp. destruct Hp as (i & <- & _).
    apply feqb_refl. }
  rewrite Hall. cbn [negb].
  rewrite fold_w_map, fold_u_map. reflexivity.
Qed.

(* ---- the closed form verifies ------------------------------------------------------ *)

Lemma verify_expected : forall inp m x,
  big_r K inp <> f0 K -> xc (big_r K inp) <> f0 K ->
  m + xc (big_r K inp) * x <> f0 K ->
  let sg := expected_sig K xc yodd xover high inp m x in
  verify K xc yodd xover m x sg = true /\
  verify_plain K xc m x (fst (fst sg)) (snd (fst sg)) = true.
Proof.
  intros inp m x HR Hrx Hmx. unfold expected_sig, normalise.
  set (R := big_r K inp) in *. set (rx := xc R) in *.
  set (s := (m + rx * x) / R).
  assert (Hs : s <> f0 K) by (apply fdiv_nz; assumption).
  cbv zeta. destruct (high s).
  - assert (Hk : (m + rx * x) / fopp K s = fopp K R).
    { unfold s. field. split; [assumption|apply fopp_nz; assumption]. }
    assert (Hs' : fopp K s <> f0 K) by (apply fopp_nz; exact Hs).
    unfold verify, verify_plain, recid. cbn [fst snd].
    rewrite Hk, (fis0_false _ Hrx), (fis0_false _ Hs'), xc_neg, (yodd_neg R HR), xover_neg.
    fold rx. rewrite feqb_refl, !eqb_reflx. split; reflexivity.
  - assert (Hk : (m + rx * x) / s = R).
    { unfold s. field. split; assumption. }
    unfold verify, verify_plain, recid. cbn [fst snd].
    rewrite Hk, (fis0_false _ Hrx), (fis0_false _ Hs).
    fold rx. rewrite feqb_refl, !eqb_reflx. split; reflexivity.
Qed.

Lemma parties_nonempty : forall inp, big_r K inp <> f0 K -> parties (in_n inp) <> [].
Proof.
  intros inp HR E. apply HR. unfold big_r. rewrite E. reflexivity.
Qed.

Lemma big_pk_of_shares : forall inp x (a zeta : nat -> F),
  (forall i, in_sk inp i = fadd K (a i) (zeta i)) ->
  sum_over K (parties (in_n inp)) a = x ->
  sum_over K (parties (in_n inp)) zeta = f0 K ->
  big_pk K inp = x.
Proof.
  intros inp x a zeta Hsk Ha Hz. unfold big_pk.
  rewrite (sum_over_ext _ _ (fun i => a i + zeta i)) by (intros i _; apply Hsk).
  rewrite sum_over_add, Ha, Hz. ring.
Qed.

(* the honest run, given pk = x *)
Lemma sign_ok : forall inp m x, vole_product K inp -> big_pk K inp = x ->
  guard K xc inp m x ->
  sign K xc yodd xover high inp m x = Some (expected_sig K xc yodd xover high inp m x).
Proof.
  intros inp m x Hv Hpk Hg.
  assert (Hrl : forall j, In j (parties (in_n inp)) ->
            round_last K xc inp m x j = Some (big_r K inp, u_of K inp j, w_of K xc inp m j)).
  { intros j Hj. apply in_parties in Hj. apply round_last_ok; assumption. }
  destruct Hg as (HR & Hphi & Huw & Hrx & Hmx).
  unfold sign. unfold partial.
  rewrite (all_some_map _ (fun j => (big_r K inp, u_of K inp j, w_of K xc inp m j)) _ Hrl).
  rewrite aggregate_map by (apply parties_nonempty; exact HR).
  rewrite (sum_u inp Hv), (sum_w inp m Hv), Hpk.
  set (R := big_r K inp) in *. set (P := sum_over K (parties (in_n inp)) (in_phi inp)) in *.
  assert (Hs : (P * (m + xc R * x)) / (R * P) = (m + xc R * x) / R).
  { field. split; assumption. }
  rewrite Hs.
  rewrite (fis0_false _ (fmul_nz _ _ HR Hphi)), (fis0_false _ HR), (fis0_false _ Hrx).
  rewrite (fis0_false _ (fdiv_nz _ _ Hmx HR)). cbn [orb]. cbv zeta.
  change (normalise K high (xc R, (m + xc R * x) / R, recid yodd xover R))
    with (expected_sig K xc yodd xover high inp m x).
  destruct (verify_expected inp m x HR Hrx Hmx) as [Hver _]. cbv zeta in Hver.
  rewrite Hver. reflexivity.
Qed.

Theorem dkls_signature_valid : forall inp m x (a zeta : nat -> F),
  (forall i, in_sk inp i = fadd K (a i) (zeta i)) ->
  sum_over K (parties (in_n inp)) a = x                 (* C02 to_additive_sums *) ->
  sum_over K (parties (in_n inp)) zeta = f0 K           (* przs zero_sum *) ->
  vole_product K inp                                    (* C09 vole_product *) ->
  guard K xc inp m x ->
  let sg := expected_sig K xc yodd xover high inp m x in
  sign K xc yodd xover high inp m x = Some sg /\
  verify K xc yodd xover m x sg = true /\
  verify_plain K xc m x (fst (fst sg)) (snd (fst sg)) = true /\
  (forall j, (j < in_n inp)%nat ->
     round_last K xc inp m x j = Some (big_r K inp, u_of K inp j, w_of K xc inp m j)).
Proof.
  intros inp m x a zeta Hsk Ha Hz Hv Hg sg.
  assert (Hpk : big_pk K inp = x) by (apply (big_pk_of_shares inp x a zeta); assumption).
  split; [apply sign_ok; assumption|].
  pose proof Hg as Hg'.
  destruct Hg' as (HR & Hphi & Huw & Hrx & Hmx).
  destruct (verify_expected inp m x HR Hrx Hmx) as [H1 H2].
  split; [exact H1|]. split; [exact H2|].
  intros j Hj. apply round_last_ok; assumption.
Qed.

(* ---- sign returns an error exactly when the guard fails ----------------------------- *)

Lemma round_last_some_inv : forall inp m x j p,
  round_last K xc inp m x j = Some p ->
  big_pk K inp = x /\ big_r K inp <> f0 K /\ u_of K inp j <> f0 K /\ w_of K xc inp m j <> f0 K /\
  p = (big_r K inp, u_of K inp j, w_of K xc inp m j).
Proof.
  intros inp m x j p H. unfold round_last in H.
  destruct (negb (forallb (consistency K inp j) (others (in_n inp) j))); [discriminate|].
  destruct (feqb K (big_pk K inp) x) eqn:Epk; cbn [negb] in H; [|discriminate].
  destruct (fis0 K (big_r K inp)) eqn:ER; [discriminate|].
  destruct (fis0 K (u_of K inp j)) eqn:Eu; cbn [orb] in H; [discriminate|].
  destruct (fis0 K (w_of K xc inp m j)) eqn:Ew; [discriminate|].
  injection H as <-.
  apply (fl_eqb K HK) in Epk.
  repeat split; auto using fis0_false_inv.
Qed.

Theorem sign_some_guard : forall inp m x sg, vole_product K inp ->
  sign K xc yodd xover high inp m x = Some sg -> guard K xc inp m x.
Proof.
  intros inp m x sg Hv H. unfold sign in H.
  destruct (all_some (map (round_last K xc inp m x) (parties (in_n inp)))) as [ps|] eqn:E;
    [|discriminate].
  assert (Hps : ps = map (fun j => (big_r K inp, u_of K inp j, w_of K xc inp m j))
                         (parties (in_n inp))).
  { apply (all_some_map_inv _ _ _ _ E). intros i p _ Hp.
    apply round_last_some_inv in Hp. apply Hp. }
  assert (Hall : forall j, (j < in_n inp)%nat ->
            big_pk K inp = x /\ big_r K inp <> f0 K /\ u_of K inp j <> f0 K /\
            w_of K xc inp m j <> f0 K).
  { intros j Hj. apply in_parties in Hj.
    destruct (all_some_map_some _ _ _ E j Hj) as [p Hp].
    apply round_last_some_inv in Hp. destruct Hp as (H1 & H2 & H3 & H4 & _).
    repeat split; assumption. }
  assert (Hne : parties (in_n inp) <> []).
  { intros E0. rewrite E0 in Hps. cbn [map] in Hps. subst ps. discriminate H. }
  assert (H0 : (0 < in_n inp)%nat).
  { destruct (in_n inp); [exfalso; apply Hne; reflexivity|apply Nat.lt_0_succ]. }
  destruct (Hall 0%nat H0) as (Hpk & HR & _ & _).
  subst ps. rewrite aggregate_map in H by exact Hne.
  rewrite (sum_u inp Hv), (sum_w inp m Hv), Hpk in H.
  set (R := big_r K inp) in *. set (P := sum_over K (parties (in_n inp)) (in_phi inp)) in *.
  destruct (fis0 K (R * P)) eqn:EU; [discriminate|]. apply fis0_false_inv in EU.
  destruct (fis0 K R); [discriminate|].
  destruct (fis0 K (xc R)) eqn:Erx; cbn [orb] in H; [discriminate|]. apply fis0_false_inv in Erx.
  destruct (fis0 K ((P * (m + xc R * x)) / (R * P))) eqn:Es; [discriminate|].
  apply fis0_false_inv in Es.
  assert (HP : P <> f0 K).
  { intros HP. apply EU. rewrite HP. ring. }
  unfold guard. fold R. fold P. split; [exact HR|]. split; [exact HP|]. split.
  { intros j Hj. destruct (Hall j Hj) as (_ & _ & Hu & Hw). split; assumption. }
  split; [exact Erx|].
  intros Hmx. apply Es. rewrite Hmx. field. split; assumption.
Qed.

Theorem dkls_sign_error_iff_guard_fails : forall inp m x (a zeta : nat -> F),
  (forall i, in_sk inp i = fadd K (a i) (zeta i)) ->
  sum_over K (parties (in_n inp)) a = x ->
  sum_over K (parties (in_n inp)) zeta = f0 K ->
  vole_product K inp ->
  (sign K xc yodd xover high inp m x = None <-> ~ guard K xc inp m x).
Proof.
  intros inp m x a zeta Hsk Ha Hz Hv.
  assert (Hpk : big_pk K inp = x) by (apply (big_pk_of_shares inp x a zeta); assumption).
  split.
  - intros Hn Hg. rewrite (sign_ok inp m x Hv Hpk Hg) in Hn. discriminate.
  - intros Hng. destruct (sign K xc yodd xover high inp m x) as [sg|] eqn:E; [|reflexivity].
    exfalso. apply Hng. apply (sign_some_guard inp m x sg Hv E).
Qed.

(* ---- PRZS zero sharing (pkg/mpc/zero/przs/sampler.go) ------------------------------ *)

(* party i adds v(i,j) for every other j > i and subtracts v(j,i) for every j < i *)
Definition przs_share (n : nat) (v : nat -> nat -> F) (i : nat) : F :=
  sum_over K (others n i) (fun j => if Nat.ltb j i then fopp K (v j i) else v i j).

Lemma przs_zero_sum : forall n v, sum_over K (parties n) (przs_share n v) = f0 K.
Proof.
  intros n v.
  set (p := fun i j : nat => if Nat.ltb i j then v i j else f0 K).
  assert (E : forall i, In i (parties n) ->
            przs_share n v i =
            sum_over K (parties n) (fun j => p i j) - sum_over K (parties n) (fun j => p j i)).
  { intros i _. unfold przs_share. rewrite sum_others_as_parties, <- sum_over_sub.
    apply sum_over_ext. intros j _. unfold p.
    destruct (Nat.eqb j i) eqn:Eji; cbn [negb].
    - apply Nat.eqb_eq in Eji. subst j. rewrite Nat.ltb_irrefl. ring.
    - apply Nat.eqb_neq in Eji. destruct (Nat.ltb j i) eqn:Elt.
      + apply Nat.ltb_lt in Elt.
        assert (Eij : Nat.ltb i j = false) by (apply Nat.ltb_ge, Nat.lt_le_incl; exact Elt).
        rewrite Eij. ring.
      + apply Nat.ltb_ge in Elt.
        assert (Eij : Nat.ltb i j = true)
          by (apply Nat.ltb_lt, Nat.le_neq; split; [exact Elt|congruence]).
        rewrite Eij. ring. }
  rewrite (sum_over_ext _ _ _ E), sum_over_sub.
  rewrite (sum_over_swap (parties n) (parties n) (fun i j => p j i)). ring.
Qed.

End DklsProofs.
