(* ZnInv_proofs.v — the extended-Euclid inverse [zp_inv] of base/Fld.v is a modular inverse
   for every non-zero residue of a prime modulus, and small facts about residues mod n used by
   the C15 proofs (stated with Zdiv's [eqm] so that setoid rewriting works). *)
From Coq Require Import ZArith Znumtheory Lia List Bool Zdiv Morphisms Setoid.
From Coq Require Import ZifyBool.
Require Import V.base.Fld.
Local Open Scope Z_scope.

Lemma egcd_bezout : forall fuel a b g x y,
  egcd fuel a b = (g, x, y) -> a * x + b * y = g.
Proof.
  induction fuel as [|k IH]; intros a b g x y H; cbn [egcd] in H.
  - inversion H; subst; ring.
  - destruct (b =? 0) eqn:Hb.
    + inversion H; subst; ring.
    + apply Z.eqb_neq in Hb.
      destruct (egcd k b (a mod b)) as [[g' x'] y'] eqn:Hr.
      inversion H; subst g x y. apply IH in Hr.
      rewrite <- Hr. pose proof (Z_div_mod_eq_full a b) as Hd.
      assert (Hm : a mod b = a - b * (a / b)) by lia. rewrite Hm. ring.
Qed.

Lemma egcd_gcd : forall k fuel a b,
  0 <= a -> 0 <= b -> b < 2 ^ Z.of_nat k -> (2 * k + 1 <= fuel)%nat ->
  fst (fst (egcd fuel a b)) = Z.gcd a b.
Proof.
  induction k as [|k IH]; intros fuel a b Ha Hb Hlt Hf.
  - assert (b = 0) by (cbn in Hlt; lia). subst b.
    destruct fuel as [|f]; [lia|]. cbn [egcd]. rewrite Z.eqb_refl. cbn.
    rewrite Z.gcd_0_r. lia.
  - destruct fuel as [|f]; [lia|]. cbn [egcd].
    destruct (b =? 0) eqn:Hb0.
    + apply Z.eqb_eq in Hb0. subst b. cbn. rewrite Z.gcd_0_r. lia.
    + apply Z.eqb_neq in Hb0.
      assert (Hb1 : 0 <= a mod b < b) by (apply Z.mod_pos_bound; lia).
      destruct (egcd f b (a mod b)) as [[g x] y] eqn:Hr. cbn [fst].
      assert (Hg : g = Z.gcd b (a mod b)).
      { destruct f as [|f']; [lia|]. cbn [egcd] in Hr.
        destruct (a mod b =? 0) eqn:Hm0.
        - apply Z.eqb_eq in Hm0. inversion Hr; subst. rewrite Hm0, Z.gcd_0_r. lia.
        - apply Z.eqb_neq in Hm0.
          assert (Hb2 : 0 <= b mod (a mod b) < a mod b) by (apply Z.mod_pos_bound; lia).
          destruct (egcd f' (a mod b) (b mod (a mod b))) as [[g2 x2] y2] eqn:Hr2.
          inversion Hr; subst g x y.
          assert (Hhalf : 2 * (b mod (a mod b)) < b).
          { pose proof (Z_div_mod_eq_full b (a mod b)) as Hd.
            assert (1 <= b / (a mod b)) by (apply Z.div_le_lower_bound; lia).
            nia. }
          assert (Hlt2 : b mod (a mod b) < 2 ^ Z.of_nat k).
          { rewrite Nat2Z.inj_succ, Z.pow_succ_r in Hlt by lia. lia. }
          pose proof (IH f' (a mod b) (b mod (a mod b)) ltac:(lia) ltac:(lia) Hlt2 ltac:(lia)) as Hi.
          rewrite Hr2 in Hi. cbn [fst] in Hi. rewrite Hi.
          rewrite (Z.gcd_comm (a mod b) (b mod (a mod b))). rewrite Z.gcd_mod by lia.
          apply Z.gcd_comm. }
      rewrite Hg. rewrite (Z.gcd_comm b (a mod b)). rewrite Z.gcd_mod by lia. apply Z.gcd_comm.
Qed.

Lemma zp_inv_correct : forall p a, prime p -> 0 < a < p -> (a * zp_inv p a) mod p = 1.
Proof.
  intros p a Hp Ha. pose proof (prime_ge_2 p Hp) as Hp2.
  unfold zp_inv.
  destruct (egcd (S (Z.to_nat (Z.log2_up p) * 2 + 2)) (a mod p) p) as [[g x] y] eqn:He.
  assert (Hg : g = 1).
  { pose proof (egcd_gcd (S (Z.to_nat (Z.log2_up p))) (S (Z.to_nat (Z.log2_up p) * 2 + 2)) (a mod p) p) as H.
    rewrite He in H. cbn [fst] in H. rewrite H.
    - rewrite Z.mod_small by lia. apply Zgcd_1_rel_prime. apply rel_prime_sym.
      apply prime_rel_prime; [exact Hp|]. intro Hd. apply Zdivide_le in Hd; lia.
    - apply Z.mod_pos_bound; lia.
    - lia.
    - pose proof (Z.log2_up_spec p ltac:(lia)) as [_ Hu].
      pose proof (Z.log2_up_nonneg p).
      rewrite Nat2Z.inj_succ, Z2Nat.id by lia. rewrite Z.pow_succ_r by lia. lia.
    - lia. }
  subst g. rewrite Z.eqb_refl.
  apply egcd_bezout in He. rewrite Z.mod_small in He by lia.
  rewrite Zmult_mod_idemp_r.
  replace (a * x) with (1 + (- y) * p) by lia.
  rewrite Z_mod_plus_full. apply Z.mod_small. lia.
Qed.

Lemma zp_inv_range : forall p a, 1 < p -> 0 <= zp_inv p a < p.
Proof.
  intros p a Hp. unfold zp_inv.
  destruct (egcd _ _ _) as [[g x] y]. destruct (g =? 1).
  - apply Z.mod_pos_bound; lia.
  - lia.
Qed.

(* ---- residues mod n ------------------------------------------------------------------ *)
(* Zdiv declares these instances inside a section (so they are local to it): re-export *)
#[global] Instance eqm_equiv (n : Z) : Equivalence (eqm n) := eqm_setoid n.
#[global] Instance eqm_add (n : Z) : Proper (eqm n ==> eqm n ==> eqm n) Z.add := Zplus_eqm n.
#[global] Instance eqm_sub (n : Z) : Proper (eqm n ==> eqm n ==> eqm n) Z.sub := Zminus_eqm n.
#[global] Instance eqm_mul (n : Z) : Proper (eqm n ==> eqm n ==> eqm n) Z.mul := Zmult_eqm n.
#[global] Instance eqm_opp (n : Z) : Proper (eqm n ==> eqm n) Z.opp := Zopp_eqm n.

Lemma eqm_diff : forall n a b k, a = b + n * k -> eqm n a b.
Proof. intros n a b k H. subst a. unfold eqm. rewrite Z.mul_comm. apply Z_mod_plus_full. Qed.

Section Zn.
  Variable n : Z.
  Hypothesis n_prime : prime n.

  Notation "a == b" := (eqm n a b) (at level 70).

  Lemma n_gt_1 : 1 < n.
  Proof. pose proof (prime_ge_2 n n_prime). lia. Qed.

  Lemma eqm_ring : forall a b, a = b -> a == b.
  Proof. intros; subst; reflexivity. Qed.

  Lemma eqm_small : forall a b, 0 <= a < n -> 0 <= b < n -> a == b -> a = b.
  Proof. unfold eqm. intros a b Ha Hb H. rewrite !Z.mod_small in H; lia. Qed.

  Lemma mod_eqm : forall a, a mod n == a.
  Proof. intro a. unfold eqm. apply Z.mod_mod. pose proof n_gt_1; lia. Qed.

  Lemma eqm_0_mod : forall a, a == 0 <-> a mod n = 0.
  Proof. intro a. unfold eqm. rewrite Z.mod_0_l by (pose proof n_gt_1; lia). tauto. Qed.

  Lemma inv_eqm : forall a, ~ a == 0 -> a * zp_inv n a == 1.
  Proof.
    intros a Ha. pose proof n_gt_1 as Hn.
    assert (Hr : 0 < a mod n < n).
    { pose proof (Z.mod_pos_bound a n ltac:(lia)). rewrite eqm_0_mod in Ha. lia. }
    unfold eqm. rewrite (Z.mod_small 1) by lia.
    assert (Hi : zp_inv n a = zp_inv n (a mod n)).
    { unfold zp_inv. rewrite Z.mod_mod by lia. reflexivity. }
    rewrite Hi. rewrite <- Zmult_mod_idemp_l. apply zp_inv_correct; assumption.
  Qed.

  (* Z_n has no zero divisors *)
  Lemma eqm_mul_0 : forall a b, a * b == 0 -> a == 0 \/ b == 0.
  Proof.
    intros a b H. rewrite !eqm_0_mod in *. apply Zmod_divide in H; [|pose proof n_gt_1; lia].
    apply prime_mult in H; [|exact n_prime].
    destruct H as [H|H]; [left|right]; apply Zdivide_mod; exact H.
  Qed.

  Lemma eqm_mul_cancel_l : forall a b c, ~ a == 0 -> a * b == a * c -> b == c.
  Proof.
    intros a b c Ha H.
    assert (H0 : a * (b - c) == 0).
    { unfold eqm in *. replace (a * (b - c)) with (a * b - a * c) by ring.
      rewrite Zminus_mod, H, Z.sub_diag. reflexivity. }
    apply eqm_mul_0 in H0. destruct H0 as [H0|H0]; [contradiction|].
    unfold eqm in *. replace b with ((b - c) + c) by ring.
    rewrite Zplus_mod, H0. rewrite Z.mod_0_l by (pose proof n_gt_1; lia).
    rewrite Z.add_0_l. apply Z.mod_mod. pose proof n_gt_1; lia.
  Qed.

  Lemma eqm_opp_small : forall a, 0 < a < n -> (- a) mod n = n - a.
  Proof.
    intros a Ha. replace (- a) with ((n - a) + (-1) * n) by ring.
    rewrite Z_mod_plus_full. apply Z.mod_small. lia.
  Qed.

End Zn.
