(* Lemmas about model/Paillier.v (C16).  Stdlib style; the number-theoretic core
   (Euler's theorem at p and p^2) comes from mc/NtFacts.v. *)
From Coq Require Import ZArith Znumtheory Zpow_facts Lia Bool.
Require Import V.model.Paillier.
Require V.mc.NtFacts.
Local Open Scope Z_scope.

(* ---- congruences by explicit witnesses ------------------------------------------------ *)

Lemma mod_eq_witness : forall a b n t, a = b + t * n -> a mod n = b mod n.
Proof. intros a b n t ->. apply Z_mod_plus_full. Qed.

Lemma mod_eq_elim : forall a b n, n <> 0 -> a mod n = b mod n -> exists t, a = b + t * n.
Proof.
  intros a b n Hn H. exists (a / n - b / n).
  pose proof (Z.div_mod a n Hn) as Ha. pose proof (Z.div_mod b n Hn) as Hb.
  rewrite H in Ha. lia.
Qed.

Lemma mulm : forall a a' b b' n, a mod n = a' mod n -> b mod n = b' mod n ->
  (a * b) mod n = (a' * b') mod n.
Proof. intros a a' b b' n Ha Hb. rewrite (Zmult_mod a b), (Zmult_mod a' b'), Ha, Hb. reflexivity. Qed.

Lemma powm : forall a a' e n, a mod n = a' mod n -> (a ^ e) mod n = (a' ^ e) mod n.
Proof.
  intros a a' e n H. destruct (Z.eq_dec n 0) as [->|Hn].
  - rewrite !Zmod_0_r in *. now subst.
  - destruct (Z.lt_ge_cases e 0) as [He|He].
    + rewrite !Z.pow_neg_r by assumption. reflexivity.
    + revert H. pattern e. apply natlike_ind; [ | | assumption].
      * intros _. reflexivity.
      * intros x Hx IH H. rewrite !Z.pow_succ_r by assumption. apply mulm; auto.
Qed.

Lemma mod_mod_divide : forall a n m, n <> 0 -> (n | m) -> (a mod m) mod n = a mod n.
Proof.
  intros a n m Hn [k ->]. destruct (Z.eq_dec k 0) as [->|Hk].
  - rewrite Z.mul_0_l, Zmod_0_r. reflexivity.
  - symmetry. apply mod_eq_witness with (t := (a / (k * n)) * k).
    rewrite (Z.div_mod a (k * n)) at 1 by lia. ring.
Qed.

Lemma modexp_spec : forall b e n, n <> 0 -> modexp b e n = b ^ e mod n.
Proof. intros. unfold modexp. now apply Zpow_mod_correct. Qed.

(* ---- binomial lifting -------------------------------------------------------------------- *)

(* (b + kN)^(n+1) = b^(n+1) + (n+1) N k b^n  (mod N^2) *)
Lemma pow_lift : forall b k N n, 0 <= n ->
  exists t, (b + k * N) ^ (n + 1) = b ^ (n + 1) + (n + 1) * N * k * b ^ n + t * (N * N).
Proof.
  intros b k N n Hn. pattern n. apply natlike_ind; [ | | assumption].
  - exists 0. rewrite Z.pow_0_r. change (0 + 1) with 1. rewrite !Z.pow_1_r. ring.
  - intros x Hx [t IH]. replace (Z.succ x + 1) with (Z.succ (x + 1)) by lia.
    rewrite (Z.pow_succ_r (b + k * N)) by lia. rewrite IH.
    rewrite (Z.pow_succ_r b (x + 1)) by lia.
    replace (b ^ (x + 1)) with (b * b ^ x) by (rewrite Z.add_1_r, Z.pow_succ_r by lia; reflexivity).
    exists (t * (b + k * N) + k * k * (x + 1) * b ^ x).
    replace (Z.succ (x + 1)) with (x + 2) by lia. replace (Z.succ x) with (x + 1) by lia.
    replace (b ^ (x + 1)) with (b * b ^ x) by (rewrite Z.add_1_r, Z.pow_succ_r by lia; reflexivity).
    ring.
Qed.

(* a = b (mod N)  ->  a^N = b^N (mod N^2) *)
Lemma pow_N_congr : forall a b N, 0 < N -> a mod N = b mod N ->
  (a ^ N) mod (N * N) = (b ^ N) mod (N * N).
Proof.
  intros a b N HN H. destruct (mod_eq_elim a b N ltac:(lia) H) as [k ->].
  destruct (pow_lift b k N (N - 1) ltac:(lia)) as [t Ht].
  replace (N - 1 + 1) with N in Ht by lia.
  apply mod_eq_witness with (t := t + k * b ^ (N - 1)). rewrite Ht. ring.
Qed.

(* one_plus_N_pow, with a multiplier: (1 + kN)^m = 1 + m k N (mod N^2) *)
Lemma one_plus_kN_pow : forall N k m, 0 <= m ->
  ((1 + k * N) ^ m) mod (N * N) = (1 + m * k * N) mod (N * N).
Proof.
  intros N k m Hm. destruct (Z.eq_dec m 0) as [->|Hm0].
  - rewrite Z.pow_0_r. f_equal; ring.
  - destruct (pow_lift 1 k N (m - 1) ltac:(lia)) as [t Ht].
    replace (m - 1 + 1) with m in Ht by lia. rewrite !Z.pow_1_l in Ht by lia.
    apply mod_eq_witness with (t := t). rewrite Ht. ring.
Qed.

Lemma one_plus_N_pow : forall N m, 0 <= m ->
  ((1 + N) ^ m) mod (N * N) = (1 + m * N) mod (N * N).
Proof.
  intros N m Hm. pose proof (one_plus_kN_pow N 1 m Hm) as H.
  replace (1 + 1 * N) with (1 + N) in H by ring. rewrite H. f_equal; ring.
Qed.

(* ---- the public-key path as congruences ----------------------------------------------------- *)

Lemma representative_spec : forall N m, representative N m = (1 + m * N) mod (N * N).
Proof.
  intros. unfold representative. rewrite Zplus_mod_idemp_l. f_equal; ring.
Qed.

Lemma noise_spec : forall N r, N <> 0 -> noise N r = r ^ N mod (N * N).
Proof. intros. unfold noise. apply modexp_spec. nia. Qed.

Lemma enc_spec : forall N m r, N <> 0 -> enc N m r = ((1 + m * N) * r ^ N) mod (N * N).
Proof.
  intros N m r HN. unfold enc, cmul. rewrite representative_spec, noise_spec by assumption.
  rewrite <- Zmult_mod. reflexivity.
Qed.

Lemma enc_range : forall N m r, N <> 0 -> 0 <= enc N m r < N * N.
Proof. intros. rewrite enc_spec by assumption. apply Z.mod_pos_bound. nia. Qed.

Lemma enc_textbook : forall N m r, 0 < N -> 0 <= m -> enc N m r = textbook N m r.
Proof.
  intros N m r HN Hm. rewrite enc_spec by lia. unfold textbook.
  rewrite !modexp_spec by nia. rewrite <- Zmult_mod.
  apply mulm; [ | reflexivity ]. symmetry. apply one_plus_N_pow. assumption.
Qed.

(* the plaintext only matters modulo N, the nonce only modulo N *)
Lemma enc_mod_plain : forall N m r, N <> 0 -> enc N (m mod N) r = enc N m r.
Proof.
  intros N m r HN. rewrite !enc_spec by assumption. apply mulm; [ | reflexivity ].
  apply mod_eq_witness with (t := - (m / N)). rewrite (Z.div_mod m N HN) at 2. rewrite Zmod_eq_full by assumption. ring.
Qed.

Lemma enc_mod_nonce : forall N m r, 0 < N -> enc N m (r mod N) = enc N m r.
Proof.
  intros N m r HN. rewrite !enc_spec by lia. apply mulm; [ reflexivity | ].
  apply pow_N_congr; [assumption | ]. apply Zmod_mod.
Qed.

(* homomorphisms ---------------------------------------------------------------------------------- *)

Lemma enc_add : forall N m1 r1 m2 r2, 0 < N ->
  cmul N (enc N m1 r1) (enc N m2 r2) = enc N ((m1 + m2) mod N) ((r1 * r2) mod N).
Proof.
  intros N m1 r1 m2 r2 HN. rewrite enc_mod_plain, enc_mod_nonce by lia.
  unfold cmul. rewrite !enc_spec by lia. rewrite <- Zmult_mod.
  rewrite Z.pow_mul_l.
  apply mod_eq_witness with (t := m1 * m2 * (r1 ^ N * r2 ^ N)). ring.
Qed.

Lemma enc_shift : forall N m r d, 0 < N ->
  shift N (enc N m r) d = enc N ((m + d) mod N) r.
Proof.
  intros N m r d HN. rewrite enc_mod_plain by lia. unfold shift, cmul.
  rewrite representative_spec, !enc_spec by lia. rewrite <- Zmult_mod.
  apply mod_eq_witness with (t := m * d * r ^ N). ring.
Qed.

Lemma rerandomise_spec : forall N m r r', 0 < N ->
  rerandomise N (enc N m r) r' = enc N m ((r * r') mod N).
Proof.
  intros N m r r' HN. rewrite enc_mod_nonce by lia. unfold rerandomise, cmul.
  rewrite noise_spec, !enc_spec by lia. rewrite <- Zmult_mod. rewrite Z.pow_mul_l.
  f_equal; ring.
Qed.

(* identity noise is an encryption of 0; representative an encryption under nonce 1 *)
Lemma noise_is_enc0 : forall N r, 0 < N -> noise N r = enc N 0 r.
Proof. intros. rewrite noise_spec, enc_spec by lia. f_equal; ring. Qed.

Lemma representative_is_enc1 : forall N m, 0 < N -> representative N m = enc N m 1.
Proof.
  intros. rewrite representative_spec, enc_spec by lia. rewrite Z.pow_1_l by lia. f_equal; ring.
Qed.

(* ---- modular inverse (extended Euclid with fuel) ------------------------------------------------ *)

Lemma egcd_aux_sound : forall fuel a n r0 r1 s0 s1 g s, n <> 0 ->
  r0 mod n = (s0 * a) mod n -> r1 mod n = (s1 * a) mod n ->
  egcd_aux fuel r0 r1 s0 s1 = Some (g, s) -> g mod n = (s * a) mod n.
Proof.
  induction fuel as [|f IH]; intros a n r0 r1 s0 s1 g s Hn H0 H1 He; cbn [egcd_aux] in He.
  - discriminate.
  - destruct (r1 =? 0).
    + inversion He; subst. assumption.
    + eapply IH; [exact Hn | exact H1 | | exact He].
      destruct (mod_eq_elim _ _ n Hn H0) as [t0 E0]. destruct (mod_eq_elim _ _ n Hn H1) as [t1 E1].
      apply mod_eq_witness with (t := t0 - r0 / r1 * t1). rewrite E0 at 1. rewrite E1 at 2. ring.
Qed.

Lemma modinv_sound : forall a n x, modinv a n = Some x ->
  1 < n /\ 0 <= x < n /\ (a * x) mod n = 1.
Proof.
  intros a n x H. unfold modinv in H.
  destruct (n <=? 1) eqn:Hn; [discriminate|]. apply Z.leb_gt in Hn.
  destruct (egcd_aux (egcd_fuel n) n (a mod n) 0 1) as [[g s]|] eqn:He; [|discriminate].
  destruct (g =? 1) eqn:Hg; [|discriminate]. apply Z.eqb_eq in Hg. subst g. inversion H; subst x.
  split; [assumption|]. split; [apply Z.mod_pos_bound; lia|].
  apply (egcd_aux_sound _ a n) in He; [ | lia | rewrite Z_mod_same_full; reflexivity | rewrite Zmod_mod; f_equal; ring ].
  rewrite Zmult_mod_idemp_r. rewrite Z.mul_comm. rewrite <- He. apply Z.mod_1_l. assumption.
Qed.

Lemma egcd_aux_S : forall f r0 r1 s0 s1,
  egcd_aux (S f) r0 r1 s0 s1 =
  if r1 =? 0 then Some (r0, s0)
  else egcd_aux f r1 (r0 - r0 / r1 * r1) s1 (s0 - r0 / r1 * s1).
Proof. reflexivity. Qed.

Lemma egcd_aux_complete : forall f r0 r1 s0 s1, 0 <= r1 < r0 -> r0 * r1 < 2 ^ Z.of_nat f ->
  exists s, egcd_aux (S f) r0 r1 s0 s1 = Some (Z.gcd r0 r1, s).
Proof.
  induction f as [|f IH]; intros r0 r1 s0 s1 Hr Hb; rewrite egcd_aux_S.
  - change (2 ^ Z.of_nat 0) with 1 in Hb. assert (r1 = 0) by nia. subst r1.
    rewrite Z.eqb_refl. exists s0. rewrite Z.gcd_0_r, Z.abs_eq by lia. reflexivity.
  - destruct (r1 =? 0) eqn:E.
    + apply Z.eqb_eq in E. subst r1. exists s0. rewrite Z.gcd_0_r, Z.abs_eq by lia. reflexivity.
    + apply Z.eqb_neq in E.
      assert (Hm : r0 - r0 / r1 * r1 = r0 mod r1) by (rewrite Zmod_eq_full by assumption; ring).
      rewrite Hm. pose proof (Z.mod_pos_bound r0 r1 ltac:(lia)) as Hmb.
      destruct (IH r1 (r0 mod r1) s1 (s0 - r0 / r1 * s1)) as [s Hs].
      * lia.
      * rewrite Nat2Z.inj_succ, Z.pow_succ_r in Hb by lia.
        pose proof (Z.div_mod r0 r1 E) as Hd.
        assert (1 <= r0 / r1) by (apply Z.div_le_lower_bound; lia).
        nia.
      * exists s. rewrite Hs. do 2 f_equal. rewrite (Z.gcd_comm r1), Z.gcd_mod by assumption. apply Z.gcd_comm.
Qed.

Lemma modinv_complete : forall a n, 1 < n -> Z.gcd a n = 1 -> exists x, modinv a n = Some x.
Proof.
  intros a n Hn Hg. unfold modinv. replace (n <=? 1) with false by (symmetry; apply Z.leb_gt; lia).
  unfold egcd_fuel.
  destruct (egcd_aux_complete (S (Z.to_nat (2 * Z.log2_up n + 2))) n (a mod n) 0 1) as [s Hs].
  - pose proof (Z.mod_pos_bound a n ltac:(lia)). lia.
  - pose proof (Z.mod_pos_bound a n ltac:(lia)) as Hm.
    pose proof (Z.log2_up_nonneg n) as HL. pose proof (Z.log2_up_spec n Hn) as [_ Hu].
    rewrite Nat2Z.inj_succ, Z2Nat.id by lia.
    replace (Z.succ (2 * Z.log2_up n + 2)) with (Z.log2_up n + Z.log2_up n + 3) by lia.
    rewrite !Z.pow_add_r by lia. change (2 ^ 3) with 8.
    assert (0 < 2 ^ Z.log2_up n) by (apply Z.pow_pos_nonneg; lia). nia.
  - rewrite Hs. assert (Z.gcd n (a mod n) = 1) as ->.
    { rewrite Z.gcd_comm, Z.gcd_mod by lia. rewrite Z.gcd_comm. assumption. }
    rewrite Z.eqb_refl. eauto.
Qed.

Lemma inv_witness_gcd : forall a x n, 1 < n -> (a * x) mod n = 1 -> Z.gcd a n = 1.
Proof.
  intros a x n Hn H. apply Zgcd_1_rel_prime. apply bezout_rel_prime.
  apply Bezout_intro with (u := x) (v := - ((a * x) / n)).
  pose proof (Z.div_mod (a * x) n ltac:(lia)) as Hd. rewrite H in Hd. lia.
Qed.

Lemma modinv_some_gcd : forall a n x, modinv a n = Some x -> Z.gcd a n = 1.
Proof. intros a n x H. destruct (modinv_sound _ _ _ H) as (Hn & _ & Hx). eapply inv_witness_gcd; eauto. Qed.

Lemma inv_unique : forall z x y n, 1 < n -> (z * x) mod n = 1 -> (z * y) mod n = 1 ->
  0 <= x < n -> 0 <= y < n -> x = y.
Proof.
  intros z x y n Hn Hx Hy Rx Ry.
  rewrite <- (Z.mod_small x n Rx), <- (Z.mod_small y n Ry).
  transitivity ((x * (z * y)) mod n).
  - rewrite <- Zmult_mod_idemp_r, Hy, Z.mul_1_r. reflexivity.
  - replace (x * (z * y)) with (y * (z * x)) by ring.
    rewrite <- Zmult_mod_idemp_r, Hx, Z.mul_1_r. reflexivity.
Qed.

(* modinv is the inverse function on units, whatever witnesses one has *)
Lemma modinv_eq : forall a n x y, modinv a n = Some x -> 0 <= y < n -> (a * y) mod n = 1 -> x = y.
Proof.
  intros a n x y H Ry Hy. destruct (modinv_sound _ _ _ H) as (Hn & Rx & Hx).
  eapply inv_unique; eauto.
Qed.

(* ---- scalar multiplication and inversion of ciphertexts ---------------------------------------- *)

Lemma enc_pow : forall N m r k, 0 < N -> 0 <= k ->
  (enc N m r) ^ k mod (N * N) = enc N ((m * k) mod N) ((r ^ k) mod N).
Proof.
  intros N m r k HN Hk. rewrite enc_mod_plain, enc_mod_nonce by lia.
  rewrite (enc_spec N m r) by lia. rewrite <- Zpower_mod by nia.
  rewrite enc_spec by lia. rewrite Z.pow_mul_l. apply mulm.
  - rewrite (Z.mul_comm m N). rewrite (Z.mul_comm m k).
    replace (1 + N * m) with (1 + m * N) by ring. rewrite one_plus_kN_pow by assumption. f_equal; ring.
  - rewrite <- !Z.pow_mul_r by lia. f_equal. f_equal. ring.
Qed.

Lemma enc_0_1 : forall N, 1 < N -> enc N 0 1 = 1.
Proof.
  intros N HN. rewrite enc_spec by lia. rewrite Z.pow_1_l by lia. rewrite Z.mod_small; nia.
Qed.

Lemma enc_scale : forall N m r k c' r', 1 < N ->
  cscale N (enc N m r) k = Some c' -> nonce_scale N r k = Some r' ->
  c' = enc N ((m * k) mod N) r'.
Proof.
  intros N m r k c' r' HN Hc Hr. unfold cscale, nonce_scale, modexpi in *.
  rewrite !modexp_spec in * by nia.
  destruct (k <? 0) eqn:Hk.
  - apply Z.ltb_lt in Hk. rewrite enc_pow in Hc by lia.
    set (rho := r ^ Z.abs k mod N) in *.
    destruct (modinv_sound _ _ _ Hr) as (_ & Rr & Hr1).
    eapply modinv_eq; [exact Hc | apply enc_range; lia | ].
    fold (cmul N (enc N ((m * Z.abs k) mod N) rho) (enc N ((m * k) mod N) r')).
    rewrite enc_add by lia. rewrite Hr1.
    replace (((m * Z.abs k) mod N + (m * k) mod N) mod N) with 0.
    + apply enc_0_1. assumption.
    + rewrite <- Zplus_mod. replace (m * Z.abs k + m * k) with 0 by lia. reflexivity.
  - apply Z.ltb_ge in Hk. inversion Hc; inversion Hr; subst.
    rewrite Z.abs_eq by assumption. apply enc_pow; lia.
Qed.

Lemma enc_inv : forall N m r c' r', 1 < N ->
  cinv N (enc N m r) = Some c' -> nonce_inv N r = Some r' -> c' = enc N ((- m) mod N) r'.
Proof.
  intros N m r c' r' HN Hc Hr. unfold cinv, nonce_inv in *.
  destruct (modinv_sound _ _ _ Hr) as (_ & Rr & Hr1).
  eapply modinv_eq; [exact Hc | apply enc_range; lia | ].
  fold (cmul N (enc N m r) (enc N ((- m) mod N) r')).
  rewrite enc_add by lia. rewrite Hr1.
  replace ((m + (- m) mod N) mod N) with 0.
  - apply enc_0_1. assumption.
  - rewrite Zplus_mod_idemp_r. replace (m + - m) with 0 by lia. reflexivity.
Qed.

(* encryptions under unit nonces are units, so scaling / inverting never refuses them *)
Lemma enc_unit : forall N m r, 1 < N -> Z.gcd r N = 1 -> Z.gcd (enc N m r) (N * N) = 1.
Proof.
  intros N m r HN Hg. destruct (modinv_complete r N HN Hg) as [s Hs].
  destruct (modinv_sound _ _ _ Hs) as (_ & Rs & Hs1).
  apply inv_witness_gcd with (x := enc N ((- m) mod N) s); [nia|].
  fold (cmul N (enc N m r) (enc N ((- m) mod N) s)). rewrite enc_add by lia. rewrite Hs1.
  replace ((m + (- m) mod N) mod N) with 0.
  - apply enc_0_1. assumption.
  - rewrite Zplus_mod_idemp_r. replace (m + - m) with 0 by lia. reflexivity.
Qed.

(* ---- Chinese remaindering as coded (crt.Params.Recombine) ---------------------------------------- *)

Lemma recombine_spec : forall P Q Qinv mp mq, 1 < P -> 0 < Q -> (Q * Qinv) mod P = 1 -> 0 <= mq < Q ->
  0 <= recombine P Q Qinv mp mq < P * Q /\
  (recombine P Q Qinv mp mq) mod P = mp mod P /\
  (recombine P Q Qinv mp mq) mod Q = mq.
Proof.
  intros P Q Qinv mp mq HP HQ Hinv Hmq. unfold recombine.
  set (h := (((mp - mq) mod P) * Qinv) mod P).
  assert (Hh : 0 <= h < P) by (apply Z.mod_pos_bound; lia).
  split; [nia|]. split.
  - rewrite <- Zplus_mod_idemp_r. unfold h. rewrite Zmult_mod_idemp_l.
    rewrite <- Z.mul_assoc. rewrite <- Zmult_mod_idemp_r. rewrite (Z.mul_comm Qinv Q), Hinv.
    rewrite Z.mul_1_r, Zmod_mod. rewrite Zplus_mod_idemp_r. f_equal; ring.
  - rewrite Z_mod_plus_full. apply Z.mod_small. assumption.
Qed.

Lemma crt_unique : forall P Q x y, rel_prime P Q -> 0 < P -> 0 < Q ->
  x mod P = y mod P -> x mod Q = y mod Q -> 0 <= x < P * Q -> 0 <= y < P * Q -> x = y.
Proof.
  intros P Q x y Hrp HP HQ Hp Hq Rx Ry.
  destruct (mod_eq_elim x y P ltac:(lia) Hp) as [t Ht].
  destruct (mod_eq_elim x y Q ltac:(lia) Hq) as [u Hu].
  assert (Hd : (P | u * Q)) by (exists t; lia).
  rewrite Z.mul_comm in Hd. apply Gauss in Hd; [ | exact Hrp ].
  destruct Hd as [v Hv]. subst u. assert (v = 0) by nia. subst v. lia.
Qed.

Lemma recombine_eq : forall P Q Qinv mp mq X, rel_prime P Q -> 1 < P -> 0 < Q ->
  (Q * Qinv) mod P = 1 -> 0 <= X < P * Q -> mp mod P = X mod P -> mq = X mod Q ->
  recombine P Q Qinv mp mq = X.
Proof.
  intros P Q Qinv mp mq X Hrp HP HQ Hinv RX Hp Hq.
  assert (Hmq : 0 <= mq < Q) by (subst mq; apply Z.mod_pos_bound; lia).
  destruct (recombine_spec P Q Qinv mp mq HP HQ Hinv Hmq) as (R & Rp & Rq).
  apply (crt_unique P Q); try assumption; try lia.
Qed.

Lemma primes_rel_prime : forall p q, prime p -> prime q -> p <> q -> rel_prime p q.
Proof.
  intros p q Hp Hq Hne. apply prime_rel_prime; [assumption|]. intros Hd.
  destruct Hp as [Hp1 _]. destruct (prime_divisors q Hq p Hd) as [H|[H|[H|H]]]; destruct Hq as [Hq1 _]; lia.
Qed.

Lemma squares_rel_prime : forall p q, rel_prime p q -> rel_prime (p * p) (q * q).
Proof.
  intros p q H. apply rel_prime_mult; apply rel_prime_sym; apply rel_prime_mult; apply rel_prime_sym; assumption.
Qed.

(* ---- the precomputed constants ---------------------------------------------------------------------- *)

Lemma precompute_fields : forall p q k, precompute p q = Some k ->
  sk_p k = p /\ sk_q k = q /\ 2 < p /\ 2 < q /\
  (q * sk_qinv k) mod p = 1 /\
  ((q * q) * sk_q2inv k) mod (p * p) = 1 /\
  sk_negqinv_p k = (- sk_qinv k) mod p /\
  (exists pi, (p * pi) mod q = 1 /\ sk_negpinv_q k = (- pi) mod q) /\
  (q * sk_qinv_phip k) mod (p - 1) = 1 /\ 0 <= sk_qinv_phip k /\
  (p * sk_pinv_phiq k) mod (q - 1) = 1 /\ 0 <= sk_pinv_phiq k /\
  sk_ep2 k = p * ((p * q) mod (p - 1)) /\ sk_eq2 k = q * ((p * q) mod (q - 1)).
Proof.
  intros p q k H. unfold precompute in H.
  destruct (modinv q p) as [qi|] eqn:E1; [|discriminate].
  destruct (modinv ((q * q) mod (p * p)) (p * p)) as [q2i|] eqn:E2; [|discriminate].
  destruct (modinv p q) as [pi|] eqn:E3; [|discriminate].
  destruct (modinv q (p - 1)) as [qphi|] eqn:E4; [|discriminate].
  destruct (modinv p (q - 1)) as [pphi|] eqn:E5; [|discriminate].
  inversion H; subst k; cbn [sk_p sk_q sk_qinv sk_q2inv sk_negqinv_p sk_negpinv_q sk_qinv_phip sk_pinv_phiq sk_ep2 sk_eq2].
  destruct (modinv_sound _ _ _ E1) as (? & ? & ?). destruct (modinv_sound _ _ _ E2) as (? & ? & Hq2i).
  destruct (modinv_sound _ _ _ E3) as (? & ? & ?). destruct (modinv_sound _ _ _ E4) as (? & ? & ?).
  destruct (modinv_sound _ _ _ E5) as (? & ? & ?).
  rewrite Zmult_mod_idemp_l in Hq2i.
  repeat split; try assumption; try lia.
  exists pi. split; [assumption|reflexivity].
Qed.

(* ---- decryption ------------------------------------------------------------------------------------ *)

Lemma pow_euler_reduce : forall p r t s, prime p -> Z.gcd r p = 1 -> 0 <= t -> 0 <= s ->
  r ^ (p * (p - 1) * t + s) mod (p * p) = r ^ s mod (p * p).
Proof.
  intros p r t s Hp Hg Ht Hs. destruct Hp as [Hp1 Hp2]. assert (Hp : prime p) by (split; assumption).
  rewrite Z.pow_add_r by nia. rewrite Z.pow_mul_r by nia.
  rewrite <- Zmult_mod_idemp_l.
  rewrite (powm _ 1 t) by (rewrite (@NtFacts.Z_euler_p2 p r Hp Hg); symmetry; apply Z.mod_1_l; nia).
  rewrite Z.pow_1_l by assumption. rewrite Zmult_mod_idemp_l. f_equal; ring.
Qed.

Lemma pow_fermat_reduce : forall p r t s, prime p -> Z.gcd r p = 1 -> 0 <= t -> 0 <= s ->
  r ^ ((p - 1) * t + s) mod p = r ^ s mod p.
Proof.
  intros p r t s Hp Hg Ht Hs. destruct Hp as [Hp1 Hp2]. assert (Hp : prime p) by (split; assumption).
  rewrite Z.pow_add_r by nia. rewrite Z.pow_mul_r by nia.
  rewrite <- Zmult_mod_idemp_l.
  rewrite (powm _ 1 t) by (rewrite (@NtFacts.Z_fermat p r Hp Hg); symmetry; apply Z.mod_1_l; nia).
  rewrite Z.pow_1_l by assumption. rewrite Zmult_mod_idemp_l. f_equal; ring.
Qed.

Lemma fermat_quotient_enc : forall p q m r, prime p -> 0 < q -> Z.gcd r p = 1 ->
  fermat_quotient p (enc (p * q) m r) = (- (m * q)) mod p.
Proof.
  intros p q m r Hp Hq Hg. pose proof Hp as [Hp1 _].
  unfold fermat_quotient. rewrite modexp_spec by nia.
  assert (Hdiv : (p * p | (p * q) * (p * q))) by (exists (q * q); ring).
  assert (E : (enc (p * q) m r) ^ (p - 1) mod (p * p) = (1 - m * q * p) mod (p * p)).
  { rewrite enc_spec by nia. rewrite Zpower_mod by nia. rewrite mod_mod_divide by (assumption || nia).
    rewrite <- Zpower_mod by nia. rewrite Z.pow_mul_l. rewrite <- Z.pow_mul_r by nia.
    transitivity (((1 + (p - 1) * m * (p * q)) * 1) mod (p * p)).
    - apply mulm.
      + rewrite <- (mod_mod_divide _ (p * p) ((p * q) * (p * q))) by (assumption || nia).
        rewrite one_plus_kN_pow by lia. rewrite mod_mod_divide by (assumption || nia). reflexivity.
      + replace (p * q * (p - 1)) with (p * (p - 1) * q + 0) by ring.
        rewrite pow_euler_reduce by (assumption || lia). reflexivity.
    - apply mod_eq_witness with (t := m * q). ring. }
  rewrite E. rewrite Zminus_mod_idemp_l.
  replace (1 - m * q * p - 1) with (p * (- (m * q))) by ring.
  rewrite Zmult_mod_distr_l. rewrite Z.mul_comm. apply Z.div_mul. lia.
Qed.

Lemma gcd_factor_l : forall r p q, Z.gcd r (p * q) = 1 -> Z.gcd r p = 1.
Proof.
  intros r p q Hg. apply Zgcd_1_rel_prime. apply Zgcd_1_rel_prime in Hg.
  apply rel_prime_sym. apply rel_prime_div with (p := p * q); [apply rel_prime_sym; exact Hg | exists q; ring].
Qed.

Lemma gcd_factor_r : forall r p q, Z.gcd r (p * q) = 1 -> Z.gcd r q = 1.
Proof. intros r p q Hg. rewrite Z.mul_comm in Hg. eapply gcd_factor_l; eauto. Qed.

Lemma decrypt_enc : forall p q k m r, prime p -> prime q -> p <> q ->
  precompute p q = Some k -> Z.gcd r (p * q) = 1 -> 0 <= m < p * q ->
  decrypt k (enc (p * q) m r) = m.
Proof.
  intros p q k m r Hp Hq Hne Hk Hg Hm.
  destruct (precompute_fields _ _ _ Hk) as (Ep & Eq & Hp2 & Hq2 & Hqi & _ & Hnq & (pi & Hpi & Hnp) & _).
  pose proof (gcd_factor_l _ _ _ Hg) as Hgp. pose proof (gcd_factor_r _ _ _ Hg) as Hgq.
  unfold decrypt, recombine_N. rewrite Ep, Eq.
  rewrite fermat_quotient_enc by (assumption || lia).
  replace (p * q) with (q * p) at 1 by ring.
  rewrite fermat_quotient_enc by (assumption || lia).
  apply recombine_eq; try lia.
  - apply primes_rel_prime; assumption.
  - rewrite Zmod_mod. rewrite Hnq. rewrite <- Zmult_mod.
    replace (- (m * q) * - sk_qinv k) with (m * (q * sk_qinv k)) by ring.
    rewrite <- Zmult_mod_idemp_r, Hqi. f_equal; ring.
  - rewrite Hnp. rewrite <- Zmult_mod.
    replace (- (m * p) * - pi) with (m * (p * pi)) by ring.
    rewrite <- Zmult_mod_idemp_r, Hpi. f_equal; ring.
Qed.

(* ---- opening: nonce recovery by N-th root via CRT ---------------------------------------------- *)

Lemma root_mod_prime : forall p q d r, prime p -> 0 < q -> Z.gcd r p = 1 ->
  (q * d) mod (p - 1) = 1 -> 0 <= d -> 2 < p ->
  modexp ((r ^ (p * q) mod ((p * q) * (p * q))) mod p) d p = r mod p.
Proof.
  intros p q d r Hp Hq Hg Hd Hd0 Hp2.
  rewrite modexp_spec by lia.
  rewrite mod_mod_divide by (lia || (exists (q * (p * q)); ring)).
  rewrite <- Zpower_mod by lia. rewrite <- Z.pow_mul_r by nia.
  pose proof (Z.div_mod (q * d) (p - 1) ltac:(lia)) as Hdm. rewrite Hd in Hdm.
  assert (Ht : 0 <= q * d / (p - 1)) by (apply Z.div_pos; nia).
  replace (p * q * d) with ((p - 1) * (p * (q * d / (p - 1)) + 1) + 1) by nia.
  rewrite pow_fermat_reduce by (assumption || nia). rewrite Z.pow_1_r. reflexivity.
Qed.

Lemma open_enc : forall p q k m r, prime p -> prime q -> p <> q ->
  precompute p q = Some k -> Z.gcd r (p * q) = 1 -> 0 <= m < p * q -> 0 <= r < p * q ->
  open_ct k (enc (p * q) m r) = Some (m, r).
Proof.
  intros p q k m r Hp Hq Hne Hk Hg Hm Hr.
  destruct (precompute_fields _ _ _ Hk) as (Ep & Eq & Hp2 & Hq2 & Hqi & _ & _ & _ & Hqphi & Hqphi0 & Hpphi & Hpphi0 & _).
  pose proof (gcd_factor_l _ _ _ Hg) as Hgp. pose proof (gcd_factor_r _ _ _ Hg) as Hgq.
  unfold open_ct. rewrite (decrypt_enc p q k m r) by assumption.
  unfold sk_N. rewrite Ep, Eq. set (N := p * q) in *.
  assert (HN : 1 < N) by (unfold N; nia).
  assert (Hy : (enc N m r * ((1 - (m * N) mod (N * N)) mod (N * N))) mod (N * N) = r ^ N mod (N * N)).
  { rewrite (mulm _ ((1 + m * N) * r ^ N) _ (1 - m * N)).
    - apply mod_eq_witness with (t := - (m * m * r ^ N)). ring.
    - rewrite enc_spec by lia. apply Zmod_mod.
    - rewrite Zmod_mod. apply Zminus_mod_idemp_r. }
  rewrite Hy.
  assert (Hrp : modexp ((r ^ N mod (N * N)) mod p) (sk_qinv_phip k) p = r mod p)
    by (unfold N; apply root_mod_prime; assumption || lia).
  assert (Hrq : modexp ((r ^ N mod (N * N)) mod q) (sk_pinv_phiq k) q = r mod q)
    by (unfold N; replace (p * q) with (q * p) by ring; apply root_mod_prime; assumption || lia).
  rewrite Hrp, Hrq.
  unfold recombine_N. rewrite Ep, Eq.
  rewrite (recombine_eq p q (sk_qinv k) (r mod p) (r mod q) r); try lia.
  - unfold unit_from.
    assert (r <> 0) by (intros ->; rewrite Z.gcd_0_l, Z.abs_eq in Hg by lia; lia).
    replace (r <=? 0) with false by (symmetry; apply Z.leb_gt; lia).
    rewrite Z.mod_small by assumption. fold N. rewrite Hg, Z.eqb_refl. reflexivity.
  - apply primes_rel_prime; assumption.
  - apply Zmod_mod.
Qed.

(* ---- the secret-key (CRT) path computes the same values as the public path -------------------- *)

Lemma gcd_mod_l : forall a n, n <> 0 -> Z.gcd (a mod n) n = Z.gcd a n.
Proof. intros. rewrite Z.gcd_mod by assumption. apply Z.gcd_comm. Qed.

Lemma gcd_mul_1 : forall a P Q, Z.gcd a P = 1 -> Z.gcd a Q = 1 -> Z.gcd a (P * Q) = 1.
Proof.
  intros a P Q HP HQ. apply Zgcd_1_rel_prime. apply rel_prime_mult; apply Zgcd_1_rel_prime; assumption.
Qed.

(* CRT inversion (OddPrimeFactors.ModInv / OddPrimeSquareFactors.ModInv) = plain inversion *)
Lemma crt_modinv : forall P Q Qinv a, rel_prime P Q -> 1 < P -> 1 < Q -> (Q * Qinv) mod P = 1 ->
  match modinv (a mod P) P, modinv (a mod Q) Q with
  | Some ip, Some iq => Some (recombine P Q Qinv ip iq)
  | _, _ => None
  end = modinv a (P * Q).
Proof.
  intros P Q Qinv a Hrp HP HQ Hinv.
  destruct (modinv a (P * Q)) as [x|] eqn:Ex.
  - destruct (modinv_sound _ _ _ Ex) as (HPQ & Rx & Hx).
    pose proof (modinv_some_gcd _ _ _ Ex) as Hg.
    pose proof (gcd_factor_l _ _ _ Hg) as HgP. pose proof (gcd_factor_r _ _ _ Hg) as HgQ.
    destruct (modinv_complete (a mod P) P HP ltac:(rewrite gcd_mod_l by lia; assumption)) as [ip Eip].
    destruct (modinv_complete (a mod Q) Q HQ ltac:(rewrite gcd_mod_l by lia; assumption)) as [iq Eiq].
    rewrite Eip, Eiq. f_equal.
    assert (HxP : (a mod P * (x mod P)) mod P = 1).
    { rewrite <- Zmult_mod. rewrite <- (mod_mod_divide (a * x) P (P * Q)) by (lia || (exists Q; ring)).
      rewrite Hx. apply Z.mod_1_l. lia. }
    assert (HxQ : (a mod Q * (x mod Q)) mod Q = 1).
    { rewrite <- Zmult_mod. rewrite <- (mod_mod_divide (a * x) Q (P * Q)) by (lia || (exists P; ring)).
      rewrite Hx. apply Z.mod_1_l. lia. }
    apply recombine_eq; try lia; try assumption.
    + rewrite (modinv_eq _ _ _ (x mod P) Eip); [apply Zmod_mod | apply Z.mod_pos_bound; lia | assumption].
    + apply (modinv_eq _ _ _ (x mod Q) Eiq); [apply Z.mod_pos_bound; lia | assumption].
  - destruct (modinv (a mod P) P) as [ip|] eqn:Eip; [|reflexivity].
    destruct (modinv (a mod Q) Q) as [iq|] eqn:Eiq; [|reflexivity].
    exfalso. apply modinv_some_gcd in Eip, Eiq. rewrite gcd_mod_l in Eip, Eiq by lia.
    destruct (modinv_complete a (P * Q) ltac:(nia) (gcd_mul_1 _ _ _ Eip Eiq)) as [x Hx]. congruence.
Qed.

(* CRT exponentiation = plain exponentiation, given the two residues *)
Lemma crt_modexp : forall P Q Qinv b e ep eq, rel_prime P Q -> 1 < P -> 1 < Q -> (Q * Qinv) mod P = 1 ->
  b ^ ep mod P = b ^ e mod P -> b ^ eq mod Q = b ^ e mod Q ->
  recombine P Q Qinv (modexp b ep P) (modexp b eq Q) = modexp b e (P * Q).
Proof.
  intros P Q Qinv b e ep eq Hrp HP HQ Hinv Hp Hq.
  rewrite !modexp_spec by nia.
  apply recombine_eq; try lia; try assumption.
  - apply Z.mod_pos_bound. nia.
  - rewrite Zmod_mod, Hp. symmetry. apply mod_mod_divide; [lia | exists Q; ring].
  - rewrite Hq. symmetry. apply mod_mod_divide; [lia | exists P; ring].
Qed.

Lemma mod_pred : forall p, 2 < p -> p mod (p - 1) = 1.
Proof. intros p Hp. symmetry. apply (Zmod_unique p (p - 1) 1 1); lia. Qed.

Section SecretKeyPath.
  Variables p q : Z.
  Variable k : skey.
  Hypothesis Hp : prime p.
  Hypothesis Hq : prime q.
  Hypothesis Hne : p <> q.
  Hypothesis Hk : precompute p q = Some k.

  Let N := p * q.

  Lemma sk_N_eq : sk_N k = p * q.
  Proof. destruct (precompute_fields _ _ _ Hk) as (Ep & Eq & _). unfold sk_N. now rewrite Ep, Eq. Qed.

  Lemma N2_split : (p * q) * (p * q) = (p * p) * (q * q).
  Proof. ring. Qed.

  (* OddPrimeSquareFactors.ModExp *)
  Lemma sk_modexp2_eq : forall b e, 0 <= e -> sk_modexp2 k b e = modexp b e ((p * q) * (p * q)).
  Proof.
    intros b e He.
    destruct (precompute_fields _ _ _ Hk) as (Ep & Eq & Hp2 & Hq2 & _ & Hq2i & _).
    unfold sk_modexp2, recombine_N2. rewrite Ep, Eq, N2_split.
    apply crt_modexp; try nia; try assumption.
    - apply squares_rel_prime. apply primes_rel_prime; assumption.
    - destruct (Z.gcd b p =? 1) eqn:Eg; [|reflexivity]. apply Z.eqb_eq in Eg.
      rewrite (Z.div_mod e (p * (p - 1))) at 2 by nia.
      rewrite pow_euler_reduce; try assumption; try reflexivity.
      + apply Z.div_pos; nia.
      + apply Z.mod_pos_bound; nia.
    - destruct (Z.gcd b q =? 1) eqn:Eg; [|reflexivity]. apply Z.eqb_eq in Eg.
      rewrite (Z.div_mod e (q * (q - 1))) at 2 by nia.
      rewrite pow_euler_reduce; try assumption; try reflexivity.
      + apply Z.div_pos; nia.
      + apply Z.mod_pos_bound; nia.
  Qed.

  (* OddPrimeSquareFactors.ModInv *)
  Lemma sk_modinv2_eq : forall a, sk_modinv2 k a = modinv a ((p * q) * (p * q)).
  Proof.
    intros a.
    destruct (precompute_fields _ _ _ Hk) as (Ep & Eq & Hp2 & Hq2 & _ & Hq2i & _).
    unfold sk_modinv2, recombine_N2. rewrite Ep, Eq, N2_split.
    apply crt_modinv; try nia; try assumption.
    apply squares_rel_prime. apply primes_rel_prime; assumption.
  Qed.

  (* OddPrimeSquareFactors.ExpToN *)
  Lemma sk_noise_eq : forall r, Z.gcd r (p * q) = 1 -> sk_noise k r = noise (p * q) r.
  Proof.
    intros r Hg.
    destruct (precompute_fields _ _ _ Hk) as (Ep & Eq & Hp2 & Hq2 & _ & Hq2i & _ & _ & _ & _ & _ & _ & Eep & Eeq).
    pose proof (gcd_factor_l _ _ _ Hg) as Hgp. pose proof (gcd_factor_r _ _ _ Hg) as Hgq.
    unfold sk_noise, noise, recombine_N2. rewrite Ep, Eq, Eep, Eeq, N2_split.
    apply crt_modexp; try nia; try assumption.
    - apply squares_rel_prime. apply primes_rel_prime; assumption.
    - assert (Es : (p * q) mod (p - 1) = q mod (p - 1)).
      { rewrite <- Zmult_mod_idemp_l, mod_pred by lia. f_equal; ring. }
      rewrite Es. pose proof (Z.div_mod q (p - 1) ltac:(lia)) as Hd.
      replace (p * q) with (p * (p - 1) * (q / (p - 1)) + p * (q mod (p - 1))) by nia.
      rewrite pow_euler_reduce; try assumption; try reflexivity.
      + apply Z.div_pos; lia.
      + pose proof (Z.mod_pos_bound q (p - 1) ltac:(lia)). nia.
    - assert (Es : (p * q) mod (q - 1) = p mod (q - 1)).
      { rewrite <- Zmult_mod_idemp_r, mod_pred by lia. f_equal; ring. }
      rewrite Es. pose proof (Z.div_mod p (q - 1) ltac:(lia)) as Hd.
      replace (p * q) with (q * (q - 1) * (p / (q - 1)) + q * (p mod (q - 1))) by nia.
      rewrite pow_euler_reduce; try assumption; try reflexivity.
      + apply Z.div_pos; lia.
      + pose proof (Z.mod_pos_bound p (q - 1) ltac:(lia)). nia.
  Qed.

  Lemma sk_cscale_eq : forall c s, sk_cscale k c s = cscale (p * q) c s.
  Proof.
    intros c s. unfold sk_cscale, cscale, modexpi.
    rewrite sk_modexp2_eq by apply Z.abs_nonneg. destruct (s <? 0); [apply sk_modinv2_eq | reflexivity].
  Qed.

  Lemma sk_cinv_eq : forall c, sk_cinv k c = cinv (p * q) c.
  Proof. intros. apply sk_modinv2_eq. Qed.

  Lemma sk_cmul_eq : forall c1 c2, sk_cmul k c1 c2 = cmul (p * q) c1 c2.
  Proof. intros. unfold sk_cmul. now rewrite sk_N_eq. Qed.

  Lemma sk_enc_eq : forall m r, Z.gcd r (p * q) = 1 -> sk_enc k m r = enc (p * q) m r.
  Proof. intros m r Hg. unfold sk_enc, enc. rewrite sk_cmul_eq, sk_noise_eq, sk_N_eq by assumption. reflexivity. Qed.

  Lemma sk_shift_eq : forall c d, sk_shift k c d = shift (p * q) c d.
  Proof. intros. unfold sk_shift, shift. rewrite sk_cmul_eq, sk_N_eq. reflexivity. Qed.

  Lemma sk_rerandomise_eq : forall c r, Z.gcd r (p * q) = 1 -> sk_rerandomise k c r = rerandomise (p * q) c r.
  Proof. intros c r Hg. unfold sk_rerandomise, rerandomise. rewrite sk_cmul_eq, sk_noise_eq by assumption. reflexivity. Qed.

  (* the nonce group with known order: modular.OddPrimeFactors *)
  Lemma sk_nonce_mul_eq : forall a b, sk_nonce_mul k a b = nonce_mul (p * q) a b.
  Proof.
    intros a b. destruct (precompute_fields _ _ _ Hk) as (Ep & Eq & Hp2 & Hq2 & Hqi & _).
    unfold sk_nonce_mul, nonce_mul, recombine_N. rewrite Ep, Eq.
    apply recombine_eq; try lia; try assumption.
    - apply primes_rel_prime; assumption.
    - apply Z.mod_pos_bound. nia.
    - rewrite Zmod_mod, <- Zmult_mod. symmetry. apply mod_mod_divide; [lia | exists q; ring].
    - rewrite <- Zmult_mod. symmetry. apply mod_mod_divide; [lia | exists p; ring].
  Qed.

  Lemma sk_modexp1_eq : forall b e, 0 <= e -> sk_modexp1 k b e = modexp b e (p * q).
  Proof.
    intros b e He.
    destruct (precompute_fields _ _ _ Hk) as (Ep & Eq & Hp2 & Hq2 & Hqi & _).
    unfold sk_modexp1, recombine_N. rewrite Ep, Eq.
    apply crt_modexp; try lia; try assumption.
    - apply primes_rel_prime; assumption.
    - destruct (Z.gcd b p =? 1) eqn:Eg; [|reflexivity]. apply Z.eqb_eq in Eg.
      rewrite (Z.div_mod e (p - 1)) at 2 by lia.
      rewrite pow_fermat_reduce; try assumption; try reflexivity.
      + apply Z.div_pos; lia.
      + apply Z.mod_pos_bound; lia.
    - destruct (Z.gcd b q =? 1) eqn:Eg; [|reflexivity]. apply Z.eqb_eq in Eg.
      rewrite (Z.div_mod e (q - 1)) at 2 by lia.
      rewrite pow_fermat_reduce; try assumption; try reflexivity.
      + apply Z.div_pos; lia.
      + apply Z.mod_pos_bound; lia.
  Qed.

  Lemma sk_modinv1_eq : forall a, sk_modinv1 k a = modinv a (p * q).
  Proof.
    intros a. destruct (precompute_fields _ _ _ Hk) as (Ep & Eq & Hp2 & Hq2 & Hqi & _).
    unfold sk_modinv1, recombine_N. rewrite Ep, Eq.
    apply crt_modinv; try lia; try assumption. apply primes_rel_prime; assumption.
  Qed.

  Lemma sk_nonce_scale_eq : forall r s, sk_nonce_scale k r s = nonce_scale (p * q) r s.
  Proof.
    intros r s. unfold sk_nonce_scale, nonce_scale, modexpi.
    rewrite sk_modexp1_eq by apply Z.abs_nonneg. destruct (s <? 0); [apply sk_modinv1_eq | reflexivity].
  Qed.

  Lemma sk_nonce_inv_eq : forall r, sk_nonce_inv k r = nonce_inv (p * q) r.
  Proof. intros. apply sk_modinv1_eq. Qed.

  (* everything in one statement *)
  Lemma sk_ops_equal_pk_ops : forall c c2 m r s d, Z.gcd r (p * q) = 1 ->
    sk_enc k m r = enc (p * q) m r /\
    sk_noise k r = noise (p * q) r /\
    sk_cmul k c c2 = cmul (p * q) c c2 /\
    sk_cscale k c s = cscale (p * q) c s /\
    sk_cinv k c = cinv (p * q) c /\
    sk_shift k c d = shift (p * q) c d /\
    sk_rerandomise k c r = rerandomise (p * q) c r /\
    sk_nonce_mul k c c2 = nonce_mul (p * q) c c2 /\
    sk_nonce_scale k c s = nonce_scale (p * q) c s /\
    sk_nonce_inv k c = nonce_inv (p * q) c.
  Proof.
    intros c c2 m r s d Hg.
    repeat split; auto using sk_enc_eq, sk_noise_eq, sk_cmul_eq, sk_cscale_eq, sk_cinv_eq, sk_shift_eq,
      sk_rerandomise_eq, sk_nonce_mul_eq, sk_nonce_scale_eq, sk_nonce_inv_eq.
  Qed.
End SecretKeyPath.

(* ---- what the homomorphic operations do to the decrypted plaintext ------------------------------- *)

Lemma gcd_mulmod : forall a b N, 1 < N -> Z.gcd a N = 1 -> Z.gcd b N = 1 -> Z.gcd ((a * b) mod N) N = 1.
Proof.
  intros a b N HN Ha Hb. rewrite gcd_mod_l by lia. rewrite Z.gcd_comm.
  apply Zgcd_1_rel_prime. apply rel_prime_mult; apply Zgcd_1_rel_prime; rewrite Z.gcd_comm; assumption.
Qed.

Lemma nonce_scale_unit : forall N r k r', 1 < N -> Z.gcd r N = 1 -> nonce_scale N r k = Some r' -> Z.gcd r' N = 1.
Proof.
  intros N r k r' HN Hg H. unfold nonce_scale, modexpi in H. rewrite modexp_spec in H by lia.
  assert (Hz : Z.gcd (r ^ Z.abs k mod N) N = 1).
  { rewrite gcd_mod_l by lia. rewrite Z.gcd_comm. apply Zgcd_1_rel_prime.
    apply rel_prime_Zpower_r; [apply Z.abs_nonneg|]. apply Zgcd_1_rel_prime. rewrite Z.gcd_comm. assumption. }
  destruct (k <? 0).
  - destruct (modinv_sound _ _ _ H) as (_ & _ & Hx). apply inv_witness_gcd with (x := r ^ Z.abs k mod N); [assumption|].
    rewrite Z.mul_comm. assumption.
  - inversion H; subst. assumption.
Qed.

Section Homomorphic.
  Variables p q : Z.
  Variable k : skey.
  Hypothesis Hp : prime p.
  Hypothesis Hq : prime q.
  Hypothesis Hne : p <> q.
  Hypothesis Hk : precompute p q = Some k.

  Let N := p * q.

  Lemma N_gt_1 : 1 < p * q.
  Proof. destruct Hp, Hq. nia. Qed.

  Lemma decrypt_add : forall m1 r1 m2 r2, Z.gcd r1 (p * q) = 1 -> Z.gcd r2 (p * q) = 1 ->
    decrypt k (cmul (p * q) (enc (p * q) m1 r1) (enc (p * q) m2 r2)) = (m1 + m2) mod (p * q).
  Proof.
    intros. pose proof N_gt_1. rewrite enc_add by lia. apply decrypt_enc; try assumption.
    - apply gcd_mulmod; assumption.
    - apply Z.mod_pos_bound. lia.
  Qed.

  Lemma decrypt_shift : forall m r d, Z.gcd r (p * q) = 1 ->
    decrypt k (shift (p * q) (enc (p * q) m r) d) = (m + d) mod (p * q).
  Proof.
    intros. pose proof N_gt_1. rewrite enc_shift by lia. apply decrypt_enc; try assumption.
    apply Z.mod_pos_bound. lia.
  Qed.

  Lemma decrypt_rerandomise : forall m r r', Z.gcd r (p * q) = 1 -> Z.gcd r' (p * q) = 1 -> 0 <= m < p * q ->
    decrypt k (rerandomise (p * q) (enc (p * q) m r) r') = m.
  Proof.
    intros. pose proof N_gt_1. rewrite rerandomise_spec by lia. apply decrypt_enc; try assumption.
    apply gcd_mulmod; assumption.
  Qed.

  Lemma decrypt_scale : forall m r s c', Z.gcd r (p * q) = 1 ->
    cscale (p * q) (enc (p * q) m r) s = Some c' -> decrypt k c' = (m * s) mod (p * q).
  Proof.
    intros m r s c' Hg Hc. pose proof N_gt_1 as HN.
    assert (exists r', nonce_scale (p * q) r s = Some r') as [r' Hr].
    { unfold nonce_scale, modexpi. destruct (s <? 0); [|eauto]. apply modinv_complete; [assumption|].
      rewrite modexp_spec by lia. rewrite gcd_mod_l by lia. rewrite Z.gcd_comm. apply Zgcd_1_rel_prime.
      apply rel_prime_Zpower_r; [apply Z.abs_nonneg|]. apply Zgcd_1_rel_prime. rewrite Z.gcd_comm. assumption. }
    rewrite (enc_scale _ _ _ _ _ _ HN Hc Hr). apply decrypt_enc; try assumption.
    - eapply nonce_scale_unit; eauto.
    - apply Z.mod_pos_bound. lia.
  Qed.

  (* scaling an encryption under a unit nonce is never refused *)
  Lemma cscale_defined : forall m r s, Z.gcd r (p * q) = 1 -> exists c', cscale (p * q) (enc (p * q) m r) s = Some c'.
  Proof.
    intros m r s Hg. pose proof N_gt_1 as HN. unfold cscale, modexpi. destruct (s <? 0); [|eauto].
    apply modinv_complete; [nia|]. rewrite modexp_spec by nia. rewrite gcd_mod_l by nia.
    rewrite Z.gcd_comm. apply Zgcd_1_rel_prime. apply rel_prime_Zpower_r; [apply Z.abs_nonneg|].
    apply Zgcd_1_rel_prime. rewrite Z.gcd_comm. apply enc_unit; assumption.
  Qed.

  Lemma decrypt_homomorphic :
    (forall m1 r1 m2 r2, Z.gcd r1 (p * q) = 1 -> Z.gcd r2 (p * q) = 1 ->
       decrypt k (cmul (p * q) (enc (p * q) m1 r1) (enc (p * q) m2 r2)) = (m1 + m2) mod (p * q)) /\
    (forall m r s c', Z.gcd r (p * q) = 1 ->
       cscale (p * q) (enc (p * q) m r) s = Some c' -> decrypt k c' = (m * s) mod (p * q)) /\
    (forall m r s, Z.gcd r (p * q) = 1 -> exists c', cscale (p * q) (enc (p * q) m r) s = Some c') /\
    (forall m r d, Z.gcd r (p * q) = 1 ->
       decrypt k (shift (p * q) (enc (p * q) m r) d) = (m + d) mod (p * q)) /\
    (forall m r r', Z.gcd r (p * q) = 1 -> Z.gcd r' (p * q) = 1 -> 0 <= m < p * q ->
       decrypt k (rerandomise (p * q) (enc (p * q) m r) r') = m).
  Proof.
    repeat split.
    - apply decrypt_add.
    - apply decrypt_scale.
    - apply cscale_defined.
    - apply decrypt_shift.
    - apply decrypt_rerandomise.
  Qed.
End Homomorphic.

(* ---- symmetric plaintext range ------------------------------------------------------------------------ *)

Lemma symmetric_roundtrip : forall N x y, 0 < N -> plaintext_symmetric N x = Some y -> normalise N y = x.
Proof.
  intros N x y HN H. unfold plaintext_symmetric in H.
  destruct (- N <=? 2 * x) eqn:E1; [|discriminate]. destruct (2 * x <? N) eqn:E2; [|discriminate].
  cbn in H. inversion H; subst y. apply Z.leb_le in E1. apply Z.ltb_lt in E2.
  unfold normalise. rewrite Zmod_mod.
  destruct (Z.lt_ge_cases x 0) as [Hx|Hx].
  - assert (Ea : x mod N = x + N) by (symmetry; apply (Zmod_unique x N (-1)); lia).
    rewrite Ea. assert (En : (- (x + N)) mod N = - x) by (symmetry; apply (Zmod_unique _ N (-1)); lia).
    rewrite En. replace (- x <=? x + N) with true by (symmetry; apply Z.leb_le; lia). lia.
  - rewrite (Z.mod_small x N) by lia. destruct (Z.eq_dec x 0) as [->|Hx0].
    + rewrite Z.mod_0_l by lia. reflexivity.
    + assert (En : (- x) mod N = N - x) by (symmetry; apply (Zmod_unique _ N (-1)); lia).
      rewrite En. replace (N - x <=? x) with false by (symmetry; apply Z.leb_gt; lia). reflexivity.
Qed.

Lemma plaintext_symmetric_accepts : forall N x, - N <= 2 * x < N -> plaintext_symmetric N x = Some (x mod N).
Proof.
  intros N x [H1 H2]. unfold plaintext_symmetric.
  replace (- N <=? 2 * x) with true by (symmetry; apply Z.leb_le; lia).
  replace (2 * x <? N) with true by (symmetry; apply Z.ltb_lt; lia). reflexivity.
Qed.

(* ---- key construction: what an accepted key satisfies; admissible primes are never refused ------- *)

Lemma new_secret_key_ok : forall minlen p q k, new_secret_key minlen p q = Some k ->
  precompute p q = Some k /\ minlen <= bitlen (p * q) /\ bitlen p = bitlen q /\ p <> q.
Proof.
  intros minlen p q k H. unfold new_secret_key in H.
  destruct (bitlen p =? bitlen q) eqn:E1; [|discriminate]. destruct (p =? q) eqn:E2; [discriminate|].
  destruct (Z.odd p); [|discriminate]. destruct (Z.odd q); [|discriminate].
  destruct (1 <? p); [|discriminate]. destruct (1 <? q); [|discriminate].
  destruct (minlen <=? bitlen (p * q)) eqn:E3; [|discriminate]. cbn in H.
  apply Z.eqb_eq in E1. apply Z.eqb_neq in E2. apply Z.leb_le in E3. auto.
Qed.

Lemma prime_gt2_odd : forall p, prime p -> 2 < p -> Z.odd p = true.
Proof.
  intros p Hp H2. destruct (Z.odd p) eqn:E; [reflexivity|]. exfalso.
  rewrite <- Z.negb_even in E. apply Bool.negb_false_iff in E. apply Z.even_spec in E. destruct E as [c Hc].
  destruct (prime_divisors p Hp 2 ltac:(exists c; lia)) as [H|[H|[H|H]]]; lia.
Qed.

Lemma bitlen_lt_double : forall p q, 0 < p -> 0 < q -> bitlen p = bitlen q -> p < 2 * q.
Proof.
  intros p q Hp Hq H. unfold bitlen in H.
  replace (p <=? 0) with false in H by (symmetry; apply Z.leb_gt; lia).
  replace (q <=? 0) with false in H by (symmetry; apply Z.leb_gt; lia).
  assert (E : Z.log2 p = Z.log2 q) by lia.
  destruct (Z.log2_spec p Hp) as [_ Hpu]. destruct (Z.log2_spec q Hq) as [Hql _].
  rewrite E in Hpu. rewrite Z.pow_succ_r in Hpu by apply Z.log2_nonneg. lia.
Qed.

Lemma prime_coprime_pred : forall p q, prime p -> prime q -> 2 < p -> 2 < q -> p < 2 * q -> Z.gcd q (p - 1) = 1.
Proof.
  intros p q Hp Hq Hp2 Hq2 Hlt. apply Zgcd_1_rel_prime. apply prime_rel_prime; [assumption|].
  intros [c Hc]. assert (c = 1) by nia. subst c.
  pose proof (prime_gt2_odd p Hp Hp2) as Op. pose proof (prime_gt2_odd q Hq Hq2) as Oq.
  replace p with (q + 1) in Op by lia. rewrite Z.odd_add, Oq in Op. discriminate.
Qed.

Lemma precompute_total : forall p q, prime p -> prime q -> p <> q -> 2 < p -> 2 < q ->
  bitlen p = bitlen q -> exists k, precompute p q = Some k.
Proof.
  intros p q Hp Hq Hne Hp2 Hq2 Hb.
  pose proof (primes_rel_prime p q Hp Hq Hne) as Hrp.
  assert (G1 : Z.gcd q p = 1) by (apply Zgcd_1_rel_prime; apply rel_prime_sym; assumption).
  assert (G3 : Z.gcd p q = 1) by (apply Zgcd_1_rel_prime; assumption).
  assert (G2 : Z.gcd ((q * q) mod (p * p)) (p * p) = 1).
  { rewrite gcd_mod_l by nia. apply Zgcd_1_rel_prime. apply rel_prime_sym. apply squares_rel_prime. assumption. }
  assert (G4 : Z.gcd q (p - 1) = 1) by (apply prime_coprime_pred; try assumption; apply bitlen_lt_double; lia).
  assert (G5 : Z.gcd p (q - 1) = 1) by (apply prime_coprime_pred; try assumption; apply bitlen_lt_double; lia).
  unfold precompute.
  destruct (modinv_complete q p ltac:(lia) G1) as [x1 ->].
  destruct (modinv_complete _ (p * p) ltac:(nia) G2) as [x2 ->].
  destruct (modinv_complete p q ltac:(lia) G3) as [x3 ->].
  destruct (modinv_complete q (p - 1) ltac:(lia) G4) as [x4 ->].
  destruct (modinv_complete p (q - 1) ltac:(lia) G5) as [x5 ->].
  eauto.
Qed.

(* newSecretKey accepts exactly the distinct odd primes of equal length above the floor *)
Lemma new_secret_key_total : forall minlen p q, prime p -> prime q -> p <> q -> 2 < p -> 2 < q ->
  bitlen p = bitlen q -> minlen <= bitlen (p * q) -> exists k, new_secret_key minlen p q = Some k.
Proof.
  intros minlen p q Hp Hq Hne Hp2 Hq2 Hb Hm.
  destruct (precompute_total p q Hp Hq Hne Hp2 Hq2 Hb) as [k Hk]. exists k. unfold new_secret_key.
  rewrite Hb, Z.eqb_refl. replace (p =? q) with false by (symmetry; apply Z.eqb_neq; assumption).
  rewrite (prime_gt2_odd p Hp Hp2), (prime_gt2_odd q Hq Hq2).
  replace (1 <? p) with true by (symmetry; apply Z.ltb_lt; lia).
  replace (1 <? q) with true by (symmetry; apply Z.ltb_lt; lia).
  replace (minlen <=? bitlen (p * q)) with true by (symmetry; apply Z.leb_le; assumption).
  cbn. assumption.
Qed.

(* concrete primes for the non-vacuity example (computed by MathComp's prime test, mc/NtFacts.v) *)
Lemma example_primes : prime 1031 /\ prime 1049 /\ 1031 <> 1049.
Proof. split; [exact NtFacts.Zprime_1031 | split; [exact NtFacts.Zprime_1049 | discriminate]]. Qed.

(* ---- plaintexts carried in a smaller ring Z_M, M <= N (e.g. curve scalars) ------------------------ *)

Lemma pk_enc_ring_ok : forall N M m r c, pk_enc_ring N M m r = Some c -> 0 < M <= N /\ c = enc N m r.
Proof.
  intros N M m r c H. unfold pk_enc_ring in H.
  destruct (0 <? M) eqn:E1; [|discriminate]. destruct (M <=? N) eqn:E2; [|discriminate].
  cbn in H. inversion H. apply Z.ltb_lt in E1. apply Z.leb_le in E2. auto.
Qed.

Lemma pk_enc_ring_accepts : forall N M m r, 0 < M <= N -> pk_enc_ring N M m r = Some (enc N m r).
Proof.
  intros N M m r [H1 H2]. unfold pk_enc_ring.
  replace (0 <? M) with true by (symmetry; apply Z.ltb_lt; lia).
  replace (M <=? N) with true by (symmetry; apply Z.leb_le; lia). reflexivity.
Qed.

(* the encrypted value is the plaintext's value, whatever ring it was carried in *)
Lemma decrypt_enc_ring : forall p q k M m r c, prime p -> prime q -> p <> q ->
  precompute p q = Some k -> Z.gcd r (p * q) = 1 -> 0 <= m < M ->
  pk_enc_ring (p * q) M m r = Some c -> decrypt k c = m /\ c = textbook (p * q) m r.
Proof.
  intros p q k M m r c Hp Hq Hne Hk Hg Hm H.
  destruct (pk_enc_ring_ok _ _ _ _ _ H) as [HM ->]. split.
  - apply decrypt_enc; try assumption. lia.
  - apply enc_textbook; lia.
Qed.
