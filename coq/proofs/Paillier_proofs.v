(* Lemmas about model/Paillier.v (C16).  Stdlib style; the number-theoretic core
   (Euler's theorem at p and p^2) comes from mc/NtFacts.v. *)
From Coq Require Import ZArith Znumtheory Zpow_facts Lia Bool.
Require Import V.model.Paillier.
Require V.mc.NtFacts.
Local Open Scope Z_scope.

(* ---- congruences by explicit witnesses ------------------------------------------------ *)

Lemma mod_eq_witness : forall a b n t, a = b + t * n -> a mod n = b mod n.
Proof. intros a b n t ->. apply Z_mod_plus_full. Qed.

Lemma mod_eq_elim : forall a b n, n <> 0 -> a mod n = b mod n -> exists t, a = b + t * n.
Proof.
  intros a b n Hn H. exists (a / n - b / n).
  pose proof (Z.div_mod a n Hn) as Ha. pose proof (Z.div_mod b n Hn) as Hb.
  rewrite H in Ha. lia.
Qed.

Lemma mulm : forall a a' b b' n, a mod n = a' mod n -> b mod n = b' mod n ->
  (a * b) mod n = (a' * b') mod n.
Proof. intros a a' b b' n Ha Hb. rewrite (Zmult_mod a b), (Zmult_mod a' b'), Ha, Hb. reflexivity. Qed.

Lemma powm : forall a a' e n, a mod n = a' mod n -> (a ^ e) mod n = (a' ^ e) mod n.
Proof.
  intros a a' e n H. destruct (Z.eq_dec n 0) as [->|Hn].
  - rewrite !Zmod_0_r in *. now subst.
  - destruct (Z.lt_ge_cases e 0) as [He|He].
    + rewrite !Z.pow_neg_r by assumption. reflexivity.
    + revert H. pattern e. apply natlike_ind; [ | | assumption].
      * intros _. reflexivity.
      * intros x Hx IH H. rewrite !Z.pow_succ_r by assumption. apply mulm; auto.
Qed.

Lemma mod_mod_divide : forall a n m, n <> 0 -> (n | m) -> (a mod m) mod n = a mod n.
Proof.
  intros a n m Hn [k ->]. destruct (Z.eq_dec k 0) as [->|Hk].
  - rewrite Z.mul_0_l, Zmod_0_r. reflexivity.
  - symmetry. apply mod_eq_witness with (t := (a / (k * n)) * k).
    rewrite (Z.div_mod a (k * n)) at 1 by lia. ring.
Qed.

Lemma modexp_spec : forall b e n, n <> 0 -> modexp b e n = b ^ e mod n.
Proof. intros. unfold modexp. now apply Zpow_mod_correct. Qed.

(* ---- binomial lifting -------------------------------------------------------------------- *)

(* (b + kN)^(n+1) = b^(n+1) + (n+1) N k b^n  (mod N^2) *)
Lemma pow_lift : forall b k N n, 0 <= n ->
  exists t, (b + k * N) ^ (n + 1) = b ^ (n + 1) + (n + 1) * N * k * b ^ n + t * (N * N).
Proof.
  intros b k N n Hn. pattern n. apply natlike_ind; [ | | assumption].
  - exists 0. rewrite Z.pow_0_r. change (0 + 1) with 1. rewrite !Z.pow_1_r. ring.
  - intros x Hx [t IH]. replace (Z.succ x + 1) with (Z.succ (x + 1)) by lia.
    rewrite (Z.pow_succ_r (b + k * N)) by lia. rewrite IH.
    rewrite (Z.pow_succ_r b (x + 1)) by lia.
    replace (b ^ (x + 1)) with (b * b ^ x) by (rewrite Z.add_1_r, Z.pow_succ_r by lia; reflexivity).
    exists (t * (b + k * N) + k * k * (x + 1) * b ^ x).
    replace (Z.succ (x + 1)) with (x + 2) by lia. replace (Z.succ x) with (x + 1) by lia.
    replace (b ^ (x + 1)) with (b * b ^ x) by (rewrite Z.add_1_r, Z.pow_succ_r by lia; reflexivity).
    ring.
Qed.

(* a = b (mod N)  ->  a^N = b^N (mod N^2) *)
Lemma pow_N_congr : forall a b N, 0 < N -> a mod N = b mod N ->
  (a ^ N) mod (N * N) = (b ^ N) mod (N * N).
Proof.
  intros a b N HN H. destruct (mod_eq_elim a b N ltac:(lia) H) as [k ->].
  destruct (pow_lift b k N (N - 1) ltac:(lia)) as [t Ht].
  replace (N - 1 + 1) with N in Ht by lia.
  apply mod_eq_witness with (t := t + k * b ^ (N - 1)). rewrite Ht. ring.
Qed.

(* one_plus_N_pow, with a multiplier: (1 + kN)^m = 1 + m k N (mod N^2) *)
Lemma one_plus_kN_pow : forall N k m, 0 <= m ->
  ((1 + k * N) ^ m) mod (N * N) = (1 + m * k * N) mod (N * N).
Proof.
  intros N k m Hm. destruct (Z.eq_dec m 0) as [->|Hm0].
  - rewrite Z.pow_0_r. f_equal; ring.
  - destruct (pow_lift 1 k N (m - 1) ltac:(lia)) as [t Ht].
    replace (m - 1 + 1) with m in Ht by lia. rewrite !Z.pow_1_l in Ht by lia.
    apply mod_eq_witness with (t := t). rewrite Ht. ring.
Qed.

Lemma one_plus_N_pow : forall N m, 0 <= m ->
  ((1 + N) ^ m) mod (N * N) = (1 + m * N) mod (N * N).
Proof.
  intros N m Hm. pose proof (one_plus_kN_pow N 1 m Hm) as H.
  replace (1 + 1 * N) with (1 + N) in H by ring. rewrite H. f_equal; ring.
Qed.

(* ---- the public-key path as congruences ----------------------------------------------------- *)

Lemma representative_spec : forall N m, representative N m = (1 + m * N) mod (N * N).
Proof.
  intros. unfold representative. rewrite Zplus_mod_idemp_l. f_equal; ring.
Qed.

Lemma noise_spec : forall N r, N <> 0 -> noise N r = r ^ N mod (N * N).
Proof. intros. unfold noise. apply modexp_spec. nia. Qed.

Lemma enc_spec : forall N m r, N <> 0 -> enc N m r = ((1 + m * N) * r ^ N) mod (N * N).
Proof.
  intros N m r HN. unfold enc, cmul. rewrite representative_spec, noise_spec by assumption.
  rewrite <- Zmult_mod. reflexivity.
Qed.

Lemma enc_range : forall N m r, N <> 0 -> 0 <= enc N m r < N * N.
Proof. intros. rewrite enc_spec by assumption. apply Z.mod_pos_bound. nia. Qed.

Lemma enc_textbook : forall N m r, 0 < N -> 0 <= m -> enc N m r = textbook N m r.
Proof.
  intros N m r HN Hm. rewrite enc_spec by lia. unfold textbook.
  rewrite !modexp_spec by nia. rewrite <- Zmult_mod.
  apply mulm; [ | reflexivity ]. symmetry. apply one_plus_N_pow. assumption.
Qed.

(* the plaintext only matters modulo N, the nonce only modulo N *)
Lemma enc_mod_plain : forall N m r, N <> 0 -> enc N (m mod N) r = enc N m r.
Proof.
  intros N m r HN. rewrite !enc_spec by assumption. apply mulm; [ | reflexivity ].
  apply mod_eq_witness with (t := - (m / N)). rewrite (Z.div_mod m N HN) at 2. rewrite Zmod_eq_full by assumption. ring.
Qed.

Lemma enc_mod_nonce : forall N m r, 0 < N -> enc N m (r mod N) = enc N m r.
Proof.
  intros N m r HN. rewrite !enc_spec by lia. apply mulm; [ reflexivity | ].
  apply pow_N_congr; [assumption | ]. apply Zmod_mod.
Qed.

(* homomorphisms ---------------------------------------------------------------------------------- *)

Lemma enc_add : forall N m1 r1 m2 r2, 0 < N ->
  cmul N (enc N m1 r1) (enc N m2 r2) = enc N ((m1 + m2) mod N) ((r1 * r2) mod N).
Proof.
  intros N m1 r1 m2 r2 HN. rewrite enc_mod_plain, enc_mod_nonce by lia.
  unfold cmul. rewrite !enc_spec by lia. rewrite <- Zmult_mod.
  rewrite Z.pow_mul_l.
  apply mod_eq_witness with (t := m1 * m2 * (r1 ^ N * r2 ^ N)). ring.
Qed.

Lemma enc_shift : forall N m r d, 0 < N ->
  shift N (enc N m r) d = enc N ((m + d) mod N) r.
Proof.
  intros N m r d HN. rewrite enc_mod_plain by lia. unfold shift, cmul.
  rewrite representative_spec, !enc_spec by lia. rewrite <- Zmult_mod.
  apply mod_eq_witness with (t := m * d * r ^ N). ring.
Qed.

Lemma rerandomise_spec : forall N m r r', 0 < N ->
  rerandomise N (enc N m r) r' = enc N m ((r * r') mod N).
Proof.
  intros N m r r' HN. rewrite enc_mod_nonce by lia. unfold rerandomise, cmul.
  rewrite noise_spec, !enc_spec by lia. rewrite <- Zmult_mod. rewrite Z.pow_mul_l.
  f_equal; ring.
Qed.

(* identity noise is an encryption of 0; representative an encryption under nonce 1 *)
Lemma noise_is_enc0 : forall N r, 0 < N -> noise N r = enc N 0 r.
Proof. intros. rewrite noise_spec, enc_spec by lia. f_equal; ring. Qed.

Lemma representative_is_enc1 : forall N m, 0 < N -> representative N m = enc N m 1.
Proof.
  intros. rewrite representative_spec, enc_spec by lia. rewrite Z.pow_1_l by lia. f_equal; ring.
Qed.

(* ---- modular inverse (extended Euclid with fuel) ------------------------------------------------ *)

Lemma egcd_aux_sound : forall fuel a n r0 r1 s0 s1 g s, n <> 0 ->
  r0 mod n = (s0 * a) mod n -> r1 mod n = (s1 * a) mod n ->
  egcd_aux fuel r0 r1 s0 s1 = Some (g, s) -> g mod n = (s * a) mod n.
Proof.
  induction fuel as [|f IH]; intros a n r0 r1 s0 s1 g s Hn H0 H1 He; cbn [egcd_aux] in He.
  - discriminate.
  - destruct (r1 =? 0).
    + inversion He; subst. assumption.
    + eapply IH; [exact Hn | exact H1 | | exact He].
      destruct (mod_eq_elim _ _ n Hn H0) as [t0 E0]. destruct (mod_eq_elim _ _ n Hn H1) as [t1 E1].
      apply mod_eq_witness with (t := t0 - r0 / r1 * t1). rewrite E0 at 1. rewrite E1 at 2. ring.
Qed.

Lemma modinv_sound : forall a n x, modinv a n = Some x ->
  1 < n /\ 0 <= x < n /\ (a * x) mod n = 1.
Proof.
  intros a n x H. unfold modinv in H.
  destruct (n <=? 1) eqn:Hn; [discriminate|]. apply Z.leb_gt in Hn.
  destruct (egcd_aux (egcd_fuel n) n (a mod n) 0 1) as [[g s]|] eqn:He; [|discriminate].
  destruct (g =? 1) eqn:Hg; [|discriminate]. apply Z.eqb_eq in Hg. subst g. inversion H; subst x.
  split; [assumption|]. split; [apply Z.mod_pos_bound; lia|].
  apply (egcd_aux_sound _ a n) in He; [ | lia | rewrite Z_mod_same_full; reflexivity | rewrite Zmod_mod; f_equal; ring ].
  rewrite Zmult_mod_idemp_r. rewrite Z.mul_comm. rewrite <- He. apply Z.mod_1_l. assumption.
Qed.

Lemma egcd_aux_S : forall f r0 r1 s0 s1,
  egcd_aux (S f) r0 r1 s0 s1 =
  if r1 =? 0 then Some (r0, s0)
  else egcd_aux f r1 (r0 - r0 / r1 * r1) s1 (s0 - r0 / r1 * s1).
Proof. reflexivity. Qed.

Lemma egcd_aux_complete : forall f r0 r1 s0 s1, 0 <= r1 < r0 -> r0 * r1 < 2 ^ Z.of_nat f ->
  exists s, egcd_aux (S f) r0 r1 s0 s1 = Some (Z.gcd r0 r1, s).
Proof.
  induction f as [|f IH]; intros r0 r1 s0 s1 Hr Hb; rewrite egcd_aux_S.
  - change (2 ^ Z.of_nat 0) with 1 in Hb. assert (r1 = 0) by nia. subst r1.
    rewrite Z.eqb_refl. exists s0. rewrite Z.gcd_0_r, Z.abs_eq by lia. reflexivity.
  - destruct (r1 =? 0) eqn:E.
    + apply Z.eqb_eq in E. subst r1. exists s0. rewrite Z.gcd_0_r, Z.abs_eq by lia. reflexivity.
    + apply Z.eqb_neq in E.
      assert (Hm : r0 - r0 / r1 * r1 = r0 mod r1) by (rewrite Zmod_eq_full by assumption; ring).
      rewrite Hm. pose proof (Z.mod_pos_bound r0 r1 ltac:(lia)) as Hmb.
      destruct (IH r1 (r0 mod r1) s1 (s0 - r0 / r1 * s1)) as [s Hs].
      * lia.
      * rewrite Nat2Z.inj_succ, Z.pow_succ_r in Hb by lia.
        pose proof (Z.div_mod r0 r1 E) as Hd.
        assert (1 <= r0 / r1) by (apply Z.div_le_lower_bound; lia).
        nia.
      * exists s. rewrite Hs. do 2 f_equal. rewrite (Z.gcd_comm r1), Z.gcd_mod by assumption. apply Z.gcd_comm.
Qed.

Lemma modinv_complete : forall a n, 1 < n -> Z.gcd a n = 1 -> exists x, modinv a n = Some x.
Proof.
  intros a n Hn Hg. unfold modinv. replace (n <=? 1) with false by (symmetry; apply Z.leb_gt; lia).
  unfold egcd_fuel.
  destruct (egcd_aux_complete (S (Z.to_nat (2 * Z.log2_up n + 2))) n (a mod n) 0 1) as [s Hs].
  - pose proof (Z.mod_pos_bound a n ltac:(lia)). lia.
  - pose proof (Z.mod_pos_bound a n ltac:(lia)) as Hm.
    pose proof (Z.log2_up_nonneg n) as HL. pose proof (Z.log2_up_spec n Hn) as [_ Hu].
    rewrite Nat2Z.inj_succ, Z2Nat.id by lia.
    replace (Z.succ (2 * Z.log2_up n + 2)) with (Z.log2_up n + Z.log2_up n + 3) by lia.
    rewrite !Z.pow_add_r by lia. change (2 ^ 3) with 8.
    assert (0 < 2 ^ Z.log2_up n) by (apply Z.pow_pos_nonneg; lia). nia.
  - rewrite Hs. assert (Z.gcd n (a mod n) = 1) as ->.
    { rewrite Z.gcd_comm, Z.gcd_mod by lia. rewrite Z.gcd_comm. assumption. }
    rewrite Z.eqb_refl. eauto.
Qed.

Lemma inv_witness_gcd : forall a x n, 1 < n -> (a * x) mod n = 1 -> Z.gcd a n = 1.
Proof.
  intros a x n Hn H. apply Zgcd_1_rel_prime. apply bezout_rel_prime.
  apply Bezout_intro with (u := x) (v := - ((a * x) / n)).
  pose proof (Z.div_mod (a * x) n ltac:(lia)) as Hd. rewrite H in Hd. lia.
Qed.

Lemma modinv_some_gcd : forall a n x, modinv a n = Some x -> Z.gcd a n = 1.
Proof. intros a n x H. destruct (modinv_sound _ _ _ H) as (Hn & _ & Hx). eapply inv_witness_gcd; eauto. Qed.

Lemma inv_unique : forall z x y n, 1 < n -> (z * x) mod n = 1 -> (z * y) mod n = 1 ->
  0 <= x < n -> 0 <= y < n -> x = y.
Proof.
  intros z x y n Hn Hx Hy Rx Ry.
  rewrite <- (Z.mod_small x n Rx), <- (Z.mod_small y n Ry).
  transitivity ((x * (z * y)) mod n).
  - rewrite <- Zmult_mod_idemp_r, Hy, Z.mul_1_r. reflexivity.
  - replace (x * (z * y)) with (y * (z * x)) by ring.
    rewrite <- Zmult_mod_idemp_r, Hx, Z.mul_1_r. reflexivity.
Qed.

(* modinv is the inverse function on units, whatever witnesses one has *)
Lemma modinv_eq : forall a n x y, modinv a n = Some x -> 0 <= y < n -> (a * y) mod n = 1 -> x = y.
Proof.
  intros a n x y H Ry Hy. destruct (modinv_sound _ _ _ H) as (Hn & Rx & Hx).
  eapply inv_unique; eauto.
Qed.

(* ---- scalar multiplication and inversion of ciphertexts ---------------------------------------- *)

Lemma enc_pow : forall N m r k, 0 < N -> 0 <= k ->
  (enc N m r) ^ k mod (N * N) = enc N ((m * k) mod N) ((r ^ k) mod N).
Proof.
  intros N m r k HN Hk. rewrite enc_mod_plain, enc_mod_nonce by lia.
  rewrite (enc_spec N m r) by lia. rewrite <- Zpower_mod by nia.
  rewrite enc_spec by lia. rewrite Z.pow_mul_l. apply mulm.
  - rewrite (Z.mul_comm m N). rewrite (Z.mul_comm m k).
    replace (1 + N * m) with (1 + m * N) by ring. rewrite one_plus_kN_pow by assumption. f_equal; ring.
  - rewrite <- !Z.pow_mul_r by lia. f_equal. f_equal. ring.
Qed.

Lemma enc_0_1 : forall N, 1 < N -> enc N 0 1 = 1.
Proof.
  intros N HN. rewrite enc_spec by lia. rewrite Z.pow_1_l by lia. rewrite Z.mod_small; nia.
Qed.

Lemma enc_scale : forall N m r k c' r', 1 < N ->
  cscale N (enc N m r) k = Some c' -> nonce_scale N r k = Some r' ->
  c' = enc N ((m * k) mod N) r'.
Proof.
  intros N m r k c' r' HN Hc Hr. unfold cscale, nonce_scale, modexpi in *.
  rewrite !modexp_spec in * by nia.
  destruct (k <? 0) eqn:Hk.
  - apply Z.ltb_lt in Hk. rewrite enc_pow in Hc by lia.
    set (rho := r ^ Z.abs k mod N) in *.
    destruct (modinv_sound _ _ _ Hr) as (_ & Rr & Hr1).
    eapply modinv_eq; [exact Hc | apply enc_range; lia | ].
    fold (cmul N (enc N ((m * Z.abs k) mod N) rho) (enc N ((m * k) mod N) r')).
    rewrite enc_add by lia. rewrite Hr1.
    replace (((m * Z.abs k) mod N + (m * k) mod N) mod N) with 0.
    + apply enc_0_1. assumption.
    + rewrite <- Zplus_mod. replace (m * Z.abs k + m * k) with 0 by lia. reflexivity.
  - apply Z.ltb_ge in Hk. inversion Hc; inversion Hr; subst.
    rewrite Z.abs_eq by assumption. apply enc_pow; lia.
Qed.

Lemma enc_inv : forall N m r c' r', 1 < N ->
  cinv N (enc N m r) = Some c' -> nonce_inv N r = Some r' -> c' = enc N ((- m) mod N) r'.
Proof.
  intros N m r c' r' HN Hc Hr. unfold cinv, nonce_inv in *.
  destruct (modinv_sound _ _ _ Hr) as (_ & Rr & Hr1).
  eapply modinv_eq; [exact Hc | apply enc_range; lia | ].
  fold (cmul N (enc N m r) (enc N ((- m) mod N) r')).
  rewrite enc_add by lia. rewrite Hr1.
  replace ((m + (- m) mod N) mod N) with 0.
  - apply enc_0_1. assumption.
  - rewrite Zplus_mod_idemp_r. replace (m + - m) with 0 by lia. reflexivity.
Qed.

(* encryptions under unit nonces are units, so scaling / inverting never refuses them *)
Lemma enc_unit : forall N m r, 1 < N -> Z.gcd r N = 1 -> Z.gcd (enc N m r) (N * N) = 1.
Proof.
  intros N m r HN Hg. destruct (modinv_complete r N HN Hg) as [s Hs].
  destruct (modinv_sound _ _ _ Hs) as (_ & Rs & Hs1).
  apply inv_witness_gcd with (x := enc N ((- m) mod N) s); [nia|].
  fold (cmul N (enc N m r) (enc N ((- m) mod N) s)). rewrite enc_add by lia. rewrite Hs1.
  replace ((m + (- m) mod N) mod N) with 0.
  - apply enc_0_1. assumption.
  - rewrite Zplus_mod_idemp_r. replace (m + - m) with 0 by lia. reflexivity.
Qed.

(* ---- Chinese remaindering as coded (crt.Params.Recombine) ---------------------------------------- *)

Lemma recombine_spec : forall P Q Qinv mp mq, 1 < P -> 0 < Q -> (Q * Qinv) mod P = 1 -> 0 <= mq < Q ->
  0 <= recombine P Q Qinv mp mq < P * Q /\
  (recombine P Q Qinv mp mq) mod P = mp mod P /\
  (recombine P Q Qinv mp mq) mod Q = mq.
Proof.
  intros P Q Qinv mp mq HP HQ Hinv Hmq. unfold recombine.
  set (h := (((mp - mq) mod P) * Qinv) mod P).
  assert (Hh : 0 <= h < P) by (apply Z.mod_pos_bound; lia).
  split; [nia|]. split.
  - rewrite <- Zplus_mod_idemp_r. unfold h. rewrite Zmult_mod_idemp_l.
    rewrite <- Z.mul_assoc. rewrite <- Zmult_mod_idemp_r. rewrite (Z.mul_comm Qinv Q), Hinv.
    rewrite Z.mul_1_r, Zmod_mod. rewrite Zplus_mod_idemp_r. f_equal; ring.
  - rewrite Z_mod_plus_full. apply Z.mod_small. assumption.
Qed.

Lemma crt_unique : forall P Q x y, rel_prime P Q -> 0 < P -> 0 < Q ->
  x mod P = y mod P -> x mod Q = y mod Q -> 0 <= x < P * Q -> 0 <= y < P * Q -> x = y.
Proof.
  intros P Q x y Hrp HP HQ Hp Hq Rx Ry.
  destruct (mod_eq_elim x y P ltac:(lia) Hp) as [t Ht].
  destruct (mod_eq_elim x y Q ltac:(lia) Hq) as [u Hu].
  assert (Hd : (P | u * Q)) by (exists t; lia).
  rewrite Z.mul_comm in Hd. apply Gauss in Hd; [ | exact Hrp ].
  destruct Hd as [v Hv]. subst u. assert (v = 0) by nia. subst v. lia.
Qed.

Lemma recombine_eq : forall P Q Qinv mp mq X, rel_prime P Q -> 1 < P -> 0 < Q ->
  (Q * Qinv) mod P = 1 -> 0 <= X < P * Q -> mp mod P = X mod P -> mq = X mod Q ->
  recombine P Q Qinv mp mq = X.
Proof.
  intros P Q Qinv mp mq X Hrp HP HQ Hinv RX Hp Hq.
  assert (Hmq : 0 <= mq < Q) by (subst mq; apply Z.mod_pos_bound; lia).
  destruct (recombine_spec P Q Qinv mp mq HP HQ Hinv Hmq) as (R & Rp & Rq).
  apply (crt_unique P Q); try assumption; try lia.
Qed.

Lemma primes_rel_prime : forall p q, prime p -> prime q -> p <> q -> rel_prime p q.
Proof.
  intros p q Hp Hq Hne. apply prime_rel_prime; [assumption|]. intros Hd.
  destruct Hp as [Hp1 _]. destruct (prime_divisors q Hq p Hd) as [H|[H|[H|H]]]; destruct Hq as [Hq1 _]; lia.
Qed.

Lemma squares_rel_prime : forall p q, rel_prime p q -> rel_prime (p * p) (q * q).
Proof.
  intros p q H. apply rel_prime_mult; apply rel_prime_sym; apply rel_prime_mult; apply rel_prime_sym; assumption.
Qed.

(* ---- the precomputed constants ---------------------------------------------------------------------- *)

Lemma precompute_fields : forall p q k, precompute p q = Some k ->
  sk_p k = p /\ sk_q k = q /\ 2 < p /\ 2 < q /\
  (q * sk_qinv k) mod p = 1 /\
  ((q * q) * sk_q2inv k) mod (p * p) = 1 /\
  sk_negqinv_p k = (- sk_qinv k) mod p /\
  (exists pi, (p * pi) mod q = 1 /\ sk_negpinv_q k = (- pi) mod q) /\
  (q * sk_qinv_phip k) mod (p - 1) = 1 /\ 0 <= sk_qinv_phip k /\
  (p * sk_pinv_phiq k) mod (q - 1) = 1 /\ 0 <= sk_pinv_phiq k /\
  sk_ep2 k = p * ((p * q) mod (p - 1)) /\ sk_eq2 k = q * ((p * q) mod (q - 1)).
Proof.
  intros p q k H. unfold precompute in H.
  destruct (modinv q p) as [qi|] eqn:E1; [|discriminate].
  destruct (modinv ((q * q) mod (p * p)) (p * p)) as [q2i|] eqn:E2; [|discriminate].
  destruct (modinv p q) as [pi|] eqn:E3; [|discriminate].
  destruct (modinv q (p - 1)) as [qphi|] eqn:E4; [|discriminate].
  destruct (modinv p (q - 1)) as [pphi|] eqn:E5; [|discriminate].
  inversion H; subst k; cbn [sk_p sk_q sk_qinv sk_q2inv sk_negqinv_p sk_negpinv_q sk_qinv_phip sk_pinv_phiq sk_ep2 sk_eq2].
  destruct (modinv_sound _ _ _ E1) as (? & ? & ?). destruct (modinv_sound _ _ _ E2) as (? & ? & Hq2i).
  destruct (modinv_sound _ _ _ E3) as (? & ? & ?). destruct (modinv_sound _ _ _ E4) as (? & ? & ?).
  destruct (modinv_sound _ _ _ E5) as (? & ? & ?).
  rewrite Zmult_mod_idemp_l in Hq2i.
  repeat split; try assumption; try lia.
  exists pi. split; [assumption|reflexivity].
Qed.

(* ---- decryption ------------------------------------------------------------------------------------ *)

Lemma pow_euler_reduce : forall p r t s, prime p -> Z.gcd r p = 1 -> 0 <= t -> 0 <= s ->
  r ^ (p * (p - 1) * t + s) mod (p * p) = r ^ s mod (p * p).
Proof.
  intros p r t s Hp Hg Ht Hs. destruct Hp as [Hp1 Hp2]. assert (Hp : prime p) by (split; assumption).
  rewrite Z.pow_add_r by nia. rewrite Z.pow_mul_r by nia.
  rewrite <- Zmult_mod_idemp_l.
  rewrite (powm _ 1 t) by (rewrite (@NtFacts.Z_euler_p2 p r Hp Hg); symmetry; apply Z.mod_1_l; nia).
  rewrite Z.pow_1_l by assumption. rewrite Zmult_mod_idemp_l. f_equal; ring.
Qed.

Lemma pow_fermat_reduce : forall p r t s, prime p -> Z.gcd r p = 1 -> 0 <= t -> 0 <= s ->
  r ^ ((p - 1) * t + s) mod p = r ^ s mod p.
Proof.
  intros p r t s Hp Hg Ht Hs. destruct Hp as [Hp1 Hp2]. assert (Hp : prime p) by (split; assumption).
  rewrite Z.pow_add_r by nia. rewrite Z.pow_mul_r by nia.
  rewrite <- Zmult_mod_idemp_l.
  rewrite (powm _ 1 t) by (rewrite (@NtFacts.Z_fermat p r Hp Hg); symmetry; apply Z.mod_1_l; nia).
  rewrite Z.pow_1_l by assumption. rewrite Zmult_mod_idemp_l. f_equal; ring.
Qed.

Lemma fermat_quotient_enc : forall p q m r, prime p -> 0 < q -> Z.gcd r p = 1 ->
  fermat_quotient p (enc (p * q) m r) = (- (m * q)) mod p.
Proof.
  intros p q m r Hp Hq Hg. pose proof Hp as [Hp1 _].
  unfold fermat_quotient. rewrite modexp_spec by nia.
  assert (Hdiv : (p * p | (p * q) * (p * q))) by (exists (q * q); ring).
  assert (E : (enc (p * q) m r) ^ (p - 1) mod (p * p) = (1 - m * q * p) mod (p * p)).
  { rewrite enc_spec by nia. rewrite Zpower_mod by nia. rewrite mod_mod_divide by (assumption || nia).
    rewrite <- Zpower_mod by nia. rewrite Z.pow_mul_l. rewrite <- Z.pow_mul_r by nia.
    transitivity (((1 + (p - 1) * m * (p * q)) * 1) mod (p * p)).
    - apply mulm.
      + rewrite <- (mod_mod_divide _ (p * p) ((p * q) * (p * q))) by (assumption || nia).
        rewrite one_plus_kN_pow by lia. rewrite mod_mod_divide by (assumption || nia). reflexivity.
      + replace (p * q * (p - 1)) with (p * (p - 1) * q + 0) by ring.
        rewrite pow_euler_reduce by (assumption || lia). reflexivity.
    - apply mod_eq_witness with (t := m * q). ring. }
  rewrite E. rewrite Zminus_mod_idemp_l.
  replace (1 - m * q * p - 1) with (p * (- (m * q))) by ring.
  rewrite Zmult_mod_distr_l. rewrite Z.mul_comm. apply Z.div_mul. lia.
Qed.

Lemma gcd_factor_l : forall r p q, Z.gcd r (p * q) = 1 -> Z.gcd r p = 1.
Proof.
  intros r p q Hg. apply Zgcd_1_rel_prime. apply Zgcd_1_rel_prime in Hg.
  apply rel_prime_sym. apply rel_prime_div with (p := p * q); [apply rel_prime_sym; exact Hg | exists q; ring].
Qed.

Lemma gcd_factor_r : forall r p q, Z.gcd r (p * q) = 1 -> Z.gcd r q = 1.
Proof. intros r p q Hg. rewrite Z.mul_comm in Hg. eapply gcd_factor_l; eauto. Qed.

Lemma decrypt_enc : forall p q k m r, prime p -> prime q -> p <> q ->
  precompute p q = Some k -> Z.gcd r (p * q) = 1 -> 0 <= m < p * q ->
  decrypt k (enc (p * q) m r) = m.
Proof.
  intros p q k m r Hp Hq Hne Hk Hg Hm.
  destruct (precompute_fields _ _ _ Hk) as (Ep & Eq & Hp2 & Hq2 & Hqi & _ & Hnq & (pi & Hpi & Hnp) & _).
  pose proof (gcd_factor_l _ _ _ Hg) as Hgp. pose proof (gcd_factor_r _ _ _ Hg) as Hgq.
  unfold decrypt, recombine_N. rewrite Ep, Eq.
  rewrite fermat_quotient_enc by (assumption || lia).
  replace (p * q) with (q * p) at 1 by ring.
  rewrite fermat_quotient_enc by (assumption || lia).
  apply recombine_eq; try lia.
  - apply primes_rel_prime; assumption.
  - rewrite Zmod_mod. rewrite Hnq. rewrite <- Zmult_mod.
    replace (- (m * q) * - sk_qinv k) with (m * (q * sk_qinv k)) by ring.
    rewrite <- Zmult_mod_idemp_r, Hqi. f_equal; ring.
  - rewrite Hnp. rewrite <- Zmult_mod.
    replace (- (m * p) * - pi) with (m * (p * pi)) by ring.
    rewrite <- Zmult_mod_idemp_r, Hpi. f_equal; ring.
Qed.
