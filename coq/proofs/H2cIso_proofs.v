(* H2cIso_proofs.v — the isogeny step of the SSWU suites with an isogenous curve (mapIso of
   mappers/sswu/isogeny.go, regenerated in gen/Mappers.v): if the coefficient lists satisfy the
   polynomial identity

       (x^3 + A' x + B') * YNum^2 * XDen^3  =  YDen^2 * (XNum^3 + a XNum XDen^2 + b XDen^3)

   (an identity between coefficient lists, decidable by computation for concrete constants), then
   for every point (x', y') of E' : y^2 = x^3 + A' x + B' the fractions returned by mapIso, put
   into projective form by setFractions (gen/Formulas.v W_setFractions), satisfy the projective
   equation of E : y^2 = x^3 + a x + b — for ALL inputs, including zero denominators (the point is
   then (X, Y, 0), handled by the complete addition formulas of C14). *)
From Coq Require Import ZArith NArith Field Ring Bool List Lia.
Import ListNotations.
Require Import V.base.Fld V.gen.Mappers V.gen.Formulas V.model.H2cPoly V.proofs.H2cMap_proofs.

Section Poly.
  Context {F : Type} (K : fops F) (HK : flaws K).
  Local Notation "0" := (f0 K).
  Local Notation "1" := (f1 K).
  Local Infix "+" := (fadd K).
  Local Infix "*" := (fmul K).
  Local Infix "-" := (fsub K).
  Local Notation "- x" := (fopp K x).

  Add Field Ffield2 : (fl_theory K HK).

  Local Notation peval := (peval K).
  Local Notation padd := (padd K).
  Local Notation pscale := (pscale K).
  Local Notation pmul := (pmul K).

  Lemma peval_padd p q x : peval (padd p q) x = peval p x + peval q x.
  Proof.
    revert q; induction p as [|a p IH]; intros [|b q]; cbn [padd peval]; try ring.
    rewrite IH. ring.
  Qed.

  Lemma peval_pscale c p x : peval (pscale c p) x = c * peval p x.
  Proof. induction p as [|a p IH]; cbn [pscale map peval]; [ring|]. fold (pscale c p). rewrite IH. ring. Qed.

  Lemma peval_pmul p q x : peval (pmul p q) x = peval p x * peval q x.
  Proof.
    induction p as [|a p IH]; cbn [pmul peval]; [ring|].
    rewrite peval_padd, peval_pscale. cbn [peval]. rewrite IH. ring.
  Qed.

  Lemma peval_zero p x : Forall (fun c => c = 0) p -> peval p x = 0.
  Proof. induction 1 as [|c p Hc _ IH]; cbn [peval]; [reflexivity|]. rewrite Hc, IH. ring. Qed.

  (* polyEval of isogeny.go (Horner from the top coefficient) is evaluation *)
  Lemma horner_peval x r acc :
    fold_left (fun acc c => acc * x + c) (rev r) acc = peval (r ++ [acc]) x.
  Proof.
    revert acc; induction r as [|a r IH]; intros acc; cbn [rev app peval fold_left].
    - ring.
    - rewrite fold_left_app. cbn [fold_left]. rewrite IH. ring.
  Qed.

  Lemma poly_eval_peval cs x : poly_eval K cs x = peval cs x.
  Proof.
    unfold poly_eval. destruct cs as [|c cs] using rev_ind; [reflexivity|].
    rewrite rev_app_distr. cbn [rev app]. apply horner_peval.
  Qed.

  Section Iso.
    Variables (A' B' a b : F) (xnum xden ynum yden : list F).

    Local Notation iso_lhs := (iso_lhs K A' B' xden ynum).
    Local Notation iso_rhs := (iso_rhs K a b xnum xden yden).
    (* the coefficient-wise check of model/H2cPoly.v (decidable; run on the regenerated constants) *)
    Hypothesis Hid : iso_identity_b K A' B' a b xnum xden ynum yden = true.

    Lemma iso_identity_zero : Forall (fun c => c = 0) (padd iso_lhs (pscale (- (1)) iso_rhs)).
    Proof.
      apply Forall_forall. intros c Hc. unfold iso_identity_b in Hid.
      rewrite forallb_forall in Hid. apply (fis0_eq K HK). apply Hid. exact Hc.
    Qed.

    Lemma iso_identity_at x : peval iso_lhs x = peval iso_rhs x.
    Proof.
      pose proof (peval_zero _ x iso_identity_zero) as H. rewrite peval_padd, peval_pscale in H.
      transitivity (peval iso_lhs x + - (1) * peval iso_rhs x + peval iso_rhs x); [ring|]. rewrite H. ring.
    Qed.

    Theorem iso_map_on_curve : forall x' y',
      y' * y' = x' * x' * x' + A' * x' + B' ->
      let '(xn, xd, yn, yd) := mapIso K xnum xden ynum yden x' y' in
      let '(X, Y, Zc) := W_setFractions K xn xd yn yd in
      Y * Y * Zc = X * X * X + a * X * Zc * Zc + b * Zc * Zc * Zc.
    Proof.
      intros x' y' Hon. unfold mapIso, W_setFractions. cbv zeta. rewrite !poly_eval_peval.
      pose proof (iso_identity_at x') as H. unfold H2cPoly.iso_lhs, H2cPoly.iso_rhs in H.
      rewrite !peval_pmul, !peval_padd, !peval_pscale, !peval_pmul in H. cbn [peval] in H.
      set (XN := peval xnum x') in *. set (XD := peval xden x') in *.
      set (YN := peval ynum x') in *. set (YD := peval yden x') in *.
      assert (H' : (x' * x' * x' + A' * x' + B') * (YN * YN) * (XD * (XD * XD))
                   = YD * YD * (XN * (XN * XN) + (a * (XN * (XD * XD)) + b * (XD * (XD * XD))))).
      { rewrite <- H. ring. }
      rewrite <- Hon in H'.
      transitivity (YD * (y' * y' * (YN * YN) * (XD * (XD * XD)))); [ring|]. rewrite H'. ring.
    Qed.
  End Iso.

  (* ZeroPointMapper.Map followed by setFractions: SSWU onto E', then the isogeny onto E *)
  Section ZeroMap.
    Variables (A' B' Z a b : F) (mulByA mulByB : F -> F) (sqrt_ratio : F -> F -> bool * F) (sgn0 : F -> bool).
    Variables (xnum xden ynum yden : list F).
    Hypothesis mulByA_spec : forall x, mulByA x = A' * x.
    Hypothesis mulByB_spec : forall x, mulByB x = B' * x.
    Hypothesis A_nz : A' <> 0.
    Hypothesis Z_nz : Z <> 0.
    Hypothesis sqrt_ratio_ok : sqrt_ratio_spec K Z sqrt_ratio.
    Hypothesis exceptional_is_square : forall n d, d <> 0 ->
      n * (A' * Z * (A' * Z) * (A' * Z)) = d * ((B' * B' + A' * (A' * Z * (A' * Z))) * B' + B' * (A' * Z * (A' * Z) * (A' * Z))) ->
      fst (sqrt_ratio n d) = true.
    Hypothesis Hid : iso_identity_b K A' B' a b xnum xden ynum yden = true.

    Theorem zero_map_on_curve : forall u,
      let '(xn, xd, yn, yd) := ZeroPointMapper_Map K mulByA mulByB Z sqrt_ratio sgn0 xnum xden ynum yden u in
      let '(X, Y, Zc) := W_setFractions K xn xd yn yd in
      Y * Y * Zc = X * X * X + a * X * Zc * Zc + b * Zc * Zc * Zc.
    Proof.
      intros u. unfold ZeroPointMapper_Map.
      pose proof (sswu_on_curve K HK A' B' Z mulByA mulByB sqrt_ratio sgn0 mulByA_spec mulByB_spec A_nz Z_nz
                    sqrt_ratio_ok exceptional_is_square u) as Hs.
      destruct (sswu K mulByA mulByB Z sqrt_ratio sgn0 u) as [x' y'].
      pose proof (iso_map_on_curve A' B' a b xnum xden ynum yden Hid x' y' Hs) as Hi.
      destruct (mapIso K xnum xden ynum yden x' y') as [[[xn xd] yn] yd]. exact Hi.
    Qed.
  End ZeroMap.
End Poly.

(* the identity holds for the regenerated constants of the suites, computed with the raw Z_p operations
   (k256: 3-isogeny onto y^2 = x^3 + 7, pallas/vesta: 3-isogenies onto y^2 = x^3 + 5; the 381-bit
   BLS12-381 G1 (11-isogeny) and G2 instances cost minutes in vm_compute and are evaluated by the extracted
   model in the C19 driver on every run instead) *)
Require Import V.model.CurveParams.
Example iso_identity_k256 :
  iso_identity_b (Zp (wp_p k256_params)) k256_sswuIsogenyA k256_sswuIsogenyB (wp_a k256_params) (wp_b k256_params)
    k256_XNum k256_XDen k256_YNum k256_YDen = true.
Proof. vm_compute. reflexivity. Qed.

Example iso_identity_pasta :
  iso_identity_b (Zp (wp_p pallas_params)) pallas_pallasSswuIsogenyA pallas_pallasSswuIsogenyB (wp_a pallas_params) (wp_b pallas_params)
    pallas_XNum pallas_XDen pallas_YNum pallas_YDen = true /\
  iso_identity_b (Zp (wp_p vesta_params)) vesta_vestaSswuIsogenyA vesta_vestaSswuIsogenyB (wp_a vesta_params) (wp_b vesta_params)
    vesta_XNum vesta_XDen vesta_YNum vesta_YDen = true.
Proof. vm_compute. split; reflexivity. Qed.
