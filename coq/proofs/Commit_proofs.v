(* Commit_proofs.v — lemmas about model/Commit.v (C18). *)
From Coq Require Import List NArith ZArith Bool Lia Zdiv Zpow_facts Znumtheory Morphisms Setoid.
From Coq Require Import ZifyN ZifyNat ZifyBool.
Import ListNotations.
Require Import V.base.Bytes V.base.Fld V.gen.Hagrid V.gen.Hashcom V.model.Transcript V.proofs.Transcript_proofs.
Require Import V.model.Commit.

(* ===================================================================== *)
(* byte strings                                                           *)
(* ===================================================================== *)

Lemma bytes_eqb_spec (a b : bytes) : bytes_eqb a b = true <-> a = b.
Proof.
  revert b; induction a as [|x a IH]; intros [|y b]; cbn [bytes_eqb]; split; intros H;
    try reflexivity; try discriminate.
  - apply andb_true_iff in H. destruct H as [Hx Hr].
    apply N.eqb_eq in Hx. apply IH in Hr. subst. reflexivity.
  - injection H as -> ->. apply andb_true_iff. split; [apply N.eqb_refl|apply IH; reflexivity].
Qed.

(* the framing fed to the hash (regenerated: gen/Hashcom.v): message ‖ witness with a
   witness of fixed length determines both parts *)
Theorem concat_fixed_suffix_injective (k m1 w1 m2 w2 : bytes) :
  length w1 = length w2 -> hashcom_input k m1 w1 = hashcom_input k m2 w2 -> m1 = m2 /\ w1 = w2.
Proof. unfold hashcom_input, hashcom_writes. apply app_inj_tail_length. Qed.

(* without the length condition the framing is ambiguous: the boundary can move *)
Lemma concat_ambiguous_without_fixed_length :
  exists k m1 w1 m2 w2 : bytes, hashcom_input k m1 w1 = hashcom_input k m2 w2 /\ m1 <> m2.
Proof. exists [], [1%N], [2%N], [1%N; 2%N], []. split; [reflexivity|discriminate]. Qed.

(* ===================================================================== *)
(* hashcom                                                                *)
(* ===================================================================== *)

Section HashcomProofs.
  Variable H : bytes -> bytes -> bytes.
  (* idealisation: the keyed hash is injective in (key, input) *)
  Hypothesis H_inj : forall k1 i1 k2 i2, H k1 i1 = H k2 i2 -> k1 = k2 /\ i1 = i2.

  Lemma hashcom_open_spec k c m w : hashcom_open H k c m w = true <-> c = hashcom_commit H k m w.
  Proof. unfold hashcom_open. rewrite bytes_eqb_spec. split; intros; congruence. Qed.

  Lemma hashcom_commit_inj k m w k' m' w' :
    length w = length w' ->
    hashcom_commit H k m w = hashcom_commit H k' m' w' -> k = k' /\ m = m' /\ w = w'.
  Proof.
    intros Hl E. unfold hashcom_commit in E. apply H_inj in E. destruct E as [Hk Hi].
    unfold hashcom_hash_key in Hk. subst k'.
    apply concat_fixed_suffix_injective in Hi; [|exact Hl]. tauto.
  Qed.

  (* (k', c', m', w') opens and c' is the commitment made with (k, m, w)
     iff every component is the committed one *)
  Theorem hashcom_open_iff k m w k' c' m' w' :
    hashcom_wf k w -> hashcom_wf k' w' ->
    (hashcom_open H k' c' m' w' = true /\ c' = hashcom_commit H k m w)
    <-> (k' = k /\ m' = m /\ w' = w /\ c' = hashcom_commit H k m w).
  Proof.
    intros [_ Hw] [_ Hw']. split.
    - intros [Ho Hc]. apply hashcom_open_spec in Ho. rewrite Hc in Ho.
      apply hashcom_commit_inj in Ho; [|congruence]. destruct Ho as (-> & -> & ->). tauto.
    - intros (-> & -> & -> & ->). split; [|reflexivity]. apply hashcom_open_spec. reflexivity.
  Qed.

  Theorem hashcom_honest_opens k m w : hashcom_open H k (hashcom_commit H k m w) m w = true.
  Proof. apply hashcom_open_spec. reflexivity. Qed.

  (* each component changed on its own makes Open fail *)
  Theorem hashcom_single_change_fails k m w :
    hashcom_wf k w ->
    (forall k', hashcom_wf k' w -> k' <> k -> hashcom_open H k' (hashcom_commit H k m w) m w = false) /\
    (forall m', m' <> m -> hashcom_open H k (hashcom_commit H k m w) m' w = false) /\
    (forall w', hashcom_wf k w' -> w' <> w -> hashcom_open H k (hashcom_commit H k m w) m w' = false) /\
    (forall c', c' <> hashcom_commit H k m w -> hashcom_open H k c' m w = false).
  Proof.
    intros [Hk Hw]. repeat split.
    - intros k' _ Hne. apply not_true_is_false. intros Ho. apply hashcom_open_spec in Ho.
      apply hashcom_commit_inj in Ho; [|reflexivity]. destruct Ho as (E & _). congruence.
    - intros m' Hne. apply not_true_is_false. intros Ho. apply hashcom_open_spec in Ho.
      apply hashcom_commit_inj in Ho; [|reflexivity]. destruct Ho as (_ & E & _). congruence.
    - intros w' [_ Hw'] Hne. apply not_true_is_false. intros Ho. apply hashcom_open_spec in Ho.
      apply hashcom_commit_inj in Ho; [|congruence]. destruct Ho as (_ & _ & E). congruence.
    - intros c' Hne. apply not_true_is_false. intros Ho. apply hashcom_open_spec in Ho. congruence.
  Qed.
End HashcomProofs.

(* ===================================================================== *)
(* arithmetic mod q                                                       *)
(* ===================================================================== *)

Local Open Scope Z_scope.

Global Instance eqm_equiv q : Equivalence (eqm q) := eqm_setoid q.
Global Instance add_eqm q : Proper (eqm q ==> eqm q ==> eqm q) Z.add := Zplus_eqm q.
Global Instance sub_eqm q : Proper (eqm q ==> eqm q ==> eqm q) Z.sub := Zminus_eqm q.
Global Instance mul_eqm q : Proper (eqm q ==> eqm q ==> eqm q) Z.mul := Zmult_eqm q.
Global Instance opp_eqm q : Proper (eqm q ==> eqm q) Z.opp := Zopp_eqm q.

(* [A mod q = B mod q] where A, B contain reductions mod q: strip them, then ring *)
Ltac zmod q :=
  match goal with |- ?A mod q = ?B mod q => change (eqm q A B) end;
  repeat (rewrite (Zmod_eqm q)); unfold eqm; f_equal; ring.

Ltac sc_unfold := unfold lf_add, lf_neg, lf_scale, lf_norm, sc_add, sc_sub, sc_neg, sc_mul; cbn [fst snd].

Lemma lf_eqb_spec (a b : lf) : lf_eqb a b = true <-> a = b.
Proof.
  destruct a as [a0 a1], b as [b0 b1]. unfold lf_eqb; cbn [fst snd].
  rewrite andb_true_iff, !Z.eqb_eq. split; [intros [-> ->]; reflexivity|intros E; injection E; auto].
Qed.

Lemma pair_eq {A B} (a a' : A) (b b' : B) : a = a' -> b = b' -> (a, b) = (a', b').
Proof. intros -> ->. reflexivity. Qed.

(* --- extended Euclid: the Bezout identity holds whatever the fuel --- *)
Lemma egcd_bezout fuel a b : let '(g, x, y) := egcd fuel a b in a * x + b * y = g.
Proof.
  revert a b; induction fuel as [|k IH]; intros a b; cbn [egcd]; [ring|].
  destruct (Z.eqb_spec b 0) as [->|Hb]; [ring|].
  specialize (IH b (a mod b)). destruct (egcd k b (a mod b)) as [[g x] y].
  rewrite <- IH. rewrite (Z.div_mod a b) at 1 by exact Hb. ring.
Qed.

Lemma try_inv_correct q a x : 1 < q -> try_inv q a = Some x -> (a * x) mod q = 1 /\ 0 <= x < q.
Proof.
  intros Hq. unfold try_inv.
  pose proof (egcd_bezout (S (Z.to_nat (Z.log2_up q) * 2 + 2)) (a mod q) q) as Hb.
  destruct (egcd _ (a mod q) q) as [[g u] v].
  destruct (Z.eqb_spec g 1) as [->|]; [|discriminate].
  intros E; injection E as <-. split; [|apply Z.mod_pos_bound; lia].
  transitivity ((a mod q * u + v * q) mod q).
  - rewrite Z_mod_plus_full. zmod q.
  - replace (a mod q * u + v * q) with 1 by (rewrite <- Hb; ring). apply Z.mod_1_l. exact Hq.
Qed.

(* ===================================================================== *)
(* pedersencom                                                            *)
(* ===================================================================== *)

Lemma ped_open_spec q k c m r : ped_open q k c m r = true <-> lf_norm q c = ped_commit q k m r.
Proof. unfold ped_open. rewrite lf_eqb_spec. split; intros; congruence. Qed.

Lemma ped_commit_normal q k m r : lf_norm q (ped_commit q k m r) = ped_commit q k m r.
Proof.
  unfold ped_commit. sc_unfold. apply pair_eq.
  all: destruct (Z.eq_dec q 0) as [->|Hq]; [rewrite !Zmod_0_r; reflexivity|apply Z.mod_mod; exact Hq].
Qed.

Lemma ped_commit_std q m r : ped_commit q ped_std_key m r = (m mod q, r mod q).
Proof.
  unfold ped_commit, ped_std_key. cbn [pk_g pk_h]. sc_unfold.
  apply pair_eq; zmod q.
Qed.

(* without a trapdoor (h of unknown discrete log = the independent variable X):
   a commitment opens exactly to the committed scalars *)
Theorem ped_open_iff q m r m' r' :
  ped_open q ped_std_key (ped_commit q ped_std_key m r) m' r' = true
  <-> m' mod q = m mod q /\ r' mod q = r mod q.
Proof.
  rewrite ped_open_spec, ped_commit_normal, !ped_commit_std.
  split; [intros E; injection E; auto|intros [-> ->]; reflexivity].
Qed.

Corollary ped_open_iff_canonical q m r m' r' :
  0 <= m < q -> 0 <= r < q -> 0 <= m' < q -> 0 <= r' < q ->
  (ped_open q ped_std_key (ped_commit q ped_std_key m r) m' r' = true <-> m' = m /\ r' = r).
Proof.
  intros Hm Hr Hm' Hr'. rewrite ped_open_iff, !Z.mod_small by assumption. tauto.
Qed.

(* a changed commitment does not open (any key) *)
Theorem ped_changed_commitment_fails q k m r c' :
  lf_norm q c' <> ped_commit q k m r -> ped_open q k c' m r = false.
Proof. intros Hne. apply not_true_is_false. intros Ho. apply ped_open_spec in Ho. congruence. Qed.

Theorem ped_honest_opens q k m r : ped_open q k (ped_commit q k m r) m r = true.
Proof. apply ped_open_spec. apply ped_commit_normal. Qed.

(* --- homomorphic operations, any key --- *)
Theorem ped_homomorphic q k m1 r1 m2 r2 :
  ped_commitment_op q (ped_commit q k m1 r1) (ped_commit q k m2 r2)
  = ped_commit q k (sc_add q m1 m2) (sc_add q r1 r2).
Proof. unfold ped_commitment_op, ped_commit. sc_unfold. apply pair_eq; zmod q. Qed.

Theorem ped_homomorphic_inv q k m r :
  ped_commitment_op_inv q (ped_commit q k m r) = ped_commit q k (sc_neg q m) (sc_neg q r).
Proof. unfold ped_commitment_op_inv, ped_commit. sc_unfold. apply pair_eq; zmod q. Qed.

Theorem ped_homomorphic_scalar q k m r s :
  ped_commitment_scalar_op q (ped_commit q k m r) s = ped_commit q k (sc_mul q m s) (sc_mul q r s).
Proof. unfold ped_commitment_scalar_op, ped_commit. sc_unfold. apply pair_eq; zmod q. Qed.

Theorem ped_rerandomise_opens q k m r s :
  ped_rerandomise q k (ped_commit q k m r) s = ped_commit q k m (sc_add q r s).
Proof. unfold ped_rerandomise, ped_commit. sc_unfold. apply pair_eq; zmod q. Qed.

Theorem ped_shift_opens q k m r d :
  ped_shift q k (ped_commit q k m r) d = ped_commit q k (sc_add q m d) r.
Proof. unfold ped_shift, ped_commit. sc_unfold. apply pair_eq; zmod q. Qed.

(* --- trapdoor --- *)
Theorem ped_trapdoor_commit_is_public q t m r :
  ped_tcommit q t m r = ped_commit q (ped_export q t) m r.
Proof. unfold ped_tcommit, ped_commit, ped_export. cbn [pk_g pk_h]. sc_unfold. apply pair_eq; zmod q. Qed.

(* the designed exception: whenever Equivocate returns a witness, it opens the
   same commitment to the new message under the exported public key *)
Theorem ped_trapdoor_equivocates q t m r m' r' :
  1 < q ->
  ped_equivocate q t m r m' = Some r' ->
  ped_open q (ped_export q t) (ped_tcommit q t m r) m' r' = true.
Proof.
  intros Hq He. unfold ped_equivocate in He.
  destruct (try_inv q (tk_lambda t)) as [li|] eqn:Hi; [|discriminate].
  injection He as <-. apply try_inv_correct in Hi; [|exact Hq]. destruct Hi as [Hi _].
  apply ped_open_spec. rewrite ped_trapdoor_commit_is_public, ped_commit_normal.
  unfold ped_commit, ped_export. cbn [pk_g pk_h]. destruct (tk_g t) as [g0 g1]. sc_unfold.
  assert (Hk : forall g, (m' * g mod q + (r + li * ((m - m') mod q) mod q) mod q * (tk_lambda t * g mod q) mod q) mod q
                 = (m * g mod q + r * (tk_lambda t * g mod q) mod q) mod q).
  { intros g.
    transitivity ((m' * g + r * (tk_lambda t) * g + (tk_lambda t * li mod q) * ((m - m') * g)) mod q); [zmod q|].
    rewrite Hi. zmod q. }
  apply pair_eq; symmetry; apply Hk.
Qed.

(* with the trapdoor the opening is therefore not unique: two different messages *)
Corollary ped_trapdoor_breaks_binding q t m r m' r' :
  1 < q -> ped_equivocate q t m r m' = Some r' ->
  ped_open q (ped_export q t) (ped_commit q (ped_export q t) m r) m' r' = true.
Proof. intros Hq He. rewrite <- ped_trapdoor_commit_is_public. apply ped_trapdoor_equivocates; assumption. Qed.

(* ===================================================================== *)
(* sequences of homomorphic operations                                    *)
(* ===================================================================== *)

Record hlaws {C} (S : hscheme C) : Prop := {
  hl_op : forall m1 r1 m2 r2,
    hs_cop S (hs_commit S m1 r1) (hs_commit S m2 r2) = hs_commit S (hs_mop S m1 m2) (hs_wop S r1 r2);
  hl_inv : forall m r, hs_cinv S (hs_commit S m r) = hs_commit S (hs_minv S m) (hs_winv S r);
  hl_scal : forall m r s, hs_cscal S (hs_commit S m r) s = hs_commit S (hs_mscal S m s) (hs_wscal S r s);
  hl_rer : forall m r s, hs_rer S (hs_commit S m r) s = hs_commit S m (hs_wop S r s);
  hl_shift : forall m r d, hs_shift S (hs_commit S m r) d = hs_commit S (hs_mop S m d) r
}.

Definition tracked {C} (S : hscheme C) (g : hreg C) : Prop :=
  let '(m, r, c) := g in c = hs_commit S m r.

Lemma hstep_tracked {C} (S : hscheme C) (L : hlaws S) regs o :
  Forall (tracked S) regs -> Forall (tracked S) (hstep S regs o).
Proof.
  intros Hr.
  assert (Hn : forall i g, nth_error regs i = Some g -> tracked S g).
  { intros i g Hi. rewrite Forall_forall in Hr. apply Hr. eapply nth_error_In; exact Hi. }
  destruct o as [m r|i j|i|i s|i s|i d]; cbn [hstep].
  - apply Forall_app; split; [exact Hr|]. constructor; [reflexivity|constructor].
  - destruct (nth_error regs i) as [[[m1 r1] c1]|] eqn:Ei; [|exact Hr].
    destruct (nth_error regs j) as [[[m2 r2] c2]|] eqn:Ej; [|exact Hr].
    apply Hn in Ei, Ej. cbn in Ei, Ej. subst.
    apply Forall_app; split; [exact Hr|]. constructor; [apply (hl_op S L)|constructor].
  - destruct (nth_error regs i) as [[[m1 r1] c1]|] eqn:Ei; [|exact Hr].
    apply Hn in Ei. cbn in Ei. subst.
    apply Forall_app; split; [exact Hr|]. constructor; [apply (hl_inv S L)|constructor].
  - destruct (nth_error regs i) as [[[m1 r1] c1]|] eqn:Ei; [|exact Hr].
    apply Hn in Ei. cbn in Ei. subst.
    apply Forall_app; split; [exact Hr|]. constructor; [apply (hl_scal S L)|constructor].
  - destruct (nth_error regs i) as [[[m1 r1] c1]|] eqn:Ei; [|exact Hr].
    apply Hn in Ei. cbn in Ei. subst.
    apply Forall_app; split; [exact Hr|]. constructor; [apply (hl_rer S L)|constructor].
  - destruct (nth_error regs i) as [[[m1 r1] c1]|] eqn:Ei; [|exact Hr].
    apply Hn in Ei. cbn in Ei. subst.
    apply Forall_app; split; [exact Hr|]. constructor; [apply (hl_shift S L)|constructor].
Qed.

(* every register of every program is the commitment to its tracked message and
   witness — sequences of any length *)
Theorem hrun_tracked {C} (S : hscheme C) (L : hlaws S) ops : Forall (tracked S) (hrun S ops).
Proof.
  unfold hrun.
  assert (G : forall regs, Forall (tracked S) regs -> Forall (tracked S) (fold_left (hstep S) ops regs)).
  { induction ops as [|o ops IH]; intros regs Hr; cbn [fold_left]; [exact Hr|].
    apply IH. apply hstep_tracked; assumption. }
  apply G. constructor.
Qed.

Lemma ped_scheme_laws q k : hlaws (ped_scheme q k).
Proof.
  constructor; cbn [ped_scheme hs_commit hs_mop hs_minv hs_mscal hs_wop hs_winv hs_wscal hs_cop hs_cinv hs_cscal hs_rer hs_shift]; intros.
  - apply ped_homomorphic.
  - apply ped_homomorphic_inv.
  - apply ped_homomorphic_scalar.
  - apply ped_rerandomise_opens.
  - apply ped_shift_opens.
Qed.

(* Pedersen: after any sequence of operations every tracked opening verifies *)
Theorem ped_program_opens q k ops :
  Forall (fun g => let '(m, r, c) := g in ped_open q k c m r = true) (hrun (ped_scheme q k) ops).
Proof.
  pose proof (hrun_tracked (ped_scheme q k) (ped_scheme_laws q k) ops) as Ht.
  eapply Forall_impl; [|exact Ht]. intros [[m r] c] E. cbn in E. subst c. apply ped_honest_opens.
Qed.

(* ===================================================================== *)
(* indcpacom                                                              *)
(* ===================================================================== *)

Section IndCpaProofs.
  Variables K M R C : Type.
  Variable enc : K -> M -> R -> C.
  Variable ceqb : C -> C -> bool.
  Hypothesis ceqb_spec : forall a b, ceqb a b = true <-> a = b.
  (* decryptability: a ciphertext under a key determines the plaintext *)
  Hypothesis enc_inj_m : forall k m r m' r', enc k m r = enc k m' r' -> m = m'.

  Lemma indcpa_open_spec k c m r : indcpa_open K M R C enc ceqb k c m r = true <-> c = enc k m r.
  Proof. unfold indcpa_open. rewrite ceqb_spec. split; intros; congruence. Qed.

  Theorem indcpa_honest_opens k m r :
    indcpa_open K M R C enc ceqb k (indcpa_commit K M R C enc k m r) m r = true.
  Proof. apply indcpa_open_spec. reflexivity. Qed.

  (* binding on the message from decryptability alone *)
  Theorem indcpa_open_binding k m r m' r' :
    indcpa_open K M R C enc ceqb k (indcpa_commit K M R C enc k m r) m' r' = true -> m' = m.
  Proof. intros Ho. apply indcpa_open_spec in Ho. unfold indcpa_commit in Ho. eapply enc_inj_m. symmetry. exact Ho. Qed.

  (* with encryption injective in the nonce as well (ElGamal, Paillier): opens iff same (m, r) *)
  Hypothesis enc_inj_r : forall k m r m' r', enc k m r = enc k m' r' -> r = r'.

  Theorem indcpa_open_iff k m r m' r' :
    indcpa_open K M R C enc ceqb k (indcpa_commit K M R C enc k m r) m' r' = true <-> m' = m /\ r' = r.
  Proof.
    split.
    - intros Ho. apply indcpa_open_spec in Ho. unfold indcpa_commit in Ho. symmetry in Ho.
      split; [eapply enc_inj_m|eapply enc_inj_r]; exact Ho.
    - intros [-> ->]. apply indcpa_honest_opens.
  Qed.

  Theorem indcpa_changed_commitment_fails k m r c' :
    c' <> enc k m r -> indcpa_open K M R C enc ceqb k c' m r = false.
  Proof. intros Hne. apply not_true_is_false. intros Ho. apply indcpa_open_spec in Ho. congruence. Qed.
End IndCpaProofs.

(* ElGamal in the exponent meets the hypotheses (messages and nonces mod q) *)
Lemma eg_enc_inj q x mu r mu' r' :
  eg_enc q x mu r = eg_enc q x mu' r' -> mu mod q = mu' mod q /\ r mod q = r' mod q.
Proof.
  unfold eg_enc. sc_unfold. intros E. injection E as Hr Hm. split; [|exact Hr].
  assert (E1 : (mu + r * x) mod q = (mu' + r' * x) mod q).
  { transitivity ((mu + r * x mod q) mod q); [zmod q|]. rewrite Hm. zmod q. }
  assert (E2 : (r * x) mod q = (r' * x) mod q).
  { transitivity ((r mod q) * x mod q); [zmod q|]. rewrite Hr. zmod q. }
  transitivity (((mu + r * x) mod q - (r * x) mod q) mod q); [zmod q|].
  rewrite E1, E2. zmod q.
Qed.

Theorem eg_open_iff q x mu r mu' r' :
  eg_open q x (eg_enc q x mu r) mu' r' = true <-> mu' mod q = mu mod q /\ r' mod q = r mod q.
Proof.
  unfold eg_open, indcpa_open. rewrite lf_eqb_spec. split.
  - intros E.
    assert (E' : eg_enc q x mu' r' = eg_enc q x mu r).
    { rewrite E. unfold eg_enc. sc_unfold. apply pair_eq.
      all: destruct (Z.eq_dec q 0) as [->|Hq]; [rewrite !Zmod_0_r; reflexivity|apply Z.mod_mod; exact Hq]. }
    apply eg_enc_inj in E'. exact E'.
  - intros [Em Er]. unfold eg_enc. sc_unfold. apply pair_eq.
    + destruct (Z.eq_dec q 0) as [->|Hq]; [rewrite !Zmod_0_r in *; congruence|].
      rewrite Z.mod_mod by exact Hq. exact Er.
    + destruct (Z.eq_dec q 0) as [->|Hq]; [rewrite !Zmod_0_r in *; congruence|].
      rewrite Z.mod_mod by exact Hq.
      transitivity ((mu' mod q + (r' mod q) * x) mod q); [zmod q|]. rewrite Em, Er. zmod q.
Qed.

Lemma eg_scheme_laws q x : hlaws (eg_scheme q x).
Proof.
  constructor; cbn [eg_scheme hs_commit hs_mop hs_minv hs_mscal hs_wop hs_winv hs_wscal hs_cop hs_cinv hs_cscal hs_rer hs_shift];
    intros; unfold eg_rerandomise, eg_shift, eg_enc; sc_unfold; apply pair_eq; zmod q.
Qed.

Theorem eg_program_tracked q x ops : Forall (tracked (eg_scheme q x)) (hrun (eg_scheme q x) ops).
Proof. apply hrun_tracked. apply eg_scheme_laws. Qed.

(* ===================================================================== *)
(* intcom                                                                 *)
(* ===================================================================== *)

Lemma int_open_spec k c m r : int_open k c m r = true <-> c mod ik_n k = int_commit k m r.
Proof. unfold int_open. rewrite Z.eqb_eq. split; intros; congruence. Qed.

Lemma int_commit_normal k m r : int_commit k m r mod ik_n k = int_commit k m r.
Proof.
  unfold int_commit. destruct (Z.eq_dec (ik_n k) 0) as [->|Hn]; [rewrite !Zmod_0_r; reflexivity|].
  apply Z.mod_mod. exact Hn.
Qed.

Theorem int_open_complete k m r : int_open k (int_commit k m r) m r = true.
Proof. apply int_open_spec. apply int_commit_normal. Qed.

Theorem int_changed_commitment_fails k m r c' :
  c' mod ik_n k <> int_commit k m r -> int_open k c' m r = false.
Proof. intros Hne. apply not_true_is_false. intros Ho. apply int_open_spec in Ho. congruence. Qed.

(* --- signed powers mod N, the exponent view of ring-Pedersen commitments --- *)

(* ---------- Euclid terminates within the fuel ---------- *)
Definition egcd_g (fuel : nat) (a b : Z) : Z := fst (fst (egcd fuel a b)).

Lemma egcd_g_S k a b : egcd_g (S k) a b = if b =? 0 then a else egcd_g k b (a mod b).
Proof.
  unfold egcd_g. cbn [egcd]. destruct (b =? 0); [reflexivity|].
  destruct (egcd k b (a mod b)) as [[g x] y]. reflexivity.
Qed.

Lemma mod_halves b c : 0 < c <= b -> b mod c <= (b - 1) / 2.
Proof.
  intros Hc. apply Z.div_le_lower_bound; [lia|].
  pose proof (Z.mod_pos_bound b c ltac:(lia)) as Hm.
  pose proof (Z.div_mod b c ltac:(lia)) as Hd.
  assert (1 <= b / c) by (apply Z.div_le_lower_bound; lia).
  nia.
Qed.

Lemma egcd_g_gcd n : forall a b, 0 <= a -> 0 <= b < 2 ^ Z.of_nat n ->
  egcd_g (2 * n + 1) a b = Z.gcd a b.
Proof.
  induction n as [|n IH]; intros a b Ha Hb.
  - cbn in Hb. assert (b = 0) by lia. subst b. cbn [Nat.mul Nat.add]. rewrite egcd_g_S. cbn [Z.eqb].
    rewrite Z.gcd_0_r_nonneg by lia. reflexivity.
  - replace (2 * S n + 1)%nat with (S (S (2 * n + 1))) by lia. rewrite egcd_g_S.
    destruct (Z.eqb_spec b 0) as [->|Hb0]; [rewrite Z.gcd_0_r_nonneg by lia; reflexivity|].
    pose proof (Z.mod_pos_bound a b ltac:(lia)) as Hc.
    rewrite egcd_g_S.
    rewrite (Z.gcd_comm a b). rewrite <- (Z.gcd_mod a b) by lia.
    destruct (Z.eqb_spec (a mod b) 0) as [Hc0|Hc0].
    + rewrite Hc0. cbn [Z.gcd]. rewrite Z.abs_eq by lia. reflexivity.
    + rewrite IH.
      * rewrite (Z.gcd_comm (a mod b) (b mod (a mod b))). apply Z.gcd_mod. lia.
      * lia.
      * split; [apply Z.mod_pos_bound; lia|].
        pose proof (mod_halves b (a mod b) ltac:(lia)) as Hh.
        rewrite Nat2Z.inj_succ, Z.pow_succ_r in Hb by lia.
        assert ((b - 1) / 2 < 2 ^ Z.of_nat n) by (apply Z.div_lt_upper_bound; lia). lia.
Qed.

Lemma try_inv_complete q a b : 1 < q -> (a * b) mod q = 1 -> exists x, try_inv q a = Some x.
Proof.
  intros Hq Hab. unfold try_inv.
  set (fuel := S (Z.to_nat (Z.log2_up q) * 2 + 2)).
  assert (Hg : egcd_g fuel (a mod q) q = 1).
  { pose proof (Z.log2_up_spec q Hq) as [_ Hl].
    assert (Hpos : 0 <= Z.log2_up q) by apply Z.log2_up_nonneg.
    replace fuel with (2 * (S (Z.to_nat (Z.log2_up q))) + 1)%nat by (unfold fuel; lia).
    rewrite egcd_g_gcd.
    - rewrite Z.gcd_mod by lia. rewrite Z.gcd_comm. apply Z.bezout_1_gcd.
      exists b, (- ((a * b) / q)). pose proof (Z.div_mod (a * b) q ltac:(lia)) as Hd. rewrite Hab in Hd. lia.
    - apply Z.mod_pos_bound; lia.
    - split; [lia|]. rewrite Nat2Z.inj_succ, Z2Nat.id, Z.pow_succ_r by lia. lia. }
  unfold egcd_g in Hg. destruct (egcd fuel (a mod q) q) as [[g x] y]. cbn in Hg. subst g.
  cbn [Z.eqb Pos.eqb]. eexists; reflexivity.
Qed.

(* ---------- units and signed powers mod N ---------- *)
Section ZN.
  Variable N : Z.
  Hypothesis HN : 1 < N.
  Local Notation "a == b" := (eqm N a b) (at level 70).

  Lemma eqm_1 x : x == 1 <-> x mod N = 1.
  Proof. unfold eqm. rewrite (Z.mod_1_l N HN). tauto. Qed.

  Lemma pow_eqm a b k : a == b -> a ^ k == b ^ k.
  Proof. unfold eqm. intros E. rewrite (Zpower_mod a), (Zpower_mod b), E by lia. reflexivity. Qed.

  Global Instance pow_eqm_proper : Proper (eqm N ==> eq ==> eqm N) Z.pow.
  Proof. intros a b E k k' <-. apply pow_eqm. exact E. Qed.

  Definition isinv (a ai : Z) : Prop := a * ai == 1.

  Lemma inv_unique a x y : isinv a x -> isinv a y -> x == y.
  Proof.
    unfold isinv. intros Hx Hy.
    transitivity (x * (a * y)); [rewrite Hy; unfold eqm; f_equal; ring|].
    transitivity ((a * x) * y); [unfold eqm; f_equal; ring|]. rewrite Hx. unfold eqm; f_equal; ring.
  Qed.

  Lemma zn_inv_spec a ai : isinv a ai -> isinv a (zn_inv N a) /\ zn_inv N a = ai mod N.
  Proof.
    intros Hi. unfold zn_inv.
    destruct (try_inv_complete N a ai HN) as [x Hx]; [apply eqm_1; exact Hi|].
    rewrite Hx. destruct (try_inv_correct N a x HN Hx) as [Hax Hr].
    assert (Hix : isinv a x) by (apply eqm_1; exact Hax).
    split; [exact Hix|].
    pose proof (inv_unique a x ai Hix Hi) as E. unfold eqm in E. rewrite Z.mod_small in E by lia. exact E.
  Qed.

  Lemma zn_inv_compat a b : a == b -> zn_inv N a = zn_inv N b.
  Proof. unfold zn_inv, try_inv, eqm. intros ->. reflexivity. Qed.

  Lemma expi_nonneg a e : 0 <= e -> zn_expi N a e = a ^ e mod N.
  Proof.
    intros He. unfold zn_expi. destruct (Z.leb_spec 0 e); [|lia]. apply Zpow_mod_correct. lia.
  Qed.

  Lemma expi_neg a e : e < 0 -> zn_expi N a e = (zn_inv N a) ^ (- e) mod N.
  Proof.
    intros He. unfold zn_expi. destruct (Z.leb_spec 0 e); [lia|]. apply Zpow_mod_correct. lia.
  Qed.

  Lemma expi_range a e : 0 <= zn_expi N a e < N.
  Proof.
    destruct (Z_le_gt_dec 0 e); [rewrite expi_nonneg by lia|rewrite expi_neg by lia]; apply Z.mod_pos_bound; lia.
  Qed.

  Lemma expi_compat a b e : a == b -> zn_expi N a e = zn_expi N b e.
  Proof.
    intros E. destruct (Z_le_gt_dec 0 e).
    - rewrite !expi_nonneg by lia. apply pow_eqm. exact E.
    - rewrite !expi_neg by lia. rewrite (zn_inv_compat a b E). reflexivity.
  Qed.

  Lemma pow_inv_cancel a ai k : isinv a ai -> 0 <= k -> a ^ k * ai ^ k == 1.
  Proof.
    intros Hi Hk. rewrite <- Z.pow_mul_l. unfold isinv in Hi. rewrite Hi. rewrite Z.pow_1_l by lia. reflexivity.
  Qed.

  (* characterisation of the signed power through non-negative powers *)
  Lemma expi_key a ai e n : isinv a ai -> 0 <= n -> 0 <= e + n -> zn_expi N a e * a ^ n == a ^ (e + n).
  Proof.
    intros Hi Hn Hen. destruct (Z_le_gt_dec 0 e) as [He|He].
    - rewrite expi_nonneg by lia. rewrite (Zmod_eqm N). rewrite Z.pow_add_r by lia. reflexivity.
    - rewrite expi_neg by lia. rewrite (Zmod_eqm N).
      destruct (zn_inv_spec a ai Hi) as [Hi' _].
      replace n with ((- e) + (e + n)) at 1 by ring. rewrite Z.pow_add_r by lia.
      transitivity ((a ^ (- e) * zn_inv N a ^ (- e)) * a ^ (e + n)); [unfold eqm; f_equal; ring|].
      rewrite (pow_inv_cancel a _ (- e) Hi') by lia. unfold eqm; f_equal; ring.
  Qed.

  Lemma cancel_pow a ai x y n : isinv a ai -> 0 <= n -> x * a ^ n == y * a ^ n -> x == y.
  Proof.
    intros Hi Hn E.
    transitivity (x * (a ^ n * ai ^ n)); [rewrite (pow_inv_cancel a ai n Hi Hn); unfold eqm; f_equal; ring|].
    transitivity ((x * a ^ n) * ai ^ n); [unfold eqm; f_equal; ring|]. rewrite E.
    transitivity (y * (a ^ n * ai ^ n)); [unfold eqm; f_equal; ring|].
    rewrite (pow_inv_cancel a ai n Hi Hn). unfold eqm; f_equal; ring.
  Qed.

  Lemma expi_char a ai e n x : isinv a ai -> 0 <= n -> 0 <= e + n ->
    x * a ^ n == a ^ (e + n) -> x == zn_expi N a e.
  Proof.
    intros Hi Hn Hen E. apply (cancel_pow a ai _ _ n Hi Hn). rewrite E. symmetry. apply (expi_key a ai); assumption.
  Qed.

  Lemma expi_add a ai e1 e2 : isinv a ai ->
    zn_expi N a e1 * zn_expi N a e2 == zn_expi N a (e1 + e2).
  Proof.
    intros Hi. apply (expi_char a ai (e1 + e2) (Z.abs e1 + Z.abs e2)); [exact Hi|lia|lia|].
    rewrite Z.pow_add_r by lia.
    transitivity ((zn_expi N a e1 * a ^ Z.abs e1) * (zn_expi N a e2 * a ^ Z.abs e2)); [unfold eqm; f_equal; ring|].
    rewrite (expi_key a ai e1), (expi_key a ai e2) by (assumption || lia).
    rewrite <- Z.pow_add_r by lia. unfold eqm; f_equal; f_equal; ring.
  Qed.

  Lemma expi_0 a : zn_expi N a 0 = 1.
  Proof. rewrite expi_nonneg by lia. cbn. apply Z.mod_1_l. exact HN. Qed.

  Lemma expi_isinv a ai e : isinv a ai -> isinv (zn_expi N a e) (zn_expi N a (- e)).
  Proof.
    intros Hi. unfold isinv. rewrite (expi_add a ai) by exact Hi.
    replace (e + - e) with 0 by ring. rewrite expi_0. reflexivity.
  Qed.

  (* power of a power, signed exponents *)
  Lemma expi_mul_nonneg a ai e k : isinv a ai -> 0 <= k ->
    zn_expi N (zn_expi N a e) k == zn_expi N a (e * k).
  Proof.
    intros Hi Hk. rewrite (expi_nonneg _ k Hk), (Zmod_eqm N).
    apply (expi_char a ai (e * k) (Z.abs e * k)); [exact Hi|nia|nia|].
    rewrite Z.pow_mul_r by lia. rewrite <- Z.pow_mul_l.
    rewrite (expi_key a ai e (Z.abs e)) by (assumption || lia).
    rewrite <- Z.pow_mul_r by lia. unfold eqm; f_equal; f_equal; ring.
  Qed.

  Lemma expi_mul a ai e k : isinv a ai -> zn_expi N (zn_expi N a e) k == zn_expi N a (e * k).
  Proof.
    intros Hi. destruct (Z_le_gt_dec 0 k) as [Hk|Hk]; [apply (expi_mul_nonneg a ai); assumption|].
    rewrite (expi_neg _ k) by lia. rewrite (Zmod_eqm N).
    destruct (zn_inv_spec _ _ (expi_isinv a ai e Hi)) as [_ Hz]. rewrite Hz.
    pose proof (expi_range a (- e)) as Hr. rewrite Z.mod_small by exact Hr.
    pose proof (expi_mul_nonneg a ai (- e) (- k) Hi ltac:(lia)) as E.
    rewrite (expi_nonneg _ (- k)) in E by lia. rewrite (Zmod_eqm N) in E. rewrite E.
    replace (- e * - k) with (e * k) by ring. reflexivity.
  Qed.

  (* product of bases *)
  Lemma expi_mul_base a ai b bi e : isinv a ai -> isinv b bi ->
    zn_expi N (a * b) e == zn_expi N a e * zn_expi N b e.
  Proof.
    intros Ha Hb.
    assert (Hab : isinv (a * b) (ai * bi)).
    { unfold isinv in *. transitivity ((a * ai) * (b * bi)); [unfold eqm; f_equal; ring|]. rewrite Ha, Hb. reflexivity. }
    symmetry. apply (expi_char (a * b) (ai * bi) e (Z.abs e)); [exact Hab|lia|lia|].
    rewrite !Z.pow_mul_l.
    transitivity ((zn_expi N a e * a ^ Z.abs e) * (zn_expi N b e * b ^ Z.abs e)); [unfold eqm; f_equal; ring|].
    rewrite (expi_key a ai e), (expi_key b bi e) by (assumption || lia). reflexivity.
  Qed.
End ZN.

(* ---------- intcom ---------- *)
Section IntCom.
  Variable k : int_key.
  Variable lambda ti : Z.
  Let N := ik_n k.
  Let s := ik_s k.
  Let t := ik_t k.
  Hypothesis HN : 1 < N.
  Hypothesis Ht : isinv N t ti.                 (* t is a unit of Z_N *)
  Hypothesis Hl : 0 <= lambda.
  Hypothesis Hs : s = t ^ lambda mod N.         (* s = t^λ, as the trapdoor key derives it *)
  Local Notation "a == b" := (eqm N a b) (at level 70).

  Lemma eqm_range_eq x y : 0 <= y < N -> x == y -> x mod N = y.
  Proof. intros Hy E. unfold eqm in E. rewrite E. apply Z.mod_small. exact Hy. Qed.

  Lemma s_is_expi : s = zn_expi N t lambda.
  Proof. rewrite Hs. symmetry. apply expi_nonneg; assumption. Qed.

  Lemma s_pow m : zn_expi N s m == zn_expi N t (lambda * m).
  Proof. rewrite s_is_expi. apply (expi_mul N HN t ti). exact Ht. Qed.

  (* the commitment is t to the power λ·m + r *)
  Lemma int_commit_exponent m r : int_commit k m r = zn_expi N t (lambda * m + r).
  Proof.
    unfold int_commit. fold N s t. apply eqm_range_eq; [apply expi_range; exact HN|].
    rewrite s_pow. apply (expi_add N HN t ti). exact Ht.
  Qed.

  Lemma int_scheme_laws : hlaws (int_scheme k).
  Proof.
    constructor; cbn [int_scheme hs_commit hs_mop hs_minv hs_mscal hs_wop hs_winv hs_wscal hs_cop hs_cinv hs_cscal hs_rer hs_shift]; intros.
    - unfold int_commitment_op. fold N. rewrite !int_commit_exponent.
      apply eqm_range_eq; [apply expi_range; exact HN|].
      rewrite (expi_add N HN t ti) by exact Ht. replace (lambda * m1 + r1 + (lambda * m2 + r2)) with (lambda * (m1 + m2) + (r1 + r2)) by ring. reflexivity.
    - unfold int_commitment_op_inv. fold N. rewrite !int_commit_exponent.
      destruct (zn_inv_spec N HN _ _ (expi_isinv N HN t ti (lambda * m + r) Ht)) as [_ E]. rewrite E.
      replace (lambda * - m + - r) with (- (lambda * m + r)) by ring.
      apply Z.mod_small. apply expi_range; exact HN.
    - unfold int_commitment_scalar_op. fold N. rewrite !int_commit_exponent.
      pose proof (expi_mul N HN t ti (lambda * m + r) s0 Ht) as E.
      apply (eqm_range_eq _ (zn_expi N t ((lambda * m + r) * s0))) in E; [|apply expi_range; exact HN].
      rewrite Z.mod_small in E by (apply expi_range; exact HN). rewrite E. f_equal. ring.
    - unfold int_rerandomise. fold N t. rewrite !int_commit_exponent.
      apply eqm_range_eq; [apply expi_range; exact HN|].
      rewrite (expi_add N HN t ti) by exact Ht. replace (lambda * m + r + s0) with (lambda * m + (r + s0)) by ring. reflexivity.
    - unfold int_shift. fold N s. rewrite !int_commit_exponent.
      apply eqm_range_eq; [apply expi_range; exact HN|].
      rewrite s_pow. rewrite (expi_add N HN t ti) by exact Ht.
      replace (lambda * m + r + lambda * d) with (lambda * (m + d) + r) by ring. reflexivity.
  Qed.

  Theorem int_program_opens ops :
    Forall (fun g => let '(m, r, c) := g in int_open k c m r = true) (hrun (int_scheme k) ops).
  Proof.
    pose proof (hrun_tracked (int_scheme k) int_scheme_laws ops) as Hr.
    eapply Forall_impl; [|exact Hr]. intros [[m r] c] E. cbn in E. subst c. apply int_open_complete.
  Qed.

  (* --- the order of t --- *)
  Variable ord : Z.
  Hypothesis Hord : 0 < ord.
  Hypothesis Htord : t ^ ord mod N = 1.

  Lemma expi_one j : zn_expi N 1 j = 1.
  Proof.
    destruct (Z_le_gt_dec 0 j).
    - rewrite expi_nonneg by lia. rewrite Z.pow_1_l by lia. apply Z.mod_1_l. exact HN.
    - rewrite expi_neg by lia.
      assert (H1 : isinv N 1 1) by (unfold isinv; reflexivity).
      destruct (zn_inv_spec N HN 1 1 H1) as [_ E]. rewrite E, Z.mod_1_l by exact HN.
      rewrite Z.pow_1_l by lia. apply Z.mod_1_l. exact HN.
  Qed.

  Lemma expi_ord_multiple j : zn_expi N t (ord * j) = 1.
  Proof.
    pose proof (expi_mul N HN t ti ord j Ht) as E.
    rewrite (expi_nonneg N HN t ord) in E by lia. rewrite Htord, expi_one in E.
    symmetry in E. apply eqm_range_eq in E; [|lia].
    pose proof (expi_range N HN t (ord * j)). rewrite Z.mod_small in E by assumption. exact E.
  Qed.

  Lemma expi_mod_ord e : zn_expi N t e = zn_expi N t (e mod ord).
  Proof.
    pose proof (Z.div_mod e ord ltac:(lia)) as Hd.
    pose proof (expi_add N HN t ti (ord * (e / ord)) (e mod ord) Ht) as E.
    rewrite <- Hd in E. rewrite expi_ord_multiple in E. rewrite Z.mul_1_l in E.
    symmetry in E. apply eqm_range_eq in E; [|apply expi_range; exact HN].
    rewrite Z.mod_small in E by (apply expi_range; exact HN). exact E.
  Qed.

  (* two openings give the same commitment whenever λ·m + r agree mod ord(t) *)
  Theorem int_openings_coincide_if m r m' r' :
    (lambda * m + r) mod ord = (lambda * m' + r') mod ord -> int_commit k m r = int_commit k m' r'.
  Proof. intros E. rewrite !int_commit_exponent. rewrite expi_mod_ord, E, <- expi_mod_ord. reflexivity. Qed.

  (* Equivocate's witness opens the same commitment to the new message *)
  Theorem int_equivocate_opens m r m' r' :
    int_equivocate_ok ord lambda m r m' r' = true -> int_open k (int_commit k m r) m' r' = true.
  Proof.
    unfold int_equivocate_ok. intros Hok. apply int_open_spec. rewrite int_commit_normal.
    destruct (Z.eqb_spec m m') as [->|Hne].
    - apply Z.eqb_eq in Hok. subst r'. reflexivity.
    - rename Hok into Hc. apply Z.eqb_eq in Hc.
      apply int_openings_coincide_if.
      apply Z.mod_divide in Hc; [|lia]. destruct Hc as [j Hj].
      replace (lambda * m' + r') with (lambda * m + r + j * ord) by lia.
      symmetry. apply Z_mod_plus_full.
  Qed.

  (* --- exactness: ord is the order of t --- *)
  Hypothesis Hexact : forall e, 0 < e < ord -> t ^ e mod N <> 1.

  Lemma expi_inj_below a b : 0 <= a <= b -> b < ord -> zn_expi N t a = zn_expi N t b -> a = b.
  Proof.
    intros Hab Hb E.
    assert (Ha0 : 0 <= a) by (clear - Hab; lia). assert (Hb0 : 0 <= b) by (clear - Hab; lia).
    rewrite (expi_nonneg N HN t a Ha0), (expi_nonneg N HN t b Hb0) in E.
    destruct (Z.eq_dec a b) as [|Hne]; [assumption|exfalso].
    assert (Hba : 0 < b - a < ord) by (clear - Hab Hb Hne; lia).
    assert (Hba0 : 0 <= b - a) by (clear - Hba; lia).
    apply (Hexact (b - a) Hba).
    apply (eqm_1 N HN). symmetry.
    apply (cancel_pow N HN t ti 1 (t ^ (b - a)) a Ht Ha0).
    rewrite <- (Z.pow_add_r t (b - a) a Hba0 Ha0). replace (b - a + a) with b by ring.
    rewrite Z.mul_1_l. unfold eqm. exact E.
  Qed.

  (* the honest statement about binding: exactly the openings with λ·m + r ≡ λ·m' + r'
     modulo the order of t coincide (finding such a pair without λ is what hardness excludes) *)
  Theorem int_openings_coincide_iff m r m' r' :
    int_commit k m r = int_commit k m' r' <-> (lambda * m + r) mod ord = (lambda * m' + r') mod ord.
  Proof.
    split; [|apply int_openings_coincide_if].
    rewrite !int_commit_exponent. rewrite (expi_mod_ord (lambda * m + r)), (expi_mod_ord (lambda * m' + r')).
    pose proof (Z.mod_pos_bound (lambda * m + r) ord Hord) as Ha.
    pose proof (Z.mod_pos_bound (lambda * m' + r') ord Hord) as Hb.
    intros E. destruct (Z_le_gt_dec ((lambda * m + r) mod ord) ((lambda * m' + r') mod ord)) as [Hle|Hgt].
    - apply expi_inj_below; [clear - Ha Hle; lia|clear - Hb; lia|exact E].
    - symmetry. apply expi_inj_below; [clear - Hb Hgt; lia|clear - Ha; lia|symmetry; exact E].
  Qed.

  Theorem int_open_iff_exponent m r m' r' :
    int_open k (int_commit k m r) m' r' = true <-> (lambda * m' + r') mod ord = (lambda * m + r) mod ord.
  Proof.
    rewrite int_open_spec, int_commit_normal. rewrite int_openings_coincide_iff. split; intros E; symmetry; exact E.
  Qed.
End IntCom.

(* Equivocate never refuses on a valid trapdoor key over a prime-order group *)
Theorem ped_equivocate_total q t m r m' :
  prime q -> tk_lambda t mod q <> 0 -> exists r', ped_equivocate q t m r m' = Some r'.
Proof.
  intros Hp Hl. pose proof (prime_ge_2 q Hp) as Hq.
  assert (Hrel : rel_prime (tk_lambda t) q).
  { apply rel_prime_sym. apply prime_rel_prime; [exact Hp|]. intros Hd. apply Hl. apply Z.mod_divide; [lia|exact Hd]. }
  destruct (rel_prime_bezout _ _ Hrel) as [u v Huv].
  destruct (try_inv_complete q (tk_lambda t) u ltac:(lia)) as [x Hx].
  { rewrite <- (Z.mod_1_l q) by lia. rewrite <- Huv.
    rewrite Z_mod_plus_full. f_equal. ring. }
  unfold ped_equivocate. rewrite Hx. eexists; reflexivity.
Qed.

(* --- a changed key: with q prime, a commitment made under (g, h) opens under a key that
       differs in one generator only in the degenerate cases r = 0 (h changed) / m = 0 (g changed) --- *)

Lemma prime_mul_mod_0 q a b : prime q -> (a * b) mod q = 0 -> a mod q = 0 \/ b mod q = 0.
Proof.
  intros Hp H. pose proof (prime_ge_2 q Hp) as Hq.
  apply Z.mod_divide in H; [|lia]. apply prime_mult in H; [|exact Hp].
  destruct H as [H|H]; [left|right]; apply Z.mod_divide; (lia || exact H).
Qed.

Lemma scale_diff_zero q r a b : prime q -> (r * a) mod q = (r * b) mod q -> r mod q = 0 \/ a mod q = b mod q.
Proof.
  intros Hp E. pose proof (prime_ge_2 q Hp) as Hq.
  assert (E0 : (r * (a - b)) mod q = 0).
  { transitivity (((r * a) mod q - (r * b) mod q) mod q); [zmod q|]. rewrite E, Z.sub_diag. apply Z.mod_0_l. lia. }
  destruct (prime_mul_mod_0 q r (a - b) Hp E0) as [H|H]; [left; exact H|right].
  transitivity (((a - b) mod q + b) mod q); [zmod q|]. rewrite H. f_equal.
Qed.

Lemma add_cancel_mod q x a b : 0 < q -> (x + a) mod q = (x + b) mod q -> a mod q = b mod q.
Proof.
  intros Hq E. transitivity (((x + a) mod q - x) mod q); [zmod q|]. rewrite E. zmod q.
Qed.

Theorem ped_changed_h_fails q g h h' m r :
  prime q -> lf_norm q h' <> lf_norm q h -> r mod q <> 0 ->
  ped_open q {| pk_g := g; pk_h := h' |} (ped_commit q {| pk_g := g; pk_h := h |} m r) m r = false.
Proof.
  intros Hp Hne Hr. pose proof (prime_ge_2 q Hp) as Hq.
  apply not_true_is_false. intros Ho. apply ped_open_spec in Ho. rewrite ped_commit_normal in Ho.
  unfold ped_commit in Ho. cbn [pk_g pk_h] in Ho. destruct g as [g0 g1], h as [h0 h1], h' as [k0 k1].
  revert Ho. sc_unfold. intros Ho. injection Ho as E0 E1.
  apply Hne. unfold lf_norm; cbn [fst snd].
  assert (A0 : (r * k0) mod q = (r * h0) mod q).
  { apply (add_cancel_mod q (m * g0)); [lia|]. symmetry.
    transitivity ((m * g0 mod q + r * h0 mod q) mod q); [zmod q|]. rewrite E0. zmod q. }
  assert (A1 : (r * k1) mod q = (r * h1) mod q).
  { apply (add_cancel_mod q (m * g1)); [lia|]. symmetry.
    transitivity ((m * g1 mod q + r * h1 mod q) mod q); [zmod q|]. rewrite E1. zmod q. }
  destruct (scale_diff_zero q r k0 h0 Hp A0) as [?|B0]; [contradiction|].
  destruct (scale_diff_zero q r k1 h1 Hp A1) as [?|B1]; [contradiction|].
  rewrite B0, B1. reflexivity.
Qed.

Theorem ped_changed_g_fails q g g' h m r :
  prime q -> lf_norm q g' <> lf_norm q g -> m mod q <> 0 ->
  ped_open q {| pk_g := g'; pk_h := h |} (ped_commit q {| pk_g := g; pk_h := h |} m r) m r = false.
Proof.
  intros Hp Hne Hm. pose proof (prime_ge_2 q Hp) as Hq.
  apply not_true_is_false. intros Ho. apply ped_open_spec in Ho. rewrite ped_commit_normal in Ho.
  unfold ped_commit in Ho. cbn [pk_g pk_h] in Ho. destruct g as [g0 g1], h as [h0 h1], g' as [k0 k1].
  revert Ho. sc_unfold. intros Ho. injection Ho as E0 E1.
  apply Hne. unfold lf_norm; cbn [fst snd].
  assert (A0 : (m * k0) mod q = (m * g0) mod q).
  { apply (add_cancel_mod q (r * h0)); [lia|]. symmetry.
    transitivity ((m * g0 mod q + r * h0 mod q) mod q); [zmod q|]. rewrite E0. zmod q. }
  assert (A1 : (m * k1) mod q = (m * g1) mod q).
  { apply (add_cancel_mod q (r * h1)); [lia|]. symmetry.
    transitivity ((m * g1 mod q + r * h1 mod q) mod q); [zmod q|]. rewrite E1. zmod q. }
  destruct (scale_diff_zero q m k0 g0 Hp A0) as [?|B0]; [contradiction|].
  destruct (scale_diff_zero q m k1 g1 Hp A1) as [?|B1]; [contradiction|].
  rewrite B0, B1. reflexivity.
Qed.

(* ElGamal: a commitment made under x opens under another key only for the zero nonce *)
Theorem eg_changed_key_fails q x x' mu r :
  prime q -> x' mod q <> x mod q -> r mod q <> 0 ->
  eg_open q x' (eg_enc q x mu r) mu r = false.
Proof.
  intros Hp Hne Hr. pose proof (prime_ge_2 q Hp) as Hq.
  apply not_true_is_false. intros Ho. unfold eg_open, indcpa_open in Ho. apply lf_eqb_spec in Ho.
  revert Ho. unfold eg_enc. sc_unfold. intros Ho. injection Ho as _ E.
  rewrite Z.mod_mod in E by lia.
  assert (A : (r * x') mod q = (r * x) mod q).
  { apply (add_cancel_mod q mu); [lia|]. transitivity ((mu + r * x' mod q) mod q); [zmod q|]. rewrite E. zmod q. }
  destruct (scale_diff_zero q r x' x Hp A); contradiction.
Qed.

(* --- Equal on keys is equality of the components --- *)
Theorem ped_key_eq_iff q a b :
  ped_key_eqb q a b = true <->
  lf_norm q (pk_g a) = lf_norm q (pk_g b) /\ lf_norm q (pk_h a) = lf_norm q (pk_h b).
Proof. unfold ped_key_eqb. rewrite andb_true_iff, !lf_eqb_spec. tauto. Qed.

Theorem ped_tkey_eq_iff q a b :
  ped_tkey_eqb q a b = true <->
  lf_norm q (tk_g a) = lf_norm q (tk_g b) /\ tk_lambda a mod q = tk_lambda b mod q.
Proof. unfold ped_tkey_eqb. rewrite andb_true_iff, lf_eqb_spec, Z.eqb_eq. tauto. Qed.

Theorem int_key_eq_iff a b : int_key_eqb a b = true <-> a = b.
Proof.
  destruct a as [n1 s1 t1], b as [n2 s2 t2]. unfold int_key_eqb. cbn [ik_n ik_s ik_t].
  rewrite !andb_true_iff, !Z.eqb_eq. split; [intros [[-> ->] ->]; reflexivity|intros E; injection E; auto].
Qed.

Theorem int_tkey_eq_iff a b : int_tkey_eqb a b = true <-> a = b.
Proof.
  destruct a as [n1 t1 l1 o1], b as [n2 t2 l2 o2]. unfold int_tkey_eqb. cbn [itk_n itk_t itk_lambda itk_ord].
  rewrite !andb_true_iff, !Z.eqb_eq. split; [intros [[[-> ->] ->] ->]; reflexivity|intros E; injection E; auto].
Qed.

(* different keys (one generator changed) are never Equal, and for canonical keys
   Equal is Leibniz equality *)
Corollary ped_key_eq_canonical q a b :
  lf_norm q (pk_g a) = pk_g a -> lf_norm q (pk_h a) = pk_h a ->
  lf_norm q (pk_g b) = pk_g b -> lf_norm q (pk_h b) = pk_h b ->
  (ped_key_eqb q a b = true <-> a = b).
Proof.
  intros A1 A2 B1 B2. rewrite ped_key_eq_iff, A1, A2, B1, B2. destruct a as [ga ha], b as [gb hb]; cbn [pk_g pk_h].
  split; [intros [-> ->]; reflexivity|intros E; injection E; auto].
Qed.

(* ===================================================================== *)
(* keys extracted from transcripts                                        *)
(* ===================================================================== *)

Local Open Scope N_scope.

Section ExtractProofs.
  Variable Key : Type.
  Variable XOF : xof_call -> bytes.
  Variable of_bytes : bytes -> Key.
  (* idealisations: the XOF is injective in (customisation, input, length); the map
     from its output to a key is injective (identity for hashcom) *)
  Hypothesis XOF_inj : forall c1 c2, XOF c1 = XOF c2 -> c1 = c2.
  Hypothesis of_bytes_inj : forall b1 b2, of_bytes b1 = of_bytes b2 -> b1 = b2.

  Theorem extracted_keys_equal_iff_transcripts_equal n name1 h1 l1 name2 h2 l2 k1 k2 :
    Forall valid_op h1 -> Forall valid_op h2 -> len l1 < 2^64 -> len l2 < 2^64 -> 0 < n < 2^64 ->
    extract_key Key XOF of_bytes n name1 h1 l1 = Some k1 ->
    extract_key Key XOF of_bytes n name2 h2 l2 = Some k2 ->
    (k1 = k2 <-> name1 = name2 /\ performed_ops h1 = performed_ops h2 /\ l1 = l2).
  Proof.
    intros V1 V2 L1 L2 Hn E1 E2. unfold extract_key in E1, E2.
    destruct (label_empty l1); [discriminate|]. destruct (label_empty l2); [discriminate|].
    unfold extract_call in E1, E2.
    pose proof (outputs_equal_iff name1 h1 l1 n name2 h2 l2 n V1 V2 L1 Hn L2 Hn) as Hiff.
    destruct (snd (step (fst (run (new_transcript name1) h1)) (Ext l1 n))) as [c1|]; [|discriminate].
    destruct (snd (step (fst (run (new_transcript name2) h2)) (Ext l2 n))) as [c2|]; [|discriminate].
    cbn [option_map] in E1, E2. injection E1 as <-. injection E2 as <-.
    split.
    - intros E. apply of_bytes_inj, XOF_inj in E. subst c2.
      destruct Hiff as [Hf _]. destruct (Hf eq_refl) as (A & B & D & _). tauto.
    - intros (A & B & D). destruct Hiff as [_ Hb].
      assert (E : Some c1 = Some c2) by (apply Hb; tauto). injection E as ->. reflexivity.
  Qed.

  (* the empty label is refused *)
  Theorem extract_key_refuses_empty_label n name h : extract_key Key XOF of_bytes n name h [] = None.
  Proof. reflexivity. Qed.
End ExtractProofs.
