(* Deviate_proofs.v — lemmas about coq/model/Deviate.v (property C04). *)
From Coq Require Import List NArith ZArith Bool Ring Lia.
Import ListNotations.
Require Import V.model.Deviate.

(* ------------------------------------------------------------------------------------ *)
(* The skeleton: blame soundness, detection, check-then-output                           *)
(* ------------------------------------------------------------------------------------ *)
Section SkeletonProofs.
  Variables St Dos Out : Type.
  Implicit Types (cs : list (check St Dos)) (st : St) (inbox : list (N * Dos)).

  Lemma scan_senders_some : forall cs st inbox id,
    scan_senders cs st inbox = Some id ->
    exists m c, In (id, m) inbox /\ In c cs /\ c_pred c st id m = false.
  Proof.
    intros cs st inbox; induction inbox as [|[i m] t IH]; simpl; intros id H; [discriminate|].
    destruct (existsb (fails st i m) cs) eqn:E.
    - inversion H; subst. apply existsb_exists in E. destruct E as [c [Hc Hf]].
      unfold fails in Hf. apply negb_true_iff in Hf. exists m, c. auto.
    - destruct (IH _ H) as [m' [c [H1 [H2 H3]]]]. exists m', c. auto.
  Qed.

  Lemma scan_senders_none : forall cs st inbox,
    scan_senders cs st inbox = None ->
    forall id m c, In (id, m) inbox -> In c cs -> c_pred c st id m = true.
  Proof.
    intros cs st inbox; induction inbox as [|[i m] t IH]; simpl; intros H id m' c Hin Hc; [contradiction|].
    destruct (existsb (fails st i m) cs) eqn:E; [discriminate|].
    destruct Hin as [Heq|Hin].
    - inversion Heq; subst.
      destruct (c_pred c st id m') eqn:P; [reflexivity|].
      assert (existsb (fails st id m') cs = true) as X.
      { apply existsb_exists. exists c. split; [assumption|]. unfold fails. rewrite P. reflexivity. }
      rewrite X in E. discriminate.
    - eapply IH; eauto.
  Qed.

  Lemma of_round_in : forall r cs c, In c (of_round r cs) <-> In c cs /\ c_round c = r.
  Proof.
    intros r cs c. unfold of_round. rewrite filter_In. rewrite Nat.eqb_eq. tauto.
  Qed.

  (* blame_sound: every blamed ID is the sender of a message on which a check of that round failed *)
  Lemma run_rounds_reject : forall rs cs st inbox r id,
    run_rounds rs cs st inbox = Reject r id ->
    In r rs /\ exists m c, In (id, m) inbox /\ In c cs /\ c_round c = r /\ c_pred c st id m = false.
  Proof.
    intros rs cs st inbox; induction rs as [|r0 t IH]; simpl; intros r id H; [discriminate|].
    destruct (scan_senders (of_round r0 cs) st inbox) eqn:E.
    - inversion H; subst. split; [left; reflexivity|].
      destruct (scan_senders_some _ _ _ _ E) as [m [c [H1 [H2 H3]]]].
      apply of_round_in in H2. destruct H2 as [H2 H4]. exists m, c. auto.
    - destruct (IH _ _ H) as [H1 H2]. split; [right; assumption|assumption].
  Qed.

  Lemma run_rounds_accept : forall rs cs st inbox,
    run_rounds rs cs st inbox = Accept ->
    forall id m c, In (id, m) inbox -> In c cs -> In (c_round c) rs -> c_pred c st id m = true.
  Proof.
    intros rs cs st inbox; induction rs as [|r0 t IH]; simpl; intros H id m c Hin Hc Hr; [contradiction|].
    destruct (scan_senders (of_round r0 cs) st inbox) eqn:E; [discriminate|].
    destruct Hr as [Hr|Hr].
    - eapply scan_senders_none; eauto. apply of_round_in. auto.
    - eapply IH; eauto.
  Qed.

  (* with one deviating sender d (everybody else's messages pass every check) only d is blamed *)
  Lemma blame_only_deviator : forall rs cs st inbox d r id,
    (forall i m c, In (i, m) inbox -> i <> d -> In c cs -> c_pred c st i m = true) ->
    run_rounds rs cs st inbox = Reject r id -> id = d.
  Proof.
    intros rs cs st inbox d r id Hon H.
    destruct (run_rounds_reject _ _ _ _ _ _ H) as [_ [m [c [H1 [H2 [_ H3]]]]]].
    destruct (N.eq_dec id d) as [e|ne]; [assumption|].
    rewrite (Hon _ _ _ H1 ne H2) in H3. discriminate.
  Qed.

  (* a failing check of a round that is run is noticed *)
  Lemma failing_check_detected : forall rs cs st inbox d m c,
    In (d, m) inbox -> In c cs -> In (c_round c) rs -> c_pred c st d m = false ->
    run_rounds rs cs st inbox <> Accept.
  Proof.
    intros rs cs st inbox d m c H1 H2 H3 H4 Hacc.
    rewrite (run_rounds_accept _ _ _ _ Hacc _ _ _ H1 H2 H3) in H4. discriminate.
  Qed.

  Lemma bound_detected : forall rs cs st inbox d m,
    (forall c, In c cs -> In (c_round c) rs) -> In (d, m) inbox ->
    (exists c, In c cs /\ c_pred c st d m = false) -> run_rounds rs cs st inbox <> Accept.
  Proof.
    intros rs cs st inbox d m Hr Hin [c [Hc Hf]]. eapply failing_check_detected; eauto.
  Qed.

  Lemma party_output : forall rs cs (fin : St -> list (N * Dos) -> option Out) st inbox o,
    party rs cs fin st inbox = Output o ->
    run_rounds rs cs st inbox = Accept /\ fin st inbox = Some o.
  Proof.
    intros rs cs fin st inbox o. unfold party.
    destruct (run_rounds rs cs st inbox); [|discriminate].
    destruct (fin st inbox); [|discriminate]. intro H; inversion H; auto.
  Qed.

  Lemma party_blame : forall rs cs (fin : St -> list (N * Dos) -> option Out) st inbox r id,
    party rs cs fin st inbox = Blame r id ->
    In r rs /\ exists m c, In (id, m) inbox /\ In c cs /\ c_round c = r /\ c_pred c st id m = false.
  Proof.
    intros rs cs fin st inbox r id. unfold party.
    destruct (run_rounds rs cs st inbox) eqn:E.
    - destruct (fin st inbox); discriminate.
    - intro H; inversion H; subst. eapply run_rounds_reject; eauto.
  Qed.
End SkeletonProofs.

(* ------------------------------------------------------------------------------------ *)
(* Algebra                                                                                *)
(* ------------------------------------------------------------------------------------ *)
Section AlgebraProofs.
  Variable A : alg.
  Hypothesis Rth : ring_theory (a0 A) (a1 A) (aadd A) (amul A) (asub A) (aopp A) eq.
  Hypothesis eqb_spec : forall a b : car A, aeqb A a b = true <-> a = b.
  Hypothesis integral : forall a b : car A, amul A a b = a0 A -> a = a0 A \/ b = a0 A.
  Add Ring Rr : Rth.

  Notation R := (car A).
  Notation r0 := (a0 A).
  Notation "a + b" := (aadd A a b).
  Notation "a * b" := (amul A a b).
  Notation "a - b" := (asub A a b).
  Notation term := (term A).
  Notation term_eqb := (term_eqb A).

  Lemma reqb_false : forall a b : R, a <> b -> aeqb A a b = false.
  Proof.
    intros a b H. destruct (aeqb A a b) eqn:E; [|reflexivity]. apply eqb_spec in E. contradiction.
  Qed.
  Lemma reqb_refl : forall a : R, aeqb A a a = true.
  Proof. intro a. apply eqb_spec. reflexivity. Qed.

  Lemma term_eqb_spec : forall a b : term, term_eqb a b = true <-> a = b.
  Proof.
    induction a as [n|x| |a1 IH1 a2 IH2|t a IH]; destruct b as [m|y| |b1 b2|u b]; simpl;
      try (split; [discriminate|intro H; inversion H]).
    - rewrite N.eqb_eq. split; intro H; [subst|inversion H]; reflexivity.
    - rewrite eqb_spec. split; intro H; [subst|inversion H]; reflexivity.
    - split; reflexivity.
    - rewrite andb_true_iff, IH1, IH2. split; [intros [H1 H2]; subst; reflexivity|intro H; inversion H; auto].
    - rewrite andb_true_iff, N.eqb_eq, IH. split; [intros [H1 H2]; subst; reflexivity|intro H; inversion H; auto].
  Qed.
  Lemma term_eqb_false : forall a b : term, a <> b -> term_eqb a b = false.
  Proof.
    intros a b H. destruct (term_eqb a b) eqn:E; [|reflexivity]. apply term_eqb_spec in E. contradiction.
  Qed.

  (* a check [term_eqb x t] that held for x fails for every other value *)
  Lemma eqb_left_change : forall x x' t : term, term_eqb x t = true -> x' <> x -> term_eqb x' t = false.
  Proof.
    intros x x' t H Hne. apply term_eqb_spec in H. subst. apply term_eqb_false. assumption.
  Qed.
  Lemma eqb_right_change : forall x t t' : term, term_eqb x t = true -> t' <> t -> term_eqb x t' = false.
  Proof.
    intros x t t' H Hne. apply term_eqb_spec in H. subst. apply term_eqb_false. congruence.
  Qed.

  Lemma com_inj : forall k m w k' m' w', com A k m w = com A k' m' w' -> k = k' /\ m = m' /\ w = w'.
  Proof. unfold com, tlist; simpl. intros. inversion H. auto. Qed.
  Lemma prf_inj : forall kind s p x kind' s' p' x',
    prf A kind s p x = prf A kind' s' p' x' -> kind = kind' /\ s = s' /\ p = p' /\ x = x'.
  Proof. unfold prf, tlist; simpl. intros. inversion H. auto. Qed.

  Lemma tlist_map_inj : forall (X : Type) (f : X -> term), (forall x y, f x = f y -> x = y) ->
    forall l l', tlist A (map f l) = tlist A (map f l') -> l = l'.
  Proof.
    intros X f Hf. induction l as [|x l IH]; destruct l' as [|y l']; simpl; intro H; try discriminate; [reflexivity|].
    inversion H. f_equal; auto.
  Qed.
  Lemma tscalars_inj : forall l l', tscalars A l = tscalars A l' -> l = l'.
  Proof. unfold tscalars. apply tlist_map_inj. intros x y H. inversion H. reflexivity. Qed.
  Lemma tpairs_inj : forall l l', tpairs A l = tpairs A l' -> l = l'.
  Proof.
    unfold tpairs. apply tlist_map_inj. intros [a b] [c d] H. simpl in H. inversion H. reflexivity.
  Qed.

  (* ---- vectors ---- *)
  Lemma set_nth_length : forall (X : Type) k (x : X) l, length (set_nth k x l) = length l.
  Proof. induction k; destruct l; simpl; auto. Qed.
  Lemma set_nth_neq : forall (X : Type) k (x d : X) l, (k < length l)%nat -> x <> nth k l d -> set_nth k x l <> l.
  Proof.
    induction k; destruct l; simpl; intros Hk Hx; try lia.
    - intro H. inversion H. contradiction.
    - intro H. inversion H. eapply IHk; eauto. lia.
  Qed.

  Lemma dot_set : forall k v (M V : list R), (k < length M)%nat -> (k < length V)%nat ->
    dot A M (set_nth k v V) = dot A M V + nth k M r0 * (v - nth k V r0).
  Proof.
    induction k; destruct M as [|a M]; destruct V as [|x V]; simpl; intros; try lia.
    - ring.
    - rewrite IHk by lia. ring.
  Qed.

  Lemma dot_vadd : forall (M V W : list R), length V = length W ->
    dot A M (vadd A V W) = dot A M V + dot A M W.
  Proof.
    induction M as [|a M IH]; intros V W H; simpl.
    - destruct (vadd A V W); ring.
    - destruct V as [|x V]; destruct W as [|y W]; simpl in *; try discriminate.
      + ring.
      + rewrite IH by lia. ring.
  Qed.
  Lemma vadd_length : forall (V W : list R), length V = length W -> length (vadd A V W) = length V.
  Proof. induction V; destruct W; simpl; intros; try discriminate; auto. Qed.
  Lemma vadd_nth0 : forall (V W : list R), length V = length W ->
    nth 0 (vadd A V W) r0 = nth 0 V r0 + nth 0 W r0.
  Proof. destruct V; destruct W; simpl; intros; try discriminate; ring. Qed.

  (* the linear check "s = M.V" that held for V fails when one used coordinate changes *)
  Lemma dot_change : forall s k v (M V : list R),
    s = dot A M V -> (k < length M)%nat -> (k < length V)%nat ->
    nth k M r0 <> r0 -> v <> nth k V r0 -> s <> dot A M (set_nth k v V).
  Proof.
    intros s k v M V Hs Hm Hv Hc Hne H.
    rewrite dot_set in H by assumption. rewrite <- Hs in H.
    assert (nth k M r0 * (v - nth k V r0) = r0) as Z.
    { transitivity ((s + nth k M r0 * (v - nth k V r0)) - s); [ring|]. rewrite <- H. ring. }
    destruct (integral _ _ Z) as [Z1|Z1]; [contradiction|].
    apply Hne. transitivity ((v - nth k V r0) + nth k V r0); [ring|]. rewrite Z1. ring.
  Qed.

  (* ---------------------------------------------------------------------------------- *)
  (* Session                                                                              *)
  (* ---------------------------------------------------------------------------------- *)
  Lemma session_bound : forall f, session_class f = Bound ->
    forall st id m v, all_pass (session_checks A) st id m -> v <> sget A f m ->
    exists c, In c (session_checks A) /\ c_pred c st id (sset A f v m) = false.
  Proof.
    intros f Hc st id m v Hall Hne.
    assert (H3 := Hall _ (or_introl eq_refl)).
    assert (H4 := Hall _ (or_intror (or_introl eq_refl))).
    simpl in H3, H4. unfold open in *.
    destruct f; simpl in Hc; try discriminate; simpl in Hne.
    - (* CommonCommitment *) eexists; split; [left; reflexivity|]. simpl. unfold open. eapply eqb_left_change; eauto.
    - (* CommonContribution *) eexists; split; [left; reflexivity|]. simpl. unfold open.
      eapply eqb_right_change; eauto. intro E. apply com_inj in E. destruct E as [_ [E _]]. contradiction.
    - (* witness *) eexists; split; [left; reflexivity|]. simpl. unfold open.
      eapply eqb_right_change; eauto. intro E. apply com_inj in E. destruct E as [_ [_ E]]. contradiction.
    - (* pairwise commitment *) eexists; split; [right; left; reflexivity|]. simpl. unfold open. eapply eqb_left_change; eauto.
    - eexists; split; [right; left; reflexivity|]. simpl. unfold open.
      eapply eqb_right_change; eauto. intro E. apply com_inj in E. destruct E as [_ [E _]]. contradiction.
    - eexists; split; [right; left; reflexivity|]. simpl. unfold open.
      eapply eqb_right_change; eauto. intro E. apply com_inj in E. destruct E as [_ [_ E]]. contradiction.
  Qed.

  (* the sender's commitment key is a free choice: no check of the recipient reads it *)
  Lemma session_unbound : forall f, session_class f = Unbound ->
    forall st id m v c, In c (session_checks A) -> c_pred c st id (sset A f v m) = c_pred c st id m.
  Proof.
    intros f Hc st id m v c Hin. destruct f; simpl in Hc; try discriminate.
    simpl in Hin. destruct Hin as [E|[E|[]]]; subst; reflexivity.
  Qed.

  (* ---------------------------------------------------------------------------------- *)
  (* Gennaro                                                                              *)
  (* ---------------------------------------------------------------------------------- *)
  Inductive gmut := GmPvv (k : nat) (a b : R) | GmPrf1 (t : term) | GmShId (n : N) | GmShS (x : R) | GmShT (x : R)
                  | GmFvv (k : nat) (x : R) | GmPrf2 (t : term).
  Definition gmut_fld (mu : gmut) : gfld :=
    match mu with GmPvv k _ _ => GPvv k | GmPrf1 _ => GPrf1 | GmShId _ => GShId | GmShS _ => GShS
                | GmShT _ => GShT | GmFvv k _ => GFvv k | GmPrf2 _ => GPrf2 end.
  Definition gapply (mu : gmut) (m : gdos A) : gdos A :=
    match mu with
    | GmPvv k a b => mkG A (set_nth k (a, b) (g_pvv A m)) (g_prf1 A m) (g_shid A m) (g_s A m) (g_t A m) (g_fvv A m) (g_prf2 A m)
    | GmPrf1 t => mkG A (g_pvv A m) t (g_shid A m) (g_s A m) (g_t A m) (g_fvv A m) (g_prf2 A m)
    | GmShId n => mkG A (g_pvv A m) (g_prf1 A m) n (g_s A m) (g_t A m) (g_fvv A m) (g_prf2 A m)
    | GmShS x => mkG A (g_pvv A m) (g_prf1 A m) (g_shid A m) x (g_t A m) (g_fvv A m) (g_prf2 A m)
    | GmShT x => mkG A (g_pvv A m) (g_prf1 A m) (g_shid A m) (g_s A m) x (g_fvv A m) (g_prf2 A m)
    | GmFvv k x => mkG A (g_pvv A m) (g_prf1 A m) (g_shid A m) (g_s A m) (g_t A m) (set_nth k x (g_fvv A m)) (g_prf2 A m)
    | GmPrf2 t => mkG A (g_pvv A m) (g_prf1 A m) (g_shid A m) (g_s A m) (g_t A m) (g_fvv A m) t
    end.
  (* the mutation really changes the leaf (and addresses an existing vector entry) *)
  Definition gchanges (mu : gmut) (m : gdos A) : Prop :=
    match mu with
    | GmPvv k a b => (k < length (g_pvv A m))%nat /\ (a, b) <> nth k (g_pvv A m) (r0, r0)
    | GmPrf1 t => t <> g_prf1 A m
    | GmShId n => n <> g_shid A m
    | GmShS x => x <> g_s A m
    | GmShT x => x <> g_t A m
    | GmFvv k x => (k < length (g_fvv A m))%nat /\ x <> nth k (g_fvv A m) r0
    | GmPrf2 t => t <> g_prf2 A m
    end.

  Ltac nth_check Hall n :=
    let H := fresh "C" in
    assert (H := Hall (nth n (gennaro_checks A) (mkCheck 0 (fun _ _ _ => true)))
                      ltac:(simpl; tauto)); simpl in H.

  Lemma gennaro_bound : forall mu st id m,
    all_pass (gennaro_checks A) st id m -> gchanges mu m ->
    exists c, In c (gennaro_checks A) /\ c_pred c st id (gapply mu m) = false.
  Proof.
    intros mu st id m Hall Hch.
    nth_check Hall 1%nat. nth_check Hall 2%nat. nth_check Hall 3%nat. nth_check Hall 5%nat. nth_check Hall 6%nat.
    unfold nizk_verify in *.
    destruct mu; simpl in Hch.
    - (* a Pedersen vector entry: the Okamoto proof is bound to the whole vector *)
      destruct Hch as [Hk Hne].
      exists (nth 2 (gennaro_checks A) (mkCheck 0 (fun _ _ _ => true))). split; [simpl; tauto|]. simpl.
      unfold nizk_verify. eapply eqb_right_change; eauto.
      intro E. apply prf_inj in E. destruct E as [_ [_ [_ E]]]. apply tpairs_inj in E.
      eapply set_nth_neq; eauto.
    - exists (nth 2 (gennaro_checks A) (mkCheck 0 (fun _ _ _ => true))). split; [simpl; tauto|]. simpl.
      unfold nizk_verify. eapply eqb_left_change; eauto.
    - exists (nth 1 (gennaro_checks A) (mkCheck 0 (fun _ _ _ => true))). split; [simpl; tauto|]. simpl.
      apply N.eqb_eq in C. apply N.eqb_neq. congruence.
    - (* the secret share: Pedersen verification, first coordinate *)
      exists (nth 3 (gennaro_checks A) (mkCheck 0 (fun _ _ _ => true))). split; [simpl; tauto|]. simpl.
      apply andb_true_iff in C1. destruct C1 as [C1 _]. apply eqb_spec in C1.
      apply andb_false_iff. left. apply reqb_false. congruence.
    - exists (nth 3 (gennaro_checks A) (mkCheck 0 (fun _ _ _ => true))). split; [simpl; tauto|]. simpl.
      apply andb_true_iff in C1. destruct C1 as [_ C1]. apply eqb_spec in C1.
      apply andb_false_iff. right. apply reqb_false. congruence.
    - (* a Feldman vector entry: the batch Schnorr proof is bound to the whole vector *)
      destruct Hch as [Hk Hne].
      exists (nth 5 (gennaro_checks A) (mkCheck 0 (fun _ _ _ => true))). split; [simpl; tauto|]. simpl.
      unfold nizk_verify. eapply eqb_right_change; eauto.
      intro E. apply prf_inj in E. destruct E as [_ [_ [_ E]]]. apply tscalars_inj in E.
      eapply set_nth_neq; eauto.
    - exists (nth 5 (gennaro_checks A) (mkCheck 0 (fun _ _ _ => true))). split; [simpl; tauto|]. simpl.
      unfold nizk_verify. eapply eqb_left_change; eauto.
  Qed.

  (* no_bad_output (Gennaro): whatever the senders sent, if every dossier passed the Feldman
     checks then the summed share is the recipient's row applied to the summed vector *)
  Lemma gennaro_out_consistent : forall (st : gst A) inbox own_s own_v,
    own_s = dot A (g_row A st) own_v -> length own_v = g_d A st ->
    (forall id m, In (id, m) inbox -> all_pass (gennaro_checks A) st id m) ->
    fst (gennaro_out A own_s own_v inbox) = dot A (g_row A st) (snd (gennaro_out A own_s own_v inbox))
    /\ length (snd (gennaro_out A own_s own_v inbox)) = g_d A st.
  Proof.
    intros st inbox. unfold gennaro_out.
    induction inbox as [|[id m] t IH]; intros s v Hs Hl Hall; simpl.
    - auto.
    - assert (Hm := Hall id m (or_introl eq_refl)).
      assert (C4 := Hm (nth 4 (gennaro_checks A) (mkCheck 0 (fun _ _ _ => true))) ltac:(simpl; tauto)).
      assert (C6 := Hm (nth 6 (gennaro_checks A) (mkCheck 0 (fun _ _ _ => true))) ltac:(simpl; tauto)).
      simpl in C4, C6. apply Nat.eqb_eq in C4. apply eqb_spec in C6.
      apply IH.
      + simpl. rewrite dot_vadd by congruence. rewrite <- Hs, <- C6. reflexivity.
      + simpl. rewrite vadd_length by congruence. assumption.
      + intros i m' Hin. apply Hall. right. assumption.
  Qed.

  (* ---------------------------------------------------------------------------------- *)
  (* HJKY                                                                                 *)
  (* ---------------------------------------------------------------------------------- *)
  Inductive hmut := HmVv (k : nat) (x : R) | HmShId (n : N) | HmSh (x : R).
  Definition hmut_fld (mu : hmut) : hfld := match mu with HmVv k _ => HVv k | HmShId _ => HShId | HmSh _ => HSh end.
  Definition happly (mu : hmut) (m : hdos A) : hdos A :=
    match mu with
    | HmVv k x => mkH A (set_nth k x (h_vv A m)) (h_shid A m) (h_sh A m)
    | HmShId n => mkH A (h_vv A m) n (h_sh A m)
    | HmSh x => mkH A (h_vv A m) (h_shid A m) x
    end.
  (* a vector entry is bound for THIS recipient when its row uses that column (entry 0 always:
     it must be the identity) *)
  Definition hchanges (st : hst A) (mu : hmut) (m : hdos A) : Prop :=
    match mu with
    | HmVv k x => (k < length (h_vv A m))%nat /\ (k < length (h_row A st))%nat /\ x <> nth k (h_vv A m) r0
                  /\ (k = 0%nat \/ nth k (h_row A st) r0 <> r0)
    | HmShId n => n <> h_shid A m
    | HmSh x => x <> h_sh A m
    end.

  Lemma hjky_bound : forall mu st id m,
    all_pass (hjky_checks A) st id m -> hchanges st mu m ->
    exists c, In c (hjky_checks A) /\ c_pred c st id (happly mu m) = false.
  Proof.
    intros mu st id m Hall Hch.
    assert (C1 := Hall (nth 1 (hjky_checks A) (mkCheck 0 (fun _ _ _ => true))) ltac:(simpl; tauto)).
    assert (C2 := Hall (nth 2 (hjky_checks A) (mkCheck 0 (fun _ _ _ => true))) ltac:(simpl; tauto)).
    assert (C3 := Hall (nth 3 (hjky_checks A) (mkCheck 0 (fun _ _ _ => true))) ltac:(simpl; tauto)).
    simpl in C1, C2, C3. apply eqb_spec in C2. apply eqb_spec in C3.
    destruct mu; simpl in Hch.
    - destruct Hch as [Hk [Hr [Hne [Hz|Hnz]]]].
      + subst k. exists (nth 3 (hjky_checks A) (mkCheck 0 (fun _ _ _ => true))). split; [simpl; tauto|]. simpl.
        apply reqb_false. destruct (h_vv A m) as [|y V]; simpl in *; [lia|]. congruence.
      + exists (nth 2 (hjky_checks A) (mkCheck 0 (fun _ _ _ => true))). split; [simpl; tauto|]. simpl.
        apply reqb_false. eapply dot_change; eauto.
    - exists (nth 1 (hjky_checks A) (mkCheck 0 (fun _ _ _ => true))). split; [simpl; tauto|]. simpl.
      apply N.eqb_eq in C1. apply N.eqb_neq. congruence.
    - exists (nth 2 (hjky_checks A) (mkCheck 0 (fun _ _ _ => true))). split; [simpl; tauto|]. simpl.
      apply reqb_false. congruence.
  Qed.

  (* a column the recipient's row does not use is invisible to the recipient *)
  Lemma hjky_unused_column : forall k x st id m c,
    (0 < k)%nat -> (k < length (h_vv A m))%nat -> (k < length (h_row A st))%nat -> nth k (h_row A st) r0 = r0 ->
    In c (hjky_checks A) -> c_pred c st id (happly (HmVv k x) m) = c_pred c st id m.
  Proof.
    intros k x st id m c Hk Hl Hr Hz Hin. simpl in Hin.
    destruct Hin as [E|[E|[E|[E|[]]]]]; subst; simpl; try reflexivity.
    - rewrite set_nth_length. reflexivity.
    - rewrite dot_set by assumption. rewrite Hz. f_equal. ring.
    - destruct k; [lia|]. destruct (h_vv A m); simpl; reflexivity.
  Qed.

  Lemma hjky_out_consistent : forall (st : hst A) inbox own_s own_v,
    own_s = dot A (h_row A st) own_v -> length own_v = h_d A st -> nth 0 own_v r0 = r0 ->
    (forall id m, In (id, m) inbox -> all_pass (hjky_checks A) st id m) ->
    fst (hjky_out A own_s own_v inbox) = dot A (h_row A st) (snd (hjky_out A own_s own_v inbox))
    /\ nth 0 (snd (hjky_out A own_s own_v inbox)) r0 = r0.
  Proof.
    intros st inbox. unfold hjky_out.
    enough (forall s v, s = dot A (h_row A st) v -> length v = h_d A st -> nth 0 v r0 = r0 ->
            (forall id m, In (id, m) inbox -> all_pass (hjky_checks A) st id m) ->
            let r := fold_left (fun acc im => (fst acc + h_sh A (snd im), vadd A (snd acc) (h_vv A (snd im)))) inbox (s, v) in
            fst r = dot A (h_row A st) (snd r) /\ nth 0 (snd r) r0 = r0) as X.
    { intros. apply X; assumption. }
    induction inbox as [|[id m] t IH]; intros s v Hs Hl Hz Hall; simpl.
    - auto.
    - assert (Hm := Hall id m (or_introl eq_refl)).
      assert (C0 := Hm (nth 0 (hjky_checks A) (mkCheck 0 (fun _ _ _ => true))) ltac:(simpl; tauto)).
      assert (C2 := Hm (nth 2 (hjky_checks A) (mkCheck 0 (fun _ _ _ => true))) ltac:(simpl; tauto)).
      assert (C3 := Hm (nth 3 (hjky_checks A) (mkCheck 0 (fun _ _ _ => true))) ltac:(simpl; tauto)).
      simpl in C0, C2, C3. apply Nat.eqb_eq in C0. apply eqb_spec in C2. apply eqb_spec in C3.
      apply IH.
      + simpl. rewrite dot_vadd by congruence. rewrite <- Hs, <- C2. reflexivity.
      + simpl. rewrite vadd_length by congruence. assumption.
      + simpl. rewrite vadd_nth0 by congruence. rewrite Hz, C3. ring.
      + intros i m' Hin. apply Hall. right. assumption.
  Qed.

  (* ---------------------------------------------------------------------------------- *)
  (* Redistribution                                                                       *)
  (* ---------------------------------------------------------------------------------- *)
  Lemma veqb_spec : forall v w : list R, veqb A v w = true <-> v = w.
  Proof.
    induction v as [|x v IH]; destruct w as [|y w]; simpl; try (split; [discriminate|intro H; inversion H]).
    - split; reflexivity.
    - rewrite andb_true_iff, eqb_spec, IH. split; [intros [H1 H2]; subst; reflexivity|intro H; inversion H; auto].
  Qed.

  Inductive rmut := RmPrevMsp (t : term) | RmPrevVv (k : nat) (x : R) | RmZeroVv (k : nat) (x : R)
                  | RmNextVv (k : nat) (x : R) | RmNShId (n : N) | RmNSh (x : R).
  Definition rapply (mu : rmut) (m : rdos A) : rdos A :=
    match mu with
    | RmPrevMsp t => mkRd A t (r_prevvv A m) (r_zerovv A m) (r_nextvv A m) (r_nshid A m) (r_nsh A m)
    | RmPrevVv k x => mkRd A (r_prevmsp A m) (set_nth k x (r_prevvv A m)) (r_zerovv A m) (r_nextvv A m) (r_nshid A m) (r_nsh A m)
    | RmZeroVv k x => mkRd A (r_prevmsp A m) (r_prevvv A m) (set_nth k x (r_zerovv A m)) (r_nextvv A m) (r_nshid A m) (r_nsh A m)
    | RmNextVv k x => mkRd A (r_prevmsp A m) (r_prevvv A m) (r_zerovv A m) (set_nth k x (r_nextvv A m)) (r_nshid A m) (r_nsh A m)
    | RmNShId n => mkRd A (r_prevmsp A m) (r_prevvv A m) (r_zerovv A m) (r_nextvv A m) n (r_nsh A m)
    | RmNSh x => mkRd A (r_prevmsp A m) (r_prevvv A m) (r_zerovv A m) (r_nextvv A m) (r_nshid A m) x
    end.
  Definition rchanges (st : rst A) (mu : rmut) (m : rdos A) : Prop :=
    match mu with
    | RmPrevMsp t => t <> r_prevmsp A m
    | RmPrevVv k x => (k < length (r_prevvv A m))%nat /\ x <> nth k (r_prevvv A m) r0
    | RmZeroVv k x => (k < length (r_zerovv A m))%nat /\ x <> nth k (r_zerovv A m) r0
    | RmNextVv k x => (k < length (r_nextvv A m))%nat /\ (k < length (r_row A st))%nat /\ x <> nth k (r_nextvv A m) r0
                      /\ (k = 0%nat \/ nth k (r_row A st) r0 <> r0)
    | RmNShId n => n <> r_nshid A m
    | RmNSh x => x <> r_nsh A m
    end.

  Lemma redistribute_bound : forall mu st id m,
    all_pass (redistribute_checks A) st id m -> rchanges st mu m ->
    exists c, In c (redistribute_checks A) /\ c_pred c st id (rapply mu m) = false.
  Proof.
    intros mu st id m Hall Hch.
    assert (C1 := Hall (nth 1 (redistribute_checks A) (mkCheck 0 (fun _ _ _ => true))) ltac:(simpl; tauto)).
    assert (C2 := Hall (nth 2 (redistribute_checks A) (mkCheck 0 (fun _ _ _ => true))) ltac:(simpl; tauto)).
    assert (C3 := Hall (nth 3 (redistribute_checks A) (mkCheck 0 (fun _ _ _ => true))) ltac:(simpl; tauto)).
    assert (C4 := Hall (nth 4 (redistribute_checks A) (mkCheck 0 (fun _ _ _ => true))) ltac:(simpl; tauto)).
    simpl in C1, C2, C3, C4. apply eqb_spec in C2. apply eqb_spec in C4.
    apply andb_true_iff in C3. destruct C3 as [C3 C3c]. apply andb_true_iff in C3. destruct C3 as [C3a C3b].
    apply term_eqb_spec in C3a. apply veqb_spec in C3b. apply veqb_spec in C3c.
    destruct mu; simpl in Hch.
    - exists (nth 3 (redistribute_checks A) (mkCheck 0 (fun _ _ _ => true))). split; [simpl; tauto|]. simpl.
      rewrite term_eqb_false by congruence. reflexivity.
    - destruct Hch as [Hk Hne].
      exists (nth 3 (redistribute_checks A) (mkCheck 0 (fun _ _ _ => true))). split; [simpl; tauto|]. simpl.
      apply andb_false_iff. left. apply andb_false_iff. right.
      destruct (veqb A (set_nth k x (r_prevvv A m)) (r_tprev A st)) eqn:E; [|reflexivity].
      apply veqb_spec in E. exfalso. eapply set_nth_neq; eauto. congruence.
    - destruct Hch as [Hk Hne].
      exists (nth 3 (redistribute_checks A) (mkCheck 0 (fun _ _ _ => true))). split; [simpl; tauto|]. simpl.
      apply andb_false_iff. right.
      destruct (veqb A (set_nth k x (r_zerovv A m)) (r_tzero A st)) eqn:E; [|reflexivity].
      apply veqb_spec in E. exfalso. eapply set_nth_neq; eauto. congruence.
    - destruct Hch as [Hk [Hr [Hne [Hz|Hnz]]]].
      + subst k. exists (nth 4 (redistribute_checks A) (mkCheck 0 (fun _ _ _ => true))). split; [simpl; tauto|]. simpl.
        apply reqb_false. destruct (r_nextvv A m) as [|y V]; simpl in *; [lia|]. congruence.
      + exists (nth 2 (redistribute_checks A) (mkCheck 0 (fun _ _ _ => true))). split; [simpl; tauto|]. simpl.
        apply reqb_false. eapply dot_change; eauto.
    - exists (nth 1 (redistribute_checks A) (mkCheck 0 (fun _ _ _ => true))). split; [simpl; tauto|]. simpl.
      apply N.eqb_eq in C1. apply N.eqb_neq. congruence.
    - exists (nth 2 (redistribute_checks A) (mkCheck 0 (fun _ _ _ => true))). split; [simpl; tauto|]. simpl.
      apply reqb_false. congruence.
  Qed.

  (* no_bad_output (redistribution): the final guard IS the statement *)
  Lemma redistribute_fin_good : forall st own_s own_v inbox s V,
    redistribute_fin A st own_s own_v inbox = Some (s, V) ->
    s = dot A (r_row A st) V /\
    forall id m, In (id, m) inbox -> nth 0 (r_prevvv A m) r0 = nth 0 V r0.
  Proof.
    intros st own_s own_v inbox s V. unfold redistribute_fin.
    match goal with |- context [fold_left ?f inbox ?i] => set (acc := fold_left f inbox i) end.
    destruct (forallb (fun im : N * rdos A => aeqb A (nth 0 (r_prevvv A (snd im)) r0) (nth 0 (snd acc) r0)) inbox) eqn:F;
      simpl; [|discriminate].
    destruct (aeqb A (fst acc) (dot A (r_row A st) (snd acc))) eqn:E; [|discriminate].
    intro H. inversion H as [H1]. destruct acc as [s1 V1]. simpl in *. inversion H1; subst.
    split; [apply eqb_spec; assumption|].
    intros id m Hin. rewrite forallb_forall in F. specialize (F _ Hin). simpl in F. apply eqb_spec. assumption.
  Qed.

  (* ---------------------------------------------------------------------------------- *)
  (* Lindell22                                                                            *)
  (* ---------------------------------------------------------------------------------- *)
  Inductive lmut := LmRcom (t : term) | LmBigR (x : R) | LmOpen (t : term) | LmPrf (t : term)
                  | LmZShId (n : N) | LmZSh (x : R) | LmZVv (k : nat) (x : R).
  Definition lapply (mu : lmut) (m : ldos A) : ldos A :=
    match mu with
    | LmRcom t => mkL A t (l_bigr A m) (l_open A m) (l_prf A m) (l_zvv A m) (l_zshid A m) (l_zsh A m)
    | LmBigR x => mkL A (l_rcom A m) x (l_open A m) (l_prf A m) (l_zvv A m) (l_zshid A m) (l_zsh A m)
    | LmOpen t => mkL A (l_rcom A m) (l_bigr A m) t (l_prf A m) (l_zvv A m) (l_zshid A m) (l_zsh A m)
    | LmPrf t => mkL A (l_rcom A m) (l_bigr A m) (l_open A m) t (l_zvv A m) (l_zshid A m) (l_zsh A m)
    | LmZShId n => mkL A (l_rcom A m) (l_bigr A m) (l_open A m) (l_prf A m) (l_zvv A m) n (l_zsh A m)
    | LmZSh x => mkL A (l_rcom A m) (l_bigr A m) (l_open A m) (l_prf A m) (l_zvv A m) (l_zshid A m) x
    | LmZVv k x => mkL A (l_rcom A m) (l_bigr A m) (l_open A m) (l_prf A m) (set_nth k x (l_zvv A m)) (l_zshid A m) (l_zsh A m)
    end.
  Definition lchanges (st : lst A) (mu : lmut) (m : ldos A) : Prop :=
    match mu with
    | LmRcom t => t <> l_rcom A m
    | LmBigR x => x <> l_bigr A m
    | LmOpen t => t <> l_open A m
    | LmPrf t => t <> l_prf A m
    | LmZShId n => n <> l_zshid A m
    | LmZSh x => x <> l_zsh A m
    | LmZVv k x => (k < length (l_zvv A m))%nat /\ (k < length (l_zrow A st))%nat /\ x <> nth k (l_zvv A m) r0
                   /\ (k = 0%nat \/ nth k (l_zrow A st) r0 <> r0)
    end.

  Lemma lindell22_bound : forall mu st id m,
    all_pass (lindell22_checks A) st id m -> lchanges st mu m ->
    exists c, In c (lindell22_checks A) /\ c_pred c st id (lapply mu m) = false.
  Proof.
    intros mu st id m Hall Hch.
    assert (C1 := Hall (nth 1 (lindell22_checks A) (mkCheck 0 (fun _ _ _ => true))) ltac:(simpl; tauto)).
    assert (C2 := Hall (nth 2 (lindell22_checks A) (mkCheck 0 (fun _ _ _ => true))) ltac:(simpl; tauto)).
    assert (C3 := Hall (nth 3 (lindell22_checks A) (mkCheck 0 (fun _ _ _ => true))) ltac:(simpl; tauto)).
    assert (C4 := Hall (nth 4 (lindell22_checks A) (mkCheck 0 (fun _ _ _ => true))) ltac:(simpl; tauto)).
    assert (C5 := Hall (nth 5 (lindell22_checks A) (mkCheck 0 (fun _ _ _ => true))) ltac:(simpl; tauto)).
    simpl in C1, C2, C3, C4, C5. apply eqb_spec in C2. apply eqb_spec in C3. unfold open, nizk_verify in *.
    destruct mu; simpl in Hch.
    - exists (nth 4 (lindell22_checks A) (mkCheck 0 (fun _ _ _ => true))). split; [simpl; tauto|]. simpl.
      unfold open. eapply eqb_left_change; eauto.
    - exists (nth 4 (lindell22_checks A) (mkCheck 0 (fun _ _ _ => true))). split; [simpl; tauto|]. simpl.
      unfold open. eapply eqb_right_change; eauto.
      intro E. apply com_inj in E. destruct E as [_ [E _]]. inversion E. contradiction.
    - exists (nth 4 (lindell22_checks A) (mkCheck 0 (fun _ _ _ => true))). split; [simpl; tauto|]. simpl.
      unfold open. eapply eqb_right_change; eauto.
      intro E. apply com_inj in E. destruct E as [_ [_ E]]. contradiction.
    - exists (nth 5 (lindell22_checks A) (mkCheck 0 (fun _ _ _ => true))). split; [simpl; tauto|]. simpl.
      unfold nizk_verify. eapply eqb_left_change; eauto.
    - exists (nth 1 (lindell22_checks A) (mkCheck 0 (fun _ _ _ => true))). split; [simpl; tauto|]. simpl.
      apply N.eqb_eq in C1. apply N.eqb_neq. congruence.
    - exists (nth 2 (lindell22_checks A) (mkCheck 0 (fun _ _ _ => true))). split; [simpl; tauto|]. simpl.
      apply reqb_false. congruence.
    - destruct Hch as [Hk [Hr [Hne [Hz|Hnz]]]].
      + subst k. exists (nth 3 (lindell22_checks A) (mkCheck 0 (fun _ _ _ => true))). split; [simpl; tauto|]. simpl.
        apply reqb_false. destruct (l_zvv A m) as [|y V]; simpl in *; [lia|]. congruence.
      + exists (nth 2 (lindell22_checks A) (mkCheck 0 (fun _ _ _ => true))). split; [simpl; tauto|]. simpl.
        apply reqb_false. eapply dot_change; eauto.
  Qed.

  Section Chal.
  Variable chal : R -> R.
  (* no_bad_output (Lindell22): both aggregators end with the verification of the aggregate *)
  Lemma aggregate_verifies : forall x ps r s,
    aggregate A chal x ps = Some (r, s) -> schnorr_verify A chal x r s = true.
  Proof.
    intros x ps r s. unfold aggregate.
    match goal with |- context [forallb ?f ps] => destruct (forallb f ps) end; simpl; [|discriminate].
    match goal with |- context [schnorr_verify A chal x ?a ?b] => destruct (schnorr_verify A chal x a b) eqn:E end;
      [|discriminate].
    intro H. inversion H; subst. assumption.
  Qed.

  (* a partial signature whose s (or R) alone is changed makes Aggregate refuse: either the
     partials no longer carry the challenge of the new aggregate nonce, or the aggregate fails
     verification.  Stated for the sums Aggregate computes. *)
  Lemma aggregate_s_bound : forall x r s s', schnorr_verify A chal x r s = true -> s' <> s ->
    schnorr_verify A chal x r s' = false.
  Proof.
    unfold schnorr_verify. intros x r s s' H Hne. apply eqb_spec in H. apply reqb_false. congruence.
  Qed.
  Lemma aggregate_r_bound : forall x r r' s e, schnorr_verify A chal x r s = true -> e = chal r -> r' <> r ->
    aeqb A e (chal r') && schnorr_verify A chal x r' s = false.
  Proof.
    unfold schnorr_verify. intros x r r' s e H He Hne. apply eqb_spec in H.
    destruct (aeqb A e (chal r')) eqn:E1; [|reflexivity]. simpl. apply eqb_spec in E1.
    apply reqb_false. intro H2. apply Hne.
    rewrite <- E1, He in H2. rewrite H in H2.
    transitivity ((r' + chal r * x) - chal r * x); [ring|]. rewrite <- H2. ring.
  Qed.

  (* one signer alters ONLY the challenge field E of its partial signature (R_i and s_i stay): the
     aggregate nonce, hence the recomputed challenge, is unchanged, and because Aggregate compares
     the E of EVERY partial signature with it, the aggregator refuses *)
  Lemma aggregate_e_bound : forall x ps1 id p ps2 e' r s,
    aggregate A chal x (ps1 ++ (id, p) :: ps2) = Some (r, s) -> e' <> p_e A p ->
    aggregate A chal x (ps1 ++ (id, mkP A e' (p_r A p) (p_s A p)) :: ps2) = None.
  Proof.
    intros x ps1 id p ps2 e' r s H Hne. unfold aggregate in *.
    rewrite !map_app in *. cbn [map snd p_r p_s] in *.
    rewrite forallb_app in *. cbn [forallb snd p_e] in *.
    match type of H with context [chal ?r0] => set (R0 := r0) in * end.
    destruct (forallb (fun ip : N * psig A => aeqb A (p_e A (snd ip)) (chal R0)) ps1); [|reflexivity].
    destruct (aeqb A (p_e A p) (chal R0)) eqn:E; [|simpl in H; discriminate].
    apply eqb_spec in E.
    rewrite (reqb_false e' (chal R0)) by congruence. reflexivity.
  Qed.
  End Chal.

  (* the cosigning aggregator's per-sender checks bind R_i and s_i of every partial signature *)
  Lemma agg_partial_bound : forall st id p (r' s' : R),
    all_pass (agg_checks A) st id p ->
    (r' <> p_r A p -> exists c, In c (agg_checks A) /\ c_pred c st id (mkP A (p_e A p) r' (p_s A p)) = false) /\
    (s' <> p_s A p -> exists c, In c (agg_checks A) /\ c_pred c st id (mkP A (p_e A p) (p_r A p) s') = false).
  Proof.
    intros st id p r' s' Hall.
    assert (C0 := Hall (nth 0 (agg_checks A) (mkCheck 0 (fun _ _ _ => true))) ltac:(simpl; tauto)).
    assert (C1 := Hall (nth 1 (agg_checks A) (mkCheck 0 (fun _ _ _ => true))) ltac:(simpl; tauto)).
    simpl in C0, C1. apply eqb_spec in C0. apply eqb_spec in C1.
    split; intro Hne.
    - exists (nth 0 (agg_checks A) (mkCheck 0 (fun _ _ _ => true))). split; [simpl; tauto|]. simpl.
      apply reqb_false. congruence.
    - exists (nth 1 (agg_checks A) (mkCheck 0 (fun _ _ _ => true))). split; [simpl; tauto|]. simpl.
      apply reqb_false. congruence.
  Qed.

  (* ---------------------------------------------------------------------------------- *)
  (* Boldyreva                                                                            *)
  (* ---------------------------------------------------------------------------------- *)
  Lemma bls_sum : forall (st : bst A) ps,
    forallb (fun ip => aeqb A (snd ip) (b_x A st (fst ip) * b_h A st)) ps = true ->
    sum A (map (fun ip => b_lam A st (fst ip) * snd ip) ps)
    = sum A (map (fun ip : N * R => b_lam A st (fst ip) * b_x A st (fst ip)) ps) * b_h A st.
  Proof.
    intros st. unfold sum. induction ps as [|[i sg] t IH]; simpl; intro H.
    - ring.
    - apply andb_true_iff in H. destruct H as [H1 H2]. apply eqb_spec in H1.
      rewrite IH by assumption. rewrite H1. ring.
  Qed.

  (* no_bad_output (Boldyreva): the aggregator has no final check; the output is x.H(m) because
     every partial was verified and the reconstruction coefficients recombine the key (C02) *)
  Lemma bls_aggregate_good : forall (st : bst A) ps sg,
    sum A (map (fun ip : N * R => b_lam A st (fst ip) * b_x A st (fst ip)) ps) = b_pk A st ->
    bls_aggregate A st ps = Some sg -> sg = b_pk A st * b_h A st.
  Proof.
    intros st ps sg Hrec. unfold bls_aggregate.
    destruct (forallb _ ps) eqn:F; [|discriminate].
    intro H. inversion H. rewrite bls_sum by assumption. rewrite Hrec. reflexivity.
  Qed.

  Lemma bls_bound : forall (st : bst A) id sg sg',
    all_pass (bls_checks A) st id sg -> sg' <> sg ->
    exists c, In c (bls_checks A) /\ c_pred c st id sg' = false.
  Proof.
    intros st id sg sg' Hall Hne.
    assert (C0 := Hall (nth 0 (bls_checks A) (mkCheck 0 (fun _ _ _ => true))) ltac:(simpl; tauto)).
    simpl in C0. apply eqb_spec in C0.
    exists (nth 0 (bls_checks A) (mkCheck 0 (fun _ _ _ => true))). split; [simpl; tauto|]. simpl.
    apply reqb_false. congruence.
  Qed.

  (* ---------------------------------------------------------------------------------- *)
  (* DKLs23 (bbot)                                                                        *)
  (* ---------------------------------------------------------------------------------- *)
  Inductive dmut := DmRcom (t : term) | DmMs (t : term) | DmBigR (x : R) | DmRwit (t : term) | DmPk (x : R)
                  | DmGu (x : R) | DmGv (x : R) | DmPsi (x : R) | DmATilde (t : term) | DmEta (t : term)
                  | DmMu (t : term) | DmPhi (t : term).
  Definition dmut_fld (mu : dmut) : dfld :=
    match mu with
    | DmRcom _ => DRcom | DmMs _ => DMs | DmBigR _ => DBigR | DmRwit _ => DRwit | DmPk _ => DPk
    | DmGu _ => DGammaU | DmGv _ => DGammaV | DmPsi _ => DPsi | DmATilde _ => DATilde | DmEta _ => DEta
    | DmMu _ => DMu | DmPhi _ => DPhi
    end.
  Definition dapply (mu : dmut) (m : ddos A) : ddos A :=
    match mu with
    | DmRcom t => mkD A t (d_ms A m) (d_bigr A m) (d_rwit A m) (d_pk A m) (d_gu A m) (d_gv A m) (d_psi A m) (d_atilde A m) (d_eta A m) (d_mu A m) (d_phi A m)
    | DmMs t => mkD A (d_rcom A m) t (d_bigr A m) (d_rwit A m) (d_pk A m) (d_gu A m) (d_gv A m) (d_psi A m) (d_atilde A m) (d_eta A m) (d_mu A m) (d_phi A m)
    | DmBigR x => mkD A (d_rcom A m) (d_ms A m) x (d_rwit A m) (d_pk A m) (d_gu A m) (d_gv A m) (d_psi A m) (d_atilde A m) (d_eta A m) (d_mu A m) (d_phi A m)
    | DmRwit t => mkD A (d_rcom A m) (d_ms A m) (d_bigr A m) t (d_pk A m) (d_gu A m) (d_gv A m) (d_psi A m) (d_atilde A m) (d_eta A m) (d_mu A m) (d_phi A m)
    | DmPk x => mkD A (d_rcom A m) (d_ms A m) (d_bigr A m) (d_rwit A m) x (d_gu A m) (d_gv A m) (d_psi A m) (d_atilde A m) (d_eta A m) (d_mu A m) (d_phi A m)
    | DmGu x => mkD A (d_rcom A m) (d_ms A m) (d_bigr A m) (d_rwit A m) (d_pk A m) x (d_gv A m) (d_psi A m) (d_atilde A m) (d_eta A m) (d_mu A m) (d_phi A m)
    | DmGv x => mkD A (d_rcom A m) (d_ms A m) (d_bigr A m) (d_rwit A m) (d_pk A m) (d_gu A m) x (d_psi A m) (d_atilde A m) (d_eta A m) (d_mu A m) (d_phi A m)
    | DmPsi x => mkD A (d_rcom A m) (d_ms A m) (d_bigr A m) (d_rwit A m) (d_pk A m) (d_gu A m) (d_gv A m) x (d_atilde A m) (d_eta A m) (d_mu A m) (d_phi A m)
    | DmATilde t => mkD A (d_rcom A m) (d_ms A m) (d_bigr A m) (d_rwit A m) (d_pk A m) (d_gu A m) (d_gv A m) (d_psi A m) t (d_eta A m) (d_mu A m) (d_phi A m)
    | DmEta t => mkD A (d_rcom A m) (d_ms A m) (d_bigr A m) (d_rwit A m) (d_pk A m) (d_gu A m) (d_gv A m) (d_psi A m) (d_atilde A m) t (d_mu A m) (d_phi A m)
    | DmMu t => mkD A (d_rcom A m) (d_ms A m) (d_bigr A m) (d_rwit A m) (d_pk A m) (d_gu A m) (d_gv A m) (d_psi A m) (d_atilde A m) (d_eta A m) t (d_phi A m)
    | DmPhi t => mkD A (d_rcom A m) (d_ms A m) (d_bigr A m) (d_rwit A m) (d_pk A m) (d_gu A m) (d_gv A m) (d_psi A m) (d_atilde A m) (d_eta A m) (d_mu A m) t
    end.
  Definition dchanges (mu : dmut) (m : ddos A) : Prop :=
    match mu with
    | DmRcom t => t <> d_rcom A m | DmMs t => t <> d_ms A m | DmBigR x => x <> d_bigr A m
    | DmRwit t => t <> d_rwit A m | DmPk x => x <> d_pk A m | DmGu x => x <> d_gu A m | DmGv x => x <> d_gv A m
    | DmPsi x => x <> d_psi A m | DmATilde t => t <> d_atilde A m | DmEta t => t <> d_eta A m
    | DmMu t => t <> d_mu A m | DmPhi t => t <> d_phi A m
    end.

  Lemma sub_cancel_l : forall a b c : R, a - b = a - c -> b = c.
  Proof.
    intros a b c H. transitivity (a - (a - b)); [ring|]. rewrite H. ring.
  Qed.

  Lemma dkls_bound : forall mu st id m,
    dkls_class (dmut_fld mu) = Bound ->
    d_chi A st id <> r0 ->
    all_pass (dkls_checks A) st id m -> dchanges mu m ->
    exists c, In c (dkls_checks A) /\ c_pred c st id (dapply mu m) = false.
  Proof.
    intros mu st id m Hc Hchi Hall Hch.
    assert (C0 := Hall (nth 0 (dkls_checks A) (mkCheck 0 (fun _ _ _ => true))) ltac:(simpl; tauto)).
    assert (C1 := Hall (nth 1 (dkls_checks A) (mkCheck 0 (fun _ _ _ => true))) ltac:(simpl; tauto)).
    assert (C2 := Hall (nth 2 (dkls_checks A) (mkCheck 0 (fun _ _ _ => true))) ltac:(simpl; tauto)).
    assert (C3 := Hall (nth 3 (dkls_checks A) (mkCheck 0 (fun _ _ _ => true))) ltac:(simpl; tauto)).
    simpl in C0, C1, C2, C3. apply eqb_spec in C2. apply eqb_spec in C3. unfold open in *.
    destruct mu; simpl in Hc; try discriminate; simpl in Hch.
    - exists (nth 0 (dkls_checks A) (mkCheck 0 (fun _ _ _ => true))). split; [simpl; tauto|]. simpl.
      unfold open. eapply eqb_left_change; eauto.
    - (* ms: Bob's OT view contains the key-agreement message as received *)
      exists (nth 1 (dkls_checks A) (mkCheck 0 (fun _ _ _ => true))). split; [simpl; tauto|]. simpl.
      eapply eqb_right_change; eauto. unfold mu_term, tlist; simpl. intro E. inversion E. contradiction.
    - exists (nth 0 (dkls_checks A) (mkCheck 0 (fun _ _ _ => true))). split; [simpl; tauto|]. simpl.
      unfold open. eapply eqb_right_change; eauto.
      intro E. apply com_inj in E. destruct E as [_ [E _]]. inversion E. contradiction.
    - exists (nth 0 (dkls_checks A) (mkCheck 0 (fun _ _ _ => true))). split; [simpl; tauto|]. simpl.
      unfold open. eapply eqb_right_change; eauto.
      intro E. apply com_inj in E. destruct E as [_ [_ E]]. contradiction.
    - (* pk_j: chi*pk - GammaV = d_v *)
      exists (nth 3 (dkls_checks A) (mkCheck 0 (fun _ _ _ => true))). split; [simpl; tauto|]. simpl.
      apply reqb_false. intro E. rewrite <- C3 in E.
      assert (d_chi A st id * (x - d_pk A m) = r0) as Z.
      { transitivity ((d_chi A st id * x - d_gv A m) - (d_chi A st id * d_pk A m - d_gv A m)); [ring|]. rewrite E. ring. }
      destruct (integral _ _ Z) as [Z1|Z1]; [contradiction|].
      apply Hch. transitivity ((x - d_pk A m) + d_pk A m); [ring|]. rewrite Z1. ring.
    - exists (nth 2 (dkls_checks A) (mkCheck 0 (fun _ _ _ => true))). split; [simpl; tauto|]. simpl.
      apply reqb_false. intro E. rewrite <- C2 in E. apply sub_cancel_l in E. contradiction.
    - exists (nth 3 (dkls_checks A) (mkCheck 0 (fun _ _ _ => true))). split; [simpl; tauto|]. simpl.
      apply reqb_false. intro E. rewrite <- C3 in E. apply sub_cancel_l in E. contradiction.
    - exists (nth 1 (dkls_checks A) (mkCheck 0 (fun _ _ _ => true))). split; [simpl; tauto|]. simpl.
      eapply eqb_right_change; eauto. unfold mu_term, tlist; simpl. intro E. inversion E. contradiction.
    - exists (nth 1 (dkls_checks A) (mkCheck 0 (fun _ _ _ => true))). split; [simpl; tauto|]. simpl.
      eapply eqb_right_change; eauto. unfold mu_term, tlist; simpl. intro E. inversion E. contradiction.
    - exists (nth 1 (dkls_checks A) (mkCheck 0 (fun _ _ _ => true))). split; [simpl; tauto|]. simpl.
      eapply eqb_left_change; eauto.
  Qed.

  (* psi and phi: no check of the recipient reads them (class Late: only dkls23.Aggregate's
     final verification can notice) *)
  Lemma dkls_late : forall mu st id m c,
    dkls_class (dmut_fld mu) = Late -> In c (dkls_checks A) ->
    c_pred c st id (dapply mu m) = c_pred c st id m.
  Proof.
    intros mu st id m c Hc Hin. simpl in Hin.
    destruct mu; simpl in Hc; try discriminate;
      destruct Hin as [E|[E|[E|[E|[]]]]]; subst; reflexivity.
  Qed.

  Section Ecdsa.
  Variable ecdsa_ok : R -> R -> R -> bool.
  Variable rdiv : R -> R -> R.
  (* no_bad_output (DKLs23): Aggregate returns only what the verifier accepted *)
  Lemma dkls_aggregate_verifies : forall pk ps r s,
    dkls_aggregate A ecdsa_ok rdiv pk ps = Some (r, s) -> ecdsa_ok pk r s = true.
  Proof.
    intros pk ps r s. unfold dkls_aggregate. destruct ps as [|p0 t]; [discriminate|].
    match goal with |- context [forallb ?f (p0 :: t)] => destruct (forallb f (p0 :: t)) end; [|discriminate].
    match goal with |- context [ecdsa_ok pk ?a ?b] => destruct (ecdsa_ok pk a b) eqn:E end; [|discriminate].
    intro H. inversion H; subst. assumption.
  Qed.

  (* psi / phi: the recipient accepts whatever value arrives; what protects the output is the
     aggregator, which returns nothing that fails verification *)
  Lemma dkls_late_only_aggregator : forall mu st id m,
    dkls_class (dmut_fld mu) = Late ->
    (forall c, In c (dkls_checks A) -> c_pred c st id (dapply mu m) = c_pred c st id m) /\
    (forall pk ps r s, dkls_aggregate A ecdsa_ok rdiv pk ps = Some (r, s) -> ecdsa_ok pk r s = true).
  Proof.
    intros mu st id m Hc. split.
    - intros c Hin. apply dkls_late; assumption.
    - apply dkls_aggregate_verifies.
  Qed.
  End Ecdsa.

  (* ---------------------------------------------------------------------------------- *)
  (* bound_field_detected: the skeleton run on an inbox that contains the altered dossier *)
  (* ---------------------------------------------------------------------------------- *)
  Ltac rounds_ok := let c := fresh in let H := fresh in intros c H; simpl in H; intuition (subst; simpl; tauto).

  Lemma session_detected : forall f, session_class f = Bound ->
    forall st d m v inbox, all_pass (session_checks A) st d m -> v <> sget A f m ->
    In (d, sset A f v m) inbox -> run_rounds [3; 4]%nat (session_checks A) st inbox <> Accept.
  Proof.
    intros f Hc st d m v inbox Hall Hne Hin.
    eapply bound_detected; [rounds_ok|eassumption|]. eapply session_bound; eauto.
  Qed.
  Lemma gennaro_detected : forall mu st d m inbox,
    all_pass (gennaro_checks A) st d m -> gchanges mu m -> In (d, gapply mu m) inbox ->
    run_rounds [2; 3]%nat (gennaro_checks A) st inbox <> Accept.
  Proof.
    intros. eapply bound_detected; [rounds_ok|eassumption|]. eapply gennaro_bound; eauto.
  Qed.
  Lemma hjky_detected : forall mu st d m inbox,
    all_pass (hjky_checks A) st d m -> hchanges st mu m -> In (d, happly mu m) inbox ->
    run_rounds [2]%nat (hjky_checks A) st inbox <> Accept.
  Proof.
    intros. eapply bound_detected; [rounds_ok|eassumption|]. eapply hjky_bound; eauto.
  Qed.
  Lemma redistribute_detected : forall mu st d m inbox,
    all_pass (redistribute_checks A) st d m -> rchanges st mu m -> In (d, rapply mu m) inbox ->
    run_rounds [3]%nat (redistribute_checks A) st inbox <> Accept.
  Proof.
    intros. eapply bound_detected; [rounds_ok|eassumption|]. eapply redistribute_bound; eauto.
  Qed.
  Lemma lindell22_detected : forall mu st d m inbox,
    all_pass (lindell22_checks A) st d m -> lchanges st mu m -> In (d, lapply mu m) inbox ->
    run_rounds [2; 3]%nat (lindell22_checks A) st inbox <> Accept.
  Proof.
    intros. eapply bound_detected; [rounds_ok|eassumption|]. eapply lindell22_bound; eauto.
  Qed.
  Lemma dkls_detected : forall mu st d m inbox,
    dkls_class (dmut_fld mu) = Bound -> d_chi A st d <> r0 ->
    all_pass (dkls_checks A) st d m -> dchanges mu m -> In (d, dapply mu m) inbox ->
    run_rounds [3; 4]%nat (dkls_checks A) st inbox <> Accept.
  Proof.
    intros. eapply bound_detected; [rounds_ok|eassumption|]. eapply dkls_bound; eauto.
  Qed.
  Lemma bls_detected : forall (st : bst A) d sg sg' inbox,
    all_pass (bls_checks A) st d sg -> sg' <> sg -> In (d, sg') inbox ->
    run_rounds [2]%nat (bls_checks A) st inbox <> Accept.
  Proof.
    intros. eapply bound_detected; [rounds_ok|eassumption|]. eapply bls_bound; eauto.
  Qed.

  (* ---------------------------------------------------------------------------------- *)
  (* Agree-on-random                                                                      *)
  (* ---------------------------------------------------------------------------------- *)
  Inductive amut := AmCom (t : term) | AmMsg (t : term) | AmWit (t : term).
  Definition aapply (mu : amut) (m : ados A) : ados A :=
    match mu with
    | AmCom t => mkAd A t (ad_msg A m) (ad_wit A m)
    | AmMsg t => mkAd A (ad_com A m) t (ad_wit A m)
    | AmWit t => mkAd A (ad_com A m) (ad_msg A m) t
    end.
  Definition achanges (mu : amut) (m : ados A) : Prop :=
    match mu with AmCom t => t <> ad_com A m | AmMsg t => t <> ad_msg A m | AmWit t => t <> ad_wit A m end.
  Lemma aor_bound : forall mu (ck : term) id m,
    all_pass (aor_checks A) ck id m -> achanges mu m ->
    exists c, In c (aor_checks A) /\ c_pred c ck id (aapply mu m) = false.
  Proof.
    intros mu ck id m Hall Hch.
    assert (C0 := Hall (nth 0 (aor_checks A) (mkCheck 0 (fun _ _ _ => true))) ltac:(simpl; tauto)).
    simpl in C0. unfold open in *.
    exists (nth 0 (aor_checks A) (mkCheck 0 (fun _ _ _ => true))). split; [simpl; tauto|]. simpl. unfold open.
    destruct mu; simpl in Hch; simpl.
    - eapply eqb_left_change; eauto.
    - eapply eqb_right_change; eauto. intro E. apply com_inj in E. destruct E as [_ [E _]]. contradiction.
    - eapply eqb_right_change; eauto. intro E. apply com_inj in E. destruct E as [_ [_ E]]. contradiction.
  Qed.

  (* ---------------------------------------------------------------------------------- *)
  (* Canetti DKG                                                                          *)
  (* ---------------------------------------------------------------------------------- *)
  Inductive cmut := CmV (t : term) | CmSid (t : term) | CmShId (n : N) | CmRho (t : term) | CmX (k : nat) (x : R)
                  | CmA (x : R) | CmU (t : term) | CmShareId (n : N) | CmShare (x : R)
                  | CmPsiA (x : R) | CmPsiE (t : term) | CmPsiZ (x : R).
  Definition capply (mu : cmut) (m : cdos A) : cdos A :=
    match mu with
    | CmV t => mkC A t (c_sid A m) (c_shid A m) (c_rho A m) (c_x A m) (c_a A m) (c_u A m) (c_shareid A m) (c_share A m) (c_pa A m) (c_pe A m) (c_pz A m)
    | CmSid t => mkC A (c_v A m) t (c_shid A m) (c_rho A m) (c_x A m) (c_a A m) (c_u A m) (c_shareid A m) (c_share A m) (c_pa A m) (c_pe A m) (c_pz A m)
    | CmShId n => mkC A (c_v A m) (c_sid A m) n (c_rho A m) (c_x A m) (c_a A m) (c_u A m) (c_shareid A m) (c_share A m) (c_pa A m) (c_pe A m) (c_pz A m)
    | CmRho t => mkC A (c_v A m) (c_sid A m) (c_shid A m) t (c_x A m) (c_a A m) (c_u A m) (c_shareid A m) (c_share A m) (c_pa A m) (c_pe A m) (c_pz A m)
    | CmX k x => mkC A (c_v A m) (c_sid A m) (c_shid A m) (c_rho A m) (set_nth k x (c_x A m)) (c_a A m) (c_u A m) (c_shareid A m) (c_share A m) (c_pa A m) (c_pe A m) (c_pz A m)
    | CmA x => mkC A (c_v A m) (c_sid A m) (c_shid A m) (c_rho A m) (c_x A m) x (c_u A m) (c_shareid A m) (c_share A m) (c_pa A m) (c_pe A m) (c_pz A m)
    | CmU t => mkC A (c_v A m) (c_sid A m) (c_shid A m) (c_rho A m) (c_x A m) (c_a A m) t (c_shareid A m) (c_share A m) (c_pa A m) (c_pe A m) (c_pz A m)
    | CmShareId n => mkC A (c_v A m) (c_sid A m) (c_shid A m) (c_rho A m) (c_x A m) (c_a A m) (c_u A m) n (c_share A m) (c_pa A m) (c_pe A m) (c_pz A m)
    | CmShare x => mkC A (c_v A m) (c_sid A m) (c_shid A m) (c_rho A m) (c_x A m) (c_a A m) (c_u A m) (c_shareid A m) x (c_pa A m) (c_pe A m) (c_pz A m)
    | CmPsiA x => mkC A (c_v A m) (c_sid A m) (c_shid A m) (c_rho A m) (c_x A m) (c_a A m) (c_u A m) (c_shareid A m) (c_share A m) x (c_pe A m) (c_pz A m)
    | CmPsiE t => mkC A (c_v A m) (c_sid A m) (c_shid A m) (c_rho A m) (c_x A m) (c_a A m) (c_u A m) (c_shareid A m) (c_share A m) (c_pa A m) t (c_pz A m)
    | CmPsiZ x => mkC A (c_v A m) (c_sid A m) (c_shid A m) (c_rho A m) (c_x A m) (c_a A m) (c_u A m) (c_shareid A m) (c_share A m) (c_pa A m) (c_pe A m) x
    end.
  Definition cchanges (mu : cmut) (m : cdos A) : Prop :=
    match mu with
    | CmV t => t <> c_v A m | CmSid t => t <> c_sid A m | CmShId n => n <> c_shid A m | CmRho t => t <> c_rho A m
    | CmX k x => (k < length (c_x A m))%nat /\ x <> nth k (c_x A m) r0
    | CmA x => x <> c_a A m | CmU t => t <> c_u A m | CmShareId n => n <> c_shareid A m | CmShare x => x <> c_share A m
    | CmPsiA x => x <> c_pa A m | CmPsiE t => t <> c_pe A m | CmPsiZ x => x <> c_pz A m
    end.

  Lemma cmsg_inj : forall m m', cmsg A m = cmsg A m' ->
    c_sid A m = c_sid A m' /\ c_shid A m = c_shid A m' /\ c_rho A m = c_rho A m' /\ c_x A m = c_x A m' /\ c_a A m = c_a A m'.
  Proof.
    unfold cmsg, tlist; simpl. intros m m' H. inversion H as [[H1 H2 H3 H4 H5]].
    apply tscalars_inj in H4. auto.
  Qed.

  Ltac cck n := exists (nth n (canetti_checks A) (mkCheck 0 (fun _ _ _ => true))); split; [simpl; tauto|]; simpl.

  Lemma canetti_bound : forall mu st id m,
    all_pass (canetti_checks A) st id m -> cchanges mu m ->
    exists c, In c (canetti_checks A) /\ c_pred c st id (capply mu m) = false.
  Proof.
    intros mu st id m Hall Hch.
    assert (C3 := Hall (nth 3 (canetti_checks A) (mkCheck 0 (fun _ _ _ => true))) ltac:(simpl; tauto)).
    assert (C4 := Hall (nth 4 (canetti_checks A) (mkCheck 0 (fun _ _ _ => true))) ltac:(simpl; tauto)).
    assert (C5 := Hall (nth 5 (canetti_checks A) (mkCheck 0 (fun _ _ _ => true))) ltac:(simpl; tauto)).
    assert (C6 := Hall (nth 6 (canetti_checks A) (mkCheck 0 (fun _ _ _ => true))) ltac:(simpl; tauto)).
    assert (C7 := Hall (nth 7 (canetti_checks A) (mkCheck 0 (fun _ _ _ => true))) ltac:(simpl; tauto)).
    assert (C8 := Hall (nth 8 (canetti_checks A) (mkCheck 0 (fun _ _ _ => true))) ltac:(simpl; tauto)).
    simpl in C3, C4, C5, C6, C7, C8. unfold open in *. apply eqb_spec in C5. apply eqb_spec in C6. apply eqb_spec in C8.
    destruct mu; simpl in Hch.
    - cck 4%nat. unfold open. eapply eqb_left_change; eauto.
    - cck 4%nat. unfold open. eapply eqb_right_change; eauto.
      intro E. apply com_inj in E. destruct E as [_ [E _]]. apply cmsg_inj in E. simpl in E. destruct E as [E _]. contradiction.
    - cck 4%nat. unfold open. eapply eqb_right_change; eauto.
      intro E. apply com_inj in E. destruct E as [_ [E _]]. apply cmsg_inj in E. simpl in E. destruct E as [_ [E _]]. contradiction.
    - cck 4%nat. unfold open. eapply eqb_right_change; eauto.
      intro E. apply com_inj in E. destruct E as [_ [E _]]. apply cmsg_inj in E. simpl in E. destruct E as [_ [_ [E _]]]. contradiction.
    - destruct Hch as [Hk Hne]. cck 4%nat. unfold open. eapply eqb_right_change; eauto.
      intro E. apply com_inj in E. destruct E as [_ [E _]]. apply cmsg_inj in E. simpl in E. destruct E as [_ [_ [_ [E _]]]].
      eapply set_nth_neq; eauto.
    - cck 4%nat. unfold open. eapply eqb_right_change; eauto.
      intro E. apply com_inj in E. destruct E as [_ [E _]]. apply cmsg_inj in E. simpl in E. destruct E as [_ [_ [_ [_ E]]]]. contradiction.
    - cck 4%nat. unfold open. eapply eqb_right_change; eauto.
      intro E. apply com_inj in E. destruct E as [_ [_ E]]. contradiction.
    - cck 3%nat. apply N.eqb_eq in C3. apply N.eqb_neq. congruence.
    - cck 5%nat. apply reqb_false. congruence.
    - cck 6%nat. apply reqb_false. congruence.
    - cck 7%nat. eapply eqb_left_change; eauto.
    - cck 8%nat. apply reqb_false. congruence.
  Qed.

  (* no_bad_output (Canetti): the guard of the last step (mpc.NewBaseShard) IS the statement *)
  Lemma canetti_fin_good : forall st own_s own_v inbox s V,
    canetti_fin A st own_s own_v inbox = Some (s, V) -> s = dot A (c_row A st) V.
  Proof.
    intros st own_s own_v inbox s V. unfold canetti_fin.
    match goal with |- context [fold_left ?f inbox ?i] => set (acc := fold_left f inbox i) end.
    destruct (aeqb A (fst acc) (dot A (c_row A st) (snd acc))) eqn:E; [|discriminate].
    intro H. inversion H as [H1]. destruct acc as [s1 V1]. simpl in *. inversion H1; subst.
    apply eqb_spec; assumption.
  Qed.

  (* ---------------------------------------------------------------------------------- *)
  (* DKLs23 softspoken                                                                    *)
  (* ---------------------------------------------------------------------------------- *)
  Inductive omut := OmSign (mu : dmut) | OmOtU (t : term) | OmOtX (t : term) | OmOtT (t : term).
  Definition omut_fld (mu : omut) : ofld :=
    match mu with OmSign d => OSign (dmut_fld d) | OmOtU _ => OOtU | OmOtX _ => OOtX | OmOtT _ => OOtT end.
  Definition oapply (mu : omut) (m : odos A) : odos A :=
    match mu with
    | OmSign d => mkO A (dapply d (o_d A m)) (o_otu A m) (o_otx A m) (o_ott A m)
    | OmOtU t => mkO A (o_d A m) t (o_otx A m) (o_ott A m)
    | OmOtX t => mkO A (o_d A m) (o_otu A m) t (o_ott A m)
    | OmOtT t => mkO A (o_d A m) (o_otu A m) (o_otx A m) t
    end.
  Definition ochanges (mu : omut) (m : odos A) : Prop :=
    match mu with
    | OmSign d => dchanges d (o_d A m)
    | OmOtU t => t <> o_otu A m | OmOtX t => t <> o_otx A m | OmOtT t => t <> o_ott A m
    end.

  Ltac ock n := exists (nth n (softspoken_checks A) (mkCheck 0 (fun _ _ _ => true))); split; [simpl; tauto|]; simpl.

  Lemma softspoken_bound : forall mu st id m,
    softspoken_class (omut_fld mu) = Bound ->
    d_chi A st id <> r0 ->
    all_pass (softspoken_checks A) st id m -> ochanges mu m ->
    exists c, In c (softspoken_checks A) /\ c_pred c st id (oapply mu m) = false.
  Proof.
    intros mu st id m Hc Hchi Hall Hch.
    assert (C0 := Hall (nth 0 (softspoken_checks A) (mkCheck 0 (fun _ _ _ => true))) ltac:(simpl; tauto)).
    assert (C1 := Hall (nth 1 (softspoken_checks A) (mkCheck 0 (fun _ _ _ => true))) ltac:(simpl; tauto)).
    assert (C2 := Hall (nth 2 (softspoken_checks A) (mkCheck 0 (fun _ _ _ => true))) ltac:(simpl; tauto)).
    assert (C3 := Hall (nth 3 (softspoken_checks A) (mkCheck 0 (fun _ _ _ => true))) ltac:(simpl; tauto)).
    assert (C4 := Hall (nth 4 (softspoken_checks A) (mkCheck 0 (fun _ _ _ => true))) ltac:(simpl; tauto)).
    simpl in C0, C1, C2, C3, C4. apply eqb_spec in C3. apply eqb_spec in C4. unfold open in *.
    destruct mu as [d|t|t|t]; simpl in Hch.
    - destruct d; simpl in Hc; try discriminate; simpl in Hch.
      + ock 0%nat. unfold open. eapply eqb_left_change; eauto.
      + ock 1%nat. eapply eqb_right_change; eauto. unfold ot_term, tlist; simpl. intro E. inversion E. contradiction.
      + ock 0%nat. unfold open. eapply eqb_right_change; eauto.
        intro E. apply com_inj in E. destruct E as [_ [E _]]. inversion E. contradiction.
      + ock 0%nat. unfold open. eapply eqb_right_change; eauto.
        intro E. apply com_inj in E. destruct E as [_ [_ E]]. contradiction.
      + ock 4%nat. apply reqb_false. intro E. rewrite <- C4 in E.
        assert (d_chi A st id * (x - d_pk A (o_d A m)) = r0) as Z.
        { transitivity ((d_chi A st id * x - d_gv A (o_d A m)) - (d_chi A st id * d_pk A (o_d A m) - d_gv A (o_d A m))); [ring|]. rewrite E. ring. }
        destruct (integral _ _ Z) as [Z1|Z1]; [contradiction|].
        apply Hch. transitivity ((x - d_pk A (o_d A m)) + d_pk A (o_d A m)); [ring|]. rewrite Z1. ring.
      + ock 3%nat. apply reqb_false. intro E. rewrite <- C3 in E. apply sub_cancel_l in E. contradiction.
      + ock 4%nat. apply reqb_false. intro E. rewrite <- C4 in E. apply sub_cancel_l in E. contradiction.
      + ock 2%nat. eapply eqb_right_change; eauto. unfold mu_term, tlist; simpl. intro E. inversion E. contradiction.
      + ock 2%nat. eapply eqb_right_change; eauto. unfold mu_term, tlist; simpl. intro E. inversion E. contradiction.
      + ock 2%nat. eapply eqb_left_change; eauto.
      + (* phi: part of the base-OT view the consistency check covers *)
        ock 1%nat. eapply eqb_right_change; eauto. unfold ot_term, tlist; simpl. intro E. inversion E. contradiction.
    - ock 1%nat. eapply eqb_right_change; eauto. unfold ot_term, tlist; simpl. intro E. inversion E. contradiction.
    - ock 1%nat. eapply eqb_right_change; eauto. unfold ot_term, tlist; simpl. intro E. inversion E. contradiction.
    - ock 1%nat. eapply eqb_left_change; eauto.
  Qed.

  Lemma softspoken_late : forall mu st id m c,
    softspoken_class (omut_fld mu) = Late -> In c (softspoken_checks A) ->
    c_pred c st id (oapply mu m) = c_pred c st id m.
  Proof.
    intros mu st id m c Hc Hin. simpl in Hin.
    destruct mu as [d|t|t|t]; simpl in Hc; try discriminate.
    destruct d; simpl in Hc; try discriminate.
    destruct Hin as [E|[E|[E|[E|[E|[]]]]]]; subst; reflexivity.
  Qed.

  Lemma aor_detected : forall mu (ck : term) d m inbox,
    all_pass (aor_checks A) ck d m -> achanges mu m -> In (d, aapply mu m) inbox ->
    run_rounds [3]%nat (aor_checks A) ck inbox <> Accept.
  Proof.
    intros. eapply bound_detected; [rounds_ok|eassumption|]. eapply aor_bound; eauto.
  Qed.
  Lemma canetti_detected : forall mu st d m inbox,
    all_pass (canetti_checks A) st d m -> cchanges mu m -> In (d, capply mu m) inbox ->
    run_rounds [3; 4]%nat (canetti_checks A) st inbox <> Accept.
  Proof.
    intros. eapply bound_detected; [rounds_ok|eassumption|]. eapply canetti_bound; eauto.
  Qed.
  Lemma softspoken_detected : forall mu st d m inbox,
    softspoken_class (omut_fld mu) = Bound -> d_chi A st d <> r0 ->
    all_pass (softspoken_checks A) st d m -> ochanges mu m -> In (d, oapply mu m) inbox ->
    run_rounds [4; 5]%nat (softspoken_checks A) st inbox <> Accept.
  Proof.
    intros. eapply bound_detected; [rounds_ok|eassumption|]. eapply softspoken_bound; eauto.
  Qed.
End AlgebraProofs.

(* ------------------------------------------------------------------------------------ *)
(* Non-vacuity: the integers are an instance; an honest session dossier passes, and a    *)
(* changed opening is blamed on its sender                                               *)
(* ------------------------------------------------------------------------------------ *)
Definition ZA : alg := mkAlg Z 0%Z 1%Z Z.add Z.mul Z.sub Z.opp Z.eqb.

Lemma ZA_ring : ring_theory (a0 ZA) (a1 ZA) (aadd ZA) (amul ZA) (asub ZA) (aopp ZA) eq.
Proof. exact Zth. Qed.
Lemma ZA_eqb : forall a b : car ZA, aeqb ZA a b = true <-> a = b.
Proof. exact Z.eqb_eq. Qed.
Lemma ZA_integral : forall a b : car ZA, amul ZA a b = a0 ZA -> a = a0 ZA \/ b = a0 ZA.
Proof. intros a b H. simpl in *. apply Z.mul_eq_0. assumption. Qed.

Definition ex_st : sst ZA := mkSst ZA (TB ZA 100) (TB ZA 7).
Definition ex_dos : sdos ZA :=
  mkS ZA (TB ZA 9) (com ZA (TB ZA 100) (TB ZA 1) (TB ZA 2)) (TB ZA 1) (TB ZA 2)
      (com ZA (TB ZA 7) (TB ZA 3) (TB ZA 4)) (TB ZA 3) (TB ZA 4).

Lemma ex_honest_accept : run_rounds [3%nat; 4%nat] (session_checks ZA) ex_st [(2%N, ex_dos); (3%N, ex_dos)] = Accept.
Proof. vm_compute. reflexivity. Qed.
Lemma ex_tampered_blamed :
  run_rounds [3%nat; 4%nat] (session_checks ZA) ex_st [(2%N, ex_dos); (3%N, sset ZA SContrib (TB ZA 5) ex_dos)] = Reject 3 3%N.
Proof. vm_compute. reflexivity. Qed.
Lemma ex_ck_free :
  run_rounds [3%nat; 4%nat] (session_checks ZA) ex_st [(2%N, sset ZA SCk (TB ZA 77) ex_dos); (3%N, ex_dos)] = Accept.
Proof. vm_compute. reflexivity. Qed.

