(* Hier_proofs.v — hierarchical (Tassa) access structures: the part of
   "accepts (induced_hier levels) ids = hier_eval ids levels" that does not need Tassa's theorem on the
   well-posedness of Birkhoff interpolation:

     hier_first_level_rejected   fewer than t_1 listed holders in the first level  ->  rejected.

   Rows of first-level holders are (scaled) Vandermonde rows; rows of lower levels vanish in the
   first t_1 columns (derivative order >= t_1); a polynomial of degree < t_1 with constant term 1
   vanishing at the listed first-level nodes is a kernel witness. *)
From Coq Require Import List NArith ZArith Arith Bool Lia Field Ring.
Import ListNotations.
Require Import V.base.Fld V.model.LinAlg V.model.Poly V.model.Interp V.model.Access V.model.Msp V.model.Kw.
Require Import V.proofs.LinAlg_proofs V.proofs.Poly_proofs V.proofs.Interp_proofs V.proofs.Birkhoff_proofs V.proofs.Span_proofs V.proofs.Msp_proofs
               V.proofs.Kw_proofs V.proofs.Families_proofs.

Section Hier.
Context {F : Type} (K : fops F) (HK : flaws K) (fromN : N -> F).

Add Field KfieldH : (fl_theory K HK).

Notation "0" := (f0 K).
Notation "1" := (f1 K).
Infix "+" := (fadd K).
Infix "*" := (fmul K).
Infix "-" := (fsub K).

(* cumulative thresholds strictly increasing (guaranteed by the constructor) *)
Fixpoint hier_incr (r : nat) (levels : list (nat * list N)) : Prop :=
  match levels with
  | [] => True
  | (t, _) :: rest => (r < t)%nat /\ hier_incr t rest
  end.

Lemma rank_from_ge : forall rest r id j, hier_incr r rest -> hier_rank_from r rest id = Some j -> (r <= j)%nat.
Proof.
  induction rest as [|[t ps] rest IH]; intros r id j Hi H; [discriminate|]. cbn [hier_rank_from] in H.
  destruct (memN id ps); [inversion H; lia|]. destruct Hi as [Hlt Hi]. specialize (IH t id j Hi H). lia.
Qed.

Lemma last_threshold_ge : forall rest r t ps, hier_incr r ((t, ps) :: rest) ->
  (t <= fst (last ((t, ps) :: rest) (O, [])))%nat.
Proof.
  induction rest as [|[t' ps'] rest IH]; intros r t ps H; [cbn; lia|].
  destruct H as [_ [Hlt Hi]]. change (last ((t, ps) :: (t', ps') :: rest) (O, [])) with (last ((t', ps') :: rest) (O, [])).
  specialize (IH t t' ps' (conj Hlt Hi)). lia.
Qed.

Lemma dot_scaled_pows : forall a x k s w, length w = k ->
  dot K (map (fun c => a * fpow K x c) (seq s k)) w = a * fpow K x s * peval_r K w x.
Proof.
  intros a x k; induction k as [|k IH]; intros s w Hw.
  - destruct w; [|discriminate]. cbn [seq map peval_r]. rewrite (dot_nil_l K). ring.
  - destruct w as [|c w]; [discriminate|]. cbn [seq map peval_r]. rewrite (dot_cons K HK), IH by (cbn in Hw; lia).
    cbn [fpow]. ring.
Qed.

Lemma nth_app_zeros : forall (p : list F) n c, (length p <= c)%nat -> nth c (p ++ repeat 0 n) 0 = 0.
Proof.
  intros p n c H. rewrite app_nth2 by lia. destruct (Nat.ltb (c - length p) n) eqn:E.
  - apply nth_repeat.
  - apply Nat.ltb_ge in E. apply nth_overflow. rewrite repeat_length. lia.
Qed.

Theorem hier_first_level_rejected : forall q t1 ps1 rest m ids,
  induced_hier K fromN q ((t1, ps1) :: rest) = Some m ->
  hier_incr 0 ((t1, ps1) :: rest) ->
  (forall id, In id ids -> In id (msp_lab m)) ->
  (forall a b, In a ids -> In b ids -> In a ps1 -> In b ps1 -> fromN a = fromN b -> a = b) ->
  (forall id, In id ids -> In id ps1 -> fromN id <> 0) ->
  (card (interN ps1 ids) < t1)%nat ->
  accepts K m ids = false.
Proof.
  intros q t1 ps1 rest m ids Hind Hincr Hknown Hinj Hnz Hcard.
  set (levels := (t1, ps1) :: rest) in *.
  unfold induced_hier in Hind. destruct (negb (hier_constraints q levels)); [discriminate|].
  set (hs := sortN (nodupN (flat_map snd levels))) in *.
  set (k := fst (last levels (O, []))) in *.
  assert (Hk : (t1 <= k)%nat) by (apply (last_threshold_ge rest 0 t1 ps1 Hincr)).
  destruct k as [|k'] eqn:Ek; [discriminate|]. rewrite <- Ek in *.
  set (g := fun id => match hier_rank levels id with
                      | None => None
                      | Some j => Some (map (fun c => phi K c (fromN id) (N.of_nat j)) (seq 0 k))
                      end) in *.
  destruct (forallb _ (map g hs)) eqn:Eall; [|discriminate].
  unfold new_msp in Hind. destruct (_ && _) eqn:Echk; [|discriminate]. inversion Hind; subst m. clear Hind.
  set (rows := flat_map (fun r => match r with Some x => [x] | None => [] end) (map g hs)) in *.
  (* every holder has a rank and its row *)
  assert (Hrows : rows = map (fun id => match g id with Some x => x | None => [] end) hs /\
                  forall id, In id hs -> g id <> None).
  { unfold rows. clear -Eall. induction hs as [|h hs IH]; [split; [reflexivity|intros ? []]|].
    cbn [map forallb] in Eall. apply andb_true_iff in Eall. destruct Eall as [E1 E2].
    destruct (IH E2) as [IH1 IH2]. split.
    - cbn [map flat_map]. destruct (g h); [|discriminate]. cbn [app]. now rewrite IH1.
    - intros id [->|Hid]; [destruct (g id); [discriminate|discriminate]|auto]. }
  destruct Hrows as [Hrows Hsome].
  assert (Hlr : length rows = length hs) by (rewrite Hrows; apply map_length).
  set (rl := combine hs rows).
  assert (Hz : mk_msp rows hs = zmsp rl).
  { unfold zmsp, rl. f_equal; [now rewrite map_snd_combine|now rewrite map_fst_combine]. }
  change (forall id, In id ids -> In id hs) in Hknown.
  rewrite Hz.
  assert (Hrl : forall id v, In (id, v) rl -> exists j, hier_rank levels id = Some j /\
              v = map (fun c => phi K c (fromN id) (N.of_nat j)) (seq 0 k)).
  { intros id v Hin. unfold rl in Hin. rewrite Hrows, (combine_map_r (fun id => match g id with Some x => x | None => [] end) hs) in Hin.
    apply in_map_iff in Hin. destruct Hin as [id' [E Hid']]. inversion E; subst id'.
    specialize (Hsome id Hid'). unfold g in *. destruct (hier_rank levels id) as [j|]; [|congruence].
    exists j. split; reflexivity. }
  destruct ids as [|id0 ids0]; [apply accepts_nil|].
  remember (id0 :: ids0) as ids eqn:Eids.
  assert (Hhsne : (0 < length hs)%nat).
  { assert (In id0 hs) by (apply Hknown; rewrite Eids; now left). destruct hs; [contradiction|cbn; lia]. }
  assert (Hwf : wf_msp (zmsp rl)).
  { rewrite <- Hz. exists (length hs), k. cbn [msp_M msp_lab]. split; [split; [exact Hlr|]|].
    - apply Forall_forall. intros v Hv. rewrite Hrows in Hv. apply in_map_iff in Hv. destruct Hv as [id [<- Hid]].
      specialize (Hsome id Hid). unfold g in *. destruct (hier_rank levels id); [|congruence].
      now rewrite map_length, seq_length.
    - split; [reflexivity|]. split; [lia|exact Hhsne]. }
  assert (Hne' : ids <> []) by (rewrite Eids; discriminate).
  assert (Hknown' : forall id, In id ids -> In id (map fst rl)).
  { intros id Hid. unfold rl. rewrite map_fst_combine by auto. now apply Hknown. }
  apply (rejects_zipped_iff K HK rl ids Hwf Hne' Hknown').
  assert (HD : msp_D (zmsp rl) = k).
  { rewrite <- Hz. unfold msp_D. cbn [msp_M]. destruct Hwf as [n [d [Hw [_ [_ Hn]]]]]. rewrite <- Hz in Hw. cbn [msp_M] in Hw.
    destruct Hw as [Hwl HwF]. destruct rows as [|r0 rows0]; [cbn in Hwl; lia|]. cbn [ncols].
    assert (In r0 (r0 :: rows0)) by now left. rewrite Hrows in H. apply in_map_iff in H. destruct H as [id [E Hid]].
    specialize (Hsome id Hid). unfold g in *. destruct (hier_rank levels id); [|congruence]. rewrite <- E.
    now rewrite map_length, seq_length. }
  rewrite HD.
  (* the witness *)
  set (S1 := nodupN (interN ps1 ids)).
  assert (HS1 : forall id, In id S1 <-> In id ps1 /\ In id ids).
  { intros id. unfold S1, interN. rewrite in_nodupN, filter_In, memN_In. tauto. }
  set (nodes := map fromN S1).
  assert (Hln : (length nodes < t1)%nat) by (unfold nodes, S1; rewrite map_length; exact Hcard).
  assert (Hp0 : fprod_sub K 0 nodes <> 0).
  { intro E. apply (fprod_sub_eq_0_iff K HK) in E. unfold nodes in E. apply in_map_iff in E.
    destruct E as [id [E Hid]]. apply HS1 in Hid. destruct Hid. now apply (Hnz id). }
  set (c := finv K (fprod_sub K 0 nodes)).
  set (P := pscale K c (pprod_lin K nodes)).
  assert (HlP : length P = Datatypes.S (length nodes)) by (unfold P; now rewrite (pscale_length K), (pprod_lin_length K)).
  exists (P ++ repeat 0 (k - Datatypes.S (length nodes))). split; [|split].
  - rewrite app_length, repeat_length. lia.
  - intros id v Hin Hid. destruct (Hrl id v Hin) as [j [Hj ->]].
    assert (Hlw : length (P ++ repeat 0 (k - Datatypes.S (length nodes))) = k) by (rewrite app_length, repeat_length; lia).
    unfold levels in Hj. cbn [hier_rank hier_rank_from] in Hj.
    destruct (memN id ps1) eqn:Em.
    + (* first-level holder: a scaled Vandermonde row *)
      inversion Hj; subst j. apply memN_In in Em.
      rewrite (birkhoff_row_action K HK k (fromN id) (N.of_nat 0) _ Hlw). cbn [N.of_nat N.to_nat pderiv_iter].
      rewrite (peval_eq_peval_r K HK).
      rewrite (peval_r_pad K HK). unfold P. rewrite (peval_r_pscale K HK), (peval_r_pprod_lin K HK).
      assert (Ez : fprod_sub K (fromN id) nodes = 0).
      { apply (fprod_sub_eq_0_iff K HK). unfold nodes. apply in_map. apply HS1. auto. }
      rewrite Ez. ring.
    + (* a holder of a lower level: derivative order >= t1, the row vanishes where w does not *)
      assert (Hjge : (t1 <= j)%nat).
      { destruct Hincr as [_ Hi]. exact (rank_from_ge rest t1 id j Hi Hj). }
      apply (dot_all_zero K HK). intros c0.
      rewrite (nth_map_seq (fun c1 => phi K c1 (fromN id) (N.of_nat j)) k 0 c0 0).
      destruct (Nat.ltb c0 k); [|ring]. cbn [plus].
      destruct (Nat.ltb c0 j) eqn:Ecj; [apply Nat.ltb_lt in Ecj; rewrite (phi_gt K) by (rewrite Nat2N.id; lia); ring|]. apply Nat.ltb_ge in Ecj.
      rewrite nth_app_zeros by lia. ring.
  - rewrite <- (peval_r_at_0 K HK). rewrite (peval_r_pad K HK). unfold P.
    rewrite (peval_r_pscale K HK), (peval_r_pprod_lin K HK). unfold c. apply (finv_l K HK). exact Hp0.
Qed.

End Hier.
