(* Dkg_proofs.v — lemmas about model/Dkg.v, over an arbitrary field record K with [flaws K],
   an arbitrary row map [rows] (any MSP) and any number of parties. *)
From Coq Require Import List NArith ZArith Bool Lia Permutation Ring Field.
From Coq Require Import ZifyN ZifyNat ZifyBool.
Require Import V.base.Fld V.model.Dkg.
Import ListNotations.

Section DkgProofs.
Context {F : Type} (K : fops F) (HK : flaws K).

Add Field Kfield_dkg : (fl_theory K HK).

Notation "0" := (f0 K).
Notation "1" := (f1 K).
Infix "+" := (fadd K).
Infix "*" := (fmul K).

(* ---- vectors ----------------------------------------------------------------------- *)

Lemma vadd_nil_l : forall b, vadd K [] b = [].
Proof. reflexivity. Qed.

Lemma vadd_nil_r : forall a, vadd K a [] = [].
Proof. destruct a; reflexivity. Qed.

Lemma vadd_cons : forall x a y b, vadd K (x :: a) (y :: b) = (x + y) :: vadd K a b.
Proof. reflexivity. Qed.

Lemma vadd_length : forall a b, length a = length b -> length (vadd K a b) = length a.
Proof.
  induction a as [|x a IH]; intros [|y b] H; cbn in *; try reflexivity; try discriminate.
  f_equal. apply IH. lia.
Qed.

Lemma vadd_comm : forall a b, vadd K a b = vadd K b a.
Proof.
  induction a as [|x a IH]; intros [|y b]; try reflexivity.
  rewrite !vadd_cons, IH. f_equal. ring.
Qed.

Lemma vadd_assoc : forall a b c, vadd K (vadd K a b) c = vadd K a (vadd K b c).
Proof.
  induction a as [|x a IH]; intros [|y b] [|z c]; try reflexivity.
  rewrite !vadd_cons, IH. f_equal. ring.
Qed.

Lemma vadd_swap : forall a b c, vadd K (vadd K a b) c = vadd K (vadd K a c) b.
Proof. intros. rewrite !vadd_assoc. f_equal. apply vadd_comm. Qed.

Lemma zeros_length : forall n, length (zeros K n) = n.
Proof. intros. apply repeat_length. Qed.

Lemma vadd_zeros_l : forall a, vadd K (zeros K (length a)) a = a.
Proof.
  induction a as [|x a IH]; [reflexivity|]. cbn [length zeros repeat].
  change (repeat 0 (length a)) with (zeros K (length a)). rewrite vadd_cons, IH. f_equal. ring.
Qed.

Lemma dot_nil_l : forall b, dot K [] b = 0.
Proof. reflexivity. Qed.

Lemma dot_nil_r : forall a, dot K a [] = 0.
Proof. destruct a; reflexivity. Qed.

Lemma dot_cons : forall x a y b, dot K (x :: a) (y :: b) = x * y + dot K a b.
Proof. reflexivity. Qed.

Lemma dot_vadd_r : forall a b c, length b = length c ->
  dot K a (vadd K b c) = dot K a b + dot K a c.
Proof.
  induction a as [|x a IH]; intros [|y b] [|z c] H; cbn in H; try discriminate.
  - rewrite !dot_nil_l. ring.
  - rewrite !dot_nil_l. ring.
  - rewrite vadd_nil_l, !dot_nil_r. ring.
  - rewrite vadd_cons, !dot_cons, IH by lia. ring.
Qed.

Lemma dot_vadd_l : forall a b c, length a = length b ->
  dot K (vadd K a b) c = dot K a c + dot K b c.
Proof.
  induction a as [|x a IH]; intros [|y b] [|z c] H; cbn in H; try discriminate.
  - rewrite vadd_nil_l, !dot_nil_l. ring.
  - rewrite vadd_nil_l, !dot_nil_l. ring.
  - rewrite !dot_nil_r. ring.
  - rewrite vadd_cons, !dot_cons, IH by lia. ring.
Qed.

Lemma dot_vscale_l : forall c a b, dot K (vscale K c a) b = c * dot K a b.
Proof.
  induction a as [|x a IH]; intros [|y b]; cbn [vscale map]; rewrite ?dot_nil_l, ?dot_nil_r; try ring.
  change (map (fun x0 => c * x0) a) with (vscale K c a). rewrite !dot_cons, IH. ring.
Qed.

Lemma dot_zeros_l : forall n b, dot K (zeros K n) b = 0.
Proof.
  induction n as [|n IH]; intros [|y b]; try reflexivity.
  cbn [zeros repeat]. change (repeat 0 n) with (zeros K n). rewrite dot_cons, IH. ring.
Qed.

Lemma vscale_length : forall c a, length (vscale K c a) = length a.
Proof. intros. apply map_length. Qed.

Lemma mv_length : forall M x, length (mv K M x) = length M.
Proof. intros. apply map_length. Qed.

Lemma mv_vadd : forall M b c, length b = length c ->
  mv K M (vadd K b c) = vadd K (mv K M b) (mv K M c).
Proof.
  induction M as [|r M IH]; intros b c H; [reflexivity|].
  cbn [mv map]. change (map (fun r0 => dot K r0 ?x) M) with (mv K M x).
  rewrite vadd_cons. f_equal; [apply dot_vadd_r; exact H| apply IH; exact H].
Qed.

(* ---- lift ---------------------------------------------------------------------------- *)
Variable g : F.

Lemma lift_length : forall v, length (lift K g v) = length v.
Proof. intros. apply map_length. Qed.

Lemma lift_vadd : forall a b, lift K g (vadd K a b) = vadd K (lift K g a) (lift K g b).
Proof.
  induction a as [|x a IH]; intros [|y b]; try reflexivity.
  rewrite vadd_cons. cbn [lift map]. change (map (fun x0 => x0 * g) ?l) with (lift K g l).
  rewrite vadd_cons, IH. f_equal. ring.
Qed.

Lemma dot_lift_r : forall a b, dot K a (lift K g b) = dot K a b * g.
Proof.
  induction a as [|x a IH]; intros [|y b]; rewrite ?dot_nil_l, ?dot_nil_r; try (cbn; ring).
  cbn [lift map]. change (map (fun x0 => x0 * g) b) with (lift K g b).
  rewrite !dot_cons, IH. ring.
Qed.

Lemma mv_lift : forall M v, mv K M (lift K g v) = lift K g (mv K M v).
Proof.
  induction M as [|r M IH]; intros v; [reflexivity|].
  cbn [mv map lift]. f_equal; [apply dot_lift_r| apply IH].
Qed.

(* ---- veqb ----------------------------------------------------------------------------- *)
Lemma veqb_refl : forall a, veqb K a a = true.
Proof.
  intros a. unfold veqb. rewrite Nat.eqb_refl. cbn [andb].
  induction a as [|x a IH]; [reflexivity|]. cbn [combine forallb fst snd]. rewrite IH, andb_true_r.
  apply (fl_eqb K HK). reflexivity.
Qed.

Lemma veqb_true : forall a b, veqb K a b = true -> a = b.
Proof.
  induction a as [|x a IH]; intros [|y b] H; unfold veqb in H; cbn in H; try reflexivity; try discriminate.
  apply andb_true_iff in H. destruct H as [Hl H]. apply andb_true_iff in H. destruct H as [Hx H].
  apply (fl_eqb K HK) in Hx. subst y. f_equal. apply IH. unfold veqb. now rewrite Hl, H.
Qed.

Lemma veqb_iff : forall a b, veqb K a b = true <-> a = b.
Proof. intros; split; [apply veqb_true| intros ->; apply veqb_refl]. Qed.

(* ---- sums of vectors ------------------------------------------------------------------- *)
Lemma fold_vadd_perm : forall l l', Permutation l l' ->
  forall a, fold_left (vadd K) l a = fold_left (vadd K) l' a.
Proof.
  induction 1 as [|x l l' _ IH|x y l|l l' l'' _ IH1 _ IH2]; intros a; cbn [fold_left].
  - reflexivity.
  - apply IH.
  - now rewrite vadd_swap.
  - now rewrite IH1, IH2.
Qed.

Lemma fold_vadd_length : forall n l a, length a = n -> Forall (fun v => length v = n) l ->
  length (fold_left (vadd K) l a) = n.
Proof.
  induction l as [|x l IH]; intros a Ha Hl; cbn [fold_left]; [exact Ha|].
  inversion Hl as [|? ? Hx Hl']; subst. apply IH; [|exact Hl'].
  rewrite vadd_length; congruence.
Qed.

Lemma vsum_length : forall n l, Forall (fun v => length v = n) l -> length (vsum K n l) = n.
Proof. intros. apply fold_vadd_length; [apply zeros_length|assumption]. Qed.

Lemma vsum_cons : forall n x l, length x = n -> vsum K n (x :: l) = fold_left (vadd K) l x.
Proof. intros n x l H. unfold vsum. cbn [fold_left]. subst n. now rewrite vadd_zeros_l. Qed.

Lemma dot_zeros_r : forall a n, dot K a (zeros K n) = 0.
Proof.
  induction a as [|x a IH]; intros [|n]; try reflexivity.
  cbn [zeros repeat]. change (repeat 0 n) with (zeros K n). rewrite dot_cons, IH. ring.
Qed.

Lemma mv_zeros : forall M n, mv K M (zeros K n) = zeros K (length M).
Proof.
  induction M as [|r M IH]; intros n; [reflexivity|].
  cbn [mv map length zeros repeat]. f_equal; [apply dot_zeros_r| apply IH].
Qed.

Lemma mv_fold_vadd : forall M n l a, length a = n -> Forall (fun v => length v = n) l ->
  mv K M (fold_left (vadd K) l a) = fold_left (vadd K) (map (mv K M) l) (mv K M a).
Proof.
  induction l as [|x l IH]; intros a Ha Hl; cbn [fold_left map]; [reflexivity|].
  inversion Hl as [|? ? Hx Hl']; subst.
  rewrite IH; [|rewrite vadd_length; congruence|exact Hl'].
  rewrite mv_vadd by congruence. reflexivity.
Qed.

Lemma mv_vsum : forall M n l, Forall (fun v => length v = n) l ->
  mv K M (vsum K n l) = vsum K (length M) (map (mv K M) l).
Proof.
  intros. unfold vsum. rewrite (mv_fold_vadd M n); [|apply zeros_length|assumption].
  now rewrite mv_zeros.
Qed.

Lemma lift_zeros : forall n, lift K g (zeros K n) = zeros K n.
Proof.
  induction n as [|n IH]; [reflexivity|]. cbn [zeros repeat lift map].
  change (map (fun x => x * g) (repeat 0 n)) with (lift K g (zeros K n)). rewrite IH. f_equal. ring.
Qed.

Lemma lift_fold_vadd : forall l a,
  lift K g (fold_left (vadd K) l a) = fold_left (vadd K) (map (lift K g) l) (lift K g a).
Proof.
  induction l as [|x l IH]; intros a; cbn [fold_left map]; [reflexivity|].
  now rewrite IH, lift_vadd.
Qed.

Lemma lift_vsum : forall n l, lift K g (vsum K n l) = vsum K n (map (lift K g) l).
Proof. intros. unfold vsum. now rewrite lift_fold_vadd, lift_zeros. Qed.

Lemma dot_fold_vadd_r : forall c n l a, length a = n -> Forall (fun v => length v = n) l ->
  dot K c (fold_left (vadd K) l a) = fold_left (fun acc v => acc + dot K c v) l (dot K c a).
Proof.
  induction l as [|x l IH]; intros a Ha Hl; cbn [fold_left]; [reflexivity|].
  inversion Hl as [|? ? Hx Hl']; subst.
  rewrite IH; [|rewrite vadd_length; congruence|exact Hl'].
  rewrite dot_vadd_r by congruence. reflexivity.
Qed.

Lemma dot_e0 : forall n v, (0 < n)%nat -> dot K (e0 K n) v = hd 0 v.
Proof.
  intros [|n] [|x v] H; try lia; try reflexivity.
  cbn [e0]. rewrite dot_cons, dot_zeros_l. cbn [hd]. ring.
Qed.

(* ---- λ·(M·x) = (λ·M)·x ----------------------------------------------------------------- *)
Lemma vecm_length : forall d l M, Forall (fun r => length r = d) M -> length (vecm K d l M) = d.
Proof.
  intros d l M. revert l. induction M as [|r M IH]; intros [|c l] HM; cbn [vecm combine fold_right];
    try apply zeros_length.
  inversion HM as [|? ? Hr HM']; subst. cbn [fst snd].
  change (fold_right _ (zeros K (length r)) (combine l M)) with (vecm K (length r) l M).
  rewrite vadd_length; rewrite vscale_length; [reflexivity|]. symmetry. now apply IH.
Qed.

Lemma dot_vecm : forall d l M x, Forall (fun r => length r = d) M ->
  dot K (vecm K d l M) x = dot K l (mv K M x).
Proof.
  intros d l M x. revert l. induction M as [|r M IH]; intros [|c l] HM; cbn [vecm combine fold_right mv map];
    rewrite ?dot_zeros_l, ?dot_nil_l, ?dot_nil_r; try reflexivity.
  inversion HM as [|? ? Hr HM']; subst. cbn [fst snd].
  change (fold_right _ (zeros K (length r)) (combine l M)) with (vecm K (length r) l M).
  change (map (fun r0 => dot K r0 x) M) with (mv K M x).
  rewrite dot_vadd_l by (rewrite vscale_length; symmetry; now apply vecm_length).
  rewrite dot_vscale_l, dot_cons, IH by assumption. reflexivity.
Qed.

(* ---- the accumulate-after-check loop ---------------------------------------------------- *)
Lemma acc_loop_ok : forall {M S : Type} (check : S -> N -> M -> bool) (step : S -> M -> S) (I : S -> Prop)
  (inbox : list (N * M)) (acc : S),
  I acc ->
  (forall a j m, In (j, m) inbox -> I a -> check a j m = true /\ I (step a m)) ->
  acc_loop check step acc inbox = Ok (fold_left step (map snd inbox) acc).
Proof.
  intros M S check step I inbox. induction inbox as [|[j m] rest IH]; intros acc HI H; cbn [acc_loop map fold_left snd].
  - reflexivity.
  - destruct (H acc j m (or_introl eq_refl) HI) as [Hc HI']. rewrite Hc.
    apply IH; [exact HI'|]. intros a j' m' Hin. apply H. now right.
Qed.

Lemma fold_left_step_map : forall {A B C : Type} (op : A -> B -> A) (h : C -> B) (l : list C) (a : A),
  fold_left (fun acc m => op acc (h m)) l a = fold_left op (map h l) a.
Proof. intros A B C op h l. induction l as [|x l IH]; intros a; cbn [fold_left map]; [reflexivity| apply IH]. Qed.

(* ---- others: everybody but i, in order ---------------------------------------------------- *)
Lemma others_notin : forall {A} (i : N) (l : list (N * A)), ~ In i (map fst l) -> others i l = l.
Proof.
  intros A i l. induction l as [|[j a] l IH]; intros H; [reflexivity|].
  cbn [others filter fst]. cbn [map fst In] in H.
  destruct (N.eqb j i) eqn:E.
  - apply N.eqb_eq in E. exfalso. apply H. now left.
  - cbn [negb]. f_equal. apply IH. intro. apply H. now right.
Qed.

Lemma others_perm : forall {A} (i : N) (a : A) (l : list (N * A)),
  NoDup (map fst l) -> In (i, a) l -> Permutation l ((i, a) :: others i l).
Proof.
  intros A i a l. induction l as [|[j b] l IH]; intros Hnd Hin; [contradiction|].
  cbn [map fst] in Hnd. inversion Hnd as [|? ? Hnotin Hnd']; subst.
  cbn [others filter fst]. destruct (N.eqb j i) eqn:E.
  - apply N.eqb_eq in E. subst j. cbn [negb].
    assert (b = a) as ->.
    { destruct Hin as [Heq|Hin]; [congruence|]. exfalso. apply Hnotin.
      change i with (fst (i, a)). now apply in_map. }
    change (filter _ l) with (others i l). rewrite others_notin by assumption. apply Permutation_refl.
  - cbn [negb]. change (filter _ l) with (others i l).
    destruct Hin as [Heq|Hin]; [inversion Heq; subst; rewrite N.eqb_refl in E; discriminate|].
    eapply perm_trans; [apply perm_skip, IH; assumption| apply perm_swap].
Qed.

Lemma others_in : forall {A} (i : N) (l : list (N * A)) p, In p (others i l) -> In p l /\ fst p <> i.
Proof.
  intros A i l p H. unfold others in H. apply filter_In in H. destruct H as [H1 H2]. split; [exact H1|].
  apply negb_true_iff, N.eqb_neq in H2. exact H2.
Qed.

(* party i's sum (own contribution first, then the others in order) is the sum over everybody *)
Lemma party_sum : forall {A} (f : N * A -> list F) n (i : N) (a : A) (l : list (N * A)),
  NoDup (map fst l) -> In (i, a) l -> Forall (fun p => length (f p) = n) l ->
  fold_left (vadd K) (map f (others i l)) (f (i, a)) = vsum K n (map f l).
Proof.
  intros A f n i a l Hnd Hin Hlen.
  assert (Hp := others_perm i a l Hnd Hin).
  unfold vsum. rewrite (fold_vadd_perm _ _ (Permutation_map f Hp)). cbn [map fold_left].
  rewrite Forall_forall in Hlen. rewrite <- (Hlen _ Hin). now rewrite vadd_zeros_l.
Qed.

(* ==== the protocols ========================================================================== *)
Variable rows : N -> list (list F).
Variable D : nat.
Hypothesis Hrows : forall h, Forall (fun r => length r = D) (rows h).     (* every MSP row has D columns *)

Lemma take_column_length : forall (t r t' : list F), take_column D t = Some (r, t') -> length r = D /\ (2 <= D)%nat.
Proof.
  intros [|s rest] r t' H; cbn [take_column] in H; [discriminate|].
  destruct (Nat.ltb (length rest) D || Nat.ltb D 2) eqn:E; [discriminate|].
  apply orb_false_iff in E. destruct E as [E1 E2]. apply Nat.ltb_ge in E1, E2.
  inversion H; subst. split; [|exact E2].
  assert (length (firstn D rest) = D) by (apply firstn_length_le; exact E1).
  destruct (firstn D rest) as [|y ys] eqn:Ef; cbn [tl length] in *; lia.
Qed.

Lemma take_column_hd : forall s (rest r t' : list F), take_column D (s :: rest) = Some (r, t') -> hd 0 r = s.
Proof.
  intros s rest r t' H. cbn [take_column] in H.
  destruct (Nat.ltb (length rest) D || Nat.ltb D 2); [discriminate|]. inversion H; reflexivity.
Qed.

(* ---- NewBaseShard accepts exactly the shares that match the vector ------------------------ *)
Lemma new_base_shard_some_iff : forall holders i share vv,
  (exists s, new_base_shard K rows D g holders i share vv = Some s) <->
  length vv = D /\ In i holders /\ lift K g share = mv K (rows i) vv.
Proof.
  intros holders i share vv. unfold new_base_shard.
  destruct (Nat.eqb (length vv) D) eqn:E1; cbn [negb].
  2:{ apply Nat.eqb_neq in E1. split; [intros [s H]; discriminate| intros [H _]; contradiction]. }
  apply Nat.eqb_eq in E1.
  destruct (existsb (N.eqb i) holders) eqn:E2; cbn [negb].
  2:{ split; [intros [s H]; discriminate|]. intros (_ & Hin & _). exfalso.
      assert (existsb (N.eqb i) holders = true) by (apply existsb_exists; exists i; split; [exact Hin| apply N.eqb_refl]).
      congruence. }
  apply existsb_exists in E2. destruct E2 as (x & Hx & Hix). apply N.eqb_eq in Hix. subst x.
  destruct (veqb K (lift K g share) (mv K (rows i) vv)) eqn:E3.
  - apply veqb_true in E3. split; [intros _; auto| intros _; eexists; reflexivity].
  - split; [intros [s H]; discriminate|]. intros (_ & _ & H). rewrite H, veqb_refl in E3. discriminate.
Qed.

Lemma new_base_shard_ok : forall holders i x,
  length x = D -> In i holders ->
  new_base_shard K rows D g holders i (mv K (rows i) x) (lift K g x) =
  Some (mk_shard (mv K (rows i) x) (lift K g x) (dot K (e0 K D) (lift K g x))
                 (map (fun h => (h, mv K (rows h) (lift K g x))) holders)).
Proof.
  intros holders i x Hx Hin. unfold new_base_shard.
  rewrite lift_length, Hx, Nat.eqb_refl. cbn [negb].
  assert (existsb (N.eqb i) holders = true) as ->
    by (apply existsb_exists; exists i; split; [exact Hin| apply N.eqb_refl]).
  cbn [negb]. rewrite mv_lift, veqb_refl. reflexivity.
Qed.

(* ==== Gennaro ================================================================================ *)
Definition wf_gdeal (d : @g_deal F) : Prop := length (gd_r d) = D /\ length (gd_b d) = D.

Lemma gennaro_deal_wf : forall (t : list F) d, gennaro_deal D t = Some d -> wf_gdeal d /\ (2 <= D)%nat.
Proof.
  intros t d H. unfold gennaro_deal in H.
  destruct (take_column D t) as [[r t']|] eqn:E1; [|discriminate].
  destruct (take_column D t') as [[b t'']|] eqn:E2; [|discriminate].
  inversion H; subst. apply take_column_length in E1, E2. unfold wf_gdeal. cbn. tauto.
Qed.

(* the sum of the dealers' secret columns *)
Definition g_rsum (deals : list (N * @g_deal F)) : list F := vsum K D (map (fun p => gd_r (snd p)) deals).

Lemma g_rsum_length : forall deals, Forall (fun p => wf_gdeal (snd p)) deals -> length (g_rsum deals) = D.
Proof.
  intros deals H. apply vsum_length. rewrite Forall_map. eapply Forall_impl; [|exact H].
  intros p [Hp _]. exact Hp.
Qed.

(* closed form of an honest party's output: every check passes, the share is M_i · R, the
   vector is Lift(R), with R the sum of all dealers' columns *)
Lemma gennaro_party_closed : forall holders deals i di,
  NoDup (map fst deals) -> Forall (fun p => wf_gdeal (snd p)) deals ->
  In (i, di) deals -> In i holders ->
  gennaro_party K rows D g holders deals i di =
  Ok (mk_shard (mv K (rows i) (g_rsum deals)) (lift K g (g_rsum deals))
               (dot K (e0 K D) (lift K g (g_rsum deals)))
               (map (fun h => (h, mv K (rows h) (lift K g (g_rsum deals)))) holders)).
Proof.
  intros holders deals i di Hnd Hwf Hin Hhold. unfold gennaro_party.
  assert (Hwfo : forall p, In p (others i deals) -> wf_gdeal (snd p)).
  { intros p Hp. apply others_in in Hp. rewrite Forall_forall in Hwf. apply Hwf. tauto. }
  (* round 2 loop *)
  rewrite (acc_loop_ok _ _ (fun acc => length acc = length (rows i))).
  2:{ apply mv_length. }
  2:{ intros a j m Hm Ha. apply in_map_iff in Hm. destruct Hm as (p & Hp & Hpin). inversion Hp; subst j m. clear Hp.
      destruct (Hwfo p Hpin) as [Hr Hb]. split.
      - unfold g_check_r1, g_round1_bcast, g_round1_ucast. cbn [fst snd pv_g pv_h ok_r ok_b us ub].
        rewrite lift_length, Hr, Hb, Nat.eqb_refl, !veqb_refl, mv_lift, veqb_refl, mv_length, Ha, Nat.eqb_refl.
        reflexivity.
      - cbn [snd g_round1_ucast us]. rewrite vadd_length; [exact Ha| now rewrite mv_length]. }
  (* round 3 loop *)
  rewrite (acc_loop_ok _ _ (fun acc => length acc = D)).
  2:{ rewrite lift_length. rewrite Forall_forall in Hwf. exact (proj1 (Hwf _ Hin)). }
  2:{ intros a j m Hm Ha. apply in_map_iff in Hm. destruct Hm as (p & Hp & Hpin). inversion Hp; subst j m. clear Hp.
      destruct (Hwfo p Hpin) as [Hr Hb]. split.
      - unfold g_check_r2, g_round2_bcast, g_round1_ucast. cbn [fst snd feld sch_w us].
        rewrite lift_length, Hr, Nat.eqb_refl, veqb_refl, mv_lift, veqb_refl, Ha, Nat.eqb_refl. reflexivity.
      - cbn [fst g_round2_bcast feld]. rewrite vadd_length; [exact Ha| now rewrite lift_length, Hr]. }
  (* the two sums *)
  rewrite (fold_left_step_map (vadd K) (fun m : g_r1b * g_r1u => us (snd m))).
  rewrite (fold_left_step_map (vadd K) (fun m : g_r2b * list F => feld (fst m))).
  rewrite !map_map. cbn [snd fst g_round1_ucast g_round2_bcast us feld].
  pose proof (party_sum (fun p : N * g_deal => mv K (rows i) (gd_r (snd p))) (length (rows i)) i di deals Hnd Hin) as P1.
  cbn beta in P1. cbn [snd] in P1. rewrite P1.
  2:{ rewrite Forall_forall. intros p _. apply mv_length. }
  pose proof (party_sum (fun p : N * g_deal => lift K g (gd_r (snd p))) D i di deals Hnd Hin) as P2.
  cbn beta in P2. cbn [snd] in P2. rewrite P2.
  2:{ eapply Forall_impl; [|exact Hwf]. intros p [Hr _]. now rewrite lift_length. }
  assert (Hs1 : vsum K (length (rows i)) (map (fun p : N * g_deal => mv K (rows i) (gd_r (snd p))) deals)
                = mv K (rows i) (g_rsum deals)).
  { unfold g_rsum. rewrite (mv_vsum _ D), map_map; [reflexivity|].
    rewrite Forall_map. eapply Forall_impl; [|exact Hwf]. intros p [Hr _]. exact Hr. }
  assert (Hs2 : vsum K D (map (fun p : N * g_deal => lift K g (gd_r (snd p))) deals) = lift K g (g_rsum deals)).
  { unfold g_rsum. now rewrite lift_vsum, map_map. }
  rewrite Hs1, Hs2, new_base_shard_ok; [reflexivity| now apply g_rsum_length| exact Hhold].
Qed.

(* ---- what every honest party ends with, as a function of the summed column R ----------------- *)
Definition closed_shard (holders : list N) (R : list F) (i : N) : @shard F :=
  mk_shard (mv K (rows i) R) (lift K g R) (dot K (e0 K D) (lift K g R))
           (map (fun h => (h, mv K (rows h) (lift K g R))) holders).

(* sum of the first scalar of every tape: the dealers' secrets *)
Definition secret_sum (parties : list (N * list F)) : F :=
  fold_left (fun acc p => acc + hd 0 (snd p)) parties 0.

Lemma hd_vadd : forall a b, length a = length b -> hd 0 (vadd K a b) = hd 0 a + hd 0 b.
Proof. intros [|x a] [|y b] H; cbn in *; try discriminate; [ring|reflexivity]. Qed.

Lemma hd_fold_vadd : forall n l a, length a = n -> Forall (fun v => length v = n) l ->
  hd 0 (fold_left (vadd K) l a) = fold_left (fun acc v => acc + hd 0 v) l (hd 0 a).
Proof.
  induction l as [|x l IH]; intros a Ha Hl; cbn [fold_left]; [reflexivity|].
  inversion Hl as [|? ? Hx Hl']; subst.
  rewrite IH; [|rewrite vadd_length; congruence|exact Hl']. rewrite hd_vadd by congruence. reflexivity.
Qed.

Lemma hd_zeros : forall n, hd 0 (zeros K n) = 0.
Proof. intros [|n]; reflexivity. Qed.

Lemma all_some_spec : forall {A B : Type} (f : A -> option B) (l : list (N * A)) r,
  all_some (map (fun p => (fst p, f (snd p))) l) = Some r ->
  Forall2 (fun p q => fst p = fst q /\ f (snd p) = Some (snd q)) l r.
Proof.
  intros A B f l. induction l as [|[i a] l IH]; intros r H; cbn [map all_some fst snd] in H.
  - inversion H. constructor.
  - destruct (f a) as [b|] eqn:Ef; [|discriminate].
    destruct (all_some (map (fun p => (fst p, f (snd p))) l)) as [r'|] eqn:Er; [|discriminate].
    inversion H; subst. constructor; [cbn; split; [reflexivity|exact Ef]| apply IH; reflexivity].
Qed.

Lemma all_some_none : forall {A B : Type} (f : A -> option B) (l : list (N * A)),
  all_some (map (fun p => (fst p, f (snd p))) l) = None -> exists p, In p l /\ f (snd p) = None.
Proof.
  intros A B f l. induction l as [|[i a] l IH]; intros H; cbn [map all_some fst snd] in H; [discriminate|].
  destruct (f a) as [b|] eqn:Ef.
  - destruct (all_some (map (fun p => (fst p, f (snd p))) l)) as [r'|] eqn:Er; [discriminate|].
    destruct (IH eq_refl) as (p & Hp & Hn). exists p. split; [now right|exact Hn].
  - exists (i, a). split; [now left|exact Ef].
Qed.

Lemma all_some_complete : forall {A B : Type} (f : A -> option B) (l : list (N * A)),
  (forall p, In p l -> f (snd p) <> None) -> exists r, all_some (map (fun p => (fst p, f (snd p))) l) = Some r.
Proof.
  intros A B f l H. destruct (all_some (map (fun p => (fst p, f (snd p))) l)) as [r|] eqn:E; [eauto|].
  apply all_some_none in E. destruct E as (p & Hp & Hn). exfalso. exact (H p Hp Hn).
Qed.

Lemma Forall2_map_fst : forall {A B : Type} (P : A -> B -> Prop) (l : list (N * A)) (r : list (N * B)),
  Forall2 (fun p q => fst p = fst q /\ P (snd p) (snd q)) l r -> map fst l = map fst r.
Proof. induction 1 as [|p q l r [H1 _] _ IH]; cbn [map]; [reflexivity| now rewrite H1, IH]. Qed.

(* ---- Gennaro: the run in closed form ------------------------------------------------------------- *)
Lemma gennaro_deals_spec : forall (parties : list (N * list F)) deals,
  Forall2 (fun p q => fst p = fst q /\ gennaro_deal D (snd p) = Some (snd q)) parties deals ->
  Forall (fun p => wf_gdeal (snd p)) deals /\ hd 0 (g_rsum deals) = secret_sum parties.
Proof.
  intros parties deals H. split.
  - induction H as [|p q l r [_ Hd] _ IH]; constructor; [|exact IH]. apply gennaro_deal_wf in Hd. tauto.
  - assert (Hwf : Forall (fun v => length v = D) (map (fun p => gd_r (snd p)) deals)).
    { rewrite Forall_map. induction H as [|p q l r [_ Hd] _ IH]; constructor; [|exact IH].
      apply gennaro_deal_wf in Hd. destruct Hd as [[Hr _] _]. exact Hr. }
    unfold g_rsum, vsum, secret_sum. rewrite (hd_fold_vadd D) by (try apply zeros_length; exact Hwf).
    rewrite hd_zeros. clear Hwf. generalize 0 at 2 4 as acc.
    induction H as [|p q l r [_ Hd] _ IH]; intros acc; cbn [map fold_left]; [reflexivity|].
    rewrite IH. f_equal. f_equal. unfold gennaro_deal in Hd.
    destruct (snd p) as [|x t]; [discriminate|].
    destruct (take_column D (x :: t)) as [[rr t']|] eqn:E1; [|discriminate].
    destruct (take_column D t') as [[b t'']|]; [|discriminate]. inversion Hd; subst. cbn [gd_r].
    now rewrite (take_column_hd _ _ _ _ E1).
Qed.

Lemma gennaro_run_closed : forall holders (parties : list (N * list F)) deals,
  NoDup (map fst parties) -> (forall j, In j (map fst parties) -> In j holders) ->
  all_some (map (fun p => (fst p, gennaro_deal D (snd p))) parties) = Some deals ->
  gennaro_run K rows D g holders parties =
    map (fun p => (fst p, Ok (closed_shard holders (g_rsum deals) (fst p)))) deals
  /\ map fst deals = map fst parties
  /\ Forall (fun p => wf_gdeal (snd p)) deals
  /\ hd 0 (g_rsum deals) = secret_sum parties.
Proof.
  intros holders parties deals Hnd Hsub Hall. unfold gennaro_run. rewrite Hall.
  apply all_some_spec in Hall.
  pose proof (Forall2_map_fst (fun t d => gennaro_deal D t = Some d) _ _ Hall) as Hfst.
  destruct (gennaro_deals_spec _ _ Hall) as [Hwf Hhd].
  split; [|split; [now symmetry|split; assumption]].
  apply map_ext_in. intros [i di] Hin. cbn [fst snd]. f_equal.
  apply gennaro_party_closed; try assumption; [now rewrite <- Hfst|].
  apply Hsub. rewrite Hfst. change i with (fst (i, di)). now apply in_map.
Qed.

Lemma gennaro_run_failed : forall holders (parties : list (N * list F)),
  all_some (map (fun p => (fst p, gennaro_deal D (snd p))) parties) = None ->
  forall i v, In (i, v) (gennaro_run K rows D g holders parties) -> v = Fail.
Proof.
  intros holders parties Hall i v Hin. unfold gennaro_run in Hin. rewrite Hall in Hin.
  apply in_map_iff in Hin. destruct Hin as (p & Hp & _). now inversion Hp.
Qed.

(* ==== Canetti ================================================================================== *)
Definition wf_cdeal (d : @c_deal F) : Prop := length (cd_r d) = D.
Definition c_rsum (deals : list (N * @c_deal F)) : list F := vsum K D (map (fun p => cd_r (snd p)) deals).

Lemma fold_left_pair : forall {M : Type} (x s : M -> list F) (l : list M) a b,
  fold_left (fun (acc : list F * list F) m => (vadd K (fst acc) (x m), vadd K (snd acc) (s m))) l (a, b) =
  (fold_left (vadd K) (map x l) a, fold_left (vadd K) (map s l) b).
Proof. intros M x s l. induction l as [|m l IH]; intros a b; cbn [fold_left map fst snd]; [reflexivity| apply IH]. Qed.

Lemma find_all_false : forall {A : Type} (f : A -> bool) (l : list A),
  (forall x, In x l -> f x = false) -> find f l = None.
Proof.
  intros A f l. induction l as [|x l IH]; intros H; cbn [find]; [reflexivity|].
  rewrite (H x (or_introl eq_refl)). apply IH. intros y Hy. apply H. now right.
Qed.

Lemma canetti_party_closed : forall holders deals i di,
  NoDup (map fst deals) -> Forall (fun p => wf_cdeal (snd p)) deals ->
  In (i, di) deals -> In i holders ->
  canetti_party K rows D g holders deals i di = Ok (closed_shard holders (c_rsum deals) i).
Proof.
  intros holders deals i di Hnd Hwf Hin Hhold. unfold canetti_party.
  assert (Hwfo : forall p, In p (others i deals) -> wf_cdeal (snd p)).
  { intros p Hp. apply others_in in Hp. rewrite Forall_forall in Hwf. apply Hwf. tauto. }
  assert (Hdi : length (cd_r di) = D) by (rewrite Forall_forall in Hwf; exact (Hwf _ Hin)).
  rewrite (acc_loop_ok _ _ (fun acc => length (fst acc) = D /\ length (snd acc) = length (rows i))).
  2:{ cbn [fst snd]. now rewrite lift_length, mv_length. }
  2:{ intros a j m Hm [Ha1 Ha2]. apply in_map_iff in Hm. destruct Hm as (p & Hp & Hpin). inversion Hp; subst j m. clear Hp.
      pose proof (Hwfo p Hpin) as Hr. unfold wf_cdeal in Hr. split.
      - unfold c_check_r2, c_open_eqb, c_round1_commit, c_round2_open, c_round2_share.
        cbn [fst snd co_from co_x co_aux].
        rewrite N.eqb_refl, lift_length, Hr, Nat.eqb_refl, !veqb_refl, mv_lift, veqb_refl, Ha1, Nat.eqb_refl,
          mv_length, Ha2, Nat.eqb_refl. reflexivity.
      - cbn [fst snd c_round2_open c_round2_share co_x]. split.
        + rewrite vadd_length; [exact Ha1| now rewrite lift_length, Hr].
        + unfold c_round2_share. rewrite vadd_length; [exact Ha2| now rewrite mv_length]. }
  rewrite find_all_false.
  2:{ intros p _. unfold c_check_r3. cbn [fst snd]. now rewrite veqb_refl. }
  rewrite (fold_left_pair (fun m : (c_open * c_open) * list F => co_x (snd (fst m))) (fun m => snd m)).
  cbn [fst snd]. rewrite !map_map. cbn [fst snd c_round2_open co_x]. unfold c_round2_share.
  pose proof (party_sum (fun p : N * c_deal => mv K (rows i) (cd_r (snd p))) (length (rows i)) i di deals Hnd Hin) as P1.
  cbn beta in P1. cbn [snd] in P1. rewrite P1.
  2:{ rewrite Forall_forall. intros p _. apply mv_length. }
  pose proof (party_sum (fun p : N * c_deal => lift K g (cd_r (snd p))) D i di deals Hnd Hin) as P2.
  cbn beta in P2. cbn [snd] in P2. rewrite P2.
  2:{ eapply Forall_impl; [|exact Hwf]. intros p Hr. now rewrite lift_length. }
  assert (HR : length (c_rsum deals) = D).
  { apply vsum_length. rewrite Forall_map. exact Hwf. }
  assert (Hs1 : vsum K (length (rows i)) (map (fun p : N * c_deal => mv K (rows i) (cd_r (snd p))) deals)
                = mv K (rows i) (c_rsum deals)).
  { unfold c_rsum. rewrite (mv_vsum _ D), map_map; [reflexivity|]. rewrite Forall_map. exact Hwf. }
  assert (Hs2 : vsum K D (map (fun p : N * c_deal => lift K g (cd_r (snd p))) deals) = lift K g (c_rsum deals)).
  { unfold c_rsum. now rewrite lift_vsum, map_map. }
  rewrite Hs1, Hs2, new_base_shard_ok; [reflexivity| exact HR| exact Hhold].
Qed.

Lemma canetti_deal_wf : forall (t : list F) d, canetti_deal D t = Some d -> wf_cdeal d /\ (2 <= D)%nat /\ hd 0 (cd_r d) = hd 0 t.
Proof.
  intros t d H. unfold canetti_deal in H.
  destruct (take_column D t) as [[r t']|] eqn:E1; [|discriminate]. inversion H; subst. cbn [cd_r]. unfold wf_cdeal. cbn [cd_r].
  destruct (take_column_length _ _ _ E1) as [Hl HD]. split; [exact Hl|split; [exact HD|]].
  destruct t as [|x t]; [discriminate|]. cbn [hd]. exact (take_column_hd _ _ _ _ E1).
Qed.

Lemma canetti_deals_spec : forall (parties : list (N * list F)) deals,
  Forall2 (fun p q => fst p = fst q /\ canetti_deal D (snd p) = Some (snd q)) parties deals ->
  Forall (fun p => wf_cdeal (snd p)) deals /\ hd 0 (c_rsum deals) = secret_sum parties.
Proof.
  intros parties deals H. assert (Hwf : Forall (fun p => wf_cdeal (snd p)) deals).
  { induction H as [|p q l r [_ Hd] _ IH]; constructor; [|exact IH]. apply canetti_deal_wf in Hd. tauto. }
  split; [exact Hwf|].
  unfold c_rsum, vsum, secret_sum. rewrite (hd_fold_vadd D); [|apply zeros_length| now rewrite Forall_map].
  rewrite hd_zeros. clear Hwf. generalize 0 at 2 4 as acc.
  induction H as [|p q l r [_ Hd] _ IH]; intros acc; cbn [map fold_left]; [reflexivity|].
  rewrite IH. f_equal. f_equal. apply canetti_deal_wf in Hd. tauto.
Qed.

Lemma canetti_run_closed : forall holders (parties : list (N * list F)) deals,
  NoDup (map fst parties) -> (forall j, In j (map fst parties) -> In j holders) ->
  all_some (map (fun p => (fst p, canetti_deal D (snd p))) parties) = Some deals ->
  canetti_run K rows D g holders parties =
    map (fun p => (fst p, Ok (closed_shard holders (c_rsum deals) (fst p)))) deals
  /\ map fst deals = map fst parties
  /\ Forall (fun p => wf_cdeal (snd p)) deals
  /\ hd 0 (c_rsum deals) = secret_sum parties.
Proof.
  intros holders parties deals Hnd Hsub Hall. unfold canetti_run. rewrite Hall.
  apply all_some_spec in Hall.
  pose proof (Forall2_map_fst (fun t d => canetti_deal D t = Some d) _ _ Hall) as Hfst.
  destruct (canetti_deals_spec _ _ Hall) as [Hwf Hhd].
  split; [|split; [now symmetry|split; assumption]].
  apply map_ext_in. intros [i di] Hin. cbn [fst snd]. f_equal.
  apply canetti_party_closed; try assumption; [now rewrite <- Hfst|].
  apply Hsub. rewrite Hfst. change i with (fst (i, di)). now apply in_map.
Qed.

Lemma canetti_run_failed : forall holders (parties : list (N * list F)),
  all_some (map (fun p => (fst p, canetti_deal D (snd p))) parties) = None ->
  forall i v, In (i, v) (canetti_run K rows D g holders parties) -> v = Fail.
Proof.
  intros holders parties Hall i v Hin. unfold canetti_run in Hin. rewrite Hall in Hin.
  apply in_map_iff in Hin. destruct Hin as (p & Hp & _). now inversion Hp.
Qed.

(* ==== consequences of the closed form ========================================================== *)
Lemma closed_share_matches : forall holders R i,
  lift K g (sh_share (closed_shard holders R i)) = mv K (rows i) (sh_vv (closed_shard holders R i)).
Proof. intros. cbn [closed_shard sh_share sh_vv]. now rewrite mv_lift. Qed.

Lemma closed_pk : forall holders R i, (0 < D)%nat ->
  sh_pk (closed_shard holders R i) = hd 0 R * g.
Proof. intros holders R i HD. cbn [closed_shard sh_pk]. now rewrite dot_lift_r, dot_e0. Qed.

Lemma dot_fold_vadd_l : forall c n l a, length a = n -> Forall (fun v => length v = n) l ->
  dot K (fold_left (vadd K) l a) c = fold_left (fun acc v => acc + dot K v c) l (dot K a c).
Proof.
  induction l as [|x l IH]; intros a Ha Hl; cbn [fold_left]; [reflexivity|].
  inversion Hl as [|? ? Hx Hl']; subst.
  rewrite IH; [|rewrite vadd_length; congruence|exact Hl']. rewrite dot_vadd_l by congruence. reflexivity.
Qed.

Lemma fold_left_ext_in : forall {A B : Type} (f f' : A -> B -> A) (l : list B) (a : A),
  (forall acc x, In x l -> f acc x = f' acc x) -> fold_left f l a = fold_left f' l a.
Proof.
  intros A B f f' l. induction l as [|x l IH]; intros a H; cbn [fold_left]; [reflexivity|].
  rewrite (H a x (or_introl eq_refl)). apply IH. intros acc y Hy. apply H. now right.
Qed.

(* any coefficients λ with λ·M_S = e0 recover the first entry of the shared column *)
Lemma recon_closed : forall S lam R (shareof : N -> list F),
  recon_ok K rows D S lam = true -> (0 < D)%nat ->
  (forall i, In i S -> shareof i = mv K (rows i) R) ->
  recon_value K S lam shareof = hd 0 R.
Proof.
  intros S lam R shareof Hok HD Hsh. unfold recon_ok in Hok. apply andb_true_iff in Hok. destruct Hok as [Hok _].
  apply veqb_true in Hok. unfold recon_value.
  rewrite (fold_left_ext_in _ (fun acc i => acc + dot K (vecm K D (lam i) (rows i)) R)).
  2:{ intros acc i Hi. rewrite (Hsh i Hi), dot_vecm by apply Hrows. reflexivity. }
  rewrite (fold_left_step_map (fun acc v => acc + dot K v R) (fun i => vecm K D (lam i) (rows i))).
  rewrite <- (dot_e0 D R HD), <- Hok. unfold recon_combo, vsum.
  rewrite (dot_fold_vadd_l R D); [now rewrite dot_zeros_l| apply zeros_length|].
  rewrite Forall_map, Forall_forall. intros i _. apply vecm_length, Hrows.
Qed.

(* a run all of whose parties end with the closed form for one and the same column R *)
Definition closed_run (holders : list N) (R : list F) (ids : list N) : list (N * verdict (@shard F)) :=
  map (fun i => (i, Ok (closed_shard holders R i))) ids.

Lemma closed_run_in : forall holders R ids i s,
  In (i, Ok s) (closed_run holders R ids) -> In i ids /\ s = closed_shard holders R i.
Proof.
  intros holders R ids i s H. apply in_map_iff in H. destruct H as (j & Hj & Hin). inversion Hj; subst. auto.
Qed.

Lemma gennaro_run_is_closed : forall holders (parties : list (N * list F)) i s,
  NoDup (map fst parties) -> (forall j, In j (map fst parties) -> In j holders) ->
  In (i, Ok s) (gennaro_run K rows D g holders parties) ->
  exists deals, all_some (map (fun p => (fst p, gennaro_deal D (snd p))) parties) = Some deals
    /\ gennaro_run K rows D g holders parties = closed_run holders (g_rsum deals) (map fst parties)
    /\ Forall (fun p => wf_gdeal (snd p)) deals /\ deals <> []
    /\ hd 0 (g_rsum deals) = secret_sum parties /\ (2 <= D)%nat.
Proof.
  intros holders parties i s Hnd Hsub Hin.
  destruct (all_some (map (fun p => (fst p, gennaro_deal D (snd p))) parties)) as [deals|] eqn:Hall.
  2:{ apply (gennaro_run_failed _ _ Hall) in Hin. discriminate. }
  destruct (gennaro_run_closed holders parties deals Hnd Hsub Hall) as (Hrun & Hfst & Hwf & Hhd).
  exists deals. split; [reflexivity|]. rewrite Hrun in *. unfold closed_run. rewrite <- Hfst, map_map.
  split; [reflexivity|]. split; [exact Hwf|].
  assert (Hne : deals <> []) by (intro; subst; contradiction).
  split; [exact Hne|]. split; [exact Hhd|].
  destruct deals as [|[j dj] deals']; [congruence|]. apply all_some_spec in Hall.
  inversion Hall as [|p q l r [_ Hd] _]; subst. apply gennaro_deal_wf in Hd. tauto.
Qed.

Lemma canetti_run_is_closed : forall holders (parties : list (N * list F)) i s,
  NoDup (map fst parties) -> (forall j, In j (map fst parties) -> In j holders) ->
  In (i, Ok s) (canetti_run K rows D g holders parties) ->
  exists deals, all_some (map (fun p => (fst p, canetti_deal D (snd p))) parties) = Some deals
    /\ canetti_run K rows D g holders parties = closed_run holders (c_rsum deals) (map fst parties)
    /\ Forall (fun p => wf_cdeal (snd p)) deals /\ deals <> []
    /\ hd 0 (c_rsum deals) = secret_sum parties /\ (2 <= D)%nat.
Proof.
  intros holders parties i s Hnd Hsub Hin.
  destruct (all_some (map (fun p => (fst p, canetti_deal D (snd p))) parties)) as [deals|] eqn:Hall.
  2:{ apply (canetti_run_failed _ _ Hall) in Hin. discriminate. }
  destruct (canetti_run_closed holders parties deals Hnd Hsub Hall) as (Hrun & Hfst & Hwf & Hhd).
  exists deals. split; [reflexivity|]. rewrite Hrun in *. unfold closed_run. rewrite <- Hfst, map_map.
  split; [reflexivity|]. split; [exact Hwf|].
  assert (Hne : deals <> []) by (intro; subst; contradiction).
  split; [exact Hne|]. split; [exact Hhd|].
  destruct deals as [|[j dj] deals']; [congruence|]. apply all_some_spec in Hall.
  inversion Hall as [|p q l r [_ Hd] _]; subst. apply canetti_deal_wf in Hd. tauto.
Qed.

(* ==== the property theorems (both DKGs) ======================================================= *)

(* every party that completes holds the same verification vector, public key and public shares *)
Lemma closed_agreement : forall holders R ids i i' s s',
  In (i, Ok s) (closed_run holders R ids) -> In (i', Ok s') (closed_run holders R ids) ->
  sh_vv s = sh_vv s' /\ sh_pk s = sh_pk s' /\ sh_pks s = sh_pks s'.
Proof.
  intros holders R ids i i' s s' H H'. apply closed_run_in in H, H'. destruct H as [_ ->], H' as [_ ->].
  cbn [closed_shard sh_vv sh_pk sh_pks]. auto.
Qed.

Theorem gennaro_agreement : forall holders (parties : list (N * list F)) i i' s s',
  NoDup (map fst parties) -> (forall j, In j (map fst parties) -> In j holders) ->
  In (i, Ok s) (gennaro_run K rows D g holders parties) ->
  In (i', Ok s') (gennaro_run K rows D g holders parties) ->
  sh_vv s = sh_vv s' /\ sh_pk s = sh_pk s' /\ sh_pks s = sh_pks s'.
Proof.
  intros holders parties i i' s s' Hnd Hsub H H'.
  destruct (gennaro_run_is_closed holders parties i s Hnd Hsub H) as (deals & _ & Hrun & _).
  rewrite Hrun in H, H'. eapply closed_agreement; eassumption.
Qed.

(* ... and these are a function of the round-2 broadcasts (the Feldman vectors) only *)
Theorem gennaro_public_from_broadcasts : forall holders (parties : list (N * list F)) i s,
  NoDup (map fst parties) -> (forall j, In j (map fst parties) -> In j holders) ->
  In (i, Ok s) (gennaro_run K rows D g holders parties) ->
  exists deals, all_some (map (fun p => (fst p, gennaro_deal D (snd p))) parties) = Some deals /\
    let V := vsum K D (map (fun p => feld (g_round2_bcast K g (snd p))) deals) in
    sh_vv s = V /\ sh_pk s = dot K (e0 K D) V /\ sh_pks s = map (fun h => (h, mv K (rows h) V)) holders.
Proof.
  intros holders parties i s Hnd Hsub H.
  destruct (gennaro_run_is_closed holders parties i s Hnd Hsub H) as (deals & Hall & Hrun & _).
  exists deals. split; [exact Hall|]. rewrite Hrun in H. apply closed_run_in in H. destruct H as [_ ->].
  cbn [g_round2_bcast feld closed_shard sh_vv sh_pk sh_pks].
  assert (E : vsum K D (map (fun p : N * g_deal => lift K g (gd_r (snd p))) deals) = lift K g (g_rsum deals)).
  { unfold g_rsum. now rewrite lift_vsum, map_map. }
  cbv zeta. rewrite E. auto.
Qed.

Theorem canetti_agreement : forall holders (parties : list (N * list F)) i i' s s',
  NoDup (map fst parties) -> (forall j, In j (map fst parties) -> In j holders) ->
  In (i, Ok s) (canetti_run K rows D g holders parties) ->
  In (i', Ok s') (canetti_run K rows D g holders parties) ->
  sh_vv s = sh_vv s' /\ sh_pk s = sh_pk s' /\ sh_pks s = sh_pks s'.
Proof.
  intros holders parties i i' s s' Hnd Hsub H H'.
  destruct (canetti_run_is_closed holders parties i s Hnd Hsub H) as (deals & _ & Hrun & _).
  rewrite Hrun in H, H'. eapply closed_agreement; eassumption.
Qed.

Theorem canetti_public_from_broadcasts : forall holders (parties : list (N * list F)) i s,
  NoDup (map fst parties) -> (forall j, In j (map fst parties) -> In j holders) ->
  In (i, Ok s) (canetti_run K rows D g holders parties) ->
  exists deals, all_some (map (fun p => (fst p, canetti_deal D (snd p))) parties) = Some deals /\
    let V := vsum K D (map (fun p => co_x (c_round2_open K g (fst p) (snd p))) deals) in
    sh_vv s = V /\ sh_pk s = dot K (e0 K D) V /\ sh_pks s = map (fun h => (h, mv K (rows h) V)) holders.
Proof.
  intros holders parties i s Hnd Hsub H.
  destruct (canetti_run_is_closed holders parties i s Hnd Hsub H) as (deals & Hall & Hrun & _).
  exists deals. split; [exact Hall|]. rewrite Hrun in H. apply closed_run_in in H. destruct H as [_ ->].
  cbn [c_round2_open co_x closed_shard sh_vv sh_pk sh_pks].
  assert (E : vsum K D (map (fun p : N * c_deal => lift K g (cd_r (snd p))) deals) = lift K g (c_rsum deals)).
  { unfold c_rsum. now rewrite lift_vsum, map_map. }
  cbv zeta. rewrite E. auto.
Qed.

(* share_i · g = M_i · V: the consistency check of NewBaseShard accepts, and the public share of
   party i published in every shard is its lifted private share *)
Lemma closed_matches : forall holders R ids i s,
  (forall j, In j ids -> In j holders) ->
  In (i, Ok s) (closed_run holders R ids) ->
  lift K g (sh_share s) = mv K (rows i) (sh_vv s) /\ In (i, lift K g (sh_share s)) (sh_pks s).
Proof.
  intros holders R ids i s Hsub H. apply closed_run_in in H. destruct H as [Hi ->].
  split; [apply closed_share_matches|]. cbn [closed_shard sh_share sh_pks]. rewrite <- mv_lift.
  apply in_map_iff. exists i. split; [reflexivity| now apply Hsub].
Qed.

Theorem gennaro_share_matches : forall holders (parties : list (N * list F)) i s,
  NoDup (map fst parties) -> (forall j, In j (map fst parties) -> In j holders) ->
  In (i, Ok s) (gennaro_run K rows D g holders parties) ->
  lift K g (sh_share s) = mv K (rows i) (sh_vv s) /\ In (i, lift K g (sh_share s)) (sh_pks s).
Proof.
  intros holders parties i s Hnd Hsub H.
  destruct (gennaro_run_is_closed holders parties i s Hnd Hsub H) as (deals & _ & Hrun & _).
  rewrite Hrun in H. eapply closed_matches; eassumption.
Qed.

Theorem canetti_share_matches : forall holders (parties : list (N * list F)) i s,
  NoDup (map fst parties) -> (forall j, In j (map fst parties) -> In j holders) ->
  In (i, Ok s) (canetti_run K rows D g holders parties) ->
  lift K g (sh_share s) = mv K (rows i) (sh_vv s) /\ In (i, lift K g (sh_share s)) (sh_pks s).
Proof.
  intros holders parties i s Hnd Hsub H.
  destruct (canetti_run_is_closed holders parties i s Hnd Hsub H) as (deals & _ & Hrun & _).
  rewrite Hrun in H. eapply closed_matches; eassumption.
Qed.

(* an honest run whose tapes are long enough completes for every party (no check fires) *)
Theorem gennaro_completes : forall holders (parties : list (N * list F)),
  NoDup (map fst parties) -> (forall j, In j (map fst parties) -> In j holders) ->
  (forall p, In p parties -> gennaro_deal D (snd p) <> None) ->
  forall i, In i (map fst parties) -> exists s, In (i, Ok s) (gennaro_run K rows D g holders parties).
Proof.
  intros holders parties Hnd Hsub Hd i Hi.
  destruct (all_some_complete (gennaro_deal D) parties Hd) as [deals Hall].
  destruct (gennaro_run_closed holders parties deals Hnd Hsub Hall) as (Hrun & Hfst & _).
  rewrite Hrun. rewrite <- Hfst in Hi. apply in_map_iff in Hi. destruct Hi as (p & Hp & Hin).
  exists (closed_shard holders (g_rsum deals) i). apply in_map_iff. exists p. subst i. auto.
Qed.

Theorem canetti_completes : forall holders (parties : list (N * list F)),
  NoDup (map fst parties) -> (forall j, In j (map fst parties) -> In j holders) ->
  (forall p, In p parties -> canetti_deal D (snd p) <> None) ->
  forall i, In i (map fst parties) -> exists s, In (i, Ok s) (canetti_run K rows D g holders parties).
Proof.
  intros holders parties Hnd Hsub Hd i Hi.
  destruct (all_some_complete (canetti_deal D) parties Hd) as [deals Hall].
  destruct (canetti_run_closed holders parties deals Hnd Hsub Hall) as (Hrun & Hfst & _).
  rewrite Hrun. rewrite <- Hfst in Hi. apply in_map_iff in Hi. destruct Hi as (p & Hp & Hin).
  exists (closed_shard holders (c_rsum deals) i). apply in_map_iff. exists p. subst i. auto.
Qed.

(* any set S with reconstruction coefficients λ (λ·M_S = e0) recovers Σ_j r_{j,0} from the parties'
   shares, and the public key is that value times g *)
Lemma closed_reconstructs : forall holders R ids S lam (shareof : N -> list F) i0 s0,
  (0 < D)%nat ->
  In (i0, Ok s0) (closed_run holders R ids) ->
  (forall i, In i S -> exists s, In (i, Ok s) (closed_run holders R ids) /\ shareof i = sh_share s) ->
  recon_ok K rows D S lam = true ->
  recon_value K S lam shareof = hd 0 R /\ sh_pk s0 = hd 0 R * g.
Proof.
  intros holders R ids S lam shareof i0 s0 HD H0 Hsh Hok. split.
  - apply recon_closed; [exact Hok|exact HD|]. intros i Hi. destruct (Hsh i Hi) as (s & Hs & ->).
    apply closed_run_in in Hs. destruct Hs as [_ ->]. reflexivity.
  - apply closed_run_in in H0. destruct H0 as [_ ->]. now apply closed_pk.
Qed.

Theorem gennaro_reconstructs_dlog : forall holders (parties : list (N * list F)) S lam (shareof : N -> list F) i0 s0,
  NoDup (map fst parties) -> (forall j, In j (map fst parties) -> In j holders) ->
  In (i0, Ok s0) (gennaro_run K rows D g holders parties) ->
  (forall i, In i S -> exists s, In (i, Ok s) (gennaro_run K rows D g holders parties) /\ shareof i = sh_share s) ->
  recon_ok K rows D S lam = true ->
  recon_value K S lam shareof = secret_sum parties /\ sh_pk s0 = secret_sum parties * g.
Proof.
  intros holders parties S lam shareof i0 s0 Hnd Hsub H0 Hsh Hok.
  destruct (gennaro_run_is_closed holders parties i0 s0 Hnd Hsub H0) as (deals & _ & Hrun & _ & _ & Hhd & HD).
  rewrite Hrun in *. rewrite <- Hhd. eapply closed_reconstructs; try eassumption. lia.
Qed.

Theorem canetti_reconstructs_dlog : forall holders (parties : list (N * list F)) S lam (shareof : N -> list F) i0 s0,
  NoDup (map fst parties) -> (forall j, In j (map fst parties) -> In j holders) ->
  In (i0, Ok s0) (canetti_run K rows D g holders parties) ->
  (forall i, In i S -> exists s, In (i, Ok s) (canetti_run K rows D g holders parties) /\ shareof i = sh_share s) ->
  recon_ok K rows D S lam = true ->
  recon_value K S lam shareof = secret_sum parties /\ sh_pk s0 = secret_sum parties * g.
Proof.
  intros holders parties S lam shareof i0 s0 Hnd Hsub H0 Hsh Hok.
  destruct (canetti_run_is_closed holders parties i0 s0 Hnd Hsub H0) as (deals & _ & Hrun & _ & _ & Hhd & HD).
  rewrite Hrun in *. rewrite <- Hhd. eapply closed_reconstructs; try eassumption. lia.
Qed.

(* ---- the key depends on every party's secret ------------------------------------------------- *)
Definition bump_tape (delta : F) (t : list F) : list F :=
  match t with [] => [] | x :: r => (x + delta) :: r end.
(* the same run, except that party j's first sampled scalar (its secret) is shifted by delta *)
Definition bump_party (j : N) (delta : F) (parties : list (N * list F)) : list (N * list F) :=
  map (fun p => if N.eqb (fst p) j then (fst p, bump_tape delta (snd p)) else p) parties.

Lemma bump_party_fst : forall j delta parties, map fst (bump_party j delta parties) = map fst parties.
Proof.
  intros. unfold bump_party. rewrite map_map. apply map_ext. intros p. destruct (N.eqb (fst p) j); reflexivity.
Qed.

Lemma fold_sum_acc : forall (l : list (N * list F)) a,
  fold_left (fun acc p => acc + hd 0 (snd p)) l a = a + fold_left (fun acc p => acc + hd 0 (snd p)) l 0.
Proof.
  induction l as [|p l IH]; intros a; cbn [fold_left]; [ring|]. rewrite IH, (IH (0 + _)). ring.
Qed.

Lemma secret_sum_cons : forall p l, secret_sum (p :: l) = hd 0 (snd p) + secret_sum l.
Proof. intros. unfold secret_sum. cbn [fold_left]. rewrite fold_sum_acc. ring. Qed.

Lemma bump_party_notin : forall j delta parties, ~ In j (map fst parties) -> bump_party j delta parties = parties.
Proof.
  intros j delta parties. induction parties as [|p l IH]; intros H; [reflexivity|].
  cbn [bump_party map]. cbn [map In] in H. destruct (N.eqb (fst p) j) eqn:E.
  - apply N.eqb_eq in E. exfalso. apply H. now left.
  - f_equal. apply IH. intro. apply H. now right.
Qed.

Lemma secret_sum_bump : forall j delta parties t,
  NoDup (map fst parties) -> In (j, t) parties -> t <> [] ->
  secret_sum (bump_party j delta parties) = secret_sum parties + delta.
Proof.
  intros j delta parties t. induction parties as [|p l IH]; intros Hnd Hin Ht; [contradiction|].
  cbn [map] in Hnd. inversion Hnd as [|? ? Hnotin Hnd']; subst.
  change (bump_party j delta (p :: l)) with
    ((if N.eqb (fst p) j then (fst p, bump_tape delta (snd p)) else p) :: bump_party j delta l).
  destruct Hin as [Heq|Hin].
  - subst p. cbn [fst snd]. rewrite N.eqb_refl, bump_party_notin by exact Hnotin.
    rewrite !secret_sum_cons. cbn [snd]. destruct t as [|x r]; [congruence|]. cbn [bump_tape hd]. ring.
  - destruct (N.eqb (fst p) j) eqn:E.
    + apply N.eqb_eq in E. exfalso. apply Hnotin. rewrite E. change j with (fst (j, t)). now apply in_map.
    + rewrite !secret_sum_cons, IH by assumption. ring.
Qed.

Lemma Forall2_in_l : forall {A B : Type} (P : A -> B -> Prop) l r x, Forall2 P l r -> In x l -> exists y, In y r /\ P x y.
Proof.
  intros A B P l r x H. induction H as [|a b l r Hab _ IH]; intros Hin; [contradiction|].
  destruct Hin as [->|Hin]; [exists b; split; [now left|exact Hab]|].
  destruct (IH Hin) as (y & Hy & Hp). exists y. split; [now right|exact Hp].
Qed.

Lemma closed_pk_bump : forall holders R R' ids ids' i s i' s' delta,
  (0 < D)%nat -> hd 0 R' = hd 0 R + delta ->
  In (i, Ok s) (closed_run holders R ids) -> In (i', Ok s') (closed_run holders R' ids') ->
  sh_pk s' = sh_pk s + delta * g /\ (delta <> 0 -> g <> 0 -> sh_pk s' <> sh_pk s).
Proof.
  intros holders R R' ids ids' i s i' s' delta HD Hhd H H'.
  apply closed_run_in in H, H'. destruct H as [_ ->], H' as [_ ->]. rewrite !closed_pk by exact HD.
  rewrite Hhd. split; [ring|]. intros Hd Hg Heq.
  assert (E : delta * g = 0).
  { assert (E0 : (hd 0 R + delta) * g = hd 0 R * g + delta * g) by ring.
    rewrite E0 in Heq.
    assert (E1 : delta * g = (hd 0 R * g + delta * g) + fopp K (hd 0 R * g)) by ring.
    rewrite E1, Heq. ring. }
  destruct (fl_eqb K HK delta 0) as [_ _].
  assert (Hinv : finv K g * (delta * g) = delta) by (field; exact Hg).
  rewrite E in Hinv. apply Hd. rewrite <- Hinv. ring.
Qed.

Theorem gennaro_depends_on_all : forall holders (parties : list (N * list F)) j delta i s i' s',
  NoDup (map fst parties) -> (forall k, In k (map fst parties) -> In k holders) ->
  In j (map fst parties) ->
  In (i, Ok s) (gennaro_run K rows D g holders parties) ->
  In (i', Ok s') (gennaro_run K rows D g holders (bump_party j delta parties)) ->
  sh_pk s' = sh_pk s + delta * g /\ (delta <> 0 -> g <> 0 -> sh_pk s' <> sh_pk s).
Proof.
  intros holders parties j delta i s i' s' Hnd Hsub Hj H H'.
  assert (Hnd' : NoDup (map fst (bump_party j delta parties))) by now rewrite bump_party_fst.
  assert (Hsub' : forall k, In k (map fst (bump_party j delta parties)) -> In k holders)
    by (intro k; rewrite bump_party_fst; apply Hsub).
  destruct (gennaro_run_is_closed holders parties i s Hnd Hsub H) as (deals & Hall & Hrun & _ & _ & Hhd & HD).
  destruct (gennaro_run_is_closed holders _ i' s' Hnd' Hsub' H') as (deals' & _ & Hrun' & _ & _ & Hhd' & _).
  rewrite Hrun in H. rewrite Hrun' in H'.
  apply in_map_iff in Hj. destruct Hj as ([j0 t] & Hj0 & Hjin). cbn [fst] in Hj0. subst j0.
  assert (Ht : t <> []).
  { apply all_some_spec in Hall. destruct (Forall2_in_l _ _ _ _ Hall Hjin) as (q & _ & _ & Hq).
    cbn [snd] in Hq. intro; subst t. discriminate. }
  eapply closed_pk_bump; try eassumption; [lia|].
  rewrite Hhd, Hhd'. eapply secret_sum_bump; eassumption.
Qed.

Theorem canetti_depends_on_all : forall holders (parties : list (N * list F)) j delta i s i' s',
  NoDup (map fst parties) -> (forall k, In k (map fst parties) -> In k holders) ->
  In j (map fst parties) ->
  In (i, Ok s) (canetti_run K rows D g holders parties) ->
  In (i', Ok s') (canetti_run K rows D g holders (bump_party j delta parties)) ->
  sh_pk s' = sh_pk s + delta * g /\ (delta <> 0 -> g <> 0 -> sh_pk s' <> sh_pk s).
Proof.
  intros holders parties j delta i s i' s' Hnd Hsub Hj H H'.
  assert (Hnd' : NoDup (map fst (bump_party j delta parties))) by now rewrite bump_party_fst.
  assert (Hsub' : forall k, In k (map fst (bump_party j delta parties)) -> In k holders)
    by (intro k; rewrite bump_party_fst; apply Hsub).
  destruct (canetti_run_is_closed holders parties i s Hnd Hsub H) as (deals & Hall & Hrun & _ & _ & Hhd & HD).
  destruct (canetti_run_is_closed holders _ i' s' Hnd' Hsub' H') as (deals' & _ & Hrun' & _ & _ & Hhd' & _).
  rewrite Hrun in H. rewrite Hrun' in H'.
  apply in_map_iff in Hj. destruct Hj as ([j0 t] & Hj0 & Hjin). cbn [fst] in Hj0. subst j0.
  assert (Ht : t <> []).
  { apply all_some_spec in Hall. destruct (Forall2_in_l _ _ _ _ Hall Hjin) as (q & _ & _ & Hq).
    cbn [snd] in Hq. intro; subst t. discriminate. }
  eapply closed_pk_bump; try eassumption; [lia|].
  rewrite Hhd, Hhd'. eapply secret_sum_bump; eassumption.
Qed.

(* ==== trusted dealer ============================================================================ *)
Theorem dealer_consistent : forall holders (t : list F) out,
  dealer_run K rows D g holders t = Some out ->
  (* every holder gets a shard; all shards carry the same public material; each share matches *)
  (forall h, In h holders -> exists s, In (h, Some s) out) /\
  (forall h s, In (h, Some s) out ->
     lift K g (sh_share s) = mv K (rows h) (sh_vv s) /\ sh_pk s = hd 0 t * g) /\
  (forall h h' s s', In (h, Some s) out -> In (h', Some s') out ->
     sh_vv s = sh_vv s' /\ sh_pk s = sh_pk s' /\ sh_pks s = sh_pks s') /\
  (* any set with reconstruction coefficients recovers the dealt secret (the first scalar of the tape) *)
  (forall S lam (shareof : N -> list F),
     (forall i, In i S -> exists s, In (i, Some s) out /\ shareof i = sh_share s) ->
     recon_ok K rows D S lam = true -> recon_value K S lam shareof = hd 0 t).
Proof.
  intros holders t out H. unfold dealer_run in H.
  destruct (take_column D t) as [[r t']|] eqn:E; [|discriminate]. inversion H; subst out. clear H.
  destruct (take_column_length _ _ _ E) as [Hr HD].
  assert (Hhd : hd 0 r = hd 0 t) by (destruct t as [|x t0]; [discriminate| exact (take_column_hd _ _ _ _ E)]).
  assert (Hform : forall h s, In (h, Some s) (map (fun h0 => (h0, new_base_shard K rows D g holders h0 (mv K (rows h0) r) (lift K g r))) holders)
                  -> In h holders /\ s = closed_shard holders r h).
  { intros h s Hin. apply in_map_iff in Hin. destruct Hin as (h0 & Heq & Hh0). inversion Heq as [[H1 H2]]. subst h0.
    split; [exact Hh0|]. rewrite new_base_shard_ok in H2 by assumption. now inversion H2. }
  split; [|split; [|split]].
  - intros h Hh. exists (closed_shard holders r h). apply in_map_iff. exists h. split; [|exact Hh].
    now rewrite new_base_shard_ok.
  - intros h s Hs. destruct (Hform _ _ Hs) as [_ ->]. split; [apply closed_share_matches|].
    rewrite closed_pk by lia. now rewrite Hhd.
  - intros h h' s s' Hs Hs'. destruct (Hform _ _ Hs) as [_ ->], (Hform _ _ Hs') as [_ ->]. auto.
  - intros S lam shareof Hsh Hok. rewrite <- Hhd. apply recon_closed; [exact Hok|lia|].
    intros i Hi. destruct (Hsh i Hi) as (s & Hs & ->). destruct (Hform _ _ Hs) as [_ ->]. reflexivity.
Qed.

End DkgProofs.

(* ---- every labelled matrix with D columns (every MSP the library can build) is a linear sharing
   in the sense of the theorems above ---------------------------------------------------------------- *)
Lemma lrows_wf : forall {F : Type} (M : list (list F)) (labels : list N) (D : nat),
  Forall (fun r => length r = D) M -> forall h, Forall (fun r => length r = D) (lrows M labels h).
Proof.
  intros F M labels D HM h. unfold lrows. rewrite Forall_forall in *. intros r Hr.
  apply in_map_iff in Hr. destruct Hr as ([l r'] & Heq & Hin). cbn [snd] in Heq. subst r'.
  apply filter_In in Hin. destruct Hin as [Hin _]. apply in_combine_r in Hin. now apply HM.
Qed.

Corollary gennaro_reconstructs_dlog_msp : forall (F : Type) (K : fops F), flaws K ->
  forall (g : F) (M : list (list F)) (labels : list N) (D : nat),
  Forall (fun r => length r = D) M ->
  forall (holders : list N) (parties : list (N * list F)) (S : list N) (lam shareof : N -> list F) (i0 : N) (s0 : shard),
  NoDup (map fst parties) -> (forall j, In j (map fst parties) -> In j holders) ->
  In (i0, Ok s0) (gennaro_run K (lrows M labels) D g holders parties) ->
  (forall i, In i S -> exists s, In (i, Ok s) (gennaro_run K (lrows M labels) D g holders parties) /\ shareof i = sh_share s) ->
  recon_ok K (lrows M labels) D S lam = true ->
  recon_value K S lam shareof = secret_sum K parties /\ sh_pk s0 = fmul K (secret_sum K parties) g.
Proof.
  intros F K HK g M labels D HM. apply (gennaro_reconstructs_dlog K HK g (lrows M labels) D).
  now apply lrows_wf.
Qed.

(* ---- stored auxiliary information: store / reload is the identity, also for empty peer maps ------- *)
Lemma keys_eqb_refl : forall l, keys_eqb l l = true.
Proof. induction l as [|x l IH]; cbn [keys_eqb]; [reflexivity|]. now rewrite N.eqb_refl, IH. Qed.

Lemma aux_roundtrip : forall (A B : Type) (pks : list (N * A)) (cts : list (N * B)),
  map fst pks = map fst cts -> aux_decode (aux_encode pks cts) = Some (pks, cts).
Proof.
  intros A B pks cts H. unfold aux_decode, aux_encode. cbn [ad_pks ad_cts].
  now rewrite H, keys_eqb_refl.
Qed.

Lemma aux_roundtrip_empty : forall (A B : Type), aux_decode (aux_encode (@nil (N * A)) (@nil (N * B))) = Some ([], []).
Proof. intros. now apply aux_roundtrip. Qed.

(* an encoder that drops empty maps (omitempty) produces something the decoder refuses *)
Lemma aux_absent_refused : forall (A B : Type) (c : option (list (N * B))),
  aux_decode (mk_aux_dto (@None (list (N * A))) c) = None.
Proof. intros. reflexivity. Qed.
