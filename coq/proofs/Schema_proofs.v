(* Schema_proofs.v — lemmas about the typed layer of model/Schema.v, on top of the CBOR
   codec theorems of Cbor_proofs.v. *)
From Coq Require Import List NArith ZArith Lia Bool Arith.
From Coq Require Import ZifyN ZifyNat ZifyBool.
Require Import V.base.Bytes V.gen.SerdeConsts V.gen.SerdeDtos V.model.Cbor V.model.Schema V.proofs.Cbor_proofs.
Import ListNotations.
Local Open Scope N_scope.

(* ------------------------------------------------------------------ *)
(* canonical form of an accepted stream                                 *)

Lemma within_wf L x : within L x = true -> wf L x = true.
Proof. unfold within. intros H. apply andb_true_iff in H. tauto. Qed.

Lemma decode_canon_fixed L bs it :
  decode L bs = Ok it ->
  decode L (encode (canon it)) = Ok (canon it) /\ canon (canon it) = canon it /\
  within L (canon it) = true.
Proof.
  intros D.
  destruct (decode_sound L bs it D) as [Hw Hh].
  pose proof (canon_within L it Hw Hh) as Hin.
  split; [|split]; [| |exact Hin].
  - rewrite encode_canon. exact (decode_reencode L bs it D).
  - apply (canon_idem L). apply within_wf. exact Hin.
Qed.

(* ------------------------------------------------------------------ *)
(* typed decode: validity and round trip                                *)

(* every rule number used by the model is positive, so that 0 can mean "no violated rule" *)
Definition rule_numbers_positive (rs : list rule) : bool := forallb (fun r : rule => negb (fst r =? 0)) rs.

Lemma first_bad_zero rs :
  rule_numbers_positive rs = true ->
  (first_bad rs = 0 <-> forallb (fun r : rule => snd r) rs = true).
Proof.
  unfold first_bad, rule_numbers_positive.
  induction rs as [|[r b] rs IH]; cbn [forallb find snd fst negb]; intros Hp.
  - tauto.
  - apply andb_true_iff in Hp. destruct Hp as [Hr Hp].
    destruct b; cbn [negb andb].
    + exact (IH Hp).
    + cbn [fst]. split; [|discriminate].
      intros H. apply negb_true_iff, N.eqb_neq in Hr. contradiction.
Qed.

(* typed decoding with an arbitrary acceptance test on the canonical item: everything about the
   round trip is independent of the test *)
Definition decode_with (L : limits) (chk : item -> bool) (bs : bytes) : option item :=
  match decode L bs with
  | Err _ => None
  | Ok it => if chk (canon it) then Some (canon it) else None
  end.

Lemma decode_with_valid : forall L chk bs x,
  decode_with L chk bs = Some x ->
  chk x = true /\ decode L (encode x) = Ok x /\ decode_with L chk (encode x) = Some x /\
  within L x = true /\ canon x = x.
Proof.
  intros L chk bs x H. unfold decode_with in H.
  destruct (decode L bs) as [it|e] eqn:D; [|discriminate].
  destruct (chk (canon it)) eqn:C; [|discriminate].
  assert (E : canon it = x) by congruence. clear H.
  destruct (decode_canon_fixed L bs it D) as [Hd [Hc Hin]].
  rewrite E in *.
  split; [exact C|]. split; [exact Hd|]. split; [|split; assumption].
  unfold decode_with. rewrite Hd, Hc, C. reflexivity.
Qed.

Lemma decode_typed_with L t bs : decode_typed L t bs = decode_with L (check t) bs.
Proof. reflexivity. Qed.

Lemma check_true t x : check t x = true -> valid t x = true /\ conf conf_fuel (schema_of t) x = COk.
Proof.
  unfold check. generalize (conf conf_fuel (schema_of t) x). intros c H.
  destruct c; try discriminate. split; [exact H|reflexivity].
Qed.

(* the decisive theorem of the typed layer: whatever decode_typed returns is a conforming,
   valid value of the type, it is the canonical form, and its encoding decodes — generically
   and typed — to itself *)
Theorem typed_decode_valid : forall L t bs x,
  decode_typed L t bs = Some x ->
  valid t x = true /\ conf conf_fuel (schema_of t) x = COk /\ decode L (encode_typed x) = Ok x /\ decode_typed L t (encode_typed x) = Some x.
Proof.
  intros L t bs x H. rewrite decode_typed_with in H.
  destruct (decode_with_valid L (check t) bs x H) as [C [Hd [Hw _]]].
  destruct (check_true t x C) as [Hv Hc].
  unfold encode_typed. rewrite decode_typed_with. repeat split; assumption.
Qed.

(* the value returned is within the limits and is the unique canonical item with its encoding *)
Theorem typed_decode_canonical : forall L t bs x,
  decode_typed L t bs = Some x -> within L x = true /\ canon x = x.
Proof.
  intros L t bs x H. rewrite decode_typed_with in H.
  destruct (decode_with_valid L (check t) bs x H) as [_ [_ [_ Hw]]]. exact Hw.
Qed.

(* two accepted streams with the same typed value have the same re-encoding, and two values
   with the same encoding are equal: the typed wire format is unambiguous *)
Theorem typed_encode_injective : forall L t t' bs bs' x y,
  lim64 L ->
  decode_typed L t bs = Some x -> decode_typed L t' bs' = Some y ->
  encode_typed x = encode_typed y -> x = y.
Proof.
  intros L t t' bs bs' x y HL Hx Hy He.
  destruct (typed_decode_canonical L t bs x Hx) as [Wx _].
  destruct (typed_decode_canonical L t' bs' y Hy) as [Wy _].
  apply (encode_injective L HL); [apply within_wf; exact Wx|apply within_wf; exact Wy|exact He].
Qed.

(* decode_typed refuses everything the strict generic decoder refuses *)
Theorem typed_decode_rejects_malformed : forall L t bs e,
  decode L bs = Err e -> decode_typed L t bs = None.
Proof. intros L t bs e H. unfold decode_typed. rewrite H. reflexivity. Qed.

(* classify and decode_typed agree *)
Theorem classify_valid_iff : forall L t bs x,
  rule_numbers_positive (rules_of t (match decode L bs with Ok it => canon it | Err _ => Simple 22 end)) = true ->
  (classify L t bs = VValid x <-> decode_typed L t bs = Some x).
Proof.
  intros L t bs x Hp. unfold classify, decode_typed, check.
  destruct (decode L bs) as [it|e] eqn:D.
  - destruct (conf conf_fuel (schema_of t) (canon it)) eqn:C.
    + pose proof (first_bad_zero _ Hp) as Hz. unfold valid.
      destruct (first_bad (rules_of t (canon it))) eqn:F.
      * destruct Hz as [Hz _]. rewrite (Hz eq_refl). split; intros H; inversion H; reflexivity.
      * destruct (forallb (fun r : rule => snd r) (rules_of t (canon it))) eqn:V.
        -- destruct Hz as [_ Hz]. specialize (Hz eq_refl). discriminate.
        -- split; discriminate.
    + split; discriminate.
    + split; discriminate.
  - destruct (malformed_reason e); split; discriminate.
Qed.

(* ------------------------------------------------------------------ *)
(* unknown fields                                                       *)

Lemma call_ok {A} (f : A -> cres) l : call f l = COk -> forall a, In a l -> f a = COk.
Proof.
  induction l as [|y l IH]; cbn [call]; intros H a Hin; [contradiction|].
  destruct (f y) eqn:Fy; cbn [cand] in H; try discriminate.
  destruct Hin as [<-|Hin]; [exact Fy|exact (IH H a Hin)].
Qed.

Lemma cand_ok a b : cand a b = COk -> a = COk /\ b = COk.
Proof. destruct a; cbn; intros H; try discriminate. split; [reflexivity|exact H]. Qed.

(* a map conforms to a struct schema only if every key is a text string naming a field of
   the DTO (and the value conforms to that field's schema), and every non-optional field is
   present: ExtraDecErrorUnknownField + FieldNameMatchingCaseSensitive *)
Theorem conf_struct_fields : forall f fs ps,
  conf (S f) (SStruct fs) (Map ps) = COk ->
  (forall k v, In (k, v) ps ->
     exists nm opt s, k = TStr nm /\ lookup_field fs nm = Some (opt, s) /\ conf f s v = COk) /\
  (forall nm opt s, In (nm, (opt, s)) fs -> opt = false -> has_key ps nm = true).
Proof.
  intros f fs ps H. cbn [conf] in H. apply cand_ok in H. destruct H as [H1 H2]. split.
  - intros k v Hin. pose proof (call_ok _ _ H1 (k, v) Hin) as Hk. cbn [fst snd] in Hk.
    destruct k; try discriminate.
    destruct (lookup_field fs b) as [[opt s]|] eqn:Lk; [|discriminate].
    exists b, opt, s. split; [reflexivity|]. split; [exact Lk|exact Hk].
  - intros nm opt s Hin Hopt.
    destruct (forallb (fun fd : bytes * (bool * schema) => fst (snd fd) || has_key ps (fst fd)) fs) eqn:Fa; [|discriminate].
    rewrite forallb_forall in Fa. specialize (Fa _ Hin). cbn [fst snd] in Fa. subst opt. exact Fa.
Qed.

(* ... hence a struct carrying a key that names no field is never accepted *)
Theorem unknown_field_rejected : forall f fs ps nm v,
  In (TStr nm, v) ps -> lookup_field fs nm = None ->
  conf (S f) (SStruct fs) (Map ps) <> COk.
Proof.
  intros f fs ps nm v Hin Hl H.
  destruct (conf_struct_fields f fs ps H) as [H1 _].
  destruct (H1 _ _ Hin) as [nm' [opt [s [E [Lk _]]]]]. injection E as <-. congruence.
Qed.

(* non-text keys in a struct position are refused as well *)
Theorem nontext_key_rejected : forall f fs ps k v,
  In (k, v) ps -> (forall nm, k <> TStr nm) -> conf (S f) (SStruct fs) (Map ps) <> COk.
Proof.
  intros f fs ps k v Hin Hk H.
  destruct (conf_struct_fields f fs ps H) as [H1 _].
  destruct (H1 _ _ Hin) as [nm [_ [_ [E _]]]]. exact (Hk nm E).
Qed.

(* at the top level: a stream whose canonical item is classified "unknown field" is refused *)
Theorem classify_unknown_rejected : forall L t bs,
  classify L t bs = VUnknownField -> decode_typed L t bs = None.
Proof.
  intros L t bs H. unfold classify in H. unfold decode_typed, check.
  destruct (decode L bs) as [it|e]; [|reflexivity].
  destruct (conf conf_fuel (schema_of t) (canon it)); try reflexivity.
  destruct (first_bad (rules_of t (canon it))); discriminate.
Qed.

(* a registered type only conforms under exactly its tag *)
Theorem conf_tagged : forall f t s x,
  conf (S f) (STagged t s) x = COk -> exists y, x = Tag t y /\ conf f s y = COk.
Proof.
  intros f t s x H. cbn [conf] in H. destruct x; try discriminate.
  destruct (t0 =? t) eqn:E; [|discriminate]. apply N.eqb_eq in E. subst. eexists; split; [reflexivity|exact H].
Qed.

(* ------------------------------------------------------------------ *)
(* what "valid" means, rule by rule, for the anchored types             *)

Lemma memN_In a l : memN a l = true <-> In a l.
Proof.
  unfold memN. rewrite existsb_exists. split.
  - intros [x [Hin E]]. apply N.eqb_eq in E. subst. exact Hin.
  - intros Hin. exists a. split; [exact Hin|apply N.eqb_refl].
Qed.

(* threshold.NewThresholdAccessStructure: 2 <= t <= |shareholders|, no shareholder 0 *)
Theorem threshold_valid_spec : forall x,
  valid TThreshold x = true ->
  let d := untag x in
  let t := nat_of (fld k_threshold d) in
  let ids := keys_of (fld k_shareholders d) in
  2 <= t /\ t <= len ids /\ ~ In 0 ids.
Proof.
  intros x H. unfold valid in H. cbn [rules_of] in H. unfold threshold_rules in H.
  cbn [forallb snd] in H. cbv zeta.
  repeat (apply andb_true_iff in H; destruct H as [? H]).
  repeat split.
  - apply N.leb_le. assumption.
  - apply N.leb_le. assumption.
  - intros Hin. apply memN_In in Hin.
    match goal with Hn : negb _ = true |- _ => apply negb_true_iff in Hn; congruence end.
Qed.

(* unanimity.NewUnanimityAccessStructure *)
Theorem unanimity_valid_spec : forall x,
  valid TUnanimity x = true ->
  let ids := keys_of (fld k_shareholders (untag x)) in 2 <= len ids /\ ~ In 0 ids.
Proof.
  intros x H. unfold valid in H. cbn [rules_of] in H. unfold unanimity_rules in H.
  cbn [forallb snd] in H. cbv zeta.
  repeat (apply andb_true_iff in H; destruct H as [? H]).
  split.
  - apply N.leb_le. assumption.
  - intros Hin. apply memN_In in Hin.
    match goal with Hn : negb _ = true |- _ => apply negb_true_iff in Hn; congruence end.
Qed.

Lemma forallb_app_true {A} (f : A -> bool) a b :
  forallb f (a ++ b) = true -> forallb f a = true /\ forallb f b = true.
Proof. rewrite forallb_app. intros H. apply andb_true_iff in H. exact H. Qed.

(* ecdsa.NewSignature: r, s non-zero scalars of the right length; v absent or in 0..3 *)
Theorem ecdsa_valid_spec : forall c x,
  valid (TEcdsaSig c) x = true ->
  scalar_is_zero (fld k_r x) = false /\ scalar_is_zero (fld k_s x) = false /\
  len (scalar_bytes (fld k_r x)) = c_slen c /\ len (scalar_bytes (fld k_s x)) = c_slen c /\
  (is_null (fld k_v x) = true \/ (0 <= int_of (fld k_v x) <= 3)%Z).
Proof.
  intros c x H. unfold valid in H. cbn [rules_of] in H. unfold ecdsa_rules in H.
  apply forallb_app_true in H. destruct H as [Hr H].
  apply forallb_app_true in H. destruct H as [Hs H].
  unfold scalar_rules in Hr, Hs. cbn [forallb snd] in Hr, Hs, H.
  repeat (apply andb_true_iff in Hr; destruct Hr as [? Hr]).
  repeat (apply andb_true_iff in Hs; destruct Hs as [? Hs]).
  repeat (apply andb_true_iff in H; destruct H as [? H]).
  repeat match goal with Ha : (_ && _) = true |- _ => apply andb_true_iff in Ha; destruct Ha end.
  repeat match goal with Hn : negb _ = true |- _ => apply negb_true_iff in Hn end.
  repeat match goal with He : (_ =? _) = true |- _ => apply N.eqb_eq in He end.
  repeat split; try assumption.
  match goal with Ho : (_ || _) = true |- _ => rename Ho into Hor end.
  apply orb_true_iff in Hor. destruct Hor as [Hor|Hor].
  - left. assumption.
  - right. apply andb_true_iff in Hor. destruct Hor as [Ha Hb].
    apply Z.leb_le in Ha. apply Z.leb_le in Hb. lia.
Qed.

(* mat.Matrix.UnmarshalCBOR: positive dimensions and exactly rows*cols entries *)
Theorem matrix_valid_spec : forall c x,
  valid (TMatrix c) x = true ->
  (0 < int_of (fld k_rows x))%Z /\ (0 < int_of (fld k_cols x))%Z /\
  lenZ (arr_of (fld k_data x)) = (int_of (fld k_rows x) * int_of (fld k_cols x))%Z.
Proof.
  intros c x H. unfold valid in H. cbn [rules_of] in H. unfold matrix_rules in H.
  apply forallb_app_true in H. destruct H as [H _]. cbn [forallb snd] in H.
  repeat (apply andb_true_iff in H; destruct H as [? H]).
  repeat match goal with Ha : (_ && _) = true |- _ => apply andb_true_iff in Ha; destruct Ha end.
  repeat split; try (apply Z.ltb_lt; assumption). apply Z.eqb_eq. assumption.
Qed.

(* msp.NewMSP: the row labelling is total on 0..rows-1 with nothing else, and no row is
   labelled with holder 0 *)
Theorem msp_valid_spec : forall c x,
  valid (TMsp c) x = true ->
  let lab := pairs_of (fld k_RowsToHolders x) in
  let rows := int_of (fld k_rows (fld k_Matrix x)) in
  lenZ lab = rows /\
  (forall k v, In (k, v) lab -> exists n, k = UInt n /\ (Z.of_N n < rows)%Z /\ nat_of v <> 0).
Proof.
  intros c x H. unfold valid in H. cbn [rules_of] in H. unfold msp_rules in H.
  apply forallb_app_true in H. destruct H as [_ H]. cbn [forallb snd] in H.
  repeat (apply andb_true_iff in H; destruct H as [? H]).
  cbv zeta.
  match goal with Hl : label_keys_ok _ _ = true |- _ => unfold label_keys_ok in Hl; apply andb_true_iff in Hl; destruct Hl as [Hk Hn] end.
  split; [apply Z.eqb_eq; exact Hn|].
  intros k v Hin. rewrite forallb_forall in Hk. specialize (Hk _ Hin). cbn [fst] in Hk.
  match goal with Hz : forallb _ _ = true |- _ => rewrite forallb_forall in Hz; specialize (Hz _ Hin); cbn [snd] in Hz end.
  destruct k; try discriminate. exists n. split; [reflexivity|]. split; [apply Z.ltb_lt; exact Hk|].
  match goal with Hz : negb _ = true |- _ => apply negb_true_iff, N.eqb_neq in Hz; exact Hz end.
Qed.

(* kw.NewShare: ID non-zero, value vector non-empty *)
Theorem kwshare_valid_spec : forall c x,
  valid (TKwShare c) x = true -> nat_of (fld k_id x) <> 0 /\ arr_of (fld k_value x) <> [].
Proof.
  intros c x H. unfold valid in H. cbn [rules_of] in H. unfold share_rules in H.
  apply forallb_app_true in H. destruct H as [H _]. cbn [forallb snd] in H.
  repeat (apply andb_true_iff in H; destruct H as [? H]).
  repeat match goal with Hn : negb _ = true |- _ => apply negb_true_iff in Hn end.
  split.
  - match goal with He : (nat_of _ =? 0) = false |- _ => apply N.eqb_neq in He; exact He end.
  - intros E. rewrite E in *. cbn in *. discriminate.
Qed.

(* mpc.NewBaseShard: the private share belongs to an MSP holder and matches the public data
   (the latter is the boolean the correspondence check computes through the public API) *)
Theorem baseshard_valid_spec : forall c m x,
  valid (TBaseShard c m) x = true ->
  m = true /\
  In (nat_of (fld k_id (fld k_share x))) (msp_holders (fld k_msp (fld k_publicMaterial x))) /\
  valid (TBasePublic c) (fld k_publicMaterial x) = true /\
  valid (TKwShare c) (fld k_share x) = true.
Proof.
  intros c m x H. unfold valid in H. cbn [rules_of] in H. unfold baseshard_rules in H.
  apply forallb_app_true in H. destruct H as [Hp H].
  apply forallb_app_true in H. destruct H as [Hs H]. cbn [forallb snd] in H.
  repeat (apply andb_true_iff in H; destruct H as [? H]).
  repeat split; try assumption.
  apply memN_In. assumption.
Qed.

(* feldman.NewVerificationVector: a non-empty column vector *)
Theorem vv_valid_spec : forall c x,
  valid (TFeldmanVV c) x = true ->
  let m := fld k_verification_vector x in
  int_of (fld k_cols m) = 1%Z /\ (0 < int_of (fld k_rows m))%Z /\
  lenZ (arr_of (fld k_data m)) = int_of (fld k_rows m).
Proof.
  intros c x H. unfold valid in H. cbn [rules_of] in H. unfold vv_rules in H.
  apply forallb_app_true in H. destruct H as [Hm Hc]. unfold matrix_rules in Hm.
  apply forallb_app_true in Hm. destruct Hm as [Hm _]. cbn [forallb snd] in Hm, Hc. cbv zeta.
  repeat (apply andb_true_iff in Hm; destruct Hm as [? Hm]).
  repeat (apply andb_true_iff in Hc; destruct Hc as [? Hc]).
  repeat match goal with Ha : (_ && _) = true |- _ => apply andb_true_iff in Ha; destruct Ha end.
  repeat match goal with
         | He : (_ =? _)%Z = true |- _ => apply Z.eqb_eq in He
         | He : (_ <? _)%Z = true |- _ => apply Z.ltb_lt in He
         end.
  repeat split; try assumption; lia.
Qed.

(* cnf.NewCNFAccessStructure / normaliseCNF: at least one set, no empty set, no shareholder 0,
   at least two shareholders overall; and (established by normalisation) the sets form an
   antichain and the shareholder set is their union *)
Theorem cnf_valid_spec : forall x,
  valid TCnf x = true ->
  let d := untag x in
  let sets := map keys_of (arr_of (fld k_maximal_unqualified_sets d)) in
  sets <> [] /\ Forall (fun s => s <> [] /\ ~ In 0 s) sets /\ 2 <= len (dedupN (List.concat sets)) /\
  antichain_from [] sets = true /\
  seteqN (keys_of (fld k_shareholders d)) (dedupN (List.concat sets)) = true.
Proof.
  intros x H. unfold valid in H. cbn [rules_of] in H. unfold cnf_rules in H.
  cbn [forallb snd] in H. cbv zeta.
  repeat (apply andb_true_iff in H; destruct H as [? H]).
  set (sets := map keys_of (arr_of (fld k_maximal_unqualified_sets (untag x)))) in *.
  repeat match goal with Hn : negb _ = true |- _ => apply negb_true_iff in Hn end.
  split; [|split; [|split; [|split]]]; try assumption.
  - intros E. rewrite E in *. cbn in *. discriminate.
  - apply Forall_forall. intros s Hin. split.
    + match goal with Hf : forallb (fun s => negb (len s =? 0)) sets = true |- _ =>
        rewrite forallb_forall in Hf; specialize (Hf _ Hin) end.
      intros E. subst s. cbn in *. discriminate.
    + match goal with Hf : forallb (fun s => negb (memN 0 s)) sets = true |- _ =>
        rewrite forallb_forall in Hf; specialize (Hf _ Hin) end.
      intros Hz. apply memN_In in Hz. rewrite Hz in *. discriminate.
  - apply N.leb_le. assumption.
Qed.

(* hierarchical.NewHierarchicalConjunctiveThresholdAccessStructure + ThresholdLevel.UnmarshalCBOR:
   at least one level; thresholds positive and strictly increasing; every level non-empty,
   without shareholder 0, without repetition, disjoint from the earlier levels; each cumulative
   threshold is at most the number of shareholders seen so far *)
Inductive hier_ok : Z -> list N -> list item -> Prop :=
| hier_nil : forall cur seen, hier_ok cur seen []
| hier_cons : forall cur seen l ls,
    let t := int_of (fld k_threshold l) in
    let ps := ids_of (fld k_parties l) in
    (0 < t)%Z -> (cur < t)%Z -> ps <> [] -> ~ In 0 ps ->
    (forall p, In p ps -> ~ In p seen) -> NoDup ps ->
    (t <= lenZ (dedupN (seen ++ ps)))%Z ->
    hier_ok t (dedupN (seen ++ ps)) ls -> hier_ok cur seen (l :: ls).

Lemma nodupN_NoDup l : nodupN l = true -> NoDup l.
Proof.
  induction l as [|a l IH]; cbn [nodupN]; intros H; [constructor|].
  apply andb_true_iff in H. destruct H as [Ha Hl]. constructor; [|exact (IH Hl)].
  intros Hin. apply memN_In in Hin. rewrite Hin in Ha. discriminate.
Qed.

Lemma hier_levels_ok : forall ls cur seen,
  forallb (fun r : rule => snd r) (hier_levels cur seen ls) = true -> hier_ok cur seen ls.
Proof.
  induction ls as [|l ls IH]; intros cur seen H; [constructor|].
  cbn [hier_levels] in H. cbv zeta in H.
  apply forallb_app_true in H. destruct H as [H Hrest]. cbn [forallb snd] in H.
  repeat (apply andb_true_iff in H; destruct H as [? H]).
  repeat match goal with Ha : (_ && _) = true |- _ => apply andb_true_iff in Ha; destruct Ha end.
  repeat match goal with Hn : negb _ = true |- _ => apply negb_true_iff in Hn end.
  apply hier_cons.
  - apply Z.ltb_lt. assumption.
  - apply Z.ltb_lt. assumption.
  - intros E. match goal with He : (len (ids_of _) =? 0) = false |- _ => rewrite E in He; cbn in He; discriminate end.
  - intros Hin. apply memN_In in Hin.
    match goal with Hm : memN 0 (ids_of _) = false |- _ => rewrite Hin in Hm; discriminate end.
  - intros p Hp Hs.
    match goal with Hf : forallb (fun p => negb (memN p seen)) _ = true |- _ =>
      rewrite forallb_forall in Hf; specialize (Hf _ Hp) end.
    apply memN_In in Hs. rewrite Hs in *. discriminate.
  - apply nodupN_NoDup. assumption.
  - apply Z.leb_le. assumption.
  - apply IH. exact Hrest.
Qed.

Theorem hierarchical_valid_spec : forall x,
  valid THierarchical x = true ->
  let ls := arr_of (fld k_levels (untag x)) in ls <> [] /\ hier_ok 0 [] ls.
Proof.
  intros x H. unfold valid in H. cbn [rules_of] in H. unfold hierarchical_rules in H.
  cbn [forallb snd] in H. apply andb_true_iff in H. destruct H as [Hn H]. cbv zeta. split.
  - intros E. rewrite E in Hn. cbn in Hn. discriminate.
  - apply hier_levels_ok. exact H.
Qed.

(* boolexpr: Node.UnmarshalCBOR + checkTree + the shareholder/leaf cross-check.  Every node of
   the tree is an attribute leaf with a non-zero ID or a gate with 1 <= threshold <= #children,
   at least one child and no two attribute children with the same ID; the wire shareholder map
   has exactly the tree's leaves as keys and every value true *)
Inductive node_ok : item -> Prop :=
| node_attr : forall n, node_kind n = 2 -> nat_of (fld k_attr n) <> 0 -> node_ok n
| node_gate : forall n,
    node_kind n = 1 ->
    (1 <= int_of (fld k_threshold n) <= lenZ (arr_of (fld k_children n)))%Z ->
    arr_of (fld k_children n) <> [] ->
    NoDup (attr_children n) ->
    Forall node_ok (arr_of (fld k_children n)) -> node_ok n.

Lemma forallb_flat_map {A B} (f : B -> bool) (g : A -> list B) l :
  forallb f (flat_map g l) = true -> forall a, In a l -> forallb f (g a) = true.
Proof.
  induction l as [|x l IH]; cbn [flat_map]; intros H a Hin; [contradiction|].
  apply forallb_app_true in H. destruct H as [Hx Hl].
  destruct Hin as [<-|Hin]; [exact Hx|exact (IH Hl a Hin)].
Qed.

Lemma node_rules_ok : forall fuel n,
  forallb (fun r : rule => snd r) (node_rules fuel n) = true -> node_ok n.
Proof.
  induction fuel as [|f IH]; intros n H; cbn [node_rules] in H.
  - cbn in H. discriminate.
  - cbv zeta in H. destruct (node_kind n =? 2) eqn:K2.
    + cbn [forallb snd] in H. apply andb_true_iff in H. destruct H as [Ha _].
      apply negb_true_iff, N.eqb_neq in Ha. apply N.eqb_eq in K2. apply node_attr; assumption.
    + destruct (node_kind n =? 1) eqn:K1; [|cbn in H; discriminate].
      apply forallb_app_true in H. destruct H as [Hh Hc]. cbn [forallb snd] in Hh.
      repeat (apply andb_true_iff in Hh; destruct Hh as [? Hh]).
      repeat match goal with Ha : (_ && _) = true |- _ => apply andb_true_iff in Ha; destruct Ha end.
      repeat match goal with Hn : negb _ = true |- _ => apply negb_true_iff in Hn end.
      apply N.eqb_eq in K1. apply node_gate.
      * exact K1.
      * split; apply Z.leb_le; assumption.
      * intros E. match goal with He : (len (arr_of _) =? 0) = false |- _ => rewrite E in He; cbn in He; discriminate end.
      * apply nodupN_NoDup. assumption.
      * apply Forall_forall. intros c Hin. apply IH.
        exact (forallb_flat_map _ _ _ Hc c Hin).
Qed.

Lemma is_true_item v : (match v with Simple 21 => true | _ => false end) = true -> v = Simple 21.
Proof.
  destruct v as [n|n|b|b|l|l|tg y|s]; try discriminate.
  destruct s as [|p]; [discriminate|].
  do 5 (destruct p as [p|p|]; try discriminate); reflexivity.
Qed.

Theorem boolexpr_valid_spec : forall x,
  valid TBoolexpr x = true ->
  let d := untag x in
  node_ok (fld k_root d) /\
  seteqN (keys_of (fld k_shareholders d)) (node_leaves 64 (fld k_root d)) = true /\
  (forall k v, In (k, v) (pairs_of (fld k_shareholders d)) -> v = Simple 21).
Proof.
  intros x H. unfold valid in H. cbn [rules_of] in H. unfold boolexpr_rules in H. cbv zeta in H.
  apply forallb_app_true in H. destruct H as [Hn Hs]. cbn [forallb snd] in Hs.
  apply andb_true_iff in Hs. destruct Hs as [Hs _]. apply andb_true_iff in Hs. destruct Hs as [Hk Hv].
  cbv zeta. split; [exact (node_rules_ok 64 _ Hn)|]. split; [exact Hk|].
  intros k v Hin. rewrite forallb_forall in Hv. specialize (Hv _ Hin). cbn [snd] in Hv.
  apply is_true_item. exact Hv.
Qed.

(* pedersen.Share.UnmarshalCBOR: ID non-zero, secret and blinding non-empty and of equal length *)
Theorem pedshare_valid_spec : forall c x,
  valid (TPedShare c) x = true ->
  nat_of (fld k_sharingID x) <> 0 /\ arr_of (fld k_secret x) <> [] /\ arr_of (fld k_blinding x) <> [] /\
  len (arr_of (fld k_secret x)) = len (arr_of (fld k_blinding x)).
Proof.
  intros c x H. unfold valid in H. cbn [rules_of] in H. unfold pedshare_rules in H. cbv zeta in H.
  apply forallb_app_true in H. destruct H as [H _]. cbn [forallb snd] in H.
  repeat (apply andb_true_iff in H; destruct H as [? H]).
  repeat match goal with Ha : (_ && _) = true |- _ => apply andb_true_iff in Ha; destruct Ha end.
  repeat match goal with Hn : negb _ = true |- _ => apply negb_true_iff in Hn end.
  repeat split.
  - match goal with He : (nat_of _ =? 0) = false |- _ => apply N.eqb_neq in He; exact He end.
  - intros E. rewrite E in *. cbn in *. discriminate.
  - intros E. rewrite E in *. cbn in *. discriminate.
  - apply N.eqb_eq. assumption.
Qed.

(* dkls23.NewPartialSignature: u and w non-zero scalars, r a point of the right length *)
Theorem dklspartial_valid_spec : forall c x,
  valid (TDklsPartial c) x = true ->
  scalar_is_zero (fld k_u x) = false /\ scalar_is_zero (fld k_w x) = false /\
  len (bytes_of (fld k_compressedBytes (fld k_r x))) = c_plen c.
Proof.
  intros c x H. unfold valid in H. cbn [rules_of] in H. unfold dklspartial_rules in H.
  apply forallb_app_true in H. destruct H as [Hp H].
  apply forallb_app_true in H. destruct H as [_ H].
  apply forallb_app_true in H. destruct H as [_ H].
  unfold point_rules in Hp. cbn [forallb snd] in Hp, H.
  repeat (apply andb_true_iff in H; destruct H as [? H]).
  repeat (apply andb_true_iff in Hp; destruct Hp as [? Hp]).
  repeat match goal with Ha : (_ && _) = true |- _ => apply andb_true_iff in Ha; destruct Ha end.
  repeat match goal with Hn : negb _ = true |- _ => apply negb_true_iff in Hn end.
  repeat split; try assumption. apply N.eqb_eq. assumption.
Qed.

(* num.NatPlus.UnmarshalCBOR: the value is not zero *)
Theorem natplus_valid_spec : forall x,
  valid TNatPlus x = true ->
  exists b, In b (bytes_of (fld k_natBytes (fld k_natPlus x))) /\ b <> 0.
Proof.
  intros x H. unfold valid in H. cbn [rules_of] in H. unfold natplus_rules in H.
  cbn [forallb snd] in H. apply andb_true_iff in H. destruct H as [H _].
  apply existsb_exists in H. destruct H as [b [Hin Hb]].
  exists b. split; [exact Hin|]. apply negb_true_iff, N.eqb_neq in Hb. exact Hb.
Qed.

(* num.Uint.UnmarshalCBOR: 0 <= value < modulus, for a top-level Uint and — through the same
   rule 41 of every generic / shallow type — for every Uint-shaped sub-item of an accepted value *)
Lemma leaves_ok_here fuel x :
  fst (leaves_ok (S fuel) x) = true ->
  forall v m, uint_leaf x = Some (v, m) -> be_value v < be_value m.
Proof.
  cbn [leaves_ok]. cbv zeta. cbn [fst]. intros H v m E. rewrite E in H.
  apply andb_true_iff in H. destruct H as [H _]. apply N.ltb_lt. exact H.
Qed.

Lemma leaves_ok_sub fuel x :
  fst (leaves_ok (S fuel) x) = true ->
  (forall l, x = Arr l -> forall y, In y l -> fst (leaves_ok fuel y) = true) /\
  (forall ps, x = Map ps -> forall k y, In (k, y) ps -> fst (leaves_ok fuel y) = true) /\
  (forall t y, x = Tag t y -> fst (leaves_ok fuel y) = true).
Proof.
  cbn [leaves_ok]. cbv zeta. cbn [fst]. intros H.
  apply andb_true_iff in H. destruct H as [_ H].
  split; [|split].
  - intros l -> y Hin. rewrite forallb_forall in H. apply H. apply in_map. exact Hin.
  - intros ps -> k y Hin. rewrite forallb_forall in H.
    apply (H (leaves_ok fuel y)). change (leaves_ok fuel y) with ((fun kv : item * item => leaves_ok fuel (snd kv)) (k, y)).
    apply in_map. exact Hin.
  - intros t y ->. cbn [map forallb] in H. apply andb_true_iff in H. tauto.
Qed.

Lemma leaf_rules_41 x :
  forallb (fun r : rule => snd r) (leaf_rules x) = true -> fst (leaves_ok 40 x) = true.
Proof.
  unfold leaf_rules. generalize (leaves_ok 40 x). intros [a b]. cbn [fst snd forallb].
  intros H. apply andb_true_iff in H. tauto.
Qed.

(* (stated as equations and used by rewriting: leaving the identification of [valid TUint x] with
   the rule list to the unifier makes it unfold the 40 levels of fuel) *)
Lemma valid_TUint x : valid TUint x = forallb (fun r : rule => snd r) (leaf_rules x).
Proof. reflexivity. Qed.
Lemma valid_TGeneric x : valid TGeneric x = forallb (fun r : rule => snd r) (leaf_rules x).
Proof. reflexivity. Qed.

Lemma leaf_rules_uint x :
  forallb (fun r : rule => snd r) (leaf_rules x) = true ->
  forall v m, uint_leaf x = Some (v, m) -> be_value v < be_value m.
Proof. intros H v m E. exact (leaves_ok_here 39 x (leaf_rules_41 x H) v m E). Qed.

Theorem uint_valid_spec : forall x,
  valid TUint x = true ->
  forall v m, uint_leaf x = Some (v, m) -> be_value v < be_value m.
Proof. intros x H. rewrite valid_TUint in H. exact (leaf_rules_uint x H). Qed.

(* the same for types the model knows only generically: a Uint anywhere directly below the top *)
Lemma leaf_rules_uint_sub x :
  forallb (fun r : rule => snd r) (leaf_rules x) = true ->
  forall ps k y v m, x = Map ps -> In (k, y) ps -> uint_leaf y = Some (v, m) -> be_value v < be_value m.
Proof.
  intros H ps k y v m -> Hin E.
  destruct (leaves_ok_sub 39 (Map ps) (leaf_rules_41 _ H)) as [_ [Hm _]].
  exact (leaves_ok_here 38 y (Hm ps eq_refl k y Hin) v m E).
Qed.

Theorem generic_uint_leaves_spec : forall x,
  valid TGeneric x = true ->
  (forall v m, uint_leaf x = Some (v, m) -> be_value v < be_value m) /\
  (forall ps k y v m, x = Map ps -> In (k, y) ps -> uint_leaf y = Some (v, m) -> be_value v < be_value m).
Proof.
  intros x H. rewrite valid_TGeneric in H. split; [exact (leaf_rules_uint x H)|exact (leaf_rules_uint_sub x H)].
Qed.

(* ------------------------------------------------------------------ *)
(* the field lists of the hand-written schemas are exactly the wire field names (and omitempty
   flags) of the DTO structs as regenerated from the source (gen/SerdeDtos.v) *)

Definition s_untag (s : schema) : schema := match s with STagged _ s' => s' | _ => s end.
Definition struct_fields (s : schema) : list (bytes * bool) :=
  match s_untag s with
  | SStruct fs => map (fun f : bytes * (bool * schema) => (fst f, fst (snd f))) fs
  | SNode => map (fun f : bytes * (bool * schema) => (fst f, fst (snd f)))
                 (match node_schema with SStruct fs => fs | _ => [] end)
  | _ => []
  end.
Definition s_field (nm : bytes) (s : schema) : schema :=
  match s_untag s with
  | SStruct fs => match lookup_field fs nm with Some (_, s') => s' | None => SAny end
  | _ => SAny
  end.
Definition s_elem (s : schema) : schema := match s with SList s' | SNullOr s' => s' | _ => SAny end.
Definition field_eqb (a b : bytes * bool) : bool := bytes_eqb (fst a) (fst b) && Bool.eqb (snd a) (snd b).
Definition same_fields (a b : list (bytes * bool)) : bool :=
  Nat.eqb (length a) (length b)
  && forallb (fun x => existsb (field_eqb x) b) a && forallb (fun x => existsb (field_eqb x) a) b.
Definition no_curve : curve := {| c_slen := 0; c_plen := 0; c_q := 0 |}.

Definition dto_table : list (schema * list (bytes * bool)) :=
  [ (schema_of TThreshold, dto_threshold);
    (schema_of TUnanimity, dto_unanimity);
    (schema_of TCnf, dto_cnf);
    (schema_of THierarchical, dto_hierarchical);
    (s_elem (s_field k_levels (schema_of THierarchical)), dto_hierarchical_level);
    (schema_of TBoolexpr, dto_boolexpr);
    (s_field k_root (schema_of TBoolexpr), dto_boolexpr_node);
    (schema_of (TMsp no_curve), dto_msp);
    (schema_of (TKwShare no_curve), dto_kwshare);
    (schema_of (TLifted no_curve), dto_feldman_lifted);
    (schema_of (TFeldmanVV no_curve), dto_feldman_vv);
    (schema_of (TBasePublic no_curve), dto_basepublic);
    (schema_of (TBaseShard no_curve true), dto_baseshard);
    (schema_of (TEcdsaSig no_curve), dto_ecdsasig);
    (schema_of (TDklsPartial no_curve), dto_dkls23partial);
    (schema_of (TPedShare no_curve), dto_pedersen_share);
    (s_elem (s_field k_secret (schema_of (TPedShare no_curve))), dto_pedcom_message);
    (s_elem (s_field k_blinding (schema_of (TPedShare no_curve))), dto_pedcom_witness);
    (schema_of (TPedLifted no_curve), dto_pedersen_lifted);
    (s_elem (s_field k_value (schema_of (TPedLifted no_curve))), dto_pedcom_commitment);
    (schema_of (TMatrix no_curve), dto_matrix);
    (schema_of (TMvMatrix no_curve), dto_mvmatrix);
    (schema_of (TSqMatrix no_curve), dto_sqmatrix);
    (schema_of TNat, dto_num_nat);
    (s_field k_nat (schema_of TNat), dto_numct_nat);
    (schema_of TInt, dto_num_int);
    (s_field k_int (schema_of TInt), dto_numct_int);
    (schema_of TNatPlus, dto_num_natplus);
    (schema_of TUint, dto_num_uint);
    (s_field k_modulus (schema_of TUint), dto_numct_modulus);
    (s_field k_value (schema_of TUint), dto_numct_nat);
    (schema_of (TScalar no_curve), dto_k256_scalar);
    (schema_of (TScalar no_curve), dto_p256_scalar);
    (schema_of (TScalar no_curve), dto_bls12381_scalar);
    (schema_of (TPoint no_curve), dto_k256_point);
    (schema_of (TPoint no_curve), dto_p256_point);
    (schema_of (TPoint no_curve), dto_bls12381_g1) ].

Theorem dto_fields_agree :
  forallb (fun p : schema * list (bytes * bool) => same_fields (struct_fields (fst p)) (snd p)) dto_table = true.
Proof. vm_compute. reflexivity. Qed.

(* ------------------------------------------------------------------ *)
(* the configuration regenerated from serde.go is the strict one the model describes *)

Theorem serde_config_strict : serde_strict = true.
Proof. reflexivity. Qed.

Theorem serde_limits_sane : lim64 serde_limits /\ (0 < max_depth serde_limits)%nat /\ 1 <= max_arr serde_limits.
Proof. split; [exact lim64_serde|]. split; vm_compute; [lia|discriminate]. Qed.
