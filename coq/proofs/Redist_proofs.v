(* Redist_proofs.v — lemmas about model/Zero.v and model/Redist.v over an arbitrary field
   (flaws K): linear sharing algebra, HJKY, one redistribution step, histories, mixed epochs. *)
From Coq Require Import List NArith ZArith Arith Bool Lia Field Ring.
Import ListNotations.
Require Import V.base.Fld V.model.Zero V.model.Redist.

(* ---- generic helpers ------------------------------------------------------------------ *)

Lemma lookup_In : forall {A} (l : list (N * A)) i a, lookup i l = Some a -> In (i, a) l.
Proof.
  induction l as [|[j b] t IH]; cbn; intros i a H; [discriminate|].
  destruct (N.eqb i j) eqn:E.
  - apply N.eqb_eq in E; subst. inversion H; subst. now left.
  - right. now apply IH.
Qed.

Lemma lookup_map_fst : forall {A} (l : list (N * A)) i, In i (map fst l) -> exists a, lookup i l = Some a.
Proof.
  induction l as [|[j b] t IH]; cbn; intros i H; [contradiction|].
  destruct (N.eqb i j) eqn:E; [eauto|].
  destruct H as [H|H]; [subst; rewrite N.eqb_refl in E; discriminate|]. now apply IH.
Qed.

Lemma lookup_none : forall {A} (l : list (N * A)) i, ~ In i (map fst l) -> lookup i l = None.
Proof.
  induction l as [|[j b] t IH]; cbn; intros i H; [reflexivity|].
  destruct (N.eqb i j) eqn:E.
  - apply N.eqb_eq in E. subst. exfalso. apply H. now left.
  - apply IH. intro. apply H. now right.
Qed.

Lemma mem_In : forall i l, mem i l = true <-> In i l.
Proof.
  intros i l. unfold mem. rewrite existsb_exists. split.
  - intros [x [Hx E]]. apply N.eqb_eq in E. now subst.
  - intro H. exists i. split; [assumption|apply N.eqb_refl].
Qed.

Lemma mem_false : forall i l, mem i l = false <-> ~ In i l.
Proof.
  intros. split; intro H.
  - intro HI. apply mem_In in HI. congruence.
  - destruct (mem i l) eqn:E; [|reflexivity]. apply mem_In in E. contradiction.
Qed.

Lemma nodup_b_NoDup : forall l, nodup_b l = true -> NoDup l.
Proof.
  induction l as [|x t IH]; cbn; intro H; [constructor|].
  apply andb_true_iff in H. destruct H as [H1 H2]. constructor; [|now apply IH].
  apply negb_true_iff in H1. now apply mem_false in H1.
Qed.

Lemma list_N_eqb_eq : forall a b, list_N_eqb a b = true -> a = b.
Proof.
  induction a as [|x a IH]; destruct b as [|y b]; cbn; intro H; try discriminate; [reflexivity|].
  apply andb_true_iff in H. destruct H as [H1 H2]. apply N.eqb_eq in H1. subst. f_equal. now apply IH.
Qed.

Lemma all_ok_spec : forall {A B} (f : A -> res B) l r, all_ok f l = Some r ->
  map fst r = l /\ forall x b, In (x, b) r -> f x = Ok b.
Proof.
  induction l as [|x t IH]; cbn; intros r H.
  - inversion H; subst. split; [reflexivity|intros ? ? []].
  - destruct (f x) eqn:Ef; try discriminate. destruct (all_ok f t) eqn:Et; try discriminate.
    inversion H; subst. destruct (IH _ eq_refl) as [M P]. split; [cbn; now rewrite M|].
    intros y b' [E|E]; [inversion E; subst; assumption|now apply P].
Qed.

Lemma all_some_spec : forall {A B} (f : A -> option B) l r, all_some f l = Some r ->
  map fst r = l /\ forall x b, In (x, b) r -> f x = Some b.
Proof.
  induction l as [|x t IH]; cbn; intros r H.
  - inversion H; subst. split; [reflexivity|intros ? ? []].
  - destruct (f x) eqn:Ef; try discriminate. destruct (all_some f t) eqn:Et; try discriminate.
    inversion H; subst. destruct (IH _ eq_refl) as [M P]. split; [cbn; now rewrite M|].
    intros y b' [E|E]; [inversion E; subst; assumption|now apply P].
Qed.

Lemma lookup_all_ok : forall {B} (f : N -> res B) l r x, all_ok f l = Some r -> In x l ->
  exists b, lookup x r = Some b /\ f x = Ok b.
Proof.
  intros B f l r x H Hx. destruct (all_ok_spec f l r H) as [M P].
  destruct (lookup_map_fst r x) as [b Hb]; [now rewrite M|].
  exists b. split; [assumption|]. apply P. now apply lookup_In.
Qed.

Lemma lookup_all_some : forall {B} (f : N -> option B) l r x, all_some f l = Some r -> In x l ->
  exists b, lookup x r = Some b /\ f x = Some b.
Proof.
  intros B f l r x H Hx. destruct (all_some_spec f l r H) as [M P].
  destruct (lookup_map_fst r x) as [b Hb]; [now rewrite M|].
  exists b. split; [assumption|]. apply P. now apply lookup_In.
Qed.

Section RedistProofs.
Context {F : Type} (K : fops F) (HK : flaws K).

Add Field Kfield : (fl_theory K HK).

Notation "0" := (f0 K).
Notation "1" := (f1 K).
Infix "+" := (fadd K).
Infix "*" := (fmul K).
Infix "-" := (fsub K).

Local Notation SH := (@sharing F).
Local Notation VEC := (@vec F).

Lemma feqb_eq : forall x y, feqb K x y = true <-> x = y.
Proof. exact (fl_eqb K HK). Qed.

(* ---- vectors --------------------------------------------------------------------------- *)

Lemma veqb_eq : forall a b : VEC, veqb K a b = true <-> a = b.
Proof.
  induction a as [|x a IH]; destruct b as [|y b]; cbn; split; intro H; try discriminate; try reflexivity.
  - apply andb_true_iff in H. destruct H as [H1 H2]. apply feqb_eq in H1. apply IH in H2. now subst.
  - inversion H; subst. apply andb_true_iff. split; [now apply feqb_eq|now apply IH].
Qed.

Lemma vadd_length : forall a b : VEC, length (vadd K a b) = Nat.min (length a) (length b).
Proof. induction a; destruct b; cbn; auto. Qed.

Lemma vadd_length_eq : forall (a b : VEC) n, length a = n -> length b = n -> length (vadd K a b) = n.
Proof. intros. rewrite vadd_length. lia. Qed.

Lemma vzero_length : forall n, length (vzero K n) = n.
Proof. intros. unfold vzero. apply repeat_length. Qed.

Lemma vscale_length : forall c (a : VEC), length (vscale K c a) = length a.
Proof. intros. unfold vscale. apply map_length. Qed.

Lemma vadd_comm : forall a b : VEC, vadd K a b = vadd K b a.
Proof. induction a; destruct b; cbn; auto. f_equal; [ring|auto]. Qed.

Lemma vadd_assoc : forall a b c : VEC, vadd K a (vadd K b c) = vadd K (vadd K a b) c.
Proof. induction a; destruct b; destruct c; cbn; auto. f_equal; [ring|auto]. Qed.

Lemma vadd_vzero_r : forall (a : VEC) n, length a = n -> vadd K a (vzero K n) = a.
Proof.
  induction a as [|x a IH]; intros n H; cbn in *; subst; cbn; [reflexivity|].
  f_equal; [ring|]. now apply IH.
Qed.

Lemma vadd_vzero_l : forall (a : VEC) n, length a = n -> vadd K (vzero K n) a = a.
Proof. intros. rewrite vadd_comm. now apply vadd_vzero_r. Qed.

Lemma dot_nil_r : forall a : VEC, dot K a [] = 0.
Proof. destruct a; reflexivity. Qed.

Lemma dot_vadd_r : forall r a b : VEC, length a = length b -> dot K r (vadd K a b) = dot K r a + dot K r b.
Proof.
  induction r as [|x r IH]; intros a b H; cbn; [ring|].
  destruct a as [|y a]; destruct b as [|z b]; cbn in *; try discriminate; [ring|].
  rewrite IH by lia. ring.
Qed.

Lemma dot_vadd_l : forall a b c : VEC, length a = length b -> dot K (vadd K a b) c = dot K a c + dot K b c.
Proof.
  induction a as [|x a IH]; intros b c H; destruct b as [|y b]; cbn in *; try discriminate; [ring|].
  destruct c as [|z c]; [ring|]. rewrite IH by lia. ring.
Qed.

Lemma dot_vscale_l : forall x (a c : VEC), dot K (vscale K x a) c = x * dot K a c.
Proof.
  induction a as [|y a IH]; intros c; cbn; [ring|]. destruct c as [|z c]; [ring|].
  unfold vscale in IH. rewrite IH. ring.
Qed.

Lemma dot_vzero_l : forall n (c : VEC), dot K (vzero K n) c = 0.
Proof.
  induction n; intros c; cbn; [reflexivity|]. destruct c; [reflexivity|].
  unfold vzero in IHn. rewrite IHn. ring.
Qed.

Lemma dot_e0 : forall n (c : VEC), (0 < n)%nat -> dot K (e0 K n) c = hd0 K c.
Proof.
  intros n c H. destruct n; [lia|]. cbn. destruct c; cbn; [reflexivity|].
  rewrite dot_vzero_l. ring.
Qed.

Lemma hd0_vadd : forall a b : VEC, (0 < length a)%nat -> (0 < length b)%nat -> hd0 K (vadd K a b) = hd0 K a + hd0 K b.
Proof. intros a b Ha Hb. destruct a; destruct b; cbn in *; try lia. reflexivity. Qed.

Lemma fsum_cons : forall x l, fsum K (x :: l) = x + fsum K l.
Proof. reflexivity. Qed.
Lemma fsum_nil : fsum K [] = 0.
Proof. reflexivity. Qed.

(* sums *)
Lemma vsum_cons : forall n v (l : list VEC), vsum K n (v :: l) = vadd K v (vsum K n l).
Proof. reflexivity. Qed.

Lemma vsum_length : forall n (l : list VEC), (forall v, In v l -> length v = n) -> length (vsum K n l) = n.
Proof.
  induction l as [|v l IH]; intro H; cbn; [apply vzero_length|].
  apply vadd_length_eq; [apply H; now left|apply IH; intros; apply H; now right].
Qed.

Lemma dot_vsum_l : forall n (l : list VEC) c, (forall v, In v l -> length v = n) ->
  dot K (vsum K n l) c = fsum K (map (fun v => dot K v c) l).
Proof.
  induction l as [|v l IH]; intros c H; [apply dot_vzero_l|].
  rewrite vsum_cons. cbn [map]. rewrite fsum_cons.
  rewrite dot_vadd_l.
  - rewrite IH; [reflexivity|intros; apply H; now right].
  - rewrite (H v) by now left. symmetry. apply vsum_length. intros; apply H; now right.
Qed.

Lemma hd0_vzero : forall n, hd0 K (vzero K n) = 0.
Proof. destruct n; reflexivity. Qed.

Lemma hd0_vsum : forall n (l : list VEC), (0 < n)%nat -> (forall v, In v l -> length v = n) ->
  hd0 K (vsum K n l) = fsum K (map (hd0 K) l).
Proof.
  induction l as [|v l IH]; intros Hn H; [apply hd0_vzero|].
  rewrite vsum_cons. cbn [map]. rewrite fsum_cons.
  rewrite hd0_vadd.
  - rewrite IH; auto. intros; apply H; now right.
  - rewrite (H v) by now left. assumption.
  - rewrite vsum_length; [assumption|intros; apply H; now right].
Qed.

Lemma fsum_app : forall a b, fsum K (a ++ b) = fsum K a + fsum K b.
Proof.
  induction a as [|x a IH]; intros b.
  - rewrite fsum_nil. change ([] ++ b) with b. ring.
  - change ((x :: a) ++ b) with (x :: (a ++ b)). rewrite !fsum_cons, IH. ring.
Qed.

Lemma fsum_map_add : forall {A} (f g : A -> F) l, fsum K (map (fun x => f x + g x) l) = fsum K (map f l) + fsum K (map g l).
Proof.
  induction l as [|x l IH]; cbn [map].
  - rewrite !fsum_nil. ring.
  - rewrite !fsum_cons, IH. ring.
Qed.

Lemma fsum_map_ext : forall {A} (f g : A -> F) l, (forall x, In x l -> f x = g x) -> fsum K (map f l) = fsum K (map g l).
Proof.
  induction l as [|x l IH]; intro H; cbn [map]; [reflexivity|].
  rewrite !fsum_cons, H by now left. rewrite IH; [reflexivity|intros; apply H; now right].
Qed.

Lemma fsum_zero : forall l, (forall x, In x l -> x = 0) -> fsum K l = 0.
Proof.
  induction l as [|x l IH]; intro H; [reflexivity|].
  rewrite fsum_cons, (H x) by now left. rewrite IH; [ring|intros; apply H; now right].
Qed.

Lemma fold_left_vadd : forall n (l : list VEC) s, length s = n -> (forall v, In v l -> length v = n) ->
  fold_left (vadd K) l s = vadd K s (vsum K n l).
Proof.
  induction l as [|v l IH]; intros s Hs H; cbn.
  - symmetry. now apply vadd_vzero_r.
  - rewrite IH.
    + now rewrite vadd_assoc.
    + apply vadd_length_eq; [assumption|apply H; now left].
    + intros; apply H; now right.
Qed.

End RedistProofs.
