(* Redist_proofs.v — lemmas about model/Zero.v and model/Redist.v over an arbitrary field
   (flaws K): linear sharing algebra, HJKY, one redistribution step, histories, mixed epochs. *)
From Coq Require Import List NArith ZArith Arith Bool Lia Field Ring.
Import ListNotations.
Require Import V.base.Fld V.model.Zero V.model.Redist.

(* ---- generic helpers ------------------------------------------------------------------ *)

Lemma lookup_In : forall {A} (l : list (N * A)) i a, lookup i l = Some a -> In (i, a) l.
Proof.
  induction l as [|[j b] t IH]; cbn; intros i a H; [discriminate|].
  destruct (N.eqb i j) eqn:E.
  - apply N.eqb_eq in E; subst. inversion H; subst. now left.
  - right. now apply IH.
Qed.

Lemma lookup_map_fst : forall {A} (l : list (N * A)) i, In i (map fst l) -> exists a, lookup i l = Some a.
Proof.
  induction l as [|[j b] t IH]; cbn; intros i H; [contradiction|].
  destruct (N.eqb i j) eqn:E; [eauto|].
  destruct H as [H|H]; [subst; rewrite N.eqb_refl in E; discriminate|]. now apply IH.
Qed.

Lemma lookup_none : forall {A} (l : list (N * A)) i, ~ In i (map fst l) -> lookup i l = None.
Proof.
  induction l as [|[j b] t IH]; cbn; intros i H; [reflexivity|].
  destruct (N.eqb i j) eqn:E.
  - apply N.eqb_eq in E. subst. exfalso. apply H. now left.
  - apply IH. intro. apply H. now right.
Qed.

Lemma mem_In : forall i l, mem i l = true <-> In i l.
Proof.
  intros i l. unfold mem. rewrite existsb_exists. split.
  - intros [x [Hx E]]. apply N.eqb_eq in E. now subst.
  - intro H. exists i. split; [assumption|apply N.eqb_refl].
Qed.

Lemma mem_false : forall i l, mem i l = false <-> ~ In i l.
Proof.
  intros. split; intro H.
  - intro HI. apply mem_In in HI. congruence.
  - destruct (mem i l) eqn:E; [|reflexivity]. apply mem_In in E. contradiction.
Qed.

Lemma nodup_b_NoDup : forall l, nodup_b l = true -> NoDup l.
Proof.
  induction l as [|x t IH]; cbn; intro H; [constructor|].
  apply andb_true_iff in H. destruct H as [H1 H2]. constructor; [|now apply IH].
  apply negb_true_iff in H1. now apply mem_false in H1.
Qed.

Lemma list_N_eqb_eq : forall a b, list_N_eqb a b = true -> a = b.
Proof.
  induction a as [|x a IH]; destruct b as [|y b]; cbn; intro H; try discriminate; [reflexivity|].
  apply andb_true_iff in H. destruct H as [H1 H2]. apply N.eqb_eq in H1. subst. f_equal. now apply IH.
Qed.

Lemma all_ok_spec : forall {A B} (f : A -> res B) l r, all_ok f l = Some r ->
  map fst r = l /\ forall x b, In (x, b) r -> f x = Ok b.
Proof.
  induction l as [|x t IH]; cbn; intros r H.
  - inversion H; subst. split; [reflexivity|intros ? ? []].
  - destruct (f x) eqn:Ef; try discriminate. destruct (all_ok f t) eqn:Et; try discriminate.
    inversion H; subst. destruct (IH _ eq_refl) as [M P]. split; [cbn; now rewrite M|].
    intros y b' [E|E]; [inversion E; subst; assumption|now apply P].
Qed.

Lemma all_some_spec : forall {A B} (f : A -> option B) l r, all_some f l = Some r ->
  map fst r = l /\ forall x b, In (x, b) r -> f x = Some b.
Proof.
  induction l as [|x t IH]; cbn; intros r H.
  - inversion H; subst. split; [reflexivity|intros ? ? []].
  - destruct (f x) eqn:Ef; try discriminate. destruct (all_some f t) eqn:Et; try discriminate.
    inversion H; subst. destruct (IH _ eq_refl) as [M P]. split; [cbn; now rewrite M|].
    intros y b' [E|E]; [inversion E; subst; assumption|now apply P].
Qed.

Lemma lookup_all_ok : forall {B} (f : N -> res B) l r x, all_ok f l = Some r -> In x l ->
  exists b, lookup x r = Some b /\ f x = Ok b.
Proof.
  intros B f l r x H Hx. destruct (all_ok_spec f l r H) as [M P].
  destruct (lookup_map_fst r x) as [b Hb]; [now rewrite M|].
  exists b. split; [assumption|]. apply P. now apply lookup_In.
Qed.

Lemma lookup_all_some : forall {B} (f : N -> option B) l r x, all_some f l = Some r -> In x l ->
  exists b, lookup x r = Some b /\ f x = Some b.
Proof.
  intros B f l r x H Hx. destruct (all_some_spec f l r H) as [M P].
  destruct (lookup_map_fst r x) as [b Hb]; [now rewrite M|].
  exists b. split; [assumption|]. apply P. now apply lookup_In.
Qed.

(* ---- completeness: an honest step with well-formed environment data is never refused ---------- *)

Lemma all_ok_complete : forall {A B} (f : A -> res B) l, (forall x, In x l -> exists b, f x = Ok b) -> exists r, all_ok f l = Some r.
Proof.
  induction l as [|x l IH]; intro H; cbn; [eauto|].
  destruct (H x (or_introl eq_refl)) as [b Hb]. rewrite Hb.
  destruct IH as [r Hr]; [intros; apply H; now right|]. rewrite Hr. eauto.
Qed.

Lemma all_some_complete : forall {A B} (f : A -> option B) l, (forall x, In x l -> exists b, f x = Some b) -> exists r, all_some f l = Some r.
Proof.
  induction l as [|x l IH]; intro H; cbn; [eauto|].
  destruct (H x (or_introl eq_refl)) as [b Hb]. rewrite Hb.
  destruct IH as [r Hr]; [intros; apply H; now right|]. rewrite Hr. eauto.
Qed.

Section RedistProofs.
Context {F : Type} (K : fops F) (HK : flaws K).

Add Field Kfield : (fl_theory K HK).

Notation "0" := (f0 K).
Notation "1" := (f1 K).
Infix "+" := (fadd K).
Infix "*" := (fmul K).
Infix "-" := (fsub K).

Local Notation SH := (@sharing F).
Local Notation VEC := (@vec F).

Lemma feqb_eq : forall x y, feqb K x y = true <-> x = y.
Proof. exact (fl_eqb K HK). Qed.

(* ---- vectors --------------------------------------------------------------------------- *)

Lemma veqb_eq : forall a b : VEC, veqb K a b = true <-> a = b.
Proof.
  induction a as [|x a IH]; destruct b as [|y b]; cbn; split; intro H; try discriminate; try reflexivity.
  - apply andb_true_iff in H. destruct H as [H1 H2]. apply feqb_eq in H1. apply IH in H2. now subst.
  - inversion H; subst. apply andb_true_iff. split; [now apply feqb_eq|now apply IH].
Qed.

Lemma vadd_length : forall a b : VEC, length (vadd K a b) = Nat.min (length a) (length b).
Proof. induction a; destruct b; cbn; auto. Qed.

Lemma vadd_length_eq : forall (a b : VEC) n, length a = n -> length b = n -> length (vadd K a b) = n.
Proof. intros. rewrite vadd_length. lia. Qed.

Lemma vzero_length : forall n, length (vzero K n) = n.
Proof. intros. unfold vzero. apply repeat_length. Qed.

Lemma vscale_length : forall c (a : VEC), length (vscale K c a) = length a.
Proof. intros. unfold vscale. apply map_length. Qed.

Lemma vadd_comm : forall a b : VEC, vadd K a b = vadd K b a.
Proof. induction a; destruct b; cbn; auto. f_equal; [ring|auto]. Qed.

Lemma vadd_assoc : forall a b c : VEC, vadd K a (vadd K b c) = vadd K (vadd K a b) c.
Proof. induction a; destruct b; destruct c; cbn; auto. f_equal; [ring|auto]. Qed.

Lemma vadd_vzero_r : forall (a : VEC) n, length a = n -> vadd K a (vzero K n) = a.
Proof.
  induction a as [|x a IH]; intros n H; cbn in *; subst; cbn; [reflexivity|].
  f_equal; [ring|]. now apply IH.
Qed.

Lemma vadd_vzero_l : forall (a : VEC) n, length a = n -> vadd K (vzero K n) a = a.
Proof. intros. rewrite vadd_comm. now apply vadd_vzero_r. Qed.

Lemma dot_nil_r : forall a : VEC, dot K a [] = 0.
Proof. destruct a; reflexivity. Qed.

Lemma dot_vadd_r : forall r a b : VEC, length a = length b -> dot K r (vadd K a b) = dot K r a + dot K r b.
Proof.
  induction r as [|x r IH]; intros a b H; cbn; [ring|].
  destruct a as [|y a]; destruct b as [|z b]; cbn in *; try discriminate; [ring|].
  rewrite IH by lia. ring.
Qed.

Lemma dot_vadd_l : forall a b c : VEC, length a = length b -> dot K (vadd K a b) c = dot K a c + dot K b c.
Proof.
  induction a as [|x a IH]; intros b c H; destruct b as [|y b]; cbn in *; try discriminate; [ring|].
  destruct c as [|z c]; [ring|]. rewrite IH by lia. ring.
Qed.

Lemma dot_vscale_l : forall x (a c : VEC), dot K (vscale K x a) c = x * dot K a c.
Proof.
  induction a as [|y a IH]; intros c; cbn; [ring|]. destruct c as [|z c]; [ring|].
  unfold vscale in IH. rewrite IH. ring.
Qed.

Lemma dot_vzero_l : forall n (c : VEC), dot K (vzero K n) c = 0.
Proof.
  induction n; intros c; cbn; [reflexivity|]. destruct c; [reflexivity|].
  unfold vzero in IHn. rewrite IHn. ring.
Qed.

Lemma dot_e0 : forall n (c : VEC), (0 < n)%nat -> dot K (e0 K n) c = hd0 K c.
Proof.
  intros n c H. destruct n; [lia|]. cbn. destruct c; cbn; [reflexivity|].
  rewrite dot_vzero_l. ring.
Qed.

Lemma hd0_vadd : forall a b : VEC, (0 < length a)%nat -> (0 < length b)%nat -> hd0 K (vadd K a b) = hd0 K a + hd0 K b.
Proof. intros a b Ha Hb. destruct a; destruct b; cbn in *; try lia. reflexivity. Qed.

Lemma fsum_cons : forall x l, fsum K (x :: l) = x + fsum K l.
Proof. reflexivity. Qed.
Lemma fsum_nil : fsum K [] = 0.
Proof. reflexivity. Qed.

(* sums *)
Lemma vsum_cons : forall n v (l : list VEC), vsum K n (v :: l) = vadd K v (vsum K n l).
Proof. reflexivity. Qed.

Lemma vsum_length : forall n (l : list VEC), (forall v, In v l -> length v = n) -> length (vsum K n l) = n.
Proof.
  induction l as [|v l IH]; intro H; cbn; [apply vzero_length|].
  apply vadd_length_eq; [apply H; now left|apply IH; intros; apply H; now right].
Qed.

Lemma dot_vsum_l : forall n (l : list VEC) c, (forall v, In v l -> length v = n) ->
  dot K (vsum K n l) c = fsum K (map (fun v => dot K v c) l).
Proof.
  induction l as [|v l IH]; intros c H; [apply dot_vzero_l|].
  rewrite vsum_cons. cbn [map]. rewrite fsum_cons.
  rewrite dot_vadd_l.
  - rewrite IH; [reflexivity|intros; apply H; now right].
  - rewrite (H v) by now left. symmetry. apply vsum_length. intros; apply H; now right.
Qed.

Lemma hd0_vzero : forall n, hd0 K (vzero K n) = 0.
Proof. destruct n; reflexivity. Qed.

Lemma hd0_vsum : forall n (l : list VEC), (0 < n)%nat -> (forall v, In v l -> length v = n) ->
  hd0 K (vsum K n l) = fsum K (map (hd0 K) l).
Proof.
  induction l as [|v l IH]; intros Hn H; [apply hd0_vzero|].
  rewrite vsum_cons. cbn [map]. rewrite fsum_cons.
  rewrite hd0_vadd.
  - rewrite IH; auto. intros; apply H; now right.
  - rewrite (H v) by now left. assumption.
  - rewrite vsum_length; [assumption|intros; apply H; now right].
Qed.

Lemma fsum_app : forall a b, fsum K (a ++ b) = fsum K a + fsum K b.
Proof.
  induction a as [|x a IH]; intros b.
  - rewrite fsum_nil. change ([] ++ b) with b. ring.
  - change ((x :: a) ++ b) with (x :: (a ++ b)). rewrite !fsum_cons, IH. ring.
Qed.

Lemma fsum_map_add : forall {A} (f g : A -> F) l, fsum K (map (fun x => f x + g x) l) = fsum K (map f l) + fsum K (map g l).
Proof.
  induction l as [|x l IH]; cbn [map].
  - rewrite !fsum_nil. ring.
  - rewrite !fsum_cons, IH. ring.
Qed.

Lemma fsum_map_ext : forall {A} (f g : A -> F) l, (forall x, In x l -> f x = g x) -> fsum K (map f l) = fsum K (map g l).
Proof.
  induction l as [|x l IH]; intro H; cbn [map]; [reflexivity|].
  rewrite !fsum_cons, H by now left. rewrite IH; [reflexivity|intros; apply H; now right].
Qed.

Lemma fsum_zero : forall l, (forall x, In x l -> x = 0) -> fsum K l = 0.
Proof.
  induction l as [|x l IH]; intro H; [reflexivity|].
  rewrite fsum_cons, (H x) by now left. rewrite IH; [ring|intros; apply H; now right].
Qed.

Lemma fold_left_vadd : forall n (l : list VEC) s, length s = n -> (forall v, In v l -> length v = n) ->
  fold_left (vadd K) l s = vadd K s (vsum K n l).
Proof.
  induction l as [|v l IH]; intros s Hs H; cbn.
  - symmetry. now apply vadd_vzero_r.
  - rewrite IH.
    + now rewrite vadd_assoc.
    + apply vadd_length_eq; [assumption|apply H; now left].
    + intros; apply H; now right.
Qed.

(* ---- linear sharing ---------------------------------------------------------------------- *)

Definition rows_wf (d : nat) (rs : list VEC) : Prop := forall r, In r rs -> length r = d.

Lemma rows_wf_b_ok : forall d rs, rows_wf_b d rs = true -> rows_wf d rs.
Proof.
  unfold rows_wf_b, rows_wf. intros d rs H r Hr. rewrite forallb_forall in H.
  apply Nat.eqb_eq. now apply H.
Qed.

Lemma wf_rows : forall (sh : SH) i, wf_sharing_b sh = true -> rows_wf (sh_dim sh) (rows sh i).
Proof.
  intros sh i H. unfold wf_sharing_b in H. apply andb_true_iff in H. destruct H as [_ H].
  unfold rows. destruct (lookup i (sh_tab sh)) eqn:E; [|intros r []].
  apply lookup_In in E. rewrite forallb_forall in H. apply rows_wf_b_ok. exact (H _ E).
Qed.

Lemma wf_dim_pos : forall sh : SH, wf_sharing_b sh = true -> (0 < sh_dim sh)%nat.
Proof.
  intros sh H. unfold wf_sharing_b in H. apply andb_true_iff in H. destruct H as [H _]. now apply Nat.ltb_lt in H.
Qed.

Lemma share_of_length : forall (sh : SH) c i, length (share_of K sh c i) = length (rows sh i).
Proof. intros. unfold share_of. apply map_length. Qed.

Lemma map_dot_vadd : forall (rs : list VEC) c1 c2, length c1 = length c2 ->
  map (fun r => dot K r (vadd K c1 c2)) rs = vadd K (map (fun r => dot K r c1) rs) (map (fun r => dot K r c2) rs).
Proof.
  induction rs as [|r rs IH]; intros c1 c2 H; cbn; [reflexivity|].
  rewrite dot_vadd_r by assumption. f_equal. now apply IH.
Qed.

Lemma share_of_vadd : forall (sh : SH) c1 c2 i, length c1 = length c2 ->
  share_of K sh (vadd K c1 c2) i = vadd K (share_of K sh c1 i) (share_of K sh c2 i).
Proof. intros. unfold share_of. now apply map_dot_vadd. Qed.

Lemma share_of_vzero : forall (sh : SH) n i, share_of K sh (vzero K n) i = vzero K (length (rows sh i)).
Proof.
  intros. unfold share_of. induction (rows sh i) as [|r rs IH]; cbn; [reflexivity|].
  f_equal; [|exact IH]. clear IH. revert n. induction r as [|x r IHr]; intros n; cbn; [reflexivity|].
  destruct n; cbn; [reflexivity|]. unfold vzero in IHr. rewrite IHr. ring.
Qed.

Lemma share_of_vsum : forall (sh : SH) n (l : list VEC) i, (forall v, In v l -> length v = n) ->
  share_of K sh (vsum K n l) i = vsum K (length (rows sh i)) (map (fun c => share_of K sh c i) l).
Proof.
  induction l as [|v l IH]; intros i H.
  - apply share_of_vzero.
  - rewrite vsum_cons. cbn [map]. rewrite vsum_cons. rewrite share_of_vadd.
    + f_equal. apply IH. intros; apply H; now right.
    + rewrite (H v) by now left. symmetry. apply vsum_length. intros; apply H; now right.
Qed.

Lemma lincomb_length : forall d cs (rs : list VEC), rows_wf d rs -> length (lincomb K d cs rs) = d.
Proof.
  induction cs as [|c cs IH]; intros rs H; cbn; [apply vzero_length|].
  destruct rs as [|r rs]; [apply vzero_length|].
  apply vadd_length_eq.
  - rewrite vscale_length. apply H. now left.
  - apply IH. intros r' Hr'. apply H. now right.
Qed.

Lemma dot_lincomb : forall d cs (rs : list VEC) c, rows_wf d rs ->
  dot K cs (map (fun r => dot K r c) rs) = dot K (lincomb K d cs rs) c.
Proof.
  induction cs as [|x cs IH]; intros rs c H; cbn.
  - now rewrite dot_vzero_l.
  - destruct rs as [|r rs]; cbn; [now rewrite dot_vzero_l|].
    rewrite dot_vadd_l.
    + rewrite dot_vscale_l. rewrite (IH rs c); [reflexivity|]. intros r' Hr'. apply H. now right.
    + rewrite vscale_length, lincomb_length; [apply H; now left|]. intros r' Hr'. apply H. now right.
Qed.

Lemma recon_share_of : forall (sh : SH) S lam c, wf_sharing_b sh = true ->
  recon K S lam (share_of K sh c) = dot K (comb K sh S lam) c.
Proof.
  intros sh S lam c W. unfold recon, comb.
  rewrite dot_vsum_l.
  - rewrite map_map. apply fsum_map_ext. intros i _. unfold additive, share_of.
    apply dot_lincomb. now apply wf_rows.
  - intros v Hv. apply in_map_iff in Hv. destruct Hv as [i [E _]]. subst.
    apply lincomb_length. now apply wf_rows.
Qed.

Lemma reconstructs_comb : forall (sh : SH) S lam, reconstructs_b K sh S lam = true -> comb K sh S lam = e0 K (sh_dim sh).
Proof.
  intros sh S lam H. unfold reconstructs_b in H. apply andb_true_iff in H. destruct H as [_ H]. now apply veqb_eq.
Qed.

Lemma reconstructs_holders : forall (sh : SH) S lam i, reconstructs_b K sh S lam = true -> In i S ->
  In i (holders sh) /\ length (coef_of lam i) = length (rows sh i).
Proof.
  intros sh S lam i H Hi. unfold reconstructs_b in H. apply andb_true_iff in H. destruct H as [H _].
  rewrite forallb_forall in H. specialize (H i Hi). apply andb_true_iff in H. destruct H as [H1 H2].
  split; [now apply mem_In|now apply Nat.eqb_eq].
Qed.

(* a reconstructing set recovers the first entry of the dealt column *)
Lemma recon_correct : forall (sh : SH) S lam c, wf_sharing_b sh = true -> reconstructs_b K sh S lam = true ->
  recon K S lam (share_of K sh c) = hd0 K c.
Proof.
  intros sh S lam c W R. rewrite recon_share_of by assumption. rewrite (reconstructs_comb _ _ _ R).
  apply dot_e0. now apply wf_dim_pos.
Qed.

Lemma recon_ext : forall S lam (f g : N -> list F), (forall i, In i S -> f i = g i) -> recon K S lam f = recon K S lam g.
Proof. intros. unfold recon. apply fsum_map_ext. intros i Hi. now rewrite H. Qed.

Lemma verify_share_of : forall (sh : SH) i c, In i (holders sh) -> length c = sh_dim sh -> verify K sh i (share_of K sh c i) c = true.
Proof.
  intros sh i c Hi Hc. unfold verify. apply andb_true_iff. split; [apply andb_true_iff; split|].
  - now apply mem_In.
  - now apply Nat.eqb_eq.
  - now apply veqb_eq.
Qed.

Lemma verify_inv : forall (sh : SH) i s v, verify K sh i s v = true -> In i (holders sh) /\ length v = sh_dim sh /\ s = share_of K sh v i.
Proof.
  intros sh i s v H. unfold verify in H. apply andb_true_iff in H. destruct H as [H H3].
  apply andb_true_iff in H. destruct H as [H1 H2].
  split; [now apply mem_In|]. split; [now apply Nat.eqb_eq|now apply veqb_eq].
Qed.

Lemma deal_col_spec : forall d (s : F) rnd c, deal_col d s rnd = Some c -> length c = d /\ hd0 K c = s /\ tl c = tl rnd /\ (0 < d)%nat.
Proof.
  intros d s rnd c H. unfold deal_col in H.
  destruct (Nat.eqb (length rnd) d && Nat.leb 2 d) eqn:E; [|discriminate].
  inversion H; subst. apply andb_true_iff in E. destruct E as [E1 E2].
  apply Nat.eqb_eq in E1. apply Nat.leb_le in E2. destruct rnd; cbn in *; [lia|]. repeat split; auto. lia.
Qed.

(* ---- a sum with one key moved to the front ------------------------------------------------- *)

Lemma filter_notin : forall {A} (l : list (N * A)) i, ~ In i (map fst l) ->
  filter (fun jc => negb (N.eqb (fst jc) i)) l = l.
Proof.
  induction l as [|[j a] l IH]; intros i H; cbn; [reflexivity|].
  destruct (N.eqb j i) eqn:E.
  - apply N.eqb_eq in E. subst. exfalso. apply H. now left.
  - cbn. f_equal. apply IH. intro. apply H. now right.
Qed.

Lemma vsum_move_front : forall {A} (g : A -> VEC) n (l : list (N * A)) i a,
  NoDup (map fst l) -> lookup i l = Some a -> (forall e, In e l -> length (g (snd e)) = n) ->
  vadd K (g a) (vsum K n (map (fun e => g (snd e)) (filter (fun jc => negb (N.eqb (fst jc) i)) l)))
  = vsum K n (map (fun e => g (snd e)) l).
Proof.
  induction l as [|[j b] l IH]; intros i a ND L H; [discriminate|].
  cbn [lookup] in L. cbn [map fst] in ND. inversion ND as [|? ? Hnotin ND']; subst.
  cbn [filter fst]. destruct (N.eqb i j) eqn:E.
  - apply N.eqb_eq in E. subst. inversion L; subst. rewrite N.eqb_refl. cbn [negb].
    rewrite filter_notin by assumption. reflexivity.
  - rewrite N.eqb_sym, E. cbn [negb map snd]. rewrite !vsum_cons.
    rewrite vadd_assoc, (vadd_comm (g a) (g b)), <- vadd_assoc. f_equal.
    apply IH; auto. intros e He. apply H. now right.
Qed.

(* ---- HJKY ------------------------------------------------------------------------------------ *)

Lemma hjky_accumulate_ok : forall (zs : SH) i inbox s v s' v',
  hjky_accumulate K zs i s v inbox = Ok (s', v') ->
  s' = fold_left (vadd K) (map (fun m : zmsg => snd (snd m)) inbox) s /\
  v' = fold_left (vadd K) (map (fun m : zmsg => fst (snd m)) inbox) v /\
  Forall (fun m : zmsg => verify K zs i (snd (snd m)) (fst (snd m)) = true /\ hd0 K (fst (snd m)) = 0) inbox.
Proof.
  induction inbox as [|[j [vv sh]] rest IH]; intros s v s' v' H; cbn in H.
  - inversion H; subst. repeat split; constructor.
  - destruct (verify K zs i sh vv) eqn:E1; cbn in H; [|discriminate].
    destruct (feqb K (hd0 K vv) 0) eqn:E2; cbn in H; [|discriminate].
    destruct (Nat.eqb (length v) (length vv)) eqn:E3; cbn in H; [|discriminate].
    destruct (IH _ _ _ _ H) as [A [B C]]. cbn [map fold_left fst snd]. repeat split; auto.
    constructor; [|assumption]. cbn [fst snd]. split; [assumption|now apply feqb_eq].
Qed.

Lemma hjky_cols_spec : forall (zs : SH) rnds zc, hjky_cols K zs rnds = Some zc ->
  map fst zc = map fst rnds /\ forall e, In e zc -> length (snd e) = sh_dim zs /\ hd0 K (snd e) = 0.
Proof.
  induction rnds as [|[j rnd] t IH]; intros zc H; cbn in H.
  - inversion H; subst. split; [reflexivity|intros ? []].
  - destruct (hjky_round1 K zs rnd) eqn:E1; [|discriminate]. destruct (hjky_cols K zs t) eqn:E2; [|discriminate].
    inversion H; subst. destruct (IH _ eq_refl) as [M P]. split; [cbn; now rewrite M|].
    intros e [He|He]; [|now apply P]. subst. cbn [snd]. unfold hjky_round1 in E1.
    apply deal_col_spec in E1. tauto.
Qed.

(* an honest HJKY party ends with its share of the summed zero column Z and with Z itself *)
Lemma hjky_party_honest : forall (zs : SH) (zc : zcols) i sh vv,
  NoDup (map fst zc) -> (forall e, In e zc -> length (snd e) = sh_dim zs /\ hd0 K (snd e) = 0) ->
  hjky_party K zs zc i = Ok (sh, vv) ->
  vv = vsum K (sh_dim zs) (map snd zc) /\ sh = share_of K zs vv i.
Proof.
  intros zs zc i sh vv ND P H. unfold hjky_party in H. destruct (lookup i zc) as [c|] eqn:L; [|discriminate].
  unfold hjky_round2, hjky_inbox in H. apply hjky_accumulate_ok in H. destruct H as [A [B _]].
  rewrite map_map in A, B. cbn [fst snd] in A, B.
  set (fl := filter (fun jc : N * vec => negb (N.eqb (fst jc) i)) zc) in *.
  assert (Hfl : forall e, In e fl -> length (snd e) = sh_dim zs).
  { intros e He. apply filter_In in He. now apply P. }
  assert (Hc : length c = sh_dim zs) by (apply (P (i, c)); now apply lookup_In).
  assert (MF : vadd K c (vsum K (sh_dim zs) (map snd fl)) = vsum K (sh_dim zs) (map snd zc)).
  { exact (vsum_move_front (fun x => x) (sh_dim zs) zc i c ND L (fun e He => proj1 (P e He))). }
  assert (Lfl : forall v, In v (map snd fl) -> length v = sh_dim zs).
  { intros v Hv. apply in_map_iff in Hv. destruct Hv as [e [E He]]. subst. now apply Hfl. }
  assert (V : vv = vsum K (sh_dim zs) (map snd zc)).
  { rewrite B. rewrite (fold_left_vadd (sh_dim zs)); [exact MF|assumption|exact Lfl]. }
  split; [assumption|].
  rewrite A. rewrite (fold_left_vadd (length (rows zs i))).
  - rewrite V, <- MF. rewrite share_of_vadd.
    + f_equal. rewrite share_of_vsum by exact Lfl. now rewrite map_map.
    + rewrite Hc. symmetry. now apply vsum_length.
  - apply share_of_length.
  - intros v Hv. apply in_map_iff in Hv. destruct Hv as [e [E He]]. subst. apply share_of_length.
Qed.

Lemma hd0_zero_sum : forall (zs : SH) (zc : zcols), (0 < sh_dim zs)%nat ->
  (forall e, In e zc -> length (snd e) = sh_dim zs /\ hd0 K (snd e) = 0) ->
  hd0 K (vsum K (sh_dim zs) (map snd zc)) = 0.
Proof.
  intros zs zc Hd P. rewrite hd0_vsum.
  - apply fsum_zero. intros x Hx. apply in_map_iff in Hx. destruct Hx as [v [E Hv]]. subst.
    apply in_map_iff in Hv. destruct Hv as [e [E He]]. subst. now apply P.
  - assumption.
  - intros v Hv. apply in_map_iff in Hv. destruct Hv as [e [E He]]. subst. now apply P.
Qed.

(* acceptance soundness of Round2 against ARBITRARY messages: whatever is accepted commits to
   zero and verifies (a vector whose first entry is not the identity is rejected with blame) *)
Lemma hjky_round2_accept_sound : forall (zs : SH) i own inbox s v,
  wf_sharing_b zs = true -> In i (holders zs) -> length own = sh_dim zs -> hd0 K own = 0 ->
  hjky_round2 K zs i own inbox = Ok (s, v) ->
  Forall (fun m : zmsg => verify K zs i (snd (snd m)) (fst (snd m)) = true /\ hd0 K (fst (snd m)) = 0) inbox /\
  hd0 K v = 0 /\ verify K zs i s v = true.
Proof.
  intros zs i own inbox s v W Hi Hl H0 H. unfold hjky_round2 in H.
  pose proof (wf_dim_pos _ W) as Hd.
  apply hjky_accumulate_ok in H. destruct H as [A [B C]]. split; [assumption|].
  assert (L : forall m : zmsg, In m inbox -> length (fst (snd m)) = sh_dim zs /\ snd (snd m) = share_of K zs (fst (snd m)) i).
  { intros m Hm. rewrite Forall_forall in C. destruct (C m Hm) as [Vm _]. apply verify_inv in Vm. tauto. }
  assert (Vv : v = vadd K own (vsum K (sh_dim zs) (map (fun m : zmsg => fst (snd m)) inbox))).
  { rewrite B. apply fold_left_vadd; [assumption|]. intros x Hx. apply in_map_iff in Hx. destruct Hx as [m [E Hm]]. subst. now apply L. }
  assert (Ls : length (vsum K (sh_dim zs) (map (fun m : zmsg => fst (snd m)) inbox)) = sh_dim zs).
  { apply vsum_length. intros x Hx. apply in_map_iff in Hx. destruct Hx as [m [E Hm]]. subst. now apply L. }
  split.
  - rewrite Vv. rewrite hd0_vadd by lia. rewrite H0. rewrite hd0_vsum; [|assumption|].
    + rewrite fsum_zero; [ring|]. intros x Hx. apply in_map_iff in Hx. destruct Hx as [y [E Hy]]. subst.
      apply in_map_iff in Hy. destruct Hy as [m [E Hm]]. subst. rewrite Forall_forall in C. now apply C.
    + intros x Hx. apply in_map_iff in Hx. destruct Hx as [m [E Hm]]. subst. now apply L.
  - assert (Ss : s = share_of K zs v i).
    { rewrite A. rewrite (fold_left_vadd (length (rows zs i))).
      - rewrite Vv. rewrite share_of_vadd by lia. f_equal. rewrite share_of_vsum.
        + rewrite map_map. f_equal. apply map_ext_in. intros m Hm. now apply L.
        + intros x Hx. apply in_map_iff in Hx. destruct Hx as [m [E Hm]]. subst. now apply L.
      - apply share_of_length.
      - intros x Hx. apply in_map_iff in Hx. destruct Hx as [m [E Hm]]. subst.
        destruct (L m Hm) as [_ E]. rewrite E. apply share_of_length. }
    rewrite Ss. apply verify_share_of; [assumption|]. rewrite Vv. apply vadd_length_eq; assumption.
Qed.

(* ---- one redistribution step ------------------------------------------------------------------ *)

Section Step.
Variable solve : SH -> list N -> option (@coefs F).

Local Notation WORLD := (@world F).

(* the invariant of a world for the secret s: the shares are the dealing of the current
   sharing with the column w_vv (in the exponent: every share verifies against the
   verification vector), whose first entry — the public key — is s *)
Definition good (w : WORLD) (s : F) : Prop :=
  wf_sharing_b (w_sh w) = true /\ length (w_vv w) = sh_dim (w_sh w) /\ hd0 K (w_vv w) = s /\ w_pk w = s /\
  forall i, In i (holders (w_sh w)) -> share_in w i = share_of K (w_sh w) (w_vv w) i.

Lemma coefs_checked_ok : forall sh S lam, coefs_checked K solve sh S = Some lam -> reconstructs_b K sh S lam = true.
Proof.
  intros sh S lam H. unfold coefs_checked in H. destruct (solve sh S) as [l|]; [|discriminate].
  destruct (reconstructs_b K sh S l) eqn:E; [|discriminate]. now inversion H; subst.
Qed.

Lemma r3_accumulate_some : forall inbox s v r, r3_accumulate K (Some (s, v)) inbox = Ok r ->
  r = Some (fold_left (vadd K) (map (@m_piece F) inbox) s, fold_left (vadd K) (map (fun m => b_nextvv (m_b m)) inbox) v).
Proof.
  induction inbox as [|m rest IH]; intros s v r H; cbn in H.
  - now inversion H.
  - destruct (Nat.eqb (length v) (length (b_nextvv (m_b m)))); [|discriminate].
    cbn [map fold_left]. now apply IH.
Qed.

Lemma round3_ok_inv : forall own_t own anchor zs ns Q i inbox share vv,
  round3 K solve own_t own anchor zs ns Q i inbox = Ok (share, vv) ->
  r3_accumulate K own inbox = Ok (Some (share, vv)) /\ r3_oldpk K (hd0 K vv) inbox = true /\ verify K ns i share vv = true.
Proof.
  intros own_t own anchor zs ns Q i inbox share vv H. unfold round3 in H.
  destruct (r3_accumulate K own inbox) as [[[s v]|]| |] eqn:EA; try discriminate.
  destruct (r3_pieces K ns i inbox); try discriminate.
  match type of H with (match ?t with _ => _ end) = _ => destruct t as [topt| |]; try discriminate end.
  match type of H with (match ?t with _ => _ end) = _ => destruct t; try discriminate end.
  destruct (r3_oldpk K (hd0 K v) inbox) eqn:EO; cbn in H; [|discriminate].
  destruct (verify K ns i s v) eqn:EV; cbn in H; [|discriminate].
  inversion H; subst. auto.
Qed.

(* acceptance soundness of Round3 against ARBITRARY messages: an accepted shard verifies and its
   public key is the first entry of every broadcast previous vector *)
Lemma r3_oldpk_spec : forall pk inbox, r3_oldpk K pk inbox = true -> forall m, In m inbox -> hd0 K (b_prevvv (m_b m)) = pk.
Proof.
  induction inbox as [|m rest IH]; intros H x Hx; [contradiction|].
  cbn in H. apply andb_true_iff in H. destruct H as [H1 H2]. destruct Hx as [E|Hx]; [subst; now apply feqb_eq|now apply IH].
Qed.

Lemma round3_accept_sound : forall own_t own anchor zs ns Q i inbox share vv,
  round3 K solve own_t own anchor zs ns Q i inbox = Ok (share, vv) ->
  verify K ns i share vv = true /\ forall m, In m inbox -> hd0 K (b_prevvv (m_b m)) = hd0 K vv.
Proof.
  intros. apply round3_ok_inv in H. destruct H as [_ [H1 H2]]. split; [assumption|]. now apply r3_oldpk_spec.
Qed.

Lemma round2_spec : forall ps zs ns Q j sj zj rnd a c lam lamz,
  coefs_checked K solve ps Q = Some lam -> coefs_checked K solve zs Q = Some lamz ->
  round2 K solve ps zs ns Q j sj zj rnd = Some (a, c) ->
  a = additive K lam j sj + additive K lamz j zj /\ length c = sh_dim ns /\ hd0 K c = a.
Proof.
  intros ps zs ns Q j sj zj rnd a c lam lamz E1 E2 H. unfold round2 in H. rewrite E1, E2 in H.
  destruct (Nat.eqb (length sj) (length (coef_of lam j)) && Nat.eqb (length zj) (length (coef_of lamz j))); [|discriminate].
  destruct (deal_col (sh_dim ns) (additive K lam j sj + additive K lamz j zj) rnd) as [c'|] eqn:ED; [|discriminate].
  inversion H; subst. apply deal_col_spec in ED. tauto.
Qed.

Lemma lookup_map_snd : forall {A B} (g : A -> B) (l : list (N * A)) i,
  lookup i (map (fun o => (fst o, g (snd o))) l) = option_map g (lookup i l).
Proof.
  induction l as [|[j a] l IH]; intros i; cbn; [reflexivity|]. destruct (N.eqb i j); [reflexivity|apply IH].
Qed.

(* what every next holder computes in an honest step, from what it accumulates *)
Lemma r3_honest_values : forall (w : WORLD) (ns : SH) zres (cols : list (N * (F * VEC))) Q i own share vv,
  map fst cols = Q -> NoDup Q -> (2 <= length Q)%nat ->
  (forall e, In e cols -> length (snd (snd e)) = sh_dim ns) ->
  own = match lookup i cols with
        | Some ac => if mem i Q then Some (share_of K ns (snd ac) i, snd ac) else None
        | None => None end ->
  r3_accumulate K own (r3_inbox K w ns zres cols i) = Ok (Some (share, vv)) ->
  vv = vsum K (sh_dim ns) (map (fun e => snd (snd e)) cols) /\ share = share_of K ns vv i.
Proof.
  intros w ns zres cols Q i own share vv MQ ND LQ LC Ho H.
  unfold r3_inbox in H.
  set (fl := filter (fun jc : N * (F * VEC) => negb (N.eqb (fst jc) i)) cols) in *.
  set (mk := fun jc : N * (F * VEC) => mk_r2msg (fst jc)
       (mk_r2bcast (w_sh w) (w_vv w) (match lookup (fst jc) zres with Some z => snd z | None => [] end) (snd (snd jc)))
       (share_of K ns (snd (snd jc)) i)) in *.
  assert (Hfl : forall e, In e fl -> length (snd (snd e)) = sh_dim ns).
  { intros e He. apply filter_In in He. now apply LC. }
  assert (Lfl : forall v, In v (map (fun e : N * (F * VEC) => snd (snd e)) fl) -> length v = sh_dim ns).
  { intros v Hv. apply in_map_iff in Hv. destruct Hv as [e [E He]]. subst. now apply Hfl. }
  assert (P1 : forall l, map (@m_piece F) (map mk l) = map (fun c => share_of K ns c i) (map (fun e : N * (F * VEC) => snd (snd e)) l)).
  { intro l. rewrite !map_map. reflexivity. }
  assert (P2 : forall l, map (fun m => b_nextvv (m_b m)) (map mk l) = map (fun e : N * (F * VEC) => snd (snd e)) l).
  { intro l. rewrite map_map. reflexivity. }
  assert (SS : forall v, In v (map (fun c => share_of K ns c i) (map (fun e : N * (F * VEC) => snd (snd e)) fl)) -> length v = length (rows ns i)).
  { intros v Hv. apply in_map_iff in Hv. destruct Hv as [c [E _]]. subst. apply share_of_length. }
  rewrite <- MQ in ND.
  destruct (lookup i cols) as [ac|] eqn:L.
  - (* i is a previous holder *)
    assert (Hi : mem i Q = true).
    { apply mem_In. rewrite <- MQ. apply in_map_iff. exists (i, ac). split; [reflexivity|now apply lookup_In]. }
    rewrite Hi in Ho. subst own. apply r3_accumulate_some in H. inversion H as [[Hs Hv]]. clear H.
    rewrite P1, P2.
    assert (Lac : length (snd ac) = sh_dim ns) by (apply (LC (i, ac)); now apply lookup_In).
    assert (MF : vadd K (snd ac) (vsum K (sh_dim ns) (map (fun e : N * (F * VEC) => snd (snd e)) fl))
                 = vsum K (sh_dim ns) (map (fun e : N * (F * VEC) => snd (snd e)) cols)).
    { exact (vsum_move_front (fun x : F * VEC => snd x) (sh_dim ns) cols i ac ND L LC). }
    rewrite (fold_left_vadd (sh_dim ns)) by assumption. rewrite MF. split; [reflexivity|].
    rewrite (fold_left_vadd (length (rows ns i))); [|apply share_of_length|assumption].
    rewrite <- MF. rewrite share_of_vadd.
    + f_equal. now rewrite share_of_vsum.
    + rewrite Lac. symmetry. now apply vsum_length.
  - (* i is only a next holder: everything comes from the inbox *)
    subst own.
    assert (Hn : ~ In i (map fst cols)).
    { intro Hin. apply lookup_map_fst in Hin. destruct Hin as [x Hx]. congruence. }
    assert (Efl : fl = cols) by (unfold fl; now apply filter_notin).
    rewrite Efl in *.
    destruct cols as [|e0 rest]; [cbn in MQ; subst Q; cbn in LQ; lia|].
    cbn [map r3_accumulate] in H. apply r3_accumulate_some in H. inversion H as [[Hs Hv]]. clear H.
    rewrite P1, P2.
    assert (Le0 : length (snd (snd e0)) = sh_dim ns) by (apply LC; now left).
    assert (Lr : forall v, In v (map (fun e : N * (F * VEC) => snd (snd e)) rest) -> length v = sh_dim ns).
    { intros v Hv'. apply Lfl. now right. }
    rewrite (fold_left_vadd (sh_dim ns)); [|exact Le0|exact Lr].
    cbn [map]. rewrite vsum_cons. cbn [m_b b_nextvv mk]. split; [reflexivity|].
    rewrite (fold_left_vadd (length (rows ns i))).
    + cbn [m_piece mk]. rewrite share_of_vadd.
      * f_equal. now rewrite share_of_vsum.
      * rewrite Le0. symmetry. now apply vsum_length.
    + cbn [m_piece mk]. apply share_of_length.
    + intros v Hv'. apply SS. now right.
Qed.

Lemma good_recon : forall (w : WORLD) s S lam, good w s -> reconstructs_b K (w_sh w) S lam = true ->
  recon K S lam (share_in w) = s.
Proof.
  intros w s S lam [W [L [H0 [_ Hs]]]] R.
  rewrite (recon_ext S lam (share_in w) (share_of K (w_sh w) (w_vv w))).
  - rewrite recon_correct by assumption. assumption.
  - intros i Hi. apply Hs. now apply (reconstructs_holders _ _ _ _ R Hi).
Qed.

Lemma good_verify : forall (w : WORLD) s i, good w s -> In i (holders (w_sh w)) ->
  verify K (w_sh w) i (share_in w i) (w_vv w) = true.
Proof.
  intros w s i [W [L [H0 [_ Hs]]]] Hi. rewrite Hs by assumption. now apply verify_share_of.
Qed.

Lemma genesis_good : forall sh secret rnd (w : WORLD), genesis K sh secret rnd = Some w -> good w secret.
Proof.
  intros sh secret rnd w H. unfold genesis in H. destruct (wf_sharing_b sh) eqn:W; [|discriminate].
  destruct (deal_col (sh_dim sh) secret rnd) as [c|] eqn:D; [|discriminate].
  inversion H; subst w. clear H. apply deal_col_spec in D. destruct D as [D1 [D2 _]].
  unfold good. cbn [w_sh w_vv w_pk]. repeat split; auto.
  intros i Hi. unfold share_in. cbn [w_shares].
  assert (G : forall l, In i l -> lookup i (map (fun i0 => (i0, share_of K sh c i0)) l) = Some (share_of K sh c i)).
  { induction l as [|x l IH]; intros Hl; [contradiction|]. cbn. destruct (N.eqb i x) eqn:E.
    - apply N.eqb_eq in E. now subst.
    - destruct Hl as [Hl|Hl]; [subst; rewrite N.eqb_refl in E; discriminate|now apply IH]. }
  now rewrite G.
Qed.

(* the step theorem: whenever an honest step is performed, the new world is good for the same secret *)
Theorem redist_run_good : forall (w : WORLD) ns a w' s,
  good w s -> redist_run K solve w ns a = Some w' -> good w' s.
Proof.
  intros w ns a w' s G H. unfold redist_run in H.
  match type of H with (if negb ?c then _ else _) = _ => destruct c eqn:EC; cbn [negb] in H; [|discriminate] end.
  unfold precheck in EC.
  do 9 (apply andb_true_iff in EC; destruct EC as [EC ?]).
  rename EC into Wns.
  match goal with X : wf_sharing_b (sa_zs a) = true |- _ => rename X into Wzs end.
  match goal with X : nodup_b (sa_Q a) = true |- _ => apply nodup_b_NoDup in X; rename X into NDQ end.
  match goal with X : Nat.leb 2 (length (sa_Q a)) = true |- _ => apply Nat.leb_le in X; rename X into LQ end.
  match goal with X : forallb _ (sa_Q a) = true |- _ => rename X into QH end.
  match goal with X : list_N_eqb (map fst (sa_rnd1 a)) (sa_Q a) = true |- _ => apply list_N_eqb_eq in X; rename X into R1 end.
  match goal with X : list_N_eqb (map fst (sa_rnd2 a)) (sa_Q a) = true |- _ => apply list_N_eqb_eq in X; rename X into R2 end.
  set (Q := sa_Q a) in *. set (zs := sa_zs a) in *.
  destruct (coefs_checked K solve (w_sh w) Q) as [lam|] eqn:EL; [|discriminate].
  destruct (hjky_cols K zs (sa_rnd1 a)) as [zc|] eqn:EZ; [|discriminate].
  destruct (all_ok (hjky_party K zs zc) Q) as [zres|] eqn:EZR; [|discriminate].
  match type of H with (match all_some ?f ?l with _ => _ end) = _ => destruct (all_some f l) as [cols|] eqn:ECOLS; [|discriminate] end.
  match type of H with (match all_ok ?f ?l with _ => _ end) = _ => destruct (all_ok f l) as [outs|] eqn:EOUT; [|discriminate] end.
  destruct outs as [|[i0 [sh0 vv0]] outs']; [discriminate|]. inversion H; subst w'. clear H.
  (* the zero sharing *)
  destruct (hjky_cols_spec _ _ _ EZ) as [MZ PZ]. rewrite R1 in MZ.
  assert (NDZ : NoDup (map fst zc)) by now rewrite MZ.
  set (Z := vsum K (sh_dim zs) (map snd zc)).
  assert (HZ : forall j, In j Q -> (match lookup j zres with Some z => fst z | None => [] end) = share_of K zs Z j).
  { intros j Hj. destruct (lookup_all_ok _ _ _ _ EZR Hj) as [[zsh zvv] [Lz Pz]]. rewrite Lz. cbn [fst].
    destruct (hjky_party_honest zs zc j zsh zvv NDZ PZ Pz) as [A B]. now rewrite B, A. }
  (* the columns dealt under the next sharing *)
  destruct (all_some_spec _ _ _ ECOLS) as [MC PC].
  assert (Hne : exists j0, In j0 Q).
  { destruct Q as [|j0 ?]; [cbn in LQ; lia|]. exists j0. now left. }
  destruct Hne as [j0 Hj0].
  destruct (coefs_checked K solve zs Q) as [lamz|] eqn:ELZ.
  2:{ destruct (lookup_all_some _ _ _ _ ECOLS Hj0) as [b [_ Pb]]. unfold round2 in Pb. rewrite EL, ELZ in Pb. discriminate. }
  assert (RC : forall e, In e cols -> length (snd (snd e)) = sh_dim ns /\
            hd0 K (snd (snd e)) = additive K lam (fst e) (share_in w (fst e)) +
                                  additive K lamz (fst e) (match lookup (fst e) zres with Some z => fst z | None => [] end)).
  { intros [j [aj cj]] He. specialize (PC _ _ He). cbn [fst snd].
    destruct (round2_spec _ _ _ _ _ _ _ _ _ _ _ _ EL ELZ PC) as [A [B C]]. split; [assumption|]. now rewrite C, A. }
  set (C' := vsum K (sh_dim ns) (map (fun e : N * (F * VEC) => snd (snd e)) cols)).
  (* what every next holder ends with *)
  assert (HO : forall i sh vv, In (i, (sh, vv)) ((i0, (sh0, vv0)) :: outs') -> vv = C' /\ sh = share_of K ns C' i).
  { intros i sh vv Hin. destruct (all_ok_spec _ _ _ EOUT) as [_ PO]. specialize (PO _ _ Hin). cbv zeta in PO.
    apply round3_ok_inv in PO. destruct PO as [PA _].
    destruct (r3_honest_values w ns zres cols Q i _ sh vv MC NDQ LQ (fun e He => proj1 (RC e He)) eq_refl PA) as [A B].
    split; [exact A|]. now rewrite B, A. }
  destruct (HO i0 sh0 vv0 (or_introl eq_refl)) as [EV0 _]. subst vv0.
  destruct G as [GW [GL [G0 [Gpk Gs]]]].
  assert (LC' : length C' = sh_dim ns).
  { apply vsum_length. intros v Hv. apply in_map_iff in Hv. destruct Hv as [e [E He]]. subst. now apply RC. }
  assert (S0 : hd0 K C' = s).
  { unfold C'. rewrite hd0_vsum; [|now apply wf_dim_pos|].
    2:{ intros v Hv. apply in_map_iff in Hv. destruct Hv as [e [E He]]. subst. now apply RC. }
    rewrite map_map.
    rewrite (fsum_map_ext _ (fun e : N * (F * VEC) => additive K lam (fst e) (share_in w (fst e)) +
                additive K lamz (fst e) (match lookup (fst e) zres with Some z => fst z | None => [] end))).
    2:{ intros e He. now apply RC. }
    rewrite fsum_map_add.
    rewrite <- (map_map fst (fun j => additive K lam j (share_in w j))).
    rewrite <- (map_map fst (fun j => additive K lamz j (match lookup j zres with Some z => fst z | None => [] end))).
    rewrite MC.
    change (fsum K (map (fun j => additive K lam j (share_in w j)) Q)) with (recon K Q lam (share_in w)).
    change (fsum K (map (fun j => additive K lamz j (match lookup j zres with Some z => fst z | None => [] end)) Q))
      with (recon K Q lamz (fun j => match lookup j zres with Some z => fst z | None => [] end)).
    rewrite (good_recon w s Q lam); [|unfold good; repeat split; assumption|now apply coefs_checked_ok].
    rewrite (recon_ext Q lamz _ (share_of K zs Z)) by exact HZ.
    rewrite recon_correct; [|assumption|now apply coefs_checked_ok].
    unfold Z. rewrite hd0_zero_sum; [ring|now apply wf_dim_pos|assumption]. }
  unfold good. cbn [w_sh w_vv w_pk]. repeat split; auto.
  intros i Hi. unfold share_in. cbn [w_shares].
  change ((i0, sh0) :: map (fun o : N * (list F * VEC) => (fst o, fst (snd o))) outs')
    with (map (fun o : N * (list F * VEC) => (fst o, fst (snd o))) ((i0, (sh0, C')) :: outs')).
  rewrite (lookup_map_snd (@fst (list F) VEC)).
  destruct (lookup_all_ok _ _ _ _ EOUT Hi) as [[sh vv] [Lo _]]. rewrite Lo. cbn [option_map fst].
  apply lookup_In in Lo. now destruct (HO i sh vv Lo).
Qed.

Theorem epoch_step_good : forall (w : WORLD) o s, good w s -> good (epoch_step K solve w o) s.
Proof.
  intros w o s G. destruct o as [a|i a|ns a|S m]; cbn [epoch_step].
  - destruct (redist_run K solve w (w_sh w) a) eqn:E; [now apply (redist_run_good w (w_sh w) a)|assumption].
  - destruct (negb (mem i (sa_Q a)) && mem i (holders (w_sh w))); [|assumption].
    destruct (redist_run K solve w (w_sh w) a) eqn:E; [now apply (redist_run_good w (w_sh w) a)|assumption].
  - destruct (redist_run K solve w ns a) eqn:E; [now apply (redist_run_good w ns a)|assumption].
  - assumption.
Qed.

Theorem history_good : forall ops (w : WORLD) s, good w s -> good (run_history K solve w ops) s.
Proof.
  induction ops as [|o ops IH]; intros w s G; [assumption|].
  unfold run_history. cbn [fold_left]. apply IH. now apply epoch_step_good.
Qed.

(* after ANY finite history: same public key, every share verifies, every set that
   reconstructs in the current sharing reconstructs the original secret *)
Theorem history_invariant : forall sh secret rnd (w0 : WORLD) ops,
  genesis K sh secret rnd = Some w0 ->
  let w := run_history K solve w0 ops in
  w_pk w = w_pk w0 /\ hd0 K (w_vv w) = secret /\
  (forall i, In i (holders (w_sh w)) -> verify K (w_sh w) i (share_in w i) (w_vv w) = true) /\
  (forall S lam, reconstructs_b K (w_sh w) S lam = true -> recon K S lam (share_in w) = secret) /\
  (forall S v, reconstruct K solve w S = Some v -> v = secret).
Proof.
  intros sh secret rnd w0 ops Hg w.
  pose proof (genesis_good _ _ _ _ Hg) as G0.
  pose proof (history_good ops w0 secret G0) as G. fold w in G.
  split; [|split; [|split; [|split]]].
  - destruct G as [_ [_ [_ [P _]]]]. destruct G0 as [_ [_ [_ [P0 _]]]]. now rewrite P, P0.
  - now destruct G as [_ [_ [P _]]].
  - intros i Hi. now apply (good_verify w secret).
  - intros S lam R. now apply (good_recon w secret).
  - intros S v R. unfold reconstruct in R. destruct (coefs_checked K solve (w_sh w) S) as [lam|] eqn:E; [|discriminate].
    inversion R; subst. apply (good_recon w secret); [assumption|now apply coefs_checked_ok].
Qed.

(* ---- the step theorem in the form asked for --------------------------------------------------- *)

(* new summed column has first entry s; the new vector's first entry (the new public key) is
   the old public key; every new share verifies against the new vector (and is the share of
   the new column under the next sharing); every reconstructing set of the NEXT sharing
   recovers s *)
Theorem redist_step_preserves : forall (w : WORLD) ns a w' s,
  good w s -> redist_run K solve w ns a = Some w' ->
  w_sh w' = ns /\ hd0 K (w_vv w') = s /\ w_pk w' = w_pk w /\
  (forall i, In i (holders ns) -> share_in w' i = share_of K ns (w_vv w') i /\ verify K ns i (share_in w' i) (w_vv w') = true) /\
  (forall S lam, reconstructs_b K ns S lam = true -> recon K S lam (share_in w') = s).
Proof.
  intros w ns a w' s G H. pose proof (redist_run_good w ns a w' s G H) as G'.
  assert (E : w_sh w' = ns).
  { unfold redist_run in H.
    repeat match type of H with
           | (if ?c then _ else _) = _ => destruct c; [discriminate|]
           | (match ?t with _ => _ end) = _ => destruct t; try discriminate
           end.
    inversion H. reflexivity. }
  split; [assumption|]. destruct G' as [W' [L' [H0' [P' S']]]]. destruct G as [_ [_ [_ [P _]]]].
  split; [assumption|]. split; [congruence|]. split.
  - intros i Hi. rewrite <- E in *. split; [now apply S'|]. rewrite S' by assumption. now apply verify_share_of.
  - intros S lam R. rewrite <- E in R. apply (good_recon w' s); [|assumption]. unfold good. repeat split; assumption.
Qed.

(* ---- mixed epochs ------------------------------------------------------------------------------- *)

Lemma vsum_app : forall n (l1 l2 : list VEC), (forall v, In v l1 -> length v = n) -> (forall v, In v l2 -> length v = n) ->
  vsum K n (l1 ++ l2) = vadd K (vsum K n l1) (vsum K n l2).
Proof.
  induction l1 as [|v l1 IH]; intros l2 H1 H2.
  - cbn [app]. change (vsum K n []) with (vzero K n). rewrite vadd_vzero_l; [reflexivity|now apply vsum_length].
  - change ((v :: l1) ++ l2) with (v :: (l1 ++ l2)). rewrite !vsum_cons, IH; [apply vadd_assoc| |assumption].
    intros; apply H1; now right.
Qed.

Lemma comb_app : forall (sh : SH) A B lam, wf_sharing_b sh = true ->
  comb K sh (A ++ B) lam = vadd K (comb K sh A lam) (comb K sh B lam).
Proof.
  intros sh A B lam W. unfold comb. rewrite map_app. apply vsum_app.
  - intros v Hv. apply in_map_iff in Hv. destruct Hv as [i [E _]]. subst. apply lincomb_length. now apply wf_rows.
  - intros v Hv. apply in_map_iff in Hv. destruct Hv as [i [E _]]. subst. apply lincomb_length. now apply wf_rows.
Qed.

Lemma comb_length : forall (sh : SH) S lam, wf_sharing_b sh = true -> length (comb K sh S lam) = sh_dim sh.
Proof.
  intros sh S lam W. unfold comb. apply vsum_length.
  intros v Hv. apply in_map_iff in Hv. destruct Hv as [i [E _]]. subst. apply lincomb_length. now apply wf_rows.
Qed.

(* A set A++B that reconstructs through lam in the common sharing, holding A's shares of epoch
   wa and B's shares of epoch wb, obtains  s + <mu_B, c_b> - <mu_B, c_a>  where
   mu_B = Σ_{i∈B} lam_i·rows_i and c_a, c_b are the two epochs' columns *)
Theorem mixed_epochs_value : forall (wa wb : WORLD) s A B lam,
  good wa s -> good wb s -> w_sh wb = w_sh wa ->
  reconstructs_b K (w_sh wa) (A ++ B) lam = true ->
  mixed_recon K wa wb A B lam =
    s + (dot K (comb K (w_sh wa) B lam) (w_vv wb) - dot K (comb K (w_sh wa) B lam) (w_vv wa)).
Proof.
  intros wa wb s A B lam Ga Gb E R. unfold mixed_recon.
  destruct Ga as [Wa [La [Ha [_ Sa]]]]. destruct Gb as [Wb [Lb [Hb [_ Sb]]]]. rewrite E in *.
  assert (HA : forall i, In i A -> In i (holders (w_sh wa))).
  { intros i Hi. apply (reconstructs_holders _ _ _ i R). apply in_or_app. now left. }
  assert (HB : forall i, In i B -> In i (holders (w_sh wa))).
  { intros i Hi. apply (reconstructs_holders _ _ _ i R). apply in_or_app. now right. }
  rewrite (recon_ext A lam (share_in wa) (share_of K (w_sh wa) (w_vv wa))) by (intros; apply Sa; auto).
  rewrite (recon_ext B lam (share_in wb) (share_of K (w_sh wa) (w_vv wb))) by (intros; apply Sb; auto).
  rewrite !recon_share_of by assumption.
  pose proof (reconstructs_comb _ _ _ R) as C. rewrite comb_app in C by assumption.
  assert (D : dot K (comb K (w_sh wa) A lam) (w_vv wa) + dot K (comb K (w_sh wa) B lam) (w_vv wa) = s).
  { rewrite <- dot_vadd_l by (rewrite !comb_length; auto). rewrite C. rewrite dot_e0 by now apply wf_dim_pos. assumption. }
  rewrite <- D. ring.
Qed.

Lemma dot_hd_tl : forall a c : VEC, (0 < length a)%nat -> (0 < length c)%nat ->
  dot K a c = hd0 K a * hd0 K c + dot K (tl a) (tl c).
Proof. intros a c Ha Hc. destruct a; destruct c; cbn in *; try lia. reflexivity. Qed.

(* ... so it obtains s exactly on the linear coincidence  <tl mu_B, tl c_b> = <tl mu_B, tl c_a>
   between the two epochs' FRESH coefficients (the entries after the secret) *)
Theorem mixed_epochs : forall (wa wb : WORLD) s A B lam,
  good wa s -> good wb s -> w_sh wb = w_sh wa ->
  reconstructs_b K (w_sh wa) (A ++ B) lam = true ->
  (mixed_recon K wa wb A B lam = s <->
   dot K (tl (comb K (w_sh wa) B lam)) (tl (w_vv wb)) = dot K (tl (comb K (w_sh wa) B lam)) (tl (w_vv wa))).
Proof.
  intros wa wb s A B lam Ga Gb E R. rewrite (mixed_epochs_value wa wb s A B lam Ga Gb E R).
  destruct Ga as [Wa [La [Ha _]]]. destruct Gb as [Wb [Lb [Hb _]]]. rewrite E in *.
  pose proof (wf_dim_pos _ Wa) as Hd.
  set (mu := comb K (w_sh wa) B lam).
  assert (Lm : length mu = sh_dim (w_sh wa)) by now apply comb_length.
  rewrite (dot_hd_tl mu (w_vv wb)) by lia. rewrite (dot_hd_tl mu (w_vv wa)) by lia. rewrite Ha, Hb.
  split; intro H.
  - assert (X : forall x y h : F, s + (h * s + x - (h * s + y)) = s -> x = y).
    { intros x y h Hx. transitivity ((s + (h * s + x - (h * s + y))) - s + y); [ring|]. rewrite Hx. ring. }
    exact (X _ _ _ H).
  - rewrite H. ring.
Qed.

(* the coincidence is a genuine condition unless nothing is combined: if the coefficient
   vector tl mu_B vanishes, both parts of the set are multiples of the target vector *)
Lemma vzero_S : forall n, vzero K (S n) = 0 :: vzero K n.
Proof. reflexivity. Qed.

Lemma vadd_zero_inv : forall (a : VEC) n t, length a = n -> vadd K a (vscale K t (vzero K n)) = vzero K n -> a = vzero K n.
Proof.
  induction a as [|x a IH]; intros n t L H; destruct n; cbn in L; try discriminate; [reflexivity|].
  rewrite vzero_S in *. cbn [vscale map vadd] in H. injection H as H1 H2.
  f_equal.
  - transitivity (x + t * 0 - t * 0); [ring|]. rewrite H1. ring.
  - apply (IH n t); [lia|]. exact H2.
Qed.

Theorem mixed_degenerate : forall (sh : SH) A B lam,
  wf_sharing_b sh = true -> reconstructs_b K sh (A ++ B) lam = true ->
  tl (comb K sh B lam) = vzero K (sh_dim sh - 1) ->
  exists t, comb K sh B lam = vscale K t (e0 K (sh_dim sh)) /\ comb K sh A lam = vscale K (1 - t) (e0 K (sh_dim sh)).
Proof.
  intros sh A B lam W R T. pose proof (wf_dim_pos _ W) as Hd.
  pose proof (reconstructs_comb _ _ _ R) as C. rewrite comb_app in C by assumption.
  pose proof (comb_length sh B lam W) as LB. pose proof (comb_length sh A lam W) as LA.
  destruct (sh_dim sh) as [|n] eqn:ED; [lia|]. replace (S n - 1)%nat with n in T by lia.
  destruct (comb K sh B lam) as [|t mb] eqn:EB; [cbn in LB; lia|]. cbn [tl] in T. subst mb.
  exists t. assert (ZZ : forall u, vscale K u (vzero K n) = vzero K n).
  { intro u. unfold vscale, vzero. induction n as [|k IHk] in |- *; cbn; [reflexivity|]. f_equal; [ring|]. apply IHk. }
  split.
  - cbn [e0 vscale map]. fold (vscale K t (vzero K n)). rewrite ZZ. f_equal. ring.
  - destruct (comb K sh A lam) as [|x ma] eqn:EA; [cbn in LA; lia|]. cbn [e0 vadd] in C. injection C as C1 C2.
    cbn [e0 vscale map]. fold (vscale K (1 - t) (vzero K n)). rewrite ZZ. f_equal.
    + transitivity (x + t - t); [ring|]. rewrite C1. ring.
    + apply (vadd_zero_inv ma n 1); [cbn in LA; lia|]. rewrite ZZ. exact C2.
Qed.

(* a non-zero coefficient pins the corresponding fresh entry to exactly one value *)
Theorem coincidence_unique : forall m r t : F, m <> 0 -> forall x, m * x + r = t <-> x = (t - r) * finv K m.
Proof.
  intros m r t Hm x. split; intro H.
  - rewrite <- H. field. assumption.
  - rewrite H. field. assumption.
Qed.

Lemma veqb_refl : forall a : VEC, veqb K a a = true.
Proof. intro a. now apply veqb_eq. Qed.

Lemma rows_eqb_refl : forall a : list VEC, rows_eqb K a a = true.
Proof. induction a as [|x a IH]; cbn; [reflexivity|]. now rewrite veqb_refl, IH. Qed.

Lemma tab_eqb_refl : forall a : list (N * list VEC), tab_eqb K a a = true.
Proof. induction a as [|[i x] a IH]; cbn; [reflexivity|]. now rewrite N.eqb_refl, rows_eqb_refl, IH. Qed.

Lemma sharing_eqb_refl : forall sh : SH, sharing_eqb K sh sh = true.
Proof. intro sh. unfold sharing_eqb. now rewrite Nat.eqb_refl, tab_eqb_refl. Qed.

Lemma hjky_cols_complete : forall (zs : SH) rnds, (2 <= sh_dim zs)%nat ->
  (forall e, In e rnds -> length (snd e) = sh_dim zs) -> exists zc, hjky_cols K zs rnds = Some zc.
Proof.
  induction rnds as [|[j rnd] t IH]; intros Hd H; cbn; [eauto|].
  unfold hjky_round1, deal_col. pose proof (H (j, rnd) (or_introl eq_refl)) as Hl. simpl in Hl.
  rewrite Hl, Nat.eqb_refl. apply Nat.leb_le in Hd as Hd'. rewrite Hd'. cbn [andb].
  destruct IH as [zc Hz]; [assumption|intros; apply H; now right|]. rewrite Hz. eauto.
Qed.

Lemma hjky_accumulate_complete : forall (zs : SH) i inbox s v,
  length v = sh_dim zs ->
  (forall m : zmsg, In m inbox -> verify K zs i (snd (snd m)) (fst (snd m)) = true /\ hd0 K (fst (snd m)) = 0) ->
  exists r, hjky_accumulate K zs i s v inbox = Ok r.
Proof.
  induction inbox as [|[j [vv sh]] rest IH]; intros s v Lv H; cbn; [eauto|].
  destruct (H (j, (vv, sh)) (or_introl eq_refl)) as [V Z]. cbn [fst snd] in V, Z.
  rewrite V. cbn [negb]. rewrite Z. rewrite (proj2 (feqb_eq 0 0) eq_refl). cbn [negb].
  destruct (verify_inv _ _ _ _ V) as [_ [Lvv _]]. rewrite Lv, Lvv, Nat.eqb_refl. cbn [negb].
  apply IH; [apply vadd_length_eq; assumption|intros; apply H; now right].
Qed.

Lemma hjky_party_complete : forall (zs : SH) (zc : zcols) i,
  In i (holders zs) -> In i (map fst zc) ->
  (forall e, In e zc -> length (snd e) = sh_dim zs /\ hd0 K (snd e) = 0) ->
  exists r, hjky_party K zs zc i = Ok r.
Proof.
  intros zs zc i Hi Hin P. unfold hjky_party. destruct (lookup_map_fst zc i Hin) as [c L]. rewrite L.
  unfold hjky_round2. apply hjky_accumulate_complete.
  - apply (P (i, c)). now apply lookup_In.
  - intros m Hm. unfold hjky_inbox in Hm. apply in_map_iff in Hm. destruct Hm as [jc [E Hjc]]. subst m. cbn [fst snd].
    apply filter_In in Hjc. destruct Hjc as [Hjc _]. destruct (P jc Hjc) as [L1 L2]. split; [|assumption].
    now apply verify_share_of.
Qed.


Lemma r3_accumulate_complete : forall n (inbox : list (@r2msg F)) s v,
  length v = n -> (forall m, In m inbox -> length (b_nextvv (m_b m)) = n) ->
  exists s' v', r3_accumulate K (Some (s, v)) inbox = Ok (Some (s', v')).
Proof.
  induction inbox as [|m rest IH]; intros s v Lv H; cbn; [eauto|].
  rewrite Lv, (H m (or_introl eq_refl)), Nat.eqb_refl.
  apply IH; [apply vadd_length_eq; [assumption|apply H; now left]|intros; apply H; now right].
Qed.

Lemma r3_pieces_complete : forall (ns : SH) i inbox,
  (forall m, In m inbox -> verify K ns i (m_piece m) (b_nextvv (m_b m)) = true) -> r3_pieces K ns i inbox = Ok tt.
Proof.
  induction inbox as [|m rest IH]; intro H; cbn; [reflexivity|].
  rewrite (H m (or_introl eq_refl)). apply IH. intros; apply H; now right.
Qed.

Lemma r3_oldpk_complete : forall pk (inbox : list (@r2msg F)), (forall m, In m inbox -> hd0 K (b_prevvv (m_b m)) = pk) -> r3_oldpk K pk inbox = true.
Proof.
  induction inbox as [|m rest IH]; intro H; cbn; [reflexivity|].
  rewrite (proj2 (feqb_eq _ _) (H m (or_introl eq_refl))). apply IH. intros; apply H; now right.
Qed.

Lemma r3_consistency_complete : forall (tps : SH) tvv tzvv (zs : SH) lam lamz inbox,
  (forall m, In m inbox ->
     b_prev (m_b m) = tps /\ b_prevvv (m_b m) = tvv /\ b_zerovv (m_b m) = tzvv /\
     hd0 K (b_nextvv (m_b m)) = additive K lam (m_from m) (share_of K tps tvv (m_from m)) +
                                additive K lamz (m_from m) (share_of K zs tzvv (m_from m))) ->
  r3_consistency K (tps, tvv, tzvv) zs lam lamz inbox = Ok tt.
Proof.
  induction inbox as [|m rest IH]; intro H; cbn; [reflexivity|].
  destruct (H m (or_introl eq_refl)) as [E1 [E2 [E3 E4]]]. rewrite E1, E2, E3.
  rewrite sharing_eqb_refl, !veqb_refl. cbn [andb negb].
  rewrite (proj2 (feqb_eq _ _) E4). apply IH. intros; apply H; now right.
Qed.

Lemma find_bcast_complete : forall a (inbox : list (@r2msg F)), (exists m, In m inbox /\ m_from m = a) ->
  exists m, In m inbox /\ m_from m = a /\ find_bcast a inbox = Some (m_b m).
Proof.
  induction inbox as [|m rest IH]; intros [x [Hx E]]; [contradiction|]. cbn [find_bcast].
  destruct (N.eqb (m_from m) a) eqn:EQ.
  - exists m. apply N.eqb_eq in EQ. repeat split; auto. now left.
  - destruct Hx as [Hx|Hx]; [subst x; rewrite E, N.eqb_refl in EQ; discriminate|].
    destruct IH as [y [Hy [Ey Fy]]]; [eauto|]. exists y. repeat split; auto. now right.
Qed.

(* the sum of the columns dealt in an honest step has first entry s *)
Lemma sum_cols_secret : forall (w : WORLD) s (zs ns : SH) Q lam lamz (cols : list (N * (F * VEC))) (zsh : N -> list F) Z,
  good w s -> wf_sharing_b zs = true -> wf_sharing_b ns = true ->
  coefs_checked K solve (w_sh w) Q = Some lam -> coefs_checked K solve zs Q = Some lamz ->
  map fst cols = Q ->
  (forall e, In e cols -> length (snd (snd e)) = sh_dim ns /\
      hd0 K (snd (snd e)) = additive K lam (fst e) (share_in w (fst e)) + additive K lamz (fst e) (zsh (fst e))) ->
  (forall j, In j Q -> zsh j = share_of K zs Z j) -> hd0 K Z = 0 ->
  hd0 K (vsum K (sh_dim ns) (map (fun e : N * (F * VEC) => snd (snd e)) cols)) = s.
Proof.
  intros w s zs ns Q lam lamz cols zsh Z G Wzs Wns EL ELZ MC RC HZ Z0.
  rewrite hd0_vsum; [|now apply wf_dim_pos|].
  2:{ intros v Hv. apply in_map_iff in Hv. destruct Hv as [e [E He]]. subst. now apply RC. }
  rewrite map_map.
  rewrite (fsum_map_ext _ (fun e : N * (F * VEC) => additive K lam (fst e) (share_in w (fst e)) + additive K lamz (fst e) (zsh (fst e)))).
  2:{ intros e He. now apply RC. }
  rewrite fsum_map_add.
  rewrite <- (map_map fst (fun j => additive K lam j (share_in w j))).
  rewrite <- (map_map fst (fun j => additive K lamz j (zsh j))).
  rewrite MC.
  change (fsum K (map (fun j => additive K lam j (share_in w j)) Q)) with (recon K Q lam (share_in w)).
  change (fsum K (map (fun j => additive K lamz j (zsh j)) Q)) with (recon K Q lamz zsh).
  rewrite (good_recon w s Q lam G); [|now apply coefs_checked_ok].
  rewrite (recon_ext Q lamz _ (share_of K zs Z)) by exact HZ.
  rewrite recon_correct; [|assumption|now apply coefs_checked_ok].
  rewrite Z0. ring.
Qed.

Theorem redist_run_complete : forall (w : WORLD) (ns : SH) (a : step_args) s lam lamz,
  good w s -> precheck w ns a = true ->
  coefs_checked K solve (w_sh w) (sa_Q a) = Some lam -> coefs_checked K solve (sa_zs a) (sa_Q a) = Some lamz ->
  (forall e, In e (sa_rnd1 a) -> length (snd e) = sh_dim (sa_zs a)) ->
  (forall e, In e (sa_rnd2 a) -> length (snd e) = sh_dim ns) ->
  (2 <= sh_dim (sa_zs a))%nat -> (2 <= sh_dim ns)%nat ->
  exists w', redist_run K solve w ns a = Some w'.
Proof.
  intros w ns a s lam lamz G PC EL ELZ L1 L2 D2z D2n. unfold redist_run. rewrite PC. cbn [negb].
  unfold precheck in PC. do 9 (apply andb_true_iff in PC; destruct PC as [PC ?]).
  rename PC into Wns.
  match goal with X : wf_sharing_b (sa_zs a) = true |- _ => rename X into Wzs end.
  match goal with X : nodup_b (sa_Q a) = true |- _ => apply nodup_b_NoDup in X; rename X into NDQ end.
  match goal with X : Nat.leb 2 (length (sa_Q a)) = true |- _ => apply Nat.leb_le in X; rename X into LQ end.
  match goal with X : forallb _ (sa_Q a) = true |- _ => rename X into QH end.
  match goal with X : list_N_eqb (map fst (sa_rnd1 a)) (sa_Q a) = true |- _ => apply list_N_eqb_eq in X; rename X into R1 end.
  match goal with X : list_N_eqb (map fst (sa_rnd2 a)) (sa_Q a) = true |- _ => apply list_N_eqb_eq in X; rename X into R2 end.
  match goal with X : Nat.leb 1 (length (holders ns)) = true |- _ => apply Nat.leb_le in X; rename X into LH end.
  match goal with X : (N.eqb (sa_anchor a) 0 || mem (sa_anchor a) (sa_Q a)) = true |- _ => rename X into AN end.
  set (Q := sa_Q a) in *. set (zs := sa_zs a) in *.
  rewrite EL.
  pose proof (coefs_checked_ok _ _ _ EL) as RL. pose proof (coefs_checked_ok _ _ _ ELZ) as RLZ.
  destruct G as [GW [GL [G0 [Gpk Gs]]]].
  assert (G : good w s) by (unfold good; repeat split; assumption).
  (* the zero sharing *)
  destruct (hjky_cols_complete zs (sa_rnd1 a) D2z L1) as [zc EZ]. rewrite EZ.
  destruct (hjky_cols_spec _ _ _ EZ) as [MZ PZ]. rewrite R1 in MZ.
  assert (NDZ : NoDup (map fst zc)) by now rewrite MZ.
  set (Z := vsum K (sh_dim zs) (map snd zc)).
  assert (QZ : forall j, In j Q -> In j (holders zs)).
  { intros j Hj. now apply (reconstructs_holders _ _ _ j RLZ Hj). }
  destruct (all_ok_complete (hjky_party K zs zc) Q) as [zres EZR].
  { intros j Hj. apply hjky_party_complete; [now apply QZ|now rewrite MZ|assumption]. }
  rewrite EZR.
  assert (HZ : forall j, In j Q -> lookup j zres = Some (share_of K zs Z j, Z)).
  { intros j Hj. destruct (lookup_all_ok _ _ _ _ EZR Hj) as [[zsh zvv] [Lz Pz]]. rewrite Lz.
    destruct (hjky_party_honest zs zc j zsh zvv NDZ PZ Pz) as [A B]. now rewrite B, A. }
  assert (Z0 : hd0 K Z = 0) by (apply hd0_zero_sum; [now apply wf_dim_pos|assumption]).
  assert (LZ : length Z = sh_dim zs).
  { apply vsum_length. intros v Hv. apply in_map_iff in Hv. destruct Hv as [e [E He]]. subst. now apply PZ. }
  (* Round2 of every member of the quorum *)
  match goal with |- exists w', match all_some ?f ?l with _ => _ end = _ => destruct (all_some_complete f l) as [cols ECOLS] end.
  { intros j Hj. unfold round2. rewrite EL, ELZ. rewrite (HZ j Hj). cbn [fst].
    assert (Hjh : In j (holders (w_sh w))).
    { rewrite forallb_forall in QH. apply mem_In. now apply QH. }
    rewrite (Gs j Hjh). rewrite !share_of_length.
    destruct (reconstructs_holders _ _ _ j RL Hj) as [_ E1]. destruct (reconstructs_holders _ _ _ j RLZ Hj) as [_ E2].
    rewrite <- E1, <- E2, !Nat.eqb_refl. cbn [andb].
    unfold deal_col. unfold rnd_of.
    destruct (lookup_map_fst (sa_rnd2 a) j) as [rnd Lr]; [now rewrite R2|]. rewrite Lr.
    pose proof (L2 (j, rnd) (lookup_In _ _ _ Lr)) as Hl2. simpl in Hl2. rewrite Hl2, Nat.eqb_refl.
    apply Nat.leb_le in D2n as Hd. rewrite Hd. cbn [andb]. eauto. }
  rewrite ECOLS.
  destruct (all_some_spec _ _ _ ECOLS) as [MC PC].
  set (zshf := fun j : N => match lookup j zres with Some z => fst z | None => [] end).
  assert (RC : forall e, In e cols -> length (snd (snd e)) = sh_dim ns /\
            hd0 K (snd (snd e)) = additive K lam (fst e) (share_in w (fst e)) + additive K lamz (fst e) (zshf (fst e))).
  { intros [j [aj cj]] He. specialize (PC _ _ He). cbn [fst snd].
    destruct (round2_spec _ _ _ _ _ _ _ _ _ _ _ _ EL ELZ PC) as [A [B C]]. split; [assumption|]. now rewrite C, A. }
  set (C' := vsum K (sh_dim ns) (map (fun e : N * (F * VEC) => snd (snd e)) cols)).
  assert (LC' : length C' = sh_dim ns).
  { apply vsum_length. intros v Hv. apply in_map_iff in Hv. destruct Hv as [e [E He]]. subst. now apply RC. }
  assert (S0 : hd0 K C' = s).
  { apply (sum_cols_secret w s zs ns Q lam lamz cols zshf Z); auto.
    intros j Hj. unfold zshf. now rewrite (HZ j Hj). }
  (* Round3 of every next holder *)
  match goal with |- exists w', match all_ok ?f ?l with _ => _ end = _ => destruct (all_ok_complete f l) as [outs EOUT] end.
  2:{ rewrite EOUT. destruct outs as [|[i0 [sh0 vv0]] outs'].
      - destruct (all_ok_spec _ _ _ EOUT) as [M _]. cbn in M. rewrite <- M in LH. cbn in LH. lia.
      - eauto. }
  intros i Hi. cbv zeta.
  set (inbox := r3_inbox K w ns zres cols i).
  assert (IB : forall m, In m inbox -> exists jc, In jc cols /\ fst jc <> i /\ In (fst jc) Q /\
             m_from m = fst jc /\ b_prev (m_b m) = w_sh w /\ b_prevvv (m_b m) = w_vv w /\ b_zerovv (m_b m) = Z /\
             b_nextvv (m_b m) = snd (snd jc) /\ m_piece m = share_of K ns (snd (snd jc)) i).
  { intros m Hm. unfold inbox, r3_inbox in Hm. apply in_map_iff in Hm. destruct Hm as [jc [E Hjc]]. subst m.
    apply filter_In in Hjc. destruct Hjc as [Hjc Hne]. exists jc. cbn [m_from m_b b_prev b_prevvv b_zerovv b_nextvv m_piece].
    assert (HQ : In (fst jc) Q) by (rewrite <- MC; now apply in_map).
    repeat split; auto.
    - intro E. rewrite E, N.eqb_refl in Hne. discriminate.
    - now rewrite (HZ _ HQ). }
  set (own := match lookup i cols with
              | Some ac => if mem i Q then Some (share_of K ns (snd ac) i, snd ac) else None
              | None => None end).
  assert (EA : exists sh vv, r3_accumulate K own inbox = Ok (Some (sh, vv))).
  { unfold own. destruct (lookup i cols) as [ac|] eqn:Lc.
    - assert (Hq : mem i Q = true).
      { apply mem_In. rewrite <- MC. apply in_map_iff. exists (i, ac). split; [reflexivity|now apply lookup_In]. }
      rewrite Hq. apply (r3_accumulate_complete (sh_dim ns)).
      + apply (RC (i, ac)). now apply lookup_In.
      + intros m Hm. destruct (IB m Hm) as [jc [Hjc [_ [_ [_ [_ [_ [_ [E _]]]]]]]]]. rewrite E. now apply RC.
    - assert (Hn : ~ In i (map fst cols)).
      { intro Hin. apply lookup_map_fst in Hin. destruct Hin as [x Hx]. congruence. }
      assert (Hq : mem i Q = false) by (apply mem_false; now rewrite <- MC).
      unfold inbox, r3_inbox. rewrite (filter_notin cols i Hn).
      destruct cols as [|e0 rest]; [cbn in MC; rewrite <- MC in LQ; cbn in LQ; lia|].
      cbn [map r3_accumulate]. apply (r3_accumulate_complete (sh_dim ns)).
      + cbn [m_b b_nextvv]. apply RC. now left.
      + intros m Hm. apply in_map_iff in Hm. destruct Hm as [jc [E Hjc]]. subst m. cbn [m_b b_nextvv]. apply RC. now right. }
  destruct EA as [sh [vv EA]].
  destruct (r3_honest_values w ns zres cols Q i own sh vv MC NDQ LQ (fun e He => proj1 (RC e He)) eq_refl EA) as [EV ES].
  fold C' in EV. subst vv. subst sh.
  unfold round3. fold own. fold inbox. rewrite EA.
  rewrite r3_pieces_complete.
  2:{ intros m Hm. destruct (IB m Hm) as [jc [Hjc [_ [_ [_ [_ [_ [_ [E1 E2]]]]]]]]]. rewrite E1, E2.
      apply verify_share_of; [assumption|now apply RC]. }
  assert (CONS : r3_consistency K (w_sh w, w_vv w, Z) zs lam lamz inbox = Ok tt).
  { apply r3_consistency_complete. intros m Hm.
    destruct (IB m Hm) as [jc [Hjc [_ [HQ [E0 [E1 [E2 [E3 [E4 _]]]]]]]]]. repeat split; auto.
    rewrite E4, E0. destruct (RC jc Hjc) as [_ R]. rewrite R.
    assert (Hjh : In (fst jc) (holders (w_sh w))).
    { rewrite forallb_forall in QH. apply mem_In. now apply QH. }
    rewrite (Gs _ Hjh). unfold zshf. now rewrite (HZ _ HQ). }
  assert (OLD : r3_oldpk K (hd0 K C') inbox = true).
  { apply r3_oldpk_complete. intros m Hm. destruct (IB m Hm) as [jc [_ [_ [_ [_ [_ [E _]]]]]]]. rewrite E, S0. assumption. }
  assert (VER : verify K ns i (share_of K ns C' i) C' = true) by (apply verify_share_of; assumption).
  assert (LEN : (Nat.eqb (length (w_vv w)) (sh_dim (w_sh w)) && Nat.eqb (length Z) (sh_dim zs)) = true).
  { now rewrite GL, LZ, !Nat.eqb_refl. }
  destruct (mem i Q) eqn:Hq.
  - (* previous holder: own trusted data *)
    apply mem_In in Hq. rewrite (HZ i Hq). cbn [snd].
    rewrite LEN. cbn [negb]. rewrite EL, ELZ, CONS, OLD, VER. cbn [negb]. eauto.
  - assert (OT : match lookup i zres with Some z => if false then Some (w_sh w, w_vv w, snd z) else None | None => None end = @None (@trusted F)).
    { destruct (lookup i zres); reflexivity. }
    rewrite OT.
    destruct (N.eqb (sa_anchor a) 0) eqn:EA0.
    + rewrite OLD, VER. cbn [negb]. eauto.
    + cbn [orb] in AN. apply mem_In in AN.
      destruct (find_bcast_complete (sa_anchor a) inbox) as [m [Hm [Em Fm]]].
      { destruct (lookup_map_fst cols (sa_anchor a)) as [ac Lac]; [now rewrite MC|].
        exists (mk_r2msg (sa_anchor a) (mk_r2bcast (w_sh w) (w_vv w)
                  (match lookup (sa_anchor a) zres with Some z => snd z | None => [] end) (snd ac)) (share_of K ns (snd ac) i)).
        split; [|reflexivity]. unfold inbox, r3_inbox.
        apply in_map_iff. exists (sa_anchor a, ac). split; [reflexivity|]. apply filter_In. split; [now apply lookup_In|].
        cbn [fst]. apply negb_true_iff. apply N.eqb_neq. intro E. apply mem_false in Hq. apply Hq. now rewrite <- E. }
      rewrite Fm. destruct (IB m Hm) as [jc [_ [_ [_ [_ [E1 [E2 [E3 _]]]]]]]]. rewrite E1, E2, E3.
      rewrite LEN. cbn [negb]. rewrite EL, ELZ, CONS, OLD, VER. cbn [negb]. eauto.
Qed.

End Step.

(* ---- zero sharings contribute nothing to the secret ------------------------------------------- *)

Theorem zero_sum : forall (zs : SH) rnds (zc : zcols),
  wf_sharing_b zs = true -> NoDup (map fst rnds) -> hjky_cols K zs rnds = Some zc ->
  let Z := vsum K (sh_dim zs) (map snd zc) in
  hd0 K Z = 0 /\ length Z = sh_dim zs /\
  (forall i sh vv, hjky_party K zs zc i = Ok (sh, vv) -> vv = Z /\ sh = share_of K zs Z i) /\
  (forall S lam, reconstructs_b K zs S lam = true -> recon K S lam (share_of K zs Z) = 0) /\
  (forall c i, length c = sh_dim zs -> share_of K zs (vadd K c Z) i = vadd K (share_of K zs c i) (share_of K zs Z i)) /\
  (forall c S lam, length c = sh_dim zs -> reconstructs_b K zs S lam = true -> recon K S lam (share_of K zs (vadd K c Z)) = hd0 K c).
Proof.
  intros zs rnds zc W ND H Z. destruct (hjky_cols_spec _ _ _ H) as [M P].
  assert (NDZ : NoDup (map fst zc)) by now rewrite M.
  pose proof (wf_dim_pos _ W) as Hd.
  assert (H0 : hd0 K Z = 0) by (apply hd0_zero_sum; assumption).
  assert (LZ : length Z = sh_dim zs).
  { apply vsum_length. intros v Hv. apply in_map_iff in Hv. destruct Hv as [e [E He]]. subst. now apply P. }
  split; [assumption|]. split; [assumption|]. split; [|split; [|split]].
  - intros i sh vv Hp. destruct (hjky_party_honest zs zc i sh vv NDZ P Hp) as [A B]. split; [exact A|]. rewrite B. now rewrite A.
  - intros S lam R. rewrite recon_correct by assumption. assumption.
  - intros c i Lc. apply share_of_vadd. lia.
  - intros c S lam Lc R. rewrite recon_correct by assumption. rewrite hd0_vadd by lia. rewrite H0. ring.
Qed.


End RedistProofs.

(* ---- a concrete instance over Z_7 (for the non-vacuity Examples of props/C06.v) -------------- *)

Require Import V.base.ZpField.

Module Ex7.
  Definition H7 : (0 < 7)%Z := prime_gt0 7 prime_7.
  Definition K7 := ZpS 7 H7.
  Definition z (x : Z) : ZpT 7 := zp_of 7 H7 x.
  (* 2-of-3 Shamir on holders 1,2,3 and on holders 2,3,4; unanimity of {1,2} and of {2,3} as the
     library builds it (shifted identity, last row (1,-1)) *)
  Definition sh123 : sharing := mk_sharing 2 [(1%N, [[z 1; z 1]]); (2%N, [[z 1; z 2]]); (3%N, [[z 1; z 3]])].
  Definition sh234 : sharing := mk_sharing 2 [(2%N, [[z 1; z 2]]); (3%N, [[z 1; z 3]]); (4%N, [[z 1; z 4]])].
  Definition zs12 : sharing := mk_sharing 2 [(1%N, [[z 0; z 1]]); (2%N, [[z 1; z 6]])].
  Definition zs23 : sharing := mk_sharing 2 [(2%N, [[z 0; z 1]]); (3%N, [[z 1; z 6]])].
  Definition lam12 : coefs := [(1%N, [z 2]); (2%N, [z 6])].
  Definition lam23 : coefs := [(2%N, [z 3]); (3%N, [z 5])].
  Definition solve7 (sh : sharing) (S : list N) : option coefs :=
    if sharing_eqb K7 sh zs12 then Some [(1%N, [z 1]); (2%N, [z 1])]
    else if sharing_eqb K7 sh zs23 then Some [(2%N, [z 1]); (3%N, [z 1])]
    else if list_N_eqb S [1%N; 2%N] then Some lam12
    else if list_N_eqb S [2%N; 3%N] then Some lam23
    else None.
  Definition a1 := mk_step_args [1%N; 2%N] 1%N zs12 [(1%N, [z 0; z 3]); (2%N, [z 0; z 5])] [(1%N, [z 0; z 2]); (2%N, [z 0; z 6])].
  Definition a2 := mk_step_args [2%N; 3%N] 0%N zs23 [(2%N, [z 4; z 1]); (3%N, [z 2; z 2])] [(2%N, [z 1; z 3]); (3%N, [z 0; z 1])].
  Definition a3 := mk_step_args [2%N; 3%N] 2%N zs23 [(2%N, [z 6; z 5]); (3%N, [z 1; z 4])] [(2%N, [z 3; z 3]); (3%N, [z 5; z 0])].
  (* refresh by {1,2} with anchor; redistribute to holders 2,3,4 (1 leaves, 4 joins) without anchor;
     recover holder 4's share through {2,3} with anchor; an observation *)
  Definition ops : list op := [Refresh a1; Redistribute sh234 a2; Recover 4%N a3; Sign [3%N; 4%N] 0%N].
  Definition w0 := genesis K7 sh123 (z 3) [z 5; z 4].

  (* every step of the history is actually performed by the model (nothing is refused) *)
  Lemma ex_history_performed :
    match w0 with
    | Some w => forallb fst (trace_history K7 solve7 w ops) = true /\ length (trace_history K7 solve7 w ops) = 4%nat
    | None => False
    end.
  Proof. vm_compute. split; reflexivity. Qed.

  (* shares of {1} from the first epoch with shares of {2} from the refreshed epoch: the set
     reconstructs through lam12, and does NOT obtain the secret *)
  Lemma ex_mixed :
    match w0 with
    | Some w =>
        let w1 := epoch_step K7 solve7 w (Refresh a1) in
        w_sh w1 = w_sh w /\ reconstructs_b K7 (w_sh w) ([1%N] ++ [2%N]) lam12 = true /\
        feqb K7 (mixed_recon K7 w w1 [1%N] [2%N] lam12) (z 3) = false /\
        feqb K7 (recon K7 [1%N; 2%N] lam12 (share_in w1)) (z 3) = true
    | None => False
    end.
  Proof. vm_compute. repeat split; reflexivity. Qed.

  Lemma ex_zero :
    match hjky_cols K7 zs12 (sa_rnd1 a1) with
    | Some zc => (match hjky_party K7 zs12 zc 1%N with Ok _ => true | _ => false end) = true /\
                 wf_sharing_b zs12 = true
    | None => False
    end.
  Proof. vm_compute. split; reflexivity. Qed.
End Ex7.
