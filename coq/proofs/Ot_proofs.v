(* Ot_proofs.v — lemmas about model/Ot.v (C09): the correlated-OT relation of the
   SoftSpoken extension for all sizes, the consistency check over any commutative ring
   of characteristic 2, and the key derivations of the two base OTs in the exponent. *)
From Coq Require Import List Bool Arith Lia Field Ring.
Import ListNotations.
Require Import V.base.Bytes V.base.Fld V.model.Ot.

(* ---------------------------------------------------------------- bit vectors *)

Lemma xorv_length a b : length (xorv a b) = Nat.min (length a) (length b).
Proof. revert b; induction a as [|x a IH]; intros [|y b]; cbn; try reflexivity. rewrite IH; reflexivity. Qed.

Lemma bit_xorv a b j : j < length a -> j < length b ->
  bit (xorv a b) j = xorb (bit a j) (bit b j).
Proof.
  unfold bit. revert b j; induction a as [|x a IH]; intros [|y b] j Ha Hb; cbn in *; try lia.
  destruct j; [reflexivity|]. apply IH; lia.
Qed.

Lemma xorv_cancel_r a b : length a = length b -> xorv (xorv a b) b = a.
Proof.
  revert b; induction a as [|x a IH]; intros [|y b] H; cbn in *; try discriminate; [reflexivity|].
  rewrite IH by lia. destruct x, y; reflexivity.
Qed.

(* a xor b xor x xor b = a xor x *)
Lemma xorv_mask a b x : length a = length b -> length a = length x ->
  xorv (xorv (xorv a b) x) b = xorv a x.
Proof.
  revert b x; induction a as [|p a IH]; intros [|q b] [|r x] H1 H2; cbn in *; try discriminate; [reflexivity|].
  rewrite IH by lia. destruct p, q, r; reflexivity.
Qed.

Lemma xorv_self_id c d : length c = length d -> xorv c d = c -> forallb negb d = true.
Proof.
  revert d; induction c as [|x c IH]; intros [|y d] H E; cbn in *; try discriminate; [reflexivity|].
  injection E as E1 E2. rewrite (IH d) by (lia || assumption).
  destruct x, y; cbn in *; try discriminate; reflexivity.
Qed.

Lemma firstn_xorv n a b : firstn n (xorv a b) = xorv (firstn n a) (firstn n b).
Proof.
  revert a b; induction n as [|n IH]; intros [|x a] [|y b]; cbn; try reflexivity.
  all: try (rewrite IH; reflexivity).
  all: try (destruct (firstn n a); reflexivity).
Qed.

Lemma skipn_xorv n a b : length a = length b -> skipn n (xorv a b) = xorv (skipn n a) (skipn n b).
Proof.
  revert a b; induction n as [|n IH]; intros [|x a] [|y b] H; cbn in *; try discriminate; try reflexivity.
  apply IH; lia.
Qed.

Lemma nth_map_seq {A} (f : nat -> A) n i d : i < n -> nth i (map f (seq 0 n)) d = f i.
Proof.
  intros Hi. rewrite (nth_indep _ d (f 0)) by (rewrite map_length, seq_length; exact Hi).
  rewrite (map_nth f (seq 0 n) 0 i). rewrite seq_nth by exact Hi. reflexivity.
Qed.

(* ---------------------------------------------------------------- Repeat *)

Lemma nth_repeat_lt {A} (b d : A) L l : l < L -> nth l (repeat b L) d = b.
Proof.
  intros Hl. rewrite (nth_indep _ d b) by (rewrite repeat_length; exact Hl). apply nth_repeat.
Qed.

Lemma repeat_bits_nth L x j l : j < length x -> l < L ->
  nth (j * L + l) (repeat_bits L x) false = nth j x false.
Proof.
  revert j; induction x as [|b x IH]; intros j Hj Hl; cbn in *; [lia|].
  destruct j as [|j].
  - cbn. rewrite app_nth1 by (rewrite repeat_length; exact Hl).
    apply nth_repeat_lt; exact Hl.
  - rewrite app_nth2 by (rewrite repeat_length; nia).
    rewrite repeat_length. replace (S j * L + l - L) with (j * L + l) by nia.
    apply IH; lia.
Qed.

Lemma repeat_bits_length L x : length (repeat_bits L x) = length x * L.
Proof. induction x as [|b x IH]; cbn; [reflexivity|]. rewrite app_length, repeat_length, IH. lia. Qed.

Lemma x_prime_bit L x sg j l : j < length x -> l < L ->
  bit (x_prime L x sg) (j * L + l) = bit x j.
Proof.
  intros Hj Hl. unfold bit, x_prime.
  rewrite app_nth1 by (rewrite repeat_bits_length; nia).
  apply repeat_bits_nth; assumption.
Qed.

(* ---------------------------------------------------------------- the rows of q *)

Definition qrow (d : bool) (a x' : bits) : bits := if d then xorv a x' else a.

Fixpoint qspec (Delta : bits) (t0 : list bits) (x' : bits) : list bits :=
  match Delta, t0 with
  | d :: D', a :: t0' => qrow d a x' :: qspec D' t0' x'
  | _, _ => []
  end.

(* well-formed PRG matrices: kappa rows each, every row as long as x' *)
Definition wf_rows (n : nat) (Delta : bits) (t0 t1 : list bits) : Prop :=
  length t0 = length Delta /\ length t1 = length Delta /\
  Forall (fun r => length r = n) t0 /\ Forall (fun r => length r = n) t1.

Lemma send_q_rows Delta t0 t1 x' :
  wf_rows (length x') Delta t0 t1 ->
  send_q Delta (t_delta Delta t0 t1) (recv_u t0 t1 x') = qspec Delta t0 x'.
Proof.
  unfold wf_rows. revert t0 t1; induction Delta as [|d D IH]; intros [|a t0] [|b t1] (H0 & H1 & F0 & F1);
    cbn in *; try discriminate; try reflexivity.
  inversion F0 as [|? ? La F0']; inversion F1 as [|? ? Lb F1']; subst.
  rewrite IH by (repeat split; (lia || assumption)).
  f_equal. destruct d; cbn [qrow]; [|reflexivity].
  apply xorv_mask; lia.
Qed.

Lemma column_qspec Delta t0 x' j :
  length t0 = length Delta -> Forall (fun r => length r = length x') t0 -> j < length x' ->
  column (qspec Delta t0 x') j = xorv (column t0 j) (scalev (bit x' j) Delta).
Proof.
  revert t0; induction Delta as [|d D IH]; intros [|a t0] H F Hj; cbn in *; try discriminate; try reflexivity.
  inversion F as [|? ? La F']; subst.
  change (map (fun r : bits => bit r j) (qspec D t0 x')) with (column (qspec D t0 x') j).
  change (map (fun r : bits => bit r j) t0) with (column t0 j).
  change (map (andb (bit x' j)) D) with (scalev (bit x' j) D).
  rewrite IH by (lia || assumption). f_equal.
  destruct d; cbn [qrow].
  - rewrite bit_xorv by lia. rewrite andb_true_r. reflexivity.
  - rewrite andb_false_r. destruct (bit a j); reflexivity.
Qed.

(* cot_correlation, matrix form: column j of the sender's q is t_j xor x'_j . Delta *)
Lemma cot_correlation_l Delta t0 t1 x' j :
  wf_rows (length x') Delta t0 t1 -> j < length x' ->
  column (send_q Delta (t_delta Delta t0 t1) (recv_u t0 t1 x')) j
  = xorv (column t0 j) (scalev (bit x' j) Delta).
Proof.
  intros W Hj. rewrite send_q_rows by exact W. destruct W as (H0 & _ & F0 & _).
  apply column_qspec; assumption.
Qed.

(* ---------------------------------------------------------------- transposition and outputs *)

Lemma column_map_tl m j : column (map (@tl bool) m) j = column m (S j).
Proof.
  unfold column. rewrite map_map. apply map_ext. intros r. unfold bit. destruct r; [destruct j; reflexivity | reflexivity].
Qed.

Lemma nth_transpose n m j : j < n -> nth j (transpose n m) [] = column m j.
Proof.
  revert m j; induction n as [|n IH]; intros m j Hj; [lia|].
  cbn [transpose]. destruct j as [|j]; cbn [nth].
  - unfold column. apply map_ext. intros r. unfold bit. destruct r; reflexivity.
  - rewrite IH by lia. apply column_map_tl.
Qed.

Lemma column_length m j : length (column m j) = length m.
Proof. unfold column. apply map_length. Qed.

Lemma scalev_true v : scalev true v = v.
Proof. unfold scalev. induction v as [|x v IH]; cbn; [reflexivity | rewrite IH; reflexivity]. Qed.

Lemma xorv_scalev_false c D : length c = length D -> xorv c (scalev false D) = c.
Proof.
  revert D; induction c as [|x c IH]; intros [|y D] H; cbn in *; try discriminate; [reflexivity|].
  change (map (andb false) D) with (scalev false D).
  rewrite IH by lia. destruct x; reflexivity.
Qed.

Definition dflt_digest := Hash 0 0 [].

(* the receiver's output message (j, l) and the sender's pair *)
Definition recv_msg L xi ncols t0 j l : digest :=
  nth l (nth j (recv_out L xi ncols t0) []) dflt_digest.
Definition send_msgs L xi ncols Delta q j l : digest * digest :=
  nth l (nth j (send_out L xi ncols Delta q) []) (dflt_digest, dflt_digest).

Lemma recv_msg_eq L xi ncols t0 j l : j < xi -> l < L -> j * L + l < ncols ->
  recv_msg L xi ncols t0 j l = Hash j l (column t0 (j * L + l)).
Proof.
  intros Hj Hl Hc. unfold recv_msg, recv_out.
  rewrite nth_map_seq by exact Hj. rewrite nth_map_seq by exact Hl.
  rewrite nth_transpose by exact Hc. reflexivity.
Qed.

Lemma send_msgs_eq L xi ncols Delta q j l : j < xi -> l < L -> j * L + l < ncols ->
  send_msgs L xi ncols Delta q j l
  = (Hash j l (column q (j * L + l)), Hash j l (xorv (column q (j * L + l)) Delta)).
Proof.
  intros Hj Hl Hc. unfold send_msgs, send_out.
  rewrite nth_map_seq by exact Hj. rewrite nth_map_seq by exact Hl.
  rewrite nth_transpose by exact Hc. reflexivity.
Qed.

(* cot_correlation, output form: the receiver's message is the sender's message selected by x_j *)
Lemma cot_outputs_l L xi Delta x sg t0 t1 j l :
  let x' := x_prime L x sg in
  let q := send_q Delta (t_delta Delta t0 t1) (recv_u t0 t1 x') in
  length x = xi -> wf_rows (length x') Delta t0 t1 -> j < xi -> l < L ->
  recv_msg L xi (L * xi) t0 j l
  = (if bit x j then snd else fst) (send_msgs L xi (L * xi) Delta q j l).
Proof.
  cbn zeta. intros Hx W Hj Hl.
  assert (Hc : j * L + l < L * xi) by nia.
  assert (Hn : j * L + l < length (x_prime L x sg)).
  { unfold x_prime. rewrite app_length, repeat_bits_length. nia. }
  rewrite recv_msg_eq, send_msgs_eq by assumption.
  rewrite cot_correlation_l by assumption.
  rewrite x_prime_bit by lia.
  destruct W as (H0 & _ & _ & _).
  assert (Hlen : length (column t0 (j * L + l)) = length Delta) by (rewrite column_length; exact H0).
  destruct (bit x j); cbn [fst snd].
  - rewrite scalev_true, xorv_cancel_r by exact Hlen. reflexivity.
  - rewrite xorv_scalev_false by exact Hlen. reflexivity.
Qed.

(* ot_messages_differ: under Delta <> 0 the two sender messages of every instance differ *)
Lemma ot_messages_differ_l L xi ncols Delta q j l :
  existsb (fun b => b) Delta = true -> length q = length Delta ->
  j < xi -> l < L -> j * L + l < ncols ->
  fst (send_msgs L xi ncols Delta q j l) <> snd (send_msgs L xi ncols Delta q j l).
Proof.
  intros HD Hq Hj Hl Hc. rewrite send_msgs_eq by assumption. cbn [fst snd]. intros E.
  injection E as E. symmetry in E.
  apply xorv_self_id in E; [|rewrite column_length; exact Hq].
  clear -HD E. induction Delta as [|d D IH]; cbn in *; [discriminate|].
  destruct d; cbn in *; [discriminate|]. apply IH; assumption.
Qed.

(* and with Delta = 0 they coincide (the guard is necessary) *)
Lemma ot_messages_equal_when_delta_zero L xi ncols Delta q j l :
  forallb negb Delta = true -> length q = length Delta ->
  j < xi -> l < L -> j * L + l < ncols ->
  fst (send_msgs L xi ncols Delta q j l) = snd (send_msgs L xi ncols Delta q j l).
Proof.
  intros HD Hq Hj Hl Hc. rewrite send_msgs_eq by assumption. cbn [fst snd]. f_equal.
  assert (Hlen : length (column q (j * L + l)) = length Delta) by (rewrite column_length; exact Hq).
  revert Hlen HD. generalize (column q (j * L + l)) as c. clear Hq.
  induction Delta as [|d D IH]; intros [|x c] Hlen HD; cbn in *; try discriminate; [reflexivity|].
  destruct d; cbn in *; [discriminate|]. rewrite <- IH by (lia || assumption). destruct x; reflexivity.
Qed.

(* ---------------------------------------------------------------- the consistency check *)

Section CheckProofs.
Context {R : Type} (K : c2ops R) (HK : c2laws K).
Variable emb : bits -> R.
Variable sigma : nat.
Hypothesis emb_xor : forall a b, length a = length b -> emb (xorv a b) = radd K (emb a) (emb b).

Local Notation "x + y" := (radd K x y).
Local Notation "x * y" := (rmul K x y).

Lemma add_cancel_r x y z : x + z = y + z -> x = y.
Proof.
  intros H. assert (E : (x + z) + z = (y + z) + z) by (rewrite H; reflexivity).
  rewrite <- !(c2_add_assoc K HK), (c2_add_self K HK) in E.
  rewrite !(c2_add_comm K HK _ (r0 K)), !(c2_add_0_l K HK) in E. exact E.
Qed.

Lemma add_cancel_l x y z : z + x = z + y -> x = y.
Proof. rewrite !(c2_add_comm K HK z). apply add_cancel_r. Qed.

Lemma add_shuffle a1 a2 b1 b2 : (a1 + a2) + (b1 + b2) = (a1 + b1) + (a2 + b2).
Proof.
  rewrite <- (c2_add_assoc K HK a1 a2), (c2_add_assoc K HK a2 b1), (c2_add_comm K HK a2 b1),
    <- (c2_add_assoc K HK b1 a2), (c2_add_assoc K HK a1 b1). reflexivity.
Qed.

Lemma block_xorv a b k : length a = length b ->
  block sigma (xorv a b) k = xorv (block sigma a k) (block sigma b k)
  /\ length (block sigma a k) = length (block sigma b k).
Proof.
  intros H. unfold block. rewrite skipn_xorv by exact H. rewrite firstn_xorv. split; [reflexivity|].
  rewrite !firstn_length, !skipn_length, H. reflexivity.
Qed.

Lemma acc_resp_xor chi a b k acc1 acc2 : length a = length b ->
  acc_resp K emb sigma chi (xorv a b) k (acc1 + acc2)
  = acc_resp K emb sigma chi a k acc1 + acc_resp K emb sigma chi b k acc2.
Proof.
  intros H. revert k acc1 acc2; induction chi as [|c chi IH]; intros k acc1 acc2; cbn [acc_resp]; [reflexivity|].
  destruct (block_xorv a b k H) as [-> Hl]. rewrite emb_xor by exact Hl.
  rewrite (c2_distr_r K HK), add_shuffle. apply IH.
Qed.

Lemma response_xor chi a b : length a = length b ->
  response K emb sigma chi (xorv a b) = response K emb sigma chi a + response K emb sigma chi b.
Proof.
  intros H. unfold response.
  destruct (block_xorv a b (length chi) H) as [-> Hl]. rewrite emb_xor by exact Hl.
  apply acc_resp_xor; exact H.
Qed.

Lemma reqb_refl x : reqb K x x = true.
Proof. apply (c2_eqb K HK). reflexivity. Qed.

(* completeness on the specification rows *)
Lemma verify_qspec chi x' Delta t0 :
  length t0 = length Delta -> Forall (fun r => length r = length x') t0 ->
  verify K emb sigma chi (compute_response K emb sigma chi x' t0) Delta (qspec Delta t0 x') = true.
Proof.
  unfold verify, compute_response. cbn [fst snd].
  revert t0; induction Delta as [|d D IH]; intros [|a t0] H F; cbn in *; try discriminate; [reflexivity|].
  inversion F as [|? ? La F']; subst.
  rewrite IH by (lia || assumption). rewrite andb_true_r.
  destruct d; cbn [qrow].
  - rewrite response_xor by exact La. apply reqb_refl.
  - apply reqb_refl.
Qed.

(* softspoken_check_complete *)
Lemma softspoken_check_complete_l chi x' Delta t0 t1 :
  wf_rows (length x') Delta t0 t1 ->
  verify K emb sigma chi (compute_response K emb sigma chi x' t0) Delta
         (send_q Delta (t_delta Delta t0 t1) (recv_u t0 t1 x')) = true.
Proof.
  intros W. rewrite send_q_rows by exact W. destruct W as (H0 & _ & F0 & _).
  apply verify_qspec; assumption.
Qed.

(* the response T accepted together with a given X is unique *)
Lemma verify_dots_T_unique qd X T T' Delta :
  verify_dots K qd X T Delta = true -> verify_dots K qd X T' Delta = true -> T = T'.
Proof.
  revert T T' Delta; induction qd as [|q qd IH]; intros [|t T] [|t' T'] [|d D] H H'; cbn in *; try discriminate; [reflexivity|].
  apply andb_prop in H as [H1 H2]. apply andb_prop in H' as [H1' H2'].
  apply (c2_eqb K HK) in H1. apply (c2_eqb K HK) in H1'. f_equal; [|eapply IH; eassumption].
  destruct d; [|congruence]. apply (add_cancel_r t t' X). congruence.
Qed.

(* softspoken_check_T: any other T is rejected *)
Lemma softspoken_check_T_l chi x' Delta t0 t1 T' :
  wf_rows (length x') Delta t0 t1 ->
  T' <> snd (compute_response K emb sigma chi x' t0) ->
  verify K emb sigma chi (fst (compute_response K emb sigma chi x' t0), T') Delta
         (send_q Delta (t_delta Delta t0 t1) (recv_u t0 t1 x')) = false.
Proof.
  intros W Hne. destruct (verify K emb sigma chi (_, T') Delta _) eqn:E; [|reflexivity].
  exfalso. apply Hne. pose proof (softspoken_check_complete_l chi x' Delta t0 t1 W) as Hc.
  unfold verify in *. cbn [fst snd] in *. symmetry. eapply verify_dots_T_unique; eassumption.
Qed.

(* altering one entry by delta <> 0 is such a change *)
Lemma upd_neq (T : list R) i dl : i < length T -> dl <> r0 K -> upd T i (nth i T (r0 K) + dl) <> T.
Proof.
  revert i; induction T as [|t T IH]; intros i Hi Hd; cbn in *; [lia|].
  destruct i as [|i]; cbn.
  - intros E. injection E as E. apply Hd.
    apply (add_cancel_l dl (r0 K) t). rewrite E, (c2_add_comm K HK), (c2_add_0_l K HK). reflexivity.
  - intros E. injection E as E. exact (IH i ltac:(lia) Hd E).
Qed.

Lemma softspoken_check_T_delta_l chi x' Delta t0 t1 i dl :
  wf_rows (length x') Delta t0 t1 -> i < length t0 -> dl <> r0 K ->
  let resp := compute_response K emb sigma chi x' t0 in
  verify K emb sigma chi (fst resp, upd (snd resp) i (nth i (snd resp) (r0 K) + dl)) Delta
         (send_q Delta (t_delta Delta t0 t1) (recv_u t0 t1 x')) = false.
Proof.
  cbn zeta. intros W Hi Hd. apply softspoken_check_T_l; [exact W|].
  apply upd_neq; [|exact Hd]. unfold compute_response. cbn [snd]. rewrite map_length. exact Hi.
Qed.

(* softspoken_check_X: an altered X is rejected iff some Delta_i = 1 *)
Lemma verify_dots_X qd X X' T Delta :
  verify_dots K qd X T Delta = true -> X' <> X ->
  verify_dots K qd X' T Delta = negb (existsb (fun b => b) Delta).
Proof.
  intros H Hne. revert T Delta H; induction qd as [|q qd IH]; intros [|t T] [|d D] H; cbn in *; try discriminate; [reflexivity|].
  apply andb_prop in H as [H1 H2]. apply (c2_eqb K HK) in H1.
  destruct d; cbn.
  - destruct (reqb K (t + X') q) eqn:E; [|reflexivity].
    apply (c2_eqb K HK) in E. exfalso. apply Hne. apply (add_cancel_l X' X t). congruence.
  - rewrite (proj2 (c2_eqb K HK _ _) H1). cbn. apply IH; exact H2.
Qed.

Lemma softspoken_check_X_l chi x' Delta t0 t1 X' :
  wf_rows (length x') Delta t0 t1 ->
  X' <> fst (compute_response K emb sigma chi x' t0) ->
  verify K emb sigma chi (X', snd (compute_response K emb sigma chi x' t0)) Delta
         (send_q Delta (t_delta Delta t0 t1) (recv_u t0 t1 x'))
  = negb (existsb (fun b => b) Delta).
Proof.
  intros W Hne. pose proof (softspoken_check_complete_l chi x' Delta t0 t1 W) as Hc.
  unfold verify in *. cbn [fst snd] in *. eapply verify_dots_X; eassumption.
Qed.

End CheckProofs.

(* ---------------------------------------------------------------- base OTs in the exponent *)

Section BaseProofs.
Context {F : Type} (K : fops F) (HK : flaws K).
Add Field Kf2 : (fl_theory K HK).

(* vsot: both sides derive the same key for the chosen message *)
Lemma vsot_correlation_l idx a b w :
  vsot_recv_key K idx a w (vsot_bigB b)
  = (if w then snd else fst) (vsot_send_keys K idx b (vsot_bigA K a b w)).
Proof.
  unfold vsot_recv_key, vsot_send_keys, vsot_bigA, vsot_bigB. destruct w; cbn [fst snd]; f_equal; ring.
Qed.

Lemma mul_self_zero (b : F) : fmul K b b = f0 K -> b = f0 K.
Proof.
  intros H. destruct (feqb K b (f0 K)) eqn:E; [apply (fl_eqb K HK); exact E|].
  assert (Hb : b <> f0 K) by (intros Hz; apply (fl_eqb K HK) in Hz; congruence).
  replace b with (fmul K (finv K b) (fmul K b b)) by (field; exact Hb).
  rewrite H. ring.
Qed.

(* vsot: the two sender keys differ as soon as b <> 0 (B = b.G is validated non-identity) *)
Lemma vsot_messages_differ_l idx b A :
  b <> f0 K -> fst (vsot_send_keys K idx b A) <> snd (vsot_send_keys K idx b A).
Proof.
  intros Hb. unfold vsot_send_keys, vsot_bigB. cbn [fst snd]. intros E. injection E as E.
  apply Hb. apply mul_self_zero.
  replace (fmul K b b) with (fsub K (fmul K b A) (fmul K b (fsub K A b))) by ring.
  rewrite <- E. ring.
Qed.

Variables h0 h1 : F -> F.

Lemma popf_roundtrip x y s : popf_eval K h0 h1 (popf_program K h0 h1 x y s) x = y.
Proof. unfold popf_eval, popf_program. destruct x; cbn [fst snd]; ring. Qed.

(* ecbbot: the sender's key for branch c equals the receiver's key *)
Lemma ecbbot_correlation_l idx c a bi s :
  snd (ec_recv K h0 h1 idx c bi s (ec_ms a))
  = (if c then snd else fst) (ec_send K h0 h1 idx a (fst (ec_recv K h0 h1 idx c bi s (ec_ms a)))).
Proof.
  unfold ec_recv, ec_send, ec_ms. cbn [fst snd].
  destruct c; cbn [fst snd]; rewrite popf_roundtrip; f_equal; ring.
Qed.

Lemma ecbbot_messages_differ_l idx a phi :
  fst (ec_send K h0 h1 idx a phi) <> snd (ec_send K h0 h1 idx a phi).
Proof. unfold ec_send. cbn [fst snd]. intros E. discriminate E. Qed.

End BaseProofs.

(* ---------------------------------------------------------------- GF(2): an instance of every law record
   (used by the non-vacuity examples of props/C09.v) *)

Definition gf2 : fops bool := {|
  f0 := false; f1 := true; fadd := xorb; fmul := andb; fsub := xorb; fopp := fun x => x;
  finv := fun x => x; fdiv := andb; feqb := Bool.eqb
|}.

Lemma gf2_flaws : flaws gf2.
Proof.
  constructor.
  - constructor; [constructor|..]; cbn; try (intros [] ; reflexivity); try (intros [] []; reflexivity);
      try (intros [] [] []; reflexivity); try discriminate.
    intros [] H; [reflexivity | exfalso; apply H; reflexivity].
  - intros x y. cbn. apply Bool.eqb_true_iff.
Qed.

Definition c2_gf2 : c2ops bool := {| r0 := false; r1 := true; radd := xorb; rmul := andb; reqb := Bool.eqb |}.

Lemma c2_gf2_laws : c2laws c2_gf2.
Proof.
  constructor; cbn; try (intros []; reflexivity); try (intros [] []; reflexivity); try (intros [] [] []; reflexivity).
  intros x y. apply Bool.eqb_true_iff.
Qed.

Definition emb_hd (v : bits) : bool := hd false v.
Lemma emb_hd_xor a b : length a = length b -> emb_hd (xorv a b) = xorb (emb_hd a) (emb_hd b).
Proof. destruct a, b; cbn; intros H; try discriminate; reflexivity. Qed.

(* ---------------------------------------------------------------- the executable bf128 embedding is additive
   (the [emb] hypothesis of the check theorems holds for emb128 / bf_add) *)

Lemma fit_length n v : length (fit n v) = n.
Proof. revert v; induction n as [|n IH]; intros [|x v]; cbn; try reflexivity; rewrite IH; reflexivity. Qed.

Lemma fit_xorv n a b : length a = length b -> fit n (xorv a b) = xorv (fit n a) (fit n b).
Proof.
  revert a b; induction n as [|n IH]; intros [|x a] [|y b] H; cbn in *; try discriminate; try reflexivity.
  - f_equal. apply (IH [] []). reflexivity.
  - f_equal. apply IH. lia.
Qed.

Lemma xorp_xorv a b : length a = length b -> xorp a b = xorv a b.
Proof.
  revert b; induction a as [|x a IH]; intros [|y b] H; cbn in *; try discriminate; try reflexivity.
  rewrite IH by lia. reflexivity.
Qed.

Lemma fit_id n v : length v = n -> fit n v = v.
Proof. revert v; induction n as [|n IH]; intros [|x v] H; cbn in *; try discriminate; try reflexivity. rewrite IH by lia. reflexivity. Qed.

Lemma app_xorv a1 a2 b1 b2 : length a1 = length b1 -> xorv (a1 ++ a2) (b1 ++ b2) = xorv a1 b1 ++ xorv a2 b2.
Proof.
  revert b1; induction a1 as [|x a1 IH]; intros [|y b1] H; cbn in *; try discriminate; try reflexivity.
  rewrite IH by lia. reflexivity.
Qed.

Lemma rev_bytes_xorv n a b acca accb : length a = length b -> length acca = length accb ->
  rev_bytes_fuel n (xorv a b) (xorv acca accb) = xorv (rev_bytes_fuel n a acca) (rev_bytes_fuel n b accb)
  /\ length (rev_bytes_fuel n a acca) = length (rev_bytes_fuel n b accb).
Proof.
  revert a b acca accb; induction n as [|n IH]; intros a b acca accb H Ha; cbn [rev_bytes_fuel]; [split; [reflexivity|exact Ha]|].
  destruct a as [|x a], b as [|y b]; cbn in H; try discriminate; [split; [reflexivity|exact Ha]|].
  cbn [xorv].
  change (xorb x y :: xorv a b) with (xorv (x :: a) (y :: b)).
  assert (Hl : length (firstn 8 (x :: a)) = length (firstn 8 (y :: b))) by (rewrite !firstn_length; cbn [length]; lia).
  rewrite skipn_xorv by (cbn [length]; lia). rewrite firstn_xorv.
  rewrite <- app_xorv by exact Hl.
  apply IH.
  - rewrite !skipn_length. cbn [length]. lia.
  - rewrite !app_length. lia.
Qed.

Lemma rev_bytes_length n v acc : length v <= 8 * n ->
  length (rev_bytes_fuel n v acc) = length v + length acc.
Proof.
  revert v acc; induction n as [|n IH]; intros v acc H; cbn [rev_bytes_fuel].
  - destruct v; cbn in *; [reflexivity | lia].
  - destruct v as [|x v]; [reflexivity|].
    rewrite IH by (rewrite skipn_length; lia).
    rewrite skipn_length, app_length, firstn_length. lia.
Qed.

Lemma emb128_xor a b : length a = length b -> emb128 (xorv a b) = radd bf128 (emb128 a) (emb128 b).
Proof.
  intros H. unfold emb128. cbn [radd bf128]. unfold bf_add.
  rewrite fit_xorv by exact H.
  destruct (rev_bytes_xorv 16 (fit 128 a) (fit 128 b) [] []) as [E L]; [rewrite !fit_length; reflexivity | reflexivity |].
  change (xorv [] []) with (@nil bool) in E. rewrite E.
  rewrite xorp_xorv by exact L.
  symmetry. apply fit_id. rewrite xorv_length, <- L, Nat.min_id.
  rewrite rev_bytes_length by (rewrite fit_length; lia). rewrite fit_length. reflexivity.
Qed.
