(* Birkhoff_proofs.v — the generalised Vandermonde matrix of birkhoff.BuildVandermondeMatrix
   is the matrix of the derivative-evaluation constraints:  row (x, j) dotted with the
   coefficient vector P is P^(j)(x)  (the coded Derivative iterated j times, coded Eval). *)
From Coq Require Import List Arith Bool Lia Field Ring NArith.
Import ListNotations.
Require Import V.base.Fld V.model.LinAlg V.model.Poly V.model.Interp.
Require Import V.proofs.LinAlg_proofs V.proofs.Poly_proofs V.proofs.Interp_proofs.

Section BirkhoffProofs.
Context {F : Type} (K : fops F) (HK : flaws K).
Add Field Kfield_bk : (fl_theory K HK).

Local Notation "0" := (f0 K).
Local Notation "1" := (f1 K).
Local Infix "+" := (fadd K).
Local Infix "*" := (fmul K).

Lemma peval_r_bsum : forall q x, peval_r K q x = bsum K (length q) (fun i => nth i q 0 * fpow K x i).
Proof.
  induction q as [|c t IH]; intros x.
  - reflexivity.
  - cbn [length]. rewrite (bsum_shift K HK). cbn [nth peval_r fpow]. rewrite IH.
    rewrite (bsum_mul_l K HK). f_equal; [ring|]. apply (bsum_ext K). intros i _. cbn [nth fpow]. ring.
Qed.

(* Σ_{c<n} [j <= c] g(c-j)  =  Σ_{i<n-j} g(i) *)
Lemma bsum_reindex : forall n j g,
  bsum K n (fun c => if Nat.leb j c then g (c - j)%nat else 0) = bsum K (n - j) g.
Proof.
  induction n as [|n IH]; intros j g.
  - reflexivity.
  - cbn [bsum]. rewrite IH. destruct (Nat.leb j n) eqn:E.
    + apply Nat.leb_le in E. replace (S n - j)%nat with (S (n - j)) by lia. reflexivity.
    + apply Nat.leb_gt in E. replace (S n - j)%nat with O by lia. replace (n - j)%nat with O by lia.
      cbn [bsum]. ring.
Qed.

Lemma bsum_extend_zero : forall n m g, (n <= m)%nat -> (forall i, (n <= i)%nat -> g i = 0) ->
  bsum K m g = bsum K n g.
Proof.
  intros n m g Hnm Hz. induction m as [|m IH].
  - replace n with O by lia. reflexivity.
  - destruct (Nat.eq_dec n (S m)) as [->|Hne]; [reflexivity|].
    cbn [bsum]. rewrite IH by lia. rewrite Hz by lia. ring.
Qed.

(* one row of the Birkhoff matrix *)
Theorem birkhoff_row_action : forall n x j P, length P = n ->
  dot K (map (fun c => phi K c x j) (seq 0 n)) P = peval K (pderiv_iter K (N.to_nat j) P) x.
Proof.
  intros n x j P HP. set (jn := N.to_nat j).
  (* right-hand side as a sum over the coefficient function *)
  set (Q := map (fun i => nth (i + jn) P 0 * frising K i jn) (seq 0 n)).
  assert (HQn : forall i, nth i Q 0 = nth (i + jn) P 0 * frising K i jn).
  { intros i. unfold Q. destruct (Nat.ltb i n) eqn:E.
    - apply Nat.ltb_lt in E.
      rewrite (nth_indep _ 0 ((fun i => nth (i + jn) P 0 * frising K i jn) (nth i (seq 0 n) O)))
        by now rewrite map_length, seq_length.
      rewrite (map_nth (fun i => nth (i + jn) P 0 * frising K i jn)). now rewrite seq_nth.
    - apply Nat.ltb_ge in E. rewrite nth_overflow by now rewrite map_length, seq_length.
      rewrite (nth_overflow P) by lia. ring. }
  assert (HQl : length Q = n) by (unfold Q; now rewrite map_length, seq_length).
  rewrite (peval_eq_peval_r K HK).
  rewrite (peval_r_coeff_eq K HK _ Q) by (intros i; rewrite HQn; apply (pderiv_iter_nth K HK)).
  rewrite peval_r_bsum, HQl.
  (* left-hand side *)
  rewrite (dot_bsum K HK _ _ n) by (right; lia).
  set (g := fun i => nth (i + jn) P 0 * frising K i jn * fpow K x i).
  rewrite (bsum_ext K n _ (fun c => if Nat.leb jn c then g (c - jn)%nat else 0)).
  - rewrite (bsum_reindex n jn g). symmetry.
    rewrite (bsum_ext K n _ g) by (intros i _; rewrite HQn; reflexivity).
    apply bsum_extend_zero; [lia|].
    intros i Hi. unfold g. rewrite (nth_overflow P) by lia. ring.
  - intros c Hc.
    rewrite (nth_indep _ 0 ((fun c => phi K c x j) (nth c (seq 0 n) O))) by now rewrite map_length, seq_length.
    rewrite (map_nth (fun c => phi K c x j)). rewrite seq_nth by auto. cbn [Nat.add].
    destruct (Nat.leb jn c) eqn:E.
    + apply Nat.leb_le in E. rewrite (phi_eval K HK) by (fold jn; lia). fold jn.
      unfold g. replace (c - jn + jn)%nat with c by lia. ring.
    + apply Nat.leb_gt in E. rewrite (phi_gt K) by (fold jn; lia). ring.
Qed.

(* the whole matrix: V·P is the vector of derivative evaluations *)
Theorem build_birkhoff_mvec : forall xs js P,
  mvec K (build_birkhoff K xs js (length P)) P =
  map (fun xj => peval K (pderiv_iter K (N.to_nat (snd xj)) P) (fst xj)) (combine xs js).
Proof.
  intros xs js P. unfold build_birkhoff, mvec. rewrite map_map. apply map_ext.
  intros [x j]. cbn [fst snd]. now apply birkhoff_row_action.
Qed.

(* a coefficient vector solves the Birkhoff system iff it meets every derivative constraint *)
Theorem birkhoff_system_iff_constraints : forall xs js ys P, length xs = length js -> length ys = length xs ->
  (mvec K (build_birkhoff K xs js (length P)) P = ys <->
   forall i, (i < length xs)%nat ->
     peval K (pderiv_iter K (N.to_nat (nth i js 0%N)) P) (nth i xs 0) = nth i ys 0).
Proof.
  intros xs js ys P Hjs Hys. rewrite build_birkhoff_mvec.
  set (f := fun xj : F * N => peval K (pderiv_iter K (N.to_nat (snd xj)) P) (fst xj)).
  assert (Hlen : length (map f (combine xs js)) = length xs) by (rewrite map_length, combine_length; lia).
  assert (Hnth : forall i, (i < length xs)%nat -> nth i (map f (combine xs js)) 0 = f (nth i xs 0, nth i js 0%N)).
  { intros i Hi. rewrite (nth_indep _ 0 (f (0, 0%N))) by lia.
    rewrite (map_nth f). now rewrite combine_nth. }
  split.
  - intros H i Hi. rewrite <- H, Hnth by auto. reflexivity.
  - intros H. apply (nth_ext_eq _ _ 0); [lia|]. intros i Hi. rewrite Hlen in Hi.
    rewrite Hnth by auto. now apply H.
Qed.

End BirkhoffProofs.
