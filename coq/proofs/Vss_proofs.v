(* Vss_proofs.v — Feldman / Pedersen verification accepts exactly the dealer's shares
   (model/Vss.v), for every MSP over an arbitrary field (flaws K), in the exponent.

     feldman_verify_iff   accepted  <->  |V| = D, the holder owns rows, share = (M_i · V)_i coordinate-wise
     feldman_exact        against the dealer's V = lift r: accepted <-> the share IS the dealt share
     vv_length            a vector of the wrong length (shorter, longer, extended by identities) rejects everything
     vv_entry_change      V_k += delta (delta <> 0): a verifying share still verifies <-> its rows vanish in column k
     vv_op_exact          V1·V2 verifies exactly the sums of shares verified by V1 and V2 (any number by iteration)
     recon_in_exponent    lifted shares of an accepted set reconstruct V_0 (= r_0 · G)
     pedersen_verify_iff  the same in linear forms over {G, H}                                            *)
From Coq Require Import List NArith Arith Bool Lia Field Ring.
Import ListNotations.
Require Import V.base.Fld V.model.LinAlg V.model.Access V.model.Msp V.model.Kw V.model.Vss.
Require Import V.proofs.LinAlg_proofs V.proofs.Span_proofs V.proofs.Msp_proofs V.proofs.Kw_proofs.

Lemma list_eqb_eq : forall {A} (eqb : A -> A -> bool), (forall x y, eqb x y = true <-> x = y) ->
  forall a b, list_eqb eqb a b = true <-> a = b.
Proof.
  intros A eqb H a; induction a as [|x a IH]; intros [|y b]; cbn [list_eqb]; try (split; [discriminate|congruence]).
  - tauto.
  - rewrite andb_true_iff, H, IH. split; [intros [-> ->]; reflexivity|intros E; inversion E; auto].
Qed.

Section VssProofs.
Context {F : Type} (K : fops F) (HK : flaws K).
Implicit Type m : @msp F.

Add Field Kfield7 : (fl_theory K HK).

Notation "0" := (f0 K).
Notation "1" := (f1 K).
Infix "+" := (fadd K).
Infix "*" := (fmul K).
Infix "-" := (fsub K).

(* the share the verification vector V assigns to a holder: (M_i · V) over its rows *)
Definition derived (m : @msp F) (V : list F) (id : N) : list F :=
  map (fun i => dot K (row i (msp_M m)) V) (rows_of m id).

Lemma lifted_share_some : forall m V id, length V = msp_D m -> rows_of m id <> [] ->
  lifted_share K m V id = Some (derived m V id).
Proof.
  intros m V id HV Hr. unfold lifted_share, lifted_lambda. rewrite HV, Nat.eqb_refl.
  destruct (rows_of m id) as [|i rs] eqn:E; [congruence|]. unfold derived. rewrite E. f_equal.
  apply map_ext. intros j. apply (nth_mvec K).
Qed.

Theorem feldman_verify_iff : forall m id vals V,
  feldman_verify K m (id, vals) V = true <->
  length V = msp_D m /\ rows_of m id <> [] /\ vals = derived m V id.
Proof.
  intros m id vals V. unfold feldman_verify. cbn [fst snd]. split.
  - intros H. unfold lifted_share, lifted_lambda in H.
    destruct (Nat.eqb (msp_D m) (length V)) eqn:EV; [|discriminate]. apply Nat.eqb_eq in EV.
    destruct (rows_of m id) as [|i rs] eqn:E; [discriminate|].
    apply (list_eqb_eq (feqb K) (fl_eqb K HK)) in H. repeat split; [lia|discriminate|].
    rewrite <- H. unfold derived. rewrite E. apply map_ext. intros j. apply (nth_mvec K).
  - intros [HV [Hr Hv]]. rewrite (lifted_share_some m V id HV Hr).
    apply (list_eqb_eq (feqb K) (fl_eqb K HK)). now symmetry.
Qed.

(* wrong length of the verification vector: nothing verifies *)
Theorem vv_length : forall m sh V, length V <> msp_D m -> feldman_verify K m sh V = false.
Proof.
  intros m [id vals] V H. destruct (feldman_verify K m (id, vals) V) eqn:E; [|reflexivity].
  apply feldman_verify_iff in E. tauto.
Qed.

(* extension by identity elements (exponent 0) is one such case *)
Corollary vv_append_identity : forall m sh V k, length V = msp_D m -> (0 < k)%nat ->
  feldman_verify K m sh (V ++ repeat 0 k) = false.
Proof. intros. apply vv_length. rewrite app_length, repeat_length. lia. Qed.

(* against the dealer's own vector (the lift of the random column r): accepted iff it is the dealt share *)
Theorem feldman_exact : forall m r id vals, length r = msp_D m -> rows_of m id <> [] ->
  (feldman_verify K m (id, vals) r = true <-> (id, vals) = share_of K m (mvec K (msp_M m) r) id).
Proof.
  intros m r id vals Hr Hrows. rewrite feldman_verify_iff. unfold share_of, derived.
  assert (E : map (fun i => dot K (row i (msp_M m)) r) (rows_of m id) =
              map (fun i => nth i (mvec K (msp_M m) r) 0) (rows_of m id)).
  { apply map_ext. intros. symmetry. apply (nth_mvec K). }
  rewrite E. split.
  - intros [_ [_ ->]]. reflexivity.
  - intros H. inversion H. auto.
Qed.

(* a claimed holder that was assigned a different value is rejected *)
Corollary feldman_wrong_holder : forall m r id id', length r = msp_D m -> rows_of m id' <> [] ->
  snd (share_of K m (mvec K (msp_M m) r) id) <> snd (share_of K m (mvec K (msp_M m) r) id') ->
  feldman_verify K m (id', snd (share_of K m (mvec K (msp_M m) r) id)) r = false.
Proof.
  intros m r id id' Hr Hrows Hne.
  destruct (feldman_verify K m (id', _) r) eqn:E; [|reflexivity].
  apply (feldman_exact m r id' _ Hr Hrows) in E. exfalso. apply Hne.
  apply (f_equal snd) in E. exact E.
Qed.

(* ---- changing one entry of V ---------------------------------------------------------------------- *)

Lemma dot_upd_add : forall (u V : list F) k d, (k < length V)%nat ->
  dot K u (upd k (nth k V 0 + d) V) = dot K u V + nth k u 0 * d.
Proof.
  induction u as [|a u IH]; intros V k d Hk.
  - rewrite !(dot_nil_l K). destruct k; cbn [nth]; ring.
  - destruct V as [|v V]; [cbn in Hk; lia|]. destruct k; cbn [upd nth].
    + rewrite !(dot_cons K HK). ring.
    + rewrite !(dot_cons K HK), IH by (cbn in Hk; lia). ring.
Qed.

Theorem vv_entry_change : forall m id vals V k d, d <> 0 -> (k < length V)%nat ->
  feldman_verify K m (id, vals) V = true ->
  (feldman_verify K m (id, vals) (upd k (nth k V 0 + d) V) = true <->
   forall i, In i (rows_of m id) -> nth k (row i (msp_M m)) 0 = 0).
Proof.
  intros m id vals V k d Hd Hk Hv. apply feldman_verify_iff in Hv. destruct Hv as [HV [Hr Hvals]].
  rewrite feldman_verify_iff, upd_length. split.
  - intros [_ [_ H]] i Hi. rewrite Hvals in H. unfold derived in H.
    assert (E : dot K (row i (msp_M m)) V = dot K (row i (msp_M m)) (upd k (nth k V 0 + d) V)).
    { clear -H Hi. induction (rows_of m id) as [|j l IH]; [contradiction|]. cbn [map] in H. inversion H.
      destruct Hi as [->|Hi]; auto. }
    rewrite dot_upd_add in E by auto.
    assert (Z : nth k (row i (msp_M m)) 0 * d = 0).
    { transitivity (dot K (row i (msp_M m)) V + nth k (row i (msp_M m)) 0 * d - dot K (row i (msp_M m)) V); [ring|].
      rewrite <- E. ring. }
    destruct (fmul_eq_0 K HK _ _ Z); [auto|contradiction].
  - intros H. repeat split; auto. rewrite Hvals. unfold derived. apply map_ext_in. intros i Hi.
    rewrite dot_upd_add by auto. rewrite (H i Hi). ring.
Qed.

(* ---- combining dealers ------------------------------------------------------------------------------ *)

Lemma vv_op_vadd : forall V1 V2, length V1 = length V2 -> vv_op K V1 V2 = Some (vadd K V1 V2).
Proof. intros. unfold vv_op. rewrite H, Nat.eqb_refl. reflexivity. Qed.

Lemma derived_vadd : forall m V1 V2 id, length V1 = length V2 ->
  derived m (vadd K V1 V2) id = map (fun xy => fst xy + snd xy) (combine (derived m V1 id) (derived m V2 id)).
Proof.
  intros m V1 V2 id HL. unfold derived. induction (rows_of m id) as [|i l IH]; [reflexivity|].
  cbn [map combine fst snd]. rewrite IH, (dot_vadd_r K HK) by auto. reflexivity.
Qed.

(* V1·V2 verifies exactly the sums of a share verified by V1 and a share verified by V2 *)
Theorem vv_op_exact : forall m id vals V1 V2, length V1 = msp_D m -> length V2 = msp_D m ->
  (feldman_verify K m (id, vals) (vadd K V1 V2) = true <->
   exists v1 v2, feldman_verify K m (id, v1) V1 = true /\ feldman_verify K m (id, v2) V2 = true /\
                 share_add K (id, v1) (id, v2) = Some (id, vals)).
Proof.
  intros m id vals V1 V2 H1 H2. rewrite feldman_verify_iff. split.
  - intros [HL [Hr Hv]]. exists (derived m V1 id), (derived m V2 id). split; [|split].
    + apply feldman_verify_iff. auto.
    + apply feldman_verify_iff. auto.
    + unfold share_add. cbn [fst snd]. rewrite N.eqb_refl. unfold derived at 1 2. rewrite !map_length, Nat.eqb_refl.
      cbn [andb]. rewrite Hv, derived_vadd by lia. reflexivity.
  - intros [v1 [v2 [Ha [Hb Hs]]]]. apply feldman_verify_iff in Ha, Hb.
    destruct Ha as [_ [Hr ->]]. destruct Hb as [_ [_ ->]].
    unfold share_add in Hs. cbn [fst snd] in Hs. destruct (_ && _); [|discriminate]. inversion Hs.
    repeat split; auto.
    + rewrite vadd_length; lia.
    + rewrite derived_vadd by lia. reflexivity.
Qed.

(* any number of dealers: the product V1·V2·..·Vn (VerificationVector.Op folded from V1) verifies exactly
   the coordinate-wise sum of the shares that V1, .., Vn assign to the holder *)
Definition vals_add (a b : list F) : list F := map (fun xy => fst xy + snd xy) (combine a b).

Lemma fold_vadd_length : forall d Vs V1, length V1 = d -> Forall (fun V => length V = d) Vs ->
  length (fold_left (vadd K) Vs V1) = d.
Proof.
  intros d Vs; induction Vs as [|V Vs IH]; intros V1 H1 HF; [exact H1|]. inversion HF; subst.
  cbn [fold_left]. apply IH; auto. rewrite vadd_length; auto.
Qed.

Lemma derived_fold_vadd : forall m id d Vs V1, length V1 = d -> Forall (fun V => length V = d) Vs ->
  derived m (fold_left (vadd K) Vs V1) id = fold_left vals_add (map (fun V => derived m V id) Vs) (derived m V1 id).
Proof.
  intros m id d Vs; induction Vs as [|V Vs IH]; intros V1 H1 HF; [reflexivity|]. inversion HF; subst.
  cbn [fold_left map]. rewrite IH by (auto; rewrite vadd_length; auto).
  rewrite derived_vadd by lia. reflexivity.
Qed.

Theorem vv_op_sum_n : forall m id vals V1 Vs, length V1 = msp_D m -> Forall (fun V => length V = msp_D m) Vs ->
  rows_of m id <> [] ->
  (feldman_verify K m (id, vals) (fold_left (vadd K) Vs V1) = true <->
   vals = fold_left vals_add (map (fun V => derived m V id) Vs) (derived m V1 id)).
Proof.
  intros m id vals V1 Vs H1 HF Hr. rewrite feldman_verify_iff.
  rewrite (derived_fold_vadd m id (msp_D m) Vs V1 H1 HF). split.
  - intros [_ [_ H]]. exact H.
  - intros H. repeat split; auto. now apply fold_vadd_length.
Qed.

(* ---- reconstruction in the exponent ------------------------------------------------------------------- *)

Theorem recon_in_exponent : forall m V ids, wf_msp m -> NoDup ids -> length V = msp_D m ->
  accepts K m ids = true ->
  recon_exp K m (map (fun id => (id, derived m V id)) ids) = Some (nth 0 V 0).
Proof.
  intros m V ids Hwf Hnd HV Hacc.
  pose proof (proj1 (accepts_iff_span K HK m ids Hwf) Hacc) as [rows [Hs _]].
  destruct (sel_rows_some m ids rows Hs) as [Hrows [Hne Hall]].
  assert (Hknown : forall id, In id ids -> In id (msp_lab m)).
  { intros id Hid. apply memN_In. rewrite forallb_forall in Hall. now apply Hall. }
  (* the lifted shares are the shares dealt from the column V *)
  assert (Hsh : map (fun id => (id, derived m V id)) ids = map (share_of K m (mvec K (msp_M m) V)) ids).
  { apply map_ext. intros id. unfold share_of, derived. f_equal. apply map_ext. intros i.
    symmetry. apply (nth_mvec K). }
  rewrite Hsh. unfold recon_exp.
  destruct ids as [|id0 ids0].
  { exfalso. apply Hne. rewrite Hrows. apply sel_filter_nil. }
  remember (id0 :: ids0) as ids eqn:Eids.
  destruct (map (share_of K m (mvec K (msp_M m) V)) ids) as [|s0 ss] eqn:Esh; [subst; discriminate|].
  rewrite <- Esh.
  assert (Hfst : map fst (map (share_of K m (mvec K (msp_M m) V)) ids) = ids).
  { rewrite map_map. cbn [fst share_of]. apply map_id. }
  rewrite Hfst.
  unfold accepts in Hacc. destruct (recon_vector K m ids) as [rv|] eqn:Erv; [|discriminate].
  match goal with |- (if ?c then _ else _) = _ => assert (Hchk : c = true) end.
  { apply forallb_forall. intros sh Hin. apply in_map_iff in Hin. destruct Hin as [id [<- Hid]].
    cbn [fst snd share_of]. rewrite map_length.
    destruct (rows_of m id) as [|i rs] eqn:E.
    - exfalso. apply Hknown in Hid. apply (In_nth _ _ 0%N) in Hid. destruct Hid as [i [Hi Hnth]].
      assert (In i (rows_of m id)) by (apply rows_of_in; auto). rewrite E in H. contradiction.
    - apply Nat.eqb_refl. }
  rewrite Hchk. cbv zeta. f_equal.
  assert (Hdv := dealt_vals K m V ids Hwf Hnd Hknown). cbv zeta in Hdv.
  match goal with |- dot K rv ?x = _ =>
    replace x with (map (fun i => nth i (mvec K (msp_M m) V) 0) (sel_filter m ids)) by (symmetry; exact Hdv) end.
  unfold recon_vector in Erv. rewrite Hs in Erv. unfold recon_for_rows in Erv.
  pose proof Hwf as [n [d [Hwfm [Hlab [Hd Hn]]]]].
  assert (Hlt : Forall (fun i => (i < n)%nat) rows).
  { apply Forall_forall. intros i Hi. rewrite Hrows in Hi. apply sel_filter_lt in Hi. lia. }
  assert (HD : msp_D m = d) by now apply (msp_D_wf m n d).
  pose proof (sub_rows_wf n d _ rows Hwfm Hlt) as HwfS.
  assert (Hrl : (0 < length rows)%nat) by (destruct rows; [congruence|cbn; lia]).
  assert (Ht : length (target K m) = d) by now rewrite target_length.
  destruct (solve_left_sound K HK _ _ _ _ rv HwfS Hrl Hd Ht Erv) as [Hy Hv].
  rewrite <- Hrows. rewrite (lam_sub_rows K m V rows).
  rewrite <- (dot_vecm_mvec K HK _ _ _ rv V HwfS Hrl Hy), Hv.
  apply (dot_target K HK). lia.
Qed.

(* ---- Pedersen ------------------------------------------------------------------------------------------- *)

Theorem pedersen_verify_iff : forall m id ss bs VA VB,
  pedersen_verify K m id ss bs VA VB = true <->
  length VA = length VB /\ length ss = length bs /\
  length VA = msp_D m /\ rows_of m id <> [] /\ ss = derived m VA id /\ bs = derived m VB id.
Proof.
  intros. unfold pedersen_verify. rewrite !andb_true_iff, !Nat.eqb_eq, !feldman_verify_iff. split.
  - intros [[[H1 H2] [H3 [H4 H5]]] [H6 [_ H7]]]. repeat split; auto.
  - intros [H1 [H2 [H3 [H4 [H5 H6]]]]]. repeat split; auto. lia.
Qed.

(* Pedersen, any number of dealers: the product of the dealers' vectors (entry-wise, i.e. both the G- and
   the H-coefficient vectors are added) verifies exactly the coordinate-wise sums of the secret parts and of
   the blinding parts that the individual vectors assign to the holder *)
Theorem pedersen_vv_op_sum_n : forall m id ss bs VA1 VAs VB1 VBs,
  length VA1 = msp_D m -> Forall (fun V => length V = msp_D m) VAs ->
  length VB1 = msp_D m -> Forall (fun V => length V = msp_D m) VBs ->
  rows_of m id <> [] ->
  (pedersen_verify K m id ss bs (fold_left (vadd K) VAs VA1) (fold_left (vadd K) VBs VB1) = true <->
   ss = fold_left vals_add (map (fun V => derived m V id) VAs) (derived m VA1 id) /\
   bs = fold_left vals_add (map (fun V => derived m V id) VBs) (derived m VB1 id)).
Proof.
  intros m id ss bs VA1 VAs VB1 VBs HA1 HAs HB1 HBs Hr.
  rewrite pedersen_verify_iff.
  rewrite <- (derived_fold_vadd m id (msp_D m) VAs VA1 HA1 HAs), <- (derived_fold_vadd m id (msp_D m) VBs VB1 HB1 HBs).
  pose proof (fold_vadd_length (msp_D m) VAs VA1 HA1 HAs) as LA.
  pose proof (fold_vadd_length (msp_D m) VBs VB1 HB1 HBs) as LB.
  split.
  - intros [_ [_ [_ [_ [H1 H2]]]]]. auto.
  - intros [H1 H2]. repeat split; auto; try lia.
    rewrite H1, H2. unfold derived. now rewrite !map_length.
Qed.

End VssProofs.
