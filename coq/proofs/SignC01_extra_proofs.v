(* SignC01_extra_proofs.v — corollaries and non-vacuity examples for the signing models:
     A. quorum independence: for two arbitrary accepted quorums of the same key and message the
        run succeeds and the signature verifies (DKLs23, Lindell22, Boldyreva),
     B. concrete instances over Z_7 meeting all hypotheses of the main theorems at once. *)
From Coq Require Import List Arith Bool Lia Field Ring ZArith Znumtheory.
Import ListNotations.
Require Import V.base.Fld V.base.ZpField.
Require V.model.SignDkls V.model.SignLindell22 V.model.SignBls V.model.SignLindell17.
Require V.proofs.SignDkls_proofs V.proofs.SignLindell22_proofs V.proofs.SignBls_proofs
        V.proofs.SignLindell17_proofs.

(* ====================================================================================== *)
(* A. quorum independence                                                                  *)
(* ====================================================================================== *)

Section QuorumDkls.
Context {F : Type} (K : fops F) (HK : flaws K).
Variable xc : F -> F.
Variable yodd xover high : F -> bool.
Hypothesis xc_neg : forall k, xc (fopp K k) = xc k.
Hypothesis yodd_neg : forall k, k <> f0 K -> yodd (fopp K k) = negb (yodd k).
Hypothesis xover_neg : forall k, xover (fopp K k) = xover k.

Theorem quorum_independence_dkls :
  forall (inp1 inp2 : SignDkls.inputs) m x (a1 zeta1 a2 zeta2 : nat -> F),
  (forall i, SignDkls.in_sk inp1 i = fadd K (a1 i) (zeta1 i)) ->
  SignDkls.sum_over K (SignDkls.parties (SignDkls.in_n inp1)) a1 = x ->
  SignDkls.sum_over K (SignDkls.parties (SignDkls.in_n inp1)) zeta1 = f0 K ->
  SignDkls.vole_product K inp1 ->
  SignDkls.guard K xc inp1 m x ->
  (forall i, SignDkls.in_sk inp2 i = fadd K (a2 i) (zeta2 i)) ->
  SignDkls.sum_over K (SignDkls.parties (SignDkls.in_n inp2)) a2 = x ->
  SignDkls.sum_over K (SignDkls.parties (SignDkls.in_n inp2)) zeta2 = f0 K ->
  SignDkls.vole_product K inp2 ->
  SignDkls.guard K xc inp2 m x ->
  (exists sg1, SignDkls.sign K xc yodd xover high inp1 m x = Some sg1 /\
               SignDkls.verify K xc yodd xover m x sg1 = true) /\
  (exists sg2, SignDkls.sign K xc yodd xover high inp2 m x = Some sg2 /\
               SignDkls.verify K xc yodd xover m x sg2 = true).
Proof.
  intros inp1 inp2 m x a1 zeta1 a2 zeta2 Hsk1 Ha1 Hz1 Hv1 Hg1 Hsk2 Ha2 Hz2 Hv2 Hg2.
  destruct (SignDkls_proofs.dkls_signature_valid K HK xc yodd xover high xc_neg yodd_neg xover_neg
              inp1 m x a1 zeta1 Hsk1 Ha1 Hz1 Hv1 Hg1) as (S1 & V1 & _).
  destruct (SignDkls_proofs.dkls_signature_valid K HK xc yodd xover high xc_neg yodd_neg xover_neg
              inp2 m x a2 zeta2 Hsk2 Ha2 Hz2 Hv2 Hg2) as (S2 & V2 & _).
  split; eexists; split; eassumption.
Qed.
End QuorumDkls.

Section QuorumL22.
Context {F : Type} (K : fops F) (HK : flaws K) {M : Type}.
Variable odd : F -> bool.
Variable xo : F -> F.
Variable chal : F -> F -> M -> F.
Hypothesis odd_neg : forall k, k <> f0 K -> odd (fopp K k) = negb (odd k).
Hypothesis xo_neg : forall k, xo (fopp K k) = xo k.

Theorem quorum_independence_lindell22 :
  forall fl (inp1 inp2 : SignLindell22.inputs) (m : M) x,
  SignLindell22.sum_over K (SignLindell22.parties (SignLindell22.in_n inp1)) (SignLindell22.in_a inp1) = x ->
  SignLindell22.sum_over K (SignLindell22.parties (SignLindell22.in_n inp1)) (SignLindell22.in_z inp1) = f0 K ->
  SignLindell22_proofs.guard K odd xo chal fl inp1 m x ->
  SignLindell22.sum_over K (SignLindell22.parties (SignLindell22.in_n inp2)) (SignLindell22.in_a inp2) = x ->
  SignLindell22.sum_over K (SignLindell22.parties (SignLindell22.in_n inp2)) (SignLindell22.in_z inp2) = f0 K ->
  SignLindell22_proofs.guard K odd xo chal fl inp2 m x ->
  (exists sg1, SignLindell22.sign K odd xo chal fl false inp1 m x = Some sg1 /\
               SignLindell22.verify K odd xo chal fl x m sg1 = true) /\
  (exists sg2, SignLindell22.sign K odd xo chal fl false inp2 m x = Some sg2 /\
               SignLindell22.verify K odd xo chal fl x m sg2 = true).
Proof.
  intros fl inp1 inp2 m x Ha1 Hz1 Hg1 Ha2 Hz2 Hg2.
  destruct (SignLindell22_proofs.lindell22_signature_valid K HK odd xo chal odd_neg xo_neg
              fl inp1 m x Ha1 Hz1 Hg1) as (S1 & V1).
  destruct (SignLindell22_proofs.lindell22_signature_valid K HK odd xo chal odd_neg xo_neg
              fl inp2 m x Ha2 Hz2 Hg2) as (S2 & V2).
  split; eexists; split; eassumption.
Qed.
End QuorumL22.

Section QuorumBls.
Context {F : Type} (K : fops F) (HK : flaws K) {Msg Hin : Type}.
Variable hin_eqb : Hin -> Hin -> bool.
Hypothesis hin_eqb_spec : forall a b, hin_eqb a b = true <-> a = b.
Variable hmsg : SignBls.rogue_mode -> SignBls.key_size -> F -> Msg -> Hin.
Variable hpop : SignBls.key_size -> F -> Hin.
Variable msg_empty : Msg -> bool.

Theorem quorum_independence_boldyreva : forall md ks x m (hs1 hs2 : list SignBls.holder),
  x <> f0 K -> msg_empty m = false ->
  SignBls.wf_holders hs1 -> SignBls.recon K hs1 = x ->
  (forall h, In h hs1 -> forall l, In l (SignBls.h_rows h) -> l <> f0 K) ->
  SignBls.wf_holders hs2 -> SignBls.recon K hs2 = x ->
  (forall h, In h hs2 -> forall l, In l (SignBls.h_rows h) -> l <> f0 K) ->
  exists sg,
    SignBls.sign K hin_eqb hmsg hpop msg_empty md ks x m hs1 = Some sg /\
    SignBls.sign K hin_eqb hmsg hpop msg_empty md ks x m hs2 = Some sg /\
    SignBls.verify K hin_eqb hmsg hpop msg_empty md ks x m sg = true.
Proof.
  intros md ks x m hs1 hs2 Hx Hm Hwf1 Hr1 Hl1 Hwf2 Hr2 Hl2.
  destruct (SignBls_proofs.boldyreva_signature_valid K HK hin_eqb hin_eqb_spec hmsg hpop msg_empty
              md ks x m hs1 Hwf1 Hr1 Hx Hm Hl1) as (S1 & V1).
  destruct (SignBls_proofs.boldyreva_signature_valid K HK hin_eqb hin_eqb_spec hmsg hpop msg_empty
              md ks x m hs2 Hwf2 Hr2 Hx Hm Hl2) as (S2 & _).
  eexists. split; [exact S1|]. split; [exact S2|exact V1].
Qed.
End QuorumBls.

(* ---- non-vacuity: concrete instances meeting the hypotheses of the main theorems ---------- *)

Definition K7 := ZpS 7 (prime_gt0 7 prime_7).
Definition z7 (v : Z) : ZpT 7 := zp_of 7 (prime_gt0 7 prime_7) v.

Lemma zpT7_cases : forall k : ZpT 7,
  k = z7 0 \/ k = z7 1 \/ k = z7 2 \/ k = z7 3 \/ k = z7 4 \/ k = z7 5 \/ k = z7 6.
Proof.
  intros k. pose proof (zpT_mod 7 k) as Hm.
  pose proof (Z.mod_pos_bound (proj1_sig k) 7 ltac:(lia)) as Hb. rewrite Hm in Hb.
  assert (Hc : (proj1_sig k = 0 \/ proj1_sig k = 1 \/ proj1_sig k = 2 \/ proj1_sig k = 3 \/
               proj1_sig k = 4 \/ proj1_sig k = 5 \/ proj1_sig k = 6)%Z) by lia.
  destruct Hc as [Hc|[Hc|[Hc|[Hc|[Hc|[Hc|Hc]]]]]].
  - left. apply zpT_eq. rewrite Hc. reflexivity.
  - right; left. apply zpT_eq. rewrite Hc. reflexivity.
  - do 2 right; left. apply zpT_eq. rewrite Hc. reflexivity.
  - do 3 right; left. apply zpT_eq. rewrite Hc. reflexivity.
  - do 4 right; left. apply zpT_eq. rewrite Hc. reflexivity.
  - do 5 right; left. apply zpT_eq. rewrite Hc. reflexivity.
  - do 6 right. apply zpT_eq. rewrite Hc. reflexivity.
Qed.

Lemma zpT7_neq : forall a b : ZpT 7, proj1_sig a <> proj1_sig b -> a <> b.
Proof. intros a b H E. apply H. rewrite E. reflexivity. Qed.

Definition ex_xc (k : ZpT 7) : ZpT 7 := fmul K7 k k.
Definition ex_yodd (k : ZpT 7) : bool := Z.odd (proj1_sig k).
Definition ex_xover (_ : ZpT 7) : bool := false.
Definition two (a b : Z) (i : nat) : ZpT 7 := match i with O => z7 a | S O => z7 b | _ => z7 0 end.
Definition pair2 (a01 a10 : Z) (i j : nat) : ZpT 7 :=
  match i, j with O, S O => z7 a01 | S O, O => z7 a10 | _, _ => z7 0 end.
Definition ex_r := two 1 2.
Definition ex_phi := two 1 1.
Definition ex_a := two 2 3.
Definition ex_zeta := two 1 6.
Definition ex_sk (i : nat) := fadd K7 (ex_a i) (ex_zeta i).
Definition ex_chi := pair2 1 2.
Definition ex_cu := pair2 1 1.
Definition ex_cv := pair2 1 1.
Definition ex_inp : SignDkls.inputs :=
  SignDkls.mk_inputs 2 ex_r ex_phi ex_sk ex_chi ex_cu ex_cv
    (fun j i => fsub K7 (fmul K7 (ex_r i) (ex_chi j i)) (ex_cu i j))
    (fun j i => fsub K7 (fmul K7 (ex_sk i) (ex_chi j i)) (ex_cv i j)).

Lemma dkls_nonvacuous :
  flaws K7 /\
  (forall k, ex_xc (fopp K7 k) = ex_xc k) /\
  (forall k, k <> f0 K7 -> ex_yodd (fopp K7 k) = negb (ex_yodd k)) /\
  (forall k, ex_xover (fopp K7 k) = ex_xover k) /\
  (forall i, SignDkls.in_sk ex_inp i = fadd K7 (ex_a i) (ex_zeta i)) /\
  SignDkls.sum_over K7 (SignDkls.parties (SignDkls.in_n ex_inp)) ex_a = z7 5 /\
  SignDkls.sum_over K7 (SignDkls.parties (SignDkls.in_n ex_inp)) ex_zeta = f0 K7 /\
  SignDkls.vole_product K7 ex_inp /\
  SignDkls.guard K7 ex_xc ex_inp (z7 1) (z7 5) /\
  SignDkls.in_n ex_inp = 2%nat.
Proof.
  split; [exact ZpS_7_flaws|].
  split; [intros k; apply zpT_eq;
          destruct (zpT7_cases k) as [H|[H|[H|[H|[H|[H|H]]]]]]; subst k; vm_compute; reflexivity|].
  split; [intros k Hk; destruct (zpT7_cases k) as [H|[H|[H|[H|[H|[H|H]]]]]]; subst k;
          try (vm_compute; reflexivity); exfalso; apply Hk; apply zpT_eq; reflexivity|].
  split; [reflexivity|].
  split; [reflexivity|].
  split; [apply zpT_eq; vm_compute; reflexivity|].
  split; [apply zpT_eq; vm_compute; reflexivity|].
  split.
  { intros i j Hi Hj Hij. cbn [SignDkls.in_n ex_inp] in Hi, Hj.
    assert (Hc : ((i = 0 /\ j = 1) \/ (i = 1 /\ j = 0))%nat) by lia.
    destruct Hc as [[-> ->]|[-> ->]]; split; apply zpT_eq; vm_compute; reflexivity. }
  split; [|reflexivity].
  split; [apply zpT7_neq; vm_compute; discriminate|].
  split; [apply zpT7_neq; vm_compute; discriminate|].
  split.
  { intros j Hj. cbn [SignDkls.in_n ex_inp] in Hj.
    assert (Hc : (j = 0 \/ j = 1)%nat) by lia.
    destruct Hc as [->| ->]; split; apply zpT7_neq; vm_compute; discriminate. }
  split; apply zpT7_neq; vm_compute; discriminate.
Qed.

(* Lindell17: q = 7, N = 5000, two share components *)
Definition ex17 : SignLindell17.inputs := SignLindell17.mk_inputs 2 3 [4; 10] [1; 2] 5 6 20.
Lemma lindell17_nonvacuous :
  prime 7 /\ (0 < 7)%Z /\ (0 <= SignLindell17.in_rho ex17 < 7 * 7)%Z /\
  Forall (fun x => 0 <= x < 3 * 7)%Z (SignLindell17.in_x1 ex17) /\
  SignLindell17.in_x1 ex17 <> [] /\
  length (SignLindell17.in_lam ex17) = length (SignLindell17.in_x1 ex17) /\
  SignLindell17.bound_ok 7 5000 (Z.of_nat (length (SignLindell17.in_x1 ex17))) = true /\
  in_Zp 7 (SignLindell17.in_k1 ex17) /\ in_Zp 7 (SignLindell17.in_k2 ex17) /\
  SignLindell17.in_k1 ex17 <> 0%Z /\ SignLindell17.in_k2 ex17 <> 0%Z.
Proof.
  split; [exact prime_7|]. split; [lia|]. split; [cbn; lia|].
  split; [repeat constructor; cbn; lia|]. split; [discriminate|]. split; [reflexivity|].
  split; [vm_compute; reflexivity|]. unfold in_Zp. cbn. repeat split; lia.
Qed.

(* Boldyreva: two holders, the second owns two rows; 2*3 + (1*4 + 1*4) = 14 = 0 ... use 1*3 + (1*1 + 1*1) = 5 *)
Definition exh : list SignBls.holder :=
  [SignBls.mk_holder [z7 3] [z7 1]; SignBls.mk_holder [z7 1; z7 1] [z7 1; z7 1]].
Lemma boldyreva_nonvacuous :
  SignBls.wf_holders exh /\ SignBls.recon K7 exh = z7 5 /\ z7 5 <> f0 K7 /\
  (forall h, In h exh -> forall l, In l (SignBls.h_rows h) -> l <> f0 K7).
Proof.
  split; [repeat constructor; discriminate|].
  split; [apply zpT_eq; vm_compute; reflexivity|].
  split; [apply zpT7_neq; vm_compute; discriminate|].
  intros h [<-|[<-|[]]] l Hl; cbn in Hl.
  - destruct Hl as [<-|[]]. apply zpT7_neq; vm_compute; discriminate.
  - destruct Hl as [<-|[<-|[]]]; apply zpT7_neq; vm_compute; discriminate.
Qed.
