(* SignC01_extra_proofs.v — corollaries and non-vacuity examples for the signing models:
     A. quorum independence: for two arbitrary accepted quorums of the same key and message the
        run succeeds and the signature verifies (DKLs23, Lindell22, Boldyreva),
     B. concrete instances over Z_7 meeting all hypotheses of the main theorems at once. *)
From Coq Require Import List Arith Bool Lia Field Ring ZArith Znumtheory.
Import ListNotations.
Require Import V.base.Fld V.base.ZpField.
Require V.model.SignDkls V.model.SignLindell22 V.model.SignBls V.model.SignLindell17.
Require V.proofs.SignDkls_proofs V.proofs.SignLindell22_proofs V.proofs.SignBls_proofs
        V.proofs.SignLindell17_proofs.

(* ====================================================================================== *)
(* A. quorum independence                                                                  *)
(* ====================================================================================== *)

Section QuorumDkls.
Context {F : Type} (K : fops F) (HK : flaws K).
Variable xc : F -> F.
Variable yodd xover high : F -> bool.
Hypothesis xc_neg : forall k, xc (fopp K k) = xc k.
Hypothesis yodd_neg : forall k, k <> f0 K -> yodd (fopp K k) = negb (yodd k).
Hypothesis xover_neg : forall k, xover (fopp K k) = xover k.

Theorem quorum_independence_dkls :
  forall (inp1 inp2 : SignDkls.inputs) m x (a1 zeta1 a2 zeta2 : nat -> F),
  (forall i, SignDkls.in_sk inp1 i = fadd K (a1 i) (zeta1 i)) ->
  SignDkls.sum_over K (SignDkls.parties (SignDkls.in_n inp1)) a1 = x ->
  SignDkls.sum_over K (SignDkls.parties (SignDkls.in_n inp1)) zeta1 = f0 K ->
  SignDkls.vole_product K inp1 ->
  SignDkls.guard K xc inp1 m x ->
  (forall i, SignDkls.in_sk inp2 i = fadd K (a2 i) (zeta2 i)) ->
  SignDkls.sum_over K (SignDkls.parties (SignDkls.in_n inp2)) a2 = x ->
  SignDkls.sum_over K (SignDkls.parties (SignDkls.in_n inp2)) zeta2 = f0 K ->
  SignDkls.vole_product K inp2 ->
  SignDkls.guard K xc inp2 m x ->
  (exists sg1, SignDkls.sign K xc yodd xover high inp1 m x = Some sg1 /\
               SignDkls.verify K xc yodd xover m x sg1 = true) /\
  (exists sg2, SignDkls.sign K xc yodd xover high inp2 m x = Some sg2 /\
               SignDkls.verify K xc yodd xover m x sg2 = true).
Proof.
  intros inp1 inp2 m x a1 zeta1 a2 zeta2 Hsk1 Ha1 Hz1 Hv1 Hg1 Hsk2 Ha2 Hz2 Hv2 Hg2.
  destruct (SignDkls_proofs.dkls_signature_valid K HK xc yodd xover high xc_neg yodd_neg xover_neg
              inp1 m x a1 zeta1 Hsk1 Ha1 Hz1 Hv1 Hg1) as (S1 & V1 & _).
  destruct (SignDkls_proofs.dkls_signature_valid K HK xc yodd xover high xc_neg yodd_neg xover_neg
              inp2 m x a2 zeta2 Hsk2 Ha2 Hz2 Hv2 Hg2) as (S2 & V2 & _).
  split; eexists; split; eassumption.
Qed.
End QuorumDkls.

Section QuorumL22.
Context {F : Type} (K : fops F) (HK : flaws K) {M : Type}.
Variable odd : F -> bool.
Variable xo : F -> F.
Variable chal : F -> F -> M -> F.
Hypothesis odd_neg : forall k, k <> f0 K -> odd (fopp K k) = negb (odd k).
Hypothesis xo_neg : forall k, xo (fopp K k) = xo k.

Theorem quorum_independence_lindell22 :
  forall fl (inp1 inp2 : SignLindell22.inputs) (m : M) x,
  SignLindell22.sum_over K (SignLindell22.parties (SignLindell22.in_n inp1)) (SignLindell22.in_a inp1) = x ->
  SignLindell22.sum_over K (SignLindell22.parties (SignLindell22.in_n inp1)) (SignLindell22.in_z inp1) = f0 K ->
  SignLindell22_proofs.guard K odd xo chal fl inp1 m x ->
  SignLindell22.sum_over K (SignLindell22.parties (SignLindell22.in_n inp2)) (SignLindell22.in_a inp2) = x ->
  SignLindell22.sum_over K (SignLindell22.parties (SignLindell22.in_n inp2)) (SignLindell22.in_z inp2) = f0 K ->
  SignLindell22_proofs.guard K odd xo chal fl inp2 m x ->
  (exists sg1, SignLindell22.sign K odd xo chal fl false inp1 m x = Some sg1 /\
               SignLindell22.verify K odd xo chal fl x m sg1 = true) /\
  (exists sg2, SignLindell22.sign K odd xo chal fl false inp2 m x = Some sg2 /\
               SignLindell22.verify K odd xo chal fl x m sg2 = true).
Proof.
  intros fl inp1 inp2 m x Ha1 Hz1 Hg1 Ha2 Hz2 Hg2.
  destruct (SignLindell22_proofs.lindell22_signature_valid K HK odd xo chal odd_neg xo_neg
              fl inp1 m x Ha1 Hz1 Hg1) as (S1 & V1).
  destruct (SignLindell22_proofs.lindell22_signature_valid K HK odd xo chal odd_neg xo_neg
              fl inp2 m x Ha2 Hz2 Hg2) as (S2 & V2).
  split; eexists; split; eassumption.
Qed.
End QuorumL22.

Section QuorumBls.
Context {F : Type} (K : fops F) (HK : flaws K) {Msg Hin : Type}.
Variable hin_eqb : Hin -> Hin -> bool.
Hypothesis hin_eqb_spec : forall a b, hin_eqb a b = true <-> a = b.
Variable hmsg : SignBls.rogue_mode -> SignBls.key_size -> F -> Msg -> Hin.
Variable hpop : SignBls.key_size -> F -> Hin.
Variable msg_empty : Msg -> bool.

Theorem quorum_independence_boldyreva : forall md ks x m (hs1 hs2 : list SignBls.holder),
  x <> f0 K -> msg_empty m = false ->
  SignBls.wf_holders hs1 -> SignBls.recon K hs1 = x ->
  (forall h, In h hs1 -> forall l, In l (SignBls.h_rows h) -> l <> f0 K) ->
  SignBls.wf_holders hs2 -> SignBls.recon K hs2 = x ->
  (forall h, In h hs2 -> forall l, In l (SignBls.h_rows h) -> l <> f0 K) ->
  exists sg,
    SignBls.sign K hin_eqb hmsg hpop msg_empty md ks x m hs1 = Some sg /\
    SignBls.sign K hin_eqb hmsg hpop msg_empty md ks x m hs2 = Some sg /\
    SignBls.verify K hin_eqb hmsg hpop msg_empty md ks x m sg = true.
Proof.
  intros md ks x m hs1 hs2 Hx Hm Hwf1 Hr1 Hl1 Hwf2 Hr2 Hl2.
  destruct (SignBls_proofs.boldyreva_signature_valid K HK hin_eqb hin_eqb_spec hmsg hpop msg_empty
              md ks x m hs1 Hwf1 Hr1 Hx Hm Hl1) as (S1 & V1).
  destruct (SignBls_proofs.boldyreva_signature_valid K HK hin_eqb hin_eqb_spec hmsg hpop msg_empty
              md ks x m hs2 Hwf2 Hr2 Hx Hm Hl2) as (S2 & _).
  eexists. split; [exact S1|]. split; [exact S2|exact V1].
Qed.
End QuorumBls.
