(* Echo_proofs.v — agreement of echo broadcast (model/Echo.v): two honest parties that
   both accept hold the same payload for every other sender, whatever that sender (or the
   network, for round 1) did.  The digest is an injective constructor (DESIGN §3 L4). *)
From Coq Require Import List NArith Bool Lia.
Import ListNotations.
Require Import V.base.Bytes V.model.Router V.proofs.Router_proofs V.model.Echo.

Lemma digest_eqb_eq a b : digest_eqb a b = true <-> a = b.
Proof.
  destruct a, b; cbn [digest_eqb]; split; intros H; try reflexivity; try discriminate.
  - apply beqb_eq in H. subst. reflexivity.
  - injection H as ->. apply beqb_refl.
Qed.

Lemma others_In self quorum id : In id (others self quorum) <-> In id quorum /\ id <> self.
Proof.
  unfold others. rewrite filter_In. rewrite negb_true_iff, N.eqb_neq. tauto.
Qed.

(* ---- round 2 ------------------------------------------------------------------------------- *)

Lemma fold_aset_lookup (got : list (N * bytes)) (st : estate) id :
  (forall p p', In (id, p) got -> In (id, p') got -> p = p') ->
  nlookup id (fold_left (fun acc ip => aset N.eqb (fst ip) (snd ip) acc) got st) =
  match nlookup id got with Some p => Some p | None => nlookup id st end.
Proof.
  revert st. induction got as [|[k v] got IH]; intros st Huniq; cbn [fold_left alookup fst snd]; [reflexivity|].
  rewrite IH by (intros p p' H1 H2; apply Huniq; right; assumption).
  destruct (N.eqb id k) eqn:E.
  - apply N.eqb_eq in E. subst k. destruct (nlookup id got) eqn:Eg.
    + f_equal. apply Huniq; [right; apply (alookup_Some_In N.eqb N.eqb_eq); exact Eg|left; reflexivity].
    + apply (alookup_aset_eq N.eqb N.eqb_eq).
  - destruct (nlookup id got); [reflexivity|].
    apply (alookup_aset_ne N.eqb N.eqb_eq). apply N.eqb_neq. exact E.
Qed.

Lemma collect_uniq froms pl res id p p' :
  collect froms pl = Some res -> In (id, p) res -> In (id, p') res -> p = p'.
Proof.
  intros Hc H1 H2. destruct (collect_In _ _ _ _ _ Hc H1) as [E1 _]. destruct (collect_In _ _ _ _ _ Hc H2) as [E2 _].
  congruence.
Qed.

Lemma lookup_map_hash (got : list (N * bytes)) id :
  nlookup id (map (fun ip => (fst ip, echo_hash (snd ip))) got) = option_map echo_hash (nlookup id got).
Proof.
  induction got as [|[k v] got IH]; cbn [map alookup fst snd option_map]; [reflexivity|].
  destruct (N.eqb id k); [reflexivity|exact IH].
Qed.

Lemma lookup_map_const {A} (ids : list N) (x : A) id :
  nlookup id (map (fun i => (i, x)) ids) = if mem id ids then Some x else None.
Proof.
  induction ids as [|k ids IH]; cbn [map alookup]; [reflexivity|].
  unfold mem. cbn [existsb]. fold (mem id ids). destruct (N.eqb id k); [reflexivity|exact IH].
Qed.

(* what an accepting round 2 leaves behind: for every other party [id] the payload received
   from it is stored and its digest is in the table sent to every other party *)
Lemma round2_spec self quorum st r1 st' outs id dst :
  round2 self quorum st r1 = Some (st', outs) ->
  In id quorum -> id <> self -> In dst quorum -> dst <> self ->
  exists p table, nlookup id r1 = Some p /\ stored st' id = p /\
    nlookup dst outs = Some table /\ echoed table id = DHash p.
Proof.
  unfold round2. destruct (collect (others self quorum) r1) as [got|] eqn:Ec; [|discriminate].
  intros H Hid Hne Hdst Hdne. injection H as <- <-.
  assert (Hin : In id (others self quorum)) by (apply others_In; split; assumption).
  pose proof (collect_lookup _ _ _ id Ec Hin) as Hl.
  destruct (nlookup id r1) as [p|] eqn:Ep.
  2: { exfalso. assert (Hn : collect (others self quorum) r1 <> None) by (rewrite Ec; discriminate).
       apply (proj1 (collect_Some_iff _ _) Hn id Hin). exact Ep. }
  exists p, (map (fun ip => (fst ip, echo_hash (snd ip))) got). split; [reflexivity|]. split; [|split].
  - unfold stored. rewrite fold_aset_lookup by (intros; eapply collect_uniq; eauto). rewrite Hl. reflexivity.
  - rewrite lookup_map_const. replace (mem dst (others self quorum)) with true; [reflexivity|].
    symmetry. apply mem_In. apply others_In. split; assumption.
  - unfold echoed. rewrite lookup_map_hash, Hl. reflexivity.
Qed.

(* ---- round 3 ------------------------------------------------------------------------------- *)

Lemma check_echoes_spec self id echoers msg r2 e :
  check_echoes self id echoers msg r2 = true -> In e echoers -> e <> self -> e <> id ->
  exists m, nlookup e r2 = Some m /\ echoed m id = DHash msg.
Proof.
  induction echoers as [|x rest IH]; cbn [check_echoes]; intros H Hin Hs Hi; [destruct Hin|].
  destruct (N.eqb x self || N.eqb x id) eqn:Ex.
  - destruct Hin as [->|Hin]; [|apply IH; assumption].
    exfalso. apply orb_true_iff in Ex as [Ex|Ex]; apply N.eqb_eq in Ex; congruence.
  - destruct (nlookup x r2) as [m|] eqn:Em; [|discriminate].
    apply andb_true_iff in H as [H1 H2].
    destruct Hin as [->|Hin]; [|apply IH; assumption].
    exists m. split; [exact Em|]. apply digest_eqb_eq in H1. unfold echo_hash in H1. symmetry. exact H1.
Qed.

Lemma round3_loop_spec self quorum ids st r2 res id :
  round3_loop self quorum ids st r2 = Some res -> In id ids -> id <> self ->
  nlookup id res = Some (stored st id) /\ check_echoes self id quorum (stored st id) r2 = true.
Proof.
  revert res. induction ids as [|x rest IH]; cbn [round3_loop]; intros res H Hin Hne; [destruct Hin|].
  destruct (N.eqb x self) eqn:Exs.
  - destruct Hin as [->|Hin]; [apply N.eqb_eq in Exs; congruence|]. apply IH; assumption.
  - destruct (check_echoes self x quorum (stored st x) r2) eqn:Ech; [|discriminate].
    destruct (round3_loop self quorum rest st r2) as [res'|] eqn:Er; [|discriminate].
    injection H as <-. cbn [alookup]. destruct (N.eqb id x) eqn:Eix.
    + apply N.eqb_eq in Eix. subst x. split; [reflexivity|exact Ech].
    + destruct Hin as [->|Hin]; [rewrite N.eqb_refl in Eix; discriminate|]. apply (IH res'); auto.
Qed.

(* ---- agreement ------------------------------------------------------------------------------ *)

Lemma echo_agreement quorum P Q S stP stQ r1P r1Q stP' stQ' outP outQ r2P r2Q resP resQ :
  In P quorum -> In Q quorum -> In S quorum -> P <> Q -> S <> P -> S <> Q ->
  round2 P quorum stP r1P = Some (stP', outP) ->
  round2 Q quorum stQ r1Q = Some (stQ', outQ) ->
  (* P received Q's round-2 message exactly as Q sent it (exact routing, C11_recv_exact) *)
  nlookup Q r2P = nlookup P outQ ->
  round3 P quorum stP' r2P = Some resP ->
  round3 Q quorum stQ' r2Q = Some resQ ->
  exists m, nlookup S resP = Some m /\ nlookup S resQ = Some m.
Proof.
  intros HP HQ HS HPQ HSP HSQ H2P H2Q Hroute H3P H3Q.
  unfold round3 in *.
  destruct (round3_loop_spec _ _ _ _ _ _ S H3P HS HSP) as [HresP HchkP].
  destruct (round3_loop_spec _ _ _ _ _ _ S H3Q HS HSQ) as [HresQ _].
  (* P compared Q's echo of S with the digest of what P holds from S *)
  destruct (check_echoes_spec _ _ _ _ _ Q HchkP HQ (not_eq_sym HPQ) (not_eq_sym HSQ)) as (m & Hm & Hd).
  (* Q's echo of S is the digest of what Q holds from S *)
  destruct (round2_spec _ _ _ _ _ _ S P H2Q HS HSQ HP HPQ) as (p & table & _ & Hst & Ht & He).
  rewrite Hroute, Ht in Hm. injection Hm as <-. rewrite He in Hd. injection Hd as Hd.
  exists (stored stP' S). split; [exact HresP|]. rewrite HresQ. rewrite Hst, Hd. reflexivity.
Qed.

(* validity: what an accepting party holds from an honest sender is what it received from it *)
Lemma echo_holds_received quorum P S stP r1P stP' outP r2P resP :
  In P quorum -> In S quorum -> S <> P ->
  round2 P quorum stP r1P = Some (stP', outP) ->
  round3 P quorum stP' r2P = Some resP ->
  nlookup S resP = nlookup S r1P.
Proof.
  intros HP HS HSP H2 H3. unfold round3 in H3.
  destruct (round3_loop_spec _ _ _ _ _ _ S H3 HS HSP) as [Hres _].
  destruct (round2_spec _ _ _ _ _ _ S S H2 HS HSP HS HSP) as (p & table & Hp & Hst & _).
  rewrite Hres, Hp, Hst. reflexivity.
Qed.
