(* DetCol_proofs.v — column theory of the Laplace determinant: adjacent column swaps negate,
   cofactor expansion along an arbitrary column; Birkhoff interpolation in the exponent
   commutes with lifting. *)
From Coq Require Import List Arith Bool Lia Field Ring NArith ZArith.
Import ListNotations.
Require Import V.base.Fld V.model.LinAlg V.model.Poly V.model.Interp.
Require Import V.proofs.LinAlg_proofs V.proofs.Poly_proofs V.proofs.Interp_proofs V.proofs.Birkhoff_proofs V.proofs.Det_proofs.

Section DetColProofs.
Context {F : Type} (K : fops F) (HK : flaws K).
Add Field Kfield_detcol : (fl_theory K HK).

Local Notation "0" := (f0 K).
Local Notation "1" := (f1 K).
Local Infix "+" := (fadd K).
Local Infix "*" := (fmul K).
Local Infix "-" := (fsub K).
Local Notation "'bsum'" := (bsum K).
Local Notation "'ldetf'" := (ldetf K).
Local Notation "'sgn'" := (sgn K).

Lemma bsum_S : forall n g, bsum (S n) g = bsum n g + g n.
Proof. reflexivity. Qed.

(* Σ_{a<m} h (skip i a) a = Σ_{k<m+1, k<>i} h k (unskip i k) *)
Lemma bsum_skip : forall m i (h : nat -> nat -> F), i < S m ->
  bsum m (fun a => h (skip i a) a) = bsum (S m) (fun k => if Nat.eqb k i then 0 else h k (unskip i k)).
Proof.
  induction m as [|m IH]; intros i h Hi.
  - assert (i = O) by lia. subst i. cbn [LinAlg_proofs.bsum Nat.eqb]. ring.
  - destruct (Nat.eq_dec i (S m)) as [->|Hne].
    + (* i is the last index: skip i a = a for all a < S m *)
      rewrite (bsum_S (S m)). rewrite Nat.eqb_refl.
      rewrite (bsum_ext K (S m) (fun k => if Nat.eqb k (S m) then 0 else h k (unskip (S m) k)) (fun a => h (skip (S m) a) a)); [ring|].
      intros k Hk. destruct (Nat.eqb_spec k (S m)); [lia|].
      unfold skip, unskip. destruct (Nat.ltb_spec k (S m)); [reflexivity|lia].
    + rewrite (bsum_S m), (bsum_S (S m)).
      rewrite (IH i h) by lia.
      f_equal. destruct (Nat.eqb_spec (S m) i); [lia|].
      unfold skip, unskip. destruct (Nat.ltb_spec m i); [lia|]. destruct (Nat.ltb_spec (S m) i); [lia|].
      reflexivity.
Qed.

Definition swap01 (j : nat) : nat := match j with O => 1%nat | S O => O | _ => j end.

(* removing rows i and k (i <> k), in either order, leaves the same rows *)
Lemma skip_skip_comm : forall i k p, i <> k ->
  skip i (skip (unskip i k) p) = skip k (skip (unskip k i) p).
Proof.
  intros i k p H. unfold skip, unskip.
  destruct (Nat.ltb_spec k i); destruct (Nat.ltb_spec i k); try lia.
  - destruct (Nat.ltb_spec p k); destruct (Nat.ltb_spec p (pred i));
      repeat match goal with |- context [Nat.ltb ?a ?b] => destruct (Nat.ltb_spec a b) end; lia.
  - destruct (Nat.ltb_spec p (pred k)); destruct (Nat.ltb_spec p i);
      repeat match goal with |- context [Nat.ltb ?a ?b] => destruct (Nat.ltb_spec a b) end; lia.
Qed.

Lemma sgn_mul_unskip : forall i k, i <> k ->
  sgn i * sgn (unskip i k) = fopp K (sgn k * sgn (unskip k i)).
Proof.
  intros i k H. unfold unskip.
  destruct (Nat.ltb_spec k i); destruct (Nat.ltb_spec i k); try lia.
  - destruct i as [|i]; [lia|]. cbn [pred]. rewrite (sgn_S K HK). ring.
  - destruct k as [|k]; [lia|]. cbn [pred]. rewrite (sgn_S K HK). ring.
Qed.

(* swapping the first two columns negates *)
Lemma ldetf_swap_col01 : forall n f, ldetf n (fun i j => f i (swap01 j)) = fopp K (ldetf n f) \/ n < 2.
Proof.
  intros n f. destruct n as [|[|m]]; [right; lia|right; lia|left].
  (* expand twice *)
  assert (Hexp : forall g, ldetf (S (S m)) g =
            bsum (S (S m)) (fun i => bsum (S (S m)) (fun k =>
              if Nat.eqb k i then 0
              else sgn i * sgn (unskip i k) * g i O * g k 1%nat *
                   ldetf m (fun p q => g (skip i (skip (unskip i k) p)) (S (S q)))))).
  { intros g. cbn [Det_proofs.ldetf]. apply (bsum_ext K). intros i Hi.
    rewrite (bsum_mul_l K HK).
    rewrite <- (bsum_skip (S m) i (fun k a => sgn i * sgn a * g i O * g k 1%nat *
                   ldetf m (fun p q => g (skip i (skip a p)) (S (S q))))) by auto.
    apply (bsum_ext K). intros a Ha. unfold fminor.
    ring_simplify. 
    replace (unskip i (skip i a)) with a; [ring|].
    unfold skip, unskip. destruct (Nat.ltb_spec a i).
    - destruct (Nat.ltb_spec a i); [reflexivity|lia].
    - destruct (Nat.ltb_spec (S a) i); [lia|reflexivity]. }
  rewrite (Hexp f), (Hexp (fun i j => f i (swap01 j))). cbn [swap01].
  rewrite (bsum_exchange K HK).
  assert (Hopp : forall n0 g, fopp K (bsum n0 g) = bsum n0 (fun i => fopp K (g i))).
  { intros n0 g. assert (fopp K (bsum n0 g) = fopp K 1 * bsum n0 g) as -> by ring.
    rewrite (bsum_mul_l K HK). apply (bsum_ext K). intros; ring. }
  rewrite Hopp. apply (bsum_ext K). intros i Hi. rewrite Hopp. apply (bsum_ext K). intros k Hk.
  rewrite (Nat.eqb_sym i k). destruct (Nat.eqb_spec k i) as [->|Hne]; [ring|].
  rewrite (ldetf_ext K m (fun p q => f (skip k (skip (unskip k i) p)) (S (S q)))
                         (fun p q => f (skip i (skip (unskip i k) p)) (S (S q))))
    by (intros; rewrite (skip_skip_comm i k) by auto; reflexivity).
  rewrite (sgn_mul_unskip i k) by auto. ring.
Qed.


(* swapping two adjacent columns negates *)
Definition cswap (j q : nat) : nat := if Nat.eqb q j then S j else if Nat.eqb q (S j) then j else q.

Lemma ldetf_swap_col_adj : forall j n f, S j < n ->
  ldetf n (fun i q => f i (cswap j q)) = fopp K (ldetf n f).
Proof.
  induction j as [|j IH]; intros n f Hj.
  - destruct (ldetf_swap_col01 n f) as [H|H]; [|lia].
    rewrite <- H. apply (ldetf_ext K). intros i q _ _. f_equal.
    unfold cswap, swap01. destruct q as [|[|q]]; reflexivity.
  - destruct n as [|m]; [lia|]. cbn [Det_proofs.ldetf].
    assert (Hopp : forall n0 g, fopp K (bsum n0 g) = bsum n0 (fun i => fopp K (g i))).
    { intros n0 g. assert (fopp K (bsum n0 g) = fopp K 1 * bsum n0 g) as -> by ring.
      rewrite (bsum_mul_l K HK). apply (bsum_ext K). intros; ring. }
    rewrite Hopp. apply (bsum_ext K). intros i Hi.
    rewrite (ldetf_ext K m (fminor i (fun i0 q => f i0 (cswap (S j) q))) (fun a q => fminor i f a (cswap j q))).
    + rewrite (IH m (fminor i f)) by lia. unfold cswap at 1. cbn [Nat.eqb]. ring.
    + intros a b _ _. unfold fminor. f_equal. unfold cswap. cbn [Nat.eqb].
      destruct (Nat.eqb b j); [reflexivity|]. destruct (Nat.eqb b (S j)); reflexivity.
Qed.

(* cofactor expansion along an arbitrary column *)
Definition fminor2 (r c : nat) (f : nat -> nat -> F) : nat -> nat -> F := fun a b => f (skip r a) (skip c b).

Theorem ldetf_col_expand : forall c n f, c < S n ->
  ldetf (S n) f = bsum (S n) (fun r => sgn r * sgn c * f r c * ldetf n (fminor2 r c f)).
Proof.
  induction c as [|c IH]; intros n f Hc.
  - cbn [Det_proofs.ldetf]. apply (bsum_ext K). intros r Hr.
    rewrite (ldetf_ext K n (fminor2 r O f) (fminor r f)) by reflexivity.
    assert (sgn O = 1) as -> by reflexivity. ring.
  - pose proof (ldetf_swap_col_adj c (S n) f ltac:(lia)) as Hsw.
    assert (ldetf (S n) f = fopp K (ldetf (S n) (fun i q => f i (cswap c q)))) as -> by (rewrite Hsw; ring).
    rewrite (IH n (fun i q => f i (cswap c q))) by lia.
    assert (Hopp : forall n0 g, fopp K (bsum n0 g) = bsum n0 (fun i => fopp K (g i))).
    { intros n0 g. assert (fopp K (bsum n0 g) = fopp K 1 * bsum n0 g) as -> by ring.
      rewrite (bsum_mul_l K HK). apply (bsum_ext K). intros; ring. }
    rewrite Hopp. apply (bsum_ext K). intros r Hr.
    rewrite (ldetf_ext K n (fminor2 r c (fun i q => f i (cswap c q))) (fminor2 r (S c) f)).
    + rewrite (sgn_S K HK c). unfold cswap at 1. rewrite Nat.eqb_refl. ring.
    + intros a b _ _. unfold fminor2. f_equal. unfold cswap, skip.
      destruct (Nat.ltb_spec b c); destruct (Nat.ltb_spec b (S c)); try lia;
        repeat match goal with |- context [Nat.eqb ?x ?y] => destruct (Nat.eqb_spec x y) end; lia.
Qed.

(* ---- to the coded Minor / SetColumn / Determinant ------------------------------------------------------ *)

Lemma nth_remove_nth : forall {A} (l : list A) i a d, nth a (remove_nth i l) d = nth (skip i a) l d.
Proof.
  intros A l i a d. unfold remove_nth, skip.
  destruct (Nat.ltb_spec a i).
  - destruct (Nat.le_gt_cases (length l) a) as [Hl|Hl].
    + rewrite !nth_overflow; auto. rewrite app_length, firstn_length, skipn_length. lia.
    + rewrite app_nth1 by (rewrite firstn_length; lia).
      revert a i H Hl. induction l as [|h t IHl]; intros a i H Hl; cbn in Hl; [lia|].
      destruct i; [lia|]. destruct a; cbn [firstn nth]; auto. apply IHl; lia.
  - destruct (Nat.le_gt_cases (length l) i) as [Hl|Hl].
    + rewrite firstn_all2, skipn_all2, app_nil_r by lia. rewrite !nth_overflow; auto; lia.
    + rewrite app_nth2 by (rewrite firstn_length; lia). rewrite firstn_length.
      replace (Nat.min i (length l)) with i by lia.
      rewrite nth_skipn_add. f_equal. lia.
Qed.

Lemma remove_nth_length_lt : forall {A} (l : list A) i, i < length l -> length (remove_nth i l) = pred (length l).
Proof.
  intros A l i H. unfold remove_nth. rewrite app_length, firstn_length, skipn_length. lia.
Qed.

Lemma In_remove_nth_sub : forall {A} (l : list A) i x, In x (remove_nth i l) -> In x l.
Proof.
  intros A l; induction l as [|h t IH]; intros i x H.
  - unfold remove_nth in H. rewrite firstn_nil, skipn_nil in H. destruct H.
  - destruct i as [|i].
    + unfold remove_nth in H. cbn [firstn skipn app] in H. now right.
    + unfold remove_nth in H. cbn [firstn skipn app In] in H. destruct H as [H|H]; [now left|].
      right. apply (IH i). exact H.
Qed.

Lemma minor_spec : forall n r c (V : @matrix F), wf_matrix n n V -> 1 < n -> r < n -> c < n ->
  exists m, minor r c V = Some m /\ wf_matrix (pred n) (pred n) m /\
            forall a b, entry K a b m = entry K (skip r a) (skip c b) V.
Proof.
  intros n r c V Hwf Hn Hr Hc. pose proof Hwf as [HL HF].
  unfold minor. rewrite (ncols_wf n n V Hwf ltac:(lia)). unfold nrows. rewrite HL.
  replace (Nat.ltb r n) with true by (symmetry; apply Nat.ltb_lt; auto).
  replace (Nat.ltb c n) with true by (symmetry; apply Nat.ltb_lt; auto).
  replace (Nat.ltb 1 n) with true by (symmetry; apply Nat.ltb_lt; auto). cbn [andb].
  eexists. split; [reflexivity|]. split.
  - split.
    + rewrite map_length, remove_nth_length_lt by lia. lia.
    + apply Forall_forall. intros x Hx. apply in_map_iff in Hx. destruct Hx as [rw [<- Hin]].
      assert (In rw V) by (eapply In_remove_nth_sub; eauto).
      rewrite Forall_forall in HF. rewrite remove_nth_length_lt by (rewrite HF; auto). now rewrite HF.
  - intros a b. unfold entry.
    destruct (Nat.ltb_spec a (pred n)).
    + rewrite (nth_indep _ [] (remove_nth c [])) by (rewrite map_length, remove_nth_length_lt; lia).
      rewrite (map_nth (remove_nth c)). rewrite nth_remove_nth. f_equal. apply nth_remove_nth.
    + rewrite (nth_overflow (map _ _)) by (rewrite map_length, remove_nth_length_lt; lia).
      rewrite (nth_overflow V); [destruct b; destruct (skip c _); reflexivity|].
      unfold skip. destruct (Nat.ltb_spec a r); lia.
Qed.

Lemma sgn_add : forall r c, sgn r * sgn c = if Nat.even (r + c) then 1 else fopp K 1.
Proof.
  intros r c. unfold Det_proofs.sgn. rewrite Nat.even_add.
  destruct (Nat.even r); destruct (Nat.even c); cbn [Bool.eqb]; ring.
Qed.

(* Σ_r y_r (−1)^{r+c} det(minor r c V) = det(V with column c := ys) *)
Theorem cofactor_column : forall n c (V Vc : @matrix F) ys, wf_matrix n n V -> 1 < n -> c < n -> length ys = n ->
  set_column c ys V = Some Vc ->
  determinant K Vc =
  bsum n (fun r => nth r ys 0 * match minor r c V with
                                | Some m => if Nat.even (r + c) then determinant K m else fopp K (determinant K m)
                                | None => 0
                                end).
Proof.
  intros n c V Vc ys Hwf Hn Hc Hys Hset.
  destruct (set_column_spec K n c ys V Hwf ltac:(lia) Hc Hys) as (Vc' & Hset' & HwVc & HeVc).
  rewrite Hset in Hset'. inversion Hset'; subst Vc'; clear Hset'.
  rewrite (det_value K HK n Vc HwVc). unfold ldet.
  destruct n as [|n']; [lia|].
  rewrite (ldetf_col_expand c n' _ Hc). apply (bsum_ext K). intros r Hr.
  rewrite HeVc by auto. rewrite Nat.eqb_refl.
  destruct (minor_spec (S n') r c V Hwf Hn Hr Hc) as (m & Hm & Hwm & Hem). rewrite Hm.
  cbn [pred] in Hwm.
  rewrite (det_value K HK n' m Hwm). unfold ldet.
  rewrite (ldetf_ext K n' (fminor2 r c (fun i j => entry K i j Vc)) (fun a b => entry K a b m)).
  - rewrite sgn_add. destruct (Nat.even (r + c)); ring.
  - intros a b Ha Hb. unfold fminor2. rewrite Hem.
    assert (Hsa : skip r a < S n') by (apply skip_lt; auto).
    assert (Hsb : skip c b < S n') by (apply skip_lt; auto).
    rewrite HeVc by auto.
    replace (Nat.eqb (skip c b) c) with false; auto.
    symmetry. apply Nat.eqb_neq. apply skip_neq.
Qed.


(* ---- expansion along the first row; the determinant of the transpose ---------------------------------- *)

Definition fdelta (j q : nat) : F := if Nat.eqb j q then 1 else 0.
Lemma fdelta_zero_comb : forall q, 0 * fdelta O q + 0 * fdelta O q = 0. Proof. intros; ring. Qed.

Lemma ldetf_row_sum : forall N n r f (u : nat -> F), r < n ->
  ldetf n (setrow r (fun q => bsum N (fun j => u j * fdelta j q)) f) =
  bsum N (fun j => u j * ldetf n (setrow r (fdelta j) f)).
Proof.
  induction N as [|N IH]; intros n r f u Hr.
  - cbn [LinAlg_proofs.bsum].
    rewrite (ldetf_ext K n _ (setrow r (fun q => 0 * fdelta O q + 0 * fdelta O q) f)).
    + rewrite (ldetf_row_linear K HK) by auto. ring.
    + intros i q _ _. unfold setrow. destruct (Nat.eqb i r); auto. symmetry. apply fdelta_zero_comb.
  - rewrite bsum_S.
    rewrite (ldetf_ext K n _ (setrow r (fun q => 1 * (fun q0 => bsum N (fun j => u j * fdelta j q0)) q + u N * fdelta N q) f)).
    + rewrite (ldetf_row_linear K HK) by auto. rewrite IH by auto. ring.
    + intros i q _ _. unfold setrow. destruct (Nat.eqb i r); auto. rewrite bsum_S. ring.
Qed.

Lemma ldetf_unit_row0 : forall n j f, j < S n ->
  ldetf (S n) (setrow O (fdelta j) f) = sgn j * ldetf n (fminor2 O j f).
Proof.
  intros n j f Hj. set (W := setrow O (fdelta j) f).
  rewrite <- (ldetf_eliminate K HK (S n) O (fun i => W i j) W) by lia.
  rewrite (ldetf_col_expand j n _ Hj).
  rewrite (bsum_shift K HK). rewrite (bsum_zero K HK).
  - unfold W, setrow, fdelta. cbn [Nat.eqb]. rewrite Nat.eqb_refl.
    assert (sgn O = 1) as -> by reflexivity.
    rewrite (ldetf_ext K n _ (fminor2 O j f)); [ring|].
    intros a b _ _. unfold fminor2, skip.
    replace (Nat.ltb a O) with false by (symmetry; apply Nat.ltb_ge; lia).
    replace (Nat.eqb (S a) O) with false by reflexivity.
    destruct (Nat.ltb_spec b j).
    + replace (Nat.eqb j b) with false by (symmetry; apply Nat.eqb_neq; lia). ring.
    + replace (Nat.eqb j (S b)) with false by (symmetry; apply Nat.eqb_neq; lia). ring.
  - intros i Hi. unfold W, setrow, fdelta. cbn [Nat.eqb]. rewrite Nat.eqb_refl. ring.
Qed.

Theorem ldetf_row_expand : forall n f,
  ldetf (S n) f = bsum (S n) (fun j => sgn j * f O j * ldetf n (fminor2 O j f)).
Proof.
  intros n f.
  rewrite (ldetf_ext K (S n) f (setrow O (fun q => bsum (S n) (fun j => f O j * fdelta j q)) f)).
  - rewrite ldetf_row_sum by lia. apply (bsum_ext K). intros j Hj.
    rewrite ldetf_unit_row0 by auto. ring.
  - intros i q Hi Hq. unfold setrow. destruct (Nat.eqb_spec i O) as [->|]; auto.
    rewrite (bsum_ext K (S n) _ (fun j => (if Nat.eqb q j then 1 else 0) * f O j)).
    + now rewrite (bsum_delta K HK).
    + intros j _. unfold fdelta. rewrite (Nat.eqb_sym j q). ring.
Qed.

Theorem ldetf_transpose : forall n f, ldetf n (fun i j => f j i) = ldetf n f.
Proof.
  induction n as [|n IH]; intros f; [reflexivity|].
  rewrite (ldetf_row_expand n f). cbn [Det_proofs.ldetf]. apply (bsum_ext K). intros i Hi.
  f_equal. rewrite <- (IH (fminor2 O i f)). apply (ldetf_ext K). intros a b _ _.
  unfold fminor, fminor2, skip.
  replace (Nat.ltb b O) with false by (symmetry; apply Nat.ltb_ge; lia). reflexivity.
Qed.

(* the coded determinant of the coded transpose *)
Theorem det_transpose : forall n (M : @matrix F), wf_matrix n n M -> 0 < n ->
  determinant K (transpose K M) = determinant K M.
Proof.
  intros n M Hwf Hn.
  rewrite (det_value K HK n _ (wf_transpose K n n M Hwf Hn)), (det_value K HK n M Hwf). unfold ldet.
  rewrite <- (ldetf_transpose n (fun i j => entry K i j M)).
  apply (ldetf_ext K). intros i j Hi Hj. apply (entry_transpose K). now rewrite (ncols_wf n n M Hwf Hn).
Qed.

(* ---- full multiplicativity of the coded determinant ---------------------------------------------------- *)

(* a singular matrix (TryInv fails) annihilates a non-zero vector *)
Lemma try_inv_none_kernel : forall n (M : @matrix F), wf_matrix n n M -> 0 < n -> try_inv K M = None ->
  exists u k, length u = n /\ k < n /\ nth k u 0 = 1 /\ mvec K M u = zero_vec K n.
Proof.
  intros n M Hwf Hn Ht. pose proof Hwf as [HL _].
  unfold try_inv in Ht. unfold nrows in Ht. rewrite HL in Ht.
  assert (Hinit : inv_inv K n 0 M (identity K n)).
  { constructor; auto using wf_identity. intros; lia. }
  pose proof (inv_loop_spec K HK n n 0 M (identity K n) Hinit ltac:(lia)) as Hs.
  destruct (inv_loop K n 0 (M, identity K n)) as [st|]; [discriminate|].
  destruct Hs as (k & a & out & Hk & [Hwa Hwo Hunit] & Hz & Hker).
  pose proof Hwa as [HLa _]. pose proof Hwo as [HLo _].
  set (uf := fun j => if Nat.ltb j k then fopp K (entry K j k a) else if Nat.eqb j k then 1 else 0).
  set (u := map uf (seq 0 n)).
  assert (Hul : length u = n) by (unfold u; now rewrite map_length, seq_length).
  assert (Hun : forall j, j < n -> nth j u 0 = uf j).
  { intros j Hj. unfold u. rewrite (nth_indep _ 0 (uf (nth j (seq 0 n) O))) by now rewrite map_length, seq_length.
    rewrite (map_nth uf). now rewrite seq_nth. }
  assert (H1 : ker2 K a out u (zero_vec K n)).
  { intros i. rewrite (dot_zero_r K HK).
    destruct (Nat.ltb_spec i n) as [Ei|Ei].
    2:{ rewrite (row_overflow a i) by lia. rewrite (dot_nil_l K). ring. }
    rewrite (dot_bsum K HK _ _ n) by (right; lia).
    rewrite (bsum_ext K n _ (fun j => (if Nat.eqb i j then 1 else 0) * (if Nat.ltb j k then fopp K (entry K j k a) else 0)
                                     + (if Nat.eqb k j then 1 else 0) * entry K i k a)).
    - rewrite (bsum_add K HK), !(bsum_delta K HK) by auto.
      destruct (Nat.ltb_spec i k) as [Eik|Eik]; [ring|]. rewrite (Hz i Eik). ring.
    - intros j Hj. rewrite Hun by auto. unfold uf. rewrite <- (entry_row K).
      destruct (Nat.ltb_spec j k) as [Ejk|Ejk].
      + rewrite Hunit by auto.
        replace (Nat.eqb k j) with false by (symmetry; apply Nat.eqb_neq; lia). ring.
      + rewrite (Nat.eqb_sym k j). destruct (Nat.eqb_spec j k) as [->|Ej2]; ring. }
  apply Hker in H1.
  exists u, k. split; [auto|]. split; [auto|]. split.
  - rewrite Hun by auto. unfold uf. rewrite Nat.ltb_irrefl, Nat.eqb_refl. reflexivity.
  - apply (nth_ext_eq _ _ 0); [now rewrite (mvec_length K), (zero_vec_length K)|].
    intros i Hi. rewrite (mvec_length K), HL in Hi. rewrite (nth_mvec K), (nth_zero_vec K).
    specialize (H1 i). rewrite (dot_zero_r K HK) in H1. rewrite <- H1. ring.
Qed.

Lemma kernel_singular : forall n (M : @matrix F) u k, wf_matrix n n M -> 0 < n -> length u = n ->
  nth k u 0 = 1 -> mvec K M u = zero_vec K n -> try_inv K M = None.
Proof.
  intros n M u k Hwf Hn Hul Hk Hu. destruct (try_inv K M) as [N|] eqn:E; auto. exfalso.
  destruct (try_inv_sound K HK n M N Hwf Hn E) as (HwN & _ & HNM).
  assert (Hu0 : u = zero_vec K n).
  { rewrite <- (mvec_identity K HK n u Hul), <- HNM.
    rewrite (mvec_mmul K HK n n n) by auto. rewrite Hu, (mvec_zero_vec K HK). destruct HwN as [-> _]. reflexivity. }
  rewrite Hu0, (nth_zero_vec K) in Hk. apply (f1_neq_0 K HK). auto.
Qed.

Theorem det_mul : forall n (A B : @matrix F), wf_matrix n n A -> wf_matrix n n B -> 0 < n ->
  determinant K (mmul K A B) = determinant K A * determinant K B.
Proof.
  intros n A B HA HB Hn.
  assert (HAB : wf_matrix n n (mmul K A B)) by (apply (wf_mmul K n n n); auto).
  destruct (try_inv K A) as [NA|] eqn:EA.
  - rewrite !(det_value K HK n) by auto. apply (ldet_mul_invertible K HK); auto. congruence.
  - assert (HdA : determinant K A = 0) by now apply (det_zero_iff K HK n A HA Hn).
    rewrite HdA.
    destruct (try_inv K B) as [NB|] eqn:EB.
    + (* B invertible: transpose *)
      rewrite <- (det_transpose n (mmul K A B) HAB Hn).
      rewrite (transpose_mul K HK n n n) by auto.
      assert (HBt : wf_matrix n n (transpose K B)) by (apply (wf_transpose K); auto).
      assert (HAt : wf_matrix n n (transpose K A)) by (apply (wf_transpose K); auto).
      rewrite !(det_value K HK n) by (auto; apply (wf_mmul K n n n); auto).
      rewrite (ldet_mul_invertible K HK n _ _ HBt HAt Hn).
      * rewrite <- !(det_value K HK n) by auto. rewrite (det_transpose n A HA Hn), HdA. ring.
      * intro E. apply (det_zero_iff K HK n _ HBt Hn) in E. rewrite (det_transpose n B HB Hn) in E.
        apply (det_zero_iff K HK n B HB Hn) in E. congruence.
    + (* B singular: A·B kills B's kernel vector *)
      destruct (try_inv_none_kernel n B HB Hn EB) as (u & k & Hul & Hk & Hku & HBu).
      assert (try_inv K (mmul K A B) = None).
      { apply (kernel_singular n _ u k HAB Hn Hul Hku).
        rewrite (mvec_mmul K HK n n n) by auto. rewrite HBu, (mvec_zero_vec K HK). destruct HA as [-> _]. reflexivity. }
      apply (det_zero_iff K HK n _ HAB Hn) in H. rewrite H. ring.
Qed.

(* ---- Birkhoff interpolation in the exponent ------------------------------------------------------------ *)

Lemma sequence_opt_map_all : forall {A B} (f : A -> option B) (h : A -> B) l,
  (forall a, In a l -> f a = Some (h a)) -> sequence_opt (map f l) = Some (map h l).
Proof.
  intros A B f h l; induction l as [|a t IH]; intros H; cbn [map sequence_opt]; [reflexivity|].
  rewrite (H a) by now left. rewrite IH by (intros; apply H; now right). reflexivity.
Qed.

Lemma sequence_opt_mapi_from_all : forall {A B} (f : nat -> A -> option B) (h : nat -> A -> B) l k,
  (forall i a, nth_error l i = Some a -> f (k + i)%nat a = Some (h (k + i)%nat a)) ->
  sequence_opt (mapi_from k f l) = Some (mapi_from k h l).
Proof.
  intros A B f h l; induction l as [|a t IH]; intros k H; cbn [mapi_from sequence_opt]; [reflexivity|].
  pose proof (H O a eq_refl) as H0. rewrite Nat.add_0_r in H0. rewrite H0.
  rewrite IH; [reflexivity|].
  intros i b Hb. replace (S k + i)%nat with (k + S i)%nat by lia. apply H. exact Hb.
Qed.

Lemma mapi_from_pair : forall {A} (d : nat -> F) (l : list A) k,
  mapi_from k (fun r y => (d r, y)) l = combine (map d (seq k (length l))) l.
Proof.
  intros A d l; induction l as [|a t IH]; intros k; cbn [mapi_from length seq map combine]; [reflexivity|].
  now rewrite IH.
Qed.

Section Exponent.
Context {G : Type} (Mo : mops G F) (HM : mlaws K Mo).
Variable fkey : F -> Z.

Lemma insert_node_map : forall {Y1 Y2} (phi : Y1 -> Y2) (a : F * N * Y1) l,
  insert_node fkey (fst a, phi (snd a)) (map (fun t => (fst t, phi (snd t))) l) =
  map (fun t => (fst t, phi (snd t))) (insert_node fkey a l).
Proof.
  intros Y1 Y2 phi a l; induction l as [|b t IH]; cbn [insert_node map]; [reflexivity|].
  assert (E : node_lt fkey (fst b, phi (snd b)) (fst a, phi (snd a)) = node_lt fkey b a) by reflexivity.
  rewrite E. destruct (node_lt fkey b a); cbn [map]; [now rewrite IH|reflexivity].
Qed.

Lemma sort_nodes_map : forall {Y1 Y2} (phi : Y1 -> Y2) (l : list (F * N * Y1)),
  sort_nodes fkey (map (fun t => (fst t, phi (snd t))) l) = map (fun t => (fst t, phi (snd t))) (sort_nodes fkey l).
Proof.
  intros Y1 Y2 phi l; induction l as [|a t IH]; [reflexivity|].
  cbn [map sort_nodes fold_right]. fold (sort_nodes fkey t).
  fold (sort_nodes fkey (map (fun t0 : F * N * Y1 => (fst t0, phi (snd t0))) t)). rewrite IH.
  apply insert_node_map.
Qed.

Lemma combine_map_r : forall {A B C} (phi : B -> C) (l : list A) (r : list B),
  combine l (map phi r) = map (fun t => (fst t, phi (snd t))) (combine l r).
Proof.
  intros A B C phi l; induction l as [|a t IH]; intros [|b r]; cbn [map combine fst snd]; auto.
  now rewrite IH.
Qed.

(* one coefficient computed in the exponent *)
Lemma exponent_coeff : forall n c (V : @matrix F) ys g, wf_matrix n n V -> 1 < n -> c < n -> length ys = n ->
  determinant K V <> 0 ->
  match sequence_opt (mapi (fun r (y : G) =>
          match minor r c V with
          | None => None
          | Some m => let d := determinant K m in Some (if Nat.even (r + c) then d else fopp K d, y)
          end) (map (fun y => gsmul Mo g y) ys)) with
  | None => None
  | Some dys => Some (gsmul Mo (fold_left (fun num dy => gadd Mo num (gsmul Mo (snd dy) (fst dy))) dys (g0 Mo))
                               (finv K (determinant K V)))
  end =
  Some (gsmul Mo g (match set_column c ys V with
                    | Some Vc => fdiv K (determinant K Vc) (determinant K V)
                    | None => 0
                    end)).
Proof.
  intros n c V ys g Hwf Hn Hc Hys Hdet.
  set (d := fun r => match minor r c V with
                     | Some m => if Nat.even (r + c) then determinant K m else fopp K (determinant K m)
                     | None => 0
                     end).
  unfold mapi.
  rewrite (sequence_opt_mapi_from_all _ (fun r (y : G) => (d r, y))).
  2:{ intros i a Ha. cbn [Nat.add].
      assert (Hi : i < n).
      { assert (Hs : nth_error (map (fun y => gsmul Mo g y) ys) i <> None) by congruence.
        apply nth_error_Some in Hs. now rewrite map_length, Hys in Hs. }
      destruct (minor_spec n i c V Hwf Hn Hi Hc) as (m & Hm & _ & _).
      unfold d. rewrite Hm. reflexivity. }
  rewrite mapi_from_pair, map_length, Hys.
  change (fold_left (fun num dy => gadd Mo num (gsmul Mo (snd dy) (fst dy)))
            (combine (map d (seq 0 n)) (map (fun y => gsmul Mo g y) ys)) (g0 Mo))
    with (gdot Mo (map d (seq 0 n)) (lift_vec Mo ys g)).
  rewrite (gdot_lift_vec K HK Mo HM).
  destruct (set_column_spec K n c ys V Hwf ltac:(lia) Hc Hys) as (Vc & Hset & _ & _).
  rewrite Hset. rewrite (ml_smul_mul K Mo HM). f_equal. f_equal.
  rewrite (fdiv_def K HK). f_equal.
  rewrite (cofactor_column n c V Vc ys Hwf Hn Hc Hys Hset).
  rewrite (dot_bsum K HK _ _ n) by (right; lia).
  apply (bsum_ext K). intros r Hr.
  rewrite (nth_indep _ 0 (d (nth r (seq 0 n) O))) by now rewrite map_length, seq_length.
  rewrite (map_nth d). rewrite seq_nth by auto. cbn [Nat.add]. unfold d. ring.
Qed.


(* interpolating in the exponent = lifting the scalar interpolation (errors included);
   with a single node the code refuses (Minor of a 1x1 matrix) *)
Theorem birkhoff_interp_in_exponent : forall xs js ys g,
  birkhoff_interpolate_in_exponent K Mo fkey xs js (map (fun y => gsmul Mo g y) ys) =
  match birkhoff_interpolate K fkey xs js ys with
  | Ok P => if Nat.eqb (length xs) 1 then Err ErrDim else Ok (map (fun c => gsmul Mo g c) P)
  | Err e => Err e
  end.
Proof.
  intros xs js ys g. unfold birkhoff_interpolate_in_exponent, birkhoff_interpolate.
  rewrite map_length.
  destruct (negb (Nat.eqb (length xs) (length js) && Nat.eqb (length xs) (length ys))) eqn:Hlen; [reflexivity|].
  apply negb_false_iff, andb_true_iff in Hlen. destruct Hlen as [Hl1 Hl2]. apply Nat.eqb_eq in Hl1, Hl2.
  destruct xs as [|x0 xs']; [reflexivity|]. set (xs := x0 :: xs') in *.
  rewrite (combine_map_r (fun y => gsmul Mo g y)), (sort_nodes_map (fun y => gsmul Mo g y)).
  set (nodes := sort_nodes fkey (combine (combine xs js) ys)).
  rewrite !map_map. cbn [fst snd].
  set (xs1 := map (fun n : F * N * F => fst (fst n)) nodes).
  set (js1 := map (fun n : F * N * F => snd (fst n)) nodes).
  set (ys1 := map (@snd (F * N) F) nodes).
  assert (Hnl : length nodes = length xs).
  { unfold nodes. rewrite (sort_nodes_length fkey), !combine_length. lia. }
  assert (Hx1 : length xs1 = length xs) by (unfold xs1; now rewrite map_length).
  assert (Hj1 : length js1 = length xs) by (unfold js1; now rewrite map_length).
  assert (Hy1 : length ys1 = length xs) by (unfold ys1; now rewrite map_length).
  assert (HysG : map (fun x : F * N * F => gsmul Mo g (snd x)) nodes = map (fun y => gsmul Mo g y) ys1)
    by (unfold ys1; now rewrite map_map).
  rewrite HysG.
  set (n := length xs1) in *.
  set (V := build_birkhoff K xs1 js1 n).
  assert (HwV : wf_matrix n n V) by (apply (wf_build_birkhoff K); lia).
  assert (Hn : 0 < n) by (rewrite Hx1; unfold xs; cbn [length]; lia).
  destruct (fis0 K (determinant K V)) eqn:Hd; [reflexivity|].
  apply (fis0_false K HK) in Hd.
  set (pc := fun c => match set_column c ys1 V with
                      | Some Vc => fdiv K (determinant K Vc) (determinant K V)
                      | None => 0
                      end).
  (* scalar side *)
  rewrite (sequence_opt_map_all _ pc).
  2:{ intros c Hc. apply in_seq in Hc.
      destruct (set_column_spec K n c ys1 V HwV Hn ltac:(lia) ltac:(lia)) as (Vc & Hset & _ & _).
      unfold pc. now rewrite Hset. }
  assert (Hxs : length xs = n) by lia.
  destruct (Nat.eqb_spec (length xs) 1) as [H1|H1].
  - (* one node: Minor refuses *)
    assert (Hn1 : n = 1%nat) by lia.
    rewrite Hn1. cbn [seq map].
    destruct ys1 as [|y1 [|y2 ys1']]; cbn [length] in Hy1; try lia.
    cbn [map mapi mapi_from].
    assert (Hm : minor 0 0 V = None).
    { unfold minor. destruct HwV as [HL _]. unfold nrows. rewrite HL, Hn1. cbn. now rewrite andb_false_r. }
    rewrite Hm. reflexivity.
  - rewrite (sequence_opt_map_all _ (fun c => gsmul Mo g (pc c))).
    + now rewrite map_map.
    + intros c Hc. apply in_seq in Hc.
      apply (exponent_coeff n c V ys1 g HwV ltac:(lia) ltac:(lia) ltac:(lia) Hd).
Qed.

End Exponent.

End DetColProofs.
