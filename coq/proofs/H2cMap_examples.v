(* H2cMap_examples.v — the executable hash_to_curve model (model/H2cMap.v, extracted for the C19
   correspondence) evaluated inside Coq: the regenerated SSWU + 3-isogeny of k256 and the regenerated
   SSWU of p256 map u = 5 to points of secp256k1 / P-256.  A cross-check of the extraction on one
   value per suite; a changed isogeny constant or mapper step makes this fail. *)
From Coq Require Import ZArith List Bool.
Require Import V.base.Fld V.gen.Mappers V.model.CurveParams V.model.H2cMap.

Example model_map_on_curve :
  ws_on_curve k256_suite (ws_to_affine k256_suite (ws_map k256_suite 5%Z)) = true /\
  ws_on_curve p256_suite (ws_to_affine p256_suite (ws_map p256_suite 5%Z)) = true.
Proof. vm_compute. split; reflexivity. Qed.

(* the algebraic hypotheses of the map-to-curve theorems, on the REGENERATED constants of the suites
   (boolean form, raw Z_p arithmetic): c1 = (p-3)/4, c2^2 = -Z, A <> 0, Z <> 0 for the p = 3 (mod 4) SSWU
   suites; the exceptional input u = 0 (tv2 = 0) lands on the curve, i.e. g(B/(ZA)) is recognised as a square *)
Local Open Scope Z_scope.
Definition sswu_constants_ok (p : Z) (c1 : N) (c2 Zc A : Z) : bool :=
  (Z.of_N c1 =? (p - 3) / 4) && ((c2 * c2) mod p =? (- Zc) mod p) && negb (A mod p =? 0) && negb (Zc mod p =? 0).

Example sswu_constants_k256_p256_g1 :
  sswu_constants_ok (wp_p k256_params) k256_sqrtRatioC1 k256_sqrtRatioC2 k256_sswuZ k256_sswuIsogenyA = true /\
  sswu_constants_ok (wp_p p256_params) p256_sqrtRatioC1 p256_sqrtRatioC2 p256_sswuZ (p256_MulByA (Zp (wp_p p256_params)) 1) = true /\
  (p256_MulByA (Zp (wp_p p256_params)) 1 =? wp_a p256_params) = true /\
  (p256_MulByB (Zp (wp_p p256_params)) 1 =? wp_b p256_params) = true /\
  sswu_constants_ok (wp_p bls12381g1_params) bls12381g1_g1SqrtRatioC1 bls12381g1_g1SqrtRationC2 bls12381g1_g1SswuZ
    bls12381g1_g1SswuIsogenyA = true.
Proof. vm_compute. repeat split; reflexivity. Qed.

Example sswu_exceptional_input_on_curve :
  ws_on_curve k256_suite (ws_to_affine k256_suite (ws_map k256_suite 0)) = true /\
  ws_on_curve p256_suite (ws_to_affine p256_suite (ws_map p256_suite 0)) = true.
Proof. vm_compute. split; reflexivity. Qed.

(* Elligator 2 / edwards25519: c3^2 = -1, c2^2 = 2 c3, c4 = (p-5)/8, c1^2 = -(J+2), d (J+2) = -(J-2), J+2 <> 0 *)
Example elligator2_constants_edwards25519 :
  let p := ep_p ed25519_params in
  let c2 := curve25519Elligator2C2Limbs_value in let c3 := curve25519Elligator2C3Limbs_value in
  let J := curve25519Elligator2JLimbs_value in let c1 := edwards25519Elligator2C1Limbs_value in
  ((c3 * c3) mod p =? (- 1) mod p) && ((c2 * c2) mod p =? (2 * c3) mod p) &&
  (Z.of_N curve25519Elligator2C4 =? (p - 5) / 8) &&
  ((c1 * c1) mod p =? (- (J + 2)) mod p) && ((ep_d ed25519_params * (J + 2)) mod p =? (- (J - 2)) mod p) &&
  negb ((J + 2) mod p =? 0) && ((ep_a ed25519_params) =? p - 1) = true.
Proof. vm_compute. reflexivity. Qed.
