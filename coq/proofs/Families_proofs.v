(* Families_proofs.v — the induced MSP of an access-structure family accepts exactly the
   qualified sets:  accepts (induced ac) S = is_qualified ac S  for ID lists S of row-owning holders.

     thr_accepts_iff   threshold / Vandermonde   (nodes distinct and non-zero in the field)
     cnf_accepts_iff   CNF clause vectors
     una_accepts_iff   unanimity

   Method: by Msp_proofs (duality) a set is rejected iff some w with w_0 = 1 is orthogonal to all
   its rows.  Qualified sets have no such w; for an unqualified set w is written down. *)
From Coq Require Import List NArith ZArith Arith Bool Lia Field Ring.
Import ListNotations.
Require Import V.base.Fld V.model.LinAlg V.model.Poly V.model.Access V.model.Msp.
Require Import V.proofs.LinAlg_proofs V.proofs.Poly_proofs V.proofs.Span_proofs V.proofs.Msp_proofs.

(* ---- list helpers ---------------------------------------------------------------------------- *)

Lemma filter_cons_eq : forall {A} (f : A -> bool) x l,
  filter f (x :: l) = if f x then x :: filter f l else filter f l.
Proof. reflexivity. Qed.

Lemma filter_seq_nth : forall {A} (l : list A) (p : A -> bool) d s,
  map (fun i => nth (i - s) l d) (filter (fun i => p (nth (i - s) l d)) (seq s (length l))) = filter p l.
Proof.
  intros A l p d; induction l as [|x l IH]; intros s; [reflexivity|].
  change (seq s (length (x :: l))) with (s :: seq (S s) (length l)).
  assert (E1 : filter (fun i => p (nth (i - s) (x :: l) d)) (seq (S s) (length l)) =
               filter (fun i => p (nth (i - S s) l d)) (seq (S s) (length l))).
  { apply filter_ext_in. intros i Hi. apply in_seq in Hi.
    replace (i - s)%nat with (S (i - S s)) by lia. reflexivity. }
  assert (E2 : forall L, (forall i, In i L -> (S s <= i)%nat) ->
               map (fun i => nth (i - s) (x :: l) d) L = map (fun i => nth (i - S s) l d) L).
  { intros L HL. apply map_ext_in. intros i Hi. apply HL in Hi.
    replace (i - s)%nat with (S (i - S s)) by lia. reflexivity. }
  assert (HL : forall i, In i (filter (fun i => p (nth (i - S s) l d)) (seq (S s) (length l))) -> (S s <= i)%nat).
  { intros i Hi; apply filter_In in Hi; destruct Hi as [Hi _]; apply in_seq in Hi; lia. }
  rewrite (filter_cons_eq _ s). rewrite Nat.sub_diag. change (nth 0 (x :: l) d) with x.
  rewrite E1. cbn [filter]. destruct (p x).
  - rewrite map_cons, Nat.sub_diag. change (nth 0 (x :: l) d) with x. now rewrite (E2 _ HL), IH.
  - now rewrite (E2 _ HL), IH.
Qed.

Lemma nth_map_lt : forall {A B} (f : A -> B) l d d' i, (i < length l)%nat ->
  nth i (map f l) d' = f (nth i l d).
Proof.
  intros A B f l d d'; induction l as [|x l IH]; intros i Hi; [cbn in Hi; lia|].
  destruct i; [reflexivity|]. cbn [map nth]. apply IH. cbn in Hi. lia.
Qed.

Lemma map_snd_combine : forall {A B} (a : list A) (b : list B), length a = length b -> map snd (combine a b) = b.
Proof.
  intros A B a; induction a as [|x a IH]; intros [|y b] H; cbn in H; try lia; [reflexivity|].
  cbn [combine map snd]. f_equal. apply IH. lia.
Qed.

Lemma map_fst_combine : forall {A B} (a : list A) (b : list B), length a = length b -> map fst (combine a b) = a.
Proof.
  intros A B a; induction a as [|x a IH]; intros [|y b] H; cbn in H; try lia; [reflexivity|].
  cbn [combine map fst]. f_equal. apply IH. lia.
Qed.

Lemma in_sortN : forall x l, In x (sortN l) <-> In x l.
Proof.
  assert (Hins : forall y l x, In x (insertN y l) <-> x = y \/ In x l).
  { intros y l; induction l as [|h t IH]; intros x; cbn [insertN].
    - cbn. intuition.
    - destruct (N.leb y h); cbn [In]; [intuition|]. rewrite IH. intuition. }
  intros x l; induction l as [|h t IH]; [reflexivity|]. unfold sortN in *. cbn [fold_right].
  rewrite Hins, IH. cbn. intuition.
Qed.

Lemma sortN_length : forall l, length (sortN l) = length l.
Proof.
  assert (Hins : forall y l, length (insertN y l) = S (length l)).
  { intros y l; induction l as [|h t IH]; [reflexivity|]. cbn [insertN].
    destruct (N.leb y h); cbn [length]; [reflexivity|now rewrite IH]. }
  induction l as [|h t IH]; [reflexivity|]. unfold sortN in *. cbn [fold_right]. now rewrite Hins, IH.
Qed.

Lemma sortN_NoDup : forall l, NoDup l -> NoDup (sortN l).
Proof.
  assert (Hin : forall y l x, In x (insertN y l) <-> x = y \/ In x l).
  { intros y l; induction l as [|h t IH]; intros x; cbn [insertN].
    - cbn. intuition.
    - destruct (N.leb y h); cbn [In]; [intuition|]. rewrite IH. intuition. }
  assert (Hins : forall y l, NoDup l -> ~ In y l -> NoDup (insertN y l)).
  { intros y l; induction l as [|h t IH]; intros Hnd Hni; cbn [insertN].
    - constructor; auto.
    - destruct (N.leb y h); [constructor; auto|].
      inversion Hnd; subst. constructor.
      + rewrite Hin. intros [->|H]; [apply Hni; now left|contradiction].
      + apply IH; auto. intro; apply Hni; now right. }
  induction l as [|h t IH]; intros Hnd; [constructor|]. inversion Hnd; subst.
  unfold sortN in *. cbn [fold_right]. apply Hins; auto.
  fold (sortN t). now rewrite in_sortN.
Qed.

Lemma nodupN_NoDup : forall l, NoDup (nodupN l).
Proof. intros. apply NoDup_nodup. Qed.

Lemma in_nodupN : forall x l, In x (nodupN l) <-> In x l.
Proof. intros. apply nodup_In. Qed.

Lemma NoDup_map_inj : forall {A B} (f : A -> B) (l : list A) a b,
  NoDup (map f l) -> In a l -> In b l -> f a = f b -> a = b.
Proof.
  intros A B f l; induction l as [|x l IH]; intros a b Hnd Ha Hb E; [contradiction|].
  cbn [map] in Hnd. inversion Hnd as [|? ? Hni Hnd']; subst.
  destruct Ha as [->|Ha], Hb as [->|Hb]; auto.
  - exfalso. apply Hni. rewrite E. now apply in_map.
  - exfalso. apply Hni. rewrite <- E. now apply in_map.
Qed.

Lemma NoDup_map_inj_rev : forall {A B} (f : A -> B) (l : list A),
  NoDup l -> (forall a b, In a l -> In b l -> f a = f b -> a = b) -> NoDup (map f l).
Proof.
  intros A B f l; induction l as [|x l IH]; intros Hnd Hinj; [constructor|].
  inversion Hnd as [|? ? Hni Hnd']; subst. cbn [map]. constructor.
  - intro Hin. apply in_map_iff in Hin. destruct Hin as [y [E Hy]].
    assert (y = x) by (apply Hinj; auto; [now right|now left]). subst. contradiction.
  - apply IH; auto. intros a b Ha Hb. apply Hinj; now right.
Qed.

Section Families.
Context {F : Type} (K : fops F) (HK : flaws K) (fromN : N -> F).
Implicit Type m : @msp F.

Add Field Kfield5 : (fl_theory K HK).

Notation "0" := (f0 K).
Notation "1" := (f1 K).
Infix "+" := (fadd K).
Infix "*" := (fmul K).
Infix "-" := (fsub K).

(* ---- MSPs given as a list of (label, row) pairs ------------------------------------------------- *)

Definition zmsp (rl : list (N * list F)) : @msp F := mk_msp (map snd rl) (map fst rl).

Lemma sub_rows_zipped : forall rl ids,
  sub_rows (msp_M (zmsp rl)) (sel_filter (zmsp rl) ids) = map snd (filter (fun p => memN (fst p) ids) rl).
Proof.
  intros rl ids. unfold sub_rows, sel_filter, zmsp. cbn [msp_M msp_lab].
  rewrite <- (filter_seq_nth rl (fun p => memN (fst p) ids) (0%N, []) 0).
  rewrite !map_map, map_length.
  assert (E : filter (fun i => memN (nth i (map fst rl) 0%N) ids) (seq 0 (length rl)) =
              filter (fun i => memN (fst (nth (i - 0) rl (0%N, []))) ids) (seq 0 (length rl))).
  { apply filter_ext. intros i. rewrite Nat.sub_0_r.
    change 0%N with (fst (0%N, @nil F)) at 1. now rewrite map_nth. }
  rewrite E. apply map_ext. intros i. rewrite Nat.sub_0_r. unfold row.
  change (@nil F) with (snd (0%N, @nil F)) at 1. now rewrite map_nth.
Qed.

Lemma in_ker_zipped : forall rl ids w,
  in_ker K (sub_rows (msp_M (zmsp rl)) (sel_filter (zmsp rl) ids)) w <->
  (forall id v, In (id, v) rl -> In id ids -> dot K v w = 0).
Proof.
  intros. rewrite sub_rows_zipped. unfold in_ker. rewrite Forall_forall. split.
  - intros H id v Hin Hid. apply H. apply in_map_iff. exists (id, v). split; auto.
    apply filter_In. split; auto. now apply memN_In.
  - intros H v Hv. apply in_map_iff in Hv. destruct Hv as [[id v'] [<- Hf]].
    apply filter_In in Hf. destruct Hf as [Hin Hm]. apply memN_In in Hm. eapply H; eauto.
Qed.

Lemma sel_rows_known : forall m ids, ids <> [] -> (forall id, In id ids -> In id (msp_lab m)) ->
  sel_rows m ids = Some (sel_filter m ids).
Proof.
  intros m ids Hne Hknown. unfold sel_rows. fold (sel_filter m ids).
  assert (Hall : forallb (fun id => memN id (msp_lab m)) ids = true).
  { apply forallb_forall. intros id Hid. apply memN_In. now apply Hknown. }
  rewrite Hall. destruct (sel_filter m ids) as [|i rs] eqn:E; [|reflexivity]. exfalso.
  destruct ids as [|id0 ids0]; [congruence|].
  assert (Hin : In id0 (msp_lab m)) by (apply Hknown; now left).
  apply (In_nth _ _ 0%N) in Hin. destruct Hin as [i [Hi Hnth]].
  assert (In i (sel_filter m (id0 :: ids0))).
  { apply in_sel_filter. split; auto. rewrite Hnth. now left. }
  rewrite E in H. contradiction.
Qed.

(* rejection of a non-empty list of known IDs  <->  a kernel witness *)
Lemma rejects_zipped_iff : forall rl ids, wf_msp (zmsp rl) -> ids <> [] ->
  (forall id, In id ids -> In id (map fst rl)) ->
  (accepts K (zmsp rl) ids = false <->
   exists w, length w = msp_D (zmsp rl) /\ (forall id v, In (id, v) rl -> In id ids -> dot K v w = 0) /\ nth 0 w 0 = 1).
Proof.
  intros rl ids Hwf Hne Hknown.
  pose proof (sel_rows_known (zmsp rl) ids Hne Hknown) as Hs. split.
  - intros Hrej. destruct (rejects_kernel K HK _ ids _ Hwf Hs Hrej) as [w [Hw [Hk Hw0]]].
    exists w. repeat split; auto. now apply in_ker_zipped.
  - intros [w [Hw [Hk Hw0]]]. apply (kernel_rejects K HK _ ids _ w Hwf Hs); auto.
    now apply in_ker_zipped.
Qed.

Lemma accepts_nil : forall m, accepts K m [] = false.
Proof.
  intros m. unfold accepts, recon_vector, sel_rows. cbn [forallb].
  assert (E : filter (fun i => memN (nth i (msp_lab m) 0%N) []) (seq 0 (length (msp_lab m))) = []).
  { induction (seq 0 (length (msp_lab m))) as [|x l IHl]; [reflexivity|exact IHl]. }
  now rewrite E.
Qed.

(* ---- threshold -------------------------------------------------------------------------------------- *)

Lemma powers_from_length : forall acc a n, length (powers_from K acc a n) = n.
Proof. intros acc a n; revert acc; induction n as [|n IH]; intros acc; cbn; [reflexivity|now rewrite IH]. Qed.

Lemma dot_powers_from : forall n acc a w, length w = n ->
  dot K (powers_from K acc a n) w = acc * peval_r K w a.
Proof.
  induction n as [|n IH]; intros acc a w Hw.
  - destruct w; [|discriminate]. cbn [powers_from peval_r]. rewrite (dot_nil_l K). ring.
  - destruct w as [|c w]; [discriminate|]. cbn [powers_from peval_r].
    rewrite (dot_cons K HK), IH by (cbn in Hw; lia). ring.
Qed.

Lemma dot_vander_row : forall t a w, length w = t -> dot K (vander_row K a t) w = peval_r K w a.
Proof. intros. unfold vander_row. rewrite dot_powers_from by auto. ring. Qed.

Lemma peval_r_at_0 : forall w, peval_r K w 0 = nth 0 w 0.
Proof. intros [|c w]; cbn [peval_r nth]; ring. Qed.

Definition thr_rl (t : nat) (hs : list N) : list (N * list F) :=
  map (fun id => (id, vander_row K (fromN id) t)) hs.

Lemma induced_thr_zipped : forall t ps m, induced_thr K fromN t ps = Some m ->
  m = zmsp (thr_rl t (sortN (nodupN ps))) /\ (0 < t)%nat /\ sortN (nodupN ps) <> [].
Proof.
  intros t ps m H. unfold induced_thr in H.
  destruct (sortN (nodupN ps)) as [|h hs] eqn:E; [discriminate|].
  destruct t as [|t]; [discriminate|]. unfold new_msp in H.
  destruct (_ && _); [|discriminate]. inversion H; subst. split; [|split; [lia|discriminate]].
  unfold zmsp, thr_rl. rewrite !map_map. cbn [fst snd]. f_equal. now rewrite map_id.
Qed.

Lemma thr_wf : forall t hs, (0 < t)%nat -> hs <> [] -> wf_msp (zmsp (thr_rl t hs)).
Proof.
  intros t hs Ht Hne. exists (length hs), t. unfold zmsp, thr_rl. cbn [msp_M msp_lab].
  rewrite !map_map. cbn [fst snd]. split; [split|split; [|split]].
  - now rewrite map_length.
  - apply Forall_forall. intros r Hr. apply in_map_iff in Hr. destruct Hr as [id [<- _]].
    unfold vander_row. apply powers_from_length.
  - now rewrite map_length.
  - exact Ht.
  - destruct hs; [congruence|cbn; lia].
Qed.

Lemma thr_D : forall t hs, hs <> [] -> msp_D (zmsp (thr_rl t hs)) = t.
Proof.
  intros t hs Hne. destruct hs as [|h hs]; [congruence|]. unfold msp_D, zmsp, thr_rl, ncols. cbn [msp_M map snd].
  unfold vander_row. apply powers_from_length.
Qed.

Lemma card_le_subset : forall (a b : list N), NoDup a -> incl a b -> (length a <= length (nodupN b))%nat.
Proof.
  intros a b Hnd Hincl. apply NoDup_incl_length; auto. intros x Hx. apply in_nodupN. now apply Hincl.
Qed.

Theorem thr_accepts_iff : forall t ps m ids,
  induced_thr K fromN t ps = Some m ->
  NoDup (map fromN (nodupN ps)) -> (forall id, In id ps -> fromN id <> 0) ->
  (forall id, In id ids -> In id (msp_lab m)) ->
  accepts K m ids = is_qualified (Thr t ps) ids.
Proof.
  intros t ps m ids Hind Hdist Hnz Hknown.
  destruct (induced_thr_zipped t ps m Hind) as [-> [Ht Hne]].
  set (hs := sortN (nodupN ps)) in *.
  assert (Hlab : msp_lab (zmsp (thr_rl t hs)) = hs).
  { unfold zmsp, thr_rl. cbn [msp_lab]. rewrite map_map. cbn [fst]. apply map_id. }
  rewrite Hlab in Hknown.
  assert (Hhs : forall id, In id hs <-> In id ps).
  { intros. unfold hs. now rewrite in_sortN, in_nodupN. }
  assert (Hsub : subsetb ids ps = true).
  { apply forallb_forall. intros id Hid. apply memN_In. apply Hhs. now apply Hknown. }
  cbn [is_qualified]. rewrite Hsub, andb_true_r.
  pose proof (thr_wf t hs Ht Hne) as Hwf.
  destruct ids as [|id0 ids0].
  { (* no IDs: rejected; t >= 1 *)
    unfold accepts, recon_vector, sel_rows. cbn [forallb].
    assert (E : filter (fun i => memN (nth i (msp_lab (zmsp (thr_rl t hs))) 0%N) [])
                  (seq 0 (length (msp_lab (zmsp (thr_rl t hs))))) = []).
    { induction (seq 0 _) as [|x l IHl]; [reflexivity|exact IHl]. }
    rewrite E. symmetry. apply Nat.leb_gt. cbn. exact Ht. }
  remember (id0 :: ids0) as ids eqn:Eids.
  assert (Hne' : ids <> []) by (subst; discriminate).
  assert (Hknown' : forall id, In id ids -> In id (map fst (thr_rl t hs))).
  { intros id Hid. unfold thr_rl. rewrite map_map. cbn [fst]. rewrite map_id. now apply Hknown. }
  pose proof (rejects_zipped_iff (thr_rl t hs) ids Hwf Hne' Hknown') as Hiff.
  rewrite (thr_D t hs Hne) in Hiff.
  (* nodes of the distinct listed holders *)
  set (S := nodupN ids).
  assert (HS : forall id, In id S <-> In id ids) by (intros; apply in_nodupN).
  assert (HndS : NoDup S) by apply nodupN_NoDup.
  assert (Hinj : forall a b, In a ps -> In b ps -> fromN a = fromN b -> a = b).
  { intros a b Ha Hb E. apply (NoDup_map_inj fromN (nodupN ps)); auto; now apply in_nodupN. }
  set (nodes := map fromN S).
  assert (Hndn : NoDup nodes).
  { unfold nodes. apply NoDup_map_inj_rev; auto. intros a b Ha Hb. apply Hinj; apply Hhs, Hknown, HS; auto. }
  assert (Hlenn : length nodes = card ids) by (unfold nodes, card, S; now rewrite map_length).
  assert (Hrow : forall id v, In (id, v) (thr_rl t hs) -> v = vander_row K (fromN id) t).
  { intros id v Hin. unfold thr_rl in Hin. apply in_map_iff in Hin. destruct Hin as [x [E _]]. now inversion E. }
  assert (Hrl : forall id, In id ids -> In (id, vander_row K (fromN id) t) (thr_rl t hs)).
  { intros id Hid. unfold thr_rl. apply in_map_iff. exists id. split; auto. }
  destruct (Nat.leb t (card ids)) eqn:Ec.
  - (* qualified: a kernel witness would be a polynomial with too many roots *)
    apply Nat.leb_le in Ec.
    destruct (accepts K (zmsp (thr_rl t hs)) ids) eqn:Ea; [reflexivity|]. exfalso.
    destruct (proj1 Hiff eq_refl) as [w [Hw [Hk Hw0]]].
    assert (Hall : all0 K w).
    { apply (poly_roots_all0 K HK nodes w Hndn); [lia|].
      intros a Ha. unfold nodes in Ha. apply in_map_iff in Ha. destruct Ha as [id [<- Hid]].
      apply HS in Hid. rewrite <- (dot_vander_row t (fromN id) w Hw). apply (Hk id); auto. }
    rewrite (all0_nth K w O Hall) in Hw0. symmetry in Hw0. now apply (f1_neq_0 K HK).
  - (* unqualified: w = coefficients of prod (X - a) / prod (0 - a), padded to t coefficients *)
    apply Nat.leb_gt in Ec. apply Hiff.
    set (c := finv K (fprod_sub K 0 nodes)).
    assert (Hp0 : fprod_sub K 0 nodes <> 0).
    { intro E. apply (fprod_sub_eq_0_iff K HK) in E. unfold nodes in E. apply in_map_iff in E.
      destruct E as [id [E Hid]]. apply HS in Hid. apply (Hnz id); auto. apply Hhs. now apply Hknown. }
    exists (pscale K c (pprod_lin K nodes) ++ repeat 0 (t - Datatypes.S (length nodes))).
    split; [|split].
    + rewrite app_length, pscale_length, pprod_lin_length, repeat_length. lia.
    + intros id v Hin Hid. rewrite (Hrow id v Hin).
      rewrite dot_vander_row
        by (rewrite app_length, pscale_length, pprod_lin_length, repeat_length; lia).
      rewrite (peval_r_pad K HK), (peval_r_pscale K HK), (peval_r_pprod_lin K HK).
      assert (E : fprod_sub K (fromN id) nodes = 0).
      { apply (fprod_sub_eq_0_iff K HK). unfold nodes. apply in_map. now apply HS. }
      rewrite E. ring.
    + rewrite <- peval_r_at_0.
      rewrite (peval_r_pad K HK), (peval_r_pscale K HK), (peval_r_pprod_lin K HK).
      unfold c. apply (finv_l K HK). exact Hp0.
Qed.

(* the same for ANY list of holders with pairwise distinct non-zero nodes (rows in list order):
   used for a single threshold gate over leaves *)
Lemma vander_accepts : forall t hs ids, (0 < t)%nat -> hs <> [] ->
  (forall a b, In a hs -> In b hs -> fromN a = fromN b -> a = b) ->
  (forall id, In id hs -> fromN id <> 0) ->
  (forall id, In id ids -> In id hs) ->
  accepts K (zmsp (thr_rl t hs)) ids = Nat.leb t (card ids).
Proof.
  intros t hs ids Ht Hne Hinj Hnz Hknown.
  pose proof (thr_wf t hs Ht Hne) as Hwf.
  destruct ids as [|id0 ids0].
  { rewrite accepts_nil. symmetry. apply Nat.leb_gt. cbn. exact Ht. }
  remember (id0 :: ids0) as ids eqn:Eids.
  assert (Hne' : ids <> []) by (subst; discriminate).
  assert (Hknown' : forall id, In id ids -> In id (map fst (thr_rl t hs))).
  { intros id Hid. unfold thr_rl. rewrite map_map. cbn [fst]. rewrite map_id. now apply Hknown. }
  pose proof (rejects_zipped_iff (thr_rl t hs) ids Hwf Hne' Hknown') as Hiff.
  rewrite (thr_D t hs Hne) in Hiff.
  set (S := nodupN ids).
  assert (HS : forall id, In id S <-> In id ids) by (intros; apply in_nodupN).
  assert (HndS : NoDup S) by apply nodupN_NoDup.
  set (nodes := map fromN S).
  assert (Hndn : NoDup nodes).
  { unfold nodes. apply NoDup_map_inj_rev; auto. intros a b Ha Hb. apply Hinj; apply Hknown, HS; auto. }
  assert (Hlenn : length nodes = card ids) by (unfold nodes, card, S; now rewrite map_length).
  assert (Hrow : forall id v, In (id, v) (thr_rl t hs) -> v = vander_row K (fromN id) t).
  { intros id v Hin. unfold thr_rl in Hin. apply in_map_iff in Hin. destruct Hin as [x [E _]]. now inversion E. }
  assert (Hrl : forall id, In id ids -> In (id, vander_row K (fromN id) t) (thr_rl t hs)).
  { intros id Hid. unfold thr_rl. apply in_map_iff. exists id. split; auto. }
  destruct (Nat.leb t (card ids)) eqn:Ec.
  - apply Nat.leb_le in Ec.
    destruct (accepts K (zmsp (thr_rl t hs)) ids) eqn:Ea; [reflexivity|]. exfalso.
    destruct (proj1 Hiff eq_refl) as [w [Hw [Hk Hw0]]].
    assert (Hall : all0 K w).
    { apply (poly_roots_all0 K HK nodes w Hndn); [lia|].
      intros a Ha. unfold nodes in Ha. apply in_map_iff in Ha. destruct Ha as [id [<- Hid]].
      apply HS in Hid. rewrite <- (dot_vander_row t (fromN id) w Hw). apply (Hk id); auto. }
    rewrite (all0_nth K w O Hall) in Hw0. symmetry in Hw0. now apply (f1_neq_0 K HK).
  - apply Nat.leb_gt in Ec. apply Hiff.
    set (c := finv K (fprod_sub K 0 nodes)).
    assert (Hp0 : fprod_sub K 0 nodes <> 0).
    { intro E. apply (fprod_sub_eq_0_iff K HK) in E. unfold nodes in E. apply in_map_iff in E.
      destruct E as [id [E Hid]]. apply HS in Hid. apply (Hnz id); auto. }
    exists (pscale K c (pprod_lin K nodes) ++ repeat 0 (t - Datatypes.S (length nodes))).
    split; [|split].
    + rewrite app_length, pscale_length, pprod_lin_length, repeat_length. lia.
    + intros id v Hin Hid. rewrite (Hrow id v Hin).
      rewrite dot_vander_row
        by (rewrite app_length, pscale_length, pprod_lin_length, repeat_length; lia).
      rewrite (peval_r_pad K HK), (peval_r_pscale K HK), (peval_r_pprod_lin K HK).
      assert (E : fprod_sub K (fromN id) nodes = 0).
      { apply (fprod_sub_eq_0_iff K HK). unfold nodes. apply in_map. now apply HS. }
      rewrite E. ring.
    + rewrite <- peval_r_at_0.
      rewrite (peval_r_pad K HK), (peval_r_pscale K HK), (peval_r_pprod_lin K HK).
      unfold c. apply (finv_l K HK). exact Hp0.
Qed.

(* ---- CNF --------------------------------------------------------------------------------------------- *)

Lemma in_insert_set : forall x l y, In y (insert_set x l) <-> y = x \/ In y l.
Proof.
  intros x l; induction l as [|h t IH]; intros y; cbn [insert_set].
  - cbn. intuition.
  - destruct (set_ltb h x); cbn [In]; [rewrite IH|]; intuition.
Qed.

Lemma in_sort_sets : forall l y, In y (sort_sets l) <-> In y l.
Proof.
  induction l as [|h t IH]; intros y; [reflexivity|]. unfold sort_sets in *. cbn [fold_right].
  rewrite in_insert_set, IH. cbn. intuition.
Qed.

Lemma vsub_length : forall u v, length u = length v -> length (vsub K u v) = length u.
Proof. intros. unfold vsub. rewrite map_length, combine_length. lia. Qed.

Lemma dot_vsub_l : forall u v w, length u = length v -> dot K (vsub K u v) w = dot K u w - dot K v w.
Proof.
  induction u as [|a u IH]; intros [|b v] w H; cbn in H; try lia.
  - change (vsub K [] []) with (@nil F). rewrite !(dot_nil_l K). ring.
  - destruct w as [|x w].
    + rewrite !(dot_nil_r K). ring.
    + change (vsub K (a :: u) (b :: v)) with ((a - b) :: vsub K u v).
      rewrite !(dot_cons K HK), IH by lia. ring.
Qed.

Definition fsum_dot (fs : list (list F)) (w : list F) : F := fold_right (fun f acc => dot K f w + acc) 0 fs.

Lemma dot_fold_vsub : forall d fs v0 w, length v0 = d -> Forall (fun f => length f = d) fs ->
  length (fold_left (vsub K) fs v0) = d /\
  dot K (fold_left (vsub K) fs v0) w = dot K v0 w - fsum_dot fs w.
Proof.
  intros d fs; induction fs as [|f fs IH]; intros v0 w Hv Hfs; cbn [fold_left fsum_dot fold_right].
  - split; [auto|ring].
  - inversion Hfs; subst.
    destruct (IH (vsub K v0 f) w) as [HL HD]; [rewrite vsub_length; lia|auto|].
    split; [exact HL|]. rewrite HD, dot_vsub_l by lia. fold (fsum_dot fs w). ring.
Qed.

Lemma fsum_dot_zero : forall fs w, (forall f, In f fs -> dot K f w = 0) -> fsum_dot fs w = 0.
Proof.
  induction fs as [|f fs IH]; intros w H; [reflexivity|]. cbn [fsum_dot fold_right].
  rewrite (H f) by now left. fold (fsum_dot fs w). rewrite IH; [ring|]. intros; apply H; now right.
Qed.

(* Σ_{i in seq s n} [i = k] *)
Definition in_range (s n k : nat) : bool := Nat.leb s k && Nat.ltb k (s + n).

Lemma in_range_0 : forall s k, in_range s 0 k = false.
Proof.
  intros. unfold in_range. rewrite Nat.add_0_r.
  destruct (Nat.leb_spec s k), (Nat.ltb_spec k s); cbn [andb]; try reflexivity; lia.
Qed.

Lemma in_range_step : forall s n k, in_range s (S n) k = Nat.eqb s k || in_range (S s) n k.
Proof.
  intros. unfold in_range.
  destruct (Nat.eqb_spec s k), (Nat.leb_spec s k), (Nat.ltb_spec k (s + S n)),
           (Nat.leb_spec (S s) k), (Nat.ltb_spec k (S s + n)); cbn [andb orb]; try reflexivity; lia.
Qed.

Lemma fsum_dot_units : forall (m : nat) n s k w, length w = m ->
  (forall j, nth j w 0 = if Nat.eqb j 0 then 1 else if Nat.eqb j (S k) then 1 else 0) ->
  (s + n <= pred m)%nat ->
  fsum_dot (map (fun i => unit_vec K m (S i)) (seq s n)) w = if in_range s n k then 1 else 0.
Proof.
  intros m n; induction n as [|n IH]; intros s k w Hw Hnth Hb.
  - cbn [seq map fsum_dot fold_right]. now rewrite in_range_0.
  - cbn [seq map fsum_dot fold_right]. fold (fsum_dot (map (fun i => unit_vec K m (S i)) (seq (S s) n)) w).
    rewrite (IH (S s) k w Hw Hnth) by lia.
    rewrite (dot_comm K HK), (dot_unit_r K HK) by lia. rewrite Hnth.
    change (Nat.eqb (S s) 0) with false. change (Nat.eqb (S s) (S k)) with (Nat.eqb s k).
    rewrite in_range_step.
    destruct (Nat.eqb s k) eqn:E; cbn [orb].
    + apply Nat.eqb_eq in E. subst k.
      assert (E1 : in_range (S s) n s = false).
      { unfold in_range. destruct (Nat.leb_spec (S s) s); [lia|reflexivity]. }
      rewrite E1. ring.
    + destruct (in_range (S s) n k); ring.
Qed.

Definition cnf_rl (clauses : list (list N)) (cvs : list (list F)) : list (N * list F) :=
  flat_map (fun ccv => map (fun id => (id, snd ccv)) (fst ccv)) (combine clauses cvs).

Lemma cnf_rl_rows : forall clauses cvs,
  map snd (cnf_rl clauses cvs) = flat_map (fun cv => map (fun _ => snd cv) (fst cv)) (combine clauses cvs).
Proof.
  intros. unfold cnf_rl. induction (combine clauses cvs) as [|[cl cv] l IH]; [reflexivity|].
  cbn [flat_map fst snd]. rewrite map_app, IH, map_map. reflexivity.
Qed.

Lemma cnf_rl_labs : forall clauses cvs, length clauses = length cvs ->
  map fst (cnf_rl clauses cvs) = concat clauses.
Proof.
  intros clauses; induction clauses as [|cl cls IH]; intros [|cv cvs] H; cbn in H; try lia; [reflexivity|].
  unfold cnf_rl in *. cbn [combine flat_map concat fst snd]. rewrite map_app, map_map. cbn [fst].
  rewrite map_id, IH by lia. reflexivity.
Qed.

Lemma in_cnf_rl : forall clauses cvs id v,
  In (id, v) (cnf_rl clauses cvs) <-> exists cl, In (cl, v) (combine clauses cvs) /\ In id cl.
Proof.
  intros. unfold cnf_rl. rewrite in_flat_map. split.
  - intros [[cl cv] [Hin Hm]]. cbn [fst snd] in Hm. apply in_map_iff in Hm.
    destruct Hm as [x [E Hx]]. inversion E; subst. eauto.
  - intros [cl [Hin Hid]]. exists (cl, v). split; auto. cbn [fst snd]. apply in_map_iff. eauto.
Qed.

Lemma clause_vectors_length : forall (m : nat), length (clause_vectors K m) = m.
Proof.
  intros [|m1]; [reflexivity|]. unfold clause_vectors. rewrite app_length, map_length, seq_length. cbn. lia.
Qed.

Lemma clause_vectors_wf : forall (m : nat) cv, In cv (clause_vectors K m) -> length cv = m.
Proof.
  intros [|m1] cv H; [contradiction|]. unfold clause_vectors in H. apply in_app_or in H.
  assert (Hf : Forall (fun f => length f = S m1) (map (fun i => unit_vec K (S m1) (S i)) (seq 0 m1))).
  { apply Forall_forall. intros f Hf. apply in_map_iff in Hf. destruct Hf as [i [<- _]]. apply unit_vec_length. }
  destruct H as [H|[<-|[]]].
  - rewrite Forall_forall in Hf. now apply Hf.
  - apply (dot_fold_vsub (S m1) _ _ [] (unit_vec_length K _ _) Hf).
Qed.

Theorem cnf_accepts_iff : forall mus m ids,
  induced_cnf K mus = Some m ->
  (forall id, In id ids -> In id (msp_lab m)) ->
  accepts K m ids = is_qualified (Cnf mus) ids.
Proof.
  intros mus m ids Hind Hknown. unfold induced_cnf in Hind.
  destruct mus as [|mu0 mus0] eqn:Emus; [discriminate|]. rewrite <- Emus in *.
  assert (Hmne : mus <> []) by (subst; discriminate). clear Emus mu0 mus0.
  set (sh := nodupN (concat mus)) in *. set (sorted := sort_sets mus) in *.
  set (mm := length sorted) in *.
  set (clauses := map (fun b => sortN (diffN sh b)) sorted) in *.
  set (cvs := clause_vectors K mm) in *.
  assert (Hlen : length clauses = length cvs).
  { unfold clauses, cvs. now rewrite map_length, clause_vectors_length. }
  rewrite <- cnf_rl_rows, <- (cnf_rl_labs clauses cvs Hlen) in Hind.
  destruct (map snd (cnf_rl clauses cvs)) as [|r0 rs] eqn:Erows; [discriminate|]. rewrite <- Erows in Hind.
  unfold new_msp in Hind. destruct (_ && _); [|discriminate]. inversion Hind; subst m. clear Hind.
  fold (zmsp (cnf_rl clauses cvs)) in *. set (rl := cnf_rl clauses cvs) in *.
  assert (Hrlne : rl <> []) by (intro E; rewrite E in Erows; discriminate).
  assert (Hmm : (0 < mm)%nat).
  { unfold mm, sorted. destruct mus as [|a b]; [congruence|]. unfold sort_sets. cbn [fold_right].
    destruct (insert_set a _) eqn:E; [|cbn; lia].
    assert (In a []) by (rewrite <- E; apply in_insert_set; now left). contradiction. }
  assert (Hwf : wf_msp (zmsp rl)).
  { exists (length rl), mm. unfold zmsp. cbn [msp_M msp_lab].
    split; [split; [apply map_length|]|split; [apply map_length|split; [exact Hmm|destruct rl; [congruence|cbn; lia]]]].
    apply Forall_forall. intros v Hv. apply in_map_iff in Hv. destruct Hv as [[id v'] [<- Hin]].
    apply in_cnf_rl in Hin. destruct Hin as [cl [Hc _]]. apply in_combine_r in Hc.
    now apply clause_vectors_wf. }
  assert (HD : msp_D (zmsp rl) = mm).
  { destruct Hwf as [n [d [Hw [_ [_ Hn]]]]]. rewrite (msp_D_wf _ n d Hw Hn).
    destruct Hw as [_ HF]. unfold zmsp in HF. cbn [msp_M] in HF. rewrite Erows in HF. inversion HF; subst.
    assert (In r0 (map snd rl)) by (rewrite Erows; now left).
    apply in_map_iff in H. destruct H as [[id v'] [<- Hin]].
    apply in_cnf_rl in Hin. destruct Hin as [cl [Hc _]]. apply in_combine_r in Hc.
    now apply clause_vectors_wf. }
  assert (Hlab : msp_lab (zmsp rl) = map fst rl) by reflexivity. rewrite Hlab in Hknown.
  (* labels are shareholders *)
  assert (Hsh : forall id, In id (map fst rl) -> In id sh).
  { intros id Hid. apply in_map_iff in Hid. destruct Hid as [[id' v] [E Hin]]. cbn in E. subst id'.
    apply in_cnf_rl in Hin. destruct Hin as [cl [Hc Hid]]. apply in_combine_l in Hc.
    unfold clauses in Hc. apply in_map_iff in Hc. destruct Hc as [b [Eb _]]. rewrite <- Eb in Hid.
    rewrite in_sortN in Hid. unfold diffN in Hid. apply filter_In in Hid. tauto. }
  cbn [is_qualified].
  assert (Hsub : subsetb ids (concat mus) = true).
  { apply forallb_forall. intros id Hid. apply memN_In. apply in_nodupN. apply Hsh. now apply Hknown. }
  rewrite Hsub. cbn [andb].
  destruct ids as [|id0 ids0].
  { unfold accepts, recon_vector, sel_rows. cbn [forallb].
    assert (E : filter (fun i => memN (nth i (msp_lab (zmsp rl)) 0%N) []) (seq 0 (length (msp_lab (zmsp rl)))) = []).
    { induction (seq 0 _) as [|x l IHl]; [reflexivity|exact IHl]. }
    rewrite E. destruct mus as [|a b]; [congruence|]. reflexivity. }
  remember (id0 :: ids0) as ids eqn:Eids.
  assert (Hne' : ids <> []) by (subst; discriminate).
  pose proof (rejects_zipped_iff rl ids Hwf Hne' Hknown) as Hiff. rewrite HD in Hiff.
  (* structure of the clause vectors *)
  destruct mm as [|m1] eqn:Emm; [lia|].
  set (firsts := map (fun i => unit_vec K (S m1) (S i)) (seq 0 m1)).
  set (lastv := fold_left (vsub K) firsts (unit_vec K (S m1) 0)).
  assert (Hcvs : cvs = firsts ++ [lastv]) by reflexivity.
  assert (Hff : Forall (fun f => length f = S m1) firsts).
  { apply Forall_forall. intros f Hf. apply in_map_iff in Hf. destruct Hf as [i [<- _]]. apply unit_vec_length. }
  assert (Hlast : forall w, dot K lastv w = dot K (unit_vec K (S m1) 0) w - fsum_dot firsts w).
  { intros w. apply (dot_fold_vsub (S m1) firsts _ w (unit_vec_length K _ _) Hff). }
  (* a set u of mus is "hit" when some listed ID lies outside it *)
  assert (Hhit : forall b, In b sorted -> subsetb ids b = false ->
                 exists id, In id ids /\ In id (sortN (diffN sh b))).
  { intros b Hb Hs. unfold subsetb in Hs.
    assert (Hex : exists id, In id ids /\ memN id b = false).
    { clear -Hs. induction ids as [|x l IH]; [discriminate|]. cbn [forallb] in Hs.
      destruct (memN x b) eqn:E; [|exists x; split; [now left|auto]].
      destruct (IH Hs) as [id [Hi Hm]]. exists id. split; [now right|auto]. }
    destruct Hex as [id [Hid Hm]]. exists id. split; auto. rewrite in_sortN. unfold diffN.
    apply filter_In. split; [apply Hsh; now apply Hknown|]. now rewrite Hm. }
  destruct (forallb (fun u => negb (subsetb ids u)) mus) eqn:Eq.
  - (* qualified *)
    destruct (accepts K (zmsp rl) ids) eqn:Ea; [reflexivity|]. exfalso.
    destruct (proj1 Hiff eq_refl) as [w [Hw [Hk Hw0]]].
    assert (Hall : forall cv, In cv cvs -> dot K cv w = 0).
    { intros cv Hcv. apply (In_nth _ _ []) in Hcv. destruct Hcv as [j [Hj Hnth]].
      assert (Hjc : (j < length clauses)%nat) by lia.
      set (cl := nth j clauses []).
      assert (Hpair : In (cl, cv) (combine clauses cvs)).
      { rewrite <- Hnth. unfold cl. rewrite <- (combine_nth clauses cvs j [] []) by auto.
        apply nth_In. rewrite combine_length. lia. }
      assert (Hcl : In cl clauses) by (apply nth_In; auto).
      unfold clauses in Hcl. apply in_map_iff in Hcl. destruct Hcl as [b [Hb Hbs]].
      assert (Hbm : In b mus) by (now apply in_sort_sets).
      rewrite forallb_forall in Eq. specialize (Eq b Hbm). apply negb_true_iff in Eq.
      destruct (Hhit b Hbs Eq) as [id [Hid Hin]]. rewrite Hb in Hin.
      apply (Hk id cv); auto. apply in_cnf_rl. exists cl. split; auto. }
    assert (Hl0 : dot K lastv w = 0) by (apply Hall; rewrite Hcvs; apply in_or_app; right; now left).
    rewrite Hlast in Hl0.
    rewrite fsum_dot_zero in Hl0 by (intros f Hf; apply Hall; rewrite Hcvs; apply in_or_app; now left).
    rewrite (dot_comm K HK), (dot_unit_r K HK) in Hl0 by lia.
    assert (E : nth 0 w 0 = 0).
    { transitivity (nth 0 w 0 - 0); [ring|exact Hl0]. }
    rewrite E in Hw0. symmetry in Hw0. now apply (f1_neq_0 K HK).
  - (* unqualified: some b in mus contains all listed IDs *)
    assert (Hex : exists b, In b mus /\ subsetb ids b = true).
    { clear -Eq. induction mus as [|x l IH]; [discriminate|]. cbn [forallb] in Eq.
      destruct (subsetb ids x) eqn:E; [exists x; split; [now left|auto]|].
      cbn [negb andb] in Eq. destruct (IH Eq) as [b [Hb Hs]]. exists b. split; [now right|auto]. }
    destruct Hex as [b [Hb Hsb]].
    assert (Hbs : In b sorted) by (now apply in_sort_sets).
    apply (In_nth _ _ []) in Hbs. destruct Hbs as [k [Hk Hnk]]. fold mm in Hk. rewrite Emm in Hk.
    (* no listed ID lies in clause k *)
    assert (Hmiss : forall id, In id ids -> ~ In id (nth k clauses [])).
    { intros id Hid Hin. unfold clauses in Hin.
      rewrite (nth_map_lt _ sorted [] []) in Hin by (fold mm; lia). rewrite Hnk in Hin. rewrite in_sortN in Hin. unfold diffN in Hin. apply filter_In in Hin.
      destruct Hin as [_ Hn]. unfold subsetb in Hsb. rewrite forallb_forall in Hsb.
      rewrite (Hsb id Hid) in Hn. discriminate. }
    apply Hiff.
    set (w := if Nat.eqb k m1 then unit_vec K (S m1) 0
              else vadd K (unit_vec K (S m1) 0) (unit_vec K (S m1) (S k))).
    assert (Hwl : length w = S m1).
    { unfold w. destruct (Nat.eqb k m1); [apply unit_vec_length|].
      rewrite vadd_length; rewrite !unit_vec_length; auto. }
    assert (Hwn : forall j, nth j w 0 = if Nat.eqb j 0 then 1 else if Nat.eqb j (S k) && negb (Nat.eqb k m1) then 1 else 0).
    { intros j. unfold w. destruct (Nat.eqb k m1) eqn:Ek; cbn [negb].
      - rewrite (nth_unit_vec K). destruct j as [|j]; [reflexivity|].
        rewrite andb_false_r. cbn [Nat.eqb]. destruct (Nat.ltb (S j) (S m1)); reflexivity.
      - rewrite (nth_vadd K HK) by (rewrite !unit_vec_length; auto). rewrite !(nth_unit_vec K).
        apply Nat.eqb_neq in Ek. rewrite andb_true_r.
        destruct j as [|j].
        + assert (El : Nat.ltb 0 (S m1) = true) by (apply Nat.ltb_lt; lia). rewrite El. cbn [Nat.eqb]. ring.
        + cbn [Nat.eqb]. rewrite (Nat.eqb_sym k j).
          destruct (Nat.ltb (S j) (S m1)) eqn:El; destruct (Nat.eqb j k) eqn:Ejk; try ring.
          apply Nat.ltb_ge in El. apply Nat.eqb_eq in Ejk. lia. }
    exists w. split; [exact Hwl|]. split.
    + intros id v Hin Hid. apply in_cnf_rl in Hin. destruct Hin as [cl [Hc Hidcl]].
      apply (In_nth _ _ ([], [])) in Hc. destruct Hc as [j [Hj Hnj]].
      rewrite combine_length in Hj. rewrite combine_nth in Hnj by auto. inversion Hnj as [[Hcl Hv]].
      assert (Hjk : j <> k) by (intro; subst j; apply (Hmiss id Hid); now rewrite Hcl).
      assert (Hjm : (j < S m1)%nat) by (rewrite <- Hlen, Nat.min_id in Hj; unfold clauses in Hj; rewrite map_length in Hj; fold mm in Hj; lia).
      rewrite Hcvs. destruct (Nat.ltb j m1) eqn:Ejm.
      * apply Nat.ltb_lt in Ejm. rewrite app_nth1 by (unfold firsts; rewrite map_length, seq_length; lia).
        unfold firsts. rewrite (nth_map_lt _ (seq 0 m1) O []) by (rewrite seq_length; lia).
        rewrite seq_nth by lia. cbn [plus].
        rewrite (dot_comm K HK), (dot_unit_r K HK) by lia. rewrite Hwn. cbn [Nat.eqb].
        destruct (Nat.eqb j k) eqn:E; [apply Nat.eqb_eq in E; lia|]. reflexivity.
      * apply Nat.ltb_ge in Ejm. assert (j = m1) by lia. subst j.
        rewrite app_nth2 by (unfold firsts; rewrite map_length, seq_length; lia).
        unfold firsts at 1. rewrite map_length, seq_length, Nat.sub_diag. cbn [nth].
        rewrite Hlast. rewrite (dot_comm K HK), (dot_unit_r K HK) by lia. rewrite Hwn. cbn [Nat.eqb].
        assert (Ek : Nat.eqb k m1 = false) by (apply Nat.eqb_neq; lia).
        unfold firsts. rewrite (fsum_dot_units (S m1) m1 0 k w Hwl).
        -- assert (E1 : in_range 0 m1 k = true).
           { unfold in_range. destruct (Nat.leb_spec 0 k), (Nat.ltb_spec k (0 + m1)); cbn [andb]; try reflexivity; lia. }
           rewrite E1. ring.
        -- intros j. rewrite Hwn, Ek. cbn [negb]. now rewrite andb_true_r.
        -- cbn. lia.
    + rewrite Hwn. reflexivity.
Qed.

(* ---- unanimity ----------------------------------------------------------------------------------------- *)

Theorem una_accepts_iff : forall ps m ids,
  induced_una K ps = Some m ->
  (forall id, In id ids -> In id (msp_lab m)) ->
  accepts K m ids = is_qualified (Una ps) ids.
Proof.
  intros ps m ids Hind Hknown. unfold induced_una in Hind.
  set (hs := sortN (nodupN ps)) in *.
  destruct (length hs) as [|n1] eqn:En; [discriminate|].
  set (n := S n1) in *.
  set (tops := map (fun r => unit_vec K n (S r)) (seq 0 n1)) in *.
  set (g := fun c => if Nat.eqb c 0 then 1 else fopp K 1).
  set (lastr := map g (seq 0 n)) in *.
  unfold new_msp in Hind. destruct (_ && _); [|discriminate]. inversion Hind; subst m. clear Hind.
  set (rows := tops ++ [lastr]) in *.
  assert (Hrl : length rows = length hs).
  { unfold rows, tops. rewrite app_length, map_length, seq_length. cbn. lia. }
  set (rl := combine hs rows).
  assert (Hz : mk_msp rows hs = zmsp rl).
  { unfold zmsp, rl. f_equal; [now rewrite map_snd_combine|now rewrite map_fst_combine]. }
  change (forall id, In id ids -> In id hs) in Hknown.
  change (accepts K (mk_msp rows hs) ids = is_qualified (Una ps) ids). rewrite Hz.
  assert (Hlab : msp_lab (zmsp rl) = hs).
  { rewrite <- Hz. reflexivity. }
  assert (Hrowlen : forall v, In v rows -> length v = n).
  { intros v Hv. unfold rows in Hv. apply in_app_or in Hv. destruct Hv as [Hv|[<-|[]]].
    - unfold tops in Hv. apply in_map_iff in Hv. destruct Hv as [r [<- _]]. apply unit_vec_length.
    - unfold lastr. now rewrite map_length, seq_length. }
  assert (Hwf : wf_msp (zmsp rl)).
  { rewrite <- Hz. exists (length hs), n. cbn [msp_M msp_lab].
    split; [split; [exact Hrl|]|split; [reflexivity|split; [unfold n; lia|lia]]].
    apply Forall_forall. exact Hrowlen. }
  assert (HD : msp_D (zmsp rl) = n).
  { destruct Hwf as [n' [d [Hw [_ [_ Hn]]]]]. rewrite (msp_D_wf _ n' d Hw Hn).
    destruct Hw as [_ HF]. rewrite <- Hz in HF. cbn [msp_M] in HF. rewrite Forall_forall in HF.
    assert (In lastr rows) by (unfold rows; apply in_or_app; right; now left).
    rewrite <- (HF lastr H). now apply Hrowlen. }
  assert (Hhs : forall id, In id hs <-> In id ps).
  { intros. unfold hs. now rewrite in_sortN, in_nodupN. }
  cbn [is_qualified]. unfold seteqb.
  assert (Hsub : subsetb ids ps = true).
  { apply forallb_forall. intros id Hid. apply memN_In. apply Hhs. now apply Hknown. }
  rewrite Hsub. cbn [andb].
  destruct ids as [|id0 ids0].
  { rewrite accepts_nil. symmetry. unfold subsetb.
    destruct hs as [|h0 ht] eqn:Ehs; [discriminate|].
    assert (In h0 ps) by (apply Hhs; now left).
    destruct (forallb (fun x => memN x []) ps) eqn:Ef; [|reflexivity].
    rewrite forallb_forall in Ef. specialize (Ef h0 H). discriminate. }
  remember (id0 :: ids0) as ids eqn:Eids.
  assert (Hne' : ids <> []) by (subst; discriminate).
  assert (Hknown' : forall id, In id ids -> In id (map fst rl)).
  { intros id Hid. change (map fst rl) with (msp_lab (zmsp rl)). rewrite Hlab. now apply Hknown. }
  pose proof (rejects_zipped_iff rl ids Hwf Hne' Hknown') as Hiff. rewrite HD in Hiff.
  (* the pair list by index *)
  assert (Hpair : forall r, (r < length hs)%nat -> In (nth r hs 0%N, nth r rows []) rl).
  { intros r Hr. unfold rl. rewrite <- (combine_nth hs rows r 0%N []) by auto.
    apply nth_In. rewrite combine_length. lia. }
  assert (Hpair_inv : forall id v, In (id, v) rl -> exists r, (r < length hs)%nat /\ id = nth r hs 0%N /\ v = nth r rows []).
  { intros id v Hin. unfold rl in Hin. apply (In_nth _ _ (0%N, [])) in Hin. destruct Hin as [r [Hr Hn]].
    rewrite combine_length in Hr. rewrite combine_nth in Hn by auto. inversion Hn. exists r. repeat split; auto. lia. }
  assert (Htop : forall r, (r < n1)%nat -> nth r rows [] = unit_vec K n (S r)).
  { intros r Hr. unfold rows. rewrite app_nth1 by (unfold tops; rewrite map_length, seq_length; lia).
    unfold tops. rewrite (nth_map_lt _ (seq 0 n1) O []) by (rewrite seq_length; lia). now rewrite seq_nth by lia. }
  assert (Hlastr : nth n1 rows [] = lastr).
  { unfold rows. rewrite app_nth2 by (unfold tops; rewrite map_length, seq_length; lia).
    unfold tops. rewrite map_length, seq_length, Nat.sub_diag. reflexivity. }
  destruct (subsetb ps ids) eqn:Eq.
  - (* qualified: all rows selected *)
    destruct (accepts K (zmsp rl) ids) eqn:Ea; [reflexivity|]. exfalso.
    destruct (proj1 Hiff eq_refl) as [w [Hw [Hk Hw0]]].
    assert (Hrows0 : forall r, (r < length hs)%nat -> dot K (nth r rows []) w = 0).
    { intros r Hr. apply (Hk (nth r hs 0%N)); [now apply Hpair|].
      unfold subsetb in Eq. rewrite forallb_forall in Eq. apply memN_In. apply Eq. apply Hhs. now apply nth_In. }
    assert (Hwc : forall c, (1 <= c)%nat -> nth c w 0 = 0).
    { intros c Hc. destruct (Nat.ltb c n) eqn:Ecn.
      - apply Nat.ltb_lt in Ecn. destruct c as [|c]; [lia|].
        rewrite <- (dot_unit_r K HK w n (S c)) by lia. rewrite (dot_comm K HK).
        rewrite <- Htop by (unfold n in Ecn; lia). apply Hrows0. unfold n in Ecn. lia.
      - apply Nat.ltb_ge in Ecn. apply nth_overflow. lia. }
    assert (Hl0 : dot K lastr w = 0) by (rewrite <- Hlastr; apply Hrows0; lia).
    destruct w as [|w0 wt]; [cbn in Hw; unfold n in Hw; lia|].
    unfold lastr, n in Hl0. cbn [seq map] in Hl0. rewrite (dot_cons K HK) in Hl0.
    rewrite (dot_all_zero K HK) in Hl0.
    + cbn [nth] in Hw0. unfold g in Hl0. cbn [Nat.eqb] in Hl0.
      assert (E : w0 = 0) by (transitivity (1 * w0 + 0); [ring|exact Hl0]).
      rewrite E in Hw0. symmetry in Hw0. now apply (f1_neq_0 K HK).
    + intros j. specialize (Hwc (S j) ltac:(lia)). cbn [nth] in Hwc. rewrite Hwc. ring.
  - (* unqualified: some holder is missing *)
    assert (Hex : exists h, In h ps /\ ~ In h ids).
    { unfold subsetb in Eq. clear -Eq. induction ps as [|x l IH]; [discriminate|]. cbn [forallb] in Eq.
      destruct (memN x ids) eqn:E.
      - destruct (IH Eq) as [h [Hh Hn]]. exists h. split; [now right|auto].
      - exists x. split; [now left|]. intro Hin. apply memN_In in Hin. congruence. }
    destruct Hex as [h [Hh Hnin]]. apply Hhs in Hh.
    apply (In_nth _ _ 0%N) in Hh. destruct Hh as [j [Hj Hnj]].
    apply Hiff.
    set (w := if Nat.eqb j n1 then unit_vec K n 0 else vadd K (unit_vec K n 0) (unit_vec K n (S j))).
    assert (Hwl : length w = n).
    { unfold w. destruct (Nat.eqb j n1); [apply unit_vec_length|].
      rewrite vadd_length; rewrite !unit_vec_length; auto. }
    exists w. split; [exact Hwl|]. split.
    + intros id v Hin Hid. destruct (Hpair_inv id v Hin) as [r [Hr [Eid Ev]]].
      assert (Hrj : r <> j) by (intro; subst r; apply Hnin; rewrite <- Hnj, <- Eid; exact Hid).
      subst v. destruct (Nat.ltb r n1) eqn:Ern.
      * apply Nat.ltb_lt in Ern. rewrite Htop by auto.
        rewrite (dot_comm K HK), (dot_unit_r K HK) by (unfold n; lia). unfold w.
        destruct (Nat.eqb j n1).
        -- rewrite (nth_unit_vec K). destruct (Nat.ltb (S r) n); reflexivity.
        -- rewrite (nth_vadd K HK) by (rewrite !unit_vec_length; auto). rewrite !(nth_unit_vec K).
           destruct (Nat.ltb (S r) n); [|ring]. cbn [Nat.eqb].
           destruct (Nat.eqb j r) eqn:E; [apply Nat.eqb_eq in E; lia|ring].
      * apply Nat.ltb_ge in Ern. assert (r = n1) by lia. subst r. rewrite Hlastr. unfold w.
        assert (Ej : Nat.eqb j n1 = false) by (apply Nat.eqb_neq; lia). rewrite Ej.
        rewrite (dot_vadd_r K HK) by (rewrite !(unit_vec_length K); auto).
        rewrite !(dot_unit_r K HK) by (unfold n; lia).
        unfold lastr. rewrite !nth_map_seq.
        assert (E1 : Nat.ltb 0 n = true) by (apply Nat.ltb_lt; unfold n; lia).
        assert (E2 : Nat.ltb (S j) n = true) by (apply Nat.ltb_lt; unfold n; lia).
        rewrite E1, E2. unfold g. cbn [plus Nat.eqb]. ring.
    + unfold w. destruct (Nat.eqb j n1).
      * rewrite (nth_unit_vec K). reflexivity.
      * rewrite (nth_vadd K HK) by (rewrite !unit_vec_length; auto). rewrite !(nth_unit_vec K).
        assert (E1 : Nat.ltb 0 n = true) by (apply Nat.ltb_lt; unfold n; lia). rewrite E1. cbn [Nat.eqb]. ring.
Qed.

End Families.

(* the CNF statement does not mention FromUint64 *)
Theorem cnf_accepts_iff_closed : forall F (K : fops F), flaws K -> forall mus (m : msp) ids,
  induced_cnf K mus = Some m ->
  (forall id, In id ids -> In id (msp_lab m)) ->
  accepts K m ids = is_qualified (Cnf mus) ids.
Proof. intros F K HK. exact (cnf_accepts_iff K HK (fun _ => f0 K)). Qed.

(* ---- a single threshold gate over distinct leaves (AND / OR / t-of-n gate) ---------------------------------
   The general statement — accepts (induced_gate tree) ids = tree_eval ids tree for every checked tree —
   is NOT proved (it needs the induction over the gate expansions of convert); this is the depth-1 case. *)
From Coq Require Import Permutation.

Section FlatGate.
Context {F : Type} (K : fops F) (HK : flaws K) (fromN : N -> F).

Add Field Kfield9 : (fl_theory K HK).

(* the node convert gives to the child at position i of the root gate: FromUint64(i) - FromUint64(0) + 1 *)
Definition gate_node (i : nat) : F := fadd K (fsub K (fromN (N.of_nat i)) (fromN (N.of_nat 0))) (f1 K).

Definition leaf_index (leaves : list N) (id : N) : nat :=
  match find_index (N.eqb id) leaves with Some i => i | None => O end.

Lemma find_index_nth : forall (leaves : list N) i, NoDup leaves -> (i < length leaves)%nat ->
  find_index (N.eqb (nth i leaves 0%N)) leaves = Some i.
Proof.
  induction leaves as [|a l IH]; intros i Hnd Hi; [cbn in Hi; lia|]. inversion Hnd; subst.
  destruct i; cbn [nth find_index].
  - now rewrite N.eqb_refl.
  - destruct (N.eqb (nth i l 0%N) a) eqn:E.
    + apply N.eqb_eq in E. exfalso. apply H1. rewrite <- E. apply nth_In. cbn in Hi. lia.
    + rewrite IH by (auto; cbn in Hi; lia). reflexivity.
Qed.

Lemma find_index_leaves_none : forall leaves, find_index (fun n => negb (is_leaf n)) (map Leaf leaves) = None.
Proof. induction leaves as [|a l IH]; [reflexivity|]. cbn [map find_index is_leaf negb]. now rewrite IH. Qed.

Lemma leaf_ids_map_Leaf : forall leaves, leaf_ids (map Leaf leaves) = leaves.
Proof. induction leaves as [|a l IH]; [reflexivity|]. cbn. unfold leaf_ids in IH. now rewrite IH. Qed.

Lemma forallb_is_leaf_map : forall leaves, forallb is_leaf (map Leaf leaves) = true.
Proof. induction leaves as [|a l IH]; [reflexivity|]. cbn. exact IH. Qed.

Lemma map_by_index : forall {B} (f : N -> B) (l : list N),
  map f l = map (fun i => f (nth i l 0%N)) (seq 0 (length l)).
Proof.
  intros B f l. assert (G : forall s, map f l = map (fun i => f (nth (i - s) l 0%N)) (seq s (length l))).
  { induction l as [|a l IH]; intros s; [reflexivity|]. cbn [length seq map]. rewrite Nat.sub_diag. cbn [nth]. f_equal.
    rewrite (IH (S s)). apply map_ext_in. intros i Hi. apply in_seq in Hi.
    replace (i - s)%nat with (S (i - S s)) by lia. reflexivity. }
  rewrite (G O). apply map_ext. intros i. now rewrite Nat.sub_0_r.
Qed.

Lemma powers_from_acc_eq : forall a b x n, a = b -> powers_from K a x n = powers_from K b x n.
Proof. intros; subst; reflexivity. Qed.

Lemma count_true_filter : forall {A} (p : A -> bool) l, count_true (map p l) = length (filter p l).
Proof.
  intros A p l. unfold count_true. induction l as [|a l IH]; [reflexivity|]. cbn [map filter].
  destruct (p a); cbn [length]; now rewrite IH.
Qed.

Theorem gate_flat_exact : forall t leaves m ids,
  induced_gate K fromN (Gate t (map Leaf leaves)) = Some m ->
  NoDup leaves -> (0 < t)%nat -> leaves <> [] ->
  (forall i j, (i < length leaves)%nat -> (j < length leaves)%nat -> gate_node i = gate_node j -> i = j) ->
  (forall i, (i < length leaves)%nat -> gate_node i <> f0 K) ->
  (forall id, In id ids -> In id leaves) ->
  accepts K m ids = tree_eval ids (Gate t (map Leaf leaves)).
Proof.
  intros t leaves m ids Hind Hnd Ht Hne Hinj Hnz Hknown.
  destruct t as [|t']; [lia|].
  set (g := fun id => gate_node (leaf_index leaves id)).
  (* the induced MSP is the Vandermonde MSP with node g(id) for leaf id, rows in leaf order *)
  assert (Hm : m = zmsp (thr_rl K g (S t') leaves)).
  { unfold induced_gate in Hind. cbn [tree_size] in Hind.
    cbn [convert_loop] in Hind. unfold expand at 1 in Hind. cbn [find_index is_leaf negb nth] in Hind.
    cbn [firstn skipn map app length pred] in Hind.
    destruct (fold_right _ 0%nat (map Leaf leaves)) as [|k] eqn:Ef; cbn [convert_loop] in Hind;
      unfold expand in Hind; rewrite !app_nil_r, find_index_leaves_none in Hind;
      rewrite forallb_is_leaf_map, leaf_ids_map_Leaf in Hind; unfold new_msp in Hind;
      (destruct (_ && _) eqn:Echk; [|discriminate]); inversion Hind; subst m; clear Hind.
    all: unfold zmsp, thr_rl; rewrite !map_map; cbn [fst snd]; rewrite map_id; f_equal.
    all: rewrite map_length; rewrite (map_by_index (fun id => vander_row K (g id) (S t')) leaves).
    all: apply map_ext_in; intros i Hi; apply in_seq in Hi.
    all: unfold g, leaf_index; rewrite (find_index_nth leaves i Hnd) by lia.
    all: unfold vander_row, gate_node; cbn [powers_from app]; f_equal.
    all: apply powers_from_acc_eq; change (N.of_nat 0) with 0%N; ring. }
  subst m.
  assert (Hlab : forall id, In id leaves -> exists i, (i < length leaves)%nat /\ leaf_index leaves id = i /\ nth i leaves 0%N = id).
  { intros id Hid. apply (In_nth _ _ 0%N) in Hid. destruct Hid as [i [Hi E]]. exists i. split; [auto|].
    split; [|exact E]. unfold leaf_index. rewrite <- E. now rewrite (find_index_nth leaves i Hnd Hi). }
  rewrite (vander_accepts K HK g (S t') leaves ids); auto; try lia.
  - (* both sides count the distinct listed leaves *)
    cbn [tree_eval]. f_equal. rewrite map_map. cbn [tree_eval]. rewrite count_true_filter.
    unfold card. apply Permutation_length. apply NoDup_Permutation.
    + apply nodupN_NoDup.
    + now apply NoDup_filter.
    + intros x. rewrite in_nodupN, filter_In, memN_In. split; [intros Hx; split; auto|tauto].
  - intros a b Ha Hb E. destruct (Hlab a Ha) as [i [Hi [Ei Ni]]]. destruct (Hlab b Hb) as [j [Hj [Ej Nj]]].
    unfold g in E. rewrite Ei, Ej in E. pose proof (Hinj i j Hi Hj E). subst j. congruence.
  - intros id Hid. destruct (Hlab id Hid) as [i [Hi [Ei _]]]. unfold g. rewrite Ei. now apply Hnz.
Qed.

End FlatGate.
