(* F7_instance.v — the field with seven elements as a closed type with its laws, used only for
   the non-vacuity Examples of props/C14.v (a concrete field, curve y^2 = x^3 + 2 without
   2-torsion, Edwards curve with non-square d). *)
From Coq Require Import ZArith Field Ring Bool.
Require Import V.base.Fld.

Inductive F7 : Type := A0 | A1 | A2 | A3 | A4 | A5 | A6.

Definition F7_toZ (x : F7) : Z :=
  match x with A0 => 0 | A1 => 1 | A2 => 2 | A3 => 3 | A4 => 4 | A5 => 5 | A6 => 6 end.
Definition F7_ofZ (z : Z) : F7 :=
  match (z mod 7)%Z with
  | 0%Z => A0 | 1%Z => A1 | 2%Z => A2 | 3%Z => A3 | 4%Z => A4 | 5%Z => A5 | _ => A6
  end.

Definition F7ops : fops F7 := {|
  f0 := A0; f1 := A1;
  fadd := fun x y => F7_ofZ (F7_toZ x + F7_toZ y);
  fmul := fun x y => F7_ofZ (F7_toZ x * F7_toZ y);
  fsub := fun x y => F7_ofZ (F7_toZ x - F7_toZ y);
  fopp := fun x => F7_ofZ (- F7_toZ x);
  finv := fun x => F7_ofZ (F7_toZ x ^ 5);
  fdiv := fun x y => F7_ofZ (F7_toZ x * F7_toZ (F7_ofZ (F7_toZ y ^ 5)));
  feqb := fun x y => Z.eqb (F7_toZ x) (F7_toZ y)
|}.

Lemma F7laws : flaws F7ops.
Proof.
  constructor.
  - constructor.
    + constructor.
      * intros []; reflexivity.
      * intros [] []; reflexivity.
      * intros [] [] []; reflexivity.
      * intros []; reflexivity.
      * intros [] []; reflexivity.
      * intros [] [] []; reflexivity.
      * intros [] [] []; reflexivity.
      * intros [] []; reflexivity.
      * intros []; reflexivity.
    + discriminate.
    + intros [] []; reflexivity.
    + intros [] H; try reflexivity. exfalso; apply H; reflexivity.
  - intros [] []; cbn; split; intro H; try reflexivity; try discriminate H.
Qed.
